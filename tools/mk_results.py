#!/usr/bin/env python3
"""
Regenerates the machine-written tables of DESIGN.md §9 (between the markers
<!-- BEGIN GENERATED RESULTS --> and <!-- END GENERATED RESULTS -->) from evidence/*.json,
seeded/*/meta.json + seeded/RESULTS.json, known_findings.json and the REGISTRY literals.
"""
import glob
import json
import os
import re
import subprocess
import sys

VERIF = os.path.dirname(os.path.dirname(os.path.abspath(__file__)))
sys.path.insert(0, VERIF)
from harness.registry import CHECKS  # noqa


def esc(s):
    return str(s).replace('|', '\\|').replace('\n', ' ')


def lean_lines():
    tot = {}
    for sub in ('Model', 'Spec', 'Lemmas', 'Props', 'Generated'):
        n = 0
        for f in glob.glob(os.path.join(VERIF, 'lean', 'PeptVerif', sub, '*.lean')):
            n += sum(1 for _ in open(f))
        tot[sub] = n
    tot['Driver'] = sum(sum(1 for _ in open(f)) for f in glob.glob(os.path.join(VERIF, 'lean', 'Driver', '*.lean')))
    return tot


def main():
    out = []
    out.append('### 9.1 What each check covered on its last run against /repo (from evidence/*.json)\n')
    out.append('| id | tier | theorems (obligations) | discharged | correspondence + oracle evaluations | distinct non-trivial | wall s |')
    out.append('|---|---|---|---|---|---|---|')
    tot_o = 0
    for f in sorted(glob.glob(os.path.join(VERIF, 'evidence', 'C*.json'))):
        e = json.load(open(f))
        c = e['coverage']
        o = c.get('obligations', c.get('obligations_found', 0))
        d = c.get('discharged', c.get('discharged_found', 0))
        tot_o += o
        out.append(f"| {e['property_id']} | {e['tier']} | {o} | {d} | {c['evaluations']} | {c['distinct_nontrivial']} | {e['wall_s']} |")
    ll = lean_lines()
    out.append(f'\nTotal property theorems: {tot_o}. Lean source lines: ' + ', '.join(f'{k} {v}' for k, v in ll.items()) + '.\n')

    out.append('### 9.2 Seeded changes (independent sub-agents, given only the property text) and which checks catch them\n')
    res = {}
    rp = os.path.join(VERIF, 'seeded', 'RESULTS.json')
    if os.path.exists(rp):
        res = json.load(open(rp))
    out.append('| seed | breaks | change | needs, to manifest | tests still pass | caught by (exit 1) | concrete failing input from |')
    out.append('|---|---|---|---|---|---|---|')
    n = det = 0
    for mf in sorted(glob.glob(os.path.join(VERIF, 'seeded', '*', 'meta.json'))):
        sid = os.path.basename(os.path.dirname(mf))
        m = json.load(open(mf))
        r = res.get(sid, {})
        caught = [p for p, c in r.get('checks', {}).items() if c['exit'] == 1 and c['violation_lines']]
        conc = [p for p, c in r.get('checks', {}).items() if c['exit'] == 1 and c.get('concrete_input')]
        n += 1
        det += bool(caught)
        out.append(f"| {sid} | {m['property']} | {esc(m.get('title', ''))[:160]} | {esc(m.get('needs_to_manifest', ''))[:220]} | "
                   f"{'yes' if r.get('tests_pass', True) else 'NO'} | {', '.join(caught) or 'MISSED'} | {', '.join(conc) or '-'} |")
    out.append(f'\n{det} of {n} kept seeded changes are reported as a VIOLATION by at least one registered check (quick tier).\n')

    out.append('### 9.2a Harmless (behaviour-preserving) refactors and whether any check raised an alarm\n')
    hres = {}
    hp = os.path.join(VERIF, 'harmless', 'RESULTS.json')
    if os.path.exists(hp):
        hres = json.load(open(hp))
    out.append('| refactor | property | what was refactored | tests still pass | check exit codes | alarm |')
    out.append('|---|---|---|---|---|---|')
    hn = ha = 0
    for mf in sorted(glob.glob(os.path.join(VERIF, 'harmless', '*', 'meta.json'))):
        hid = os.path.basename(os.path.dirname(mf))
        m = json.load(open(mf))
        r = hres.get(hid, {})
        hn += 1
        ha += bool(r.get('alarm'))
        codes = ', '.join(f"{p_}:{c_['exit']}" for p_, c_ in r.get('checks', {}).items())
        out.append(f"| {hid} | {m.get('property', '')} | {esc(m.get('title', ''))[:200]} | "
                   f"{'yes' if r.get('tests_pass', True) else 'NO'} | {codes} | {'ALARM' if r.get('alarm') else 'none'} |")
    out.append(f'\n{ha} of {hn} harmless refactors made a check exit non-zero (quick tier, final state of the checks).\n')

    out.append('### 9.3 Defects found on the unchanged tree (known_findings.json)\n')
    kf = json.load(open(os.path.join(VERIF, 'known_findings.json')))['findings']
    out.append('| property | status | id | commit | what |')
    out.append('|---|---|---|---|---|')
    for e in sorted(kf, key=lambda e: (e['property'], e['status'], e['id'])):
        out.append(f"| {e['property']} | {e['status']} | {e['id']} | {e.get('commit', '')} | {esc(e['what'])[:260]} |")
    nk = sum(1 for e in kf if e['status'] == 'known')
    out.append(f"\n{len(kf)} entries: {len(kf) - nk} repaired by `fix:` commits in /repo, {nk} recorded as known findings.\n")
    try:
        log = subprocess.run(['git', '-C', '/repo', 'log', '--format=%h %s', '1294716..HEAD'], capture_output=True, text=True).stdout.strip().split('\n')
        out.append(f'`git -C /repo log` shows {len([l for l in log if l])} commits after the pinned snapshot, all starting with `fix:`: '
                   + str(all(l.split(" ", 1)[1].startswith("fix:") for l in log if l)) + '.\n')
    except Exception:
        pass

    out.append('### 9.4 What MANIFEST.json claims per property (REGISTRY literals)\n')
    for c in CHECKS:
        out.append(f"* **{c['id']}** — {c['text']}\n  *Trusted / assumed:* {c['note']}")
    body = '\n'.join(out) + '\n'
    p = os.path.join(VERIF, 'DESIGN.md')
    s = open(p).read()
    b, e = '<!-- BEGIN GENERATED RESULTS -->', '<!-- END GENERATED RESULTS -->'
    if b not in s:
        print('markers not found in DESIGN.md', file=sys.stderr)
        sys.exit(1)
    s = s[:s.index(b) + len(b)] + '\n' + body + s[s.index(e):]
    open(p, 'w').write(s)
    print('DESIGN.md §9 tables regenerated')


if __name__ == '__main__':
    main()
