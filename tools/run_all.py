#!/usr/bin/env python3
"""run every registered check (MANIFEST.json) for the given tier/seeds, N at a time; print a summary table"""
import argparse, json, os, subprocess, sys, time
from concurrent.futures import ThreadPoolExecutor
VERIF = os.path.dirname(os.path.dirname(os.path.abspath(__file__)))
ap = argparse.ArgumentParser()
ap.add_argument('--tier', default='quick')
ap.add_argument('--seeds', default='0')
ap.add_argument('-j', type=int, default=4)
ap.add_argument('--only', nargs='*')
a = ap.parse_args()
m = json.load(open(os.path.join(VERIF, 'MANIFEST.json')))
jobs = [(c['property_id'], int(s)) for c in m['checks'] for s in a.seeds.split(',') if not a.only or c['property_id'] in a.only]
def run(job):
    pid, seed = job
    t0 = time.time()
    env = dict(os.environ, VERIF_SEED=str(seed))
    p = subprocess.run(['./check', pid, '--tier', a.tier], cwd=VERIF, env=env, capture_output=True, text=True)
    lines = [l for l in (p.stdout + p.stderr).split('\n') if l.startswith(('VIOLATION', 'KNOWN-FINDING', 'INFRA'))]
    return pid, seed, p.returncode, round(time.time() - t0, 1), lines
bad = 0
with ThreadPoolExecutor(a.j) as ex:
    for pid, seed, rc, wall, lines in ex.map(run, jobs):
        print(f'{pid} seed={seed} exit={rc} wall={wall}s', '' if rc == 0 else '  <<<<<<')
        for l in lines[:6]:
            print('    ', l[:200])
        bad += rc != 0
print('non-zero exits:', bad)
sys.exit(1 if bad else 0)
