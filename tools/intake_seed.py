#!/usr/bin/env python3
"""copies the output of a round-4 seeding agent (/tmp/seed/<pid>-out/{1,2}) to /verif/seeded/<pid>-7, -8"""
import json, os, shutil, sys
for pid in sys.argv[1:]:
    for k, n in (('1', 7), ('2', 8)):
        src = f'/tmp/seed/{pid}-out/{k}'
        if not os.path.exists(src + '/patch.diff'):
            print('missing', src); continue
        dst = f'/verif/seeded/{pid}-{n}'
        shutil.rmtree(dst, ignore_errors=True)
        os.makedirs(dst)
        for f in ('patch.diff', 'demo.py', 'meta.json'):
            shutil.copy(f'{src}/{f}', dst)
        m = json.load(open(dst + '/meta.json'))
        m['property'] = pid
        m['round'] = 4
        json.dump(m, open(dst + '/meta.json', 'w'), indent=1)
        print('intake', dst, '-', m.get('title', '')[:100])
