#!/usr/bin/env python3
"""prints the prompt for a seeding sub-agent (property text only; nothing about /verif's machinery)"""
import json, sys
pid = sys.argv[1]
for l in open('/verif/properties.jsonl'):
    p = json.loads(l)
    if p['id'] == pid:
        break
files = ', '.join(p['anchors']['files'])
print(f'''You are helping to test a verification framework by playing the role of a developer who introduces a subtle regression. You work ONLY inside the git worktree `/tmp/seed/{pid}` (a checkout of the Python library pgarrett-scripps/peptacular; sources in `src/peptacular`, tests in `tests`). Do not read or write anything under `/verif` and do not touch `/repo`. There is no network. Python: `/venv/bin/python`; run things with `cd /tmp/seed/{pid} && PYTHONPATH=/tmp/seed/{pid}/src /venv/bin/python …` (never with cwd inside `src/peptacular`: its types.py shadows the stdlib). Test suite: `cd /tmp/seed/{pid} && PYTHONPATH=/tmp/seed/{pid}/src /venv/bin/python -m pytest -q -p no:cacheprovider --timeout=900` (111 tests incl. doctests, ~10 s; all pass now).

The property (of the library) you are to break:

"{p['title']}. {p['statement']}"
(Quantified over: {p['quantifier']['text']}. Relevant code: {files}.)

Task: produce TWO independent, realistic source changes (each the kind of thing a maintainer might plausibly commit: a refactor, an "optimisation", an off-by-one, a changed default, a boundary condition, a caching or de-duplication shortcut, a dropped copy, a changed table entry or regex …) such that for EACH change:
  1. the library still imports and the full existing test suite (all 111 tests incl. doctests) still passes unedited;
  2. the property above is violated for some inputs;
  3. the violation needs something *specific* to manifest — an unusual input, a particular combination of parameters, a multi-step sequence of calls, a boundary that small examples do not reach, or two cooperating sites that each look fine alone — i.e. the most ordinary use of the affected functions with default arguments on a plain example must still behave correctly. The two changes should use different mechanisms in different functions.
For each change write, under `/tmp/seed/{pid}-out/1/` and `/tmp/seed/{pid}-out/2/`:
  - `patch.diff` — `git diff` of the change relative to the worktree's HEAD (apply one change at a time; reset the worktree with `git checkout -- .` between them so each patch is independent and applies to a clean HEAD);
  - `demo.py` — a small standalone script (uses only `peptacular` and the stdlib, imports the library from PYTHONPATH) that exits 0 on the unchanged library and exits non-zero (assert failure) with the change applied, demonstrating the property violation on a concrete input by comparing against an independently computed expectation written in the script itself;
  - `meta.json` — {{"property": "{pid}", "title": …, "what_breaks": …, "needs_to_manifest": …, "files": […], "ran": ["commands you ran and their outcome"]}}.
Verify all three requirements yourself for each change (run the test suite with the change applied; run demo.py with and without the change). When finished leave the worktree clean (`git checkout -- .`) and report the two titles and one-line descriptions.''')
