-- This module serves as the root of the `PeptVerif` library.
-- Import modules here that should be built as part of the library.
import PeptVerif.Basic
