import PeptVerif.Model.Proto
import PeptVerif.Model.Annotation
import PeptVerif.Model.CompCalc
import PeptVerif.Spec.Mass
import PeptVerif.Model.MassEnv
import PeptVerif.Model.Formula
/-! Line-protocol operations shared by the drivers of C02, C03, C05 (mass tables, mass / composition calculators,
specification). Mathlib-free. -/
open Pept Pept.Chem Pept.Mass Proto

namespace MassOps

/-! ### numbers -/

def digitsToNat (s : List Char) : Option Nat :=
  if s.isEmpty then none else s.foldlM (fun a c => if c.isDigit then some (a * 10 + (c.toNat - 48)) else none) 0

/-- decimal text of a Python float/int (`repr`): sign, digits, optional fraction, optional exponent -/
def parseDec? (s : String) : Option Rat :=
  let cs := s.toList
  let (neg, cs) := match cs with
    | '-' :: r => (true, r)
    | '+' :: r => (false, r)
    | r => (false, r)
  let (mant, exp) := match cs.span (fun c => c != 'e' && c != 'E') with
    | (m, []) => (m, ([] : List Char))
    | (m, _ :: e) => (m, e)
  let (ip, fp) := match mant.span (· != '.') with
    | (i, []) => (i, ([] : List Char))
    | (i, _ :: f) => (i, f)
  if ip.isEmpty && fp.isEmpty then none else
  match digitsToNat (if ip.isEmpty then ['0'] else ip), digitsToNat (if fp.isEmpty then ['0'] else fp) with
  | some i, some f =>
    let base : Rat := (i : Rat) + (f : Rat) / pow10 (if fp.isEmpty then 1 else fp.length)
    let e : Option Int := if exp.isEmpty then some 0 else (String.ofList exp).toInt?
    match e with
    | none => none
    | some e =>
      let v := if 0 ≤ e then base * pow10 e.toNat else base / pow10 (-e).toNat
      some (if neg then -v else v)
  | _, _ => none

def padLeft (s : String) (n : Nat) : String := String.ofList (List.replicate (n - s.length) '0') ++ s

/-- exact rational to `d` decimals (rounded half up on the magnitude) -/
def showRat (q : Rat) (d : Nat := 15) : String :=
  let neg := q < 0
  let a := if neg then -q else q
  let scaled := ((a * pow10 d + 1 / 2).floor).toNat
  let ip := scaled / 10 ^ d
  let fp := scaled % 10 ^ d
  (if neg && scaled != 0 then "-" else "") ++ toString ip ++ "." ++ padLeft (toString fp) d

def showExact (q : Rat) : String := toString q.num ++ "/" ++ toString q.den

def showComp (c : Comp) : String :=
  ",".intercalate (c.map fun p => keyToString p.1 ++ "=" ++ showExact p.2)

def showRes : Except Err Rat → String
  | .ok v => "ok " ++ showRat v
  | .error e => e.show

/-! ### environment (resolver table, parsed static rules) -/

def parseErrOr {α} (s : String) (f : String → Option α) : Option (Except Err α) :=
  match s.toList with
  | 'E' :: cls => some (.error (.named cls))
  | _ => (f s).map .ok

def parseComp? (s : String) : Option Comp :=
  match s.toList with
  | 'C' :: r =>
    let body := String.ofList r
    if body.isEmpty then some [] else
    (body.splitOn "&").mapM fun (e : String) =>
      match e.splitOn ":" with
      | [sym, n] => do
        let sym ← Wire.unesc sym
        let n ← parseDec? n
        pure (keyOfChars sym, n)
      | _ => none
  | _ => none

def parseDelta? (s : String) : Option (Option Rat) :=
  if s == "N" then some none else (parseDec? s).map some

def parseResEntry? (e : String) : Option (ModVal × Res) :=
  match e.splitOn "=" with
  | [key, v] =>
    match v.splitOn "," with
    | [mono, avg, delta, comp] => do
      let key ← Wire.parseVal? key
      let mono ← parseErrOr mono parseDec?
      let avg ← parseErrOr avg parseDec?
      let delta ← parseErrOr delta parseDelta?
      let comp ← parseErrOr comp parseComp?
      pure (key, ⟨mono, avg, delta, comp⟩)
    | _ => none
  | _ => none

def parseResTable? (s : String) : Option (List (ModVal × Res)) :=
  if s.isEmpty || s == "-" then some [] else (s.splitOn ";").mapM parseResEntry?

def unresolved : Res := ⟨.error (.named "Unresolved".toList), .error (.named "Unresolved".toList),
  .error (.named "Unresolved".toList), .error (.named "Unresolved".toList)⟩

def parseStatic? (s : String) : Option (Except Err (List (List Char × List Mod))) :=
  match s.toList with
  | ['N'] => some (.ok [])
  | 'E' :: cls => some (.error (.named cls))
  | 'S' :: r =>
    let body := String.ofList r
    if body.isEmpty then some (.ok []) else
    ((body.splitOn ";").mapM fun (e : String) =>
      match e.splitOn "=" with
      | [t, ms] => do
        let t ← Wire.unesc t
        let ms ← Wire.parseModsWith? "&" ms
        pure (t, ms)
      | _ => none).map .ok
  | _ => none

def mkEnv? (res static : String) : Option Env := do
  let tbl ← parseResTable? res
  let r : ModVal → Res := fun v => match tbl.find? (fun p => p.1 == v) with | some p => p.2 | none => unresolved
  -- "P": the rules are parsed by the concrete model of parse_static_mods instead of being sent over the wire
  if static == "P" then pure (Env.concrete r)
  else do
    let st ← parseStatic? static
    pure ⟨r, fun _ => st⟩

/-! ### options -/

def parseOptVal? (s : String) : Option (Option ModVal) :=
  if s == "N" then some none else (Wire.parseVal? s).map some

/-- charge, ion, mono, isotope, loss, adducts, isoMods, useIso, precision -/
def parseOpts? (l : List String) : Option Opts :=
  match l with
  | [charge, ion, mono, isotope, loss, adducts, isoMods, useIso, precision] => do
    let charge ← parseOptInt? charge
    let ion ← Wire.unesc ion
    let mono ← parseBool? mono
    let isotope ← parseInt? isotope
    let loss ← parseDec? loss
    let adducts ← parseOptVal? adducts
    let isoMods ← Wire.parseOptMods? ";" isoMods
    let useIso ← parseBool? useIso
    let precision ← parseOptInt? precision
    pure { charge := charge, ion := keyOfChars ion, mono := mono, isotope := isotope, loss := loss,
           adducts := adducts, isotopeMods := isoMods, useIsotopeOnMods := useIso, precision := precision }
  | _ => none

def showTable (t : List (Key × Rat)) : String :=
  ",".intercalate (t.map fun p => keyToString p.1 ++ "=" ++ showRat p.2)

def dedupLast (t : List (Key × Rat)) : List (Key × Rat) :=
  t.foldl (fun acc p => if acc.any (fun q => q.1 == p.1) then acc else acc ++ [p]) []

def codes (s : List Char) : List Nat := s.map Char.toNat

def step (line : String) : String :=
  match splitTab line with
  | "mass" :: ann :: res :: static :: opts =>
    match Wire.parseAnnotation? ann, mkEnv? res static, parseOpts? opts with
    | some a, some env, some o => showRes (mass env a o)
    | _, _, _ => "bad-op"
  | "mz" :: ann :: res :: static :: opts =>
    match Wire.parseAnnotation? ann, mkEnv? res static, parseOpts? opts with
    | some a, some env, some o => showRes (mz env a o)
    | _, _, _ => "bad-op"
  | "comp_mass" :: ann :: res :: static :: opts =>
    match Wire.parseAnnotation? ann, mkEnv? res static, parseOpts? opts with
    | some a, some env, some o =>
      match CompCalc.compMass env a o.ion o.charge o.isotope o.adducts o.isotopeMods o.useIsotopeOnMods with
      | .ok (c, d) => "ok " ++ showComp c ++ "|" ++ showRat d
      | .error e => e.show
    | _, _, _ => "bad-op"
  | "comp" :: est :: ann :: res :: static :: opts =>
    match parseBool? est, Wire.parseAnnotation? ann, mkEnv? res static, parseOpts? opts with
    | some est, some a, some env, some o =>
      match CompCalc.comp env a o.ion est o.charge o.isotope o.adducts o.isotopeMods o.useIsotopeOnMods with
      | .ok c => "ok " ++ showComp c
      | .error e => e.show
    | _, _, _, _ => "bad-op"
  | "spec_mass" :: tbl :: ann :: res :: static :: opts =>
    match Wire.parseAnnotation? ann, mkEnv? res static, parseOpts? opts with
    | some a, some env, some o =>
      let T := if tbl == "nist" then Spec.nist else Spec.lib
      let adv : Option ModVal := match a.adducts, o.adducts with
        | some l, none => adductsValue l
        | _, x => x
      let ad : Option (Option (List Nat)) := match adv with
        | none => some none
        | some (.str s) => some (some (codes s))
        | some _ => none
      match ad with
      | none => "none"
      | some ad =>
        match Spec.specMass T env a o.ion ((match o.charge with | some c => some c | none => a.charge).getD 0) o.mono o.isotope o.loss ad with
        | some v => "ok " ++ showRat v
        | none => "none"
    | _, _, _ => "bad-op"
  | ["chem_mass", comp, mono, precision] =>
    match parseComp? comp, parseBool? mono, parseOptInt? precision with
    | some c, some m, some p => showRes (chemMass m c p)
    | _, _, _ => "bad-op"
  | ["adduct_mass", s, mono] =>
    match Wire.unesc s, parseBool? mono with
    | some s, some m => showRes (chargeAdductsMassStr m (codes s))
    | _, _ => "bad-op"
  | ["adduct_mass1", s, mono, precision] =>
    match Wire.unesc s, parseBool? mono, parseOptInt? precision with
    | some s, some m, some p => showRes (adductMassP m (codes s) p)
    | _, _, _ => "bad-op"
  | ["adducts_mass_v", v, mono, precision] =>
    match Wire.parseVal? v, parseBool? mono, parseOptInt? precision with
    | some v, some m, some p => showRes (chargeAdductsMassP m v p)
    | _, _, _ => "bad-op"
  | ["adduct_comp_v", v] =>
    match Wire.parseVal? v with
    | some v => match CompCalc.chargeAdductsComp v with
      | .ok c => "ok " ++ showComp c
      | .error e => e.show
    | none => "bad-op"
  | ["chem_mass_str", f, mono, precision] =>
    match Wire.unesc f, parseBool? mono, parseOptInt? precision with
    | some f, some m, some p =>
      -- the formula text is read by the formula model of the C15 work package; the mass is this model's chem_mass
      match Formula.parseChem (codes f) [] with
      | .ok c => showRes (chemMass m (c.map fun kv => (keyOfCodes kv.1, kv.2.val)) p)
      | .error _ => "ERR:InvalidChemFormulaError"
    | _, _, _ => "bad-op"
  | "sequence_comp" :: ann :: res :: static :: opts =>
    match Wire.parseAnnotation? ann, mkEnv? res static, parseOpts? opts with
    | some a, some env, some o =>
      match CompCalc.sequenceComp env a o.ion o.isotope o.useIsotopeOnMods with
      | .ok c => "ok " ++ showComp c
      | .error e => e.show
    | _, _, _ => "bad-op"
  | ["condense", ann, res, static] =>
    match Wire.parseAnnotation? ann, mkEnv? res static with
    | some a, some env =>
      match CompCalc.condenseStatic env a with
      | .ok b => "ok " ++ Wire.showAnnotation b
      | .error e => e.show
    | _, _ => "bad-op"
  | ["adduct_comp", s] =>
    match Wire.unesc s with
    | some s => match CompCalc.chargeAdductsCompStr (codes s) with
      | .ok c => "ok " ++ showComp c
      | .error e => e.show
    | none => "bad-op"
  | ["ion_elements", s] =>
    match Wire.unesc s with
    | some s => match parseIonElements (codes s) with
      | .ok (c, sym, q) => "ok " ++ toString c ++ "," ++ keyToString sym ++ "," ++ toString q
      | .error e => e.show
    | none => "bad-op"
  | ["estimate_comp", m, iso] =>
    match parseDec? m, Wire.parseOptMods? ";" iso with
    | some m, some iso => match CompCalc.estimateComp m iso with
      | .ok c => "ok " ++ showComp c
      | .error e => e.show
    | _, _ => "bad-op"
  | ["apply_isotope", comp, iso] =>
    match parseComp? comp, Wire.parseOptMods? ";" iso with
    | some c, some (some iso) => match CompCalc.applyIsotopeMods c iso with
      | .ok c => "ok " ++ showComp c
      | .error e => e.show
    | some c, some none => "ok " ++ showComp c
    | _, _ => "bad-op"
  | ["round", x, p] =>
    match parseDec? x, parseInt? p with
    | some x, some p => "ok " ++ showRat (pyRound x p)
    | _, _ => "bad-op"
  | ["table", name] =>
    let compTable (t : List (Key × Comp)) : String :=
      ";".intercalate (t.map fun p => keyToString p.1 ++ ":" ++ showComp p.2)
    let massTable (f : Key → Option Rat) (keys : List Key) : String :=
      ",".intercalate (keys.map fun k => keyToString k ++ "=" ++ (match f k with | some v => showRat v | none => "none"))
    if name == "isotopic" then showTable (dedupLast isotopicMasses)
    else if name == "average" then showTable (dedupLast averageMasses)
    else if name == "neutral_adj" then compTable neutralAdj
    else if name == "ion_adj" then compTable ionAdj
    else if name == "aa_mono" then massTable (aaMass true) (Gen.aaComp.map (·.1))
    else if name == "aa_avg" then massTable (aaMass false) (Gen.aaComp.map (·.1))
    else if name == "frag_adj_mono" then massTable (fragmentAdjMass true) (neutralAdj.map (·.1))
    else if name == "frag_adj_avg" then massTable (fragmentAdjMass false) (neutralAdj.map (·.1))
    else if name == "frag_ion_adj_mono" then massTable (fragmentIonAdjMass true) (Gen.ionComp.map (·.1))
    else if name == "frag_ion_adj_avg" then massTable (fragmentIonAdjMass false) (Gen.ionComp.map (·.1))
    else if name == "ion_adj_mono" then massTable (ionAdjMass true) (ionAdj.map (·.1))
    else if name == "ion_adj_avg" then massTable (ionAdjMass false) (ionAdj.map (·.1))
    else if name == "averagine_mass" then showRat isotopicAveragineMass
    else if name == "particles" then
      "p=" ++ showRat Gen.protonMass ++ ",e=" ++ showRat Gen.electronMass ++ ",n=" ++ showRat Gen.neutronMass
    else if name == "spec_nuclides" then showTable Spec.nuclides
    else if name == "spec_average" then
      showTable (Spec.isotopeTable.map fun p => (p.1, (Spec.refElem false p.1).getD 0))
    else if name == "spec_particles" then
      "p=" ++ showRat Spec.protonRef ++ ",e=" ++ showRat Spec.electronRef ++ ",n=" ++ showRat Spec.neutronRef
    else if name == "spec_residues" then compTable Spec.residueFormula
    else "bad-op"
  | ["spec_offset", tbl, ion, mono] =>
    match Wire.unesc ion, parseBool? mono with
    | some ion, some m =>
      let T := if tbl == "nist" then Spec.nist else Spec.lib
      match Spec.neutralOffset T m (keyOfChars ion) with
      | some v => "ok " ++ showRat v
      | none => "none"
    | _, _ => "bad-op"
  | _ => "bad-op"

end MassOps
