import PeptVerif.Model.ParserProto
import PeptVerif.Model.C09Dispatch
import PeptVerif.Model.C09Ion
/-! driver for C09: same step function as C01 (the parser model is shared), plus the resolver-dispatch op of the
deferred-validation extension:

* `reached <precursor 0|1> <A-dump> <static dict>` → the modifications `mass` (fast path) hands to `mod_mass`, in call order
  (`Dispatch.reachedStatic` of the dict, then `Dispatch.reachedPlaced`), `;`-separated wire mods.
  static dict := `-` (no static rules) | entry (`;` entry)*, entry := `<escaped target>=<mod>&<mod>…` — what
  `parse_static_mods` returned, in insertion order.
* `ion <fixed 0|1> <escaped text> <escaped keys of ISOTOPIC_ATOMIC_MASSES, comma separated>` → `parse_ion_elements(text)`:
  `I<count>,<escaped symbol>,<charge>` | `ERR:<class>` (Model/C09Ion.lean) -/
open Proto Pept Pept.Wire
namespace Pept.Drv9

def readStaticEntry? (s : String) : Option (List Char × List Mod) :=
  match s.splitOn "=" with
  | [k, ms] => do
    let k ← unesc k
    let ms ← parseModsWith? "&" ms
    pure (k, ms)
  | _ => none

def readStatic? (s : String) : Option (List (List Char × List Mod)) :=
  if s == "-" then some [] else (s.splitOn ";").mapM readStaticEntry?

def step (line : String) : String :=
  match splitTab line with
  | ["reached", p, dump, st] =>
    match parseBool? p, parseAnnotation? dump, readStatic? st with
    | some p, some a, some map =>
      "R" ++ showModsWith ";" (Dispatch.reachedStatic map ++ Dispatch.reachedPlaced p a)
    | _, _, _ => "bad-args"
  | ["ion", f, txt, keys] =>
    match parseBool? f, unesc txt, (keys.splitOn ",").mapM unesc with
    | some f, some t, some ks =>
      match Ion.parseIonElements f (fun sym => ks.contains sym) t with
      | .ok (cnt, sym, ch) => "I" ++ toString cnt ++ "," ++ esc sym ++ "," ++ toString ch
      | .error e => "ERR:" ++ e.name
    | _, _, _ => "bad-args"
  | _ => Pept.Drv.step line

end Pept.Drv9

def main : IO Unit := Proto.runDriver Pept.Drv9.step
