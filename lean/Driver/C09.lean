import PeptVerif.Model.Proto
/-! driver for C09 (placeholder: replies bad-op to everything until the model is written) -/
def step (_line : String) : String := "bad-op"
def main : IO Unit := Proto.runDriver step
