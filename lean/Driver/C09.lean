import PeptVerif.Model.ParserProto
/-! driver for C09: same step function as C01 (the parser model is shared) -/
def main : IO Unit := Proto.runDriver Pept.Drv.step
