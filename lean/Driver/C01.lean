import PeptVerif.Model.ParserProto
/-! driver for C01: the parser / serializer model (ops documented in Model/ParserProto.lean) -/
def main : IO Unit := Proto.runDriver Pept.Drv.step
