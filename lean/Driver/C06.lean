import PeptVerif.Model.Proto
import PeptVerif.Model.Spans
import PeptVerif.Spec.Spans
open Proto Spans

def parseSpan? (s : String) : Option Span :=
  match (s.splitOn ":").mapM (·.toInt?) with
  | some [a, b, c] => some (a, b, c)
  | _ => none

def parseSpans? (s : String) : Option (List Span) :=
  if s.isEmpty then some [] else (s.splitOn ";").mapM parseSpan?

def step (line : String) : String :=
  match splitTab line with
  | ["nonenz", sp, lo, hi] =>
    match parseSpan? sp, parseOptInt? lo, parseOptInt? hi with
    | some sp, some lo, some hi => showSpans (buildNonEnzymatic sp lo hi)
    | _, _, _ => "bad-op"
  | ["left", sp, lo, hi] =>
    match parseSpan? sp, parseOptInt? lo, parseOptInt? hi with
    | some sp, some lo, some hi => showSpans (buildLeftSemi sp lo hi)
    | _, _, _ => "bad-op"
  | ["right", sp, lo, hi] =>
    match parseSpan? sp, parseOptInt? lo, parseOptInt? hi with
    | some sp, some lo, some hi => showSpans (buildRightSemi sp lo hi)
    | _, _, _ => "bad-op"
  | ["enz", n, sites, mc, lo, hi] =>
    match parseInt? n, parseIntList? sites, mc.toNat?, parseOptInt? lo, parseOptInt? hi with
    | some n, some sites, some mc, some lo, some hi => showSpans (buildEnzymatic n sites mc lo hi)
    | _, _, _, _, _ => "bad-op"
  | ["gleft", sps, lo, hi] =>
    match parseSpans? sps, parseOptInt? lo, parseOptInt? hi with
    | some sps, some lo, some hi => showSpans (groupedLeft sps lo hi)
    | _, _, _ => "bad-op"
  | ["gright", sps, lo, hi] =>
    match parseSpans? sps, parseOptInt? lo, parseOptInt? hi with
    | some sps, some lo, some hi => showSpans (groupedRight sps lo hi)
    | _, _, _ => "bad-op"
  | ["semi", sps, lo, hi] =>
    match parseSpans? sps, parseOptInt? lo, parseOptInt? hi with
    | some sps, some lo, some hi => showSpans (buildSemi sps lo hi)
    | _, _, _ => "bad-op"
  | ["build_spans", n, sites, mc, lo, hi, semi] =>
    match parseInt? n, parseIntList? sites, mc.toNat?, parseOptInt? lo, parseOptInt? hi, parseBool? semi with
    | some n, some sites, some mc, some lo, some hi, some semi => showSpans (buildSpans n sites mc lo hi semi)
    | _, _, _, _, _, _ => "bad-op"
  | ["digest", n, sites, mc, lo, hi, semi, complete] =>
    match parseInt? n, parseIntList? sites, mc.toNat?, parseOptInt? lo, parseOptInt? hi, parseBool? semi,
        parseBool? complete with
    | some n, some sites, some mc, some lo, some hi, some semi, some c =>
      showSpans (digestSpans n sites mc lo hi semi c)
    | _, _, _, _, _, _, _ => "bad-op"
  | ["spec", n, sites, mc, lo, hi, semi] =>
    match parseInt? n, parseIntList? sites, mc.toNat?, parseOptInt? lo, parseOptInt? hi, parseBool? semi with
    | some n, some sites, some mc, some lo, some hi, some semi =>
      showSpans (sortDedupSpans (specSpans n sites mc (lo.getD 1) (hi.getD n) semi))
    | _, _, _, _, _, _ => "bad-op"
  | _ => "bad-op"

def main : IO Unit := runDriver step
