import PeptVerif.Model.Proto
import PeptVerif.Model.Spans
import PeptVerif.Spec.Spans
import PeptVerif.Model.RegexLite
import PeptVerif.Model.SeqDigest
import PeptVerif.Spec.SeqDigest
import PeptVerif.Generated.Proteases
import PeptVerif.Spec.Proteases
open Proto Spans

/-- wire form of a RegexLite pattern: items separated by `;`, each `kind:chars` with kind in b,a,n,x,c -/
def parseItem? (s : String) : Option RegexLite.Item :=
  match s.splitOn ":" with
  | [k, cs] =>
    let cs := cs.toList
    if k == "b" then some (.behind cs) else if k == "a" then some (.ahead cs)
    else if k == "n" then some (.aheadNot cs) else if k == "x" then some (.notAhead cs)
    else if k == "c" then some (.consume cs) else none
  | _ => none

def parsePattern? (s : String) : Option RegexLite.Pattern :=
  if s.isEmpty then some [] else (s.splitOn ";").mapM parseItem?

def showNats (l : List Nat) : String := ",".intercalate (l.map toString)

def lookupProtease (name : String) : Option (Option RegexLite.Pattern) :=
  (Gen.proteases.find? (fun e => e.1 == name.toList)).map (·.2)

/-- names of generated table entries that differ from the hand-typed reference (witness search for
`proteases_match_reference`) -/
def tableDiff : List String :=
  let norm := fun (t : List (List Char × Option RegexLite.Pattern)) =>
    t.map fun e => (e.1, e.2.map Spec.normalize)
  let g := norm Gen.proteases
  let r := norm Spec.referenceTable
  (g.filter (fun e => !r.contains e)).map (fun e => String.ofList e.1) ++
  (r.filter (fun e => !g.contains e)).map (fun e => "missing:" ++ String.ofList e.1)

def parseSpan? (s : String) : Option Span :=
  match (s.splitOn ":").mapM (·.toInt?) with
  | some [a, b, c] => some (a, b, c)
  | _ => none

def parseSpans? (s : String) : Option (List Span) :=
  if s.isEmpty then some [] else (s.splitOn ";").mapM parseSpan?

/-- wire form of one `EnzymeConfig`: `pat&pat…@mc@semi@complete` -/
def parseConfig? (s : String) : Option EnzymeConfig :=
  match s.splitOn "@" with
  | [pats, mc, semi, complete] =>
    match (pats.splitOn "&").mapM parsePattern?, mc.toNat?, parseBool? semi, parseBool? complete with
    | some ps, some mc, some semi, some c => some ⟨ps, mc, semi, c⟩
    | _, _, _, _ => none
  | _ => none

def parseConfigs? (s : String) : Option (List EnzymeConfig) :=
  if s.isEmpty then some [] else (s.splitOn "|").mapM parseConfig?

def step (line : String) : String :=
  match splitTab line with
  | ["nonenz", sp, lo, hi] =>
    match parseSpan? sp, parseOptInt? lo, parseOptInt? hi with
    | some sp, some lo, some hi => showSpans (buildNonEnzymatic sp lo hi)
    | _, _, _ => "bad-op"
  | ["left", sp, lo, hi] =>
    match parseSpan? sp, parseOptInt? lo, parseOptInt? hi with
    | some sp, some lo, some hi => showSpans (buildLeftSemi sp lo hi)
    | _, _, _ => "bad-op"
  | ["right", sp, lo, hi] =>
    match parseSpan? sp, parseOptInt? lo, parseOptInt? hi with
    | some sp, some lo, some hi => showSpans (buildRightSemi sp lo hi)
    | _, _, _ => "bad-op"
  | ["enz", n, sites, mc, lo, hi] =>
    match parseInt? n, parseIntList? sites, mc.toNat?, parseOptInt? lo, parseOptInt? hi with
    | some n, some sites, some mc, some lo, some hi => showSpans (buildEnzymatic n sites mc lo hi)
    | _, _, _, _, _ => "bad-op"
  | ["gleft", sps, lo, hi] =>
    match parseSpans? sps, parseOptInt? lo, parseOptInt? hi with
    | some sps, some lo, some hi => showSpans (groupedLeft sps lo hi)
    | _, _, _ => "bad-op"
  | ["gright", sps, lo, hi] =>
    match parseSpans? sps, parseOptInt? lo, parseOptInt? hi with
    | some sps, some lo, some hi => showSpans (groupedRight sps lo hi)
    | _, _, _ => "bad-op"
  | ["semi", sps, lo, hi] =>
    match parseSpans? sps, parseOptInt? lo, parseOptInt? hi with
    | some sps, some lo, some hi => showSpans (buildSemi sps lo hi)
    | _, _, _ => "bad-op"
  | ["build_spans", n, sites, mc, lo, hi, semi] =>
    match parseInt? n, parseIntList? sites, mc.toNat?, parseOptInt? lo, parseOptInt? hi, parseBool? semi with
    | some n, some sites, some mc, some lo, some hi, some semi => showSpans (buildSpans n sites mc lo hi semi)
    | _, _, _, _, _, _ => "bad-op"
  | ["digest", n, sites, mc, lo, hi, semi, complete] =>
    match parseInt? n, parseIntList? sites, mc.toNat?, parseOptInt? lo, parseOptInt? hi, parseBool? semi,
        parseBool? complete with
    | some n, some sites, some mc, some lo, some hi, some semi, some c =>
      showSpans (digestSpans n sites mc lo hi semi c)
    | _, _, _, _, _, _, _ => "bad-op"
  | ["spec", n, sites, mc, lo, hi, semi] =>
    match parseInt? n, parseIntList? sites, mc.toNat?, parseOptInt? lo, parseOptInt? hi, parseBool? semi with
    | some n, some sites, some mc, some lo, some hi, some semi =>
      showSpans (sortDedupSpans (specSpans n sites mc (lo.getD 1) (hi.getD n) semi))
    | _, _, _, _, _, _ => "bad-op"
  | ["sites_named", name, text] =>
    match lookupProtease name with
    | some (some p) => showNats (RegexLite.sites p text.toList)
    | some none => "unmodelled"
    | none => "unknown-protease"
  | ["sites_pattern", pat, text] =>
    match parsePattern? pat with
    | some p => showNats (RegexLite.sites p text.toList)
    | none => "bad-op"
  | ["protease_table_diff"] => ";".intercalate tableDiff
  | ["seq", text, configs, lo, hi] =>
    match parseConfigs? configs, parseOptInt? lo, parseOptInt? hi with
    | some cfgs, some lo, some hi => showSpans (seqDigestText text.toList cfgs lo hi)
    | _, _, _ => "bad-op"
  | ["seq_hyp", text, configs] =>
    -- the decidable hypotheses of `sequential_eq_simultaneous_text`: plain configs, local rules, no stage shortcut, no union shortcut
    match parseConfigs? configs with
    | some cfgs =>
      let t := text.toList
      let b := fun (x : Bool) => if x then "1" else "0"
      b (cfgs.all fun c => c.mc == 0 && !c.semi && c.complete) ++ " " ++
      b (cfgs.all fun c => c.regex.all localRule) ++ " " ++
      b (cfgs.all fun c => decide (StageShortcutFree t c)) ++ " " ++
      b (decide (UnionShortcutFree t (cfgs.flatMap (fun c => c.regex))))
    | none => "bad-op"
  | ["sim", text, pats, lo, hi] =>
    match (pats.splitOn "&").mapM parsePattern?, parseOptInt? lo, parseOptInt? hi with
    | some ps, some lo, some hi => showSpans (simDigestText text.toList ps lo hi)
    | _, _, _ => "bad-op"
  | _ => "bad-op"

def main : IO Unit := runDriver step
