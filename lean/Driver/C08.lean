import PeptVerif.Model.Proto
import PeptVerif.Model.Effects
import PeptVerif.Model.EffectsApi
import PeptVerif.Generated.Effects
/-! driver for C08: the verdict of the effect analysis per API member, so that the harness can compare it with what it observes

  verdict<TAB>name      -> writes=<param names>|globals=<global names>|editor=0/1|random=0/1|closed=0/1|recheck=same/diff
  outside               -> comma separated names declared outside
  count                 -> number of analysed functions -/
open Proto Effects

def paramName (e : Gen.ApiEntry) (j : Nat) : String := e.params.getD j s!"#{j}"

def verdictOf (e : Gen.ApiEntry) : String :=
  match Gen.fns[e.fid]? with
  | none => "unknown"
  | some i =>
    let w := mayWriteIn Gen.summaries i.prog i.table
    let g := mayWriteGlobalIn Gen.summaries i.prog i.table
    let closed := closedB Gen.summaries i.prog i.table
    -- independent recomputation of the table by the Lean analysis itself (compiled), two passes beyond the translator's count
    let w2 := mayWrite Gen.summaries i.prog (i.fuel + 2)
    let g2 := mayWriteGlobal Gen.summaries i.prog (i.fuel + 2)
    let ok2 := analysisOK Gen.summaries i.prog (i.fuel + 2)
    let same := ok2 && w.all (w2.contains ·) && w2.all (w.contains ·) && g.all (g2.contains ·) && g2.all (g.contains ·)
    s!"writes={",".intercalate (w.map (paramName e))}|globals={",".intercalate (g.map (fun k => Gen.globalNames.getD k (toString k)))}" ++
    s!"|share={",".intercalate ((mayShareIn i.table i.ret).map (paramName e))}" ++
    s!"|shareglobals={",".intercalate ((mayShareGlobalIn i.table i.ret).map (fun k => Gen.globalNames.getD k (toString k)))}" ++
    s!"|editor={if e.editor then 1 else 0}|random={if e.random then 1 else 0}|closed={if closed then 1 else 0}" ++
    s!"|recheck={if same then "same" else "diff"}"

def step (line : String) : String :=
  match splitTab line with
  | ["verdict", name] =>
    match Gen.api.find? (fun e => e.name == name) with
    | some e => verdictOf e
    | none => "unknown"
  | ["outside"] => ",".intercalate declaredOutside
  | ["sharing"] => ",".intercalate declaredSharing
  | ["count"] => toString Gen.fns.length
  | _ => "bad-op"

def main : IO Unit := runDriver step
