import PeptVerif.Model.Proto
import PeptVerif.Model.Score
import PeptVerif.Spec.Score
import PeptVerif.Model.ScoreFrag
import PeptVerif.Model.ScoreRnd
import PeptVerif.Spec.ScoreRnd
import PeptVerif.Model.ScoreFilter
/-! driver for C17: the model of score.py and the brute-force specification, both evaluated at `Float`.
Floats travel as the decimal value of their 64 IEEE bits. -/
open Proto Score

def parseF? (s : String) : Option Float := s.toNat?.map fun n => Float.ofBits n.toUInt64

def parseFList? (s : String) : Option (List Float) :=
  if s.isEmpty then some [] else (s.splitOn ",").mapM parseF?

def parseOptFList? (s : String) : Option (Option (List Float)) :=
  if s == "None" then some none else (parseFList? s).map some

def parseNatList? (s : String) : Option (List Nat) :=
  if s.isEmpty then some [] else (s.splitOn ",").mapM (·.toNat?)

def showF (x : Float) : String := toString x.toBits.toNat

def showNats (l : List Nat) : String := ",".intercalate (l.map toString)

def showWin : Option (Nat × Nat) → String
  | none => "N"
  | some (s, e) => toString s ++ ":" ++ toString e

def showHit : Hit → String
  | .none => "N"
  | .one i => toString i
  | .many l => "[" ++ showNats l ++ "]"

def parseHit? (s : String) : Option Hit :=
  if s == "N" then some .none
  else if s.startsWith "[" && s.endsWith "]" then
    (parseNatList? ((s.drop 1).dropEnd 1).toString).map .many
  else s.toNat?.map .one

def parseHits? (s : String) : Option (List Hit) :=
  if s.isEmpty then some [] else (s.splitOn ";").mapM parseHit?

def showExcept {β : Type} (f : β → String) : Except Err β → String
  | .ok v => f v
  | .error e => e.show

def parseCovIn? (s : String) : Option (CovIn Nat) :=
  match s.splitOn ":" with
  | [k, c, ion, a, b] => do
    let k ← k.toNat?; let c ← c.toNat?; let a ← a.toNat?; let b ← b.toNat?
    pure ⟨k, c, ion, a, b⟩
  | _ => none

def parseCovIns? (s : String) : Option (List (CovIn Nat)) :=
  if s.isEmpty then some [] else (s.splitOn ";").mapM parseCovIn?

def ionOfName (s : String) : Fragment.Ion :=
  let all : List Fragment.Ion := Fragment.Ion.terminalTypes ++ Fragment.Ion.internalTypes ++ [Fragment.Ion.I]
  match all.find? (fun t => t.name == s.toList) with
  | some t => t
  | none => .other s.toList

def parseRatFrac? (s : String) : Option Rat :=
  match s.splitOn "/" with
  | [a, b] => do
    let a ← a.toInt?; let b ← b.toNat?
    if b = 0 then none else pure ((a : Rat) / (b : Rat))
  | _ => none

/-- one `FragmentMatch` as `get_match_coverage` sees it: charge:ion:start:stop:isotope:loss(num/den):mono:internal -/
def parseFragMatch? (n : Nat) (s : String) : Option FragMatch :=
  match s.splitOn ":" with
  | [c, ion, a, b, iso, loss, mono, intl] => do
    let c ← c.toInt?; let a ← a.toInt?; let b ← b.toInt?; let iso ← iso.toInt?
    let loss ← parseRatFrac? loss; let mono ← parseBool? mono; let intl ← parseBool? intl
    let parent : Pept.Annotation := { seq := List.replicate n 'A' }
    pure ⟨{ charge := c, ion := ionOfName ion, start := a, stop := b, monoisotopic := mono, isotope := iso, loss := loss,
            parent := parent, mass := 0, neutralMass := 0, mz := 0, sequence := parent, unmodSequence := [],
            internal := intl }, 0, 0⟩
  | _ => none

def parseRatList? (s : String) : Option (List Rat) :=
  if s.isEmpty then some [] else (s.splitOn ",").mapM parseRatFrac?

def showRat (q : Rat) : String := toString q.num ++ "/" ++ toString q.den

/-- `label:isotope;…` with the position as identity -/
def parseLabelled1? (e : String) : Option (List Char × Int) :=
  match e.splitOn ":" with
  | [l, i] => i.toInt?.map fun i => (l.toList, i)
  | _ => none

def parseLabelled? (s : String) : Option (List (Nat × List Char × Int)) :=
  if s.isEmpty then some [] else
    ((s.splitOn ";").mapM parseLabelled1?).map fun l => (List.range l.length).zip l

def firstBad (l : List Bool) : String :=
  match l.findIdx? (· == false) with
  | none => "ok"
  | some i => "bad:" ++ toString i

def step (line : String) : String :=
  match splitTab line with
  | ["gmi", tt, tol, xs, ys] =>
    match parseF? tol, parseFList? xs, parseFList? ys with
    | some tol, some xs, some ys =>
      match Tol.ofString? tt with
      | none => Err.valueError.show
      | some t => ";".intercalate ((getMatchedIndices t tol xs ys).map showWin)
    | _, _, _ => "bad-op"
  | ["rnd53", z] =>
    match parseRatFrac? z with
    | some z => showRat (rnd53 z)
    | none => "bad-op"
  | ["gmir", tt, tol, xs, ys] =>
    -- the same generic model at ℚ with every operation followed by `rnd53` (values travel as exact fractions)
    match parseRatFrac? tol, parseRatList? xs, parseRatList? ys with
    | some tol, some xs, some ys =>
      match Tol.ofString? tt with
      | none => Err.valueError.show
      | some t => ";".intercalate ((getMatchedIndicesR rnd53 t tol xs ys).map showWin)
    | _, _, _ => "bad-op"
  | ["fmm", ents] =>
    match parseLabelled? ents with
    | some ms => showNats ((filterMissingMonoIsotope (fun m => m.2.1) (fun m => m.2.2) ms).map (·.1))
    | none => "bad-op"
  | ["fsi", ents] =>
    match parseLabelled? ents with
    | some ms => showNats ((filterSkippedIsotopes (fun m => m.2.1) ms).map (·.1))
    | none => "bad-op"
  | ["ms", mode, tt, tol, xs, ys, ints] =>
    match parseF? tol, parseFList? xs, parseFList? ys, parseOptFList? ints with
    | some tol, some xs, some ys, some ints =>
      match Tol.ofString? tt, Mode.ofString? mode with
      | some t, some m => showExcept (fun hs => ";".intercalate (hs.map showHit)) (matchSpectra m t tol xs ys ints)
      | _, _ => Err.valueError.show
    | _, _, _, _ => "bad-op"
  | ["spec", tt, tol, xs, ys] =>
    match parseF? tol, parseFList? xs, parseFList? ys, Tol.ofString? tt with
    | some tol, some xs, some ys, some t => ";".intercalate ((bruteForce t tol xs ys).map showNats)
    | _, _, _, _ => "bad-op"
  | ["check", mode, tt, tol, xs, ys, ints, ans] =>
    match parseF? tol, parseFList? xs, parseFList? ys, parseFList? ints, parseHits? ans, Tol.ofString? tt,
        Mode.ofString? mode with
    | some tol, some xs, some ys, some ints, some hits, some t, some m =>
      if hits.length != xs.length then "bad:length"
      else firstBad ((xs.zip hits).map fun (x, h) => hitOk m ys ints x (window (inWindow t tol) ys x) h)
    | _, _, _, _, _, _, _ => "bad-op"
  | ["gfm", mode, tt, tol, fmz, mzs, ints] =>
    match parseF? tol, parseFList? fmz, parseFList? mzs, parseFList? ints with
    | some tol, some fmz, some mzs, some ints =>
      match Mode.ofString? mode with
      | none => Err.valueError.show
      | some m =>
        match Tol.ofString? tt with
        | none => Err.valueError.show
        | some t =>
          showExcept (fun ms => ";".intercalate (ms.map fun m => toString m.frag ++ ":" ++ showF m.mz ++ ":" ++ showF m.inten))
            (getFragmentMatches m t tol ((List.range fmz.length).zip fmz) mzs ints)
    | _, _, _, _ => "bad-op"
  | ["mip", mmz, mint, ints] =>
    match parseFList? mmz, parseFList? mint, parseFList? ints with
    | some mmz, some mint, some ints =>
      if mmz.length != mint.length then "bad-op" else showF (matchedIntensityPercentage (mmz.zip mint) ints)
    | _, _, _ => "bad-op"
  | ["cov", dedupe, n, ents] =>
    match parseBool? dedupe, n.toNat?, parseCovIns? ents with
    | some d, some n, some ents =>
      showExcept (fun cov => ";".intercalate (cov.map fun (l, c) => toString l.1 ++ ":" ++ l.2 ++ "=" ++ showNats c))
        (matchCoverage d n ents)
    | _, _, _ => "bad-op"
  | ["covf", n, ents] =>
    match n.toNat? with
    | some n =>
      match (if ents.isEmpty then some [] else (ents.splitOn ";").mapM (parseFragMatch? n)) with
      | some ms =>
        showExcept (fun cov => ";".intercalate (cov.map fun (l, c) => toString l.1 ++ ":" ++ l.2 ++ "=" ++ showNats c))
          (getMatchCoverageF ms)
      | none => "bad-op"
    | none => "bad-op"
  | _ => "bad-op"

def main : IO Unit := runDriver step
