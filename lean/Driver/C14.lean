import PeptVerif.Model.Proto
import PeptVerif.Model.Isotope
/-! driver for C14: isotope.py model through the line protocol.

ops (TAB separated):
  iso    formula maxIso minThr res neutron convThr A sum outMass neutronMass precision floor fmt
         -> OK <max un-normalised> <Σ normalised kept> <dist>     | ERR:<name>
  isodiag (same arguments) -> <min distance of a pre-rounding key from a rounding boundary> <min relative gap at a top-k cut>
  elem   key count neutron floor fmt            -> <dist>   (insertion order)
  conv   d1 d2 maxIso thr res fmt               -> <dist>   (insertion order)
  merge  d1|d2|...  precision fmt               -> <dist>
  round  q nd                                   -> q'
formula  C=i:12,H=f:13/2,e=i:-1      dist  k:a;k:a   rationals p/q or p
fmt = exact | approx (numerator/denominator shifted to ~128 bits)
-/
open Proto Isotope

def parseRat? (s : String) : Option Rat :=
  match s.splitOn "/" with
  | [p] => p.toInt?.map (fun i => (i : Rat))
  | [p, q] => match p.toInt?, q.toNat? with
    | some i, some d => if d = 0 then none else some ((i : Rat) / (d : Rat))
    | _, _ => none
  | _ => none

def parseOptRat? (s : String) : Option (Option Rat) :=
  if s == "None" then some none else (parseRat? s).map some

def parseOptNat? (s : String) : Option (Option Nat) :=
  if s == "None" then some none else s.toNat?.map some

def showRatExact (q : Rat) : String :=
  if q.den = 1 then toString q.num else toString q.num ++ "/" ++ toString q.den

def showRatApprox (q : Rat) : String :=
  let n := q.num.natAbs
  let d := q.den
  let b := min (Nat.log2 n) (Nat.log2 d)
  if b ≤ 160 then showRatExact q else
    let s := b - 128
    let n' := n >>> s
    let d' := d >>> s
    (if q.num < 0 then "-" else "") ++ toString n' ++ "/" ++ toString d'

def showRat (exact : Bool) (q : Rat) : String := if exact then showRatExact q else showRatApprox q

def showDist (exact : Bool) (d : Dist Rat) : String :=
  ";".intercalate (d.map (fun p => showRat exact p.1 ++ ":" ++ showRat exact p.2))

def parseDist? (s : String) : Option (Dist Rat) :=
  if s.isEmpty then some [] else
  (s.splitOn ";").mapM (fun e => match e.splitOn ":" with
    | [k, a] => match parseRat? k, parseRat? a with
      | some k, some a => some (k, a)
      | _, _ => none
    | _ => none)

def parseCount? (s : String) : Option Count :=
  match s.splitOn ":" with
  | ["i", n] => n.toInt?.map Count.int
  | ["f", q] => (parseRat? q).map Count.flt
  | _ => none

def parseFormula? (s : String) : Option Formula :=
  if s.isEmpty then some [] else
  (s.splitOn ",").mapM (fun e => match e.splitOn "=" with
    | [k, c] => (parseCount? c).map (fun c => (k.toList.map Char.toNat, c))
    | _ => none)

def showErr : Err → String
  | .valueError => "ERR:ValueError"
  | .unknownElement => "ERR:InvalidChemFormulaError"
  | .zeroDiv => "ERR:ZeroDivisionError"

/-- distance of `x·10^nd` from the nearest rounding boundary (…+1/2), in units of the last kept place -/
def boundaryDist (nd : Int) (x : Rat) : Rat :=
  let y := if 0 ≤ nd then x * (10 : Rat) ^ nd.toNat else x / (10 : Rat) ^ (-nd).toNat
  let r := y - (y.floor : Rat)
  if r < 1 / 2 then 1 / 2 - r else r - 1 / 2

def minRat (a b : Rat) : Rat := if b < a then b else a

/-- smallest relative gap between the last kept and the first dropped abundance of a top-k cut -/
def topkGap (k : Nat) (d : Dist Rat) : Rat :=
  let s := sortDesc d
  match s.drop (k - 1) with
  | a :: b :: _ => if a.2 = 0 then 1 else (a.2 - b.2) / a.2
  | _ => 1

/-- diagnostics over the element loop: (min rounding-boundary distance, min top-k gap) -/
def diagAll (o : Opts) : List (Key × Int) → Dist Rat → Rat × Rat → Rat × Rat
  | [], _, acc => acc
  | (k, c) :: t, d, acc =>
    match lookupEntry k with
    | none => acc
    | some e =>
      let isos := if o.useNeutronCount then offsetIsotopes e else massIsotopes e
      let el := elemental o.floor isos c.toNat
      let rd := match o.resolution with
        | none => acc.1
        | some nd => d.foldl (fun m p1 => el.foldl (fun m p2 => minRat m (boundaryDist nd (p1.1 + p2.1))) m) acc.1
      let thr := some (o.convMinAbundanceThreshold.getD 0)
      let full := convolve (roundOpt o.resolution) thr none d el
      let tg := match o.maxIsotopes with
        | none => acc.2
        | some n => minRat acc.2 (topkGap n full)
      diagAll o t (convolve (roundOpt o.resolution) thr o.maxIsotopes d el) (rd, tg)

def cleanFormula (f : Formula) : List (Key × Int) :=
  let f3 := ((popCount (popCount (popCount f eKey).2 pKey).2 nKey).2)
  (f3.filter (fun p => p.2.val ≠ 0)).map (fun p => (p.1, p.2.round))

def isExact (s : String) : Bool := s == "exact"

def step (line : String) : String :=
  match splitTab line with
  | [op, f, mi, mt, res, neu, ct, a, sm, om, nm, pr, fl, fmt] =>
    if op != "iso" && op != "isodiag" then "bad-op" else
    match parseFormula? f, parseOptNat? mi, parseOptRat? mt, parseOptInt? res, parseBool? neu, parseOptRat? ct,
          parseRat? a, parseBool? sm, parseBool? om, parseRat? nm, parseOptInt? pr, parseOptRat? fl with
    | some f, some mi, some mt, some res, some neu, some ct, some a, some sm, some om, some nm, some pr, some fl =>
      let o : Opts := { maxIsotopes := mi, minAbundanceThreshold := mt, resolution := res, useNeutronCount := neu,
                        convMinAbundanceThreshold := ct, distributionAbundance := a, isAbundanceSum := sm,
                        outputMassesForNeutronOffset := om, neutronMass := nm, precision := pr, floor := fl }
      if op == "isodiag" then
        let dg := diagAll o (cleanFormula f) [((0 : Rat), 1)] (1, 1)
        showRatApprox dg.1 ++ "\t" ++ showRatApprox dg.2
      else
      match rawDistribution f o with
      | .error e => showErr e
      | .ok (total, particle, delta, fm) =>
        match finishDistribution o total particle delta fm with
        | .error e => showErr e
        | .ok d =>
          let mx := (maxAb total).getD 1
          let thr := mt.getD 0
          let sn := sumAb ((total.filter (fun p => decide (thr ≤ p.2 / mx))).map (fun p => (p.1, p.2 / mx)))
          "OK\t" ++ showRatApprox mx ++ "\t" ++ showRatApprox sn ++ "\t" ++ showDist (isExact fmt) d
    | _, _, _, _, _, _, _, _, _, _, _, _ => "bad-op"
  | ["elem", k, c, neu, fl, fmt] =>
    match c.toNat?, parseBool? neu, parseOptRat? fl with
    | some c, some neu, some fl =>
      match lookupEntry (k.toList.map Char.toNat) with
      | none => "ERR:KeyError"
      | some e => showDist (isExact fmt) (elemental fl (if neu then offsetIsotopes e else massIsotopes e) c)
    | _, _, _ => "bad-op"
  | ["conv", d1, d2, mi, thr, res, fmt] =>
    match parseDist? d1, parseDist? d2, parseOptNat? mi, parseOptRat? thr, parseOptInt? res with
    | some d1, some d2, some mi, some thr, some res =>
      showDist (isExact fmt) (convolve (roundOpt res) (some (thr.getD 0)) mi d1 d2)
    | _, _, _, _, _ => "bad-op"
  | ["merge", ds, pr, fmt] =>
    match (if ds.isEmpty then some [] else (ds.splitOn "|").mapM parseDist?), parseOptInt? pr with
    | some ds, some pr => showDist (isExact fmt) (mergeDistributions ds pr)
    | _, _ => "bad-op"
  | ["round", q, nd] =>
    match parseRat? q, parseInt? nd with
    | some q, some nd => showRatExact (roundTo nd q)
    | _, _ => "bad-op"
  | _ => "bad-op"

def main : IO Unit := runDriver step
