import Driver.C02Ops
/-! driver for C02: mass tables, mass / composition calculators and their specification (shared ops in Driver/C02Ops.lean) -/
def main : IO Unit := Proto.runDriver MassOps.step
