import PeptVerif.Model.Proto
import PeptVerif.Model.ProtoC10
import PeptVerif.Model.ModDbGen
/-! driver for C15: formula / glycan writers and parsers over the generated element and monosaccharide tables -/
open Proto ProtoC10 ModDb Formula

def MT : MassTable := Gen.massTable
def MONO : List Entry := Gen.tables.mono

def showStrs (l : List Str) : String := "\t".intercalate (l.map encode)

def step (line : String) : String :=
  match splitTab line with
  | ["write", c, sep, hill] =>
    match parseComp? c, parseBool? hill with
    | some c, some h => "OK " ++ encode (writeChem MT.elems c (decode sep) h)
    | _, _ => "bad-op"
  | ["parse", s, sep] => showCompRes (parseChem (decode s) (decode sep))
  | ["split", s] =>
    match splitChem false [] (decode s) with
    | .ok l => "OK " ++ showStrs l
    | .error e => showErr e
  | ["condensed", s] => showCompRes (parseCondensed (decode s))
  | ["isotope", s] => showCompRes (parseIsotope (decode s))
  | ["mass", c, mono] =>
    match parseComp? c, parseBool? mono with
    | some c, some b => showRatRes (chemMassComp MT b c)
    | _, _ => "bad-op"
  | ["mass_str", s, mono, sep] =>
    match parseBool? mono with
    | some b => showRatRes (chemMassStr MT b (decode s) (decode sep))
    | none => "bad-op"
  | ["gwrite", c, sep] =>
    match parseComp? c with
    | some c => "OK " ++ encode (writeGlycan c (decode sep))
    | none => "bad-op"
  | ["gparse", s, sep] => showCompRes (parseGlycan MONO (decode s) (decode sep))
  | ["gcomp", c] =>
    match parseComp? c with
    | some c => showCompRes (glycanCompDict MONO c [])
    | none => "bad-op"
  | ["gcomp_str", s] => showCompRes (glycanCompStr MONO (decode s))
  | ["gmass", c, mono] =>
    match parseComp? c, parseBool? mono with
    | some c, some b => showRatRes (glycanMassDict MONO b c)
    | _, _ => "bad-op"
  | ["gmass_str", s, mono] =>
    match parseBool? mono with
    | some b => showRatRes (glycanMassStr MONO b (decode s))
    | none => "bad-op"
  | ["names_sorted"] => showStrs (namesSorted MONO)
  | _ => "bad-op"

def main : IO Unit := runDriver step
