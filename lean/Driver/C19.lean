import PeptVerif.Model.Proto
import PeptVerif.Model.Annotation
import PeptVerif.Model.Combinatoric
import PeptVerif.Model.CombinatoricText
/-! driver for C19: combinatorial expansions of an annotation, `split`, and the bare itertools models -/
open Proto Pept Pept.Wire

def parseSize? (s : String) : Option (Option Nat) :=
  if s == "None" then some none else s.toNat?.map some

def showAnns (l : List Annotation) : String := "~".intercalate (l.map showAnnotation)

def showLists (l : List (List Int)) : String := ";".intercalate (l.map showIntList)

def expand (f : Annotation → Option Nat → List Annotation) (a size : String) : String :=
  match parseAnnotation? a, parseSize? size with
  | some a, some k => if expandDomain a then showAnns (f a k) else "ERR:domain"
  | _, _ => "bad-op"

def iter (f : Nat → List Int → List (List Int)) (k l : String) : String :=
  match k.toNat?, parseIntList? l with
  | some k, some l => showLists (f k l)
  | _, _ => "bad-op"

def strOp (f : List Char → Option Nat → Except Err (List (List Char))) (s size : String) : String :=
  match unesc s, parseSize? size with
  | some s, some k =>
    match f s k with
    | .ok l => "S" ++ "~".intercalate (l.map esc)
    | .error e => "ERR:" ++ e.name
  | _, _ => "bad-op"

/-- the literal text-level model on an annotation given by its fields, NO domain check (round 5: empty-but-present lists,
multipliers < 1, adducts without a charge); the list comprehension raises at the first result that does not parse -/
def textOp (f : Annotation → Option Nat → List (Except Err Parsed)) (a size : String) : String :=
  match parseAnnotation? a, parseSize? size with
  | some a, some k =>
    match collect (f a k) with
    | .error e => "ERR:" ++ e.name
    | .ok l =>
      if l.all (fun p => match p with | .single _ => true | _ => false) then
        "T" ++ showAnns (l.filterMap fun p => match p with | .single r => some r | _ => none)
      else "ERR:multi"
  | _, _ => "bad-op"

def step (line : String) : String :=
  match splitTab line with
  | ["perm", a, k] => expand permutations a k
  | ["prod", a, k] => expand product a k
  | ["comb", a, k] => expand combinations a k
  | ["cwr", a, k] => expand combinationsWithReplacement a k
  | ["s_perm", s, k] => strOp permutationsStr s k
  | ["s_prod", s, k] => strOp productStr s k
  | ["s_comb", s, k] => strOp combinationsStr s k
  | ["s_cwr", s, k] => strOp combinationsWithReplacementStr s k
  | ["t_perm", a, k] => textOp permutationsText a k
  | ["t_prod", a, k] => textOp productText a k
  | ["t_comb", a, k] => textOp combinationsText a k
  | ["t_cwr", a, k] => textOp combinationsWithReplacementText a k
  | ["split", a] =>
    match parseAnnotation? a with
    | some a => if a.intervals.isSome then "ERR:domain" else showAnns (split a)
    | none => "bad-op"
  | ["it_perm", k, l] => iter permsK k l
  | ["it_prod", k, l] => iter prodK k l
  | ["it_comb", k, l] => iter combsK k l
  | ["it_cwr", k, l] => iter cwrK k l
  | _ => "bad-op"

def main : IO Unit := runDriver step
