import PeptVerif.Model.Annotation
open Proto Pept Wire
def step (line : String) : String :=
  match splitTab line with
  | ["echo", d] => match parseAnnotation? d with
    | some a => showAnnotation a
    | none => "bad-op"
  | _ => "bad-op"
def main : IO Unit := runDriver step
