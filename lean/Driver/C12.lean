import PeptVerif.Model.AbsMassWire
/-! driver for C12: static rules, count_residues, abstract mass / composition -/
open Pept Pept.Static Pept.AbsMass Pept.AbsWire Proto

def withAnn (s : String) (f : Annotation → String) : String :=
  match Wire.parseAnnotation? s with
  | some a => f a
  | none => "bad-op"

def step (line : String) : String :=
  match splitTab line with
  | ["parse_static", a] => withAnn a fun a => showExcept showStaticMap (parseStaticMods a.static)
  | ["mods_of", a] => withAnn a fun a => ",".intercalate ((modsOf a).map Wire.showVal)
  | ["literal", a] => withAnn a fun a => if rulesLiteral a then "1" else "0"
  | ["condense", a] => withAnn a fun a => showExcept Wire.showAnnotation (condenseStatic a)
  | ["count", a] => withAnn a fun a => showExcept showCounter (countResidues a)
  | ["count_raw", a] => withAnn a fun a => showCounter (countResiduesRaw a)
  | ["serialize", a, plus] =>
    match parseBool? plus with
    | some plus => withAnn a fun a => Wire.esc (serialize a plus)
    | none => "bad-op"
  | ["convert_type", s] =>
    match Wire.unesc s with
    | some s => Wire.showVal (convertType s)
    | none => "bad-op"
  | ["mass", a, res, mu, adj, aac, mr, ion, chg, em, flg, ntc, ctc] =>
    match parseEnv? res mu adj aac mr ion chg em flg ntc ctc with
    | some E => withAnn a fun a => showExcept showRat (massOf E a)
    | none => "bad-op"
  | ["comp_mass", a, res, mu, adj, aac, mr, ion, chg, em, flg, ntc, ctc] =>
    match parseEnv? res mu adj aac mr ion chg em flg ntc ctc with
    | some E => withAnn a fun a => showExcept (fun p => showComp p.1 ++ "|" ++ showRat p.2) (compMassOf E a)
    | none => "bad-op"
  | _ => "bad-op"

def main : IO Unit := runDriver step
