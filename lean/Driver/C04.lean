import PeptVerif.Model.Proto
/-! driver for C04 (placeholder: replies bad-op to everything until the model is written) -/
def step (_line : String) : String := "bad-op"
def main : IO Unit := Proto.runDriver step
