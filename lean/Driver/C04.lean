import PeptVerif.Model.Proto
import PeptVerif.Model.Fragment
/-! driver for C04: `fragment`, `Fragmenter.fragment`, `get_losses`, `get_number`, `get_label`, span lists, `slice`,
ion-type classification.  Rationals travel as `num/den` (requests) and as decimals with 12 places (replies). -/
open Proto Fragment Pept

def parseRat? (s : String) : Option Rat :=
  match s.splitOn "/" with
  | [a] => a.toInt?.map fun i => (i : Rat)
  | [a, b] => do
    let i ← a.toInt?
    let d ← b.toNat?
    if d = 0 then none else pure (mkRat i d)
  | _ => none

def parseRatList? (s : String) : Option (List Rat) :=
  if s.isEmpty then some [] else (s.splitOn ",").mapM parseRat?

/-- decimal text with 12 places, rounded half up on the absolute value -/
def showRat (q : Rat) : String :=
  let neg := decide (q < 0)
  let a : Rat := if neg then -q else q
  let scaled : Int := (a * ((10 ^ 12 : Nat) : Rat) + 1 / 2).floor
  let n := scaled.toNat
  let ip := n / 10 ^ 12
  let fp := n % 10 ^ 12
  let fs := toString fp
  let pad := String.ofList (List.replicate (12 - fs.length) '0')
  (if neg && n != 0 then "-" else "") ++ toString ip ++ "." ++ pad ++ fs

def ionOfName (s : String) : Ion :=
  match s with
  | "a" => .A | "b" => .B | "c" => .C | "x" => .X | "y" => .Y | "z" => .Z
  | "ax" => .AX | "ay" => .AY | "az" => .AZ | "bx" => .BX | "by" => .BY | "bz" => .BZ
  | "cx" => .CX | "cy" => .CY | "cz" => .CZ | "i" => .I
  | _ => .other s.toList

def ionName (t : Ion) : String := String.ofList t.name

/-- `S:x` scalar, `L:x,y` list (`L:` empty) -/
def parseOneOrMany? {α} (f : String → Option α) (s : String) : Option (OneOrMany α) :=
  if s.startsWith "S:" then (f (s.drop 2).toString).map .one
  else if s.startsWith "L:" then
    let body := (s.drop 2).toString
    if body.isEmpty then some (.many []) else ((body.splitOn ",").mapM f).map .many
  else none

/-- `C<chars>` or `O<esc(str)>:<count>,…` -/
def parsePat? (s : String) : Option Pat :=
  if s.startsWith "C" then (Wire.unesc (s.drop 1).toString).map .cls
  else if s.startsWith "O" then
    let body := (s.drop 1).toString
    if body.isEmpty then some (.opaque []) else
      ((body.splitOn ",").mapM fun (e : String) =>
        match e.splitOn ":" with
        | [k, v] => do
          let k ← Wire.unesc k
          let v ← v.toNat?
          pure (k, v)
        | _ => none).map .opaque
  else none

def parseRule? (s : String) : Option LossRule :=
  match s.splitOn "=" with
  | [p, v] => do
    let p ← parsePat? p
    let v ← parseRat? v
    pure (p, v)
  | _ => none

def parseRules? (s : String) : Option (List LossRule) :=
  if s.isEmpty then some [] else (s.splitOn ";").mapM parseRule?

/-- `N`, `S:rule`, `L:rule;rule` -/
def parseLosses? (s : String) : Option (Option (OneOrMany LossRule)) :=
  if s == "N" then some none
  else if s.startsWith "S:" then (parseRule? (s.drop 2).toString).map fun r => some (.one r)
  else if s.startsWith "L:" then (parseRules? (s.drop 2).toString).map fun l => some (.many l)
  else none

def parseRT? (s : String) : Option RT :=
  match s with
  | "fragment" => some .fragment | "mass" => some .mass | "mz" => some .mz | "label" => some .label
  | "mass-label" => some .massLabel | "mz-label" => some .mzLabel | "other" => some .other
  | _ => none

/-- `proton,neutron,fragAdjN;name:fragAdj:ionOffset;…` (the tables of the requested mass mode) -/
def parseParams? (s : String) : Option MassParams :=
  match s.splitOn ";" with
  | [] => none
  | hd :: rest => do
    let hd ← parseRatList? hd
    match hd with
    | [p, n, an] =>
      let rows ← rest.mapM fun (r : String) =>
        match r.splitOn ":" with
        | [nm, fa, io] => do
          let fa ← parseRat? fa
          let io ← parseRat? io
          pure (ionOfName nm, fa, io)
        | _ => none
      let look (sel : Rat × Rat → Rat) (t : Ion) : Rat :=
        match rows.find? (fun r => r.1 = t) with
        | some r => sel r.2
        | none => 0
      pure { proton := p, neutron := n, fragAdjN := fun _ => an,
             fragAdj := fun _ t => look (·.1) t, ionOffset := fun _ t => look (·.2) t }
    | _ => none

/-- `ion:charge:rat;…` -/
def parseShifts? (s : String) : Option (List (Ion × Int × Rat)) :=
  if s.isEmpty then some [] else
    (s.splitOn ";").mapM fun (r : String) =>
      match r.splitOn ":" with
      | [t, c, v] => do
        let c ← c.toInt?
        let v ← parseRat? v
        pure (ionOfName t, c, v)
      | _ => none

def showAnn (a : Annotation) : String := Wire.esc (Wire.showAnnotation a).toList

def showErr : Err → String
  | .valueError => "ERR:ValueError"

def showFrag (f : Frag) : String :=
  ",".intercalate [ionName f.ion, toString f.start, toString f.stop, toString f.charge, toString f.isotope,
    showRat f.loss, showRat f.mass, showRat f.neutralMass, showRat f.mz, (if f.internal then "1" else "0"),
    (if f.monoisotopic then "1" else "0"), showAnn f.sequence, Wire.esc f.unmodSequence,
    (match f.number with
      | .ok n => String.ofList n.text
      | .error e => showErr e),
    (match f.label (fun q => (showRat q).toList) with
      | .ok l => String.ofList l
      | .error e => showErr e)]

def showOut : Out → String
  | .frag f => showFrag f
  | .num x => showRat x
  | .label l => String.ofList l
  | .numLabel x l => showRat x ++ ":" ++ String.ofList l

def showResult (parent : Annotation) : Except Err (List Out) → String
  | .error e => showErr e
  | .ok l =>
    let bad := l.any fun o => match o with
      | .frag f => f.parent != parent
      | _ => false
    if bad then "PARENT-MISMATCH" else showAnn parent ++ "#" ++ ";".intercalate (l.map showOut)

def showSpans (l : List Spans.Span) : String :=
  ";".intercalate (l.map fun s => toString s.1 ++ ":" ++ toString s.2.1 ++ ":" ++ toString s.2.2)

def step (line : String) : String :=
  match splitTab line with
  | [op, ann, ions, charges, mono, isos, water, ammonia, losses, maxl, rt, prec, comps, split, params, shifts, cond] =>
    if op != "fragment" && op != "fragmenter" then "bad-op" else
    match Wire.parseAnnotation? cond with
    | none => "bad-op"
    | some cond =>
    match Wire.parseAnnotation? ann, parseOneOrMany? (fun s => some (ionOfName s)) ions,
        parseOneOrMany? String.toInt? charges, parseBool? mono, parseOneOrMany? String.toInt? isos,
        parseBool? water, parseBool? ammonia, parseLosses? losses with
    | some a, some ions, some charges, some mono, some isos, some water, some ammonia, some losses =>
      match parseInt? maxl, parseRT? rt, parseOptInt? prec, parseRatList? split, parseParams? params,
          parseShifts? shifts with
      | some maxl, some rt, some prec, some split, some P, some shifts =>
        let env : Env := { P := P, splitMass := fun _ _ => split, showLoss := fun q => (showRat q).toList,
                           condenseStatic := fun _ => cond,
                           labelShift := fun _ _ t c => match shifts.find? (fun r => r.1 = t && r.2.1 = c) with
                             | some r => r.2.2
                             | none => 0 }
        let args : Args := { ionTypes := ions, charges := charges, monoisotopic := mono, isotopes := isos,
                             waterLoss := water, ammoniaLoss := ammonia, losses := losses, maxLosses := maxl,
                             returnType := rt, precision := prec }
        if op == "fragmenter" then
          if comps != "None" then "bad-op" else
          showResult cond ((Fragmenter.new env a mono).fragment args)
        else
          let mc : Option (Option (List Rat)) :=
            if comps == "None" then some none else (parseRatList? comps).map some
          match mc with
          | some mc => showResult cond (fragment env a args mc)
          | none => "bad-op"
      | _, _, _, _, _, _ => "bad-op"
    | _, _, _, _, _, _, _, _ => "bad-op"
  | ["losses", sq, rules, maxl] =>
    match Wire.unesc sq, parseRules? rules, parseInt? maxl with
    | some sq, some rules, some maxl => ",".intercalate ((getLosses sq rules maxl).map showRat)
    | _, _, _ => "bad-op"
  | ["number", ion, len, s, e] =>
    match parseInt? len, parseInt? s, parseInt? e with
    | some len, some s, some e =>
      match getNumber (ionOfName ion) len s e with
      | .ok n => String.ofList n.text
      | .error er => showErr er
    | _, _, _ => "bad-op"
  | ["label", ion, charge, num, loss, iso] =>
    match parseInt? charge, parseRat? loss, parseInt? iso with
    | some charge, some loss, some iso =>
      let number : Option Number :=
        match num.splitOn "~" with
        | [a] => a.toInt?.map .int
        | [a, b] => do
          let a ← a.toInt?
          let b ← b.toInt?
          pure (.pair a b)
        | _ => none
      match number with
      | some n => String.ofList (getLabel (fun q => (showRat q).toList) (ionOfName ion) charge n loss iso)
      | none => "bad-op"
    | _, _, _ => "bad-op"
  | ["spans", kind, n] =>
    match parseInt? n with
    | some n =>
      match kind with
      | "forward" => showSpans (forwardSpans n)
      | "backward" => showSpans (backwardSpans n)
      | "internal" => showSpans (internalSpans n)
      | "immonium" => showSpans (immoniumSpans n)
      | _ => "bad-op"
    | none => "bad-op"
  | ["slice", ann, s, e] =>
    match Wire.parseAnnotation? ann, parseInt? s, parseInt? e with
    | some a, some s, some e => showAnn (slice a s e)
    | _, _, _ => "bad-op"
  | ["classify", ion] =>
    let t := ionOfName ion
    let b (x : Bool) : String := if x then "1" else "0"
    b t.isForward ++ b t.isBackward ++ b t.isInternal ++ b t.isTerminal ++ b (decide (t = Ion.I))
  | ["round", x, p] =>
    match parseRat? x, parseInt? p with
    | some x, some p => showRat (pyRound x p)
    | _, _ => "bad-op"
  | ["count", pat, sq] =>
    match parsePat? pat, Wire.unesc sq with
    | some p, some sq => toString (p.count sq)
    | _, _ => "bad-op"
  | ["builtin", sq] =>
    match Wire.unesc sq with
    | some sq => toString (waterPat.count sq) ++ "," ++ toString (ammoniaPat.count sq)
    | none => "bad-op"
  | ["consts"] => showRat waterLossValue ++ "," ++ showRat ammoniaLossValue ++ "," ++
      (match waterPat, ammoniaPat with
       | .cls a, .cls b => String.ofList a ++ "," ++ String.ofList b
       | _, _ => "?")
  | _ => "bad-op"

def main : IO Unit := runDriver step
