import PeptVerif.Model.Proto
import PeptVerif.Model.Annotation
import PeptVerif.Model.Search
/-! driver for C16: subsequence search and coverage -/
open Proto Pept Pept.Search

def showNats (l : List Nat) : String := ",".intercalate (l.map toString)

def showBool (b : Bool) : String := if b then "True" else "False"

def parseAnnots? (s : String) : Option (List Annotation) :=
  if s.isEmpty then some [] else (s.splitOn "~").mapM Wire.parseAnnotation?

def parseKeys? (s : String) : Option (List (List Char)) :=
  if s.isEmpty then some [] else (s.splitOn ",").mapM Wire.unesc

def step (line : String) : String :=
  match splitTab line with
  | ["occ", q, t] =>
    match Wire.unesc q, Wire.unesc t with
    | some q, some t => showNats (occurrences q t)
    | _, _ => "bad-op"
  | ["occ_nonoverlap", q, t] =>
    match Wire.unesc q, Wire.unesc t with
    | some q, some t => showNats (occNonOverlap q t)
    | _, _ => "bad-op"
  | ["find", q, t] =>
    match Wire.parseAnnotation? q, Wire.parseAnnotation? t with
    | some q, some t => showNats (findIndices q t)
    | _, _ => "bad-op"
  | ["issub", q, t] =>
    match Wire.parseAnnotation? q, Wire.parseAnnotation? t with
    | some q, some t => showBool (isSubsequenceM q t)
    | _, _ => "bad-op"
  | ["fsi", t, q, ign] =>
    match Wire.parseAnnotation? t, Wire.parseAnnotation? q, parseBool? ign with
    | some t, some q, some ign => showNats (findSubsequenceIndices t q ign)
    | _, _, _ => "bad-op"
  | ["issubf", q, t] =>
    match Wire.parseAnnotation? q, Wire.parseAnnotation? t with
    | some q, some t => showBool (isSubsequenceOrdered q t)
    | _, _ => "bad-op"
  | ["unord", sub, seq] =>
    match parseKeys? sub, parseKeys? seq with
    | some sub, some seq => showBool (unorderedContained sub seq)
    | _, _ => "bad-op"
  | ["unordf", q, t] =>
    match Wire.parseAnnotation? q, Wire.parseAnnotation? t with
    | some q, some t =>
      match isSubsequenceUnordered q t with
      | .ok b => showBool b
      | .error e => e.show
    | _, _ => "bad-op"
  | ["unordtext", q, t] =>
    match Wire.parseAnnotation? q, Wire.parseAnnotation? t with
    | some q, some t =>
      match isSubsequenceUnorderedText q t with
      | .ok b => showBool b
      | .error e => e.show
    | _, _ => "bad-op"
  | ["literal", a] =>
    match Wire.parseAnnotation? a with
    | some a => if Static.rulesLiteral a then "1" else "0"
    | none => "bad-op"
  | ["cov", t, acc, ign, qs] =>
    match Wire.parseAnnotation? t, parseBool? acc, parseBool? ign, parseAnnots? qs with
    | some t, some acc, some ign, some qs => showNats (coverage t qs acc ign)
    | _, _, _, _ => "bad-op"
  | ["pct", t, ign, qs] =>
    match Wire.parseAnnotation? t, parseBool? ign, parseAnnots? qs with
    | some t, some ign, some qs =>
      let r := percentCoverage t qs ign
      toString r.num ++ "/" ++ toString r.den
    | _, _, _ => "bad-op"
  | _ => "bad-op"

def main : IO Unit := runDriver step
