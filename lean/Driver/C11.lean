import PeptVerif.Model.Proto
import PeptVerif.Model.Annotation
import PeptVerif.Model.Reorder
/-! driver for C11: slice / reverse / shift / shuffle / sort / split on field dumps -/
open Proto Pept Pept.Reorder

def showRes : Except Err Annotation → String
  | .ok a => Wire.showAnnotation a
  | .error e => e.show

def parseNatList? (s : String) : Option (List Nat) :=
  if s.isEmpty then some [] else (s.splitOn ",").mapM (·.toNat?)

/-- `perm` must be a permutation of `0..n-1` (the result of `random.shuffle` on the positions) -/
def isPermOfRange (perm : List Nat) (n : Nat) : Bool :=
  perm.length == n && (List.range n).all (fun i => perm.contains i)

def showResidue (p : Char × List Mod) : String :=
  Wire.esc [p.1] ++ ":" ++ Wire.showModsWith "&" p.2

/-- one step of a chain of editors applied to one object lineage; `set <dump>` replaces the state (used for steps outside this
model, e.g. condense_static_mods), `copy` / `split` / `discard` leave it unchanged -/
def chainStep (a : Annotation) (st : String) : Except String Annotation :=
  match st.splitOn " " with
  | ["rev", sw] =>
    match parseBool? sw with
    | some sw => .ok (reverse a sw)
    | none => .error "bad-op"
  | ["shift", k] =>
    match parseInt? k with
    | some k => match shift a k with | .ok b => .ok b | .error e => .error e.show
    | none => .error "bad-op"
  | ["shuf", perm] =>
    match parseNatList? perm with
    | some perm =>
      if isPermOfRange perm a.seq.length then match shuffle a perm with | .ok b => .ok b | .error e => .error e.show
      else .error "bad-op"
    | none => .error "bad-op"
  | ["sort"] => match sortResidues a with | .ok b => .ok b | .error e => .error e.show
  | ["slice", i, j] =>
    match parseOptInt? i, parseOptInt? j with
    | some i, some j => .ok (sliceOpt a i j false)
    | _, _ => .error "bad-op"
  | ["strip"] => .ok (plain a.seq)
  | ["copy"] => .ok a
  | ["split"] => .ok a
  | ["discard"] => .ok a
  | ["set", d] =>
    match Wire.parseAnnotation? d with
    | some b => .ok b
    | none => .error "bad-op"
  | _ => .error "bad-op"

/-- states after every step, `~`-joined; an error ends the chain -/
def runChain : Annotation → List String → List String
  | _, [] => []
  | a, st :: rest =>
    match chainStep a st with
    | .ok b => Wire.showAnnotation b :: runChain b rest
    | .error e => [e]

def step (line : String) : String :=
  match splitTab line with
  | "chain" :: a :: steps =>
    match Wire.parseAnnotation? a with
    | some a => "~".intercalate (runChain a steps)
    | none => "bad-op"
  | ["slice", a, s, e, inpl] =>
    match Wire.parseAnnotation? a, parseOptInt? s, parseOptInt? e, parseBool? inpl with
    | some a, some s, some e, some inpl => Wire.showAnnotation (sliceOpt a s e inpl)
    | _, _, _, _ => "bad-op"
  | ["reverse", a, swap] =>
    match Wire.parseAnnotation? a, parseBool? swap with
    | some a, some swap => Wire.showAnnotation (reverse a swap)
    | _, _ => "bad-op"
  | ["shift", a, k] =>
    match Wire.parseAnnotation? a, parseInt? k with
    | some a, some k => showRes (shift a k)
    | _, _ => "bad-op"
  | ["shuffle", a, perm] =>
    match Wire.parseAnnotation? a, parseNatList? perm with
    | some a, some perm => if isPermOfRange perm a.seq.length then showRes (shuffle a perm) else "bad-op"
    | _, _ => "bad-op"
  | ["sort", a] =>
    match Wire.parseAnnotation? a with
    | some a => showRes (sortResidues a)
    | _ => "bad-op"
  | ["split", a] =>
    match Wire.parseAnnotation? a with
    | some a => "~".intercalate ((split a).map Wire.showAnnotation)
    | _ => "bad-op"
  | ["residues", a] =>
    match Wire.parseAnnotation? a with
    | some a => ";".intercalate ((residues a).map showResidue)
    | _ => "bad-op"
  | _ => "bad-op"

def main : IO Unit := runDriver step
