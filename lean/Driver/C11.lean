import PeptVerif.Model.Proto
import PeptVerif.Model.Annotation
import PeptVerif.Model.Reorder
/-! driver for C11: slice / reverse / shift / shuffle / sort / split on field dumps -/
open Proto Pept Pept.Reorder

def showRes : Except Err Annotation → String
  | .ok a => Wire.showAnnotation a
  | .error e => e.show

def parseNatList? (s : String) : Option (List Nat) :=
  if s.isEmpty then some [] else (s.splitOn ",").mapM (·.toNat?)

/-- `perm` must be a permutation of `0..n-1` (the result of `random.shuffle` on the positions) -/
def isPermOfRange (perm : List Nat) (n : Nat) : Bool :=
  perm.length == n && (List.range n).all (fun i => perm.contains i)

def showResidue (p : Char × List Mod) : String :=
  Wire.esc [p.1] ++ ":" ++ Wire.showModsWith "&" p.2

def step (line : String) : String :=
  match splitTab line with
  | ["slice", a, s, e, inpl] =>
    match Wire.parseAnnotation? a, parseOptInt? s, parseOptInt? e, parseBool? inpl with
    | some a, some s, some e, some inpl => Wire.showAnnotation (sliceOpt a s e inpl)
    | _, _, _, _ => "bad-op"
  | ["reverse", a, swap] =>
    match Wire.parseAnnotation? a, parseBool? swap with
    | some a, some swap => Wire.showAnnotation (reverse a swap)
    | _, _ => "bad-op"
  | ["shift", a, k] =>
    match Wire.parseAnnotation? a, parseInt? k with
    | some a, some k => showRes (shift a k)
    | _, _ => "bad-op"
  | ["shuffle", a, perm] =>
    match Wire.parseAnnotation? a, parseNatList? perm with
    | some a, some perm => if isPermOfRange perm a.seq.length then showRes (shuffle a perm) else "bad-op"
    | _, _ => "bad-op"
  | ["sort", a] =>
    match Wire.parseAnnotation? a with
    | some a => showRes (sortResidues a)
    | _ => "bad-op"
  | ["split", a] =>
    match Wire.parseAnnotation? a with
    | some a => "~".intercalate ((split a).map Wire.showAnnotation)
    | _ => "bad-op"
  | ["residues", a] =>
    match Wire.parseAnnotation? a with
    | some a => ";".intercalate ((residues a).map showResidue)
    | _ => "bad-op"
  | _ => "bad-op"

def main : IO Unit := runDriver step
