import PeptVerif.Model.AbsMassWire
/-! driver for C18: condense_to_mass_mods over the abstract mass environment -/
open Pept Pept.Static Pept.AbsMass Pept.AbsWire Pept.CondenseMass Proto

def withAnn (s : String) (f : Annotation → String) : String :=
  match Wire.parseAnnotation? s with
  | some a => f a
  | none => "bad-op"

def step (line : String) : String :=
  match splitTab line with
  | ["mods_of", a] => withAnn a fun a => ",".intercalate ((modsOf a).map Wire.showVal)
  | ["literal", a] => withAnn a fun a => if rulesLiteral a then "1" else "0"
  | ["round", x, p] =>
    match parseRat? x, p.toNat? with
    | some x, some p => String.ofList (decText (roundNum x p) p)
    | _, _ => "bad-op"
  | ["condense_mass", a, plus, p, res, mu, adj, aac, mr, ion, chg, em, flg, ntc, ctc] =>
    match parseEnv? res mu adj aac mr ion chg em flg ntc ctc, parseBool? plus, p.toNat? with
    | some E, some plus, some p => withAnn a fun a => showExcept Wire.esc (condenseToMass E a plus p)
    | _, _, _ => "bad-op"
  | ["condense_ann", a, p, res, mu, adj, aac, mr, ion, chg, em, flg, ntc, ctc] =>
    match parseEnv? res mu adj aac mr ion chg em flg ntc ctc, p.toNat? with
    | some E, some p => withAnn a fun a => showExcept Wire.showAnnotation (condenseToMassAnn E a p)
    | _, _ => "bad-op"
  | ["mass", a, res, mu, adj, aac, mr, ion, chg, em, flg, ntc, ctc] =>
    match parseEnv? res mu adj aac mr ion chg em flg ntc ctc with
    | some E => withAnn a fun a => showExcept showRat (massOf E a)
    | none => "bad-op"
  | _ => "bad-op"

def main : IO Unit := runDriver step
