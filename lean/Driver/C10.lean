import PeptVerif.Model.Proto
import PeptVerif.Model.ProtoC10
import PeptVerif.Model.ModDbGen
import PeptVerif.Model.ModDbFacts
import PeptVerif.Generated.ModDbPy
/-! driver for C10: the resolver model over the generated vocabularies -/
open Proto ProtoC10 ModDb Formula

def T : Tables := Gen.tables

def dbOf? (k : String) : Option (List Str × List Entry) :=
  match k with
  | "unimod" => some (pUnimod, T.unimod)
  | "psi" => some (pPsi, T.psimod)
  | "xlmod" => some (pXlmod, T.xlmod)
  | "resid" => some (pResid, T.resid)
  | "gno" => some (pGno, T.gno)
  | "mono" => some ([], T.mono)
  | _ => none

def showBool (b : Bool) : String := if b then "True" else "False"

def showOptStr : Option Str → String
  | none => "None"
  | some s => "S" ++ encode s

def showEntry (e : Entry) : String :=
  "\t".intercalate [encode e.id, encode e.name, ",".intercalate (e.syns.map encode), showOptDec e.mono, showOptDec e.avg,
    showOptStr e.comp]

def showConv : Conv → String
  | .num n => showNum n
  | .special => "SPECIAL"
  | .str => "STR"

def step (line : String) : String :=
  match splitTab line with
  | ["mass", m, mono] =>
    match parseBool? mono with
    | some b => showMass (modMass T (decode m) b)
    | none => "bad-op"
  | ["massmult", m, k, mono] =>
    match parseBool? mono, k.toInt? with
    | some b, some k => showMass (modMassMult T (decode m) k b)
    | _, _ => "bad-op"
  | ["comp", m] => showCompRes (modComp T (decode m))
  | ["compmult", m, k] =>
    match k.toInt? with
    | some k => showCompRes (modCompMult T (decode m) k)
    | none => "bad-op"
  | ["is", kind, s] =>
    match dbOf? kind with
    | some (ps, db) =>
      if kind == "unimod" || kind == "psi" then showBool (isDbStr ps db (decode s)) else showBool (hasPrefix ps (decode s))
    | none => "bad-op"
  | ["strip", kind, s] =>
    match dbOf? kind with
    | some (ps, _) => encode (stripPrefix ps (decode s))
    | none => "bad-op"
  | ["getmass", kind, s, mono] =>
    match dbOf? kind, parseBool? mono with
    | some (ps, db), some b => showMass (getMass T db (stripPrefix ps (decode s)) b)
    | _, _ => "bad-op"
  | ["getcomp", kind, s] =>
    match dbOf? kind with
    | some (ps, db) =>
      match getComp db (stripPrefix ps (decode s)) with
      | .ok f => "OK " ++ encode f
      | .error e => showErr e
    | none => "bad-op"
  | ["convert", s] => showConv (convertType (decode s))
  | ["count", kind] =>
    match dbOf? kind with
    | some (_, db) => toString db.length
    | none => "bad-op"
  | ["entry", kind, i] =>
    match dbOf? kind, i.toNat? with
    | some (_, db), some i =>
      match db[i]? with
      | some e => showEntry e
      | none => "None"
    | _, _ => "bad-op"
  | ["gen", "pred", name, s] =>
    -- definitions translated mechanically from mod_db.py (Generated/ModDbPy.lean)
    match GenModDb.predFn name with
    | some f => showBool (f T (decode s))
    | none => "untranslated"
  | ["gen", "strip", name, s] =>
    match GenModDb.stripFn name with
    | some f => encode (f T (decode s))
    | none => "untranslated"
  | ["gen", "branch", name, s] =>
    match GenModDb.branchFn name with
    | some f => (f T (decode s)).name
    | none => "untranslated"
  | ["hand", "branch", name, s] =>
    if name == "massBranch" then (massBranch T (decode s)).name
    else if name == "compBranch" then (compBranch T (decode s)).name
    else "bad-op"
  | ["fact", what, kind] =>
    -- the boolean table checks of Props/C10Tab*.lean / C10Mass.lean evaluated entry by entry: names the offending entries
    match dbOf? kind with
    | none => "bad-op"
    | some (_, db) =>
      let bad : List Entry :=
        match what with
        | "unclean" => db.filter (fun e => !entryClean e)
        | "numeric" => db.filter (fun e => !nameNotNumeric e)
        | "monomass" => db.filter (fun e => !monoMatchesComp T.mass e)
        | "dupkeys" =>
          let ks := KSort.msort (keysOf db)
          let dups := (ks.zip (ks.drop 1)).filter (fun ab => !KSort.ltStr ab.1 ab.2) |>.map (·.1)
          db.filter (fun e => dups.contains e.id || dups.contains e.name)
        | "cross" =>
          let pk := keysOf T.psimod
          db.filter (fun e => !collisions.contains e.name && pk.contains e.name)
        | _ => []
      ";".intercalate ((bad.take 20).map (fun e => encode e.id ++ "," ++ encode e.name))
  | _ => "bad-op"

def main : IO Unit := runDriver step
