import PeptVerif.Model.Proto
import PeptVerif.Model.Annotation
import PeptVerif.Model.Spans
import PeptVerif.Model.Reorder
import PeptVerif.Model.C07Strings
import PeptVerif.Model.C07Gen
/-! driver for C07: slice, the annotation return type of the digest dispatcher, digest end to end from sites -/
open Proto Pept Pept.Reorder

def parseSpan? (s : String) : Option Spans.Span :=
  match (s.splitOn ":").mapM (·.toInt?) with
  | some [a, b, c] => some (a, b, c)
  | _ => none

def parseSpans? (s : String) : Option (List Spans.Span) :=
  if s.isEmpty then some [] else (s.splitOn ";").mapM parseSpan?

def showPieces (sps : List Spans.Span) (ps : List Annotation) : String :=
  "~".intercalate ((sps.zip ps).map fun p => Spans.showSpan p.1 ++ "=" ++ Wire.showAnnotation p.2)

def step (line : String) : String :=
  match splitTab line with
  | ["slice", a, s, e, inpl] =>
    match Wire.parseAnnotation? a, parseOptInt? s, parseOptInt? e, parseBool? inpl with
    | some a, some s, some e, some inpl => Wire.showAnnotation (sliceOpt a s e inpl)
    | _, _, _, _ => "bad-op"
  | ["pieces", a, sps] =>
    match Wire.parseAnnotation? a, parseSpans? sps with
    | some a, some sps => showPieces sps (digestPieces a sps)
    | _, _ => "bad-op"
  | ["strings", a, sps] =>
    match Wire.parseAnnotation? a, parseSpans? sps with
    | some a, some sps => "~".intercalate ((digestStrings (constPlus false) a sps).map Wire.esc)
    | _, _ => "bad-op"
  | ["strspans", a, sps] =>
    match Wire.parseAnnotation? a, parseSpans? sps with
    | some a, some sps =>
      "~".intercalate ((digestStringSpans (constPlus false) a sps).map fun p => Spans.showSpan p.2 ++ "=" ++ Wire.esc p.1)
    | _, _ => "bad-op"
  | ["digest", a, sites, mc, lo, hi, semi, complete] =>
    match Wire.parseAnnotation? a, parseIntList? sites, mc.toNat?, parseOptInt? lo, parseOptInt? hi, parseBool? semi,
        parseBool? complete with
    | some a, some sites, some mc, some lo, some hi, some semi, some c =>
      let sps := Spans.digestSpans a.seq.length sites mc lo hi semi c
      showPieces sps (digestPieces a sps)
    | _, _, _, _, _, _, _ => "bad-op"
  | ["gen", which, a, lo, hi] =>
    match GenKind.parse? which, Wire.parseAnnotation? a, parseOptInt? lo, parseOptInt? hi with
    | some k, some a, some lo, some hi =>
      let ps := genPieceSpans k a lo hi
      showPieces (ps.map (·.2)) (ps.map (·.1))
    | _, _, _, _ => "bad-op"
  | _ => "bad-op"

def main : IO Unit := runDriver step
