import PeptVerif.Model.Proto
import PeptVerif.Model.Annotation
import PeptVerif.Model.AnnotEq
import PeptVerif.Model.ModDict
import PeptVerif.Model.SequenceFuncs
/-!
driver for C20: equality, modification dictionaries, strip, create_annotation.

Dictionary wire: entries joined by `~`, each `key:value`; keys `isotope static labile unknown nterm cterm intervals
charge charge_adducts internal` or an integer; values `N`, `L<mods ;>`, `V<intervals ;>`, `C<int>`, `D<k=mods&;…>`.
create_annotation wire: eleven `|`-separated fields like an annotation; list fields are `N`, `S<item>` or
`L<item>;…` with items `r<val>` (raw value) or `m<val>^<mult>` (Mod); internal `N` or `D<k>=<input with &>;…`;
intervals `N`, `S<iv>` or `V<iv>;…` with `iv` = `t<s>,<e>,<amb>,<input with &>` (tuple) or `i<s>,<e>,<amb>,<N|Lmods&>`.
-/
open Proto Pept Pept.Wire

def showBool (b : Bool) : String := if b then "True" else "False"

def showKey : DKey → String
  | .isotope => "isotope" | .static => "static" | .labile => "labile" | .unknown => "unknown"
  | .nterm => "nterm" | .cterm => "cterm" | .intervals => "intervals" | .charge => "charge"
  | .adducts => "charge_adducts" | .internal => "internal" | .idx i => toString i

def showDVal : DVal → String
  | .none => "N"
  | .mods l => "L" ++ showModsWith ";" l
  | .ivs l => showIntervals (some l)
  | .charge c => "C" ++ toString c
  | .dict d => showInternal (some d)

def showDict (d : ModDict) : String := "~".intercalate (d.map fun p => showKey p.1 ++ ":" ++ showDVal p.2)

def parseKey? (s : String) : Option DKey :=
  match s with
  | "isotope" => some .isotope | "static" => some .static | "labile" => some .labile | "unknown" => some .unknown
  | "nterm" => some .nterm | "cterm" => some .cterm | "intervals" => some .intervals | "charge" => some .charge
  | "charge_adducts" => some .adducts | "internal" => some .internal
  | _ => s.toInt?.map .idx

def parseDVal? (s : String) : Option DVal :=
  match s.toList with
  | ['N'] => some .none
  | 'L' :: r => (parseModsWith? ";" (String.ofList r)).map .mods
  | 'V' :: _ => match parseIntervals? s with | some (some l) => some (.ivs l) | _ => none
  | 'C' :: r => (String.ofList r).toInt?.map .charge
  | 'D' :: _ => match parseInternal? s with | some (some d) => some (.dict d) | _ => none
  | _ => none

/-- key/value typing as `add_mod_dict` expects it -/
def wellTyped : DKey → DVal → Bool
  | .intervals, .ivs _ => true
  | .intervals, .none => true
  | .charge, .charge _ => true
  | .charge, .none => true
  | .internal, .dict _ => true
  | .idx _, .mods _ => true
  | .isotope, .mods _ | .static, .mods _ | .labile, .mods _ | .unknown, .mods _ | .nterm, .mods _
  | .cterm, .mods _ | .adducts, .mods _ => true
  | .isotope, .none | .static, .none | .labile, .none | .unknown, .none | .nterm, .none
  | .cterm, .none | .adducts, .none => true
  | _, _ => false

def parseDict? (s : String) : Option ModDict :=
  if s.isEmpty then some [] else
  (s.splitOn "~").mapM fun (e : String) =>
    match e.splitOn ":" with
    | [k, v] => do
      let k ← parseKey? k
      let v ← parseDVal? v
      if wellTyped k v then pure (k, v) else none
    | _ => none

def parseItem? (s : String) : Option ModItem :=
  match s.toList with
  | 'r' :: r => (parseVal? (String.ofList r)).map .raw
  | 'm' :: r => (parseMod? (String.ofList r)).map .mod
  | _ => none

def parseInput? (sep : String) (s : String) : Option (Option ModInput) :=
  match s.toList with
  | ['N'] => some none
  | 'S' :: r => (parseItem? (String.ofList r)).map fun i => some (.single i)
  | 'L' :: r =>
    let body := String.ofList r
    if body.isEmpty then some (some (.list [])) else
    ((body.splitOn sep).mapM parseItem?).map fun l => some (.list l)
  | _ => none

def parseIvItem? (s : String) : Option IvItem :=
  match s.toList with
  | 't' :: r =>
    match (String.ofList r).splitOn "," with
    | [a, b, c, m] => do
      let a ← a.toInt?
      let b ← b.toInt?
      let c ← parseBool? c
      let m ← parseInput? "&" m
      pure (.tuple a b c m)
    | _ => none
  | 'i' :: r => (parseInterval? (String.ofList r)).map .iv
  | _ => none

def parseIvInput? (s : String) : Option (Option IvInput) :=
  match s.toList with
  | ['N'] => some none
  | 'S' :: r => (parseIvItem? (String.ofList r)).map fun i => some (.single i)
  | 'V' :: r =>
    let body := String.ofList r
    if body.isEmpty then some (some (.list [])) else
    ((body.splitOn ";").mapM parseIvItem?).map fun l => some (.list l)
  | _ => none

def parseInternalInput? (s : String) : Option (Option (List (Int × ModInput))) :=
  match s.toList with
  | ['N'] => some none
  | 'D' :: r =>
    let body := String.ofList r
    if body.isEmpty then some (some []) else
    ((body.splitOn ";").mapM fun (e : String) =>
      match e.splitOn "=" with
      | [k, v] => do
        let k ← k.toInt?
        let v ← parseInput? "&" v
        match v with
        | some v => pure (k, v)
        | none => none
      | _ => none).map some
  | _ => none

def parseArgs? (s : String) : Option CreateArgs :=
  match s.splitOn "|" with
  | [sq, iso, sta, lab, unk, nt, ct, int, ivs, ch, add] => do
    let sq ← unesc sq
    let iso ← parseInput? ";" iso
    let sta ← parseInput? ";" sta
    let lab ← parseInput? ";" lab
    let unk ← parseInput? ";" unk
    let nt ← parseInput? ";" nt
    let ct ← parseInput? ";" ct
    let int ← parseInternalInput? int
    let ivs ← parseIvInput? ivs
    let ch ← parseOptInt? ch
    let add ← parseInput? ";" add
    pure { seq := sq, isotope := iso, static := sta, labile := lab, unknown := unk, nterm := nt, cterm := ct,
           internal := int, intervals := ivs, charge := ch, adducts := add }
  | _ => none

def showKeyVal : ValKey → String
  | .num m e => "num," ++ toString m ++ "," ++ toString e
  | .text s => "text," ++ esc s
  | .other r => "other," ++ esc r

def step (line : String) : String :=
  match splitTab line with
  | ["eq", a, b] =>
    match parseAnnotation? a, parseAnnotation? b with
    | some a, some b => showBool (annEq a b)
    | _, _ => "bad-op"
  | ["modseq", a, b] =>
    match parseOptMods? ";" a, parseOptMods? ";" b with
    | some a, some b => showBool (areModsEqual a b)
    | _, _ => "bad-op"
  | ["ivseq", a, b] =>
    match parseIntervals? a, parseIntervals? b with
    | some a, some b => showBool (areIntervalsEqual a b)
    | _, _ => "bad-op"
  | ["modeq", a, b] =>
    match parseMod? a, parseMod? b with
    | some a, some b => showBool (modEq a b)
    | _, _ => "bad-op"
  | ["iveq", a, b] =>
    match parseInterval? a, parseInterval? b with
    | some a, some b => showBool (ivEq a b)
    | _, _ => "bad-op"
  | ["valeq", a, b] =>
    match parseVal? a, parseVal? b with
    | some a, some b => showBool (valEq a b)
    | _, _ => "bad-op"
  | ["valkey", a] =>
    match parseVal? a with
    | some a => showKeyVal (valKey a)
    | _ => "bad-op"
  | ["s_stripgetadd", plus, app, s] =>
    match parseBool? plus, parseBool? app, unesc s with
    | some plus, some app, some s =>
      match stripGetAddStr (constPlus plus) app s with
      | .ok t => "S" ++ esc t
      | .error e => "ERR:" ++ e.name
    | _, _, _ => "bad-op"
  | ["s_popadd", plus, s] =>
    match parseBool? plus, unesc s with
    | some plus, some s =>
      match popAddStr (constPlus plus) s with
      | .ok t => "S" ++ esc t
      | .error e => "ERR:" ++ e.name
    | _, _ => "bad-op"
  | ["s_strip", s] =>
    match unesc s with
    | some s =>
      match stripModsStr s with
      | .ok t => "S" ++ esc t
      | .error e => "ERR:" ++ e.name
    | none => "bad-op"
  | ["s_getmods", s] =>
    match unesc s with
    | some s =>
      match getModsStr s with
      | .ok d => "D" ++ showDict d
      | .error e => "ERR:" ++ e.name
    | none => "bad-op"
  | ["moddict", a] =>
    match parseAnnotation? a with
    | some a => showDict (modDict a)
    | none => "bad-op"
  | ["addmoddict", a, d, app] =>
    match parseAnnotation? a, parseDict? d, parseBool? app with
    | some a, some d, some app => showAnnotation (addModDict a d app)
    | _, _, _ => "bad-op"
  | ["addget", a] =>
    match parseAnnotation? a with
    | some a => showAnnotation (addModDict (strip a) (modDict a))
    | none => "bad-op"
  | ["popmods", a] =>
    match parseAnnotation? a with
    | some a => let r := popMods a; showDict r.1 ++ "!" ++ showAnnotation r.2
    | none => "bad-op"
  | ["ptpopmods", a] =>
    match parseAnnotation? a with
    | some a => let r := ptPopMods a; esc r.1 ++ "!" ++ showDict r.2
    | none => "bad-op"
  | ["strip", a] =>
    match parseAnnotation? a with
    | some a => showAnnotation (strip a)
    | none => "bad-op"
  | ["copy", a] =>
    match parseAnnotation? a with
    | some a => showAnnotation (copy a)
    | none => "bad-op"
  | ["create", c] =>
    match parseArgs? c with
    | some c => showAnnotation (createAnnotation c)
    | none => "bad-op"
  | ["createdict", a] =>
    match parseAnnotation? a with
    | some a => showAnnotation (createAnnotation (dictArgs a))
    | none => "bad-op"
  | _ => "bad-op"

def main : IO Unit := runDriver step
