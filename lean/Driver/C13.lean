import PeptVerif.Model.Proto
import PeptVerif.Model.Annotation
import PeptVerif.Model.ModBuilder
import PeptVerif.Spec.ModBuilder
/-!
driver for C13.

    static        annot mode internal nterm cterm emptysites          -> dump
    variable      annot mode maxmods internal nterm cterm emptysites  -> dumps joined by ' '
    variable_old  (same; the code before the repair)
    spec          (same as variable)                                  -> the specification's enumeration
    rec           annot mode maxcount modmap                          -> dumps (direct call of _apply_variable_mods_rec)

rules:  N | D<sites>~<value>;…      value(static): O<mod> | M<mod>&…     value(variable): O<mod> | F<mod>&… | G<value>!…
term:   N | D… | X<value>           modmap: <site>~<mods>!<mods>;…
-/
open Proto Pept Pept.Wire Pept.ModBuilder

def parseMode? (s : String) : Option Mode :=
  if s == "skip" then some .skip else if s == "append" then some .append
  else if s == "overwrite" then some .overwrite else none

def parseModsIn? (s : String) : Option ModsIn :=
  match s.toList with
  | 'O' :: r => (parseMod? (String.ofList r)).map .one
  | 'M' :: r => (parseModsWith? "&" (String.ofList r)).map .many
  | _ => none

def parseVarIn? (s : String) : Option VarIn :=
  match s.toList with
  | 'O' :: r => (parseMod? (String.ofList r)).map .one
  | 'F' :: r => (parseModsWith? "&" (String.ofList r)).map .flat
  | 'G' :: r =>
    let body := String.ofList r
    if body.isEmpty then some (.nested []) else ((body.splitOn "!").mapM parseModsIn?).map .nested
  | _ => none

def parseRule? {α : Type} (pv : String → Option α) (s : String) : Option (Rule α) :=
  match s.splitOn "~" with
  | [sites, v] => do
    let sites ← parseIntList? sites
    let v ← pv v
    pure (sites, v)
  | _ => none

def parseRules? {α : Type} (pv : String → Option α) (s : String) : Option (Option (List (Rule α))) :=
  match s.toList with
  | ['N'] => some none
  | 'D' :: r =>
    let body := String.ofList r
    if body.isEmpty then some (some []) else ((body.splitOn ";").mapM (parseRule? pv)).map some
  | _ => none

def parseTerm? {α : Type} (pv : String → Option α) (s : String) : Option (TermIn α) :=
  match s.toList with
  | ['N'] => some .none
  | 'X' :: r => (pv (String.ofList r)).map .direct
  | 'D' :: _ => do
    let r ← parseRules? pv s
    match r with
    | some rules => pure (.dict rules)
    | none => none
  | _ => none

def parseModMap? (s : String) : Option ModMap :=
  if s.isEmpty then some [] else
  (s.splitOn ";").mapM fun (e : String) =>
    match e.splitOn "~" with
    | [k, gs] => do
      let k ← k.toInt?
      let gs ← (gs.splitOn "!").mapM (parseModsWith? "&")
      pure (k, gs)
    | _ => none

def showAnnots (l : List Annotation) : String := " ".intercalate (l.map showAnnotation)

def step (line : String) : String :=
  match splitTab line with
  | ["static", a, mode, internal, nterm, cterm, es] =>
    match parseAnnotation? a, parseMode? mode, parseRules? parseModsIn? internal, parseTerm? parseModsIn? nterm,
        parseTerm? parseModsIn? cterm, parseIntList? es with
    | some a, some mode, some internal, some nterm, some cterm, some es =>
      showAnnotation (applyStatic a internal nterm cterm mode es)
    | _, _, _, _, _, _ => "bad-op"
  | [op, a, mode, mx, internal, nterm, cterm, es] =>
    match parseAnnotation? a, parseMode? mode, parseInt? mx, parseRules? parseVarIn? internal,
        parseTerm? parseVarIn? nterm, parseTerm? parseVarIn? cterm, parseIntList? es with
    | some a, some mode, some mx, some internal, some nterm, some cterm, some es =>
      if op == "variable" then showAnnots (applyVariable a internal mx nterm cterm mode es)
      else if op == "variable_old" then showAnnots (applyVariableOld a internal mx nterm cterm mode es)
      else if op == "spec" then showAnnots (specVariable a internal mx nterm cterm mode es)
      else "bad-op"
    | _, _, _, _, _, _, _ => "bad-op"
  | ["rec", a, mode, mc, mm] =>
    match parseAnnotation? a, parseMode? mode, parseInt? mc, parseModMap? mm with
    | some a, some mode, some mc, some mm => showAnnots (varRec mm mode mc a.seq.length 0 a)
    | _, _, _, _ => "bad-op"
  | _ => "bad-op"

def main : IO Unit := runDriver step
