import PeptVerif.Model.Proto
import PeptVerif.Model.Annotation
import PeptVerif.Model.ModBuilder
import PeptVerif.Spec.ModBuilder
import PeptVerif.Model.ModBuilderRegex
/-!
driver for C13.

    static        annot mode internal nterm cterm emptysites          -> dump
    variable      annot mode maxmods internal nterm cterm emptysites  -> dumps joined by ' '
    variable_old  (same; the code before the repair)
    spec          (same as variable)                                  -> the specification's enumeration
    rec           annot mode maxcount modmap                          -> dumps (direct call of _apply_variable_mods_rec)

rules:  N | D<sites>~<value>;…      value(static): O<mod> | M<mod>&…     value(variable): O<mod> | F<mod>&… | G<value>!…
term:   N | D… | X<value>           modmap: <site>~<mods>!<mods>;…

rules given as patterns of the RegexLite subset (ops static_pat / variable_pat, no emptysites argument): a rule's target is
either a site list or `P<item>/<item>…` with item = `kind:chars`, kind in b,a,n,x,c (as in Driver/C06).

    ranges   pattern text          -> s:e,s:e,…     (get_regex_match_range)
    indices  pattern text offset   -> i,i,…         (get_regex_match_indices)
-/
open Proto Pept Pept.Wire Pept.ModBuilder

def parseMode? (s : String) : Option Mode :=
  if s == "skip" then some .skip else if s == "append" then some .append
  else if s == "overwrite" then some .overwrite else none

def parseModsIn? (s : String) : Option ModsIn :=
  match s.toList with
  | 'O' :: r => (parseMod? (String.ofList r)).map .one
  | 'M' :: r => (parseModsWith? "&" (String.ofList r)).map .many
  | _ => none

def parseVarIn? (s : String) : Option VarIn :=
  match s.toList with
  | 'O' :: r => (parseMod? (String.ofList r)).map .one
  | 'F' :: r => (parseModsWith? "&" (String.ofList r)).map .flat
  | 'G' :: r =>
    let body := String.ofList r
    if body.isEmpty then some (.nested []) else ((body.splitOn "!").mapM parseModsIn?).map .nested
  | _ => none

def parseRule? {α : Type} (pv : String → Option α) (s : String) : Option (Rule α) :=
  match s.splitOn "~" with
  | [sites, v] => do
    let sites ← parseIntList? sites
    let v ← pv v
    pure (sites, v)
  | _ => none

def parseRules? {α : Type} (pv : String → Option α) (s : String) : Option (Option (List (Rule α))) :=
  match s.toList with
  | ['N'] => some none
  | 'D' :: r =>
    let body := String.ofList r
    if body.isEmpty then some (some []) else ((body.splitOn ";").mapM (parseRule? pv)).map some
  | _ => none

def parseTerm? {α : Type} (pv : String → Option α) (s : String) : Option (TermIn α) :=
  match s.toList with
  | ['N'] => some .none
  | 'X' :: r => (pv (String.ofList r)).map .direct
  | 'D' :: _ => do
    let r ← parseRules? pv s
    match r with
    | some rules => pure (.dict rules)
    | none => none
  | _ => none

def parseModMap? (s : String) : Option ModMap :=
  if s.isEmpty then some [] else
  (s.splitOn ";").mapM fun (e : String) =>
    match e.splitOn "~" with
    | [k, gs] => do
      let k ← k.toInt?
      let gs ← (gs.splitOn "!").mapM (parseModsWith? "&")
      pure (k, gs)
    | _ => none

def parseItem? (s : String) : Option RegexLite.Item :=
  match s.splitOn ":" with
  | [k, cs] =>
    let cs := cs.toList
    if k == "b" then some (.behind cs) else if k == "a" then some (.ahead cs)
    else if k == "n" then some (.aheadNot cs) else if k == "x" then some (.notAhead cs)
    else if k == "c" then some (.consume cs) else none
  | _ => none

def parsePattern? (s : String) : Option RegexLite.Pattern :=
  if s.isEmpty then some [] else (s.splitOn "/").mapM parseItem?

def parseTarget? (s : String) : Option Target :=
  match s.toList with
  | 'P' :: r => (parsePattern? (String.ofList r)).map .pat
  | _ => (parseIntList? s).map .sites

def parseRuleT? {α : Type} (pv : String → Option α) (s : String) : Option (Target × α) :=
  match s.splitOn "~" with
  | [t, v] => do
    let t ← parseTarget? t
    let v ← pv v
    pure (t, v)
  | _ => none

def parseRulesT? {α : Type} (pv : String → Option α) (s : String) : Option (Option (List (Target × α))) :=
  match s.toList with
  | ['N'] => some none
  | 'D' :: r =>
    let body := String.ofList r
    if body.isEmpty then some (some []) else ((body.splitOn ";").mapM (parseRuleT? pv)).map some
  | _ => none

def parseTermT? {α : Type} (pv : String → Option α) (s : String) : Option (TermT α) :=
  match s.toList with
  | ['N'] => some .none
  | 'X' :: r => (pv (String.ofList r)).map .direct
  | 'D' :: _ => do
    let r ← parseRulesT? pv s
    match r with
    | some rules => pure (.dict rules)
    | none => none
  | _ => none

def showRanges (l : List (Nat × Nat)) : String := ",".intercalate (l.map fun r => toString r.1 ++ ":" ++ toString r.2)

def showAnnots (l : List Annotation) : String := " ".intercalate (l.map showAnnotation)

def step (line : String) : String :=
  match splitTab line with
  | ["static", a, mode, internal, nterm, cterm, es] =>
    match parseAnnotation? a, parseMode? mode, parseRules? parseModsIn? internal, parseTerm? parseModsIn? nterm,
        parseTerm? parseModsIn? cterm, parseIntList? es with
    | some a, some mode, some internal, some nterm, some cterm, some es =>
      showAnnotation (applyStatic a internal nterm cterm mode es)
    | _, _, _, _, _, _ => "bad-op"
  | [op, a, mode, mx, internal, nterm, cterm, es] =>
    match parseAnnotation? a, parseMode? mode, parseInt? mx, parseRules? parseVarIn? internal,
        parseTerm? parseVarIn? nterm, parseTerm? parseVarIn? cterm, parseIntList? es with
    | some a, some mode, some mx, some internal, some nterm, some cterm, some es =>
      if op == "variable" then showAnnots (applyVariable a internal mx nterm cterm mode es)
      else if op == "variable_old" then showAnnots (applyVariableOld a internal mx nterm cterm mode es)
      else if op == "spec" then showAnnots (specVariable a internal mx nterm cterm mode es)
      else "bad-op"
    | _, _, _, _, _, _, _ => "bad-op"
  | ["static_pat", a, mode, internal, nterm, cterm] =>
    match parseAnnotation? a, parseMode? mode, parseRulesT? parseModsIn? internal, parseTermT? parseModsIn? nterm,
        parseTermT? parseModsIn? cterm with
    | some a, some mode, some internal, some nterm, some cterm =>
      showAnnotation (applyStaticPat a internal nterm cterm mode)
    | _, _, _, _, _ => "bad-op"
  | ["variable_pat", a, mode, mx, internal, nterm, cterm] =>
    match parseAnnotation? a, parseMode? mode, parseInt? mx, parseRulesT? parseVarIn? internal,
        parseTermT? parseVarIn? nterm, parseTermT? parseVarIn? cterm with
    | some a, some mode, some mx, some internal, some nterm, some cterm =>
      showAnnots (applyVariablePat a internal mx nterm cterm mode)
    | _, _, _, _, _, _ => "bad-op"
  | ["ranges", pat, text] =>
    match parsePattern? pat with
    | some p => showRanges (matchRanges p text.toList)
    | none => "bad-op"
  | ["indices", pat, text, off] =>
    match parsePattern? pat, parseInt? off with
    | some p, some off => showIntList (matchIndices p text.toList off)
    | _, _ => "bad-op"
  | ["rec", a, mode, mc, mm] =>
    match parseAnnotation? a, parseMode? mode, parseInt? mc, parseModMap? mm with
    | some a, some mode, some mc, some mm => showAnnots (varRec mm mode mc a.seq.length 0 a)
    | _, _, _, _ => "bad-op"
  | _ => "bad-op"

def main : IO Unit := runDriver step
