import PeptVerif.Model.RegexLite
/-! Lemmas about the regex-subset model (core Lean only). -/
namespace RegexLite

def Item.zeroWidth : Item → Bool
  | .consume _ => false
  | _ => true

/-- truth of a zero-width item given the neighbouring characters -/
def Item.holds : Item → Option Char → Option Char → Bool
  | .behind cls, prev, _ => match prev with | some c => cls.contains c | none => false
  | .ahead cls, _, next => match next with | some c => cls.contains c | none => false
  | .aheadNot cls, _, next => match next with | some c => !cls.contains c | none => false
  | .notAhead cls, _, next => match next with | some c => !cls.contains c | none => true
  | .consume _, _, _ => false

def holdsAt (p : Pattern) (prev next : Option Char) : Bool := p.all fun it => it.holds prev next

theorem holdsAt_cons (it : Item) (ps : Pattern) (a b : Option Char) :
    holdsAt (it :: ps) a b = (it.holds a b && holdsAt ps a b) := by simp [holdsAt]

theorem holdsAt_nil (a b : Option Char) : holdsAt [] a b = true := by simp [holdsAt]

theorem matchItems_zeroWidth (p : Pattern) (hz : ∀ it ∈ p, it.zeroWidth = true) (before after : List Char) :
    matchItems p before after = bif holdsAt p before.head? after.head? then some 0 else none := by
  induction p with
  | nil => simp [matchItems, holdsAt_nil]
  | cons it ps ih =>
    have hps : ∀ it ∈ ps, it.zeroWidth = true := fun x hx => hz x (List.mem_cons_of_mem _ hx)
    have hit := hz it (List.mem_cons_self)
    have ih' := ih hps
    rw [holdsAt_cons]
    cases it with
    | consume c => simp [Item.zeroWidth] at hit
    | behind c =>
      cases before with
      | nil => simp [matchItems, Item.holds]
      | cons b bs =>
        simp only [matchItems, ih', Item.holds, List.head?_cons]
        cases c.contains b <;> simp
    | ahead c =>
      cases after with
      | nil => simp [matchItems, Item.holds]
      | cons a as =>
        simp only [matchItems, ih', Item.holds, List.head?_cons]
        cases c.contains a <;> simp
    | aheadNot c =>
      cases after with
      | nil => simp [matchItems, Item.holds]
      | cons a as =>
        simp only [matchItems, ih', Item.holds, List.head?_cons]
        cases c.contains a <;> simp
    | notAhead c =>
      cases after with
      | nil => simp [matchItems, ih', Item.holds]
      | cons a as =>
        simp only [matchItems, ih', Item.holds, List.head?_cons]
        cases c.contains a <;> simp

/-- a match never consumes more than what is left -/
theorem matchItems_le (p : Pattern) (before after : List Char) (k : Nat)
    (h : matchItems p before after = some k) : k ≤ after.length := by
  induction p generalizing before after k with
  | nil => simp [matchItems] at h; omega
  | cons it ps ih =>
    cases it with
    | behind c =>
      cases before with
      | nil => simp [matchItems] at h
      | cons b bs =>
        simp only [matchItems] at h
        split at h
        · exact ih _ _ _ h
        · simp at h
    | ahead c =>
      cases after with
      | nil => simp [matchItems] at h
      | cons a as =>
        simp only [matchItems] at h
        split at h
        · exact ih _ _ _ h
        · simp at h
    | aheadNot c =>
      cases after with
      | nil => simp [matchItems] at h
      | cons a as =>
        simp only [matchItems] at h
        split at h
        · simp at h
        · exact ih _ _ _ h
    | notAhead c =>
      cases after with
      | nil => simp only [matchItems] at h; exact ih _ _ _ h
      | cons a as =>
        simp only [matchItems] at h
        split at h
        · simp at h
        · exact ih _ _ _ h
    | consume c =>
      cases after with
      | nil => simp [matchItems] at h
      | cons a as =>
        simp only [matchItems] at h
        split at h
        · cases hm : matchItems ps (a :: before) as with
          | none => simp [hm] at h
          | some j =>
            simp [hm] at h
            have := ih _ _ _ hm
            simp; omega
        · simp at h

theorem sitesGo_le (p : Pattern) (i : Nat) (before after : List Char) :
    ∀ x ∈ sitesGo p i before after, i ≤ x ∧ x ≤ i + after.length := by
  induction after generalizing i before with
  | nil =>
    intro x hx
    simp only [sitesGo] at hx
    cases hm : matchItems p before [] with
    | none => simp [hm] at hx
    | some k =>
      have hk := matchItems_le p before [] k hm
      simp at hk
      subst hk
      simp [hm] at hx
      simp [hx]
  | cons c rest ih =>
    intro x hx
    simp only [sitesGo, List.mem_append] at hx
    rcases hx with hx | hx
    · cases hm : matchItems p before (c :: rest) with
      | none => simp [hm] at hx
      | some k =>
        cases k with
        | zero => simp [hm] at hx; simp [hx]
        | succ k => simp [hm] at hx; simp [hx]
    · have := ih (i + 1) (c :: before) x hx
      simp; omega

/-- every reported site lies in `[0, |s|]` — the hypothesis the span theorems need -/
theorem sites_le (p : Pattern) (s : List Char) : ∀ x ∈ sites p s, x ≤ s.length := by
  intro x hx
  have := sitesGo_le p 0 [] s x hx
  omega

/-- the character before offset `k` of `after` (the last consumed one when `k = 0`) -/
def prevAt (before after : List Char) (k : Nat) : Option Char := if k = 0 then before.head? else after[k - 1]?

theorem mem_sitesGo_zeroWidth (p : Pattern) (hz : ∀ it ∈ p, it.zeroWidth = true) (i : Nat)
    (before after : List Char) (x : Nat) :
    x ∈ sitesGo p i before after ↔
      ∃ k, k ≤ after.length ∧ x = i + k ∧ holdsAt p (prevAt before after k) after[k]? = true := by
  induction after generalizing i before with
  | nil =>
    simp only [sitesGo, matchItems_zeroWidth p hz]
    cases hh : holdsAt p before.head? none
    · simp [prevAt, hh]
    · simp [prevAt, hh]
  | cons c rest ih =>
    simp only [sitesGo, matchItems_zeroWidth p hz, List.mem_append, ih]
    constructor
    · rintro (h | ⟨k, hk, rfl, hh⟩)
      · cases hh : holdsAt p before.head? (some c)
        · simp [hh] at h
        · simp [hh] at h
          exact ⟨0, by simp, by simp [h], by simp [prevAt, hh]⟩
      · refine ⟨k + 1, by simp; omega, by omega, ?_⟩
        cases k with
        | zero => simpa [prevAt] using hh
        | succ k => simpa [prevAt] using hh
    · rintro ⟨k, hk, rfl, hh⟩
      cases k with
      | zero =>
        left
        simp [prevAt] at hh
        simp [hh]
      | succ k =>
        right
        refine ⟨k, by simp at hk; omega, by omega, ?_⟩
        cases k with
        | zero => simpa [prevAt] using hh
        | succ k => simpa [prevAt] using hh

/-- C06 (rule semantics): a zero-width rule cuts at `x` iff its look-around conditions hold for the
residues adjacent to `x`; for every pattern of that kind and every text. -/
theorem mem_sites_zeroWidth (p : Pattern) (hz : ∀ it ∈ p, it.zeroWidth = true) (s : List Char) (x : Nat) :
    x ∈ sites p s ↔ x ≤ s.length ∧ holdsAt p (if x = 0 then none else s[x - 1]?) s[x]? = true := by
  unfold sites
  rw [mem_sitesGo_zeroWidth p hz]
  constructor
  · rintro ⟨k, hk, rfl, hh⟩
    simp only [Nat.zero_add]
    exact ⟨hk, by simpa [prevAt] using hh⟩
  · rintro ⟨hx, hh⟩
    exact ⟨x, hx, by simp, by simpa [prevAt] using hh⟩

end RegexLite

namespace RegexLite

theorem mem_sitesGo_consume1 (cls : List Char) (i : Nat) (before after : List Char) (x : Nat) :
    x ∈ sitesGo [.consume cls] i before after ↔
      ∃ k, ∃ h : k < after.length, x = i + k + 1 ∧ cls.contains after[k] = true := by
  induction after generalizing i before with
  | nil => simp [sitesGo, matchItems]
  | cons c rest ih =>
    simp only [sitesGo, List.mem_append, ih]
    constructor
    · rintro (h | ⟨k, hk, rfl, hh⟩)
      · have hm : matchItems [.consume cls] before (c :: rest) =
            if cls.contains c then some 1 else none := by
          simp only [matchItems]; split <;> simp
        rw [hm] at h
        by_cases hc : cls.contains c = true
        · rw [if_pos hc] at h
          simp at h
          exact ⟨0, by simp, by omega, by simpa using hc⟩
        · rw [if_neg hc] at h
          simp at h
      · exact ⟨k + 1, by simp; omega, by omega, by simpa using hh⟩
    · rintro ⟨k, hk, rfl, hh⟩
      cases k with
      | zero =>
        left
        have hm : matchItems [.consume cls] before (c :: rest) =
            if cls.contains c then some 1 else none := by
          simp only [matchItems]; split <;> simp
        have hc : cls.contains c = true := by simpa using hh
        rw [hm, if_pos hc]
        simp
      | succ k =>
        right
        exact ⟨k, by simp at hk; omega, by omega, by simpa using hh⟩

end RegexLite
