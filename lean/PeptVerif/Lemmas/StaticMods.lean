import PeptVerif.Spec.StaticMods
/-! Helper lemmas for C12 (core Lean only): dictionary updates of `condense_static_mods`, literal occurrences. -/
namespace Pept
namespace Static

theorem internalGet_internalAppend (d : List (Int × List Mod)) (i j : Int) (ms : List Mod) :
    internalGet (internalAppend d j ms) i =
      if i = j then some ((internalGet d j).getD [] ++ ms) else internalGet d i := by
  induction d with
  | nil =>
    by_cases h : i = j
    · subst h; simp [internalAppend, internalGet]
    · have : ¬ j = i := fun e => h e.symm
      simp [internalAppend, internalGet, h, this]
  | cons p d ih =>
    obtain ⟨k, v⟩ := p
    by_cases hk : k = j
    · subst hk
      by_cases h : i = k
      · subst h; simp [internalAppend, internalGet]
      · have : ¬ k = i := fun e => h e.symm
        simp [internalAppend, internalGet, h, this]
    · by_cases h : i = j
      · subst h
        simp [internalAppend, internalGet, hk, ih]
      · by_cases hki : k = i
        · subst hki; simp [internalAppend, internalGet, hk, h]
        · simp [internalAppend, internalGet, hk, h, hki, ih]

/-- the modifications under key `i` of an optional dict -/
def getO (cur : Option (List (Int × List Mod))) (i : Int) : List Mod := (internalGet (cur.getD []) i).getD []

theorem getO_addInternal (cur : Option (List (Int × List Mod))) (i j : Int) (ms : List Mod) :
    getO (addInternal cur j ms) i = getO cur i ++ (if i = j then ms else []) := by
  cases cur with
  | none =>
    by_cases h : i = j
    · subst h; simp [addInternal, getO, internalGet]
    · have : ¬ j = i := fun e => h e.symm
      simp [addInternal, getO, internalGet, h, this]
  | some d =>
    simp only [addInternal, getO, Option.getD_some, internalGet_internalAppend]
    by_cases h : i = j
    · subst h; simp
    · simp [h]

theorem getO_addInternalAt (idx : List Nat) (cur : Option (List (Int × List Mod))) (i : Nat) (ms : List Mod) :
    getO (addInternalAt cur idx ms) (i : Int) = getO cur (i : Int) ++ (List.replicate (idx.count i) ms).flatten := by
  induction idx generalizing cur with
  | nil => simp [addInternalAt]
  | cons j idx ih =>
    have : addInternalAt cur (j :: idx) ms = addInternalAt (addInternal cur (Int.ofNat j) ms) idx ms := rfl
    rw [this, ih, getO_addInternal]
    by_cases h : j = i
    · subst h
      simp [List.replicate_succ, List.append_assoc]
    · have h' : ¬ ((i : Int) = Int.ofNat j) := by
        simp only [Int.ofNat_eq_natCast]; omega
      rw [if_neg h']
      simp [h]

theorem getO_addInternalAt_neg (idx : List Nat) (cur : Option (List (Int × List Mod))) (i : Int) (hi : i < 0)
    (ms : List Mod) : getO (addInternalAt cur idx ms) i = getO cur i := by
  induction idx generalizing cur with
  | nil => simp [addInternalAt]
  | cons j idx ih =>
    have : addInternalAt cur (j :: idx) ms = addInternalAt (addInternal cur (Int.ofNat j) ms) idx ms := rfl
    rw [this, ih, getO_addInternal]
    have h' : ¬ i = Int.ofNat j := by
      simp only [Int.ofNat_eq_natCast]; omega
    rw [if_neg h']; simp

theorem getO_applyResidueRules (seq : List Char) (m : StaticMap) (cur : Option (List (Int × List Mod))) (i : Nat) :
    getO (applyResidueRules seq cur m) (i : Int) = getO cur (i : Int) ++ ruleModsAt seq i m := by
  induction m generalizing cur with
  | nil => simp [applyResidueRules, ruleModsAt]
  | cons p m ih =>
    obtain ⟨k, ms⟩ := p
    simp only [applyResidueRules, ruleModsAt]
    cases hk : isTermKey k with
    | true => simp [ih]
    | false => simp [ih, getO_addInternalAt, List.append_assoc]

theorem getO_applyResidueRules_neg (seq : List Char) (m : StaticMap) (cur : Option (List (Int × List Mod))) (i : Int)
    (hi : i < 0) : getO (applyResidueRules seq cur m) i = getO cur i := by
  induction m generalizing cur with
  | nil => simp [applyResidueRules]
  | cons p m ih =>
    obtain ⟨k, ms⟩ := p
    simp only [applyResidueRules]
    cases hk : isTermKey k with
    | true => simp [ih]
    | false => simp [ih, getO_addInternalAt_neg _ _ _ hi]

/-! ### literal occurrences -/

theorem occAux_length (t : List Char) (s : List Char) (skip pos : Nat) :
    (occAux t s skip pos).length = countAux t s skip := by
  induction s generalizing skip pos with
  | nil => simp [occAux, countAux]
  | cons c s ih =>
    cases skip with
    | succ k => simp [occAux, countAux, ih]
    | zero =>
      simp only [occAux, countAux]
      split
      · simp [ih]; omega
      · simp [ih]

theorem targetIndices_length (t seq : List Char) : (targetIndices t seq).length = countOcc t seq := by
  unfold targetIndices countOcc
  split
  · rfl
  · exact occAux_length t seq 0 0

theorem occAux_bounds (t : List Char) (s : List Char) (skip pos : Nat) :
    ∀ i ∈ occAux t s skip pos, pos ≤ i ∧ i < pos + s.length := by
  induction s generalizing skip pos with
  | nil => simp [occAux]
  | cons c s ih =>
    intro i hi
    cases skip with
    | succ k =>
      simp only [occAux] at hi
      have := ih k (pos + 1) i hi
      simp only [List.length_cons]; omega
    | zero =>
      simp only [occAux] at hi
      split at hi
      · rcases List.mem_cons.mp hi with h | h
        · subst h; simp only [List.length_cons]; omega
        · have := ih _ (pos + 1) i h
          simp only [List.length_cons]; omega
      · have := ih 0 (pos + 1) i hi
        simp only [List.length_cons]; omega

theorem targetIndices_lt (t seq : List Char) : ∀ i ∈ targetIndices t seq, i < seq.length := by
  intro i hi
  unfold targetIndices at hi
  split at hi
  · simp at hi
  · have := occAux_bounds t seq 0 0 i hi; omega

/-- a one-letter target: exactly the positions of that letter -/
theorem occAux_single (c : Char) (s : List Char) (pos : Nat) :
    occAux [c] s 0 pos = ((List.range s.length).filter fun i => s[i]? == some c).map (· + pos) := by
  induction s generalizing pos with
  | nil => simp [occAux]
  | cons x s ih =>
    simp only [occAux, List.length_cons, List.length_nil, Nat.sub_self]
    rw [List.range_succ_eq_map, List.filter_cons]
    have hmap : (List.filter (fun i => (x :: s)[i]? == some c) (List.map Nat.succ (List.range s.length))).map (· + pos)
        = ((List.range s.length).filter fun i => s[i]? == some c).map (· + (pos + 1)) := by
      rw [List.filter_map, List.map_map]
      congr 1
      · funext i; simp [Function.comp]; omega
    by_cases h : x = c
    · subst h
      have : isPrefix [x] (x :: s) = true := by simp [isPrefix]
      simp [this, ih, hmap]
    · have : isPrefix [c] (x :: s) = false := by
        simp [isPrefix]; exact fun e => h e.symm
      simp [this, ih, hmap, h]

theorem targetIndices_single (c : Char) (seq : List Char) :
    targetIndices [c] seq = (List.range seq.length).filter fun i => seq[i]? == some c := by
  simp [targetIndices, occAux_single]

end Static
end Pept
