import PeptVerif.Lemmas.CondenseMass
/-! Helper lemmas for C18 with an isotope label in force: the composition path of `mass` under an environment whose
two calculators agree (`Coherent`), the per-piece difference, the sum over the pieces. -/
namespace Pept
namespace CondenseMass
open Static AbsMass

/-- the environment in which every modification weighs what the COMPOSITION calculator gives it: the mass of its composition
(`mod_comp`) or its plain shift (`_parse_mod_delta_mass_only`). The label path of `mass` never consults `E.mu`, so it
computes in this environment whatever `E.mu` says. -/
def envC (E : Env) : Env :=
  { E with mu := fun v => match E.modRes v with | .comp c => chemMass E.em c | .delta d => d | .bad => 0 }

/-- the TABLE part of the agreement of the two mass calculators (C03's subject), plus the defaults of the call `mass(x)`
(`ion_type='p'`, `isotope=0`, `use_isotope_on_mods=False`): residue mass = mass of the residue composition, charge /
ion-type term = mass of its composition, the ion-type adjustment plus the (neutral) charge carrier has the atoms of the two
termini, the supplied dicts have distinct keys, plain shifts are scaled by their multiplier.
How far the tabulated modification masses `E.mu` are from the composition masses is NOT assumed here: it enters the bound as
an explicit slack term. -/
structure Coherent (E : Env) : Prop where
  res : ∀ x, E.res x = chemMass E.em (E.aaComp x)
  adj : E.adj = chemMass E.em E.ionAdj + chemMass E.em E.chargeComp
  term : ∀ x, compGet E.ionAdj x + compGet E.chargeComp x = compGet E.ntermComp x + compGet E.ctermComp x
  ndAa : ∀ x, NodupKeys (E.aaComp x)
  ndIon : NodupKeys E.ionAdj
  ndChg : NodupKeys E.chargeComp
  ndNt : NodupKeys E.ntermComp
  ndCt : NodupKeys E.ctermComp
  noIsoMods : E.useIsotopeOnMods = false
  ionP : E.ionP = true
  iso0 : E.isotope = 0
  quirk : E.q.deltaIgnoresMult = false

/-! ### modifications on the composition path -/

theorem chemMass_compScale (em : List Char → ℚ) (c : Comp) (k : ℚ) : chemMass em (compScale c k) = k * chemMass em c := by
  induction c with
  | nil => simp [compScale, chemMass]
  | cons p c ih =>
    obtain ⟨e, v⟩ := p
    unfold compScale at *
    simp only [List.map_cons, chemMass, ih]; ring

theorem modMass_envC (E : Env) (hq : E.q.deltaIgnoresMult = false) (m : Mod) :
    modMass (envC E) m = chemMass E.em (compOf E m) + deltaOf E m := by
  unfold modMass envC compOf deltaOf
  simp only
  cases E.modRes m.val with
  | comp c => simp only [chemMass_compScale]; ring
  | delta d => simp [hq, chemMass]
  | bad => simp [chemMass]

theorem compSum_mass' (E : Env) (hq : E.q.deltaIgnoresMult = false) (l : List Mod) (acc : Comp) :
    chemMass E.em (compSum E acc l) + deltaSum E l = chemMass E.em acc + sumMods (envC E) l := by
  induction l generalizing acc with
  | nil => simp [compSum, deltaSum, sumMods]
  | cons m l ih =>
    simp only [compSum, deltaSum, sumMods]
    have := ih (compAdd acc (compOf E m))
    rw [chemMass_compAdd] at this
    have hm := modMass_envC E hq m
    linarith

theorem compSum_mass (E : Env) (hc : Coherent E) (l : List Mod) (acc : Comp) :
    chemMass E.em (compSum E acc l) + deltaSum E l = chemMass E.em acc + sumMods (envC E) l := by
  induction l generalizing acc with
  | nil => simp [compSum, deltaSum, sumMods]
  | cons m l ih =>
    simp only [compSum, deltaSum, sumMods]
    have := ih (compAdd acc (compOf E m))
    rw [chemMass_compAdd] at this
    have hm := modMass_envC E hc.quirk m
    linarith

theorem sumMods_flatMap_intervals (E : Env) (l : List Interval) :
    sumMods E (l.flatMap fun iv => iv.mods.getD []) = sumIntervals E l := by
  induction l with
  | nil => rfl
  | cons iv l ih =>
    simp only [List.flatMap_cons, sumMods_append, sumIntervals, ih]
    cases iv.mods <;> simp [optSum, sumMods]

theorem sumMods_flatMap_internal (E : Env) (d : List (Int × List Mod)) :
    sumMods E (d.flatMap fun q => q.2) = sumInternal E d := by
  induction d with
  | nil => rfl
  | cons q d ih => simp only [List.flatMap_cons, sumMods_append, sumInternal, ih]

/-- all modifications of an annotation, as the fast path adds them (ion type `p`) -/
def modsTotal (E : Env) (b : Annotation) : ℚ :=
  optSum E b.labile + optSum E b.unknown + optSum E b.nterm + optSum E b.cterm + optIntervals E b.intervals + optInt E b.internal

theorem optSum_getD (E : Env) (o : Option (List Mod)) : sumMods E (o.getD []) = optSum E o := by
  cases o <;> simp [optSum, sumMods]

/-- the modification composition plus the plain shifts weigh what the fast path adds for the modifications -/
theorem modComposition_mass (E : Env) (hc : Coherent E) (b : Annotation) :
    chemMass E.em (modComposition E b) + deltaMass E b = modsTotal (envC E) b := by
  unfold modComposition deltaMass modsTotal
  simp only [hc.ionP, if_true, Bool.true_or, chemMass_compAdd1, hc.iso0]
  have h1 := compSum_mass E hc (b.unknown.getD []) []
  have h2 := compSum_mass E hc ((b.intervals.getD []).flatMap fun iv => iv.mods.getD []) (compSum E [] (b.unknown.getD []))
  have h3 := compSum_mass E hc (b.labile.getD []) (compSum E (compSum E [] (b.unknown.getD []))
    ((b.intervals.getD []).flatMap fun iv => iv.mods.getD []))
  have h4 := compSum_mass E hc (b.nterm.getD []) (compSum E (compSum E (compSum E [] (b.unknown.getD []))
    ((b.intervals.getD []).flatMap fun iv => iv.mods.getD [])) (b.labile.getD []))
  have h5 := compSum_mass E hc (b.cterm.getD []) (compSum E (compSum E (compSum E (compSum E [] (b.unknown.getD []))
    ((b.intervals.getD []).flatMap fun iv => iv.mods.getD [])) (b.labile.getD [])) (b.nterm.getD []))
  have h6 := compSum_mass E hc ((b.internal.getD []).flatMap fun q => q.2) (compSum E (compSum E (compSum E (compSum E
    (compSum E [] (b.unknown.getD [])) ((b.intervals.getD []).flatMap fun iv => iv.mods.getD [])) (b.labile.getD []))
    (b.nterm.getD [])) (b.cterm.getD []))
  rw [sumMods_flatMap_intervals] at h2
  rw [sumMods_flatMap_internal] at h6
  rw [optSum_getD] at h1 h3 h4 h5
  have e1 : sumIntervals (envC E) (b.intervals.getD []) = optIntervals (envC E) b.intervals := by
    cases b.intervals <;> simp [optIntervals, sumIntervals]
  have e2 : sumInternal (envC E) (b.internal.getD []) = optInt (envC E) b.internal := by
    cases b.internal <;> simp [optInt, sumInternal]
  rw [e1] at h2
  rw [e2] at h6
  simp only [chemMass] at h1
  push_cast
  linarith

/-! ### residues on the composition path -/

/-- how many atoms of `x` the residues of `s` have -/
def seqCount (E : Env) : List Char → List Char → ℚ
  | [], _ => 0
  | r :: s, x => compGet (E.aaComp r) x + seqCount E s x

theorem compGet_seqCompOf (E : Env) (hc : Coherent E) (s : List Char) (acc : Comp) (x : List Char) :
    compGet (seqCompOf E s acc) x = compGet acc x + seqCount E s x := by
  induction s generalizing acc with
  | nil => simp [seqCompOf, seqCount]
  | cons r s ih =>
    simp only [seqCompOf, seqCount, ih, compGet_compAdd _ _ _ (hc.ndAa r)]; ring

theorem chemMass_seqCompOf (E : Env) (hc : Coherent E) (s : List Char) (acc : Comp) :
    chemMass E.em (seqCompOf E s acc) = chemMass E.em acc + sumRes E s := by
  induction s generalizing acc with
  | nil => simp [seqCompOf, sumRes]
  | cons r s ih => simp only [seqCompOf, sumRes, ih, chemMass_compAdd, hc.res r]; ring

/-- label shift of the residues of `s` -/
def seqShift (E : Env) (lm : LabelMap) (s : List Char) : ℚ := shiftG E.em (seqCount E s) lm

theorem seqCount_append (E : Env) (s t : List Char) (x : List Char) :
    seqCount E (s ++ t) x = seqCount E s x + seqCount E t x := by
  induction s with
  | nil => simp [seqCount]
  | cons r s ih => simp only [List.cons_append, seqCount, ih]; ring

theorem seqShift_nil (E : Env) (lm : LabelMap) : seqShift E lm [] = 0 := by
  unfold seqShift
  have : seqCount E [] = fun _ => 0 := by funext x; rfl
  rw [this, shiftG_zero]

theorem seqShift_append (E : Env) (lm : LabelMap) (s t : List Char) :
    seqShift E lm (s ++ t) = seqShift E lm s + seqShift E lm t := by
  unfold seqShift
  have : seqCount E (s ++ t) = fun x => seqCount E s x + seqCount E t x := by
    funext x; exact seqCount_append E s t x
  rw [this, shiftG_add]

/-- label shift of the terminal H and OH (what `termLabelShift` computes, both termini together) -/
def termShift (E : Env) (lm : LabelMap) : ℚ := labelShift E.em E.ntermComp lm + labelShift E.em E.ctermComp lm

theorem termLabelShift_some (E : Env) (hc : Coherent E) (L : List Mod) (lm : LabelMap)
    (hl : parseIsotopeMods E.knownLabel L = .ok lm) :
    termLabelShift E E.ntermComp (some L) = .ok (labelShift E.em E.ntermComp lm) ∧
    termLabelShift E E.ctermComp (some L) = .ok (labelShift E.em E.ctermComp lm) := by
  simp only [termLabelShift, hl, chemMass_relabel E.em lm _ hc.ndNt, chemMass_relabel E.em lm _ hc.ndCt]
  constructor <;> congr 1 <;> ring

/-- the label shift of residues + ion-type adjustment + charge carrier splits into residues and termini -/
theorem labelShift_sequenceComposition (E : Env) (hc : Coherent E) (lm : LabelMap) (b : Annotation) :
    labelShift E.em (sequenceComposition E b) lm = seqShift E lm b.seq + termShift E lm := by
  rw [labelShift_eq_shiftG]
  have hg : compGet (sequenceComposition E b) =
      fun x => seqCount E b.seq x + (compGet E.ntermComp x + compGet E.ctermComp x) := by
    funext x
    unfold sequenceComposition
    rw [compGet_compAdd _ _ _ hc.ndChg, compGet_compAdd _ _ _ hc.ndIon, compGet_seqCompOf E hc]
    have := hc.term x
    simp only [compGet]; linarith
  rw [hg, shiftG_add, shiftG_add]
  unfold seqShift termShift
  rw [labelShift_eq_shiftG, labelShift_eq_shiftG]

theorem chemMass_sequenceComposition (E : Env) (hc : Coherent E) (b : Annotation) :
    chemMass E.em (sequenceComposition E b) = sumRes E b.seq + E.adj := by
  unfold sequenceComposition
  rw [chemMass_compAdd, chemMass_compAdd, chemMass_seqCompOf E hc, hc.adj]
  simp only [chemMass]; ring

/-- **the composition path of `mass`, in a coherent environment**: residues + charge / ion-type term + label shift of
residues and termini + every modification at its ordinary weight -/
theorem massLabel_coherent (E : Env) (hc : Coherent E) (b : Annotation) (L : List Mod) (lm : LabelMap)
    (hst : b.static = none) (hiso : b.isotope = some L) (hl : parseIsotopeMods E.knownLabel L = .ok lm)
    (hres : ∀ m ∈ allMods b, isBad E m = false) :
    massLabel E b = .ok (sumRes E b.seq + E.adj + seqShift E lm b.seq + termShift E lm + modsTotal (envC E) b) := by
  have hcond : condenseStatic b = .ok b := by simp [condenseStatic, hst]
  have hbad : (allMods b).any (isBad E) = false := by
    rw [List.any_eq_false]; intro m hm; simp [hres m hm]
  have hm := modComposition_mass E hc b
  have hs := chemMass_relabel E.em lm _ (nodupKeys_sequenceComposition E b)
  rw [labelShift_sequenceComposition E hc, chemMass_sequenceComposition E hc] at hs
  have hrule := absentRuleBad_static_none E b hst
  simp only [massLabel, compMassOf, hcond, hbad, hrule, Bool.or_self, hiso, hl, hc.noIsoMods, Bool.false_eq_true, if_false,
    chemMass_dropZeros, chemMass_compAdd, chemMass, hs]
  congr 1
  linarith

/-! ### one piece, label in force -/

theorem optInt_pieceInternal (E : Env) (cur : Option (List (Int × List Mod))) (j : ℕ) :
    optInt E (pieceInternal cur j) = sumAt E cur j := by
  cases cur with
  | none => rfl
  | some d => simp only [pieceInternal, Option.map_some, optInt, sumAt, sumInternal_map_key E (fun k => k - Int.ofNat j)]

/-- the residues of piece `j` -/
def pieceSeq (c : Annotation) (j : ℕ) : List Char := (c.seq.take (j + 1)).drop j

theorem pieceDiff_label (E : Env) (hc : Coherent E) (c : Annotation) (j : ℕ) (m0 : Mod) (L : List Mod) (lm : LabelMap)
    (hst : c.static = none) (hiso : c.isotope = some (m0 :: L)) (hl : parseIsotopeMods E.knownLabel (m0 :: L) = .ok lm)
    (hres : ∀ m ∈ allMods c, isBad E m = false) :
    pieceDiff E { slice (core c) j (j + 1) with labile := none } =
      .ok (seqShift E lm (pieceSeq c j) + termShift E lm + sumAt (envC E) c.internal j) := by
  have hm : hasMods (core c) = true := by simp [hasMods, core, hiso]
  have hfilter : ∀ d : List (Int × List Mod),
      (d.filter fun q => decide ((Int.ofNat j) ≤ q.1) && decide (q.1 < Int.ofNat (j + 1))) =
      d.filter fun q => decide (q.1 = (j : Int)) := by
    intro d
    apply List.filter_congr
    intro q _
    rw [Bool.eq_iff_iff]
    simp only [Bool.and_eq_true, decide_eq_true_eq, Int.ofNat_eq_natCast]
    push_cast; omega
  have hpiece : ({ slice (core c) j (j + 1) with labile := none } : Annotation) =
      { seq := pieceSeq c j, isotope := some (m0 :: L), internal := pieceInternal c.internal j } := by
    rw [slice_of_hasMods _ _ _ hm]
    simp only [core, hiso, hst, Option.map_none, ite_self, pieceInternal, pieceSeq]
    cases hi : c.internal with
    | none => rfl
    | some d => simp only [Option.map_some, hfilter]
  rw [hpiece]
  have hmass : massOf E { seq := pieceSeq c j, isotope := some (m0 :: L), internal := pieceInternal c.internal j } =
      .ok (sumRes E (pieceSeq c j) + E.adj + seqShift E lm (pieceSeq c j) + termShift E lm + sumAt (envC E) c.internal j) := by
    have hsub : ∀ m ∈ allMods { seq := pieceSeq c j, isotope := some (m0 :: L), internal := pieceInternal c.internal j },
        isBad E m = false := by
      intro m hm
      apply hres
      simp only [allMods, Option.getD_none, List.flatMap_nil, List.append_nil, List.nil_append, pieceInternal] at hm ⊢
      cases hi : c.internal with
      | none => rw [hi] at hm; simp at hm
      | some d =>
        rw [hi] at hm
        simp only [Option.map_some, Option.getD_some, List.mem_flatMap, List.mem_map, List.mem_filter] at hm
        obtain ⟨q, ⟨q', ⟨hq', _⟩, hqe⟩, hmq⟩ := hm
        subst hqe
        simp only [List.mem_append, List.mem_flatMap, Option.getD_some]
        exact Or.inr ⟨q', hq', hmq⟩
    have := massLabel_coherent E hc
      { seq := pieceSeq c j, isotope := some (m0 :: L), internal := pieceInternal c.internal j } (m0 :: L) lm rfl rfl hl hsub
    simp only [massOf, this]
    congr 1
    simp [modsTotal, optSum, optIntervals, optInt_pieceInternal]
  unfold pieceDiff stripped
  rw [hmass, massOf_bare]
  simp only [Except.ok.injEq]
  ring

/-- the significant part of the difference of piece `j`: label shift of its residue + modifications listed there -/
def effL (E : Env) (lm : LabelMap) (c : Annotation) : List ℚ :=
  (List.range c.seq.length).map fun j : ℕ => seqShift E lm (pieceSeq c j) + sumAt (envC E) c.internal (j : ℕ)

theorem pieceDiffs_label (E : Env) (hc : Coherent E) (c : Annotation) (m0 : Mod) (L : List Mod) (lm : LabelMap)
    (hst : c.static = none) (hiso : c.isotope = some (m0 :: L)) (hl : parseIsotopeMods E.knownLabel (m0 :: L) = .ok lm)
    (hres : ∀ m ∈ allMods c, isBad E m = false) :
    pieceDiffs E (splitPieces (core c)) = .ok ((List.range c.seq.length).map fun j : ℕ =>
      seqShift E lm (pieceSeq c j) + termShift E lm + sumAt (envC E) c.internal (j : ℕ)) := by
  rw [splitPieces_core]
  exact pieceDiffs_map E _ _ _ (fun j _ => pieceDiff_label E hc c j m0 L lm hst hiso hl hres)

/-! ### summing over the pieces -/

theorem listSum_append (a b : List ℚ) : listSum (a ++ b) = listSum a + listSum b := by
  induction a with
  | nil => simp [listSum]
  | cons y a iha => simp only [List.cons_append, listSum, iha]; ring

/-- an additive function of the residues is the sum of its values on the one-residue pieces -/
theorem sum_pieces (f : List Char → ℚ) (h0 : f [] = 0) (hadd : ∀ s t, f (s ++ t) = f s + f t) (s : List Char) :
    listSum ((List.range s.length).map fun j : ℕ => f ((s.take (j + 1)).drop j)) = f s := by
  induction s with
  | nil => simp [listSum, h0]
  | cons x r ih =>
    rw [List.length_cons, List.range_succ_eq_map, List.map_cons, List.map_map]
    have h1 : f (((x :: r).take (0 + 1)).drop 0) = f [x] := by simp
    have h2 : (fun j : ℕ => f (((x :: r).take (j + 1)).drop j)) ∘ Nat.succ = fun j : ℕ => f ((r.take (j + 1)).drop j) := by
      funext j; simp
    simp only [listSum, h1, h2, ih]
    have := hadd [x] r
    simp only [List.singleton_append] at this
    rw [this]

theorem listSum_effL (E : Env) (lm : LabelMap) (c : Annotation) (hr : InRange c) :
    listSum (effL E lm c) = seqShift E lm c.seq + optInt (envC E) c.internal := by
  unfold effL
  rw [listSum_add_map]
  have h1 := sum_pieces (seqShift E lm) (seqShift_nil E lm) (seqShift_append E lm) c.seq
  have h2 := listSum_sumAt_opt (envC E) c hr
  unfold pieceSeq
  rw [h1, h2]

/-! ### what is written, label in force -/

/-- the shifts written for a condensed annotation carrying a (non-empty) label -/
theorem shiftsOf_label (E : Env) (hc : Coherent E) (c : Annotation) (p : ℕ) (m0 : Mod) (L : List Mod) (lm : LabelMap)
    (hst : c.static = none) (hiso : c.isotope = some (m0 :: L)) (hl : parseIsotopeMods E.knownLabel (m0 :: L) = .ok lm)
    (hres : ∀ m ∈ allMods c, isBad E m = false) :
    shiftsOf E c p = .ok
      { internal := shiftsFrom p (effL E lm c) 0,
        nterm := termNum E p c.nterm (labelShift E.em E.ntermComp lm),
        cterm := termNum E p c.cterm (labelShift E.em E.ctermComp lm),
        labile := c.labile.map fun l => roundedSum E l p,
        unknown := c.unknown.map fun l => roundedSum E l p,
        intervals := c.intervals.map fun l => l.map fun iv => (iv, iv.mods.map fun ms => roundedSum E ms p) } := by
  obtain ⟨hn, hct⟩ := termLabelShift_some E hc (m0 :: L) lm hl
  have hd := pieceDiffs_label E hc c m0 L lm hst hiso hl hres
  have hs := pieceShifts_of_diffs E p (labelShift E.em E.ntermComp lm + labelShift E.em E.ctermComp lm) _ 0 _ hd
  have hmap : ((List.range c.seq.length).map fun j : ℕ =>
        seqShift E lm (pieceSeq c j) + termShift E lm + sumAt (envC E) c.internal (j : ℕ)).map
        (· - (labelShift E.em E.ntermComp lm + labelShift E.em E.ctermComp lm)) = effL E lm c := by
    unfold effL termShift
    rw [List.map_map]
    apply List.map_congr_left
    intro j _
    simp only [Function.comp]; ring
  rw [hmap] at hs
  simp only [shiftsOf, hiso, hn, hct, hs]

/-- error of what is written on a terminus -/
theorem termNum_err (E : Env) (p : ℕ) (hn : ∀ i : ℤ, E.mu (.int i) = i) (o : Option (List Mod)) (sh : ℚ) :
    |numO p (termNum E p o sh) - (optSum E o + sh)| ≤
      (cnt (termNum E p o sh) : ℚ) * halfUlp p + (if sh ≠ 0 ∧ ¬ absQ sh > threshold then 1 else 0 : ℕ) * threshold := by
  unfold termNum
  split
  · rename_i hg
    have he := roundNum_err (sumMods E (o.getD []) + sh) p
    rw [optSum_getD] at he
    have hz : (if sh ≠ 0 ∧ ¬ absQ sh > threshold then 1 else 0 : ℕ) = 0 := by simp [hg]
    simp only [numO, Num.toRat, cnt, hz, Nat.cast_one, one_mul, Nat.cast_zero, zero_mul, add_zero]
    rw [optSum_getD]
    exact he
  · rename_i hg
    have h1 := numO_err E p hn o
    have hle : |sh| ≤ threshold := by rw [← absQ_eq_abs]; exact not_lt.mp hg
    have hcnt : cnt (o.map fun l => roundedSum E l p) = cnt o := by cases o <;> rfl
    rw [hcnt]
    have e : numO p (o.map fun l => roundedSum E l p) - (optSum E o + sh) =
        (numO p (o.map fun l => roundedSum E l p) - optSum E o) + (-sh) := by ring
    rw [e]
    have h3 := abs_add_le (numO p (o.map fun l => roundedSum E l p) - optSum E o) (-sh)
    rw [abs_neg] at h3
    by_cases hs : sh = 0
    · subst hs
      simp only [abs_zero] at h3
      simp; linarith
    · have hz : (if sh ≠ 0 ∧ ¬ absQ sh > threshold then 1 else 0 : ℕ) = 1 := by simp [hs, hg]
      rw [hz]; push_cast; linarith

/-- how many numbers are written, label in force (the termini may get a number from the label alone) -/
def writtenL (c : Annotation) (s : Shifts) : ℕ :=
  s.internal.length + cnt s.nterm + cnt s.cterm + cnt c.labile + cnt c.unknown + cntIntervalsO c.intervals

/-- what is dropped by the 1e-6 cut-off: residues and the two terminal label shifts -/
def droppedL (E : Env) (lm : LabelMap) (c : Annotation) : ℕ :=
  droppedNonzero (effL E lm c) +
    (if labelShift E.em E.ntermComp lm ≠ 0 ∧ ¬ absQ (labelShift E.em E.ntermComp lm) > threshold then 1 else 0) +
    (if labelShift E.em E.ctermComp lm ≠ 0 ∧ ¬ absQ (labelShift E.em E.ctermComp lm) > threshold then 1 else 0)

/-- the modifications written outside residue positions are weighed by `E.mu` (`mod_mass`, the tabulated mass) when their
sums are written, but by their composition when the labelled input is weighed: the total discrepancy -/
def slack (E : Env) (c : Annotation) : ℚ :=
  |optSum E c.nterm - optSum (envC E) c.nterm| + |optSum E c.cterm - optSum (envC E) c.cterm| +
  |optSum E c.labile - optSum (envC E) c.labile| + |optSum E c.unknown - optSum (envC E) c.unknown| +
  |optIntervals E c.intervals - optIntervals (envC E) c.intervals|

/-- **the bound of C18 with a label in force**, for a condensed annotation in a table-coherent environment -/
theorem outMass_err_label (E : Env) (hc : Coherent E) (c : Annotation) (p : ℕ) (s : Shifts) (m0 : Mod) (L : List Mod)
    (lm : LabelMap) (hst : c.static = none) (hiso : c.isotope = some (m0 :: L))
    (hl : parseIsotopeMods E.knownLabel (m0 :: L) = .ok lm) (hr : InRange c) (hn : ∀ i : ℤ, E.mu (.int i) = i)
    (hres : ∀ m ∈ allMods c, isBad E m = false) (hs : shiftsOf E c p = .ok s) :
    ∃ x, massOf E c = .ok x ∧
      |outMass E c s p - x| ≤ (writtenL c s : ℚ) * halfUlp p + (droppedL E lm c : ℚ) * threshold + slack E c := by
  have hx : massOf E c = .ok (sumRes E c.seq + E.adj + seqShift E lm c.seq + termShift E lm + modsTotal (envC E) c) := by
    simp only [massOf, hiso]
    exact massLabel_coherent E hc c (m0 :: L) lm hst hiso hl hres
  refine ⟨_, hx, ?_⟩
  rw [shiftsOf_label E hc c p m0 L lm hst hiso hl hres] at hs
  simp only [Except.ok.injEq] at hs
  subst hs
  have h1 := shiftsFrom_err p (effL E lm c) 0
  rw [listSum_effL E lm c hr] at h1
  have h2 := termNum_err E p hn c.nterm (labelShift E.em E.ntermComp lm)
  have h3 := termNum_err E p hn c.cterm (labelShift E.em E.ctermComp lm)
  have h4 := numO_err E p hn c.labile
  have h5 := numO_err E p hn c.unknown
  have h6 : |outIntervals p (c.intervals.map fun l => l.map fun iv => (iv, iv.mods.map fun ms => roundedSum E ms p)) -
      optIntervals E c.intervals| ≤ (cntIntervalsO c.intervals : ℚ) * halfUlp p := by
    cases hi : c.intervals with
    | none => simp [outIntervals, optIntervals, cntIntervalsO]
    | some l => simp only [Option.map_some, outIntervals, optIntervals, cntIntervalsO]; exact intervals_err E p hn l
  have g2a := le_abs_self (optSum E c.nterm - optSum (envC E) c.nterm)
  have g2b := neg_abs_le (optSum E c.nterm - optSum (envC E) c.nterm)
  have g3a := le_abs_self (optSum E c.cterm - optSum (envC E) c.cterm)
  have g3b := neg_abs_le (optSum E c.cterm - optSum (envC E) c.cterm)
  have g4a := le_abs_self (optSum E c.labile - optSum (envC E) c.labile)
  have g4b := neg_abs_le (optSum E c.labile - optSum (envC E) c.labile)
  have g5a := le_abs_self (optSum E c.unknown - optSum (envC E) c.unknown)
  have g5b := neg_abs_le (optSum E c.unknown - optSum (envC E) c.unknown)
  have g6a := le_abs_self (optIntervals E c.intervals - optIntervals (envC E) c.intervals)
  have g6b := neg_abs_le (optIntervals E c.intervals - optIntervals (envC E) c.intervals)
  rw [abs_le] at h1 h2 h3 h4 h5 h6 ⊢
  simp only [outMass, writtenL, droppedL, modsTotal, termShift, slack]
  push_cast at h2 h3 ⊢
  constructor <;> nlinarith [h1.1, h1.2, h2.1, h2.2, h3.1, h3.2, h4.1, h4.2, h5.1, h5.2, h6.1, h6.2]

/-! ### the slack, bounded by a per-modification tolerance -/

/-- the modifications written outside residue positions -/
def outsideMods (c : Annotation) : List Mod :=
  c.nterm.getD [] ++ c.cterm.getD [] ++ c.labile.getD [] ++ c.unknown.getD [] ++
    (c.intervals.getD []).flatMap fun iv => iv.mods.getD []

theorem sumMods_close (E : Env) (δ : ℚ) (l : List Mod) (h : ∀ m ∈ l, |modMass E m - modMass (envC E) m| ≤ δ) :
    |sumMods E l - sumMods (envC E) l| ≤ δ * (l.length : ℚ) := by
  induction l with
  | nil => simp [sumMods]
  | cons m l ih =>
    have h1 := h m (by simp)
    have h2 := ih (fun m' hm' => h m' (by simp [hm']))
    simp only [sumMods, List.length_cons]
    have e : modMass E m + sumMods E l - (modMass (envC E) m + sumMods (envC E) l) =
        (modMass E m - modMass (envC E) m) + (sumMods E l - sumMods (envC E) l) := by ring
    rw [e]
    have := abs_add_le (modMass E m - modMass (envC E) m) (sumMods E l - sumMods (envC E) l)
    push_cast; linarith

theorem optSum_close (E : Env) (δ : ℚ) (o : Option (List Mod)) (h : ∀ m ∈ o.getD [], |modMass E m - modMass (envC E) m| ≤ δ) :
    |optSum E o - optSum (envC E) o| ≤ δ * ((o.getD []).length : ℚ) := by
  cases o with
  | none => simp [optSum]
  | some l => exact sumMods_close E δ l h

theorem optIntervals_close (E : Env) (δ : ℚ) (o : Option (List Interval))
    (h : ∀ m ∈ (o.getD []).flatMap (fun iv => iv.mods.getD []), |modMass E m - modMass (envC E) m| ≤ δ) :
    |optIntervals E o - optIntervals (envC E) o| ≤ δ * (((o.getD []).flatMap fun iv => iv.mods.getD []).length : ℚ) := by
  have := sumMods_close E δ _ h
  rw [sumMods_flatMap_intervals, sumMods_flatMap_intervals] at this
  cases o with
  | none => simp [optIntervals]
  | some l => simpa [optIntervals] using this

/-- if every modification outside a residue position has a tabulated mass within `δ` of its composition mass (times the
multiplier already inside `modMass`), the slack is at most `δ` per such modification -/
theorem slack_le (E : Env) (c : Annotation) (δ : ℚ)
    (h : ∀ m ∈ outsideMods c, |modMass E m - modMass (envC E) m| ≤ δ) :
    slack E c ≤ δ * ((outsideMods c).length : ℚ) := by
  unfold outsideMods at h
  simp only [List.mem_append] at h
  have h1 := optSum_close E δ c.nterm (fun m hm => h m (Or.inl (Or.inl (Or.inl (Or.inl hm)))))
  have h2 := optSum_close E δ c.cterm (fun m hm => h m (Or.inl (Or.inl (Or.inl (Or.inr hm)))))
  have h3 := optSum_close E δ c.labile (fun m hm => h m (Or.inl (Or.inl (Or.inr hm))))
  have h4 := optSum_close E δ c.unknown (fun m hm => h m (Or.inl (Or.inr hm)))
  have h5 := optIntervals_close E δ c.intervals (fun m hm => h m (Or.inr hm))
  unfold slack outsideMods
  simp only [List.length_append]
  push_cast
  nlinarith [h1, h2, h3, h4, h5]

/-- when the tabulated masses ARE the composition masses there is no slack -/
theorem slack_zero (E : Env) (c : Annotation) (h : ∀ m : Mod, modMass E m = modMass (envC E) m) : slack E c = 0 := by
  have := slack_le E c 0 (fun m _ => by rw [h m]; simp)
  have h0 : 0 ≤ slack E c := by unfold slack; positivity
  linarith

/-! ### the slack with multipliers: a tolerance per unit of modification -/

/-- Σ |multiplier| -/
def multSum : List Mod → ℚ
  | [] => 0
  | m :: r => |(m.mult : ℚ)| + multSum r

theorem multSum_append (a b : List Mod) : multSum (a ++ b) = multSum a + multSum b := by
  induction a with
  | nil => simp [multSum]
  | cons m a ih => simp only [List.cons_append, multSum, ih]; ring

theorem sumMods_closeW (E : Env) (δ : ℚ) (l : List Mod)
    (h : ∀ m ∈ l, |modMass E m - modMass (envC E) m| ≤ δ * |(m.mult : ℚ)|) :
    |sumMods E l - sumMods (envC E) l| ≤ δ * multSum l := by
  induction l with
  | nil => simp [sumMods, multSum]
  | cons m l ih =>
    have h1 := h m (by simp)
    have h2 := ih (fun m' hm' => h m' (by simp [hm']))
    simp only [sumMods, multSum]
    have e : modMass E m + sumMods E l - (modMass (envC E) m + sumMods (envC E) l) =
        (modMass E m - modMass (envC E) m) + (sumMods E l - sumMods (envC E) l) := by ring
    rw [e]
    have := abs_add_le (modMass E m - modMass (envC E) m) (sumMods E l - sumMods (envC E) l)
    linarith

theorem optSum_closeW (E : Env) (δ : ℚ) (o : Option (List Mod))
    (h : ∀ m ∈ o.getD [], |modMass E m - modMass (envC E) m| ≤ δ * |(m.mult : ℚ)|) :
    |optSum E o - optSum (envC E) o| ≤ δ * multSum (o.getD []) := by
  cases o with
  | none => simp [optSum, multSum]
  | some l => exact sumMods_closeW E δ l h

theorem optIntervals_closeW (E : Env) (δ : ℚ) (o : Option (List Interval))
    (h : ∀ m ∈ (o.getD []).flatMap (fun iv => iv.mods.getD []), |modMass E m - modMass (envC E) m| ≤ δ * |(m.mult : ℚ)|) :
    |optIntervals E o - optIntervals (envC E) o| ≤ δ * multSum ((o.getD []).flatMap fun iv => iv.mods.getD []) := by
  have := sumMods_closeW E δ _ h
  rw [sumMods_flatMap_intervals, sumMods_flatMap_intervals] at this
  cases o with
  | none => simp [optIntervals, multSum]
  | some l => simpa [optIntervals] using this

/-- a tolerance `δ` per unit of modification (|tabulated − composition mass| ≤ δ·|multiplier|) bounds the slack by
`δ · Σ|multiplier|` over the modifications written outside residue positions -/
theorem slack_leW (E : Env) (c : Annotation) (δ : ℚ)
    (h : ∀ m ∈ outsideMods c, |modMass E m - modMass (envC E) m| ≤ δ * |(m.mult : ℚ)|) :
    slack E c ≤ δ * multSum (outsideMods c) := by
  unfold outsideMods at h
  simp only [List.mem_append] at h
  have h1 := optSum_closeW E δ c.nterm (fun m hm => h m (Or.inl (Or.inl (Or.inl (Or.inl hm)))))
  have h2 := optSum_closeW E δ c.cterm (fun m hm => h m (Or.inl (Or.inl (Or.inl (Or.inr hm)))))
  have h3 := optSum_closeW E δ c.labile (fun m hm => h m (Or.inl (Or.inl (Or.inr hm))))
  have h4 := optSum_closeW E δ c.unknown (fun m hm => h m (Or.inl (Or.inr hm)))
  have h5 := optIntervals_closeW E δ c.intervals (fun m hm => h m (Or.inr hm))
  unfold slack outsideMods
  simp only [multSum_append]
  nlinarith [h1, h2, h3, h4, h5]

end CondenseMass
end Pept
