import PeptVerif.Lemmas.CompCalc
import PeptVerif.Lemmas.ModTablesC03
/-! Bridge between the vocabulary-table obligations (`ModTablesC03`) and the row gap of `mass_eq_compMass_*`. -/
namespace Pept.ModTables
open Pept Pept.Chem Pept.Mass Pept.CompCalc ModDb

theorem absQ_bounds (q ε : Rat) (h : absQ q ≤ ε) : -ε ≤ q ∧ q ≤ ε := by
  unfold absQ at h
  split_ifs at h with hq
  · constructor <;> linarith
  · have := not_lt.mp hq
    constructor <;> linarith

/-- a row with `monoOk` / `avgOk`: composition `c`, tabulated mass `m`, composition mass `x`, |x − m| ≤ tolerance -/
theorem monoOk_unfold (e : Entry) (h : monoOk e = true) :
    ∃ c m x, entryComp e = some c ∧ e.mono = some m ∧ massOf true c = some x ∧ absQ (x - m.toRat) ≤ 1 / 10000 := by
  unfold monoOk monoGap at h
  cases hc : entryComp e with
  | none => rw [hc] at h; simp at h
  | some c =>
    cases hm : e.mono with
    | none => rw [hc, hm] at h; simp at h
    | some m =>
      cases hx : massOf true c with
      | none => rw [hc, hm] at h; simp [hx] at h
      | some x =>
        rw [hc, hm] at h
        simp [hx] at h
        exact ⟨c, m, x, rfl, rfl, hx, by simpa using h⟩

theorem avgOk_unfold (e : Entry) (h : avgOk e = true) :
    ∃ c m x, entryComp e = some c ∧ e.avg = some m ∧ massOf false c = some x ∧
      absQ (x - m.toRat) ≤ 1 / 1000 + 5 / 1000000 * absQ m.toRat := by
  unfold avgOk avgGap at h
  cases hc : entryComp e with
  | none => rw [hc] at h; simp at h
  | some c =>
    cases hm : e.avg with
    | none => rw [hc, hm] at h; simp at h
    | some m =>
      cases hx : massOf false c with
      | none => rw [hc, hm] at h; simp [hx] at h
      | some x =>
        rw [hc, hm] at h
        simp [hx] at h
        exact ⟨c, m, x, rfl, rfl, hx, by simpa using h⟩

/-- **the row gap of a written modification that resolves to a vocabulary row**: if the resolver returns the row's
composition `c` and tabulated mass `m` for the value, the gap term of `mass_eq_compMass_*` for `k` copies is
`k·(m − chem_mass(c))`, bounded by `|k|·τ` where τ is the row's checked tolerance -/
theorem gapOf_row (env : Env) (mono : Bool) (v : ModVal) (k : Int) (c : Comp) (m x τ : Rat)
    (hd : (env.res v).delta = .ok none) (hc : (env.res v).comp = .ok c) (hm : resMass env mono v = .ok m)
    (hx : chemMassL (μ mono) c = x) (hτ : -τ ≤ m - x ∧ m - x ≤ τ) :
    gapOf env mono ⟨v, k⟩ = (m - x) * (k : Rat) ∧
    gapOf env mono ⟨v, k⟩ ≤ τ * Mass.absQ (k : Rat) ∧ -(τ * Mass.absQ (k : Rat)) ≤ gapOf env mono ⟨v, k⟩ := by
  have hk : isKept env ⟨v, k⟩ = true := by unfold isKept; simp only; rw [hd]
  have hr : (if mono then (env.res v).mono else (env.res v).avg) = resMass env mono v := rfl
  have hg : gapOf env mono ⟨v, k⟩ = (m - x) * (k : Rat) := by
    unfold gapOf
    simp only [hk, if_true]
    unfold Spec.modValue compOf
    simp only
    rw [hr, hm, hc, chemMassL_scale, hx]
    ring
  obtain ⟨t1, t2⟩ := term_close (m - x) (k : Rat) τ hτ.1 hτ.2
  exact ⟨hg, hg ▸ t1, hg ▸ t2⟩

end Pept.ModTables
