import PeptVerif.Lemmas.CompCalc
/-! Isotope-label substitution (C02 label path): relabelling a composition shifts its mass by count × (m(label) − m(element)). -/
namespace Pept
open Chem Mass Spec CompCalc

namespace Label

/-- the keys of a composition (dict) are distinct -/
def NodupKeys (c : Comp) : Prop := (c.map (·.1)).Nodup

/-- count of one key (0 when absent) -/
def compGet (c : Comp) (e : Elem) : Rat := (lookup e c).getD 0

theorem nodup_nil : NodupKeys [] := List.nodup_nil

theorem keys_addKey (c : Comp) (e : Elem) (k : Rat) :
    (addKey c e k).map (·.1) = if e ∈ c.map (·.1) then c.map (·.1) else c.map (·.1) ++ [e] := by
  induction c with
  | nil => simp [addKey]
  | cons p c ih =>
    obtain ⟨e', k'⟩ := p
    unfold addKey
    by_cases h : e' = e
    · simp [h]
    · simp only [h, if_false, List.map_cons, ih, List.mem_cons]
      have h' : ¬ e = e' := fun x => h x.symm
      by_cases hm : e ∈ c.map (·.1)
      · simp [hm]
      · simp [hm, h']

theorem nodup_addKey (c : Comp) (e : Elem) (k : Rat) (h : NodupKeys c) : NodupKeys (addKey c e k) := by
  unfold NodupKeys at *
  rw [keys_addKey]
  by_cases hm : e ∈ c.map (·.1)
  · simp only [hm, if_true]; exact h
  · simp only [hm, if_false]
    exact List.nodup_append.mpr ⟨h, List.nodup_singleton e, by
      intro a ha b hb; simp at hb; subst hb; exact fun hab => hm (hab ▸ ha)⟩

theorem nodup_addAll (a b : Comp) (h : NodupKeys a) : NodupKeys (addAll a b) := by
  unfold addAll
  induction b generalizing a with
  | nil => exact h
  | cons p b ih => exact ih _ (nodup_addKey a p.1 p.2 h)

theorem lookup_none_of_not_mem (c : Comp) (e : Elem) (h : e ∉ c.map (·.1)) : lookup e c = none := by
  induction c with
  | nil => rfl
  | cons p c ih =>
    obtain ⟨e', k'⟩ := p
    simp only [List.map_cons, List.mem_cons, not_or] at h
    have h1 : ¬ e' = e := fun x => h.1 x.symm
    unfold lookup
    rw [if_neg h1]
    exact ih h.2

theorem lookup_some_of_mem (c : Comp) (e : Elem) (h : e ∈ c.map (·.1)) : ∃ w, lookup e c = some w := by
  induction c with
  | nil => cases h
  | cons p c ih =>
    obtain ⟨e', k'⟩ := p
    unfold lookup
    by_cases hk : e' = e
    · exact ⟨k', by rw [if_pos hk]⟩
    · rw [if_neg hk]
      simp only [List.map_cons, List.mem_cons] at h
      rcases h with h | h
      · exact absurd h.symm hk
      · exact ih h

theorem chemMassL_setKey (ν : Elem → Rat) (c : Comp) (e : Elem) (v w : Rat) (h : lookup e c = some w) :
    chemMassL ν (setKey c e v) = chemMassL ν c + ν e * (v - w) := by
  induction c with
  | nil => simp [lookup] at h
  | cons p c ih =>
    obtain ⟨e', k'⟩ := p
    unfold lookup at h
    unfold setKey
    by_cases hk : e' = e
    · simp only [hk, if_true] at h ⊢
      injection h with h
      rw [chemMassL_cons, chemMassL_cons]; simp only; rw [← h]; ring
    · simp only [hk, if_false] at h ⊢
      rw [chemMassL_cons, chemMassL_cons, ih h]; ring

theorem chemMassL_delKey (ν : Elem → Rat) (c : Comp) (e : Elem) (h : NodupKeys c) :
    chemMassL ν (delKey c e) = chemMassL ν c - ν e * compGet c e := by
  unfold compGet
  induction c with
  | nil => simp [delKey, chemMassL_nil, lookup]
  | cons p c ih =>
    obtain ⟨e', k'⟩ := p
    have hn : NodupKeys c := (List.nodup_cons.mp h).2
    have hnot : e' ∉ c.map (·.1) := (List.nodup_cons.mp h).1
    unfold delKey lookup
    by_cases hk : e' = e
    · subst hk
      have hl := lookup_none_of_not_mem c e' hnot
      have hf : c.filter (fun p => p.1 != e') = c := by
        apply List.filter_eq_self.mpr
        intro q hq
        have : q.1 ∈ c.map (·.1) := List.mem_map.mpr ⟨q, hq, rfl⟩
        simp only [bne_iff_ne, ne_eq]
        exact fun hqe => hnot (hqe ▸ this)
      simp only [List.filter_cons, bne_self_eq_false, Bool.false_eq_true, if_false, if_true, Option.getD_some]
      rw [hf, chemMassL_cons]; ring
    · have hne : (e' != e) = true := by simp [hk]
      simp only [List.filter_cons, hne, if_true, hk, if_false]
      rw [chemMassL_cons, chemMassL_cons]
      have := ih hn
      unfold delKey at this
      rw [this]; ring

theorem keys_setKey_of_mem (c : Comp) (e : Elem) (v w : Rat) (h : lookup e c = some w) :
    (setKey c e v).map (·.1) = c.map (·.1) := by
  induction c with
  | nil => simp [lookup] at h
  | cons p c ih =>
    obtain ⟨e', k'⟩ := p
    unfold lookup at h
    unfold setKey
    by_cases hk : e' = e
    · simp [hk]
    · simp only [hk, if_false] at h ⊢
      simp [ih h]

theorem lookup_setKey_other (c : Comp) (e e2 : Elem) (v : Rat) (hne : e2 ≠ e) :
    lookup e2 (setKey c e v) = lookup e2 c := by
  have hne' : ¬ e = e2 := fun x => hne x.symm
  induction c with
  | nil =>
    show lookup e2 [(e, v)] = lookup e2 []
    unfold lookup
    rw [if_neg hne']
    rfl
  | cons p c ih =>
    obtain ⟨e', k'⟩ := p
    unfold setKey
    by_cases hk : e' = e
    · rw [if_pos hk]
      unfold lookup
      have : ¬ e' = e2 := fun x => hne' (hk ▸ x)
      rw [if_neg this, if_neg this]
    · rw [if_neg hk]
      unfold lookup
      by_cases h2 : e' = e2
      · rw [if_pos h2, if_pos h2]
      · rw [if_neg h2, if_neg h2]; exact ih

theorem lookup_append_other (c : Comp) (e e2 : Elem) (v : Rat) (hne : e2 ≠ e) :
    lookup e2 (c ++ [(e, v)]) = lookup e2 c := by
  have hne' : ¬ e = e2 := fun x => hne x.symm
  induction c with
  | nil =>
    show lookup e2 [(e, v)] = lookup e2 []
    unfold lookup
    rw [if_neg hne']
    rfl
  | cons p c ih =>
    obtain ⟨e', k'⟩ := p
    rw [List.cons_append]
    unfold lookup
    by_cases h2 : e' = e2
    · rw [if_pos h2, if_pos h2]
    · rw [if_neg h2, if_neg h2]; exact ih

theorem nodup_delKey (c : Comp) (e : Elem) (h : NodupKeys c) : NodupKeys (delKey c e) := by
  unfold NodupKeys delKey at *
  exact (List.Nodup.sublist (List.Sublist.map _ List.filter_sublist) h)

/-- **one label entry shifts the mass by count(element) × (m(label) − m(element))** -/
theorem relabel1_mass (ν : Elem → Rat) (c : Comp) (el lab : Elem) (h : NodupKeys c) :
    chemMassL ν (relabel1 c el lab) = chemMassL ν c + (if el = lab then 0 else compGet c el * (ν lab - ν el)) ∧
    NodupKeys (relabel1 c el lab) := by
  unfold relabel1
  cases hl : lookup el c with
  | none =>
    simp only
    have : compGet c el = 0 := by unfold compGet; rw [hl]; rfl
    rw [this]
    exact ⟨by split_ifs <;> ring, h⟩
  | some n =>
    simp only
    by_cases he : el = lab
    · simp only [he, if_true]; exact ⟨by ring, h⟩
    · simp only [he, if_false]
      have hg : compGet c el = n := by unfold compGet; rw [hl]; rfl
      have hne : el ≠ lab := he
      cases hlab : lookup lab c with
      | some k =>
        simp only
        have hk1 : NodupKeys (setKey c lab (k + n)) := by
          unfold NodupKeys; rw [keys_setKey_of_mem c lab _ k hlab]; exact h
        have hget : compGet (setKey c lab (k + n)) el = n := by
          unfold compGet; rw [lookup_setKey_other c lab el _ hne, hl]; rfl
        refine ⟨?_, nodup_delKey _ _ hk1⟩
        rw [chemMassL_delKey ν _ el hk1, hget, chemMassL_setKey ν c lab _ k hlab, hg]; ring
      | none =>
        simp only
        have hnm : lab ∉ c.map (·.1) := by
          intro hm
          obtain ⟨w, hw⟩ := lookup_some_of_mem c lab hm
          rw [hw] at hlab; cases hlab
        have hk1 : NodupKeys (c ++ [(lab, n)]) := by
          unfold NodupKeys
          rw [List.map_append]
          exact List.nodup_append.mpr ⟨h, List.nodup_singleton _, by
            intro a ha b hb; simp at hb; subst hb; exact fun hab => hnm (hab ▸ ha)⟩
        have hget : compGet (c ++ [(lab, n)]) el = n := by
          unfold compGet; rw [lookup_append_other c lab el n hne, hl]; rfl
        refine ⟨?_, nodup_delKey _ _ hk1⟩
        rw [chemMassL_delKey ν _ el hk1, hget, chemMassL_append, chemMassL_cons, chemMassL_nil, hg]
        simp only
        ring

/-- the shift of a whole label map, each entry seeing the composition left by the previous ones -/
def labelShift (ν : Elem → Rat) : Comp → List (Key × Key) → Rat
  | _, [] => 0
  | c, (el, lab) :: r =>
    (if el = lab then 0 else compGet c el * (ν lab - ν el)) + labelShift ν (relabel1 c el lab) r

theorem relabel_mass (ν : Elem → Rat) (c : Comp) (lm : List (Key × Key)) (h : NodupKeys c) :
    chemMassL ν (relabel c lm) = chemMassL ν c + labelShift ν c lm := by
  unfold relabel
  induction lm generalizing c with
  | nil => simp [labelShift]
  | cons p lm ih =>
    obtain ⟨el, lab⟩ := p
    obtain ⟨hm, hn⟩ := relabel1_mass ν c el lab h
    rw [List.foldl_cons, ih _ hn, hm]
    simp only [labelShift]
    ring


/-! ### the compositions the label is applied to have distinct keys -/

theorem foldlM_inv {α} (P : Comp → Prop) (f : Comp → α → Except Err Comp) (l : List α)
    (hstep : ∀ acc x c', x ∈ l → f acc x = .ok c' → P acc → P c') (acc c' : Comp)
    (h : l.foldlM f acc = .ok c') (hP : P acc) : P c' := by
  induction l generalizing acc with
  | nil => simp [List.foldlM, pure_eq_ok] at h; cases h; exact hP
  | cons x l ih =>
    rw [List.foldlM_cons] at h
    cases hx : f acc x with
    | error e => rw [hx] at h; cases h
    | ok c1 =>
      rw [hx, bind_ok] at h
      exact ih (fun acc y c' hy => hstep acc y c' (List.mem_cons_of_mem _ hy)) c1 h
        (hstep acc x c1 List.mem_cons_self hx hP)

theorem addMods_nodup (env : Env) (acc c' : Comp) (l : List Mod) (h : addMods env acc l = .ok c') (hP : NodupKeys acc) :
    NodupKeys c' := by
  unfold addMods at h
  refine foldlM_inv NodupKeys _ l ?_ acc c' h hP
  intro acc m c1 _ hm hacc
  cases hc : modComp env m with
  | error e => rw [hc] at hm; cases hm
  | ok c => rw [hc, bind_ok, pure_eq_ok] at hm; cases hm; exact nodup_addAll _ _ hacc

theorem addOptMods_nodup (env : Env) (acc c' : Comp) (o : Option (List Mod)) (h : addOptMods env acc o = .ok c')
    (hP : NodupKeys acc) : NodupKeys c' := by
  cases o with
  | none => cases h; exact hP
  | some l => exact addMods_nodup env acc c' l h hP

theorem bind_ok_elim {α β} (x : Except Err α) (f : α → Except Err β) (b : β) (h : (x >>= f) = .ok b) :
    ∃ a, x = .ok a ∧ f a = .ok b := by
  cases x with
  | error e => cases h
  | ok a => exact ⟨a, rfl, h⟩

theorem modsComp_nodup (env : Env) (a : Annotation) (ion : Key) (c' : Comp) (hs : a.static = none)
    (h : modsComp env a ion = .ok c') : NodupKeys c' := by
  unfold modsComp at h
  obtain ⟨c1, h1, h⟩ := bind_ok_elim _ _ _ h
  obtain ⟨c2, h2, h⟩ := bind_ok_elim _ _ _ h
  obtain ⟨c3, h3, h⟩ := bind_ok_elim _ _ _ h
  obtain ⟨c4, h4, h⟩ := bind_ok_elim _ _ _ h
  obtain ⟨c5, h5, h⟩ := bind_ok_elim _ _ _ h
  obtain ⟨c6, h6, h⟩ := bind_ok_elim _ _ _ h
  have n1 := addOptMods_nodup env [] c1 _ h1 nodup_nil
  have n2 : NodupKeys c2 := by
    unfold intervalsComp at h2
    cases hi : a.intervals with
    | none => rw [hi] at h2; cases h2; exact n1
    | some l =>
      rw [hi] at h2
      exact foldlM_inv NodupKeys _ l (fun acc iv c' _ hx hacc => addOptMods_nodup env acc c' iv.mods hx hacc) c1 c2 h2 n1
  have n3 : NodupKeys c3 := by
    unfold labileComp at h3
    split at h3
    · exact addOptMods_nodup env c2 c3 _ h3 n2
    · cases h3; exact n2
  have n4 := addOptMods_nodup env c3 c4 _ h4 n3
  have n5 := addOptMods_nodup env c4 c5 _ h5 n4
  have n6 : NodupKeys c6 := by
    unfold internalComp at h6
    cases hi : a.internal with
    | none => rw [hi] at h6; cases h6; exact n5
    | some l =>
      rw [hi] at h6
      exact foldlM_inv NodupKeys _ l (fun acc p c' _ hx hacc => addMods_nodup env acc c' p.2 hx hacc) c5 c6 h6 n5
  unfold addStatic at h
  rw [hs] at h
  cases h
  exact n6

theorem residueComp_nodup (seq : List Char) (c' : Comp) (h : residueComp seq = .ok c') : NodupKeys c' := by
  unfold residueComp at h
  refine foldlM_inv NodupKeys _ seq ?_ [] c' h nodup_nil
  intro acc ch c1 _ hx hacc
  cases hl : lookup ch.toNat Gen.aaComp with
  | none => simp only [hl] at hx; cases hx
  | some k => simp only [hl, pure_eq_ok] at hx; cases hx; exact nodup_addAll _ _ hacc

theorem seqBaseComp_nodup (a : Annotation) (ion : Key) (c' : Comp) (h : seqBaseComp a ion = .ok c') : NodupKeys c' := by
  unfold seqBaseComp at h
  obtain ⟨rc, hrc, h⟩ := bind_ok_elim _ _ _ h
  have nr := residueComp_nodup a.seq rc hrc
  cases hl : lookup ion neutralAdj with
  | none => simp only [hl] at h; cases h
  | some adj =>
    simp only [hl] at h
    obtain ⟨car, _, h⟩ := bind_ok_elim _ _ _ h
    cases h
    exact nodup_addAll _ _ (nodup_addAll _ _ nr)

/-- a single label: the shift is count(element) × (m(label) − m(element)) -/
theorem labelShift_single (ν : Elem → Rat) (c : Comp) (el lab : Key) (h : el ≠ lab) :
    labelShift ν c [(el, lab)] = compGet c el * (ν lab - ν el) := by
  simp [labelShift, h]

/-- counts add up when compositions are merged (`d[k] = d.get(k, 0) + v`) -/
theorem compGet_addKey (c : Comp) (e e2 : Elem) (k : Rat) :
    compGet (addKey c e k) e2 = compGet c e2 + (if e = e2 then k else 0) := by
  unfold compGet
  induction c with
  | nil =>
    unfold addKey lookup
    by_cases h : e = e2
    · simp [h, lookup]
    · simp [h, lookup]
  | cons p c ih =>
    obtain ⟨e', k'⟩ := p
    unfold addKey
    by_cases hk : e' = e
    · rw [if_pos hk]
      unfold lookup
      by_cases h2 : e' = e2
      · have : e = e2 := hk ▸ h2
        simp [h2, this]
      · have : ¬ e = e2 := fun x => h2 (hk ▸ x)
        simp [h2, this]
    · rw [if_neg hk]
      unfold lookup
      by_cases h2 : e' = e2
      · have : ¬ e = e2 := fun x => hk (h2 ▸ x.symm ▸ rfl)
        simp [h2, this]
      · simp only [h2, if_false]; exact ih

theorem compGet_addAll (a b : Comp) (e : Elem) (hb : NodupKeys b) :
    compGet (addAll a b) e = compGet a e + compGet b e := by
  unfold addAll
  induction b generalizing a with
  | nil => simp [compGet, lookup]
  | cons p b ih =>
    obtain ⟨e', k'⟩ := p
    have hn : NodupKeys b := (List.nodup_cons.mp hb).2
    have hnot : e' ∉ b.map (·.1) := (List.nodup_cons.mp hb).1
    rw [List.foldl_cons, ih _ hn, compGet_addKey]
    have hc : compGet ((e', k') :: b) e = if e' = e then k' else compGet b e := by
      unfold compGet
      rw [show lookup e ((e', k') :: b) = if e' = e then some k' else lookup e b from rfl]
      split <;> rfl
    rw [hc]
    by_cases h : e' = e
    · subst h
      have : compGet b e' = 0 := by unfold compGet; rw [lookup_none_of_not_mem b e' hnot]; rfl
      simp [this]
    · simp [h]


/-! ### `comp_mass` with isotope labels in force -/

theorem compMassCore_label (env : Env) (mono : Bool) (b : Annotation) (ion : Key) (isotope : Int) (useIso : Bool)
    (L : List Mod) (lm : List (Key × Key)) (hL : b.isotope = some L) (hparse : parseIsotopeMods L = .ok lm)
    (hstatic : b.static = none) (hne : b.adducts ≠ some []) (hres : KnownResidues b.seq)
    (hcons : AllConsistent env mono (writtenMods b))
    (hcc : b.adducts = none → ion = ionP ∨ ion = ionN ∨ (lookup ion Gen.baseAdducts).isSome = true)
    (sb : Comp) (hsb : seqBaseComp b ion = .ok sb) :
    ∃ mc d, NodupKeys sb ∧ NodupKeys (addKey mc kNn (isotope : Rat)) ∧
      compMassCore env b ion isotope useIso = .ok (dropZeros (addAll (addAll [] (relabel sb lm))
        (if useIso then relabel (addKey mc kNn (isotope : Rat)) lm else addKey mc kNn (isotope : Rat))), d) ∧
      chemMassL (μ mono) mc + d + gapSum env mono (placedMods b ion) = modsValue env mono (placedMods b ion) := by
  obtain ⟨hB, hZ⟩ := noBZ b.seq hres
  have hstatic2 : (dropLabile b ion).static = none := by unfold dropLabile; split <;> simp [hstatic]
  have hcons2 : AllConsistent env mono (writtenMods (dropLabile b ion)) :=
    fun m hm => hcons m (writtenMods_dropLabile b ion m hm)
  have hlab2 : ion ≠ ionP → (dropLabile b ion).labile = none := by
    intro hp; unfold dropLabile; simp [hp]
  have hplaced : placedMods (dropLabile b ion) ion = placedMods b ion := by
    unfold dropLabile
    by_cases hp : ion = ionP
    · simp [hp]
    · simp only [hp, if_false]; unfold placedMods; simp [hp]
  obtain ⟨mc, hmc, hmm⟩ := modsComp_popped env mono (dropLabile b ion) ion hstatic2 hcons2
  have hsplit := placed_split env mono (dropLabile b ion) ion hlab2 hcons2
  rw [hplaced] at hsplit
  have hadd3 : (popped env (dropLabile b ion)).adducts = b.adducts := by
    unfold popped dropLabile; split <;> rfl
  have hiso3 : (popped env (dropLabile b ion)).isotope = some L := by
    unfold popped dropLabile; split <;> simp [hL]
  have hseq3 : (popped env (dropLabile b ion)).seq = b.seq := by
    unfold popped dropLabile; split <;> rfl
  have hch3 : (popped env (dropLabile b ion)).charge = b.charge := by
    unfold popped dropLabile; split <;> rfl
  have hst3 : (popped env (dropLabile b ion)).static = none := by
    unfold popped dropLabile; split <;> simp [hstatic]
  have hclear : clearEmptyAdducts (popped env (dropLabile b ion)) = popped env (dropLabile b ion) := by
    unfold clearEmptyAdducts; rw [hadd3]
    cases hb : b.adducts with
    | none => rfl
    | some l => cases l with
      | nil => exact absurd hb hne
      | cons m ms => rfl
  have hsb3 : seqBaseComp (popped env (dropLabile b ion)) ion = .ok sb := by
    rw [← hsb]; unfold seqBaseComp carrierComp effAdducts; rw [hseq3, hadd3, hch3]
  have hcheck : carrierCheck (popped env (dropLabile b ion)) ion = .ok () := by
    unfold carrierCheck effAdducts; rw [hadd3]
    cases hb : b.adducts with
    | some l => cases l with
      | nil => exact absurd hb hne
      | cons m ms => cases ms <;> rfl
    | none =>
      rcases hcc hb with h | h | h
      · simp [h]; rfl
      · simp [h]; rfl
      · simp [h]; rfl
  have nsb := seqBaseComp_nodup b ion sb hsb
  have nmc := nodup_addKey mc kNn (isotope : Rat) (modsComp_nodup env _ ion mc hst3 hmc)
  refine ⟨mc, deltaAll env (dropLabile b ion), nsb, nmc, ?_, ?_⟩
  · unfold compMassCore condenseStatic
    rw [hstatic]
    simp only [pure_bind']
    rw [popDeltaMassMods_ok env mono _ hcons2, bind_ok]
    dsimp only
    rw [hclear]
    unfold sequenceComp
    rw [hcheck, bind_ok, hseq3]
    simp only [hB, hZ, Bool.false_eq_true, if_false]
    rw [hsb3, bind_ok, hmc, bind_ok]
    unfold applyLabels
    rw [hiso3]
    simp only
    unfold applyIsotopeMods
    rw [hparse]
    cases useIso <;> rfl
  · rw [hmm, hsplit]; ring

/-- the mass of the charge carrier in the library's terms: `z` (precursor) resp. `z − 1` (fragment) hydrogen cations plus,
for a fragment, the ion-type entry of `FRAGMENT_ION_COMPOSITIONS` -/
def carrierMassLib (mono : Bool) (ion : Key) (z : Int) : Rat :=
  if ion = ionP || ion = ionN then (z : Rat) * hplus mono
  else ((z : Rat) - 1) * hplus mono + (fragmentIonAdjMass mono ion).getD 0

theorem override_label_fields (a : Annotation) (ch : Option Int) (L : List Mod) :
    (overrideArgs a ch none (some L)).static = a.static ∧ (overrideArgs a ch none (some L)).isotope = some L ∧
    (overrideArgs a ch none (some L)).adducts = a.adducts ∧ (overrideArgs a ch none (some L)).seq = a.seq ∧
    writtenMods (overrideArgs a ch none (some L)) = writtenMods a ∧
    (∀ ion, placedMods (overrideArgs a ch none (some L)) ion = placedMods a ion) ∧
    (overrideArgs a ch none (some L)).charge = (match ch with | some c => some c | none => a.charge) := by
  cases ch <;> exact ⟨rfl, rfl, rfl, rfl, rfl, fun _ => rfl, rfl⟩

/-- **the label path = sum of parts with the element substituted** (static rules and adduct lists aside) -/
theorem mass_label_of_tables (hI : ionTablesOk = true) (env : Env) (a : Annotation) (o : Opts)
    (L : List Mod) (lm : List (Key × Key)) (hL : effLabels a o = some L) (hLne : L ≠ [])
    (hparse : parseIsotopeMods L = .ok lm)
    (hstatic : a.static = none) (had : o.adducts = none) (had' : a.adducts = none)
    (hres : KnownResidues a.seq) (hcons : AllConsistent env o.mono (writtenMods a))
    (hadj : (lookup o.ion neutralAdj).isSome = true)
    (hion : o.ion = ionP ∨ o.ion = ionN ∨ (lookup o.ion Gen.ionComp).isSome = true)
    (hknown : ∀ c d, compMass env a o.ion (effCharge a o) o.isotope none (some L) o.useIsotopeOnMods = .ok (c, d) →
      c.all (fun p => (elemMass o.mono p.1).isSome) = true) :
    ∃ sb mc d, NodupKeys sb ∧ NodupKeys mc ∧
      chemMassL (μ o.mono) sb = resSum o.mono a.seq + (fragmentAdjMass o.mono o.ion).getD 0
        + carrierMassLib o.mono o.ion ((effCharge a o).getD 0) ∧
      chemMassL (μ o.mono) mc + d + gapSum env o.mono (placedMods a o.ion)
        = modsValue env o.mono (placedMods a o.ion) + (o.isotope : Rat) * Gen.neutronMass ∧
      mass env a o = .ok (roundOpt (chemMassL (μ o.mono) sb + labelShift (μ o.mono) sb lm
        + (chemMassL (μ o.mono) mc + (if o.useIsotopeOnMods then labelShift (μ o.mono) mc lm else 0)) + d + o.loss)
        o.precision) := by
  obtain ⟨adj, hadj⟩ := Option.isSome_iff_exists.mp hadj
  obtain ⟨f1, f2, f3, f4, f5, f6, f7⟩ := override_label_fields a (effCharge a o) L
  have hfa : fragmentAdjMass o.mono o.ion = some (constMass o.mono adj) :=
    congrArg (Option.map (constMass o.mono)) hadj
  have hz : (overrideArgs a (effCharge a o) none (some L)).charge.getD 0 = (effCharge a o).getD 0 := by
    rw [f7]; unfold effCharge; cases o.charge <;> cases a.charge <;> rfl
  -- the sequence part, both kinds of ion type
  have hsbS : ∃ sb, seqBaseComp (overrideArgs a (effCharge a o) none (some L)) o.ion = .ok sb ∧
      chemMassL (μ o.mono) sb = resSum o.mono a.seq + (fragmentAdjMass o.mono o.ion).getD 0
        + carrierMassLib o.mono o.ion ((effCharge a o).getD 0) ∧
      ((overrideArgs a (effCharge a o) none (some L)).adducts = none →
        o.ion = ionP ∨ o.ion = ionN ∨ (lookup o.ion Gen.baseAdducts).isSome = true) := by
    unfold carrierMassLib
    rw [hfa]
    by_cases hpn : (o.ion = ionP || o.ion = ionN) = true
    · obtain ⟨sb, h1, h2⟩ := seqBase_pn o.mono (overrideArgs a (effCharge a o) none (some L)) o.ion (f4 ▸ hres)
        (f3.trans had') adj hadj hpn
      refine ⟨sb, h1, ?_, fun _ => by simp only [Bool.or_eq_true, decide_eq_true_eq] at hpn; tauto⟩
      rw [h2, f4, hz]; simp [hpn]
    · have hpn' : (o.ion = ionP || o.ion = ionN) = false := by simpa using hpn
      have hic : (lookup o.ion Gen.ionComp).isSome = true := by
        rcases hion with h | h | h
        · rw [h] at hpn; simp at hpn
        · rw [h] at hpn; simp at hpn
        · exact h
      obtain ⟨ic, hic⟩ := Option.isSome_iff_exists.mp hic
      have hn : o.ion ≠ ionN := by intro h; rw [h] at hpn; simp at hpn
      obtain ⟨s, base, hs, _, _⟩ := baseAdducts_of_tables hI o.ion ic hic hn
      obtain ⟨sb, h1, h2⟩ := seqBase_frag hI o.mono (overrideArgs a (effCharge a o) none (some L)) o.ion (f4 ▸ hres)
        (f3.trans had') adj hadj hpn' ic hic
      have hfi : fragmentIonAdjMass o.mono o.ion = some (constMass o.mono ic) :=
        congrArg (Option.map (constMass o.mono)) hic
      refine ⟨sb, h1, ?_, fun _ => Or.inr (Or.inr (by rw [hs]; rfl))⟩
      rw [h2, f4, hz, hfi]; simp [hpn']
  obtain ⟨sb, hsb, hsbm, hcc⟩ := hsbS
  obtain ⟨mc, d, nsb, nmc, hcore, hmods⟩ := compMassCore_label env o.mono (overrideArgs a (effCharge a o) none (some L))
    o.ion o.isotope o.useIsotopeOnMods L lm f2 hparse (f1.trans hstatic) (by rw [f3, had']; simp) (f4 ▸ hres) (f5 ▸ hcons)
    hcc sb hsb
  rw [f6] at hmods
  refine ⟨sb, addKey mc kNn (o.isotope : Rat), d, nsb, nmc, hsbm, ?_, ?_⟩
  · rw [chemMassL_addKey, mu_neutron]; linarith
  · obtain ⟨m, ms, hLm⟩ : ∃ m ms, L = m :: ms := by
      cases L with
      | nil => exact absurd rfl hLne
      | cons m ms => exact ⟨m, ms, rfl⟩
    obtain ⟨hB, hZ⟩ := noBZ a.seq hres
    have hr : resolveArgs a o = .ok ⟨effCharge a o, none, some L⟩ := by
      unfold resolveArgs; rw [had, had', hL]; rfl
    have hcm : compMass env a o.ion (effCharge a o) o.isotope none (some L) o.useIsotopeOnMods = _ :=
      (compMass_eq_core env a o.ion (effCharge a o) o.isotope none (some L) o.useIsotopeOnMods
        (staticProbe_none env _ (f1.trans hstatic))).trans hcore
    have hk := hknown _ _ hcm
    unfold mass massWith
    rw [hr, bind_ok]
    simp only [hB, hZ, Bool.false_eq_true, if_false]
    subst hLm
    simp only
    rw [hcm, bind_ok]
    simp only
    rw [chemMass_ok o.mono _ hk, bind_ok, pure_eq_ok]
    apply congrArg Except.ok
    apply congrArg (fun q => roundOpt q o.precision)
    rw [chemMassL_dropZeros, chemMassL_addAll, chemMassL_addAll, chemMassL_nil, relabel_mass _ sb lm nsb]
    cases hu : o.useIsotopeOnMods
    · simp only [Bool.false_eq_true, if_false]; ring
    · simp only [if_true]
      rw [relabel_mass _ _ lm nmc]; ring

end Label
end Pept
