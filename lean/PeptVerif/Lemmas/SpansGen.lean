import PeptVerif.Lemmas.Spans
/-! C06 helper lemmas for the equality theorems between the mechanically translated span builders
(`Generated/SpansPy.lean`) and the hand-written model. Core Lean only. -/
namespace Spans

/-- recursion over the suffixes of a list: the body sees the head and the next `k+1` elements -/
def suffixRec {β} (H : Int → List Int → List β) (k : Nat) : List Int → List β
  | [] => []
  | s :: rest => H s (rest.take (k + 1)) ++ suffixRec H k rest

/-- a loop over `enumerate(l)` whose body looks at the slice `l[i+1 : i+k+2]` is a recursion over suffixes -/
theorem flatMap_zipIdx_pySlice {β} (H : Int → List Int → List β) (k : Nat) (pre l : List Int) :
    (l.zipIdx pre.length).flatMap
        (fun p => H p.1 (pySlice (pre ++ l) ((p.2 : Int) + 1) (((p.2 : Int) + (k : Int)) + 2))) =
      suffixRec H k l := by
  induction l generalizing pre with
  | nil => simp [suffixRec]
  | cons s rest ih =>
    rw [List.zipIdx_cons, List.flatMap_cons, suffixRec]
    congr 1
    · have h1 : ((pre.length : Int) + 1).toNat = pre.length + 1 := by omega
      have h2 : (((pre.length : Int) + (k : Int)) + 2).toNat = pre.length + (k + 2) := by omega
      simp only [pySlice, h1, h2]
      have h3 : List.drop (pre.length + 1) (List.take (pre.length + (k + 2)) pre) = [] := by
        rw [List.take_of_length_le (by omega)]; exact List.drop_eq_nil_of_le (by omega)
      simp [List.take_append, List.drop_append, h3]
    · have := ih (pre ++ [s])
      simp only [List.length_append, List.length_singleton, List.append_assoc, List.singleton_append] at this
      exact this

theorem enzGo_eq_suffixRec (mc : Nat) (lo hi : Int) (l : List Int) :
    enzGo mc lo hi l = suffixRec (fun s sl =>
      ((sl.zipIdx).filter fun p => decide (lo ≤ p.1 - s) && decide (p.1 - s ≤ hi)).map fun p => (s, p.1, (p.2 : Int))) mc l := by
  induction l with
  | nil => rfl
  | cons s rest ih =>
    simp only [enzGo, suffixRec, ih]
    congr 1
    induction (List.take (mc + 1) rest).zipIdx with
    | nil => rfl
    | cons a t iht =>
      simp only [List.filterMap_cons, List.filter_cons]
      by_cases h : lo ≤ a.1 - s ∧ a.1 - s ≤ hi
      · simp [h, iht]
      · have : ¬ (decide (lo ≤ a.1 - s) && decide (a.1 - s ≤ hi)) = true := by simpa using h
        simp [h, iht, this]

end Spans
