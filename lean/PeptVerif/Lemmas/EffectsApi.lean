import PeptVerif.Model.EffectsApi
/-! C08: the literal code-point lists of Model/EffectsApi.lean spell the explicit name lists -/
namespace Effects

theorem declaredOutsideCodes_spelled :
    declaredOutsideCodes = declaredOutside.map (fun s => s.toList.map Char.toNat) := by decide

theorem declaredSharingCodes_spelled :
    declaredSharingCodes = declaredSharing.map (fun s => s.toList.map Char.toNat) := by decide

theorem declaredDbEditorCodes_spelled :
    declaredDbEditorCodes = declaredDbEditors.map (fun s => s.toList.map Char.toNat) := by decide

end Effects
