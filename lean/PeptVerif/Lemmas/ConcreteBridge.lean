import PeptVerif.Lemmas.Mass
import PeptVerif.Lemmas.AbsMass
import PeptVerif.Model.ConcreteEnv
/-! Bridge between the concrete mass model (`Model/Mass.lean`, C02) and the abstract one (`Model/AbsMass.lean`, C12 / C18)
instantiated at the concrete environment: on the common domain the fast path of `Mass.mass` and `AbsMass.massFast` return
the same number (C02's specification value). -/
namespace Pept
namespace Concrete
open Chem AbsMass Static Spec

/-! ### literal occurrences: the two models of `str.count` agree -/

theorem isPrefix_eq (p s : List Char) : Static.isPrefix p s = p.isPrefixOf s := by
  induction p generalizing s with
  | nil => cases s <;> simp [Static.isPrefix]
  | cons a p ih =>
    cases s with
    | nil => simp [Static.isPrefix]
    | cons b s => simp [Static.isPrefix, List.isPrefixOf, ih]

theorem countAux_skip (t : List Char) (s : List Char) (k : ℕ) : countAux t s k = countAux t (s.drop k) 0 := by
  induction s generalizing k with
  | nil => cases k <;> simp [countAux]
  | cons c r ih =>
    cases k with
    | zero => simp
    | succ k => simp only [countAux, List.drop_succ_cons]; exact ih k

theorem countSub_go_eq (t : List Char) (ht : t ≠ []) :
    ∀ (n : ℕ) (s : List Char) (fuel : ℕ), s.length ≤ n → s.length < fuel → Mass.countSub.go t s fuel = countAux t s 0 := by
  intro n
  induction n with
  | zero =>
    intro s fuel hn hf
    have : s = [] := List.length_eq_zero_iff.mp (Nat.le_zero.mp hn)
    subst this
    cases fuel with
    | zero => simp at hf
    | succ f => simp [Mass.countSub.go, countAux]
  | succ n ih =>
    intro s fuel hn hf
    cases fuel with
    | zero => omega
    | succ f =>
      cases s with
      | nil => simp [Mass.countSub.go, countAux]
      | cons c r =>
        have hlen : 1 ≤ t.length := by
          cases t with
          | nil => exact absurd rfl ht
          | cons _ _ => simp
        simp only [Mass.countSub.go, countAux, isPrefix_eq]
        simp only [List.length_cons] at hn hf
        by_cases hp : t.isPrefixOf (c :: r) = true
        · simp only [hp, if_true]
          rw [countAux_skip t r (t.length - 1)]
          have hd : (c :: r).drop t.length = r.drop (t.length - 1) := by
            obtain ⟨k, hk⟩ : ∃ k, t.length = k + 1 := ⟨t.length - 1, by omega⟩
            rw [hk]; simp
          rw [hd, ih (r.drop (t.length - 1)) f (by simp; omega) (by simp; omega)]
        · simp only [hp, Bool.false_eq_true, if_false]
          exact ih r f (by omega) (by omega)

theorem countOcc_eq_countSub (t s : List Char) (ht : t ≠ []) : Static.countOcc t s = Mass.countSub t s := by
  unfold Static.countOcc Mass.countSub
  have : t.isEmpty = false := by cases t with | nil => exact absurd rfl ht | cons _ _ => rfl
  simp only [ht, if_false, this, Bool.false_eq_true]
  exact (countSub_go_eq t ht s.length s (s.length + 1) (le_refl _) (by omega)).symm

/-! ### values -/

theorem sumMods_eq (env : Pept.Env) (E : AbsMass.Env) (mono : Bool) (hmu : E.mu = muOf env mono) (l : List Mod) :
    AbsMass.sumMods E l = modsValue env mono l := by
  induction l with
  | nil => rfl
  | cons m l ih =>
    have hm : AbsMass.modMass E m = modValue env mono m := by
      unfold AbsMass.modMass modValue; rw [hmu]; unfold muOf; rfl
    show AbsMass.modMass E m + AbsMass.sumMods E l = modValue env mono m + sumR (l.map (modValue env mono))
    rw [hm, ih]; rfl

theorem optSum_eq (env : Pept.Env) (E : AbsMass.Env) (mono : Bool) (hmu : E.mu = muOf env mono) (o : Option (List Mod)) :
    AbsMass.optSum E o = modsValue env mono (o.getD []) := by
  cases o with
  | none => rfl
  | some l => exact sumMods_eq env E mono hmu l

theorem sumIntervals_eq (env : Pept.Env) (E : AbsMass.Env) (mono : Bool) (hmu : E.mu = muOf env mono) (l : List Interval) :
    AbsMass.sumIntervals E l = modsValue env mono (l.flatMap fun iv => iv.mods.getD []) := by
  induction l with
  | nil => rfl
  | cons iv l ih =>
    simp only [AbsMass.sumIntervals, List.flatMap_cons, modsValue_append, ih, optSum_eq env E mono hmu]

theorem sumInternal_eq (env : Pept.Env) (E : AbsMass.Env) (mono : Bool) (hmu : E.mu = muOf env mono)
    (d : List (Int × List Mod)) : AbsMass.sumInternal E d = modsValue env mono (d.flatMap (·.2)) := by
  induction d with
  | nil => rfl
  | cons q d ih => simp only [AbsMass.sumInternal, List.flatMap_cons, modsValue_append, ih, sumMods_eq env E mono hmu]

/-- the written modifications: the abstract fast path adds what C02's specification adds -/
theorem plainMass_eq (env : Pept.Env) (E : AbsMass.Env) (mono : Bool) (ion : Key) (hmu : E.mu = muOf env mono)
    (hp : E.ionP = (ion == Mass.ionP)) (a : Annotation) :
    AbsMass.plainMass E a = AbsMass.sumRes E a.seq + modsValue env mono (placedMods a ion) := by
  unfold AbsMass.plainMass placedMods
  simp only [modsValue_append, optSum_eq env E mono hmu, hp]
  have hiv : AbsMass.optIntervals E a.intervals = modsValue env mono ((a.intervals.getD []).flatMap fun iv => iv.mods.getD []) := by
    cases a.intervals with
    | none => rfl
    | some l => exact sumIntervals_eq env E mono hmu l
  have hint : AbsMass.optInt E a.internal = modsValue env mono ((a.internal.getD []).flatMap (·.2)) := by
    cases a.internal with
    | none => rfl
    | some d => exact sumInternal_eq env E mono hmu d
  rw [hiv, hint]
  by_cases hi : ion = Mass.ionP
  · subst hi; simp; ring
  · have : (ion == Mass.ionP) = false := by simpa using hi
    simp only [this, Bool.false_eq_true, if_false, hi]
    simp [modsValue, sumR]; ring

theorem lookup_eq_dictGet {α} (m : List (List Char × α)) (k : List Char) : m.lookup k = Static.dictGet m k := by
  induction m with
  | nil => rfl
  | cons p m ih =>
    obtain ⟨k', v⟩ := p
    simp only [List.lookup, Static.dictGet]
    by_cases h : k' = k
    · subst h; simp
    · have : (k == k') = false := by simpa using fun e : k = k' => h e.symm
      simp [this, h, ih]

/-- the static-rule block: the abstract one is C02's `staticValue` (targets non-empty, so both count the same) -/
theorem staticMass_eq (env : Pept.Env) (E : AbsMass.Env) (mono : Bool) (hmu : E.mu = muOf env mono) (seq : List Char)
    (m : StaticMap) (hne : ∀ p ∈ m, p.1 ≠ []) :
    AbsMass.staticMass E seq m =
      (match m.lookup Mass.nTerm with | some l => modsValue env mono l | none => 0) +
      (match m.lookup Mass.cTerm with | some l => modsValue env mono l | none => 0) +
      sumR (m.map fun p => if p.1 = Mass.nTerm || p.1 = Mass.cTerm then 0
                             else modsValue env mono p.2 * ((Mass.countSub p.1 seq : ℕ) : ℚ)) := by
  unfold AbsMass.staticMass
  rw [lookup_eq_dictGet, lookup_eq_dictGet]
  have h1 : Static.nTermKey = Mass.nTerm := rfl
  have h2 : Static.cTermKey = Mass.cTerm := rfl
  rw [h1, h2]
  have hres : ∀ (m : StaticMap), (∀ p ∈ m, p.1 ≠ []) → AbsMass.staticResidueMass E seq m =
      sumR (m.map fun p => if p.1 = Mass.nTerm || p.1 = Mass.cTerm then 0
                             else modsValue env mono p.2 * ((Mass.countSub p.1 seq : ℕ) : ℚ)) := by
    intro m hm
    induction m with
    | nil => rfl
    | cons p m ih =>
      obtain ⟨k, ms⟩ := p
      have hk : k ≠ [] := hm (k, ms) (by simp)
      simp only [AbsMass.staticResidueMass, List.map_cons, sumR_cons, ih (fun q hq => hm q (by simp [hq])),
        sumMods_eq env E mono hmu, countOcc_eq_countSub k seq hk]
      congr 1
      simp only [Static.isTermKey, h1, h2]
      by_cases ha : k = Mass.nTerm
      · simp [ha]
      · by_cases hb : k = Mass.cTerm
        · simp [hb]
        · simp [ha, hb]
  rw [hres m hne]
  cases Static.dictGet m Mass.nTerm <;> cases Static.dictGet m Mass.cTerm <;> simp [sumMods_eq env E mono hmu]

/-! ### residues and the charge / ion-type term -/

theorem sumRes_eq (env : Pept.Env) (ion : Key) (mono : Bool) (ch iso : Int) (loss : ℚ) (hR : Gen.aaComp = residueFormula)
    (seq : List Char) : AbsMass.sumRes (envFor env ion mono ch iso loss) seq = residueSum lib mono seq := by
  induction seq with
  | nil => rfl
  | cons c r ih =>
    show (aaMass mono c.toNat).getD 0 + AbsMass.sumRes (envFor env ion mono ch iso loss) r = _
    rw [ih]
    unfold residueSum
    rw [List.map_cons, sumR_cons]
    congr 1
    unfold aaMass
    rw [hR]
    cases lookup c.toNat residueFormula with
    | none => rfl
    | some f => rfl

/-- the two table obligations of C02, re-checked here on the regenerated tables -/
theorem residue_table : Gen.aaComp = residueFormula := by decide +kernel
theorem adjust_tables : Mass.adjustTablesOk = true := by decide +kernel

theorem adj_eq (env : Pept.Env) (ion : Key) (mono : Bool) (ch iso : Int) (loss : ℚ) (v : ℚ)
    (hv : neutralOffset lib mono ion = some v) :
    (envFor env ion mono ch iso loss).adj = v + Spec.chargeTerm lib mono ion ch none + (iso : ℚ) * lib.neutron + loss := by
  show okOr0 (Mass.adjustMass 0 (some ch) ion mono iso loss none none) = _
  rw [Mass.adjustMass_eq adjust_tables 0 (some ch) ion mono iso loss none v hv]
  simp only [okOr0, roundOpt, Option.getD_some]
  ring

/-- agreement of the resolver's `parse_static_mods` with the model of C12 on this annotation; targets are non-empty -/
def ParseAgrees (env : Pept.Env) (a : Annotation) : Prop :=
  ∀ st, a.static = some st → ∃ m, env.parseStatic st = .ok m ∧ Static.parseStaticMods (some st) = .ok m ∧ ∀ p ∈ m, p.1 ≠ []

/-- **the abstract fast path at the concrete environment returns C02's specification value** -/
theorem massFast_concrete (env : Pept.Env) (a : Annotation) (ion : Key) (mono : Bool) (ch iso : Int) (loss : ℚ)
    (hdom : inDomain env a ion mono none = true) (hparse : ParseAgrees env a) :
    AbsMass.massFast (envFor env ion mono ch iso loss) a = .ok (specMassT lib env a ion ch mono iso loss none) := by
  have hmu : (envFor env ion mono ch iso loss).mu = muOf env mono := rfl
  have hp : (envFor env ion mono ch iso loss).ionP = (ion == Mass.ionP) := rfl
  unfold inDomain at hdom
  simp only [Bool.and_eq_true] at hdom
  obtain ⟨⟨⟨⟨_, hoff⟩, _⟩, _⟩, _⟩ := hdom
  obtain ⟨v, hv⟩ := Option.isSome_iff_exists.mp hoff
  have hadj := adj_eq env ion mono ch iso loss v hv
  unfold AbsMass.massFast specMassT
  cases hs : a.static with
  | none =>
    simp only [staticValue, hs]
    rw [plainMass_eq env _ mono ion hmu hp, sumRes_eq env ion mono ch iso loss residue_table, hadj, hv]
    simp only [Option.getD_some]
    congr 1; ring
  | some st =>
    obtain ⟨m, hm1, hm2, hne⟩ := hparse st hs
    simp only [hm2, staticValue, hs, hm1]
    rw [staticMass_eq env _ mono hmu a.seq m hne, plainMass_eq env _ mono ion hmu hp,
      sumRes_eq env ion mono ch iso loss residue_table, hadj, hv]
    simp only [Option.getD_some]
    congr 1
    cases List.lookup Mass.nTerm m <;> cases List.lookup Mass.cTerm m <;> simp only [] <;> ring

/-- **bridge (fast path)**: for an annotation without isotope labels and adducts, inside C02's domain, with the two models of
`parse_static_mods` agreeing, `Mass.mass` of the concrete model and `AbsMass.massOf` at the concrete environment return the
same number -/
theorem mass_bridge (env : Pept.Env) (a : Annotation) (o : Mass.Opts)
    (hlab : o.isotopeMods = none) (hlab' : a.isotope = none) (hadd : o.adducts = none) (hadd' : a.adducts = none)
    (hprec : o.precision = none)
    (hdom : inDomain env a o.ion o.mono none = true) (hparse : ParseAgrees env a) :
    ∃ x, Mass.mass env a o = .ok x ∧
      AbsMass.massOf (envFor env o.ion o.mono ((Mass.effCharge a o).getD 0) o.isotope o.loss) a = .ok x := by
  refine ⟨specMassT lib env a o.ion ((Mass.effCharge a o).getD 0) o.mono o.isotope o.loss none, ?_, ?_⟩
  · have := Mass.mass_eq_spec_of_tables residue_table adjust_tables env a o hlab hlab' hadd hadd' hdom
    rw [this, hprec]; rfl
  · have : AbsMass.massOf (envFor env o.ion o.mono ((Mass.effCharge a o).getD 0) o.isotope o.loss) a =
        AbsMass.massFast (envFor env o.ion o.mono ((Mass.effCharge a o).getD 0) o.isotope o.loss) a := by
      simp [AbsMass.massOf, hlab']
    rw [this]
    exact massFast_concrete env a o.ion o.mono _ o.isotope o.loss hdom hparse

/-! ### the condensed form stays inside the domain -/

theorem mem_internalAppend_mods (d : List (Int × List Mod)) (i : Int) (ms : List Mod) :
    ∀ x ∈ (internalAppend d i ms).flatMap (·.2), x ∈ d.flatMap (·.2) ∨ x ∈ ms := by
  induction d with
  | nil => intro x hx; simp [internalAppend] at hx; exact Or.inr hx
  | cons q d ih =>
    obtain ⟨k, v⟩ := q
    intro x hx
    simp only [internalAppend] at hx
    split at hx
    · simp only [List.flatMap_cons, List.mem_append] at hx ⊢
      rcases hx with (h | h) | h
      · exact Or.inl (Or.inl h)
      · exact Or.inr h
      · exact Or.inl (Or.inr h)
    · simp only [List.flatMap_cons, List.mem_append] at hx ⊢
      rcases hx with h | h
      · exact Or.inl (Or.inl h)
      · rcases ih x h with h' | h'
        · exact Or.inl (Or.inr h')
        · exact Or.inr h'

def intModsOf (cur : Option (List (Int × List Mod))) : List Mod := (cur.getD []).flatMap (·.2)

theorem mem_addInternal_mods (cur : Option (List (Int × List Mod))) (i : Int) (ms : List Mod) :
    ∀ x ∈ intModsOf (addInternal cur i ms), x ∈ intModsOf cur ∨ x ∈ ms := by
  intro x hx
  cases cur with
  | none => simp [addInternal, intModsOf] at hx; exact Or.inr hx
  | some d => exact mem_internalAppend_mods d i ms x (by simpa [addInternal, intModsOf] using hx)

theorem mem_addInternalAt_mods (idx : List ℕ) (cur : Option (List (Int × List Mod))) (ms : List Mod) :
    ∀ x ∈ intModsOf (addInternalAt cur idx ms), x ∈ intModsOf cur ∨ x ∈ ms := by
  induction idx generalizing cur with
  | nil => intro x hx; exact Or.inl hx
  | cons j idx ih =>
    intro x hx
    have : addInternalAt cur (j :: idx) ms = addInternalAt (addInternal cur (Int.ofNat j) ms) idx ms := rfl
    rw [this] at hx
    rcases ih _ x hx with h | h
    · exact mem_addInternal_mods cur _ ms x h
    · exact Or.inr h

theorem mem_applyResidueRules_mods (seq : List Char) (m : StaticMap) (cur : Option (List (Int × List Mod))) :
    ∀ x ∈ intModsOf (applyResidueRules seq cur m), x ∈ intModsOf cur ∨ ∃ p ∈ m, x ∈ p.2 := by
  induction m generalizing cur with
  | nil => intro x hx; exact Or.inl hx
  | cons q m ih =>
    obtain ⟨k, ms⟩ := q
    intro x hx
    simp only [applyResidueRules] at hx
    split at hx
    · rcases ih cur x hx with h | ⟨p, hp, hxp⟩
      · exact Or.inl h
      · exact Or.inr ⟨p, by simp [hp], hxp⟩
    · rcases ih _ x hx with h | ⟨p, hp, hxp⟩
      · rcases mem_addInternalAt_mods _ cur ms x h with h' | h'
        · exact Or.inl h'
        · exact Or.inr ⟨(k, ms), by simp, h'⟩
      · exact Or.inr ⟨p, by simp [hp], hxp⟩

theorem dictGet_mem {α} (m : List (List Char × α)) (k : List Char) (v : α) (h : dictGet m k = some v) : (k, v) ∈ m := by
  induction m with
  | nil => simp [dictGet] at h
  | cons p m ih =>
    obtain ⟨k', v'⟩ := p
    simp only [dictGet] at h
    split at h
    · rename_i hk; subst hk; simp only [Option.some.injEq] at h; subst h; simp
    · exact List.mem_cons_of_mem _ (ih h)

/-- every written modification of the condensed annotation was written on the rule form or belongs to a rule -/
theorem mem_placedMods_applyMap (a : Annotation) (m : StaticMap) (ion : Key) :
    ∀ x ∈ placedMods (applyMap a m) ion, x ∈ placedMods a ion ∨ ∃ p ∈ m, x ∈ p.2 := by
  intro x hx
  unfold placedMods at hx ⊢
  simp only [applyMap, List.mem_append] at hx ⊢
  have hterm : ∀ (cur : Option (List Mod)) (key : List Char),
      x ∈ (match dictGet m key with | some ms => appendMods cur ms | none => cur).getD [] →
      x ∈ cur.getD [] ∨ ∃ p ∈ m, x ∈ p.2 := by
    intro cur key h
    cases hd : dictGet m key with
    | none => rw [hd] at h; exact Or.inl h
    | some ms =>
      rw [hd] at h
      cases cur with
      | none => simp [appendMods] at h; exact Or.inr ⟨(key, ms), dictGet_mem m key ms hd, h⟩
      | some l =>
        simp only [appendMods, Option.getD_some, List.mem_append] at h
        rcases h with h | h
        · exact Or.inl (by simpa using h)
        · exact Or.inr ⟨(key, ms), dictGet_mem m key ms hd, h⟩
  rcases hx with ((((h | h) | h) | h) | h) | h
  · exact Or.inl (Or.inl (Or.inl (Or.inl (Or.inl (Or.inl h)))))
  · exact Or.inl (Or.inl (Or.inl (Or.inl (Or.inl (Or.inr h)))))
  · rcases hterm a.nterm nTermKey h with h' | h'
    · exact Or.inl (Or.inl (Or.inl (Or.inl (Or.inr h'))))
    · exact Or.inr h'
  · exact Or.inl (Or.inl (Or.inl (Or.inr h)))
  · rcases mem_applyResidueRules_mods a.seq m a.internal x h with h' | h'
    · exact Or.inl (Or.inl (Or.inr h'))
    · exact Or.inr h'
  · rcases hterm a.cterm cTermKey h with h' | h'
    · exact Or.inl (Or.inr h')
    · exact Or.inr h'

/-- **condensing keeps the annotation inside C02's domain** -/
theorem inDomain_condense (env : Pept.Env) (a c : Annotation) (ion : Key) (mono : Bool)
    (hdom : inDomain env a ion mono none = true) (hparse : ParseAgrees env a) (hc : condenseStatic a = .ok c) :
    inDomain env c ion mono none = true := by
  unfold inDomain at hdom ⊢
  simp only [Bool.and_eq_true] at hdom ⊢
  obtain ⟨⟨⟨⟨hres, hoff⟩, hmods⟩, hstat⟩, _⟩ := hdom
  unfold condenseStatic at hc
  cases hs : a.static with
  | none =>
    simp only [hs] at hc
    have : c = a := (Except.ok.inj hc).symm
    subst this
    exact ⟨⟨⟨⟨hres, hoff⟩, hmods⟩, by simp [hs]⟩, trivial⟩
  | some st =>
    obtain ⟨m, hm1, hm2, _⟩ := hparse st hs
    simp only [hs, hm2] at hc
    have hce : c = applyMap a m := (Except.ok.inj hc).symm
    subst hce
    rw [hs] at hstat
    simp only [hm1] at hstat
    refine ⟨⟨⟨⟨hres, hoff⟩, ?_⟩, rfl⟩, trivial⟩
    rw [List.all_eq_true]
    intro x hx
    rcases mem_placedMods_applyMap a m ion x hx with h | ⟨p, hp, hxp⟩
    · exact List.all_eq_true.mp hmods x h
    · exact List.all_eq_true.mp (List.all_eq_true.mp hstat p hp) x hxp

/-- **`mass` of the rule form = `mass` of the condensed explicit form, in the concrete model of C02** (no labels, no adducts):
both calls of `Mass.mass` succeed and return the same number -/
theorem mass_condense_concrete (env : Pept.Env) (a c : Annotation) (o : Mass.Opts)
    (hlab : o.isotopeMods = none) (hlab' : a.isotope = none) (hadd : o.adducts = none) (hadd' : a.adducts = none)
    (hprec : o.precision = none)
    (hdom : inDomain env a o.ion o.mono none = true) (hparse : ParseAgrees env a) (hc : condenseStatic a = .ok c) :
    ∃ x, Mass.mass env a o = .ok x ∧ Mass.mass env c o = .ok x := by
  have hfields : c.isotope = a.isotope ∧ c.adducts = a.adducts ∧ c.charge = a.charge ∧ c.static = none := by
    unfold condenseStatic at hc
    cases hs : a.static with
    | none => simp only [hs] at hc; have := (Except.ok.inj hc).symm; subst this; exact ⟨rfl, rfl, rfl, hs⟩
    | some st =>
      obtain ⟨m, _, hm2, _⟩ := hparse st hs
      simp only [hs, hm2] at hc
      have := (Except.ok.inj hc).symm; subst this; exact ⟨rfl, rfl, rfl, rfl⟩
  obtain ⟨hci, hca, hcc, hcs⟩ := hfields
  have hparse_c : ParseAgrees env c := by intro st hst; rw [hcs] at hst; cases hst
  have hdom_c := inDomain_condense env a c o.ion o.mono hdom hparse hc
  obtain ⟨x, hx1, hx2⟩ := mass_bridge env a o hlab hlab' hadd hadd' hprec hdom hparse
  obtain ⟨y, hy1, hy2⟩ := mass_bridge env c o hlab (by rw [hci, hlab']) hadd (by rw [hca, hadd']) hprec hdom_c hparse_c
  have heff : Mass.effCharge c o = Mass.effCharge a o := by unfold Mass.effCharge; rw [hcc]
  rw [heff] at hy2
  -- the abstract theorem of C12: condensing does not change `massOf`, for any weights
  have habs : AbsMass.massOf (envFor env o.ion o.mono ((Mass.effCharge a o).getD 0) o.isotope o.loss) c =
      AbsMass.massOf (envFor env o.ion o.mono ((Mass.effCharge a o).getD 0) o.isotope o.loss) a := by
    have hfast := massFast_condense (envFor env o.ion o.mono ((Mass.effCharge a o).getD 0) o.isotope o.loss) a
    rw [hc] at hfast
    have h1 : AbsMass.massOf (envFor env o.ion o.mono ((Mass.effCharge a o).getD 0) o.isotope o.loss) a =
        AbsMass.massFast (envFor env o.ion o.mono ((Mass.effCharge a o).getD 0) o.isotope o.loss) a := by
      simp [AbsMass.massOf, hlab']
    have h2 : AbsMass.massOf (envFor env o.ion o.mono ((Mass.effCharge a o).getD 0) o.isotope o.loss) c =
        AbsMass.massFast (envFor env o.ion o.mono ((Mass.effCharge a o).getD 0) o.isotope o.loss) c := by
      simp [AbsMass.massOf, hci, hlab']
    rw [h1, h2]; exact hfast
  rw [habs, hx2] at hy2
  have : y = x := (Except.ok.inj hy2).symm
  subst this
  exact ⟨y, hx1, hy1⟩

end Concrete
end Pept
