import PeptVerif.Lemmas.Mass
/-! Lemmas for C03: the composition calculator stage by stage, in terms of `chemMassL`. -/
namespace Pept
open Chem Mass Spec CompCalc

namespace CompCalc

/-- the mass `chem_mass` assigns to one dict key in the given mode (0 for an unknown key) -/
abbrev μ (mono : Bool) : Elem → Rat := fun e => (elemMass mono e).getD 0

def resMass (env : Env) (mono : Bool) (v : ModVal) : Except Err Rat :=
  if mono then (env.res v).mono else (env.res v).avg

/-- the resolution of one modification value is usable by both calculators: a plain shift whose mass is the shift, or a
composition together with a tabulated mass in the mode (their difference is the row's `gap`, see `gapOf`) -/
def Consistent (env : Env) (mono : Bool) (v : ModVal) : Prop :=
  (∃ d, (env.res v).delta = .ok (some d) ∧ resMass env mono v = .ok d) ∨
  (∃ c x, (env.res v).delta = .ok none ∧ (env.res v).comp = .ok c ∧ resMass env mono v = .ok x)

/-- … and exactly self-consistent: the tabulated mass IS the mass of the composition in the mode -/
def ExactlyConsistent (env : Env) (mono : Bool) (v : ModVal) : Prop :=
  (∃ d, (env.res v).delta = .ok (some d) ∧ resMass env mono v = .ok d) ∨
  (∃ c, (env.res v).delta = .ok none ∧ (env.res v).comp = .ok c ∧ resMass env mono v = .ok (chemMassL (μ mono) c))

def AllConsistent (env : Env) (mono : Bool) (l : List Mod) : Prop := ∀ m ∈ l, Consistent env mono m.val

def deltaPart (env : Env) (m : Mod) : Rat :=
  match (env.res m.val).delta with
  | .ok (some d) => d * (m.mult : Rat)
  | _ => 0

def isKept (env : Env) (m : Mod) : Bool :=
  match (env.res m.val).delta with
  | .ok (some _) => false
  | _ => true

def compOf (env : Env) (m : Mod) : Comp :=
  match (env.res m.val).comp with
  | .ok c => scale (m.mult : Rat) c
  | .error _ => []

def deltaSum (env : Env) (l : List Mod) : Rat := sumR (l.map (deltaPart env))
def keptOf (env : Env) (l : List Mod) : List Mod := l.filter (isKept env)
def compSum (env : Env) (mono : Bool) (l : List Mod) : Rat := sumR (l.map fun m => chemMassL (μ mono) (compOf env m))

/-- the row gap of one written modification: (tabulated mass − mass of its composition) × multiplier; 0 for plain shifts -/
def gapOf (env : Env) (mono : Bool) (m : Mod) : Rat :=
  if isKept env m then modValue env mono m - chemMassL (μ mono) (compOf env m) else 0

def gapSum (env : Env) (mono : Bool) (l : List Mod) : Rat := sumR (l.map (gapOf env mono))

theorem gapSum_append (env : Env) (mono : Bool) (a b : List Mod) :
    gapSum env mono (a ++ b) = gapSum env mono a + gapSum env mono b := by
  simp [gapSum, sumR_append]

theorem popList_ok (env : Env) (mono : Bool) (l : List Mod) (h : AllConsistent env mono l) :
    popList env l = .ok (deltaSum env l, keptOf env l) := by
  unfold popList deltaSum keptOf
  induction l with
  | nil => rfl
  | cons m l ih =>
    have hm := h m List.mem_cons_self
    have hl : AllConsistent env mono l := fun x hx => h x (List.mem_cons_of_mem _ hx)
    rw [List.foldrM_cons, ih hl, bind_ok]
    rcases hm with ⟨d, hd, _⟩ | ⟨c, x, hd, _, _⟩
    · rw [hd, bind_ok]
      simp only [List.map_cons, sumR_cons, List.filter_cons, deltaPart, isKept, hd]
      show Except.ok _ = Except.ok _
      congr 2
      ring
    · rw [hd, bind_ok]
      simp only [List.map_cons, sumR_cons, List.filter_cons, deltaPart, isKept, hd]
      show Except.ok _ = Except.ok _
      congr 2
      ring

theorem modValue_split (env : Env) (mono : Bool) (m : Mod) (h : Consistent env mono m.val) :
    modValue env mono m = deltaPart env m + (if isKept env m then chemMassL (μ mono) (compOf env m) else 0)
      + gapOf env mono m := by
  unfold gapOf
  rcases h with ⟨d, hd, hm⟩ | ⟨c, x, hd, hc, hm⟩
  · have hk : isKept env m = false := by unfold isKept; rw [hd]
    have hr : (if mono then (env.res m.val).mono else (env.res m.val).avg) = resMass env mono m.val := rfl
    simp only [hk, Bool.false_eq_true, if_false]
    unfold modValue deltaPart
    rw [hr, hd, hm]; simp
  · have hk : isKept env m = true := by unfold isKept; rw [hd]
    have hdp : deltaPart env m = 0 := by unfold deltaPart; rw [hd]
    simp only [hk, if_true, hdp]
    ring

theorem modsValue_split (env : Env) (mono : Bool) (l : List Mod) (h : AllConsistent env mono l) :
    modsValue env mono l = deltaSum env l + compSum env mono (keptOf env l) + gapSum env mono l := by
  unfold modsValue deltaSum compSum keptOf gapSum
  induction l with
  | nil => simp [sumR_nil]
  | cons m l ih =>
    have hm := h m List.mem_cons_self
    have hl : AllConsistent env mono l := fun x hx => h x (List.mem_cons_of_mem _ hx)
    rw [List.map_cons, sumR_cons, List.map_cons, sumR_cons, List.map_cons, sumR_cons, ih hl,
      modValue_split env mono m hm, List.filter_cons]
    by_cases hk : isKept env m = true
    · simp only [hk, if_true, List.map_cons, sumR_cons]; ring
    · simp only [hk, Bool.false_eq_true, if_false]; ring

/-- with exactly self-consistent rows the gap vanishes -/
theorem gapSum_zero (env : Env) (mono : Bool) (l : List Mod) (h : ∀ m ∈ l, ExactlyConsistent env mono m.val) :
    gapSum env mono l = 0 := by
  unfold gapSum
  induction l with
  | nil => rfl
  | cons m l ih =>
    rw [List.map_cons, sumR_cons, ih (fun x hx => h x (List.mem_cons_of_mem _ hx))]
    have : gapOf env mono m = 0 := by
      unfold gapOf
      rcases h m List.mem_cons_self with ⟨d, hd, _⟩ | ⟨c, hd, hc, hm⟩
      · have hk : isKept env m = false := by unfold isKept; rw [hd]
        simp [hk]
      · have hr : (if mono then (env.res m.val).mono else (env.res m.val).avg) = resMass env mono m.val := rfl
        have hk : isKept env m = true := by unfold isKept; rw [hd]
        simp only [hk, if_true]
        unfold modValue compOf
        rw [hr, hm, hc, chemMassL_scale]
        ring
    rw [this]; ring

theorem kept_has_comp (env : Env) (mono : Bool) (l : List Mod) (h : AllConsistent env mono l) :
    ∀ m ∈ keptOf env l, ∃ c, (env.res m.val).comp = .ok c := by
  intro m hm
  unfold keptOf at hm
  rw [List.mem_filter] at hm
  obtain ⟨hml, hk⟩ := hm
  rcases h m hml with ⟨d, hd, _⟩ | ⟨c, x, _, hc, _⟩
  · unfold isKept at hk; rw [hd] at hk; simp at hk
  · exact ⟨c, hc⟩


/-! ### accumulating modification compositions -/

def HasComps (env : Env) (l : List Mod) : Prop := ∀ m ∈ l, ∃ c, (env.res m.val).comp = .ok c

theorem foldlM_comp_ok {α} (f : Comp → α → Except Err Comp) (w : α → Rat) (ν : Elem → Rat) (l : List α)
    (h : ∀ acc, ∀ x ∈ l, ∃ c', f acc x = .ok c' ∧ chemMassL ν c' = chemMassL ν acc + w x) (acc : Comp) :
    ∃ c', l.foldlM f acc = .ok c' ∧ chemMassL ν c' = chemMassL ν acc + sumR (l.map w) := by
  induction l generalizing acc with
  | nil => exact ⟨acc, rfl, by simp [sumR_nil]⟩
  | cons x l ih =>
    obtain ⟨c1, h1, m1⟩ := h acc x List.mem_cons_self
    obtain ⟨c2, h2, m2⟩ := ih (fun acc y hy => h acc y (List.mem_cons_of_mem _ hy)) c1
    refine ⟨c2, ?_, ?_⟩
    · rw [List.foldlM_cons, h1, bind_ok, h2]
    · rw [m2, m1, List.map_cons, sumR_cons]; ring

theorem modComp_ok (env : Env) (m : Mod) (h : ∃ c, (env.res m.val).comp = .ok c) :
    modComp env m = .ok (compOf env m) := by
  obtain ⟨c, hc⟩ := h
  unfold modComp compOf
  rw [hc]
  rfl

theorem addMods_ok (env : Env) (mono : Bool) (acc : Comp) (l : List Mod) (h : HasComps env l) :
    ∃ c', addMods env acc l = .ok c' ∧ chemMassL (μ mono) c' = chemMassL (μ mono) acc + compSum env mono l := by
  unfold addMods compSum
  apply foldlM_comp_ok
  intro acc m hm
  refine ⟨addAll acc (compOf env m), ?_, chemMassL_addAll _ _ _⟩
  rw [modComp_ok env m (h m hm)]
  rfl

theorem addOptMods_ok (env : Env) (mono : Bool) (acc : Comp) (o : Option (List Mod)) (h : HasComps env (o.getD [])) :
    ∃ c', addOptMods env acc o = .ok c' ∧
      chemMassL (μ mono) c' = chemMassL (μ mono) acc + compSum env mono (o.getD []) := by
  cases o with
  | none => exact ⟨acc, rfl, by simp [compSum, sumR_nil]⟩
  | some l => exact addMods_ok env mono acc l h

theorem compSum_append (env : Env) (mono : Bool) (a b : List Mod) :
    compSum env mono (a ++ b) = compSum env mono a + compSum env mono b := by
  simp [compSum, sumR_append]

theorem compSum_flatMap {α} (env : Env) (mono : Bool) (f : α → List Mod) (l : List α) :
    compSum env mono (l.flatMap f) = sumR (l.map fun x => compSum env mono (f x)) := by
  unfold compSum
  rw [sumR_flatMap]

theorem intervalsComp_ok (env : Env) (mono : Bool) (acc : Comp) (ivs : Option (List Interval))
    (h : HasComps env ((ivs.getD []).flatMap (fun iv => iv.mods.getD []))) :
    ∃ c', intervalsComp env acc ivs = .ok c' ∧
      chemMassL (μ mono) c' = chemMassL (μ mono) acc
        + compSum env mono ((ivs.getD []).flatMap (fun iv => iv.mods.getD [])) := by
  cases ivs with
  | none => exact ⟨acc, rfl, by simp [compSum, sumR_nil]⟩
  | some l =>
    simp only [Option.getD_some] at h ⊢
    rw [compSum_flatMap]
    show ∃ c', l.foldlM (fun acc iv => addOptMods env acc iv.mods) acc = .ok c' ∧ _
    apply foldlM_comp_ok
    intro acc iv hiv
    exact addOptMods_ok env mono acc iv.mods (fun m hm => h m (List.mem_flatMap.mpr ⟨iv, hiv, hm⟩))

theorem internalComp_ok (env : Env) (mono : Bool) (acc : Comp) (d : Option (List (Int × List Mod)))
    (h : HasComps env ((d.getD []).flatMap (·.2))) :
    ∃ c', internalComp env acc d = .ok c' ∧
      chemMassL (μ mono) c' = chemMassL (μ mono) acc + compSum env mono ((d.getD []).flatMap (·.2)) := by
  cases d with
  | none => exact ⟨acc, rfl, by simp [compSum, sumR_nil]⟩
  | some l =>
    simp only [Option.getD_some] at h ⊢
    rw [compSum_flatMap]
    show ∃ c', l.foldlM (fun acc p => addMods env acc p.2) acc = .ok c' ∧ _
    apply foldlM_comp_ok
    intro acc p hp
    exact addMods_ok env mono acc p.2 (fun m hm => h m (List.mem_flatMap.mpr ⟨p, hp, hm⟩))


/-! ### `_pop_delta_mass_mods` on a whole annotation -/

theorem mapM_ok {α β} (f : α → Except Err β) (g : α → β) (l : List α) (h : ∀ x ∈ l, f x = .ok (g x)) :
    l.mapM f = .ok (l.map g) := by
  induction l with
  | nil => rfl
  | cons x l ih =>
    rw [List.mapM_cons, h x List.mem_cons_self, bind_ok,
      ih (fun y hy => h y (List.mem_cons_of_mem _ hy)), bind_ok]
    rfl

theorem foldr_fst_sum {β} (l : List (Rat × β)) : l.foldr (fun r acc => r.1 + acc) 0 = sumR (l.map (·.1)) := by
  induction l with
  | nil => rfl
  | cons x l ih => simp [sumR_cons, ih]

theorem popOpt_ok (env : Env) (mono : Bool) (o : Option (List Mod)) (h : AllConsistent env mono (o.getD [])) :
    popOpt env o = .ok (deltaSum env (o.getD []), o.map (keptOf env)) := by
  cases o with
  | none => rfl
  | some l =>
    show (do let (d, k) ← popList env l; pure (d, some k)) = _
    rw [popList_ok env mono l h]
    rfl

def keptInterval (env : Env) (iv : Interval) : Interval := { iv with mods := iv.mods.map (keptOf env) }
def keptEntry (env : Env) (p : Int × List Mod) : Int × List Mod := (p.1, keptOf env p.2)

theorem popInterval_ok (env : Env) (mono : Bool) (iv : Interval) (h : AllConsistent env mono (iv.mods.getD [])) :
    popInterval env iv = .ok (deltaSum env (iv.mods.getD []), keptInterval env iv) := by
  unfold popInterval
  rw [popOpt_ok env mono iv.mods h]
  rfl

theorem popEntry_ok (env : Env) (mono : Bool) (p : Int × List Mod) (h : AllConsistent env mono p.2) :
    popEntry env p = .ok (deltaSum env p.2, keptEntry env p) := by
  unfold popEntry
  rw [popList_ok env mono p.2 h]
  rfl

theorem deltaSum_flatMap {α} (env : Env) (f : α → List Mod) (l : List α) :
    deltaSum env (l.flatMap f) = sumR (l.map fun x => deltaSum env (f x)) := by
  unfold deltaSum
  rw [sumR_flatMap]

theorem deltaSum_append (env : Env) (a b : List Mod) : deltaSum env (a ++ b) = deltaSum env a + deltaSum env b := by
  simp [deltaSum, sumR_append]

def ivMods (ivs : Option (List Interval)) : List Mod := (ivs.getD []).flatMap (fun iv => iv.mods.getD [])
def intMods (d : Option (List (Int × List Mod))) : List Mod := (d.getD []).flatMap (·.2)

theorem popIntervals_ok (env : Env) (mono : Bool) (ivs : Option (List Interval))
    (h : AllConsistent env mono (ivMods ivs)) :
    popIntervals env ivs = .ok (deltaSum env (ivMods ivs), ivs.map (List.map (keptInterval env))) := by
  cases ivs with
  | none => rfl
  | some l =>
    unfold ivMods at h ⊢
    simp only [Option.getD_some] at h ⊢
    show (do let rs ← l.mapM (popInterval env); pure (rs.foldr (fun (r : Rat × Interval) acc => r.1 + acc) 0, some (rs.map (fun (r : Rat × Interval) => r.2)))) = _
    rw [mapM_ok _ (fun iv => (deltaSum env (iv.mods.getD []), keptInterval env iv)) l
      (fun iv hiv => popInterval_ok env mono iv (fun m hm => h m (List.mem_flatMap.mpr ⟨iv, hiv, hm⟩))), bind_ok]
    rw [foldr_fst_sum, deltaSum_flatMap]
    simp [List.map_map, Function.comp_def]
    rfl

theorem popInternal_ok (env : Env) (mono : Bool) (d : Option (List (Int × List Mod)))
    (h : AllConsistent env mono (intMods d)) :
    popInternal env d = .ok (deltaSum env (intMods d), d.map (List.map (keptEntry env))) := by
  cases d with
  | none => rfl
  | some l =>
    unfold intMods at h ⊢
    simp only [Option.getD_some] at h ⊢
    show (do let rs ← l.mapM (popEntry env); pure (rs.foldr (fun (r : Rat × (Int × List Mod)) acc => r.1 + acc) 0, some (rs.map (fun (r : Rat × (Int × List Mod)) => r.2)))) = _
    rw [mapM_ok _ (fun p => (deltaSum env p.2, keptEntry env p)) l
      (fun p hp => popEntry_ok env mono p (fun m hm => h m (List.mem_flatMap.mpr ⟨p, hp, hm⟩))), bind_ok]
    rw [foldr_fst_sum, deltaSum_flatMap]
    simp [List.map_map, Function.comp_def]
    rfl


def popped (env : Env) (a : Annotation) : Annotation :=
  { a with labile := a.labile.map (keptOf env), unknown := a.unknown.map (keptOf env),
           nterm := a.nterm.map (keptOf env), cterm := a.cterm.map (keptOf env),
           intervals := a.intervals.map (List.map (keptInterval env)),
           internal := a.internal.map (List.map (keptEntry env)) }

def deltaAll (env : Env) (a : Annotation) : Rat :=
  deltaSum env (a.labile.getD []) + deltaSum env (a.unknown.getD []) + deltaSum env (a.nterm.getD []) +
  deltaSum env (a.cterm.getD []) + deltaSum env (ivMods a.intervals) + deltaSum env (intMods a.internal)

/-- every modification written in the annotation (global rules excluded) -/
def writtenMods (a : Annotation) : List Mod :=
  a.labile.getD [] ++ a.unknown.getD [] ++ a.nterm.getD [] ++ a.cterm.getD [] ++ ivMods a.intervals ++ intMods a.internal

theorem popDeltaMassMods_ok (env : Env) (mono : Bool) (a : Annotation) (h : AllConsistent env mono (writtenMods a)) :
    popDeltaMassMods env a = .ok (deltaAll env a, popped env a) := by
  have sub : ∀ l, (∀ m ∈ l, m ∈ writtenMods a) → AllConsistent env mono l := fun l hl m hm => h m (hl m hm)
  have h1 := popOpt_ok env mono a.labile (sub _ (by intro m hm; simp [writtenMods, hm]))
  have h2 := popOpt_ok env mono a.unknown (sub _ (by intro m hm; simp [writtenMods, hm]))
  have h3 := popOpt_ok env mono a.nterm (sub _ (by intro m hm; simp [writtenMods, hm]))
  have h4 := popOpt_ok env mono a.cterm (sub _ (by intro m hm; simp [writtenMods, hm]))
  have h5 := popIntervals_ok env mono a.intervals (sub _ (by intro m hm; simp [writtenMods, hm]))
  have h6 := popInternal_ok env mono a.internal (sub _ (by intro m hm; simp [writtenMods, hm]))
  unfold popDeltaMassMods
  rw [h1, bind_ok]; dsimp only
  rw [h2, bind_ok]; dsimp only
  rw [h3, bind_ok]; dsimp only
  rw [h4, bind_ok]; dsimp only
  rw [h5, bind_ok]; dsimp only
  rw [h6, bind_ok]
  rfl


/-! ### the modification part of `_sequence_comp` after popping -/

theorem keptOf_append (env : Env) (a b : List Mod) : keptOf env (a ++ b) = keptOf env a ++ keptOf env b := by
  simp [keptOf]

theorem getD_map_kept (env : Env) (o : Option (List Mod)) : (o.map (keptOf env)).getD [] = keptOf env (o.getD []) := by
  cases o <;> rfl

theorem ivMods_popped (env : Env) (ivs : Option (List Interval)) :
    ivMods (ivs.map (List.map (keptInterval env))) = keptOf env (ivMods ivs) := by
  cases ivs with
  | none => rfl
  | some l =>
    unfold ivMods keptOf
    simp only [Option.map_some, Option.getD_some, List.flatMap_map, List.filter_flatMap]
    congr 1
    funext iv
    exact getD_map_kept env iv.mods

theorem intMods_popped (env : Env) (d : Option (List (Int × List Mod))) :
    intMods (d.map (List.map (keptEntry env))) = keptOf env (intMods d) := by
  cases d with
  | none => rfl
  | some l =>
    unfold intMods keptOf
    simp only [Option.map_some, Option.getD_some, List.flatMap_map, List.filter_flatMap]
    rfl

theorem hasComps_kept (env : Env) (mono : Bool) (l : List Mod) (h : AllConsistent env mono l) :
    HasComps env (keptOf env l) := kept_has_comp env mono l h

theorem modsComp_popped (env : Env) (mono : Bool) (a : Annotation) (ion : Key) (hs : a.static = none)
    (hc : AllConsistent env mono (writtenMods a)) :
    ∃ c, modsComp env (popped env a) ion = .ok c ∧
      chemMassL (μ mono) c =
        compSum env mono (keptOf env (a.unknown.getD [])) + compSum env mono (keptOf env (ivMods a.intervals)) +
        (if ion = ionP then compSum env mono (keptOf env (a.labile.getD [])) else 0) +
        compSum env mono (keptOf env (a.nterm.getD [])) + compSum env mono (keptOf env (a.cterm.getD [])) +
        compSum env mono (keptOf env (intMods a.internal)) := by
  have sub : ∀ l, (∀ m ∈ l, m ∈ writtenMods a) → AllConsistent env mono l := fun l hl m hm => hc m (hl m hm)
  have k1 := hasComps_kept env mono _ (sub (a.unknown.getD []) (by intro m hm; simp [writtenMods, hm]))
  have k2 := hasComps_kept env mono _ (sub (ivMods a.intervals) (by intro m hm; simp [writtenMods, hm]))
  have k3 := hasComps_kept env mono _ (sub (a.labile.getD []) (by intro m hm; simp [writtenMods, hm]))
  have k4 := hasComps_kept env mono _ (sub (a.nterm.getD []) (by intro m hm; simp [writtenMods, hm]))
  have k5 := hasComps_kept env mono _ (sub (a.cterm.getD []) (by intro m hm; simp [writtenMods, hm]))
  have k6 := hasComps_kept env mono _ (sub (intMods a.internal) (by intro m hm; simp [writtenMods, hm]))
  rw [← getD_map_kept] at k1 k3 k4 k5
  rw [← ivMods_popped] at k2
  rw [← intMods_popped] at k6
  obtain ⟨c1, e1, m1⟩ := addOptMods_ok env mono [] (a.unknown.map (keptOf env)) k1
  obtain ⟨c2, e2, m2⟩ := intervalsComp_ok env mono c1 (a.intervals.map (List.map (keptInterval env))) k2
  have e3 : ∃ c3, labileComp env c2 (popped env a) ion = .ok c3 ∧ chemMassL (μ mono) c3 = chemMassL (μ mono) c2 +
      (if ion = ionP then compSum env mono (keptOf env (a.labile.getD [])) else 0) := by
    unfold labileComp
    by_cases hp : ion = ionP
    · simp only [hp, if_true]
      obtain ⟨c3, e3, m3⟩ := addOptMods_ok env mono c2 (a.labile.map (keptOf env)) k3
      exact ⟨c3, e3, by rw [m3, getD_map_kept]⟩
    · simp only [hp, if_false]
      exact ⟨c2, rfl, by ring⟩
  obtain ⟨c3, e3, m3⟩ := e3
  obtain ⟨c4, e4, m4⟩ := addOptMods_ok env mono c3 (a.nterm.map (keptOf env)) k4
  obtain ⟨c5, e5, m5⟩ := addOptMods_ok env mono c4 (a.cterm.map (keptOf env)) k5
  obtain ⟨c6, e6, m6⟩ := internalComp_ok env mono c5 (a.internal.map (List.map (keptEntry env))) k6
  refine ⟨c6, ?_, ?_⟩
  · unfold modsComp
    show (do
      let mc ← addOptMods env [] (a.unknown.map (keptOf env))
      let mc ← intervalsComp env mc (a.intervals.map (List.map (keptInterval env)))
      let mc ← labileComp env mc (popped env a) ion
      let mc ← addOptMods env mc (a.nterm.map (keptOf env))
      let mc ← addOptMods env mc (a.cterm.map (keptOf env))
      let mc ← internalComp env mc (a.internal.map (List.map (keptEntry env)))
      addStatic env mc a.seq a.static) = _
    rw [e1, bind_ok, e2, bind_ok, e3, bind_ok, e4, bind_ok, e5, bind_ok, e6, bind_ok, hs]
    rfl
  · have i1 := ivMods_popped env a.intervals
    have i2 := intMods_popped env a.internal
    unfold ivMods at i1
    unfold intMods at i2
    unfold ivMods intMods
    rw [m6, m5, m4, m3, m2, m1, getD_map_kept, getD_map_kept, getD_map_kept, i1, i2]
    have : chemMassL (μ mono) [] = 0 := rfl
    rw [this]; ring


theorem placedMods_eq (a : Annotation) (ion : Key) :
    placedMods a ion = (if ion = ionP then a.labile.getD [] else []) ++ a.unknown.getD [] ++ a.nterm.getD [] ++
      ivMods a.intervals ++ intMods a.internal ++ a.cterm.getD [] := rfl

theorem placed_split (env : Env) (mono : Bool) (a : Annotation) (ion : Key) (hl : ion ≠ ionP → a.labile = none)
    (hc : AllConsistent env mono (writtenMods a)) :
    modsValue env mono (placedMods a ion) = deltaAll env a +
      (compSum env mono (keptOf env (a.unknown.getD [])) + compSum env mono (keptOf env (ivMods a.intervals)) +
        (if ion = ionP then compSum env mono (keptOf env (a.labile.getD [])) else 0) +
        compSum env mono (keptOf env (a.nterm.getD [])) + compSum env mono (keptOf env (a.cterm.getD [])) +
        compSum env mono (keptOf env (intMods a.internal))) + gapSum env mono (placedMods a ion) := by
  have hsub : AllConsistent env mono (placedMods a ion) := by
    intro m hm
    apply hc
    rw [placedMods_eq] at hm
    unfold writtenMods
    by_cases hp : ion = ionP
    · simp only [hp, if_true, List.mem_append] at hm ⊢; tauto
    · simp only [hp, if_false, List.nil_append, List.mem_append] at hm ⊢; tauto
  rw [modsValue_split env mono _ hsub]
  congr 1
  rw [placedMods_eq]
  unfold deltaAll
  by_cases hp : ion = ionP
  · simp only [hp, if_true, deltaSum_append, keptOf_append, compSum_append]; ring
  · have hlab := hl hp
    simp only [hp, if_false, hlab, Option.getD_none, deltaSum_append, keptOf_append, compSum_append, List.nil_append]
    have : deltaSum env [] = 0 := rfl
    rw [this]; ring

/-! ### residues, neutral adjustment, charge carrier -/

def resSum (mono : Bool) (seq : List Char) : Rat :=
  sumR (seq.map fun ch => constMass mono ((lookup ch.toNat Gen.aaComp).getD []))

def KnownResidues (seq : List Char) : Prop := ∀ ch ∈ seq, ∃ f, lookup ch.toNat Gen.aaComp = some f

theorem residueMass_lib (mono : Bool) (seq : List Char) (h : KnownResidues seq) :
    residueMass mono seq = .ok (resSum mono seq) := by
  unfold residueMass resSum
  apply sumM_ok
  intro ch hch
  obtain ⟨f, hf⟩ := h ch hch
  have ha : aaMass mono ch.toNat = some (constMass mono f) := congrArg (Option.map (constMass mono)) hf
  have hg : (lookup ch.toNat Gen.aaComp).getD [] = f := congrArg (fun o => o.getD []) hf
  show (match aaMass mono ch.toNat with
      | none => Except.error Err.unknownAA
      | some m => pure m) = Except.ok (constMass mono ((lookup ch.toNat Gen.aaComp).getD []))
  rw [ha, hg]
  rfl

/-- one step of `residueComp` -/
theorem residueComp_ok (mono : Bool) (seq : List Char) (h : KnownResidues seq) :
    ∃ c, residueComp seq = .ok c ∧ chemMassL (μ mono) c = resSum mono seq := by
  unfold residueComp resSum
  have := foldlM_comp_ok
    (fun (acc : Comp) (ch : Char) => match lookup ch.toNat Gen.aaComp with
      | none => Except.error Err.unknownAA
      | some k => pure (addAll acc k))
    (fun ch => constMass mono ((lookup ch.toNat Gen.aaComp).getD [])) (μ mono) seq
    (by
      intro acc ch hch
      obtain ⟨f, hf⟩ := h ch hch
      have hg : (lookup ch.toNat Gen.aaComp).getD [] = f := congrArg (fun o => o.getD []) hf
      refine ⟨addAll acc f, ?_, ?_⟩
      · show (match lookup ch.toNat Gen.aaComp with
          | none => Except.error Err.unknownAA
          | some k => pure (addAll acc k)) = _
        rw [hf]; rfl
      · rw [chemMassL_addAll, hg]; rfl) []
  obtain ⟨c, hc, hm⟩ := this
  exact ⟨c, hc, by rw [hm]; show (0 : Rat) + _ = _; ring⟩

theorem noBZ (seq : List Char) (h : KnownResidues seq) : seq.contains 'B' = false ∧ seq.contains 'Z' = false := by
  have hB : lookup 'B'.toNat Gen.aaComp = none := by decide +kernel
  have hZ : lookup 'Z'.toNat Gen.aaComp = none := by decide +kernel
  constructor
  · cases hc : seq.contains 'B' with
    | false => rfl
    | true =>
      obtain ⟨f, hf⟩ := h 'B' (List.contains_iff_mem.mp hc)
      rw [hB] at hf; cases hf
  · cases hc : seq.contains 'Z' with
    | false => rfl
    | true =>
      obtain ⟨f, hf⟩ := h 'Z' (List.contains_iff_mem.mp hc)
      rw [hZ] at hf; cases hf

theorem mu_electron (mono : Bool) : μ mono kE = Gen.electronMass := by
  cases mono <;> decide +kernel

theorem mu_neutron (mono : Bool) : μ mono kNn = Gen.neutronMass := by
  cases mono <;> decide +kernel

/-- h⁺ = m(H) − mₑ in the mode's hydrogen mass -/
def hplus (mono : Bool) : Rat := μ mono kH - Gen.electronMass

theorem protonsComp_mass (mono : Bool) (n : Int) :
    chemMassL (μ mono) (addAll [] (protonsComp n)) = (n : Rat) * hplus mono := by
  rw [chemMassL_addAll]
  unfold protonsComp hplus
  rw [chemMassL_cons, chemMassL_cons, chemMassL_nil]
  simp only
  rw [mu_electron]
  ring

/-- the table obligation `ion_tables_agree` as a Boolean -/
def ionTablesOk : Bool :=
  Gen.ionComp.all (fun p =>
    p.1 == ionN ||
    (match lookup p.1 Gen.baseAdducts with
      | none => false
      | some s => match chargeAdductsCompStr s with
        | .ok c => decide (dropZeros c = dropZeros (addAll [] p.2))
        | .error _ => false))

theorem baseAdducts_of_tables (hI : ionTablesOk = true) (ion : Key) (ic : Comp) (hic : lookup ion Gen.ionComp = some ic)
    (hn : ion ≠ ionN) :
    ∃ s base, lookup ion Gen.baseAdducts = some s ∧ chargeAdductsCompStr s = .ok base ∧
      ∀ ν : Elem → Rat, chemMassL ν base = chemMassL ν ic := by
  have hm := chem_lookup_mem ion _ ic hic
  have := List.all_eq_true.mp hI (ion, ic) hm
  simp only [Bool.or_eq_true, beq_iff_eq] at this
  rcases this with h | h
  · exact absurd h hn
  · cases hs : lookup ion Gen.baseAdducts with
    | none => rw [hs] at h; simp at h
    | some s =>
      rw [hs] at h
      simp only at h
      cases hb : chargeAdductsCompStr s with
      | error e => rw [hb] at h; simp at h
      | ok base =>
        rw [hb] at h
        have hd : dropZeros base = dropZeros (addAll [] ic) := of_decide_eq_true h
        refine ⟨s, base, rfl, hb, ?_⟩
        intro ν
        rw [← chemMassL_dropZeros ν base, hd, chemMassL_dropZeros, chemMassL_addAll, chemMassL_nil]
        ring


/-! ### the fast path of `mass` in library terms -/

theorem consistent_resolves (env : Env) (mono : Bool) (l : List Mod) (h : AllConsistent env mono l) :
    l.all (modResolves env mono) = true := by
  rw [List.all_eq_true]
  intro m hm
  unfold modResolves
  have hr : (if mono then (env.res m.val).mono else (env.res m.val).avg) = resMass env mono m.val := rfl
  rw [hr]
  rcases h m hm with ⟨d, _, hv⟩ | ⟨c, x, _, _, hv⟩ <;> rw [hv]

theorem fastMass_lib (env : Env) (a : Annotation) (o : Opts)
    (hstatic : a.static = none) (hl : o.isotopeMods = none) (hl' : a.isotope = none)
    (had : o.adducts = none) (had' : a.adducts = none) (hprec : o.precision = none)
    (hres : KnownResidues a.seq) (hpl : (placedMods a o.ion).all (modResolves env o.mono) = true)
    (fa : Rat) (hfa : fragmentAdjMass o.mono o.ion = some fa)
    (ct : Rat) (hct : Mass.chargeTerm ((effCharge a o).getD 0) o.ion o.mono none = .ok ct) :
    mass env a o = .ok (resSum o.mono a.seq + modsValue env o.mono (placedMods a o.ion) + ct + fa
      + ((o.isotope : Rat) * Gen.neutronMass + o.loss)) := by
  obtain ⟨hB, hZ⟩ := noBZ a.seq hres
  unfold mass massWith resolveArgs effLabels
  rw [hl, hl', had, had']
  simp only [pure_bind', hB, hZ, Bool.false_eq_true, if_false]
  unfold fastMass
  have hs : staticMass env o.mono a.seq a.static = .ok 0 := by rw [hstatic]; rfl
  rw [hs, bind_ok, residueMass_lib o.mono a.seq hres, bind_ok, placedModsMass_ok env o.mono a o.ion hpl, bind_ok]
  unfold adjustMass
  dsimp only
  rw [hct, bind_ok, hfa, hprec]
  show Except.ok _ = Except.ok _
  congr 1
  show (0 : Rat) + _ + _ + _ + _ + _ = _
  ring

/-! ### `_sequence_comp` base part -/

theorem seqBase_pn (mono : Bool) (a : Annotation) (ion : Key) (hres : KnownResidues a.seq) (had : a.adducts = none)
    (adj : Comp) (hadj : lookup ion neutralAdj = some adj) (hion : (ion = ionP || ion = ionN) = true) :
    ∃ c, seqBaseComp a ion = .ok c ∧
      chemMassL (μ mono) c = resSum mono a.seq + constMass mono adj + ((a.charge.getD 0 : Int) : Rat) * hplus mono := by
  obtain ⟨rc, hrc, hrm⟩ := residueComp_ok mono a.seq hres
  refine ⟨addAll (addAll rc adj) (addAll [] (protonsComp (a.charge.getD 0))), ?_, ?_⟩
  · have he : effAdducts a = none := by unfold effAdducts; rw [had]
    unfold seqBaseComp carrierComp defaultCarrier
    rw [hrc, bind_ok, hadj, he]
    simp only [hion, if_true]
    rfl
  · rw [chemMassL_addAll, chemMassL_addAll, hrm, protonsComp_mass]
    rfl

theorem seqBase_frag (hI : ionTablesOk = true) (mono : Bool) (a : Annotation) (ion : Key) (hres : KnownResidues a.seq)
    (had : a.adducts = none) (adj : Comp) (hadj : lookup ion neutralAdj = some adj)
    (hion : (ion = ionP || ion = ionN) = false) (ic : Comp) (hic : lookup ion Gen.ionComp = some ic) :
    ∃ c, seqBaseComp a ion = .ok c ∧
      chemMassL (μ mono) c = resSum mono a.seq + constMass mono adj
        + ((((a.charge.getD 0 : Int) : Rat) - 1) * hplus mono + constMass mono ic) := by
  obtain ⟨rc, hrc, hrm⟩ := residueComp_ok mono a.seq hres
  have hn : ion ≠ ionN := by
    intro h; rw [h] at hion; simp at hion
  obtain ⟨s, base, hs, hb, hbm⟩ := baseAdducts_of_tables hI ion ic hic hn
  refine ⟨addAll (addAll rc adj) (addAll (addAll [] (protonsComp (a.charge.getD 0 - 1))) base), ?_, ?_⟩
  · have he : effAdducts a = none := by unfold effAdducts; rw [had]
    unfold seqBaseComp carrierComp defaultCarrier
    rw [hrc, bind_ok, hadj, he]
    simp only [hion, Bool.false_eq_true, if_false, hs]
    rw [hb]
    rfl
  · rw [chemMassL_addAll, chemMassL_addAll, chemMassL_addAll (μ mono) (addAll [] _) base, hrm, protonsComp_mass, hbm]
    push_cast
    rfl


/-! ### assembling `comp_mass` -/

/-- `comp_mass` after the argument overrides -/
def compMassCore (env : Env) (b : Annotation) (ion : Key) (isotope : Int) (useIso : Bool) : Except Err (Comp × Rat) := do
  let a ← condenseStatic env b
  let (delta, a) ← popDeltaMassMods env (dropLabile a ion)
  let c ← sequenceComp env (clearEmptyAdducts a) ion isotope useIso
  pure (c, delta)

theorem compMass_eq_core (env : Env) (a : Annotation) (ion : Key) (charge : Option Int) (isotope : Int)
    (adducts : Option ModVal) (isoMods : Option (List Mod)) (useIso : Bool)
    (hprobe : staticProbe env (overrideArgs a charge adducts isoMods) = .ok ()) :
    compMass env a ion charge isotope adducts isoMods useIso
      = compMassCore env (overrideArgs a charge adducts isoMods) ion isotope useIso := by
  unfold compMass compMassCore
  rw [hprobe]
  rfl

theorem staticProbe_none (env : Env) (b : Annotation) (h : b.static = none) : staticProbe env b = .ok () := by
  unfold staticProbe; rw [h]; rfl

theorem writtenMods_dropLabile (b : Annotation) (ion : Key) : ∀ m ∈ writtenMods (dropLabile b ion), m ∈ writtenMods b := by
  intro m hm
  unfold dropLabile at hm
  by_cases hp : ion = ionP
  · simpa [hp] using hm
  · simp only [hp, if_false] at hm
    unfold writtenMods at hm ⊢
    simp only [Option.getD_none, List.nil_append, List.mem_append] at hm ⊢
    tauto

theorem compMassCore_ok (env : Env) (mono : Bool) (b : Annotation) (ion : Key) (isotope : Int) (useIso : Bool)
    (hstatic : b.static = none) (hiso : b.isotope = none) (hne : b.adducts ≠ some []) (hres : KnownResidues b.seq)
    (hcons : AllConsistent env mono (writtenMods b))
    (hcc : b.adducts = none → ion = ionP ∨ ion = ionN ∨ (lookup ion Gen.baseAdducts).isSome = true)
    (S : Rat) (hsb : ∃ c, seqBaseComp b ion = .ok c ∧ chemMassL (μ mono) c = S) :
    ∃ c d, compMassCore env b ion isotope useIso = .ok (c, d) ∧
      chemMassL (μ mono) c + d + gapSum env mono (placedMods b ion)
        = S + modsValue env mono (placedMods b ion) + (isotope : Rat) * Gen.neutronMass := by
  obtain ⟨hB, hZ⟩ := noBZ b.seq hres
  obtain ⟨sb, hsb, hsm⟩ := hsb
  -- the annotation after dropping labile mods
  have hstatic2 : (dropLabile b ion).static = none := by unfold dropLabile; split <;> simp [hstatic]
  have hcons2 : AllConsistent env mono (writtenMods (dropLabile b ion)) :=
    fun m hm => hcons m (writtenMods_dropLabile b ion m hm)
  have hlab2 : ion ≠ ionP → (dropLabile b ion).labile = none := by
    intro hp; unfold dropLabile; simp [hp]
  have hplaced : placedMods (dropLabile b ion) ion = placedMods b ion := by
    unfold dropLabile
    by_cases hp : ion = ionP
    · simp [hp]
    · simp only [hp, if_false]; unfold placedMods; simp [hp]
  obtain ⟨mc, hmc, hmm⟩ := modsComp_popped env mono (dropLabile b ion) ion hstatic2 hcons2
  have hsplit := placed_split env mono (dropLabile b ion) ion hlab2 hcons2
  rw [hplaced] at hsplit
  -- fields that the later stages read are unchanged
  have hadd3 : (popped env (dropLabile b ion)).adducts = b.adducts := by
    unfold popped dropLabile; split <;> rfl
  have hiso3 : (popped env (dropLabile b ion)).isotope = none := by
    unfold popped dropLabile; split <;> simp [hiso]
  have hseq3 : (popped env (dropLabile b ion)).seq = b.seq := by
    unfold popped dropLabile; split <;> rfl
  have hch3 : (popped env (dropLabile b ion)).charge = b.charge := by
    unfold popped dropLabile; split <;> rfl
  have hclear : clearEmptyAdducts (popped env (dropLabile b ion)) = popped env (dropLabile b ion) := by
    unfold clearEmptyAdducts; rw [hadd3]
    cases hb : b.adducts with
    | none => rfl
    | some l => cases l with
      | nil => exact absurd hb hne
      | cons m ms => rfl
  have hsb3 : seqBaseComp (popped env (dropLabile b ion)) ion = .ok sb := by
    rw [← hsb]; unfold seqBaseComp carrierComp effAdducts; rw [hseq3, hadd3, hch3]
  have hcheck : carrierCheck (popped env (dropLabile b ion)) ion = .ok () := by
    unfold carrierCheck effAdducts; rw [hadd3]
    cases hb : b.adducts with
    | some l => cases l with
      | nil => exact absurd hb hne
      | cons m ms => cases ms <;> rfl
    | none =>
      rcases hcc hb with h | h | h
      · simp [h]; rfl
      · simp [h]; rfl
      · simp [h]; rfl
  refine ⟨dropZeros (addAll (addAll [] sb) (addKey mc kNn (isotope : Rat))), deltaAll env (dropLabile b ion), ?_, ?_⟩
  · unfold compMassCore condenseStatic
    rw [hstatic]
    simp only [pure_bind']
    rw [popDeltaMassMods_ok env mono _ hcons2, bind_ok]
    dsimp only
    rw [hclear]
    unfold sequenceComp
    rw [hcheck, bind_ok, hseq3]
    simp only [hB, hZ, Bool.false_eq_true, if_false]
    rw [hsb3, bind_ok, hmc, bind_ok]
    unfold applyLabels
    rw [hiso3]
    rfl
  · rw [chemMassL_dropZeros, chemMassL_addAll, chemMassL_addAll, chemMassL_nil, chemMassL_addKey, hsm, hmm, hsplit,
      mu_neutron]
    ring


theorem override_fields (a : Annotation) (ch : Option Int) :
    (overrideArgs a ch none none).static = a.static ∧ (overrideArgs a ch none none).isotope = a.isotope ∧
    (overrideArgs a ch none none).adducts = a.adducts ∧ (overrideArgs a ch none none).seq = a.seq ∧
    writtenMods (overrideArgs a ch none none) = writtenMods a ∧
    (∀ ion, placedMods (overrideArgs a ch none none) ion = placedMods a ion) ∧
    (overrideArgs a ch none none).charge = (match ch with | some c => some c | none => a.charge) := by
  cases ch <;> exact ⟨rfl, rfl, rfl, rfl, rfl, fun _ => rfl, rfl⟩

/-- number of charges the fast path adds as `PROTON_MASS` where the composition path adds `H − e` -/
def kProtons (a : Annotation) (o : Opts) : Rat :=
  if o.ion = ionP || o.ion = ionN then (((effCharge a o).getD 0 : Int) : Rat) else (((effCharge a o).getD 0 : Int) : Rat) - 1

theorem mass_eq_compMass_of_tables (hI : ionTablesOk = true) (env : Env) (a : Annotation) (o : Opts)
    (hstatic : a.static = none) (hl : o.isotopeMods = none) (hl' : a.isotope = none)
    (had : o.adducts = none) (had' : a.adducts = none) (hprec : o.precision = none)
    (hres : KnownResidues a.seq) (hcons : AllConsistent env o.mono (writtenMods a))
    (hadj : (lookup o.ion neutralAdj).isSome = true)
    (hion : o.ion = ionP ∨ o.ion = ionN ∨ (lookup o.ion Gen.ionComp).isSome = true) :
    ∃ c d, compMass env a o.ion o.charge o.isotope none none o.useIsotopeOnMods = .ok (c, d) ∧
      mass env a o = .ok (chemMassL (μ o.mono) c + d + o.loss
        + kProtons a o * (Gen.protonMass - hplus o.mono) + gapSum env o.mono (placedMods a o.ion)) := by
  obtain ⟨adj, hadj⟩ := Option.isSome_iff_exists.mp hadj
  obtain ⟨f1, f2, f3, f4, f5, f6, f7⟩ := override_fields a o.charge
  have hfa : fragmentAdjMass o.mono o.ion = some (constMass o.mono adj) :=
    congrArg (Option.map (constMass o.mono)) hadj
  have hpl : (placedMods a o.ion).all (modResolves env o.mono) = true := by
    apply consistent_resolves
    intro m hm
    apply hcons
    rw [placedMods_eq] at hm
    unfold writtenMods
    by_cases hp : o.ion = ionP
    · simp only [hp, if_true, List.mem_append] at hm ⊢; tauto
    · simp only [hp, if_false, List.nil_append, List.mem_append] at hm ⊢; tauto
  have hz : (overrideArgs a o.charge none none).charge.getD 0 = (effCharge a o).getD 0 := by rw [f7]; rfl
  rw [compMass_eq_core _ _ _ _ _ _ _ _ (staticProbe_none env _ (f1.trans hstatic))]
  by_cases hpn : (o.ion = ionP || o.ion = ionN) = true
  · -- precursor-like types: z protons against z·(H − e)
    have hsb := seqBase_pn o.mono (overrideArgs a o.charge none none) o.ion (f4 ▸ hres) (f3.trans had') adj hadj hpn
    obtain ⟨c, d, hcd, hm⟩ := compMassCore_ok env o.mono (overrideArgs a o.charge none none) o.ion o.isotope
      o.useIsotopeOnMods (f1.trans hstatic) (f2.trans hl') (by rw [f3, had']; simp) (f4 ▸ hres) (f5 ▸ hcons)
      (fun _ => by simp only [Bool.or_eq_true, decide_eq_true_eq] at hpn; tauto) _ hsb
    refine ⟨c, d, hcd, ?_⟩
    have hct : Mass.chargeTerm ((effCharge a o).getD 0) o.ion o.mono none
        = .ok (Gen.protonMass * (((effCharge a o).getD 0 : Int) : Rat)) := by
      unfold Mass.chargeTerm; simp only [hpn, if_true]; rfl
    rw [fastMass_lib env a o hstatic hl hl' had had' hprec hres hpl _ hfa _ hct]
    apply congrArg Except.ok
    unfold kProtons
    simp only [hpn, if_true]
    rw [f6, f4, hz] at hm
    linarith
  · -- fragment types: (z − 1) protons against (z − 1)·(H − e); the first carrier is the same table entry on both sides
    have hpn' : (o.ion = ionP || o.ion = ionN) = false := by simpa using hpn
    have hic : (lookup o.ion Gen.ionComp).isSome = true := by
      rcases hion with h | h | h
      · rw [h] at hpn; simp at hpn
      · rw [h] at hpn; simp at hpn
      · exact h
    obtain ⟨ic, hic⟩ := Option.isSome_iff_exists.mp hic
    have hn : o.ion ≠ ionN := by intro h; rw [h] at hpn; simp at hpn
    obtain ⟨s, base, hs, _, _⟩ := baseAdducts_of_tables hI o.ion ic hic hn
    have hsb := seqBase_frag hI o.mono (overrideArgs a o.charge none none) o.ion (f4 ▸ hres) (f3.trans had') adj hadj
      hpn' ic hic
    obtain ⟨c, d, hcd, hm⟩ := compMassCore_ok env o.mono (overrideArgs a o.charge none none) o.ion o.isotope
      o.useIsotopeOnMods (f1.trans hstatic) (f2.trans hl') (by rw [f3, had']; simp) (f4 ▸ hres) (f5 ▸ hcons)
      (fun _ => Or.inr (Or.inr (by rw [hs]; rfl))) _ hsb
    refine ⟨c, d, hcd, ?_⟩
    have hfi : fragmentIonAdjMass o.mono o.ion = some (constMass o.mono ic) :=
      congrArg (Option.map (constMass o.mono)) hic
    have hct : Mass.chargeTerm ((effCharge a o).getD 0) o.ion o.mono none
        = .ok (Gen.protonMass * ((((effCharge a o).getD 0 : Int) : Rat) - 1) + constMass o.mono ic) := by
      unfold Mass.chargeTerm; simp only [hpn', Bool.false_eq_true, if_false]; rw [hfi]; rfl
    rw [fastMass_lib env a o hstatic hl hl' had had' hprec hres hpl _ hfa _ hct]
    apply congrArg Except.ok
    unfold kProtons
    simp only [hpn', Bool.false_eq_true, if_false]
    rw [f6, f4, hz] at hm
    linarith


/-! ### global static rules: condensing is value-preserving -/

theorem findAll_go_length (pat : List Char) (fuel : Nat) (s : List Char) (i : Nat) :
    (findAll.go pat s i fuel).length = countSub.go pat s fuel := by
  induction fuel generalizing s i with
  | zero => rfl
  | succ fuel ih =>
    cases s with
    | nil => rfl
    | cons c r =>
      unfold findAll.go countSub.go
      by_cases hp : pat.isPrefixOf (c :: r) = true
      · simp only [hp, if_true, List.length_cons, ih]; omega
      · simp only [hp, Bool.false_eq_true, if_false, ih]

theorem findAll_length (pat s : List Char) : (findAll pat s).length = countSub pat s := by
  unfold findAll countSub
  by_cases hp : pat.isEmpty = true
  · simp [hp]
  · simp only [hp, Bool.false_eq_true, if_false]; exact findAll_go_length pat _ s 0

/-- Σ f over a list of modifications (`modsValue env mono = sumF (modValue env mono)`, `gapSum env mono = sumF (gapOf env mono)`) -/
def sumF (f : Mod → Rat) (l : List Mod) : Rat := sumR (l.map f)

theorem sumF_append (f : Mod → Rat) (a b : List Mod) : sumF f (a ++ b) = sumF f a + sumF f b := by
  simp [sumF, sumR_append]

/-- Σ f over the residue modifications -/
def intValue (f : Mod → Rat) (d : Option (List (Int × List Mod))) : Rat := sumF f (intMods d)

theorem intMods_addAt (d : List (Int × List Mod)) (i : Int) (l : List Mod) (f : Mod → Rat) :
    sumF f ((addAt d i l).flatMap (·.2)) = sumF f (d.flatMap (·.2)) + sumF f l := by
  induction d with
  | nil => simp [addAt, sumF, sumR_nil]
  | cons p d ih =>
    obtain ⟨k, v⟩ := p
    unfold addAt
    by_cases hk : k = i
    · simp only [hk, if_true, List.flatMap_cons, sumF_append]; ring
    · simp only [hk, if_false, List.flatMap_cons, sumF_append, ih]; ring

theorem intValue_addInternal (f : Mod → Rat) (d : Option (List (Int × List Mod))) (i : Int) (l : List Mod) :
    intValue f (addInternal d i l) = intValue f d + sumF f l := by
  unfold intValue intMods addInternal
  cases d with
  | none => simp [sumF, sumR_nil]
  | some d => simp only [Option.getD_some]; exact intMods_addAt d i l f

theorem mem_addAt (d : List (Int × List Mod)) (i : Int) (l : List Mod) (m : Mod)
    (h : m ∈ (addAt d i l).flatMap (·.2)) : m ∈ d.flatMap (·.2) ∨ m ∈ l := by
  induction d with
  | nil => simpa [addAt] using h
  | cons p d ih =>
    obtain ⟨k, v⟩ := p
    unfold addAt at h
    by_cases hk : k = i
    · simp only [hk, if_true, List.flatMap_cons, List.mem_append] at h ⊢; tauto
    · simp only [hk, if_false, List.flatMap_cons, List.mem_append] at h ⊢
      rcases h with h | h
      · exact Or.inl (Or.inl h)
      · rcases ih h with h | h
        · exact Or.inl (Or.inr h)
        · exact Or.inr h

theorem mem_addInternal (d : Option (List (Int × List Mod))) (i : Int) (l : List Mod) (m : Mod)
    (h : m ∈ intMods (addInternal d i l)) : m ∈ intMods d ∨ m ∈ l := by
  unfold intMods addInternal at *
  cases d with
  | none => simpa using h
  | some d => simp only [Option.getD_some] at h ⊢; exact mem_addAt d i l m h

/-- what two annotations share when they differ only in their residue modifications -/
def SameButInternal (a b : Annotation) : Prop :=
  a.seq = b.seq ∧ a.isotope = b.isotope ∧ a.static = b.static ∧ a.labile = b.labile ∧ a.unknown = b.unknown ∧
  a.nterm = b.nterm ∧ a.cterm = b.cterm ∧ a.intervals = b.intervals ∧ a.charge = b.charge ∧ a.adducts = b.adducts

theorem condenseRule_props (f : Mod → Rat) (a : Annotation) (p : List Char × List Mod) :
    SameButInternal (condenseRule a p) a ∧
    intValue f (condenseRule a p).internal = intValue f a.internal +
      (if p.1 = nTerm || p.1 = cTerm then 0 else sumF f p.2 * ((countSub p.1 a.seq : Nat) : Rat)) ∧
    (∀ m ∈ intMods (condenseRule a p).internal, m ∈ intMods a.internal ∨ m ∈ p.2) := by
  unfold condenseRule
  by_cases hp : (p.1 = nTerm || p.1 = cTerm) = true
  · simp only [hp, if_true]
    exact ⟨⟨rfl, rfl, rfl, rfl, rfl, rfl, rfl, rfl, rfl, rfl⟩, by ring, fun m hm => Or.inl hm⟩
  · simp only [hp, Bool.false_eq_true, if_false]
    rw [← findAll_length]
    generalize findAll p.1 a.seq = idx
    induction idx generalizing a with
    | nil => exact ⟨⟨rfl, rfl, rfl, rfl, rfl, rfl, rfl, rfl, rfl, rfl⟩, by simp, fun m hm => Or.inl hm⟩
    | cons i idx ih =>
      rw [List.foldl_cons]
      obtain ⟨hs, hv, hm⟩ := ih { a with internal := addInternal a.internal (i : Int) p.2 }
      refine ⟨hs, ?_, ?_⟩
      · rw [hv, intValue_addInternal, List.length_cons]; push_cast; ring
      · intro m hmm
        rcases hm m hmm with h | h
        · exact mem_addInternal a.internal i p.2 m h
        · exact Or.inr h


def mapMods (map : List (List Char × List Mod)) : List Mod := map.flatMap (·.2)

/-- Σ over the residue-targeted rules: Σ f(mods) × number of matching residues -/
def rulesSum (f : Mod → Rat) (seq : List Char) (map : List (List Char × List Mod)) : Rat :=
  sumR (map.map fun p => if p.1 = nTerm || p.1 = cTerm then 0 else sumF f p.2 * ((countSub p.1 seq : Nat) : Rat))

theorem foldl_condenseRule_props (f : Mod → Rat) (map : List (List Char × List Mod)) (a : Annotation) :
    SameButInternal (map.foldl condenseRule a) a ∧
    intValue f (map.foldl condenseRule a).internal = intValue f a.internal + rulesSum f a.seq map ∧
    (∀ m ∈ intMods (map.foldl condenseRule a).internal, m ∈ intMods a.internal ∨ m ∈ mapMods map) := by
  induction map generalizing a with
  | nil =>
    exact ⟨⟨rfl, rfl, rfl, rfl, rfl, rfl, rfl, rfl, rfl, rfl⟩, by simp [rulesSum, sumR_nil], fun m hm => Or.inl hm⟩
  | cons p map ih =>
    rw [List.foldl_cons]
    obtain ⟨hs1, hv1, hm1⟩ := condenseRule_props f a p
    obtain ⟨hs2, hv2, hm2⟩ := ih (condenseRule a p)
    obtain ⟨q1, q2, q3, q4, q5, q6, q7, q8, q9, q10⟩ := hs1
    obtain ⟨r1, r2, r3, r4, r5, r6, r7, r8, r9, r10⟩ := hs2
    refine ⟨⟨r1.trans q1, r2.trans q2, r3.trans q3, r4.trans q4, r5.trans q5, r6.trans q6, r7.trans q7, r8.trans q8,
      r9.trans q9, r10.trans q10⟩, ?_, ?_⟩
    · rw [hv2, hv1, q1]
      unfold rulesSum
      rw [List.map_cons, sumR_cons]
      ring
    · intro m hm
      unfold mapMods
      rw [List.flatMap_cons, List.mem_append]
      rcases hm2 m hm with h | h
      · rcases hm1 m h with h | h
        · exact Or.inl h
        · exact Or.inr (Or.inl h)
      · exact Or.inr (Or.inr h)

theorem getD_appendOpt (o : Option (List Mod)) (l : List Mod) : (appendOpt o l).getD [] = o.getD [] ++ l := by
  cases o <;> rfl

/-- Σ f over the global rules once parsed: terminal rules once, residue rules × number of matching residues -/
def mapSum (f : Mod → Rat) (seq : List Char) (map : List (List Char × List Mod)) : Rat :=
  (match map.lookup nTerm with | some l => sumF f l | none => 0) +
  (match map.lookup cTerm with | some l => sumF f l | none => 0) + rulesSum f seq map

/-- the value of the global rules once parsed -/
def mapValue (env : Env) (mono : Bool) (seq : List Char) (map : List (List Char × List Mod)) : Rat :=
  mapSum (modValue env mono) seq map

/-- the row gaps of the global rules -/
def mapGap (env : Env) (mono : Bool) (seq : List Char) (map : List (List Char × List Mod)) : Rat :=
  mapSum (gapOf env mono) seq map

theorem staticValue_eq (env : Env) (mono : Bool) (a : Annotation) (st : List Mod) (map : List (List Char × List Mod))
    (hs : a.static = some st) (hp : env.parseStatic st = .ok map) :
    staticValue env mono a = mapValue env mono a.seq map := by
  unfold staticValue mapValue mapSum rulesSum
  rw [hs]
  simp only
  rw [hp]
  rfl

theorem condenseWith_props (f : Mod → Rat) (a : Annotation) (map : List (List Char × List Mod)) (ion : Key) :
    (condenseWith a map).static = none ∧ (condenseWith a map).seq = a.seq ∧ (condenseWith a map).isotope = a.isotope ∧
    (condenseWith a map).charge = a.charge ∧ (condenseWith a map).adducts = a.adducts ∧
    sumF f (placedMods (condenseWith a map) ion) = sumF f (placedMods a ion) + mapSum f a.seq map ∧
    (∀ m ∈ writtenMods (condenseWith a map), m ∈ writtenMods a ∨ m ∈ mapMods map) := by
  -- the annotation before the residue rules are folded in
  have key : ∀ (a2 : Annotation) (ln lc : List Mod), a2.seq = a.seq → a2.isotope = a.isotope → a2.static = none →
      a2.labile = a.labile → a2.unknown = a.unknown → a2.intervals = a.intervals → a2.charge = a.charge →
      a2.adducts = a.adducts → a2.internal = a.internal →
      a2.nterm.getD [] = a.nterm.getD [] ++ ln → a2.cterm.getD [] = a.cterm.getD [] ++ lc →
      (∀ m ∈ ln, m ∈ mapMods map) → (∀ m ∈ lc, m ∈ mapMods map) →
      (map.foldl condenseRule a2).static = none ∧ (map.foldl condenseRule a2).seq = a.seq ∧
      (map.foldl condenseRule a2).isotope = a.isotope ∧ (map.foldl condenseRule a2).charge = a.charge ∧
      (map.foldl condenseRule a2).adducts = a.adducts ∧
      sumF f (placedMods (map.foldl condenseRule a2) ion)
        = sumF f (placedMods a ion) + (sumF f ln + sumF f lc + rulesSum f a.seq map) ∧
      (∀ m ∈ writtenMods (map.foldl condenseRule a2), m ∈ writtenMods a ∨ m ∈ mapMods map) := by
    intro a2 ln lc e1 e2 e3 e4 e5 e6 e7 e8 e9 en ec hln hlc
    obtain ⟨⟨s1, s2, s3, s4, s5, s6, s7, s8, s9, s10⟩, hv, hm⟩ := foldl_condenseRule_props f map a2
    refine ⟨s3.trans e3, s1.trans e1, s2.trans e2, s9.trans e7, s10.trans e8, ?_, ?_⟩
    · have hint : sumF f (intMods (map.foldl condenseRule a2).internal)
          = sumF f (intMods a.internal) + rulesSum f a.seq map := by
        have := hv; unfold intValue at this; rw [this, e9, e1]
      rw [placedMods_eq, placedMods_eq, s4, s5, s6, s7, s8, e4, e5, e6, en, ec]
      simp only [sumF_append, hint]
      ring
    · intro m hmm
      unfold writtenMods at hmm ⊢
      rw [s4, s5, s6, s7, s8, e4, e5, e6, en, ec] at hmm
      simp only [List.mem_append] at hmm ⊢
      rcases hmm with ((((( h | h) | h) | h) | h) | h)
      · tauto
      · tauto
      · rcases h with h | h
        · tauto
        · exact Or.inr (hln m h)
      · rcases h with h | h
        · tauto
        · exact Or.inr (hlc m h)
      · tauto
      · rcases hm m h with h | h
        · rw [e9] at h; tauto
        · exact Or.inr h
  unfold condenseWith mapSum
  have lookMem : ∀ key l, map.lookup key = some l → ∀ m ∈ l, m ∈ mapMods map := by
    intro key l hl m hm
    obtain ⟨k', hk⟩ := list_lookup_mem key map l hl
    exact List.mem_flatMap.mpr ⟨(k', l), hk, hm⟩
  cases hN : map.lookup nTerm with
  | none =>
    cases hC : map.lookup cTerm with
    | none =>
      have := key { a with static := none } [] [] rfl rfl rfl rfl rfl rfl rfl rfl rfl (by simp) (by simp)
        (by simp) (by simp)
      simpa [sumF, sumR_nil] using this
    | some lc =>
      have := key { a with static := none, cterm := appendOpt a.cterm lc } [] lc rfl rfl rfl rfl rfl rfl rfl rfl rfl
        (by simp) (getD_appendOpt _ _) (by simp) (lookMem cTerm lc hC)
      simpa [sumF, sumR_nil] using this
  | some ln =>
    cases hC : map.lookup cTerm with
    | none =>
      have := key { a with static := none, nterm := appendOpt a.nterm ln } ln [] rfl rfl rfl rfl rfl rfl rfl rfl rfl
        (getD_appendOpt _ _) (by simp) (lookMem nTerm ln hN) (by simp)
      simpa [sumF, sumR_nil] using this
    | some lc =>
      have := key { a with static := none, nterm := appendOpt a.nterm ln, cterm := appendOpt a.cterm lc } ln lc
        rfl rfl rfl rfl rfl rfl rfl rfl rfl (getD_appendOpt _ _) (getD_appendOpt _ _) (lookMem nTerm ln hN)
        (lookMem cTerm lc hC)
      simpa using this


theorem forM_ok {α} (f : α → Except Err Unit) (l : List α) (h : ∀ x ∈ l, f x = .ok ()) :
    l.foldlM (fun (_ : Unit) x => f x) () = .ok () := by
  induction l with
  | nil => rfl
  | cons x l ih =>
    rw [List.foldlM_cons, h x List.mem_cons_self, bind_ok]
    exact ih (fun y hy => h y (List.mem_cons_of_mem _ hy))

/-- the probe of global rules whose target does not occur succeeds when the rule modifications resolve -/
theorem staticProbe_ok (env : Env) (mono : Bool) (b : Annotation) (st : List Mod) (map : List (List Char × List Mod))
    (hs : b.static = some st) (hp : env.parseStatic st = .ok map) (hc : AllConsistent env mono (mapMods map)) :
    staticProbe env b = .ok () := by
  unfold staticProbe
  rw [hs]
  simp only
  rw [hp, bind_ok]
  apply forM_ok
  intro p hpm
  unfold probeRule
  split
  · rfl
  · have hcp : AllConsistent env mono p.2 := fun m hm => hc m (List.mem_flatMap.mpr ⟨p, hpm, hm⟩)
    rw [popList_ok env mono p.2 hcp, bind_ok]
    obtain ⟨c', hc', _⟩ := addMods_ok env mono [] (keptOf env p.2) (kept_has_comp env mono p.2 hcp)
    simp only
    rw [hc', bind_ok]
    rfl

theorem fastMass_lib_static (env : Env) (a : Annotation) (o : Opts) (st : List Mod) (map : List (List Char × List Mod))
    (hs : a.static = some st) (hp : env.parseStatic st = .ok map) (hmr : mapResolves env o.mono map = true)
    (hl : o.isotopeMods = none) (hl' : a.isotope = none)
    (had : o.adducts = none) (had' : a.adducts = none) (hprec : o.precision = none)
    (hres : KnownResidues a.seq) (hpl : (placedMods a o.ion).all (modResolves env o.mono) = true)
    (fa : Rat) (hfa : fragmentAdjMass o.mono o.ion = some fa)
    (ct : Rat) (hct : Mass.chargeTerm ((effCharge a o).getD 0) o.ion o.mono none = .ok ct) :
    mass env a o = .ok (resSum o.mono a.seq + (mapValue env o.mono a.seq map + modsValue env o.mono (placedMods a o.ion))
      + ct + fa + ((o.isotope : Rat) * Gen.neutronMass + o.loss)) := by
  obtain ⟨hB, hZ⟩ := noBZ a.seq hres
  unfold mass massWith resolveArgs effLabels
  rw [hl, hl', had, had']
  simp only [pure_bind', hB, hZ, Bool.false_eq_true, if_false]
  unfold fastMass
  have hstat : (match a.static with
      | none => true
      | some st => match env.parseStatic st with
        | .error _ => false
        | .ok map => mapResolves env o.mono map) = true := by rw [hs]; simp only; rw [hp]; exact hmr
  rw [staticMass_ok env o.mono a hstat, bind_ok, residueMass_lib o.mono a.seq hres, bind_ok,
    placedModsMass_ok env o.mono a o.ion hpl, bind_ok, staticValue_eq env o.mono a st map hs hp]
  unfold adjustMass
  dsimp only
  rw [hct, bind_ok, hfa, hprec]
  show Except.ok _ = Except.ok _
  apply congrArg Except.ok
  simp only [roundOpt]
  ring

theorem mass_eq_compMass_static_of_tables (hI : ionTablesOk = true) (env : Env) (a : Annotation) (o : Opts)
    (st : List Mod) (map : List (List Char × List Mod)) (hs : a.static = some st) (hp : env.parseStatic st = .ok map)
    (hl : o.isotopeMods = none) (hl' : a.isotope = none)
    (had : o.adducts = none) (had' : a.adducts = none) (hprec : o.precision = none)
    (hres : KnownResidues a.seq) (hcons : AllConsistent env o.mono (writtenMods a ++ mapMods map))
    (hadj : (lookup o.ion neutralAdj).isSome = true)
    (hion : o.ion = ionP ∨ o.ion = ionN ∨ (lookup o.ion Gen.ionComp).isSome = true) :
    ∃ c d, compMass env a o.ion o.charge o.isotope none none o.useIsotopeOnMods = .ok (c, d) ∧
      mass env a o = .ok (chemMassL (μ o.mono) c + d + o.loss
        + kProtons a o * (Gen.protonMass - hplus o.mono)
        + (gapSum env o.mono (placedMods a o.ion) + mapGap env o.mono a.seq map)) := by
  obtain ⟨adj, hadj⟩ := Option.isSome_iff_exists.mp hadj
  obtain ⟨f1, f2, f3, f4, f5, f6, f7⟩ := override_fields a o.charge
  obtain ⟨g1, g2, g3, g4, g5, g6, g7⟩ :=
    condenseWith_props (modValue env o.mono) (overrideArgs a o.charge none none) map o.ion
  obtain ⟨_, _, _, _, _, g6g, _⟩ :=
    condenseWith_props (gapOf env o.mono) (overrideArgs a o.charge none none) map o.ion
  have g6 : modsValue env o.mono (placedMods (condenseWith (overrideArgs a o.charge none none) map) o.ion)
      = modsValue env o.mono (placedMods (overrideArgs a o.charge none none) o.ion)
        + mapValue env o.mono (overrideArgs a o.charge none none).seq map := g6
  have g6g : gapSum env o.mono (placedMods (condenseWith (overrideArgs a o.charge none none) map) o.ion)
      = gapSum env o.mono (placedMods (overrideArgs a o.charge none none) o.ion)
        + mapGap env o.mono (overrideArgs a o.charge none none).seq map := g6g
  have hfa : fragmentAdjMass o.mono o.ion = some (constMass o.mono adj) :=
    congrArg (Option.map (constMass o.mono)) hadj
  have hconsA : AllConsistent env o.mono (writtenMods a) := fun m hm => hcons m (List.mem_append_left _ hm)
  have hconsM : AllConsistent env o.mono (mapMods map) := fun m hm => hcons m (List.mem_append_right _ hm)
  have hpl : (placedMods a o.ion).all (modResolves env o.mono) = true := by
    apply consistent_resolves
    intro m hm
    apply hconsA
    rw [placedMods_eq] at hm
    unfold writtenMods
    by_cases hp : o.ion = ionP
    · simp only [hp, if_true, List.mem_append] at hm ⊢; tauto
    · simp only [hp, if_false, List.nil_append, List.mem_append] at hm ⊢; tauto
  have hmr : mapResolves env o.mono map = true := by
    unfold mapResolves
    rw [List.all_eq_true]
    intro p hpm
    apply consistent_resolves
    intro m hm
    exact hconsM m (List.mem_flatMap.mpr ⟨p, hpm, hm⟩)
  have hconsC : AllConsistent env o.mono (writtenMods (condenseWith (overrideArgs a o.charge none none) map)) := by
    intro m hm
    rcases g7 m hm with h | h
    · exact hconsA m (f5 ▸ h)
    · exact hconsM m h
  have hz : (condenseWith (overrideArgs a o.charge none none) map).charge.getD 0 = (effCharge a o).getD 0 := by
    rw [g4, f7]; rfl
  have hcore : compMassCore env (overrideArgs a o.charge none none) o.ion o.isotope o.useIsotopeOnMods
      = compMassCore env (condenseWith (overrideArgs a o.charge none none) map) o.ion o.isotope o.useIsotopeOnMods := by
    unfold compMassCore condenseStatic
    rw [f1, hs, g1]
    simp only [hp, bind_ok, pure_bind']
  rw [compMass_eq_core _ _ _ _ _ _ _ _ (staticProbe_ok env o.mono _ st map (f1.trans hs) hp hconsM), hcore]
  rw [f4] at g6 g6g
  by_cases hpn : (o.ion = ionP || o.ion = ionN) = true
  · have hsb := seqBase_pn o.mono (condenseWith (overrideArgs a o.charge none none) map) o.ion
      ((g2.trans f4) ▸ hres) ((g5.trans f3).trans had') adj hadj hpn
    obtain ⟨c, d, hcd, hm⟩ := compMassCore_ok env o.mono (condenseWith (overrideArgs a o.charge none none) map) o.ion
      o.isotope o.useIsotopeOnMods g1 ((g3.trans f2).trans hl') (by rw [g5, f3, had']; simp) ((g2.trans f4) ▸ hres) hconsC
      (fun _ => by simp only [Bool.or_eq_true, decide_eq_true_eq] at hpn; tauto) _ hsb
    refine ⟨c, d, hcd, ?_⟩
    have hct : Mass.chargeTerm ((effCharge a o).getD 0) o.ion o.mono none
        = .ok (Gen.protonMass * (((effCharge a o).getD 0 : Int) : Rat)) := by
      unfold Mass.chargeTerm; simp only [hpn, if_true]; rfl
    rw [fastMass_lib_static env a o st map hs hp hmr hl hl' had had' hprec hres hpl _ hfa _ hct]
    apply congrArg Except.ok
    unfold kProtons
    simp only [hpn, if_true]
    rw [g6, g6g, f6, g2, f4, hz] at hm
    linarith
  · have hpn' : (o.ion = ionP || o.ion = ionN) = false := by simpa using hpn
    have hic : (lookup o.ion Gen.ionComp).isSome = true := by
      rcases hion with h | h | h
      · rw [h] at hpn; simp at hpn
      · rw [h] at hpn; simp at hpn
      · exact h
    obtain ⟨ic, hic⟩ := Option.isSome_iff_exists.mp hic
    have hn : o.ion ≠ ionN := by intro h; rw [h] at hpn; simp at hpn
    obtain ⟨s, base, hsx, _, _⟩ := baseAdducts_of_tables hI o.ion ic hic hn
    have hsb := seqBase_frag hI o.mono (condenseWith (overrideArgs a o.charge none none) map) o.ion
      ((g2.trans f4) ▸ hres) ((g5.trans f3).trans had') adj hadj hpn' ic hic
    obtain ⟨c, d, hcd, hm⟩ := compMassCore_ok env o.mono (condenseWith (overrideArgs a o.charge none none) map) o.ion
      o.isotope o.useIsotopeOnMods g1 ((g3.trans f2).trans hl') (by rw [g5, f3, had']; simp) ((g2.trans f4) ▸ hres) hconsC
      (fun _ => Or.inr (Or.inr (by rw [hsx]; rfl))) _ hsb
    refine ⟨c, d, hcd, ?_⟩
    have hfi : fragmentIonAdjMass o.mono o.ion = some (constMass o.mono ic) :=
      congrArg (Option.map (constMass o.mono)) hic
    have hct : Mass.chargeTerm ((effCharge a o).getD 0) o.ion o.mono none
        = .ok (Gen.protonMass * ((((effCharge a o).getD 0 : Int) : Rat) - 1) + constMass o.mono ic) := by
      unfold Mass.chargeTerm; simp only [hpn', Bool.false_eq_true, if_false]; rw [hfi]; rfl
    rw [fastMass_lib_static env a o st map hs hp hmr hl hl' had had' hprec hres hpl _ hfa _ hct]
    apply congrArg Except.ok
    unfold kProtons
    simp only [hpn', Bool.false_eq_true, if_false]
    rw [g6, g6g, f6, g2, f4, hz] at hm
    linarith


/-! ### explicit adduct lists inside the identity -/

/-- mass side minus composition side for one stated ion: the electron correction applied once instead of `count`
times; for an "electron" written with a charge other than −1 the two sides read the count differently -/
def ionGap (x : List Nat) : Rat :=
  match parseIonElements x with
  | .ok (cnt, sym, q) =>
    if sym = kE then (cnt : Rat) * Gen.electronMass * (1 + (q : Rat))
    else (q : Rat) * Gen.electronMass * ((cnt : Rat) - 1)
  | .error _ => 0

/-- … for a whole list; the literal `+H+` is `PROTON_MASS` on the mass side and `H − e` in the composition -/
def adductGap (mono : Bool) (s : List Nat) : Rat :=
  if s = [43, 72, 43] then Gen.protonMass - hplus mono else sumR ((splitComma s).map ionGap)

def ionCompOf (x : List Nat) : Comp := match adductComp x with | .ok c => c | .error _ => []

theorem mu_eq_lib (mono : Bool) (e : Elem) : μ mono e = lib.elem mono e := rfl

theorem adduct_ion (hK : avgKeysOk = true) (mono : Bool) (x : List Nat) (h : adductIonOk mono x = true) :
    adductComp x = .ok (ionCompOf x) ∧
    adductMass mono x = .ok (chemMassL (μ mono) (ionCompOf x) + ionGap x) := by
  unfold adductIonOk at h
  unfold ionCompOf adductComp adductMass ionGap
  cases hp : parseIonElements x with
  | error e => rw [hp] at h; simp at h
  | ok r =>
    obtain ⟨cnt, sym, q⟩ := r
    rw [hp] at h
    simp only [bind_ok, pure_eq_ok]
    refine ⟨trivial, ?_⟩
    by_cases he : sym = kE
    · subst he
      simp only [if_true, setKey]
      show Except.ok _ = Except.ok _
      congr 1
      rw [chemMassL_cons, chemMassL_nil, mu_electron]
      simp only
      ring
    · simp only [he, if_false, decide_false, Bool.false_or] at h ⊢
      obtain ⟨m, hm⟩ := Option.isSome_iff_exists.mp h
      rw [adductElemMass_of_table mono sym m hm]
      have hel : μ mono sym = m := elem_of_table hK mono sym m hm
      have hs : setKey [(sym, (cnt : Rat))] kE (-1 * (q : Rat) * (cnt : Rat)) = [(sym, (cnt : Rat)), (kE, -1 * (q : Rat) * (cnt : Rat))] := by
        simp [setKey, he]
      rw [hs]
      show Except.ok _ = Except.ok _
      congr 1
      rw [chemMassL_cons, chemMassL_cons, chemMassL_nil, mu_electron, hel]
      simp only
      ring

theorem adducts_str (hK : avgKeysOk = true) (mono : Bool) (s : List Nat)
    (h : (splitComma s).all (adductIonOk mono) = true) :
    ∃ comp, chargeAdductsCompStr s = .ok comp ∧
      chargeAdductsMassStr mono s = .ok (chemMassL (μ mono) comp + adductGap mono s) := by
  have hc := foldlM_comp_ok (fun (acc : Comp) (a : List Nat) => do let c ← adductComp a; pure (addAll acc c))
    (fun x => chemMassL (μ mono) (ionCompOf x)) (μ mono) (splitComma s)
    (by
      intro acc x hx
      obtain ⟨h1, _⟩ := adduct_ion hK mono x (List.all_eq_true.mp h x hx)
      exact ⟨addAll acc (ionCompOf x), by rw [h1]; rfl, chemMassL_addAll _ _ _⟩) []
  obtain ⟨comp, hcomp, hm⟩ := hc
  refine ⟨comp, hcomp, ?_⟩
  rw [chemMassL_nil] at hm
  unfold chargeAdductsMassStr adductGap
  by_cases hs : s = [43, 72, 43]
  · subst hs
    simp only [if_true]
    show Except.ok _ = Except.ok _
    congr 1
    have hsp : splitComma [43, 72, 43] = [[43, 72, 43]] := by decide
    rw [hsp] at hm
    have hp : parseIonElements [43, 72, 43] = .ok (1, kH, 1) := by decide +kernel
    have hi : ionCompOf [43, 72, 43] = [(kH, 1), (kE, -1 * 1 * 1)] := by
      unfold ionCompOf adductComp
      rw [hp]
      simp [setKey, bind_ok, pure_eq_ok]
      decide
    rw [hm, List.map_cons, List.map_nil, sumR_cons, sumR_nil, hi, chemMassL_cons, chemMassL_cons, chemMassL_nil, mu_electron]
    unfold hplus
    simp only
    ring
  · simp only [hs, if_false]
    rw [sumM_ok (adductMass mono) (fun x => chemMassL (μ mono) (ionCompOf x) + ionGap x) _
      (fun x hx => (adduct_ion hK mono x (List.all_eq_true.mp h x hx)).2)]
    show Except.ok _ = Except.ok _
    congr 1
    rw [hm]
    generalize splitComma s = l
    induction l with
    | nil => simp [sumR_nil]
    | cons x l ih => simp only [List.map_cons, sumR_cons, ih]; ring


/-- where the adduct list comes from: the `charge_adducts` argument, or the annotation (`PEPTIDE/2[+Na+,+K+]`) -/
def AdductSource (a : Annotation) (o : Opts) (s : List Char) : Prop :=
  o.adducts = some (.str s) ∨ (o.adducts = none ∧ ∃ k, a.adducts = some [⟨.str s, k⟩])

theorem resolve_of_source (a : Annotation) (o : Opts) (s : List Char) (h : AdductSource a o s)
    (hl : o.isotopeMods = none) (hl' : a.isotope = none) :
    resolveArgs a o = .ok ⟨effCharge a o, some (.str s), none⟩ := by
  unfold resolveArgs effLabels
  rw [hl, hl']
  rcases h with h | ⟨h, k, ha⟩
  · rw [h]
    cases a.adducts <;> rfl
  · rw [h, ha]; rfl

theorem override_adducts (a : Annotation) (o : Opts) (s : List Char) (h : AdductSource a o s) :
    ∃ k, (overrideArgs a o.charge o.adducts none).adducts = some [⟨.str s, k⟩] ∧
    (overrideArgs a o.charge o.adducts none).static = a.static ∧
    (overrideArgs a o.charge o.adducts none).isotope = a.isotope ∧
    (overrideArgs a o.charge o.adducts none).seq = a.seq ∧
    writtenMods (overrideArgs a o.charge o.adducts none) = writtenMods a ∧
    (∀ ion, placedMods (overrideArgs a o.charge o.adducts none) ion = placedMods a ion) := by
  rcases h with h | ⟨h, k, ha⟩
  · rw [h]
    exact ⟨1, by cases o.charge <;> rfl, by cases o.charge <;> rfl, by cases o.charge <;> rfl,
      by cases o.charge <;> rfl, by cases o.charge <;> rfl, fun _ => by cases o.charge <;> rfl⟩
  · rw [h]
    exact ⟨k, by cases o.charge <;> exact ha, by cases o.charge <;> rfl, by cases o.charge <;> rfl,
      by cases o.charge <;> rfl, by cases o.charge <;> rfl, fun _ => by cases o.charge <;> rfl⟩

/-- **the identity with an explicit adduct list** (any ion type: the list replaces the whole charge carrier in both
calculators): mass = chem_mass(comp) + δ + loss + `adductGap` + row gaps, where `adductGap` = Σ q·mₑ·(count − 1) over the
stated ions is the known finding KF-C03-adduct-electron-count, exactly -/
theorem mass_eq_compMass_adducts_of_tables (hK : avgKeysOk = true) (env : Env) (a : Annotation) (o : Opts) (s : List Char)
    (hsrc : AdductSource a o s)
    (hstatic : a.static = none) (hl : o.isotopeMods = none) (hl' : a.isotope = none) (hprec : o.precision = none)
    (hres : KnownResidues a.seq) (hcons : AllConsistent env o.mono (writtenMods a))
    (hadj : (lookup o.ion neutralAdj).isSome = true)
    (hions : (splitComma (s.map Char.toNat)).all (adductIonOk o.mono) = true) :
    ∃ c d, compMass env a o.ion o.charge o.isotope o.adducts none o.useIsotopeOnMods = .ok (c, d) ∧
      mass env a o = .ok (chemMassL (μ o.mono) c + d + o.loss + adductGap o.mono (s.map Char.toNat)
        + gapSum env o.mono (placedMods a o.ion)) := by
  obtain ⟨adj, hadj⟩ := Option.isSome_iff_exists.mp hadj
  obtain ⟨k, fa, f1, f2, f4, f5, f6⟩ := override_adducts a o s hsrc
  obtain ⟨carrier, hcar, hmass⟩ := adducts_str hK o.mono (s.map Char.toNat) hions
  have hfa : fragmentAdjMass o.mono o.ion = some (constMass o.mono adj) :=
    congrArg (Option.map (constMass o.mono)) hadj
  have hpl : (placedMods a o.ion).all (modResolves env o.mono) = true := by
    apply consistent_resolves
    intro m hm
    apply hcons
    rw [placedMods_eq] at hm
    unfold writtenMods
    by_cases hp : o.ion = ionP
    · simp only [hp, if_true, List.mem_append] at hm ⊢; tauto
    · simp only [hp, if_false, List.nil_append, List.mem_append] at hm ⊢; tauto
  -- the composition side
  obtain ⟨rc, hrc, hrm⟩ := residueComp_ok o.mono a.seq hres
  have hsb : ∃ c, seqBaseComp (overrideArgs a o.charge o.adducts none) o.ion = .ok c ∧
      chemMassL (μ o.mono) c = resSum o.mono a.seq + constMass o.mono adj + chemMassL (μ o.mono) carrier := by
    refine ⟨addAll (addAll rc adj) carrier, ?_, ?_⟩
    · have he : effAdducts (overrideArgs a o.charge o.adducts none) = some (.str s) := by
        unfold effAdducts; rw [fa]; rfl
      unfold seqBaseComp carrierComp chargeAdductsComp
      rw [f4, hrc, bind_ok, hadj, he]
      simp only
      rw [hcar]
      rfl
    · rw [chemMassL_addAll, chemMassL_addAll, hrm]; rfl
  rw [compMass_eq_core _ _ _ _ _ _ _ _ (staticProbe_none env _ (f1.trans hstatic))]
  obtain ⟨c, d, hcd, hm⟩ := compMassCore_ok env o.mono (overrideArgs a o.charge o.adducts none) o.ion o.isotope
    o.useIsotopeOnMods (f1.trans hstatic) (f2.trans hl') (by rw [fa]; simp) (f4 ▸ hres) (f5 ▸ hcons)
    (fun h => by rw [fa] at h; cases h) _ hsb
  refine ⟨c, d, hcd, ?_⟩
  -- the mass side
  have hr := resolve_of_source a o s hsrc hl hl'
  obtain ⟨hB, hZ⟩ := noBZ a.seq hres
  unfold mass massWith
  rw [hr, bind_ok]
  simp only [hB, hZ, Bool.false_eq_true, if_false]
  unfold fastMass
  have hs : staticMass env o.mono a.seq a.static = .ok 0 := by rw [hstatic]; rfl
  rw [hs, bind_ok, residueMass_lib o.mono a.seq hres, bind_ok, placedModsMass_ok env o.mono a o.ion hpl, bind_ok]
  unfold adjustMass Mass.chargeTerm chargeAdductsMass
  dsimp only
  rw [hmass, bind_ok, hfa, hprec]
  show Except.ok _ = Except.ok _
  apply congrArg Except.ok
  simp only [roundOpt]
  rw [f6] at hm
  linarith

end CompCalc
end Pept
