import PeptVerif.Lemmas.Reorder
/-! Helper lemmas for Props/C11Ext: stability of the insertion sort that models Python's `sorted(..., key=...)`. -/
namespace Pept.Reorder

/-- "before" in a stable sort of indexed items: smaller key, or equal key and smaller original index -/
def stableLe {α} (key : α → Nat) (p q : α × Nat) : Prop :=
  key p.1 < key q.1 ∨ (key p.1 = key q.1 ∧ p.2 < q.2)

theorem insertBy_stable {α} (key : α → Nat) (x : α × Nat) (l : List (α × Nat))
    (hl : l.Pairwise (stableLe key)) (hx : ∀ y ∈ l, x.2 < y.2) :
    (insertBy (fun (p : α × Nat) => key p.1) x l).Pairwise (stableLe key) := by
  induction l with
  | nil => simp [insertBy]
  | cons y t ih =>
    unfold insertBy
    have hy := List.pairwise_cons.1 hl
    by_cases h : key x.1 ≤ key y.1
    · simp only [h, if_true]
      refine List.pairwise_cons.2 ⟨?_, hl⟩
      intro z hz
      have hxz := hx z hz
      rcases List.mem_cons.1 hz with rfl | hz'
      · unfold stableLe; omega
      · have := hy.1 z hz'
        unfold stableLe at this ⊢; omega
    · simp only [h, if_false]
      refine List.pairwise_cons.2 ⟨?_, ih hy.2 (fun z hz => hx z (List.mem_cons_of_mem _ hz))⟩
      intro z hz
      have hz' := (insertBy_perm (fun (p : α × Nat) => key p.1) x t).mem_iff.1 hz
      rcases List.mem_cons.1 hz' with rfl | hz''
      · unfold stableLe; omega
      · exact hy.1 z hz''

theorem sortBy_stable {α} (key : α → Nat) (l : List (α × Nat)) (hl : l.Pairwise (fun p q => p.2 < q.2)) :
    (sortBy (fun (p : α × Nat) => key p.1) l).Pairwise (stableLe key) := by
  induction l with
  | nil => simp [sortBy]
  | cons x t ih =>
    have hx := List.pairwise_cons.1 hl
    unfold sortBy
    refine insertBy_stable key x _ (ih hx.2) ?_
    intro y hy
    exact hx.1 y ((sortBy_perm _ t).mem_iff.1 hy)

theorem zipIdx_pairwise_idx {α} (l : List α) (k : Nat) : (l.zipIdx k).Pairwise (fun p q => p.2 < q.2) := by
  induction l generalizing k with
  | nil => simp
  | cons x t ih =>
    rw [List.zipIdx_cons]
    refine List.pairwise_cons.2 ⟨?_, ih (k + 1)⟩
    intro p hp
    have := List.le_snd_of_mem_zipIdx hp
    show k < p.2
    omega

end Pept.Reorder
