import PeptVerif.Lemmas.Combinatoric
set_option linter.unusedSimpArgs false
namespace Pept

/-! Helper lemmas for C19: the four enumerations are the filtered lexicographic index tuples of the itertools documentation. -/

theorem flatMap_congr' {α β : Type} (l : List α) (f g : α → List β) (h : ∀ x ∈ l, f x = g x) :
    l.flatMap f = l.flatMap g := by
  induction l with
  | nil => rfl
  | cons x xs ih =>
    simp only [List.flatMap_cons]
    rw [h x (by simp), ih (fun y hy => h y (by simp [hy]))]

theorem filter_flatMap' {α β : Type} (l : List α) (f : α → List β) (p : β → Bool) :
    (l.flatMap f).filter p = l.flatMap (fun x => (f x).filter p) := by
  induction l with
  | nil => rfl
  | cons x xs ih => simp [List.flatMap_cons, List.filter_append, ih]

theorem flatMap_filter' {α β : Type} (l : List α) (p : α → Bool) (f : α → List β) :
    (l.filter p).flatMap f = l.flatMap (fun x => if p x then f x else []) := by
  induction l with
  | nil => rfl
  | cons x xs ih =>
    by_cases hp : p x <;> simp [List.filter_cons, hp, ih]

/-- list elements by position -/
theorem flatMap_eq_range {α β : Type} (l : List α) (F : α → List β) :
    l.flatMap F = (List.range l.length).flatMap (fun i => match l[i]? with | some x => F x | none => []) := by
  induction l with
  | nil => rfl
  | cons x xs ih =>
    rw [List.length_cons, List.range_succ_eq_map, List.flatMap_cons, List.flatMap_cons, List.flatMap_map, ih]
    simp

/-- the tuples whose entries all satisfy `p` are the tuples over the filtered list -/
theorem filter_all_prodK {α : Type} (p : α → Bool) (k : Nat) (l : List α) :
    (prodK k l).filter (fun t => t.all p) = prodK k (l.filter p) := by
  induction k with
  | zero => simp [prodK]
  | succ k ih =>
    simp only [prodK, filter_flatMap', flatMap_filter']
    apply flatMap_congr'
    intro x _
    by_cases hp : p x
    · simp only [hp, if_true, List.filter_map]
      rw [← ih]
      congr 1
      apply List.filter_congr
      intro t _
      simp [Function.comp_def, hp]
    · simp only [hp, Bool.false_eq_true, if_false, List.filter_map]
      have : ((prodK k l).filter ((fun t => t.all p) ∘ fun x_1 => x :: x_1)) = [] := by
        apply List.filter_eq_nil_iff.2
        intro t _
        simp [hp]
      rw [this]; rfl

theorem pick_cons_some {α : Type} (l : List α) (i : Nat) (t : List Nat) (x : α) (h : l[i]? = some x) :
    pick l (i :: t) = x :: pick l t := by
  simp [pick, List.filterMap_cons, h]

/-- `itertools.product`: the model is the lexicographic list of all index tuples, read through the list -/
theorem prodK_eq_spec {α : Type} (k : Nat) (l : List α) : prodK k l = specProd k l := by
  unfold specProd tuples
  induction k with
  | zero => simp [prodK, pick]
  | succ k ih =>
    simp only [prodK]
    rw [flatMap_eq_range, List.map_flatMap]
    apply flatMap_congr'
    intro i hi
    have hi' : i < l.length := List.mem_range.1 hi
    rw [List.getElem?_eq_getElem hi']
    simp only [List.map_map]
    rw [ih, List.map_map]
    apply List.map_congr_left
    intro t _
    simp [Function.comp_def, pick_cons_some l i t l[i] (List.getElem?_eq_getElem hi')]



/-- all entries at least one -/
def pos1 (t : List Nat) : Bool := t.all fun i => decide (1 ≤ i)

theorem range_succ_filter_pos (n : Nat) :
    (List.range (n + 1)).filter (fun i => decide (1 ≤ i)) = (List.range n).map Nat.succ := by
  rw [List.range_succ_eq_map, List.filter_cons]
  simp only [Nat.le_zero_eq, Nat.succ_ne_self, decide_false, Bool.false_eq_true, if_false]
  apply List.filter_eq_self.2
  intro i hi
  obtain ⟨j, _, rfl⟩ := List.mem_map.1 hi
  simp

/-- tuples over `0..n` without a zero are the shifted tuples over `0..n-1` -/
theorem tuples_filter_pos (k n : Nat) : (tuples k (n + 1)).filter pos1 = (tuples k n).map (List.map Nat.succ) := by
  unfold tuples pos1
  rw [filter_all_prodK, range_succ_filter_pos, prodK_map]

theorem pick_cons_map_succ {α : Type} (x : α) (xs : List α) (t : List Nat) : pick (x :: xs) (t.map Nat.succ) = pick xs t := by
  simp [pick, List.filterMap_map, Function.comp_def]

theorem pick_cons_zero {α : Type} (x : α) (xs : List α) (t : List Nat) : pick (x :: xs) (0 :: t) = x :: pick (x :: xs) t := by
  simp [pick]

/-- a decidable order on indices that is compatible with the shift and implies `≤` -/
structure ShiftRel (R : Nat → Nat → Prop) : Prop where
  le : ∀ a b, R a b → a ≤ b
  shift : ∀ a b, R (a + 1) (b + 1) ↔ R a b

theorem pairwise_map_succ {R : Nat → Nat → Prop} (hR : ShiftRel R) (t : List Nat) :
    (t.map Nat.succ).Pairwise R ↔ t.Pairwise R := by
  rw [List.pairwise_map]
  constructor <;> intro h <;> exact h.imp (fun {a b} hab => by first | exact (hR.shift a b).1 hab | exact (hR.shift a b).2 hab)

variable {R : Nat → Nat → Prop} [DecidableRel R]

/-- sortedness test used by the specification filters -/
def srt (R : Nat → Nat → Prop) [DecidableRel R] (t : List Nat) : Bool := decide (t.Pairwise R)

theorem filter_srt_map_succ (hR : ShiftRel R) (T : List (List Nat)) :
    (T.map (List.map Nat.succ)).filter (srt R) = (T.filter (srt R)).map (List.map Nat.succ) := by
  rw [List.filter_map]
  congr 1
  apply List.filter_congr
  intro t _
  simp only [Function.comp_def, srt]
  exact decide_eq_decide.2 (pairwise_map_succ hR t)

/-- the blocks of `tuples (k+1) (n+1)` whose first index is not zero -/
def restBlocks (k n : Nat) : List (List Nat) :=
  ((List.range n).map Nat.succ).flatMap fun i => (tuples k (n + 1)).map (i :: ·)

theorem tuples_succ_succ (k n : Nat) :
    tuples (k + 1) (n + 1) = (tuples k (n + 1)).map (0 :: ·) ++ restBlocks k n := by
  have e : tuples (k + 1) (n + 1) = (List.range (n + 1)).flatMap fun i => (tuples k (n + 1)).map (i :: ·) := rfl
  rw [e, restBlocks]
  conv => lhs; rw [List.range_succ_eq_map, List.flatMap_cons]

/-- sorted tuples that do not start with index 0 are the shifted sorted tuples over one index fewer -/
theorem restBlocks_filter (hR : ShiftRel R) (k n : Nat) :
    (restBlocks k n).filter (srt R) = ((tuples (k + 1) n).filter (srt R)).map (List.map Nat.succ) := by
  have h1 : (restBlocks k n).filter (srt R) = (restBlocks k n).filter (fun t => pos1 t && srt R t) := by
    apply List.filter_congr
    intro t ht
    simp only [restBlocks, List.mem_flatMap, List.mem_map] at ht
    obtain ⟨i, ⟨j, _, rfl⟩, t', _, rfl⟩ := ht
    cases hs : srt R (Nat.succ j :: t') with
    | false => simp
    | true =>
      simp only [Bool.and_true]
      simp only [srt, decide_eq_true_eq, List.pairwise_cons] at hs
      simp only [pos1, List.all_cons]
      symm
      rw [Bool.and_eq_true, List.all_eq_true]
      refine ⟨by simp, ?_⟩
      intro m hm
      have := hR.le _ _ (hs.1 m hm)
      simp; omega
  have h2 : ((tuples k (n + 1)).map (0 :: ·)).filter (fun t => pos1 t && srt R t) = [] := by
    apply List.filter_eq_nil_iff.2
    intro t ht
    obtain ⟨t', _, rfl⟩ := List.mem_map.1 ht
    simp [pos1]
  have h3 : (tuples (k + 1) (n + 1)).filter (fun t => pos1 t && srt R t) = (restBlocks k n).filter (fun t => pos1 t && srt R t) := by
    rw [tuples_succ_succ, List.filter_append, h2, List.nil_append]
  rw [h1, ← h3]
  have h4 : (tuples (k + 1) (n + 1)).filter (fun t => pos1 t && srt R t) = ((tuples (k + 1) (n + 1)).filter pos1).filter (srt R) := by
    rw [List.filter_filter]
    apply List.filter_congr
    intro t _
    exact Bool.and_comm _ _
  rw [h4, tuples_filter_pos, filter_srt_map_succ hR]



theorem shiftRel_lt : ShiftRel (fun a b : Nat => a < b) := ⟨fun _ _ h => Nat.le_of_lt h, fun _ _ => by constructor <;> intro h <;> omega⟩
theorem shiftRel_le : ShiftRel (fun a b : Nat => a ≤ b) := ⟨fun _ _ h => h, fun _ _ => by constructor <;> intro h <;> omega⟩

theorem tuples_zero (n : Nat) : tuples 0 n = [[]] := rfl
theorem tuples_succ_zero (k : Nat) : tuples (k + 1) 0 = [] := rfl

theorem filter_and_pos_srt {R : Nat → Nat → Prop} [DecidableRel R] (hR : ShiftRel R) (k n : Nat) :
    (tuples k (n + 1)).filter (fun t => pos1 t && srt R t) = ((tuples k n).filter (srt R)).map (List.map Nat.succ) := by
  have h4 : (tuples k (n + 1)).filter (fun t => pos1 t && srt R t) = ((tuples k (n + 1)).filter pos1).filter (srt R) := by
    rw [List.filter_filter]
    apply List.filter_congr
    intro t _
    exact Bool.and_comm _ _
  rw [h4, tuples_filter_pos, filter_srt_map_succ hR]

/-- strictly increasing tuples that start with index 0 -/
theorem block0_lt (k n : Nat) :
    ((tuples k (n + 1)).map (0 :: ·)).filter (srt (fun a b : Nat => a < b)) =
      (((tuples k n).filter (srt (fun a b : Nat => a < b))).map (List.map Nat.succ)).map (0 :: ·) := by
  rw [List.filter_map, ← filter_and_pos_srt shiftRel_lt]
  congr 1
  apply List.filter_congr
  intro t _
  simp only [Function.comp_def, srt, pos1, List.pairwise_cons]
  rw [Bool.decide_and]
  congr 1
  rw [Bool.eq_iff_iff]
  simp only [decide_eq_true_eq, List.all_eq_true]
  constructor <;> intro h a ha <;> have := h a ha <;> omega

/-- weakly increasing tuples that start with index 0 -/
theorem block0_le (k n : Nat) :
    ((tuples k (n + 1)).map (0 :: ·)).filter (srt (fun a b : Nat => a ≤ b)) =
      ((tuples k (n + 1)).filter (srt (fun a b : Nat => a ≤ b))).map (0 :: ·) := by
  rw [List.filter_map]
  congr 1
  apply List.filter_congr
  intro t _
  simp [Function.comp_def, srt, List.pairwise_cons]

/-- `itertools.combinations`: the model is the lexicographic list of strictly increasing index tuples -/
theorem combsK_eq_spec {α : Type} (k : Nat) (l : List α) : combsK k l = specCombs k l := by
  induction l generalizing k with
  | nil =>
    cases k with
    | zero => simp [combsK, specCombs, tuples_zero, pick]
    | succ k => simp [combsK, specCombs, tuples_succ_zero]
  | cons x xs ih =>
    cases k with
    | zero => simp [combsK, specCombs, tuples_zero, pick]
    | succ k =>
      simp only [combsK, ih]
      unfold specCombs
      rw [List.length_cons, tuples_succ_succ, List.filter_append, List.map_append]
      change _ = List.map (pick (x :: xs)) (List.filter (srt (fun a b : Nat => a < b)) _) ++
        List.map (pick (x :: xs)) (List.filter (srt (fun a b : Nat => a < b)) _)
      rw [block0_lt, restBlocks_filter shiftRel_lt]
      simp only [List.map_map]
      congr 1
      · apply List.map_congr_left
        intro t _
        simp [Function.comp_def, pick_cons_zero, pick_cons_map_succ]
      · apply List.map_congr_left
        intro t _
        simp [Function.comp_def, pick_cons_map_succ]



theorem cwr_step {α : Type} (x : α) (xs : List α) (k : Nat) :
    specCwr (k + 1) (x :: xs) = (specCwr k (x :: xs)).map (x :: ·) ++ specCwr (k + 1) xs := by
  unfold specCwr
  rw [List.length_cons, tuples_succ_succ, List.filter_append, List.map_append]
  change List.map (pick (x :: xs)) (List.filter (srt (fun a b : Nat => a ≤ b)) _) ++
    List.map (pick (x :: xs)) (List.filter (srt (fun a b : Nat => a ≤ b)) _) = _
  rw [block0_le, restBlocks_filter shiftRel_le]
  simp only [List.map_map]
  have e1 : ∀ T : List (List Nat), List.map (pick (x :: xs) ∘ fun t => 0 :: t) T = List.map ((fun t => x :: t) ∘ pick (x :: xs)) T := by
    intro T
    apply List.map_congr_left
    intro t _
    simp [Function.comp_def, pick_cons_zero]
  have e2 : ∀ T : List (List Nat), List.map (pick (x :: xs) ∘ List.map Nat.succ) T = List.map (pick xs) T := by
    intro T
    apply List.map_congr_left
    intro t _
    simp [Function.comp_def, pick_cons_map_succ]
  rw [e1, e2]
  rfl

/-- `itertools.combinations_with_replacement`: the lexicographic list of weakly increasing index tuples -/
theorem cwrK_eq_spec {α : Type} (k : Nat) (l : List α) : cwrK k l = specCwr k l := by
  unfold cwrK
  induction l generalizing k with
  | nil =>
    cases k with
    | zero => simp [cwrL, specCwr, tuples_zero, pick]
    | succ k => simp [cwrL, specCwr, tuples_succ_zero]
  | cons x xs ih =>
    simp only [cwrL]
    induction k with
    | zero => simp [cwrAux, specCwr, tuples_zero, pick]
    | succ k ihk =>
      simp only [cwrAux]
      rw [ihk, ih, cwr_step]



/-- index `j` of a list with position `i` removed, as an index of the full list -/
def skip (i j : Nat) : Nat := if j < i then j else j + 1

theorem skip_injective (i : Nat) : ∀ a b, skip i a = skip i b → a = b := by
  intro a b h
  unfold skip at h
  split at h <;> split at h <;> omega

theorem skip_ne (i j : Nat) : skip i j ≠ i := by
  unfold skip; split <;> omega

theorem flatMap_picks {α β : Type} (l : List α) (G : α × List α → List β) :
    (picks l).flatMap G =
      (List.range l.length).flatMap (fun i => match l[i]? with | some x => G (x, l.eraseIdx i) | none => []) := by
  induction l generalizing G with
  | nil => rfl
  | cons x xs ih =>
    rw [List.length_cons, List.range_succ_eq_map, List.flatMap_cons, List.flatMap_map]
    simp only [picks, List.flatMap_cons, List.flatMap_map]
    rw [ih]
    simp

theorem range_filter_ne (n i : Nat) (h : i < n + 1) :
    (List.range (n + 1)).filter (fun j => decide (j ≠ i)) = (List.range n).map (skip i) := by
  induction n generalizing i with
  | zero =>
    have : i = 0 := by omega
    subst this
    simp [List.range_succ_eq_map]
  | succ m ih =>
    rw [List.range_succ_eq_map]
    cases i with
    | zero =>
      rw [List.filter_cons]
      simp only [ne_eq, not_true_eq_false, decide_false, Bool.false_eq_true, if_false]
      have e : (fun j => skip 0 j) = Nat.succ := by funext j; simp [skip]
      rw [show List.map (skip 0) (List.range (m + 1)) = List.map Nat.succ (List.range (m + 1)) from by rw [← e]]
      apply List.filter_eq_self.2
      intro j hj
      obtain ⟨j', _, rfl⟩ := List.mem_map.1 hj
      simp
    | succ i' =>
      have hi' : i' < m + 1 := by omega
      rw [List.filter_cons]
      simp only [ne_eq, Nat.zero_ne_add_one, not_false_eq_true, decide_true, if_true]
      rw [List.filter_map]
      have e : ((fun j => decide (j ≠ i' + 1)) ∘ Nat.succ) = (fun j => decide (j ≠ i')) := by
        funext j; simp
      rw [e, ih i' hi']
      conv => rhs; rw [List.range_succ_eq_map]
      simp only [List.map_cons, List.map_map]
      congr 1
      · simp [skip]
        intro a _
        split <;> rfl

def nd (t : List Nat) : Bool := decide t.Nodup

theorem nd_cons (i : Nat) (t : List Nat) : nd (i :: t) = (t.all (fun j => decide (j ≠ i)) && nd t) := by
  unfold nd
  rw [Bool.eq_iff_iff]
  simp only [decide_eq_true_eq, List.nodup_cons, Bool.and_eq_true, List.all_eq_true]
  constructor
  · rintro ⟨h1, h2⟩
    exact ⟨fun j hj e => h1 (e ▸ hj), h2⟩
  · rintro ⟨h1, h2⟩
    exact ⟨fun hi => h1 i hi rfl, h2⟩

theorem nd_map_skip (i : Nat) (t : List Nat) : nd (t.map (skip i)) = nd t := by
  unfold nd
  rw [Bool.eq_iff_iff]
  rw [decide_eq_true_eq, decide_eq_true_eq]
  show List.Pairwise (· ≠ ·) (t.map (skip i)) ↔ List.Pairwise (· ≠ ·) t
  rw [List.pairwise_map]
  constructor <;> intro h <;> refine h.imp ?_
  · intro a b hab e; exact hab (by rw [e])
  · intro a b hab e; exact hab (skip_injective i a b e)

theorem pick_map_skip {α : Type} (l : List α) (i : Nat) (t : List Nat) :
    pick l (t.map (skip i)) = pick (l.eraseIdx i) t := by
  simp only [pick, List.filterMap_map]
  congr 1
  funext j
  simp only [Function.comp_def, skip, List.getElem?_eraseIdx]
  split <;> rfl

/-- the distinct tuples over `0..n` that avoid `i`, given by the distinct tuples over `0..n-1` -/
theorem tuples_filter_avoid (k n i : Nat) (h : i < n + 1) :
    (tuples k (n + 1)).filter (fun t => nd (i :: t)) = ((tuples k n).filter nd).map (List.map (skip i)) := by
  have h1 : (tuples k (n + 1)).filter (fun t => nd (i :: t)) =
      ((tuples k (n + 1)).filter (fun t => t.all (fun j => decide (j ≠ i)))).filter nd := by
    rw [List.filter_filter]
    apply List.filter_congr
    intro t _
    rw [nd_cons, Bool.and_comm]
  rw [h1]
  unfold tuples
  rw [filter_all_prodK, range_filter_ne n i h, prodK_map, List.filter_map]
  congr 1
  apply List.filter_congr
  intro t _
  exact nd_map_skip i t



theorem specPerms_nd {α : Type} (k : Nat) (l : List α) :
    specPerms k l = ((tuples k l.length).filter nd).map (pick l) := rfl

/-- `itertools.permutations`: the lexicographic list of index tuples without a repeated index -/
theorem permsK_eq_spec {α : Type} (k : Nat) (l : List α) : permsK k l = specPerms k l := by
  induction k generalizing l with
  | zero => simp [permsK, specPerms, tuples_zero, pick]
  | succ k ih =>
    simp only [permsK]
    rw [flatMap_picks, specPerms_nd]
    have e : tuples (k + 1) l.length = (List.range l.length).flatMap fun i => (tuples k l.length).map (i :: ·) := rfl
    rw [e, filter_flatMap', List.map_flatMap]
    apply flatMap_congr'
    intro i hi
    have hi' : i < l.length := List.mem_range.1 hi
    rw [List.getElem?_eq_getElem hi']
    simp only
    rw [ih, specPerms_nd, List.filter_map]
    obtain ⟨n, hn⟩ : ∃ n, l.length = n + 1 := ⟨l.length - 1, by omega⟩
    have hlen : (l.eraseIdx i).length = n := by rw [List.length_eraseIdx_of_lt hi']; omega
    have hf : ((tuples k l.length).filter (nd ∘ fun t => i :: t)) = ((tuples k n).filter nd).map (List.map (skip i)) := by
      rw [hn]
      exact tuples_filter_avoid k n i (by omega)
    rw [hf, hlen]
    simp only [List.map_map]
    apply List.map_congr_left
    intro t _
    simp only [Function.comp_def]
    rw [pick_cons_some l i _ l[i] (List.getElem?_eq_getElem hi'), pick_map_skip]

end Pept
