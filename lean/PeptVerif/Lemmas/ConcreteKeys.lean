import PeptVerif.Lemmas.Mass
import PeptVerif.Lemmas.AbsMass
import PeptVerif.Model.ConcreteEnv
/-! Unpacking a packed key and packing it again gives the key back (keys of at most 8 bytes), hence a composition of the
concrete model (`Nat` keys) and its decoded form (text keys) have the same mass. -/
namespace Pept
namespace Concrete
open Chem AbsMass

theorem toNat_ofNat_byte (n : ℕ) (h : n < 256) : (Char.ofNat n).toNat = n := by
  have : n.isValidChar := by left; omega
  simp [Char.ofNat, this, Char.ofNatAux, Char.toNat]

theorem keyOfChars_foldl (l : List Char) (a : ℕ) :
    l.foldl (fun a c => a * 256 + c.toNat) a = a * 256 ^ l.length + keyOfChars l := by
  unfold keyOfChars
  induction l generalizing a with
  | nil => simp
  | cons c l ih =>
    simp only [List.foldl_cons, List.length_cons]
    rw [ih (a * 256 + c.toNat), ih (0 * 256 + c.toNat)]
    ring

theorem keyOfChars_cons (c : Char) (l : List Char) : keyOfChars (c :: l) = c.toNat * 256 ^ l.length + keyOfChars l := by
  have := keyOfChars_foldl l (0 * 256 + c.toNat)
  unfold keyOfChars at this ⊢
  simp only [List.foldl_cons]
  rw [this]; ring

theorem keyOfChars_decodeAux (f k : ℕ) (acc : List Char) (h : k < 256 ^ f) :
    keyOfChars (decodeAux f k acc) = k * 256 ^ acc.length + keyOfChars acc := by
  induction f generalizing k acc with
  | zero =>
    have : k = 0 := by simpa using h
    subst this; simp [decodeAux]
  | succ f ih =>
    simp only [decodeAux]
    by_cases hk : k = 0
    · subst hk; simp
    · simp only [hk, if_false]
      have hlt : k / 256 < 256 ^ f := by
        rw [Nat.div_lt_iff_lt_mul (by norm_num)]
        rw [pow_succ] at h; exact h
      rw [ih (k / 256) _ hlt, keyOfChars_cons, toNat_ofNat_byte _ (Nat.mod_lt _ (by norm_num))]
      simp only [List.length_cons, pow_succ]
      have hdm := Nat.div_add_mod k 256
      generalize 256 ^ acc.length = P at *
      generalize k / 256 = q at *
      generalize k % 256 = r at *
      subst hdm
      ring

/-- packing the unpacked key gives the key back -/
theorem keyOfChars_decodeKey (k : ℕ) (h : k < 256 ^ 8) : keyOfChars (decodeKey k) = k := by
  unfold decodeKey
  rw [keyOfChars_decodeAux 8 k [] h]
  simp [keyOfChars]

/-- all keys fit in 8 bytes (every element symbol / isotope key does) -/
def SmallKeys (c : Chem.Comp) : Prop := ∀ p ∈ c, p.1 < 256 ^ 8

/-- a composition of the concrete model and its decoded form weigh the same -/
theorem chemMass_decodeComp (mono : Bool) (c : Chem.Comp) (h : SmallKeys c) :
    AbsMass.chemMass (emOf mono) (decodeComp c) = chemMassL (fun e => (elemMass mono e).getD 0) c := by
  induction c with
  | nil => rfl
  | cons p c ih =>
    obtain ⟨k, v⟩ := p
    have hk : k < 256 ^ 8 := h (k, v) (by simp)
    have ih' := ih (fun q hq => h q (by simp [hq]))
    unfold decodeComp at ih' ⊢
    simp only [List.map_cons, AbsMass.chemMass, ih', chemMassL_cons, emOf, keyOfChars_decodeKey k hk]
    ring

end Concrete
end Pept
