import PeptVerif.Lemmas.SpansEnz
/-! C06 helper lemmas: the grouped semi-span builders applied to the enzymatic span list. Core Lean only. -/
namespace Spans

/-- sort, group by key, run the group loop on every group: generic membership characterisation -/
theorem mem_grouped {build : Span → Option Int → Option Int → List Span} {Sh : Span → Span → Prop}
    (hb : BuildSpec build Sh) (key : Span → Int) (le : Span → Span → Bool)
    (htot : ∀ a b, le a b = false → le b a = true)
    (htr : ∀ a b c, le a b = true → le b c = true → le a c = true)
    (hkey : ∀ a b, le a b = true → key a ≤ key b)
    (E : List Span) (hnd : E.Nodup)
    (hdesc : ∀ a ∈ E, ∀ b ∈ E, a ≠ b → key a = key b → le a b = true → spanLen b < spanLen a)
    (sb : Bool) (lo : Int) (hi : Option Int) (x : Span) :
    x ∈ (groupByKey key (sortBy le E)).flatMap (groupLoop build sb lo hi) ↔
      ∃ p ∈ E, Sh p x ∧ lo ≤ spanLen x ∧ optLe (spanLen x) hi ∧ 0 ≤ spanLen x ∧ spanLen x < spanLen p ∧
        ∀ q ∈ E, key q = key p → spanLen q < spanLen p → spanLen q < spanLen x := by
  have hsorted := pairwise_sortBy le htot htr E
  have hks : (sortBy le E).Pairwise (fun a b => key a ≤ key b) := hsorted.imp (fun h => hkey _ _ h)
  have hndS : (sortBy le E).Nodup := (perm_sortBy le E).nodup_iff.mpr hnd
  have hGdesc : ∀ G ∈ groupByKey key (sortBy le E), G.Pairwise (fun a b => spanLen b < spanLen a) := by
    intro G hG
    have hsub := groupByKey_sublist key _ G hG
    have h1 : G.Pairwise (fun a b => le a b = true) := hsorted.sublist hsub
    have h2 : G.Pairwise (fun a b => a ≠ b) := List.Nodup.sublist hsub hndS
    refine (h1.and h2).imp_of_mem ?_
    intro a b ha hb hab
    exact hdesc a ((mem_sortBy le a E).mp (hsub.subset ha)) b ((mem_sortBy le b E).mp (hsub.subset hb)) hab.2
      (groupByKey_const key _ G hG a ha b hb) hab.1
  rw [List.mem_flatMap]
  constructor
  · rintro ⟨G, hG, hx⟩
    rw [mem_groupLoop hb sb lo hi G (hGdesc G hG)] at hx
    obtain ⟨p, hp, h1, h2, h3, h4, h5, h6⟩ := hx
    have hsub := groupByKey_sublist key _ G hG
    refine ⟨p, (mem_sortBy le p E).mp (hsub.subset hp), h1, h2, h3, h4, h5, ?_⟩
    intro q hq hk
    exact h6 q (groupByKey_complete key _ hks G hG p hp q ((mem_sortBy le q E).mpr hq) hk)
  · rintro ⟨p, hp, h1, h2, h3, h4, h5, h6⟩
    obtain ⟨G, hG, hpG⟩ := (groupByKey_mem key (sortBy le E) p).mpr ((mem_sortBy le p E).mpr hp)
    refine ⟨G, hG, ?_⟩
    rw [mem_groupLoop hb sb lo hi G (hGdesc G hG)]
    have hsub := groupByKey_sublist key _ G hG
    refine ⟨p, hpG, h1, h2, h3, h4, h5, ?_⟩
    intro q hq
    exact h6 q ((mem_sortBy le q E).mp (hsub.subset hq)) (groupByKey_const key _ G hG q hq p hpG)

def leLeft (a b : Span) : Bool := a.1 < b.1 || (a.1 == b.1 && -a.2.2 ≤ -b.2.2)
def leRight (a b : Span) : Bool := a.2.1 < b.2.1 || (a.2.1 == b.2.1 && -a.2.2 ≤ -b.2.2)

theorem groupedLeft_eq (spans : List Span) (lo hi : Option Int) :
    groupedLeft spans lo hi =
      (groupByKey (fun s : Span => s.1) (sortBy leLeft spans)).flatMap (groupLoop buildLeftSemi false (lo.getD 1) hi) := rfl

theorem groupedRight_eq (spans : List Span) (lo hi : Option Int) :
    groupedRight spans lo hi =
      (groupByKey (fun s : Span => s.2.1) (sortBy leRight spans)).flatMap (groupLoop buildRightSemi true (lo.getD 1) hi) := rfl

theorem leLeft_tot (a b : Span) : leLeft a b = false → leLeft b a = true := by
  simp only [leLeft, Bool.or_eq_false_iff, Bool.and_eq_false_iff, Bool.or_eq_true, Bool.and_eq_true,
    decide_eq_true_eq, decide_eq_false_iff_not, beq_iff_eq, beq_eq_false_iff_ne]
  omega

theorem leLeft_tr (a b c : Span) : leLeft a b = true → leLeft b c = true → leLeft a c = true := by
  simp only [leLeft, Bool.or_eq_true, Bool.and_eq_true, decide_eq_true_eq, beq_iff_eq]
  omega

theorem leLeft_key (a b : Span) : leLeft a b = true → a.1 ≤ b.1 := by
  simp only [leLeft, Bool.or_eq_true, Bool.and_eq_true, decide_eq_true_eq, beq_iff_eq]
  omega

theorem leRight_tot (a b : Span) : leRight a b = false → leRight b a = true := by
  simp only [leRight, Bool.or_eq_false_iff, Bool.and_eq_false_iff, Bool.or_eq_true, Bool.and_eq_true,
    decide_eq_true_eq, decide_eq_false_iff_not, beq_iff_eq, beq_eq_false_iff_ne]
  omega

theorem leRight_tr (a b c : Span) : leRight a b = true → leRight b c = true → leRight a c = true := by
  simp only [leRight, Bool.or_eq_true, Bool.and_eq_true, decide_eq_true_eq, beq_iff_eq]
  omega

theorem leRight_key (a b : Span) : leRight a b = true → a.2.1 ≤ b.2.1 := by
  simp only [leRight, Bool.or_eq_true, Bool.and_eq_true, decide_eq_true_eq, beq_iff_eq]
  omega

theorem enz_desc_left (mc : Nat) (lo hiE : Int) (L : List Int) (hL : SSorted L) :
    ∀ a ∈ enzGo mc lo hiE L, ∀ b ∈ enzGo mc lo hiE L, a ≠ b → a.1 = b.1 → leLeft a b = true →
      spanLen b < spanLen a := by
  rintro ⟨s, e, v⟩ ha ⟨s', e', v'⟩ hb hne hk hle
  rw [mem_enzGo _ _ _ _ hL] at ha hb
  simp only at hk; subst hk
  simp only [leLeft, Bool.or_eq_true, Bool.and_eq_true, decide_eq_true_eq, beq_iff_eq] at hle
  simp only [spanLen]
  obtain ⟨_, he, hse, hv, _⟩ := ha
  obtain ⟨_, he', hse', hv', _⟩ := hb
  rcases Int.lt_trichotomy e' e with h | h | h
  · omega
  · subst h; exfalso; apply hne; simp [hv, hv']
  · have := inside_lt_right L s e e' he hse h; omega

theorem enz_desc_right (mc : Nat) (lo hiE : Int) (L : List Int) (hL : SSorted L) :
    ∀ a ∈ enzGo mc lo hiE L, ∀ b ∈ enzGo mc lo hiE L, a ≠ b → a.2.1 = b.2.1 → leRight a b = true →
      spanLen b < spanLen a := by
  rintro ⟨s, e, v⟩ ha ⟨s', e', v'⟩ hb hne hk hle
  rw [mem_enzGo _ _ _ _ hL] at ha hb
  simp only at hk; subst hk
  simp only [leRight, Bool.or_eq_true, Bool.and_eq_true, decide_eq_true_eq, beq_iff_eq] at hle
  simp only [spanLen]
  obtain ⟨hs, _, hse, hv, _⟩ := ha
  obtain ⟨hs', _, hse', hv', _⟩ := hb
  rcases Int.lt_trichotomy s s' with h | h | h
  · omega
  · subst h; exfalso; apply hne; simp [hv, hv']
  · have := inside_lt_left L s' s e hs h hse; omega

/-- left semi spans produced from the enzymatic list: start is a cleavage point, end is not, some
cleavage point at or after the end is reachable with at most `mc` missed cleavages -/
theorem groupedLeft_enz_sound (mc : Nat) (lo hiE hi : Int) (L : List Int) (hL : SSorted L) (hlo : 1 ≤ lo)
    (s e v : Int) (h : (s, e, v) ∈ groupedLeft (enzGo mc lo hiE L) (some lo) (some hi)) :
      lo ≤ e - s ∧ e - s ≤ hi ∧ s ∈ L ∧ e ∉ L ∧ v = (inside L s e : Int) ∧
        ∃ e' ∈ L, e ≤ e' ∧ inside L s e' ≤ mc := by
  revert h
  rw [groupedLeft_eq, mem_grouped buildSpec_left _ _ leLeft_tot leLeft_tr leLeft_key _
    (nodup_enzGo mc lo hiE L hL) (enz_desc_left mc lo hiE L hL)]
  simp only [Option.getD_some, optLe, ShL, spanLen]
  rintro ⟨⟨ps, pe, pv⟩, hp, ⟨h1, h1'⟩, h2, h3, h4, h5, h6⟩
  simp only at h1 h1' h5 h6; subst h1 h1'
  rw [mem_enzGo _ _ _ _ hL] at hp
  obtain ⟨hs, hpe, hspe, hpv, hmc, hplo, hphi⟩ := hp
  have key : ∀ y ∈ L, ¬ (e ≤ y ∧ y < pe) := by
    rintro y hy ⟨hy1, hy2⟩
    have hq : (s, y, (inside L s y : Int)) ∈ enzGo mc lo hiE L := by
      rw [mem_enzGo _ _ _ _ hL]
      have := inside_mono L s s y pe (by omega) (by omega)
      exact ⟨hs, hy, by omega, rfl, by omega, by omega, by omega⟩
    have := h6 _ hq rfl (by simp only; omega)
    simp only at this; omega
  refine ⟨h2, h3, hs, ?_, ?_, pe, hpe, by omega, hmc⟩
  · intro he; exact key e he ⟨by omega, by omega⟩
  · rw [hpv]; congr 1
    apply inside_congr
    intro y hy
    have := key y hy
    constructor <;> intro h <;> omega

theorem mem_groupedLeft_enz (mc : Nat) (lo hiE hi : Int) (L : List Int) (hL : SSorted L) (hlo : 1 ≤ lo)
    (hhi : ∀ a ∈ L, ∀ b ∈ L, b - a ≤ hiE) (s e v : Int) :
    (s, e, v) ∈ groupedLeft (enzGo mc lo hiE L) (some lo) (some hi) ↔
      lo ≤ e - s ∧ e - s ≤ hi ∧ s ∈ L ∧ e ∉ L ∧ v = (inside L s e : Int) ∧
        ∃ e' ∈ L, e ≤ e' ∧ inside L s e' ≤ mc := by
  refine ⟨groupedLeft_enz_sound mc lo hiE hi L hL hlo s e v, ?_⟩
  rw [groupedLeft_eq, mem_grouped buildSpec_left _ _ leLeft_tot leLeft_tr leLeft_key _
    (nodup_enzGo mc lo hiE L hL) (enz_desc_left mc lo hiE L hL)]
  simp only [Option.getD_some, optLe, ShL, spanLen]
  rintro ⟨h2, h3, hs, he, hv, e', he', hee', hmc⟩
  obtain ⟨m, hm, hem, hmin⟩ := exists_least_ge L e ⟨e', he', hee'⟩
  have hne : m ≠ e := by rintro rfl; exact he hm
  have hmc' : inside L s m ≤ mc := by
    have := inside_mono L s s m e' (by omega) (hmin e' he' hee'); omega
  refine ⟨(s, m, (inside L s m : Int)), ?_, ⟨rfl, ?_⟩, h2, h3, by omega, by simp only; omega, ?_⟩
  · rw [mem_enzGo _ _ _ _ hL]
    exact ⟨hs, hm, by omega, rfl, hmc', by omega, hhi s hs m hm⟩
  · simp only; rw [hv]; congr 1
    apply inside_congr
    intro y hy
    constructor
    · intro h; omega
    · intro h
      refine ⟨h.1, ?_⟩
      by_cases hye : e ≤ y
      · have := hmin y hy hye; omega
      · omega
  · rintro ⟨qs, qe, qv⟩ hq hk hlt
    simp only at hk hlt ⊢; subst hk
    rw [mem_enzGo _ _ _ _ hL] at hq
    by_cases hye : e ≤ qe
    · have := hmin qe hq.2.1 hye; omega
    · omega

/-- right semi spans produced from the enzymatic list -/
theorem groupedRight_enz_sound (mc : Nat) (lo hiE hi : Int) (L : List Int) (hL : SSorted L) (hlo : 1 ≤ lo)
    (s e v : Int) (h : (s, e, v) ∈ groupedRight (enzGo mc lo hiE L) (some lo) (some hi)) :
      lo ≤ e - s ∧ e - s ≤ hi ∧ e ∈ L ∧ s ∉ L ∧ v = (inside L s e : Int) ∧
        ∃ s' ∈ L, s' ≤ s ∧ inside L s' e ≤ mc := by
  revert h
  rw [groupedRight_eq, mem_grouped buildSpec_right _ _ leRight_tot leRight_tr leRight_key _
    (nodup_enzGo mc lo hiE L hL) (enz_desc_right mc lo hiE L hL)]
  simp only [Option.getD_some, optLe, ShR, spanLen]
  rintro ⟨⟨ps, pe, pv⟩, hp, ⟨h1, h1'⟩, h2, h3, h4, h5, h6⟩
  simp only at h1 h1' h5 h6; subst h1 h1'
  rw [mem_enzGo _ _ _ _ hL] at hp
  obtain ⟨hps, he, hspe, hpv, hmc, hplo, hphi⟩ := hp
  have key : ∀ y ∈ L, ¬ (ps < y ∧ y ≤ s) := by
    rintro y hy ⟨hy1, hy2⟩
    have hq : (y, e, (inside L y e : Int)) ∈ enzGo mc lo hiE L := by
      rw [mem_enzGo _ _ _ _ hL]
      have := inside_mono L y ps e e (by omega) (by omega)
      exact ⟨hy, he, by omega, rfl, by omega, by omega, by omega⟩
    have := h6 _ hq rfl (by simp only; omega)
    simp only at this; omega
  refine ⟨h2, h3, he, ?_, ?_, ps, hps, by omega, hmc⟩
  · intro hs; exact key s hs ⟨by omega, by omega⟩
  · rw [hpv]; congr 1
    apply inside_congr
    intro y hy
    have := key y hy
    constructor <;> intro h <;> omega

theorem mem_groupedRight_enz (mc : Nat) (lo hiE hi : Int) (L : List Int) (hL : SSorted L) (hlo : 1 ≤ lo)
    (hhi : ∀ a ∈ L, ∀ b ∈ L, b - a ≤ hiE) (s e v : Int) :
    (s, e, v) ∈ groupedRight (enzGo mc lo hiE L) (some lo) (some hi) ↔
      lo ≤ e - s ∧ e - s ≤ hi ∧ e ∈ L ∧ s ∉ L ∧ v = (inside L s e : Int) ∧
        ∃ s' ∈ L, s' ≤ s ∧ inside L s' e ≤ mc := by
  refine ⟨groupedRight_enz_sound mc lo hiE hi L hL hlo s e v, ?_⟩
  rw [groupedRight_eq, mem_grouped buildSpec_right _ _ leRight_tot leRight_tr leRight_key _
    (nodup_enzGo mc lo hiE L hL) (enz_desc_right mc lo hiE L hL)]
  simp only [Option.getD_some, optLe, ShR, spanLen]
  rintro ⟨h2, h3, he, hs, hv, s', hs', hss', hmc⟩
  obtain ⟨m, hm, hem, hmax⟩ := exists_greatest_le L s ⟨s', hs', hss'⟩
  have hne : m ≠ s := by rintro rfl; exact hs hm
  have hmc' : inside L m e ≤ mc := by
    have := inside_mono L m s' e e (hmax s' hs' hss') (by omega); omega
  refine ⟨(m, e, (inside L m e : Int)), ?_, ⟨rfl, ?_⟩, h2, h3, by omega, by simp only; omega, ?_⟩
  · rw [mem_enzGo _ _ _ _ hL]
    exact ⟨hm, he, by omega, rfl, hmc', by omega, hhi m hm e he⟩
  · simp only; rw [hv]; congr 1
    apply inside_congr
    intro y hy
    constructor
    · intro h; omega
    · intro h
      refine ⟨?_, h.2⟩
      by_cases hye : y ≤ s
      · have := hmax y hy hye; omega
      · omega
  · rintro ⟨qs, qe, qv⟩ hq hk hlt
    simp only at hk hlt ⊢; subst hk
    rw [mem_enzGo _ _ _ _ hL] at hq
    by_cases hye : qs ≤ s
    · have := hmax qs hq.1 hye; omega
    · omega

end Spans
