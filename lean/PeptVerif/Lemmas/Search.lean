import PeptVerif.Model.Search
import PeptVerif.Lemmas.AnnotCanon
import Mathlib.Algebra.Order.Ring.Unbundled.Rat
import Mathlib.Algebra.Order.Field.Rat
import Mathlib.Algebra.Order.Field.Basic
import Mathlib.Data.Multiset.Count
import Mathlib.Data.Nat.Cast.Order.Ring
import Mathlib.Tactic.Linarith
/-! Helper lemmas for C16 (occurrence scan, slices, coverage marks). -/
namespace Pept
namespace Search

theorem isPrefixOf_iff_take (q l : List Char) : q.isPrefixOf l = true ↔ l.take q.length = q := by
  rw [List.isPrefixOf_iff_prefix, List.prefix_iff_eq_take]
  exact eq_comm

theorem mem_occFrom (q : List Char) (t : List Char) (i k : Nat) :
    k ∈ occFrom q i t ↔ i ≤ k ∧ (k - i) + q.length ≤ t.length ∧ (t.drop (k - i)).take q.length = q := by
  induction t generalizing i with
  | nil =>
    simp only [occFrom]
    cases q with
    | nil => simp; omega
    | cons c q => simp
  | cons c t ih =>
    have hpre : q.isPrefixOf (c :: t) = true ↔ (c :: t).take q.length = q := isPrefixOf_iff_take q (c :: t)
    have hmem : k ∈ occFrom q i (c :: t) ↔ (k = i ∧ q.isPrefixOf (c :: t) = true) ∨ k ∈ occFrom q (i+1) t := by
      simp only [occFrom]
      split
      · rename_i h; simp [h]
      · rename_i h; simp [h]
    rw [hmem, ih (i+1), hpre]
    constructor
    · rintro (⟨rfl, h⟩ | ⟨h1, h2, h3⟩)
      · refine ⟨Nat.le_refl _, ?_, by simpa using h⟩
        have := congrArg List.length h
        simp only [List.length_take, List.length_cons] at this
        simp only [Nat.sub_self, List.length_cons]
        omega
      · refine ⟨by omega, by simp only [List.length_cons]; omega, ?_⟩
        have : k - i = (k - (i+1)) + 1 := by omega
        rw [this, List.drop_succ_cons]; exact h3
    · rintro ⟨h1, h2, h3⟩
      by_cases hk : k = i
      · left; subst hk; exact ⟨rfl, by simpa using h3⟩
      · right
        have : k - i = (k - (i+1)) + 1 := by omega
        rw [this, List.drop_succ_cons] at h3
        simp only [List.length_cons] at h2
        exact ⟨by omega, by omega, h3⟩

theorem occFrom_lb (q t : List Char) (i : Nat) : ∀ k ∈ occFrom q i t, i ≤ k := by
  intro k hk; exact ((mem_occFrom q t i k).mp hk).1

theorem occFrom_sorted (q t : List Char) (i : Nat) : (occFrom q i t).Pairwise (· < ·) := by
  induction t generalizing i with
  | nil => simp only [occFrom]; split <;> simp
  | cons c t ih =>
    simp only [occFrom]
    split
    · rw [List.pairwise_cons]
      refine ⟨?_, ih (i+1)⟩
      intro k hk
      have := occFrom_lb q t (i+1) k hk
      omega
    · exact ih (i+1)

theorem mem_occurrences (q t : List Char) (k : Nat) :
    k ∈ occurrences q t ↔ k + q.length ≤ t.length ∧ (t.drop k).take q.length = q := by
  unfold occurrences
  rw [mem_occFrom]
  simp

/-- the one place where `q` occurs in a text equal to `q` is offset 0 -/
theorem occurrences_self (q : List Char) : ∀ k, k ∈ occurrences q q ↔ k = 0 := by
  intro k
  rw [mem_occurrences]
  constructor
  · intro h; omega
  · rintro rfl; simp

theorem isSubsequenceM_of_seq_eq (self other : Annotation) (h : other.seq = self.seq) :
    isSubsequenceM self other = annEq (sliceAt other 0 self.seq.length) self := by
  unfold isSubsequenceM
  simp only [h]
  have h0 : 0 ∈ occurrences self.seq self.seq := (occurrences_self _ 0).mpr rfl
  have hne : (occurrences self.seq self.seq).isEmpty = false := by
    cases hl : occurrences self.seq self.seq with
    | nil => rw [hl] at h0; simp at h0
    | cons a l => rfl
  simp only [hne, Bool.false_eq_true, if_false]
  rw [Bool.eq_iff_iff, List.any_eq_true]
  constructor
  · rintro ⟨k, hk, hkk⟩
    rw [(occurrences_self _ k).mp hk] at hkk
    exact hkk
  · intro hh; exact ⟨0, h0, hh⟩

theorem sliceAt_seq (t : Annotation) (i L : Nat) (h : i + L ≤ t.seq.length) :
    (sliceAt t i L).seq = (t.seq.drop i).take L := by
  unfold sliceAt Reorder.slice
  have e : Reorder.pySlice t.seq (i : Int) ((i : Int) + (L : Int)) = (t.seq.drop i).take L := by
    unfold Reorder.pySlice Reorder.pyIndex
    have h1 : ¬ ((i : Int) < 0) := by omega
    have h2 : ¬ ((i : Int) + (L : Int) < 0) := by omega
    simp only [h1, h2, if_false]
    have e1 : min (i : Int).toNat t.seq.length = i := by simp; omega
    have e2 : min ((i : Int) + (L : Int)).toNat t.seq.length = i + L := by
      have : ((i : Int) + (L : Int)).toNat = i + L := by omega
      rw [this]; omega
    rw [e1, e2]
    congr 1
    omega
  simp only
  split <;> simp [Reorder.plain, e]


theorem mem_findIndices (q t : Annotation) (i : Nat) :
    i ∈ findIndices q t ↔
      i + q.seq.length ≤ t.seq.length ∧ (t.seq.drop i).take q.seq.length = q.seq ∧
      annEq (sliceAt (sliceAt t i q.seq.length) 0 q.seq.length) q = true := by
  unfold findIndices
  rw [List.mem_filter, mem_occurrences]
  constructor
  · rintro ⟨⟨h1, h2⟩, h3⟩
    refine ⟨h1, h2, ?_⟩
    rw [isSubsequenceM_of_seq_eq q _ (by rw [sliceAt_seq t i _ h1, h2])] at h3
    exact h3
  · rintro ⟨h1, h2, h3⟩
    refine ⟨⟨h1, h2⟩, ?_⟩
    rw [isSubsequenceM_of_seq_eq q _ (by rw [sliceAt_seq t i _ h1, h2])]
    exact h3

theorem findIndices_sorted (q t : Annotation) : (findIndices q t).Pairwise (· < ·) := by
  unfold findIndices occurrences
  exact (occFrom_sorted _ _ _).filter _

theorem annEq_plain (s : List Char) : annEq (Reorder.plain s) (Reorder.plain s) = true := by
  simp [annEq, internalOk, Reorder.plain, areModsEqual, areIntervalsEqual]

theorem sliceAt_plain (s : List Char) (i L : Nat) (h : i + L ≤ s.length) :
    sliceAt (Reorder.plain s) i L = Reorder.plain ((s.drop i).take L) := by
  have hs := sliceAt_seq (Reorder.plain s) i L (by simpa [Reorder.plain] using h)
  unfold sliceAt Reorder.slice at *
  simp only [Reorder.hasMods, Reorder.plain, Option.isSome_none, Bool.or_self, Bool.not_false, if_true] at hs ⊢
  rw [hs]

theorem findIndices_plain (q t : List Char) :
    findIndices (Reorder.plain q) (Reorder.plain t) = occurrences q t := by
  unfold findIndices
  have : (Reorder.plain q).seq = q := rfl
  have ht : (Reorder.plain t).seq = t := rfl
  rw [this, ht]
  apply List.filter_eq_self.mpr
  intro i hi
  obtain ⟨h1, h2⟩ := (mem_occurrences q t i).mp hi
  rw [sliceAt_plain t i q.length h1, h2]
  rw [isSubsequenceM_of_seq_eq _ _ rfl]
  rw [this, sliceAt_plain q 0 q.length (by omega)]
  simp [annEq_plain]


theorem markSet_length (i L : Nat) (cov : List Nat) (h : i + L ≤ cov.length) : (markSet i L cov).length = cov.length := by
  simp [markSet]; omega

theorem markAdd_length (i L : Nat) (cov : List Nat) (h : i + L ≤ cov.length) : (markAdd i L cov).length = cov.length := by
  simp [markAdd]; omega

theorem markSet_get (i L : Nat) (cov : List Nat) (h : i + L ≤ cov.length) (j : Nat) (hj : j < cov.length) :
    (markSet i L cov)[j]? = some (if i ≤ j ∧ j < i + L then 1 else cov[j]) := by
  unfold markSet
  by_cases h1 : j < i
  · rw [List.append_assoc, List.getElem?_append_left (by simp; omega)]
    simp [List.getElem?_take, h1]
    have : ¬ (i ≤ j ∧ j < i + L) := by omega
    simp [this, List.getElem?_eq_getElem hj]
  · by_cases h2 : j < i + L
    · rw [List.getElem?_append_left (by simp; omega), List.getElem?_append_right (by simp; omega)]
      have : i ≤ j ∧ j < i + L := ⟨by omega, h2⟩
      have hmin : min i cov.length = i := by omega
      simp only [this, and_self, if_true, List.length_take, hmin, List.getElem?_replicate]
      have : j - i < L := by omega
      simp [this]
    · rw [List.getElem?_append_right (by simp; omega)]
      have : ¬ (i ≤ j ∧ j < i + L) := by omega
      simp only [this, if_false]
      simp only [List.length_append, List.length_take, List.length_replicate, List.getElem?_drop]
      have e : i + L + (j - (min i cov.length + L)) = j := by omega
      rw [e, List.getElem?_eq_getElem hj]

theorem markAdd_get (i L : Nat) (cov : List Nat) (h : i + L ≤ cov.length) (j : Nat) (hj : j < cov.length) :
    (markAdd i L cov)[j]? = some (if i ≤ j ∧ j < i + L then cov[j] + 1 else cov[j]) := by
  unfold markAdd
  by_cases h1 : j < i
  · rw [List.append_assoc, List.getElem?_append_left (by simp; omega)]
    simp [List.getElem?_take, h1]
    have : ¬ (i ≤ j ∧ j < i + L) := by omega
    simp [this, List.getElem?_eq_getElem hj]
  · by_cases h2 : j < i + L
    · rw [List.getElem?_append_left (by simp; omega), List.getElem?_append_right (by simp; omega)]
      have : i ≤ j ∧ j < i + L := ⟨by omega, h2⟩
      simp only [this, and_self, if_true]
      simp only [List.length_take, List.getElem?_map, List.getElem?_take, List.getElem?_drop]
      have e1 : j - min i cov.length < L := by omega
      have e2 : i + (j - min i cov.length) = j := by omega
      simp [e1, e2, List.getElem?_eq_getElem hj]
    · rw [List.getElem?_append_right (by simp; omega)]
      have : ¬ (i ≤ j ∧ j < i + L) := by omega
      simp only [this, if_false]
      simp only [List.length_append, List.length_take, List.length_map, List.length_drop, List.getElem?_drop]
      have e : i + L + (j - (min i cov.length + min L (cov.length - i))) = j := by omega
      rw [e, List.getElem?_eq_getElem hj]

/-- does occurrence `(offset, length)` contain position `j`? -/
def covers (j : Nat) (p : Nat × Nat) : Bool := decide (p.1 ≤ j ∧ j < p.1 + p.2)

/-- the marks of a whole list of occurrences `(offset, length)` -/
def applyOccs (acc : Bool) (cov : List Nat) (occs : List (Nat × Nat)) : List Nat :=
  occs.foldl (fun cov p => mark acc p.2 cov p.1) cov

theorem applyOccs_length (acc : Bool) (occs : List (Nat × Nat)) (cov : List Nat)
    (h : ∀ p ∈ occs, p.1 + p.2 ≤ cov.length) : (applyOccs acc cov occs).length = cov.length := by
  induction occs generalizing cov with
  | nil => rfl
  | cons p occs ih =>
    have hp := h p (by simp)
    have hl : (mark acc p.2 cov p.1).length = cov.length := by
      unfold mark; split
      · exact markAdd_length _ _ _ hp
      · exact markSet_length _ _ _ hp
    simp only [applyOccs, List.foldl_cons]
    have := ih (mark acc p.2 cov p.1) (fun q hq => by rw [hl]; exact h q (by simp [hq]))
    simp only [applyOccs] at this
    rw [this, hl]

theorem applyOccs_add (occs : List (Nat × Nat)) (cov : List Nat) (h : ∀ p ∈ occs, p.1 + p.2 ≤ cov.length)
    (j : Nat) (hj : j < cov.length) :
    (applyOccs true cov occs)[j]? = some (cov[j] + (occs.filter (covers j)).length) := by
  induction occs generalizing cov with
  | nil => simp [applyOccs, List.getElem?_eq_getElem hj]
  | cons p occs ih =>
    have hp := h p (by simp)
    have hl : (markAdd p.1 p.2 cov).length = cov.length := markAdd_length _ _ _ hp
    have hg := markAdd_get p.1 p.2 cov hp j hj
    have hj' : j < (markAdd p.1 p.2 cov).length := by rw [hl]; exact hj
    have := ih (markAdd p.1 p.2 cov) (fun q hq => by rw [hl]; exact h q (by simp [hq])) hj'
    simp only [applyOccs, List.foldl_cons, mark, if_true] at this ⊢
    rw [this]
    rw [List.getElem?_eq_getElem hj'] at hg
    have hv := Option.some.inj hg
    rw [hv]
    simp only [List.filter_cons, covers]
    by_cases hc : p.1 ≤ j ∧ j < p.1 + p.2
    · simp [hc]; omega
    · simp [hc]

theorem applyOccs_set (occs : List (Nat × Nat)) (cov : List Nat) (h : ∀ p ∈ occs, p.1 + p.2 ≤ cov.length)
    (j : Nat) (hj : j < cov.length) :
    (applyOccs false cov occs)[j]? = some (if occs.any (covers j) then 1 else cov[j]) := by
  induction occs generalizing cov with
  | nil => simp [applyOccs, List.getElem?_eq_getElem hj]
  | cons p occs ih =>
    have hp := h p (by simp)
    have hl : (markSet p.1 p.2 cov).length = cov.length := markSet_length _ _ _ hp
    have hg := markSet_get p.1 p.2 cov hp j hj
    have hj' : j < (markSet p.1 p.2 cov).length := by rw [hl]; exact hj
    have := ih (markSet p.1 p.2 cov) (fun q hq => by rw [hl]; exact h q (by simp [hq])) hj'
    simp only [applyOccs, List.foldl_cons, mark, Bool.false_eq_true, if_false] at this ⊢
    rw [this]
    rw [List.getElem?_eq_getElem hj'] at hg
    have hv := Option.some.inj hg
    rw [hv]
    by_cases hc : p.1 ≤ j ∧ j < p.1 + p.2
    · have : (p :: occs).any (covers j) = true := by simp [covers, hc]
      rw [this]; simp [hc]
    · have : (p :: occs).any (covers j) = occs.any (covers j) := by simp [covers, hc]
      rw [this]; simp [hc]

/-- the occurrences `(offset, length)` that `coverage` marks, in the order it marks them -/
def allOccs (t : Annotation) (subs : List Annotation) (ign : Bool) : List (Nat × Nat) :=
  subs.flatMap fun q => (findSubsequenceIndices t q ign).map fun i => (i, q.seq.length)

theorem coverage_eq_applyOccs (t : Annotation) (subs : List Annotation) (acc ign : Bool) :
    coverage t subs acc ign = applyOccs acc (List.replicate t.seq.length 0) (allOccs t subs ign) := by
  unfold coverage allOccs
  generalize List.replicate t.seq.length 0 = cov
  induction subs generalizing cov with
  | nil => rfl
  | cons q subs ih =>
    simp only [List.foldl_cons, List.flatMap_cons, applyOccs, List.foldl_append]
    rw [ih]
    simp only [applyOccs, coverStep, List.foldl_map]


theorem fsi_bound (t q : Annotation) (ign : Bool) (i : Nat) (h : i ∈ findSubsequenceIndices t q ign) :
    i + q.seq.length ≤ t.seq.length := by
  unfold findSubsequenceIndices at h
  split at h
  · simp at h
  · split at h
    · simp at h
    · split at h
      · have := (mem_findIndices (strip q) (strip t) i).mp h
        simpa [strip, Reorder.plain] using this.1
      · exact ((mem_findIndices q t i).mp h).1

theorem allOccs_valid (t : Annotation) (subs : List Annotation) (ign : Bool) :
    ∀ p ∈ allOccs t subs ign, p.1 + p.2 ≤ (List.replicate t.seq.length 0).length := by
  intro p hp
  unfold allOccs at hp
  rw [List.mem_flatMap] at hp
  obtain ⟨q, _, hq⟩ := hp
  rw [List.mem_map] at hq
  obtain ⟨i, hi, rfl⟩ := hq
  simpa using fsi_bound t q ign i hi

theorem allOccs_any (t : Annotation) (subs : List Annotation) (ign : Bool) (j : Nat) :
    (allOccs t subs ign).any (covers j) = true ↔
      ∃ q ∈ subs, ∃ i ∈ findSubsequenceIndices t q ign, i ≤ j ∧ j < i + q.seq.length := by
  unfold allOccs
  rw [List.any_eq_true]
  constructor
  · rintro ⟨p, hp, hc⟩
    rw [List.mem_flatMap] at hp
    obtain ⟨q, hq, hpq⟩ := hp
    rw [List.mem_map] at hpq
    obtain ⟨i, hi, rfl⟩ := hpq
    exact ⟨q, hq, i, hi, by simpa [covers] using hc⟩
  · rintro ⟨q, hq, i, hi, hc⟩
    refine ⟨(i, q.seq.length), ?_, by simpa [covers] using hc⟩
    rw [List.mem_flatMap]
    exact ⟨q, hq, List.mem_map.mpr ⟨i, hi, rfl⟩⟩

theorem allOccs_count (t : Annotation) (subs : List Annotation) (ign : Bool) (j : Nat) :
    ((allOccs t subs ign).filter (covers j)).length
      = (subs.map fun q => ((findSubsequenceIndices t q ign).filter
          (fun i => decide (i ≤ j ∧ j < i + q.seq.length))).length).sum := by
  unfold allOccs
  induction subs with
  | nil => rfl
  | cons q subs ih =>
    simp only [List.flatMap_cons, List.filter_append, List.length_append, List.map_cons, List.sum_cons, ih]
    congr 1
    rw [List.filter_map, List.length_map]
    rfl

theorem sum_le_length_of_le_one (l : List Nat) (h : ∀ x ∈ l, x ≤ 1) : l.sum ≤ l.length := by
  induction l with
  | nil => simp
  | cons a l ih =>
    have := ih (fun x hx => h x (by simp [hx]))
    have := h a (by simp)
    simp only [List.sum_cons, List.length_cons]; omega

theorem sum_eq_countP_of_le_one (l : List Nat) (h : ∀ x ∈ l, x ≤ 1) : l.sum = l.countP (· ≠ 0) := by
  induction l with
  | nil => simp
  | cons a l ih =>
    have := ih (fun x hx => h x (by simp [hx]))
    have ha := h a (by simp)
    simp only [List.sum_cons, List.countP_cons, this]
    rcases Nat.le_one_iff_eq_zero_or_eq_one.mp ha with rfl | rfl <;> simp <;> omega

section
open Reorder

theorem filterMap_eq_self {γ : Type} (f : γ → Option γ) (l : List γ) (h : ∀ x ∈ l, f x = some x) :
    l.filterMap f = l := by
  induction l with
  | nil => rfl
  | cons a l ih =>
    rw [List.filterMap_cons, h a (by simp), ih (fun x hx => h x (by simp [hx]))]

theorem noneIfEmpty_idem {γ : Type} (o : Option (List γ)) : noneIfEmpty (noneIfEmpty o) = noneIfEmpty o := by
  cases o with
  | none => rfl
  | some l => cases l <;> rfl

theorem pySlice_nat {γ : Type} (l : List γ) (i L : Nat) (h : i + L ≤ l.length) :
    pySlice l (i : Int) ((i : Int) + (L : Int)) = (l.drop i).take L := by
  unfold pySlice pyIndex
  have h1 : ¬ ((i : Int) < 0) := by omega
  have h2 : ¬ ((i : Int) + (L : Int) < 0) := by omega
  simp only [h1, h2, if_false]
  have e1 : min (i : Int).toNat l.length = i := by simp; omega
  have e2 : min ((i : Int) + (L : Int)).toNat l.length = i + L := by
    have : ((i : Int) + (L : Int)).toNat = i + L := by omega
    rw [this]; omega
  rw [e1, e2]
  congr 1
  omega

/-- slicing the piece `[i, i+L)` once more from `0` to `L` changes nothing (`L > 0`): the second slice that
`find_indices` → `is_subsequence` performs is the identity -/
theorem sliceAt_idem (t : Annotation) (i L : Nat) (hL : 0 < L) (h : i + L ≤ t.seq.length) :
    sliceAt (sliceAt t i L) 0 L = sliceAt t i L := by
  have hseq := sliceAt_seq t i L h
  have hlen : (sliceAt t i L).seq.length = L := by rw [hseq]; simp; omega
  generalize hr : sliceAt t i L = r at *
  have hps : pySlice r.seq ((0 : Nat) : Int) (((0 : Nat) : Int) + (L : Int)) = r.seq := by
    rw [pySlice_nat r.seq 0 L (by omega)]; simp [← hlen]
  conv => lhs; unfold sliceAt Reorder.slice
  simp only [hps]
  by_cases hm : hasMods r = true
  · simp only [hm, Bool.not_true, Bool.false_eq_true, if_false]
    -- r comes from a slice of t: read off the shape of its internal mods and intervals
    have hshape : (∀ d, r.internal = some d → ∀ p ∈ d, sliceEntry ((0 : Nat) : Int) (((0 : Nat) : Int) + (L : Int)) p = some p) ∧
        (∀ ivs, r.intervals = some ivs → ivs ≠ [] ∧
          ∀ iv ∈ ivs, sliceInterval ((0 : Nat) : Int) (((0 : Nat) : Int) + (L : Int)) iv = some iv) := by
      rw [← hr]
      unfold sliceAt Reorder.slice
      simp only
      split
      · simp [plain]
      · constructor
        · intro d hd p hp
          simp only [Option.map_eq_some_iff] at hd
          obtain ⟨d0, _, rfl⟩ := hd
          rw [List.mem_filterMap] at hp
          obtain ⟨p0, _, hp0⟩ := hp
          unfold sliceEntry at hp0
          split at hp0
          · rename_i hc
            cases hp0
            unfold sliceEntry
            simp only
            have : ((0 : Nat) : Int) ≤ p0.1 - (i : Int) ∧ p0.1 - (i : Int) < ((0 : Nat) : Int) + (L : Int) := by
              constructor <;> omega
            rw [if_pos this]; simp
          · cases hp0
        · intro ivs hivs
          cases hiv0 : t.intervals with
          | none => simp [hiv0, noneIfEmpty] at hivs
          | some l0 =>
            simp only [hiv0, Option.map_some] at hivs
            cases hfm : List.filterMap (sliceInterval (i : Int) ((i : Int) + (L : Int))) l0 with
            | nil => simp [hfm, noneIfEmpty] at hivs
            | cons a l =>
              simp only [hfm, noneIfEmpty, Option.some.injEq] at hivs
              subst hivs
              refine ⟨by simp, ?_⟩
              intro iv hiv
              rw [← hfm, List.mem_filterMap] at hiv
              obtain ⟨iv0, _, hiv0'⟩ := hiv
              unfold sliceInterval at hiv0'
              split at hiv0'
              · rename_i hc
                cases hiv0'
                unfold sliceInterval
                simp only
                have c1 : max 0 (iv0.start - (i : Int)) < ((0 : Nat) : Int) + (L : Int) := by omega
                have c2 : max 0 (iv0.stop - (i : Int)) > ((0 : Nat) : Int) := by omega
                simp only [c1, c2, and_self, if_true]
                congr 1
                simp
              · cases hiv0'
    obtain ⟨hint, hivs⟩ := hshape
    have e1 : r.internal.map (·.filterMap (sliceEntry ((0 : Nat) : Int) (((0 : Nat) : Int) + (L : Int)))) = r.internal := by
      cases hd : r.internal with
      | none => rfl
      | some d => simp only [Option.map_some]; rw [filterMap_eq_self _ _ (hint d hd)]
    have e2 : noneIfEmpty (r.intervals.map (·.filterMap (sliceInterval ((0 : Nat) : Int) (((0 : Nat) : Int) + (L : Int))))) = r.intervals := by
      cases hd : r.intervals with
      | none => rfl
      | some l =>
        obtain ⟨hne, hall⟩ := hivs l hd
        simp only [Option.map_some]; rw [filterMap_eq_self _ _ hall]
        cases l with
        | nil => exact absurd rfl hne
        | cons a l => rfl
    rw [e1, e2]
    have e3 : ¬ (((0 : Nat) : Int) > 0) := by omega
    have e4 : ¬ ((((0 : Nat) : Int) + (L : Int)) < (r.seq.length : Int)) := by omega
    simp only [e3, e4, if_false]
  · have hm' : hasMods r = false := by simpa using hm
    simp only [hm', Bool.not_false, if_true]
    -- no modifications at all: r is the plain annotation of its sequence
    unfold hasMods at hm'
    simp only [Bool.or_eq_false_iff, Option.isSome_eq_false_iff, Option.isNone_iff_eq_none] at hm'
    obtain ⟨⟨⟨⟨⟨⟨⟨⟨⟨h1, h2⟩, h3⟩, h4⟩, h5⟩, h6⟩, h7⟩, h8⟩, h9⟩, h10⟩ := hm'
    cases r
    simp_all [plain]

end
/-! ### order-insensitive containment -/
section
open Static (counterAdd)

theorem annEq_bequiv : BEquiv annEq where
  refl a := (annEq_iff a a).2 (annEquiv_refl a)
  symm a b h := (annEq_iff b a).2 (annEquiv_symm ((annEq_iff a b).1 h))
  trans a b c h g := (annEq_iff a c).2 (annEquiv_trans ((annEq_iff a b).1 h) ((annEq_iff b c).1 g))

theorem piecesContained_iff (qs ts : List Annotation) :
    piecesContained qs ts = true ↔ ∀ p : Annotation, qs.countP (annEq p) ≤ ts.countP (annEq p) := by
  unfold piecesContained
  rw [List.all_eq_true]
  constructor
  · intro h p
    by_cases hp : 0 < qs.countP (annEq p)
    · obtain ⟨p', hp', hpp'⟩ := exists_mem_of_countP_pos _ _ hp
      have := h p' hp'
      simp only [decide_eq_true_eq] at this
      rw [annEq_bequiv.countP_congr p p' hpp' qs, annEq_bequiv.countP_congr p p' hpp' ts]
      exact this
    · omega
  · intro h p _
    simpa using h p

open Classical in
theorem countP_annEq_eq_count (p : Annotation) (l : List Annotation) :
    l.countP (annEq p) = ((l.map eqCanon : List EqCanon) : Multiset EqCanon).count (eqCanon p) := by
  rw [Multiset.coe_count, List.count, List.countP_map]
  apply List.countP_congr
  intro a _
  simp only [Function.comp, beq_iff_eq]
  rw [annEq_iff_canon]
  exact eq_comm

open Classical in
theorem piecesContained_iff_multiset (qs ts : List Annotation) :
    piecesContained qs ts = true ↔
      ((qs.map eqCanon : List EqCanon) : Multiset EqCanon) ≤ ((ts.map eqCanon : List EqCanon) : Multiset EqCanon) := by
  rw [piecesContained_iff, Multiset.le_iff_count]
  constructor
  · intro h c
    by_cases hc : c ∈ ((qs.map eqCanon : List EqCanon) : Multiset EqCanon)
    · simp only [Multiset.mem_coe, List.mem_map] at hc
      obtain ⟨p, _, rfl⟩ := hc
      rw [← countP_annEq_eq_count, ← countP_annEq_eq_count]
      exact h p
    · rw [Multiset.count_eq_zero_of_notMem hc]; exact Nat.zero_le _
  · intro h p
    rw [countP_annEq_eq_count, countP_annEq_eq_count]
    exact h (eqCanon p)

/-! counters -/
abbrev Ctr := List (List Char × Nat)

theorem lookup_counterAdd (d : Ctr) (k k' : List Char) :
    ((counterAdd d k).lookup k').getD 0 = (d.lookup k').getD 0 + (if k = k' then 1 else 0) := by
  induction d with
  | nil =>
    simp only [counterAdd, List.lookup]
    by_cases h : k = k'
    · subst h; simp
    · have : (k' == k) = false := by simpa using (Ne.symm h)
      simp [this, h]
  | cons e d ih =>
    obtain ⟨k0, n⟩ := e
    simp only [counterAdd]
    by_cases h0 : k0 = k
    · subst h0
      simp only [if_true]
      by_cases h : k0 = k'
      · subst h; simp [List.lookup]
      · have : (k' == k0) = false := by simpa using (Ne.symm h)
        simp [List.lookup, this, h]
    · simp only [h0, if_false]
      by_cases h : k' = k0
      · subst h
        have : ¬ k = k' := fun e => h0 e.symm
        simp [List.lookup, this]
      · have : (k' == k0) = false := by simpa using h
        simp only [List.lookup, this]
        exact ih

theorem lookup_counter (ks : List (List Char)) (d : Ctr) (k' : List Char) :
    ((ks.foldl counterAdd d).lookup k').getD 0 = (d.lookup k').getD 0 + ks.count k' := by
  induction ks generalizing d with
  | nil => simp
  | cons k ks ih =>
    rw [List.foldl_cons, ih, lookup_counterAdd, List.count_cons]
    by_cases h : k = k'
    · subst h; simp; omega
    · have : (k == k') = false := by simpa using h
      simp [h, this]

theorem keys_counterAdd (d : Ctr) (k : List Char) :
    (counterAdd d k).map (·.1) = if k ∈ d.map (·.1) then d.map (·.1) else d.map (·.1) ++ [k] := by
  induction d with
  | nil => simp [counterAdd]
  | cons e d ih =>
    obtain ⟨k0, n⟩ := e
    simp only [counterAdd]
    by_cases h0 : k0 = k
    · subst h0; simp
    · have : ¬ k = k0 := fun e => h0 e.symm
      simp only [h0, if_false, List.map_cons, ih, List.mem_cons, this, false_or]
      split <;> simp

theorem counter_keys (ks : List (List Char)) (d : Ctr) (hd : (d.map (·.1)).Nodup) :
    ((ks.foldl counterAdd d).map (·.1)).Nodup ∧
      ∀ k, k ∈ (ks.foldl counterAdd d).map (·.1) ↔ k ∈ d.map (·.1) ∨ k ∈ ks := by
  induction ks generalizing d with
  | nil => simp [hd]
  | cons k ks ih =>
    have hk := keys_counterAdd d k
    have hd' : ((counterAdd d k).map (·.1)).Nodup := by
      rw [hk]; split
      · exact hd
      · rename_i h
        rw [List.nodup_append]
        refine ⟨hd, by simp, ?_⟩
        intro a ha b hb
        simp only [List.mem_cons, List.mem_nil_iff, or_false] at hb
        subst hb; intro e; subst e; exact h ha
    obtain ⟨h1, h2⟩ := ih (counterAdd d k) hd'
    refine ⟨h1, fun k' => ?_⟩
    rw [List.foldl_cons, h2 k', hk]
    split
    · rename_i h
      simp only [List.mem_cons]
      constructor
      · rintro (h | h); exact Or.inl h; exact Or.inr (Or.inr h)
      · rintro (h' | rfl | h'); exact Or.inl h'; exact Or.inl h; exact Or.inr h'
    · simp only [List.mem_append, List.mem_cons, List.mem_nil_iff, or_false]
      tauto

theorem lookup_of_mem_nodup (d : Ctr) (hd : (d.map (·.1)).Nodup) (k : List Char) (n : Nat) (h : (k, n) ∈ d) :
    d.lookup k = some n := by
  induction d with
  | nil => simp at h
  | cons e d ih =>
    obtain ⟨k0, n0⟩ := e
    rw [List.map_cons, List.nodup_cons] at hd
    rcases List.mem_cons.mp h with h1 | h1
    · cases h1; simp [List.lookup]
    · have : k ≠ k0 := by
        intro e; subst e
        exact hd.1 (List.mem_map.mpr ⟨(k, n), h1, rfl⟩)
      have hb : (k == k0) = false := by simpa using this
      simp only [List.lookup, hb]
      exact ih hd.2 h1

/-- `List.count` does not depend on which lawful `BEq` instance is used -/
theorem count_inst_irrel {α : Type} (i1 i2 : BEq α) [@LawfulBEq α i1] [@LawfulBEq α i2] (a : α) (l : List α) :
    @List.count α i1 a l = @List.count α i2 a l := by
  induction l with
  | nil => rfl
  | cons b l ih =>
    rw [@List.count_cons α i1, @List.count_cons α i2, ih]
    by_cases h : b = a
    · subst h; simp
    · have h1 : (@BEq.beq α i1 b a) = false := by
        cases hb : @BEq.beq α i1 b a with
        | false => rfl
        | true => exact absurd (@eq_of_beq α i1 _ b a hb) h
      have h2 : (@BEq.beq α i2 b a) = false := by
        cases hb : @BEq.beq α i2 b a with
        | false => rfl
        | true => exact absurd (@eq_of_beq α i2 _ b a hb) h
      rw [h1, h2]

/-- the Counter test of the old code on two key lists is the abstract `unorderedContained` -/
theorem counter_test_eq (ks kt : List (List Char)) :
    ((ks.foldl counterAdd []).all fun kn => decide (kn.2 ≤ (((kt.foldl counterAdd []).lookup kn.1).getD 0)))
      = unorderedContained ks kt := by
  rw [Bool.eq_iff_iff, List.all_eq_true]
  unfold unorderedContained
  rw [List.all_eq_true]
  obtain ⟨hnd, hkeys⟩ := counter_keys ks [] (by simp)
  constructor
  · intro h k hk
    have hk' : k ∈ (ks.foldl counterAdd []).map (·.1) := (hkeys k).mpr (Or.inr hk)
    obtain ⟨⟨k0, n⟩, hmem, rfl⟩ := List.mem_map.mp hk'
    have := h (k0, n) hmem
    have hl := lookup_of_mem_nodup _ hnd k0 n hmem
    have hc := lookup_counter ks [] k0
    have hc' := lookup_counter kt [] k0
    simp only [hl, Option.getD_some, List.lookup, Option.getD_none, Nat.zero_add] at hc hc'
    simp only [decide_eq_true_eq] at this ⊢
    rw [count_inst_irrel instBEqOfDecidableEq List.instBEq k0 ks, count_inst_irrel instBEqOfDecidableEq List.instBEq k0 kt]
    omega
  · intro h kn hmem
    obtain ⟨k0, n⟩ := kn
    have hk : k0 ∈ ks := by
      have := (hkeys k0).mp (List.mem_map.mpr ⟨(k0, n), hmem, rfl⟩)
      simpa using this
    have := h k0 hk
    rw [count_inst_irrel instBEqOfDecidableEq List.instBEq k0 ks, count_inst_irrel instBEqOfDecidableEq List.instBEq k0 kt] at this
    have hl := lookup_of_mem_nodup _ hnd k0 n hmem
    have hc := lookup_counter ks [] k0
    have hc' := lookup_counter kt [] k0
    simp only [hl, Option.getD_some, List.lookup, Option.getD_none, Nat.zero_add] at hc hc'
    simp only [decide_eq_true_eq] at this ⊢
    omega

end
theorem map_eqCanon_of_rel2 (a b : List Annotation) (h : Rel2 (fun x y => annEq x y = true) a b) :
    a.map eqCanon = b.map eqCanon := by
  induction h with
  | nil => rfl
  | cons hxy _ ih => rw [List.map_cons, List.map_cons, ih, (annEq_iff_canon _ _).mp hxy]

end Search
end Pept
