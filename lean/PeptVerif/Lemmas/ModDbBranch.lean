import PeptVerif.Model.ModDbBranch
import PeptVerif.Lemmas.ModDbLemmas
/-! `parseModMass` / `parseModComp` are "choose the branch, then run it". Mathlib-free. -/
namespace ModDb
open Formula

theorem parseModMass_eq_branch (T : Tables) (m : Str) (mono : Bool) (h35 : 35 ∉ m) (hc : convertType m = .str) :
    parseModMass T m mono = runMassBranch T m mono (massBranch T m) := by
  unfold parseModMass massBranch
  simp only [contains_false h35, Bool.false_and, hc, if_false, Bool.false_eq_true]
  repeat' split
  all_goals rfl

theorem parseModComp_eq_branch (T : Tables) (m : Str) (h35 : 35 ∉ m) (hc : convertType m = .str) :
    parseModComp T m = runCompBranch T m (compBranch T m) := by
  unfold parseModComp compBranch
  simp only [contains_false h35, Bool.false_and, hc, if_false, Bool.false_eq_true]
  repeat' split
  all_goals rfl

end ModDb
