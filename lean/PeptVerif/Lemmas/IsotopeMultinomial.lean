import PeptVerif.Lemmas.Isotope
import Mathlib.Data.Nat.Choose.Basic
/-! Helper lemmas for `C14.nfold_conv_eq_multinomial`: finite sums, Pascal's rule in summed form, the multinomial
expansion `multi` in iterated-binomial form and the one-atom recurrences of both sides. -/
namespace Isotope

/-- `Σ_{j=0..n} f j` -/
def sumUpTo : Nat → (Nat → Rat) → Rat
  | 0, f => f 0
  | n + 1, f => sumUpTo n f + f (n + 1)

theorem sumUpTo_succ' (n : Nat) (f : Nat → Rat) : sumUpTo (n + 1) f = f 0 + sumUpTo n (fun j => f (j + 1)) := by
  induction n with
  | zero => simp [sumUpTo]
  | succ n ih => rw [sumUpTo, ih]; simp only [sumUpTo]; ring

theorem sumUpTo_add (n : Nat) (f g : Nat → Rat) : sumUpTo n (fun j => f j + g j) = sumUpTo n f + sumUpTo n g := by
  induction n with
  | zero => simp [sumUpTo]
  | succ n ih => simp only [sumUpTo, ih]; ring

theorem sumUpTo_congr (n : Nat) (f g : Nat → Rat) (h : ∀ j, j ≤ n → f j = g j) : sumUpTo n f = sumUpTo n g := by
  induction n with
  | zero => simp [sumUpTo, h 0 (le_refl _)]
  | succ n ih => simp only [sumUpTo]; rw [ih (fun j hj => h j (Nat.le_succ_of_le hj)), h (n + 1) (le_refl _)]

theorem sumUpTo_mul_left (n : Nat) (c : Rat) (f : Nat → Rat) : sumUpTo n (fun j => c * f j) = c * sumUpTo n f := by
  induction n with
  | zero => simp [sumUpTo]
  | succ n ih => simp only [sumUpTo, ih]; ring

/-- Pascal's rule in summed form (the step of the binomial theorem) -/
theorem sumUpTo_pascal (n : Nat) (T : Nat → Rat) :
    sumUpTo (n + 1) (fun j => (Nat.choose (n + 1) j : Rat) * T j) =
      sumUpTo n (fun j => (Nat.choose n j : Rat) * T j) + sumUpTo n (fun j => (Nat.choose n j : Rat) * T (j + 1)) := by
  rw [sumUpTo_succ']
  have h1 : sumUpTo n (fun j => (Nat.choose (n + 1) (j + 1) : Rat) * T (j + 1)) =
      sumUpTo n (fun j => (Nat.choose n j : Rat) * T (j + 1)) + sumUpTo n (fun j => (Nat.choose n (j + 1) : Rat) * T (j + 1)) := by
    rw [← sumUpTo_add]
    apply sumUpTo_congr
    intro j _
    rw [Nat.choose_succ_succ]; push_cast; ring
  rw [h1]
  have h2 : sumUpTo n (fun j => (Nat.choose n j : Rat) * T j) =
      T 0 + sumUpTo n (fun j => (Nat.choose n (j + 1) : Rat) * T (j + 1)) := by
    cases n with
    | zero => simp [sumUpTo]
    | succ n =>
      rw [sumUpTo_succ']
      simp only [sumUpTo, Nat.choose_zero_right, Nat.cast_one, one_mul, Nat.choose_succ_self, Nat.cast_zero, zero_mul, add_zero]
  rw [h2]
  simp only [Nat.choose_zero_right, Nat.cast_one, one_mul]
  ring

/-- the multinomial expansion of `n` atoms over an isotope list, in iterated-binomial form:
`Σ_{j} C(n,j)·a₁^j · (expansion of the remaining isotopes with n−j atoms, shifted by j·m₁)` -/
def multi : Dist Rat → Nat → (Rat → Rat) → Rat
  | [], n, g => if n = 0 then g 0 else 0
  | (m, a) :: t, n, g => sumUpTo n (fun j => (Nat.choose n j : Rat) * a ^ j * multi t (n - j) (fun x => g (j * m + x)))

/-- the pattern of `n` atoms added to a start distribution is linear in the start distribution -/
theorem integral_elementalFrom_start (d : Dist Rat) (n : Nat) (d0 : Dist Rat) (g : Rat → Rat) :
    integral (elementalFrom none d n d0) g =
      integral d0 (fun x => integral (elementalFrom none d n [((0 : Rat), 1)]) (fun y => g (x + y))) := by
  induction n generalizing d0 g with
  | zero =>
    simp only [elementalFrom]
    apply integral_congr
    intro q _
    simp [integral]
  | succ n ih =>
    simp only [elementalFrom]
    rw [ih (convolve id none none d0 d) g, integral_convolve id none d0 d _ (allKept_none _ _)]
    apply integral_congr
    intro q _
    rw [ih (convolve id none none [((0 : Rat), 1)] d) (fun y => g (q.1 + y)),
        integral_convolve id none [((0 : Rat), 1)] d _ (allKept_none _ _)]
    simp only [integral_cons, integral_nil, id, one_mul, add_zero]
    apply integral_congr
    intro r _
    congr 1
    funext y
    congr 1
    ring

/-- peeling one atom: the recurrence of the n-fold self-convolution -/
theorem integral_elemental_succ (d : Dist Rat) (n : Nat) (g : Rat → Rat) :
    integral (elemental none d (n + 1)) g = integral d (fun k => integral (elemental none d n) (fun y => g (k + y))) := by
  unfold elemental
  simp only [elementalFrom]
  rw [integral_elementalFrom_start, integral_convolve id none [((0 : Rat), 1)] d _ (allKept_none _ _)]
  simp only [integral_cons, integral_nil, id, one_mul, add_zero, zero_add]

theorem integral_sumUpTo (t : Dist Rat) (n : Nat) (F : Rat → Nat → Rat) :
    integral t (fun k => sumUpTo n (F k)) = sumUpTo n (fun j => integral t (fun k => F k j)) := by
  induction n with
  | zero => simp [sumUpTo]
  | succ n ih => simp only [sumUpTo]; rw [integral_add, ih]

theorem multi_congr (d : Dist Rat) (n : Nat) (g h : Rat → Rat) (hgh : ∀ x, g x = h x) : multi d n g = multi d n h := by
  have : g = h := funext hgh
  rw [this]

/-- the multinomial expansion satisfies the same one-atom recurrence -/
theorem multi_succ (d : Dist Rat) : ∀ (n : Nat) (g : Rat → Rat),
    multi d (n + 1) g = integral d (fun k => multi d n (fun y => g (k + y))) := by
  induction d with
  | nil => intro n g; simp [multi]
  | cons q t ih =>
    obtain ⟨m, a⟩ := q
    intro n g
    have hL : multi ((m, a) :: t) (n + 1) g =
        sumUpTo (n + 1) (fun j => (Nat.choose (n + 1) j : Rat) *
          (a ^ j * multi t (n + 1 - j) (fun x => g (j * m + x)))) := by
      simp only [multi]
      apply sumUpTo_congr; intro j _; ring
    rw [hL, sumUpTo_pascal, integral_cons]
    have h1 : a * multi ((m, a) :: t) n (fun y => g (m + y)) =
        sumUpTo n (fun j => (Nat.choose n j : Rat) *
          (a ^ (j + 1) * multi t (n + 1 - (j + 1)) (fun x => g (((j + 1 : Nat) : Rat) * m + x)))) := by
      simp only [multi]
      rw [← sumUpTo_mul_left]
      apply sumUpTo_congr
      intro j _
      rw [Nat.add_sub_add_right]
      rw [multi_congr t (n - j) (fun x => g (m + (↑j * m + x))) (fun x => g (((j + 1 : Nat) : Rat) * m + x))
        (fun x => by congr 1; push_cast; ring)]
      ring
    have h2 : integral t (fun k => multi ((m, a) :: t) n (fun y => g (k + y))) =
        sumUpTo n (fun j => (Nat.choose n j : Rat) * (a ^ j * multi t (n + 1 - j) (fun x => g (j * m + x)))) := by
      simp only [multi]
      rw [integral_sumUpTo]
      apply sumUpTo_congr
      intro j hj
      rw [integral_mul_left]
      have e : n + 1 - j = (n - j) + 1 := by omega
      rw [e, ih (n - j) (fun x => g (j * m + x))]
      have : integral t (fun k => multi t (n - j) (fun x => g (k + (↑j * m + x)))) =
          integral t (fun k => multi t (n - j) (fun y => g (↑j * m + (k + y)))) := by
        apply integral_congr; intro r _
        exact multi_congr t (n - j) _ _ (fun x => by congr 1; ring)
      rw [this]; ring
    rw [h1, h2]; ring

theorem multi_zero (t : Dist Rat) : ∀ g : Rat → Rat, multi t 0 g = g 0 := by
  induction t with
  | nil => intro g; simp [multi]
  | cons q r ih => obtain ⟨m, a⟩ := q; intro g; simp [multi, sumUpTo, ih]

end Isotope
