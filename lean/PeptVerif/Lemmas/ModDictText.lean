import PeptVerif.Lemmas.ModDict
import PeptVerif.Model.SequenceFuncs
import PeptVerif.Props.C01
import PeptVerif.Lemmas.CanonFields
/-! Helper lemmas for C20 at text level: `strip` + `add_mod_dict(mod_dict)` reproduces the original string. -/
namespace Pept

/-- an absent and an empty internal dict are written the same way -/
theorem serialize_internal_nil (plus : Plus) (a : Annotation) (h : a.internal = some []) :
    serialize plus { a with internal := none } = serialize plus a := by
  have hres : ∀ (i : Int) (rest : List Char),
      serializeResidues plus { a with internal := none } i rest = serializeResidues plus a i rest := by
    intro i rest
    induction rest generalizing i with
    | nil => rfl
    | cons c cs ih =>
      simp only [serializeResidues, internalAt, h, dictGet, optMods, ih]
  simp only [serialize, serializeStart, serializeMiddle, serializeEnd, hres]

/-- text level: `strip` + `add_mod_dict(mod_dict)` reproduces the original string, for every annotation -/
theorem serialize_addModDict_strip (plus : Plus) (a : Annotation) (app : Bool) :
    serialize plus (addModDict (strip a) (modDict a) app) = serialize plus a := by
  rw [addModDict_strip_modDict]
  split
  · rename_i h; exact serialize_internal_nil plus a h
  · rfl

theorem sequenceToAnnotation_serialize (plus : Plus) (a : Annotation) (hc : canon a = true) :
    sequenceToAnnotation (serialize plus a) = .ok a := by
  simp [sequenceToAnnotation, parse_serialize plus a hc]

theorem sequenceToAnnotation_residues (a : Annotation) (hc : canon a = true) :
    sequenceToAnnotation a.seq = .ok (strip a) := by
  have hAA : a.seq.all isAA = true := (canon_fields a hc).2.1
  simp [sequenceToAnnotation, parse, isUnmodified, hAA, strip]

theorem stripGetAddStr_serialize (plus plus' : Plus) (app : Bool) (a : Annotation) (hc : canon a = true) :
    stripGetAddStr plus' app (serialize plus a) = .ok (serialize plus' a) := by
  simp only [stripGetAddStr, stripModsStr, getModsStr, addModsStr, sequenceToAnnotation_serialize plus a hc, stripMods,
    getMods, sequenceToAnnotation_residues a hc, ptAddMods, serialize_addModDict_strip]

theorem popAddStr_serialize (plus plus' : Plus) (a : Annotation) (hc : canon a = true) :
    popAddStr plus' (serialize plus a) = .ok (serialize plus' a) := by
  simp only [popAddStr, popModsStr, addModsStr, sequenceToAnnotation_serialize plus a hc, ptPopMods,
    sequenceToAnnotation_residues a hc, ptAddMods, serialize_addModDict_strip]

end Pept
