import PeptVerif.Model.CompCalc
import PeptVerif.Lemmas.Mass
import PeptVerif.Lemmas.FragmentMass
/-!
The composition path of `mass` (isotope-labelled peptides; `Model/CompCalc.lean`, read-only) decomposes into
residues + placed modifications + an offset that depends on the ion type and the charge.  Used to discharge the
hypothesis `LabelledDecomposes` of `Lemmas/FragmentMass.lean`.

Key fact: isotope substitution on a composition whose keys are distinct is a change of the mass function —
`chemMassL μ (relabel c) = chemMassL (labelMu map μ) c` — hence linear.
-/
namespace Fragment
open Pept Pept.Mass Pept.CompCalc Chem

/-! ### compositions with distinct keys -/

def keys (c : Comp) : List Elem := c.map (·.1)

/-- distinct keys (a Python dict) -/
def KN (c : Comp) : Prop := (keys c).Nodup

theorem keys_addKey (c : Comp) (e : Elem) (k : Rat) :
    keys (addKey c e k) = if e ∈ keys c then keys c else keys c ++ [e] := by
  induction c with
  | nil => simp [addKey, keys]
  | cons p c ih =>
    obtain ⟨e', k'⟩ := p
    simp only [addKey]
    by_cases h : e' = e
    · subst h; simp [keys]
    · have hne : ¬ e = e' := fun h' => h h'.symm
      simp only [h, if_false]
      show e' :: keys (addKey c e k) = _
      rw [ih]
      by_cases hm : e ∈ keys c
      · have hm' : e ∈ keys ((e', k') :: c) := List.mem_cons_of_mem _ hm
        rw [if_pos hm, if_pos hm']; rfl
      · have hm' : e ∉ keys ((e', k') :: c) := by
          intro hh
          rcases List.mem_cons.1 hh with h1 | h1
          · exact hne h1
          · exact hm h1
        rw [if_neg hm, if_neg hm']; rfl

theorem KN_addKey (c : Comp) (e : Elem) (k : Rat) (h : KN c) : KN (addKey c e k) := by
  unfold KN at *
  rw [keys_addKey]
  split
  · exact h
  · rename_i hm
    rw [List.nodup_append]
    refine ⟨h, by simp, ?_⟩
    intro a ha b hb hab
    simp only [List.mem_singleton] at hb
    subst hb; subst hab
    exact hm ha

theorem KN_addAll (a b : Comp) (h : KN a) : KN (addAll a b) := by
  unfold addAll
  induction b generalizing a with
  | nil => exact h
  | cons p b ih => exact ih _ (KN_addKey a p.1 p.2 h)

theorem KN_nil : KN [] := by simp [KN, keys]

theorem lookup_eq_none_iff (e : Elem) (c : Comp) : lookup e c = none ↔ e ∉ keys c := by
  induction c with
  | nil => simp [lookup, keys]
  | cons p c ih =>
    obtain ⟨e', k'⟩ := p
    simp only [lookup]
    by_cases h : e' = e
    · subst h; simp [keys]
    · have hne : ¬ e = e' := fun h' => h h'.symm
      simp only [h, if_false, ih]
      simp [keys, hne]

/-- the count of a key (0 when absent) -/
def cnt (e : Elem) (c : Comp) : Rat := (lookup e c).getD 0

/-- change the mass of one key -/
def upd (μ : Elem → Rat) (f : Elem) (v : Rat) : Elem → Rat := fun e => if e = f then v else μ e

theorem chemMassL_upd (μ : Elem → Rat) (f : Elem) (v : Rat) (c : Comp) (h : KN c) :
    chemMassL (upd μ f v) c = chemMassL μ c + (v - μ f) * cnt f c := by
  induction c with
  | nil => simp [chemMassL_nil, cnt, lookup]
  | cons p c ih =>
    obtain ⟨e', k'⟩ := p
    have hc : KN c := by unfold KN keys at *; exact (List.nodup_cons.1 h).2
    have hnot : e' ∉ keys c := by unfold KN keys at *; exact (List.nodup_cons.1 h).1
    rw [chemMassL_cons, chemMassL_cons, ih hc]
    by_cases he : e' = f
    · subst he
      have h0 : cnt e' c = 0 := by
        unfold cnt; rw [(lookup_eq_none_iff e' c).2 hnot]; rfl
      have h1 : cnt e' ((e', k') :: c) = k' := by simp [cnt, lookup]
      have h2 : upd μ e' v e' = v := by simp [upd]
      simp only [] 
      rw [h1, h2, h0]; ring
    · have h1 : cnt f ((e', k') :: c) = cnt f c := by simp [cnt, lookup, he]
      have h2 : upd μ f v e' = μ e' := by simp [upd, he]
      simp only []
      rw [h1, h2]; ring

theorem chemMassL_delKey (μ : Elem → Rat) (f : Elem) (c : Comp) (h : KN c) :
    chemMassL μ (delKey c f) = chemMassL μ c - μ f * cnt f c := by
  induction c with
  | nil => simp [delKey, chemMassL_nil, cnt, lookup]
  | cons p c ih =>
    obtain ⟨e', k'⟩ := p
    have hc : KN c := by unfold KN keys at *; exact (List.nodup_cons.1 h).2
    have hnot : e' ∉ keys c := by unfold KN keys at *; exact (List.nodup_cons.1 h).1
    have ih' := ih hc
    unfold delKey at ih' ⊢
    by_cases he : e' = f
    · subst he
      have h0 : lookup e' c = none := (lookup_eq_none_iff e' c).2 hnot
      simp only [List.filter_cons, bne_self_eq_false, Bool.false_eq_true, if_false, ih', chemMassL_cons, cnt, lookup,
        if_true, h0, Option.getD_some, Option.getD_none]
      ring
    · have hb : ((e', k').1 != f) = true := by simpa using he
      simp only [List.filter_cons, hb, if_true, chemMassL_cons, ih', cnt, lookup, he, if_false]
      ring

theorem chemMassL_setKey (μ : Elem → Rat) (t : Elem) (v : Rat) (c : Comp) (ht : t ∈ keys c) :
    chemMassL μ (setKey c t v) = chemMassL μ c + μ t * (v - cnt t c) := by
  induction c with
  | nil => simp [keys] at ht
  | cons p c ih =>
    obtain ⟨e', k'⟩ := p
    simp only [setKey]
    by_cases he : e' = t
    · subst he
      simp only [if_true, chemMassL_cons, cnt, lookup, Option.getD_some]
      ring
    · have ht' : t ∈ keys c := by
        simp only [keys, List.map_cons, List.mem_cons] at ht
        rcases ht with h | h
        · exact absurd h.symm he
        · exact h
      simp only [he, if_false, chemMassL_cons, ih ht', cnt, lookup]
      ring

theorem keys_setKey (t : Elem) (v : Rat) (c : Comp) (ht : t ∈ keys c) : keys (setKey c t v) = keys c := by
  induction c with
  | nil => simp [keys] at ht
  | cons p c ih =>
    obtain ⟨e', k'⟩ := p
    simp only [setKey]
    by_cases he : e' = t
    · simp [he, keys]
    · have ht' : t ∈ keys c := by
        simp only [keys, List.map_cons, List.mem_cons] at ht
        rcases ht with h | h
        · exact absurd h.symm he
        · exact h
      simp only [he, if_false]
      show e' :: keys (setKey c t v) = e' :: keys c
      rw [ih ht']

theorem keys_delKey (f : Elem) (c : Comp) : keys (delKey c f) = (keys c).filter (· != f) := by
  unfold delKey keys
  induction c with
  | nil => rfl
  | cons p c ih =>
    by_cases h : p.1 = f
    · simp [List.filter_cons, h, ih]
    · simp [List.filter_cons, h, ih]

theorem cnt_setKey_ne (f t : Elem) (v : Rat) (c : Comp) (h : f ≠ t) : cnt f (setKey c t v) = cnt f c := by
  unfold cnt
  induction c with
  | nil => simp [setKey, lookup, Ne.symm h]
  | cons p c ih =>
    obtain ⟨e', k'⟩ := p
    simp only [setKey]
    by_cases he : e' = t
    · have hf : ¬ e' = f := fun h' => h (h'.symm.trans he)
      simp only [he, if_true, lookup]
      rw [he] at hf
      simp only [hf, if_false]
    · simp only [he, if_false, lookup]
      split
      · rfl
      · exact ih

theorem cnt_append_ne (f t : Elem) (n : Rat) (c : Comp) (h : f ≠ t) : cnt f (c ++ [(t, n)]) = cnt f c := by
  unfold cnt
  induction c with
  | nil => simp [lookup, Ne.symm h]
  | cons p c ih =>
    obtain ⟨e', k'⟩ := p
    simp only [List.cons_append, lookup]
    split
    · rfl
    · exact ih

/-! ### one relabelling step, and all of them -/

/-- the loop body of `apply_isotope_mods_to_composition` for one (element → label) entry -/
def relabelStep (c : Comp) (p : Chem.Key × Chem.Key) : Comp :=
  match lookup p.1 c with
  | none => c
  | some n =>
    if p.1 = p.2 then c
    else
      let c' := match lookup p.2 c with
        | some k => setKey c p.2 (k + n)
        | none => c ++ [(p.2, n)]
      delKey c' p.1

theorem relabelStep_KN (c : Comp) (p : Chem.Key × Chem.Key) (h : KN c) : KN (relabelStep c p) := by
  unfold relabelStep
  cases hl : lookup p.1 c with
  | none => exact h
  | some n =>
    simp only []
    split
    · exact h
    · cases ht : lookup p.2 c with
      | some k =>
        simp only []
        have hmem : p.2 ∈ keys c := by
          by_contra hc; rw [(lookup_eq_none_iff _ _).2 hc] at ht; cases ht
        unfold KN
        rw [keys_delKey, keys_setKey _ _ _ hmem]
        exact List.Nodup.sublist List.filter_sublist h
      | none =>
        simp only []
        have hnot : p.2 ∉ keys c := (lookup_eq_none_iff _ _).1 ht
        unfold KN
        rw [keys_delKey]
        refine List.Nodup.sublist List.filter_sublist ?_
        show (keys (c ++ [(p.2, n)])).Nodup
        unfold keys
        rw [List.map_append, List.nodup_append]
        refine ⟨h, by simp, ?_⟩
        intro a ha b hb hab
        simp only [List.map_cons, List.map_nil, List.mem_singleton] at hb
        subst hb; subst hab
        exact hnot ha

/-- one step moves the count of `p.1` to `p.2`: as a mass, the element `p.1` now weighs what `p.2` weighs -/
theorem relabelStep_mass (μ : Elem → Rat) (c : Comp) (p : Chem.Key × Chem.Key) (h : KN c) :
    chemMassL μ (relabelStep c p) = chemMassL (upd μ p.1 (μ p.2)) c := by
  rw [chemMassL_upd μ p.1 (μ p.2) c h]
  unfold relabelStep
  cases hl : lookup p.1 c with
  | none => simp [cnt, hl]
  | some n =>
    have hcnt : cnt p.1 c = n := by simp [cnt, hl]
    simp only []
    split
    · rename_i heq; rw [← heq]; ring
    · rename_i hne
      cases ht : lookup p.2 c with
      | some k =>
        simp only []
        have hmem : p.2 ∈ keys c := by
          by_contra hc; rw [(lookup_eq_none_iff _ _).2 hc] at ht; cases ht
        have hKN : KN (setKey c p.2 (k + n)) := by unfold KN; rw [keys_setKey _ _ _ hmem]; exact h
        have hk : cnt p.2 c = k := by simp [cnt, ht]
        rw [chemMassL_delKey μ p.1 _ hKN, chemMassL_setKey μ p.2 _ c hmem, cnt_setKey_ne _ _ _ _ hne, hcnt, hk]
        ring
      | none =>
        simp only []
        have hnot : p.2 ∉ keys c := (lookup_eq_none_iff _ _).1 ht
        have hKN : KN (c ++ [(p.2, n)]) := by
          unfold KN keys
          rw [List.map_append, List.nodup_append]
          refine ⟨h, by simp, ?_⟩
          intro a ha b hb hab
          simp only [List.map_cons, List.map_nil, List.mem_singleton] at hb
          subst hb; subst hab
          exact hnot ha
        rw [chemMassL_delKey μ p.1 _ hKN, chemMassL_append, chemMassL_cons, chemMassL_nil, cnt_append_ne _ _ _ _ hne,
          hcnt]
        ring

/-- the mass function after all substitutions (the last entry is applied innermost) -/
def labelMu (map : List (Chem.Key × Chem.Key)) (μ : Elem → Rat) : Elem → Rat :=
  map.foldr (fun p ν => upd ν p.1 (ν p.2)) μ

theorem relabel_mass (μ : Elem → Rat) (map : List (Chem.Key × Chem.Key)) (c : Comp) (h : KN c) :
    chemMassL μ (map.foldl relabelStep c) = chemMassL (labelMu map μ) c ∧ KN (map.foldl relabelStep c) := by
  induction map generalizing c with
  | nil => exact ⟨rfl, h⟩
  | cons p ps ih =>
    obtain ⟨h1, h2⟩ := ih (relabelStep c p) (relabelStep_KN c p h)
    refine ⟨?_, h2⟩
    rw [List.foldl_cons, h1]
    exact relabelStep_mass (labelMu ps μ) c p h

/-! ### compositions over known elements -/

/-- all keys satisfy `K` (e.g. "has a mass") -/
def AK (K : Elem → Prop) (c : Comp) : Prop := ∀ q ∈ c, K q.1

theorem AK_nil (K : Elem → Prop) : AK K [] := by intro q hq; cases hq

theorem AK_addKey (K : Elem → Prop) (c : Comp) (e : Elem) (k : Rat) (h : AK K c) (he : K e) : AK K (addKey c e k) := by
  induction c with
  | nil => intro q hq; simp only [addKey, List.mem_singleton] at hq; subst hq; exact he
  | cons p c ih =>
    obtain ⟨e', k'⟩ := p
    have hc : AK K c := fun q hq => h q (List.mem_cons_of_mem _ hq)
    have hp : K e' := h (e', k') List.mem_cons_self
    simp only [addKey]
    split
    · intro q hq
      rcases List.mem_cons.1 hq with h1 | h1
      · subst h1; exact hp
      · exact hc q h1
    · intro q hq
      rcases List.mem_cons.1 hq with h1 | h1
      · subst h1; exact hp
      · exact ih hc q h1

theorem AK_addAll (K : Elem → Prop) (a b : Comp) (ha : AK K a) (hb : AK K b) : AK K (addAll a b) := by
  unfold addAll
  induction b generalizing a with
  | nil => exact ha
  | cons p b ih =>
    exact ih _ (AK_addKey K a p.1 p.2 ha (hb p List.mem_cons_self)) (fun q hq => hb q (List.mem_cons_of_mem _ hq))

theorem AK_filter (K : Elem → Prop) (c : Comp) (f : Elem × Rat → Bool) (h : AK K c) : AK K (c.filter f) :=
  fun q hq => h q (List.mem_filter.1 hq).1

theorem AK_setKey (K : Elem → Prop) (c : Comp) (t : Elem) (v : Rat) (h : AK K c) (ht : K t) : AK K (setKey c t v) := by
  induction c with
  | nil => intro q hq; simp only [setKey, List.mem_singleton] at hq; subst hq; exact ht
  | cons p c ih =>
    obtain ⟨e', k'⟩ := p
    have hc : AK K c := fun q hq => h q (List.mem_cons_of_mem _ hq)
    have hp : K e' := h (e', k') List.mem_cons_self
    simp only [setKey]
    split
    · intro q hq
      rcases List.mem_cons.1 hq with h1 | h1
      · subst h1; exact hp
      · exact hc q h1
    · intro q hq
      rcases List.mem_cons.1 hq with h1 | h1
      · subst h1; exact hp
      · exact ih hc q h1

theorem AK_scale (K : Elem → Prop) (k : Rat) (c : Comp) (h : AK K c) : AK K (scale k c) := by
  intro q hq
  simp only [scale, List.mem_map] at hq
  obtain ⟨p, hp, rfl⟩ := hq
  exact h p hp

theorem AK_relabelStep (K : Elem → Prop) (c : Comp) (p : Chem.Key × Chem.Key) (h : AK K c) (ht : K p.2) :
    AK K (relabelStep c p) := by
  unfold relabelStep
  cases lookup p.1 c with
  | none => exact h
  | some n =>
    simp only []
    split
    · exact h
    · cases lookup p.2 c with
      | some k => exact AK_filter K _ _ (AK_setKey K c p.2 _ h ht)
      | none =>
        refine AK_filter K _ _ ?_
        intro q hq
        rcases List.mem_append.1 hq with h1 | h1
        · exact h q h1
        · simp only [List.mem_singleton] at h1; subst h1; exact ht

theorem AK_relabel (K : Elem → Prop) (map : List (Chem.Key × Chem.Key)) (c : Comp) (h : AK K c)
    (ht : ∀ p ∈ map, K p.2) : AK K (map.foldl relabelStep c) := by
  induction map generalizing c with
  | nil => exact h
  | cons p ps ih =>
    exact ih _ (AK_relabelStep K c p h (ht p List.mem_cons_self)) (fun q hq => ht q (List.mem_cons_of_mem _ hq))

/-- **isotope substitution is a change of the mass function** (hence linear in the composition) -/
theorem applyIsotopeMods_mass (μ : Elem → Rat) (K : Elem → Prop) (mods : List Mod) (map : List (Chem.Key × Chem.Key))
    (hp : parseIsotopeMods mods = .ok map) (hK : ∀ p ∈ map, K p.2) (c : Comp) (h : KN c) (hc : AK K c) :
    ∃ c', applyIsotopeMods c mods = .ok c' ∧ chemMassL μ c' = chemMassL (labelMu map μ) c ∧ AK K c' := by
  refine ⟨map.foldl relabelStep c, ?_, (relabel_mass μ map c h).1, AK_relabel K map c hc hK⟩
  unfold applyIsotopeMods
  rw [hp]
  rfl

/-! ### modifications on the composition path: pure mass shifts are popped, the others add their composition -/

/-- what the resolver says about every modification: a pure mass shift `dl m = some v`, or a composition `cp m` -/
structure ModsResolve (env : Pept.Env) (K : Elem → Prop) (dl : Mod → Option Rat) (cp : Mod → Comp) : Prop where
  delta : ∀ m : Mod, (env.res m.val).delta = .ok (dl m)
  comp : ∀ m : Mod, dl m = none → (env.res m.val).comp = .ok (cp m) ∧ AK K (cp m)

/-- the weight of one modification on the composition path -/
def modWeight (μ : Elem → Rat) (dl : Mod → Option Rat) (cp : Mod → Comp) (m : Mod) : Rat :=
  match dl m with
  | some v => v * (m.mult : Rat)
  | none => (m.mult : Rat) * chemMassL μ (cp m)

def dsum (dl : Mod → Option Rat) (l : List Mod) : Rat :=
  (l.map fun m => match dl m with | some v => v * (m.mult : Rat) | none => 0).sum

def keep (dl : Mod → Option Rat) (l : List Mod) : List Mod := l.filter fun m => (dl m).isNone

def csum (μ : Elem → Rat) (cp : Mod → Comp) (l : List Mod) : Rat :=
  (l.map fun m => (m.mult : Rat) * chemMassL μ (cp m)).sum

theorem popList_ok (env : Pept.Env) (K) (dl cp) (h : ModsResolve env K dl cp) (l : List Mod) :
    popList env l = .ok (dsum dl l, keep dl l) := by
  unfold popList
  induction l with
  | nil => rfl
  | cons m l ih =>
    rw [List.foldrM_cons, ih]
    simp only [bind, Except.bind, h.delta m]
    cases hd : dl m with
    | some v =>
      simp only [pure, Except.pure, dsum, keep, List.map_cons, List.sum_cons, List.filter_cons, hd, Option.isNone_some,
        Bool.false_eq_true, if_false]
      congr 2
      ring
    | none =>
      simp only [pure, Except.pure, dsum, keep, List.map_cons, List.sum_cons, List.filter_cons, hd, Option.isNone_none,
        if_true]
      congr 2
      ring

theorem dsum_csum (μ : Elem → Rat) (dl cp) (l : List Mod) :
    dsum dl l + csum μ cp (keep dl l) = modsSum (modWeight μ dl cp) l := by
  induction l with
  | nil => simp [dsum, csum, keep, modsSum]
  | cons m l ih =>
    unfold dsum csum keep modsSum at ih ⊢
    cases hd : dl m with
    | some v =>
      simp only [List.map_cons, List.sum_cons, List.filter_cons, hd, Option.isNone_some, Bool.false_eq_true, if_false,
        modWeight]
      linarith
    | none =>
      simp only [List.map_cons, List.sum_cons, List.filter_cons, hd, Option.isNone_none, if_true, modWeight]
      linarith

theorem addMods_ok (env : Pept.Env) (K) (dl cp) (h : ModsResolve env K dl cp) (μ : Elem → Rat) (l : List Mod)
    (hl : ∀ m ∈ l, dl m = none) (acc : Comp) (hacc : AK K acc) :
    ∃ acc', addMods env acc l = .ok acc' ∧ chemMassL μ acc' = chemMassL μ acc + csum μ cp l ∧ AK K acc' := by
  unfold addMods
  induction l generalizing acc with
  | nil => exact ⟨acc, rfl, by simp [csum], hacc⟩
  | cons m l ih =>
    obtain ⟨hc, hk⟩ := h.comp m (hl m List.mem_cons_self)
    have hstep : modComp env m = .ok (scale (m.mult : Rat) (cp m)) := by
      unfold modComp; rw [hc]; rfl
    obtain ⟨acc', h1, h2, h3⟩ := ih (fun x hx => hl x (List.mem_cons_of_mem _ hx))
      (addAll acc (scale (m.mult : Rat) (cp m))) (AK_addAll K _ _ hacc (AK_scale K _ _ hk))
    refine ⟨acc', ?_, ?_, h3⟩
    · rw [List.foldlM_cons, hstep]
      exact h1
    · rw [h2, chemMassL_addAll, chemMassL_scale]
      simp only [csum, List.map_cons, List.sum_cons]
      ring

theorem keep_all_none (dl : Mod → Option Rat) (l : List Mod) : ∀ m ∈ keep dl l, dl m = none := by
  intro m hm
  have := (List.mem_filter.1 hm).2
  simpa using this

theorem mapM_ok' {ε α β} (f : α → Except ε β) (g : α → β) (l : List α) (h : ∀ x ∈ l, f x = .ok (g x)) :
    l.mapM f = .ok (l.map g) := by
  induction l with
  | nil => rfl
  | cons a l ih =>
    rw [List.mapM_cons, h a List.mem_cons_self, ih (fun x hx => h x (List.mem_cons_of_mem _ hx))]
    rfl

def optD (dl : Mod → Option Rat) : Option (List Mod) → Rat
  | none => 0
  | some l => dsum dl l

def intD (dl : Mod → Option Rat) : Option (List (Int × List Mod)) → Rat
  | none => 0
  | some d => (d.map fun p => dsum dl p.2).sum

def optC (μ : Elem → Rat) (cp : Mod → Comp) : Option (List Mod) → Rat
  | none => 0
  | some l => csum μ cp l

def intC (μ : Elem → Rat) (cp : Mod → Comp) : Option (List (Int × List Mod)) → Rat
  | none => 0
  | some d => (d.map fun p => csum μ cp p.2).sum

def keepInt (dl : Mod → Option Rat) (d : List (Int × List Mod)) : List (Int × List Mod) :=
  d.map fun p => (p.1, keep dl p.2)

theorem popOpt_ok (env : Pept.Env) (K) (dl cp) (h : ModsResolve env K dl cp) (o : Option (List Mod)) :
    popOpt env o = .ok (optD dl o, o.map (keep dl)) := by
  cases o with
  | none => rfl
  | some l =>
    simp only [popOpt]
    rw [popList_ok env K dl cp h l]
    rfl

theorem foldr_fst_sum {β} (rs : List (Rat × β)) : rs.foldr (fun r acc => r.1 + acc) 0 = (rs.map (·.1)).sum := by
  induction rs with
  | nil => rfl
  | cons r rs ih => simp [List.foldr_cons, ih]

theorem popInternal_ok (env : Pept.Env) (K) (dl cp) (h : ModsResolve env K dl cp)
    (o : Option (List (Int × List Mod))) :
    popInternal env o = .ok (intD dl o, o.map (keepInt dl)) := by
  cases o with
  | none => rfl
  | some d =>
    simp only [popInternal]
    have hm : d.mapM (popEntry env) = .ok (d.map fun p => (dsum dl p.2, (p.1, keep dl p.2))) := by
      apply mapM_ok'
      intro p _
      unfold popEntry
      rw [popList_ok env K dl cp h p.2]
      rfl
    rw [hm]
    simp only [bind, Except.bind, pure, Except.pure, foldr_fst_sum, List.map_map, intD, Option.map_some, keepInt]
    rfl

theorem addOptMods_ok (env : Pept.Env) (K) (dl cp) (h : ModsResolve env K dl cp) (μ : Elem → Rat)
    (o : Option (List Mod)) (acc : Comp) (hacc : AK K acc) :
    ∃ acc', addOptMods env acc (o.map (keep dl)) = .ok acc' ∧
      chemMassL μ acc' = chemMassL μ acc + optC μ cp (o.map (keep dl)) ∧ AK K acc' := by
  cases o with
  | none => exact ⟨acc, rfl, by simp [optC], hacc⟩
  | some l => exact addMods_ok env K dl cp h μ (keep dl l) (keep_all_none dl l) acc hacc

theorem internalComp_ok (env : Pept.Env) (K) (dl cp) (h : ModsResolve env K dl cp) (μ : Elem → Rat)
    (o : Option (List (Int × List Mod))) (acc : Comp) (hacc : AK K acc) :
    ∃ acc', internalComp env acc (o.map (keepInt dl)) = .ok acc' ∧
      chemMassL μ acc' = chemMassL μ acc + intC μ cp (o.map (keepInt dl)) ∧ AK K acc' := by
  cases o with
  | none => exact ⟨acc, rfl, by simp [intC], hacc⟩
  | some d =>
    simp only [Option.map_some, internalComp, intC]
    induction d generalizing acc with
    | nil => exact ⟨acc, rfl, by simp [keepInt], hacc⟩
    | cons p d ih =>
      obtain ⟨a1, h1, h2, h3⟩ := addMods_ok env K dl cp h μ (keep dl p.2) (keep_all_none dl p.2) acc hacc
      obtain ⟨a2, g1, g2, g3⟩ := ih a1 h3
      refine ⟨a2, ?_, ?_, g3⟩
      · simp only [keepInt, List.map_cons, List.foldlM_cons, h1]
        exact g1
      · rw [g2, h2]
        simp only [keepInt, List.map_cons, List.sum_cons]
        ring

/-! ### the composition path on a plain labelled annotation -/

/-- a working copy of `fragment` with isotope labels `iso`: static rules written out, nothing labile / unknown /
interval / adduct -/
structure PlainL (b : Annotation) (iso : List Mod) : Prop where
  static : b.static = none
  isotope : b.isotope = some iso
  labile : b.labile = none
  unknown : b.unknown = none
  intervals : b.intervals = none
  adducts : b.adducts = none

structure ResiduesResolve (K : Elem → Prop) (aa : Char → Comp) (seq : List Char) : Prop where
  residues : ∀ c ∈ seq, lookup c.toNat Gen.aaComp = some (aa c) ∧ AK K (aa c)
  notB : seq.contains 'B' = false
  notZ : seq.contains 'Z' = false

theorem residueComp_ok (K : Elem → Prop) (aa : Char → Comp) (seq : List Char)
    (h : ∀ c ∈ seq, lookup c.toNat Gen.aaComp = some (aa c) ∧ AK K (aa c)) :
    ∃ rc, residueComp seq = .ok rc ∧ (∀ ν : Elem → Rat, chemMassL ν rc = (seq.map fun c => chemMassL ν (aa c)).sum) ∧
      AK K rc ∧ KN rc := by
  unfold residueComp
  have key : ∀ (l : List Char) (acc : Comp), (∀ c ∈ l, lookup c.toNat Gen.aaComp = some (aa c) ∧ AK K (aa c)) →
      AK K acc → KN acc →
      ∃ rc, l.foldlM (fun acc c => match lookup c.toNat Gen.aaComp with
          | none => (Except.error Pept.Err.unknownAA : Except Pept.Err Comp)
          | some k => pure (addAll acc k)) acc = .ok rc ∧
        (∀ ν : Elem → Rat, chemMassL ν rc = chemMassL ν acc + (l.map fun c => chemMassL ν (aa c)).sum) ∧
        AK K rc ∧ KN rc := by
    intro l
    induction l with
    | nil => intro acc _ ha hk; exact ⟨acc, rfl, by intro ν; simp, ha, hk⟩
    | cons c l ih =>
      intro acc hl ha hk
      obtain ⟨hc, hcK⟩ := hl c List.mem_cons_self
      obtain ⟨rc, h1, h2, h3, h4⟩ := ih (addAll acc (aa c)) (fun x hx => hl x (List.mem_cons_of_mem _ hx))
        (AK_addAll K _ _ ha hcK) (KN_addAll _ _ hk)
      refine ⟨rc, ?_, ?_, h3, h4⟩
      · rw [List.foldlM_cons, hc]
        exact h1
      · intro ν
        rw [h2 ν, chemMassL_addAll]
        simp only [List.map_cons, List.sum_cons]
        ring
  obtain ⟨rc, h1, h2, h3, h4⟩ := key seq [] h (AK_nil K) KN_nil
  exact ⟨rc, h1, fun ν => by rw [h2 ν, chemMassL_nil]; ring, h3, h4⟩

/-- the annotation after `_pop_delta_mass_mods` -/
def popped (dl : Mod → Option Rat) (a : Annotation) : Annotation :=
  { a with labile := none, unknown := none, nterm := a.nterm.map (keep dl), cterm := a.cterm.map (keep dl),
           intervals := none, internal := a.internal.map (keepInt dl) }

theorem popDelta_ok (env : Pept.Env) (K) (dl cp) (h : ModsResolve env K dl cp) (a : Annotation)
    (h1 : a.labile = none) (h2 : a.unknown = none) (h3 : a.intervals = none) :
    popDeltaMassMods env a =
      .ok (0 + 0 + optD dl a.nterm + optD dl a.cterm + 0 + intD dl a.internal, popped dl a) := by
  unfold popDeltaMassMods
  rw [h1, h2, h3, popOpt_ok env K dl cp h a.nterm, popOpt_ok env K dl cp h a.cterm,
    popInternal_ok env K dl cp h a.internal]
  rfl

theorem modsComp_ok (env : Pept.Env) (K) (dl cp) (h : ModsResolve env K dl cp) (μ : Elem → Rat) (a : Annotation)
    (hs : a.static = none) (t : Chem.Key) :
    ∃ mc, modsComp env (popped dl a) t = .ok mc ∧
      chemMassL μ mc = optC μ cp (a.nterm.map (keep dl)) + optC μ cp (a.cterm.map (keep dl)) +
        intC μ cp (a.internal.map (keepInt dl)) ∧ AK K mc := by
  obtain ⟨m1, a1, b1, c1⟩ := addOptMods_ok env K dl cp h μ a.nterm [] (AK_nil K)
  obtain ⟨m2, a2, b2, c2⟩ := addOptMods_ok env K dl cp h μ a.cterm m1 c1
  obtain ⟨m3, a3, b3, c3⟩ := internalComp_ok env K dl cp h μ a.internal m2 c2
  refine ⟨m3, ?_, ?_, c3⟩
  · unfold modsComp
    have hl : labileComp env [] (popped dl a) t = .ok [] := by
      unfold labileComp
      split <;> rfl
    show (do
      let mc ← addOptMods env [] none
      let mc ← intervalsComp env mc none
      let mc ← labileComp env mc (popped dl a) t
      let mc ← addOptMods env mc (a.nterm.map (keep dl))
      let mc ← addOptMods env mc (a.cterm.map (keep dl))
      let mc ← internalComp env mc (a.internal.map (keepInt dl))
      addStatic env mc a.seq a.static) = _
    have e1 : addOptMods env ([] : Comp) none = Except.ok [] := rfl
    have e2 : intervalsComp env ([] : Comp) none = Except.ok [] := rfl
    simp only [e1, e2, hl, a1, a2, a3, hs, bind, Except.bind]
    rfl
  · rw [b3, b2, b1, chemMassL_nil]; ring

/-- the private copy of `comp_mass` after the argument overrides -/
def relabelled (b : Annotation) (ch : Int) (iso : List Mod) : Annotation :=
  { b with charge := some ch, isotope := some iso }

theorem dropLabile_of_none (a : Annotation) (t : Chem.Key) (h : a.labile = none) : dropLabile a t = a := by
  unfold dropLabile
  split
  · rfl
  · cases a; simp_all

theorem compMass_labelled (menv : Pept.Env) (K : Elem → Prop) (dl : Mod → Option Rat) (cp : Mod → Comp)
    (aa : Char → Comp) (μ : Elem → Rat) (b : Annotation) (iso : List Mod) (map : List (Chem.Key × Chem.Key))
    (hpl : PlainL b iso) (hparse : parseIsotopeMods iso = .ok map) (hmapK : ∀ p ∈ map, K p.2)
    (hres : ResiduesResolve K aa b.seq) (hmods : ModsResolve menv K dl cp)
    (t : Chem.Key) (ch isoN : Int) (adj car : Comp)
    (hadj : lookup t neutralAdj = some adj) (hadjK : AK K adj)
    (hcar : defaultCarrier ch t = .ok car) (hcarK : AK K car)
    (hcc : (t = ionP || t = ionN || (lookup t Gen.baseAdducts).isSome) = true) (hn : K kNn) :
    ∃ c, compMass menv b t (some ch) isoN none (some iso) false =
        .ok (c, 0 + 0 + optD dl b.nterm + optD dl b.cterm + 0 + intD dl b.internal) ∧
      chemMassL μ c = (b.seq.map fun x => chemMassL (labelMu map μ) (aa x)).sum + chemMassL (labelMu map μ) adj +
        chemMassL (labelMu map μ) car +
        (optC μ cp (b.nterm.map (keep dl)) + optC μ cp (b.cterm.map (keep dl)) +
          intC μ cp (b.internal.map (keepInt dl))) + μ kNn * (isoN : Rat) ∧
      AK K c := by
  obtain ⟨rc, r1, r2, r3, r4⟩ := residueComp_ok K aa b.seq hres.residues
  obtain ⟨mc, m1, m2, m3⟩ := modsComp_ok menv K dl cp hmods μ (relabelled b ch iso) hpl.static t
  have hseqKN : KN (addAll (addAll rc adj) car) := KN_addAll _ _ (KN_addAll _ _ r4)
  have hseqAK : AK K (addAll (addAll rc adj) car) := AK_addAll K _ _ (AK_addAll K _ _ r3 hadjK) hcarK
  obtain ⟨sc, s1, s2, s3⟩ := applyIsotopeMods_mass μ K iso map hparse hmapK _ hseqKN hseqAK
  refine ⟨dropZeros (addAll (addAll [] sc) (addKey mc kNn (isoN : Rat))), ?_, ?_, ?_⟩
  · unfold compMass
    have e0 : overrideArgs b (some ch) none (some iso) = relabelled b ch iso := rfl
    have e1 : condenseStatic menv (relabelled b ch iso) = .ok (relabelled b ch iso) := by
      unfold condenseStatic
      have : (relabelled b ch iso).static = none := hpl.static
      rw [this]; rfl
    have e2 : dropLabile (relabelled b ch iso) t = relabelled b ch iso := dropLabile_of_none _ _ hpl.labile
    have e3 := popDelta_ok menv K dl cp hmods (relabelled b ch iso) hpl.labile hpl.unknown hpl.intervals
    have e4 : clearEmptyAdducts (popped dl (relabelled b ch iso)) = popped dl (relabelled b ch iso) := by
      unfold clearEmptyAdducts
      have : (popped dl (relabelled b ch iso)).adducts = none := hpl.adducts
      rw [this]
    have e5 : sequenceComp menv (popped dl (relabelled b ch iso)) t isoN false =
        .ok (dropZeros (addAll (addAll [] sc) (addKey mc kNn (isoN : Rat)))) := by
      unfold sequenceComp
      have c1 : carrierCheck (popped dl (relabelled b ch iso)) t = .ok () := by
        unfold carrierCheck
        have : effAdducts (popped dl (relabelled b ch iso)) = none := by
          unfold effAdducts
          have ha : (popped dl (relabelled b ch iso)).adducts = none := hpl.adducts
          rw [ha]
        rw [this]
        simp only [hcc, if_true]
        rfl
      have c2 : (popped dl (relabelled b ch iso)).seq = b.seq := rfl
      have c3 : seqBaseComp (popped dl (relabelled b ch iso)) t = .ok (addAll (addAll rc adj) car) := by
        unfold seqBaseComp
        rw [c2, r1]
        simp only [bind, Except.bind, hadj]
        have : carrierComp (popped dl (relabelled b ch iso)) t = .ok car := by
          unfold carrierComp
          have ha : effAdducts (popped dl (relabelled b ch iso)) = none := by
            unfold effAdducts
            have ha' : (popped dl (relabelled b ch iso)).adducts = none := hpl.adducts
            rw [ha']
          have hc : (popped dl (relabelled b ch iso)).charge = some ch := rfl
          rw [ha, hc]
          exact hcar
        rw [this]
        rfl
      have c4 : applyLabels (popped dl (relabelled b ch iso)) false (addAll (addAll rc adj) car)
          (addKey mc kNn (isoN : Rat)) = .ok (sc, addKey mc kNn (isoN : Rat)) := by
        unfold applyLabels
        have : (popped dl (relabelled b ch iso)).isotope = some iso := rfl
        rw [this]
        simp only [bind, Except.bind, s1]
        rfl
      rw [c1, c2]
      simp only [hres.notB, hres.notZ, bind, Except.bind, Bool.false_eq_true, if_false, c3, m1, c4]
      rfl
    have ep : staticProbe menv (relabelled b ch iso) = .ok () := by
      unfold staticProbe
      have : (relabelled b ch iso).static = none := hpl.static
      rw [this]; rfl
    rw [e0]
    simp only [ep, e1, bind, Except.bind, e2, e3, e4, e5]
    rfl
  · have m2' : chemMassL μ mc = optC μ cp (b.nterm.map (keep dl)) + optC μ cp (b.cterm.map (keep dl)) +
        intC μ cp (b.internal.map (keepInt dl)) := m2
    rw [chemMassL_dropZeros, chemMassL_addAll, chemMassL_addAll, chemMassL_nil, chemMassL_addKey, s2, m2',
      chemMassL_addAll, chemMassL_addAll, r2]
    ring
  · exact AK_filter K _ _ (AK_addAll K _ _ (AK_addAll K _ _ (AK_nil K) s3) (AK_addKey K _ _ _ m3 hn))

theorem optD_optC (μ : Elem → Rat) (dl cp) (o : Option (List Mod)) :
    optD dl o + optC μ cp (o.map (keep dl)) = optSum (modWeight μ dl cp) o := by
  cases o with
  | none => simp [optD, optC, optSum]
  | some l => exact dsum_csum μ dl cp l

theorem intD_intC (μ : Elem → Rat) (dl cp) (o : Option (List (Int × List Mod))) :
    intD dl o + intC μ cp (o.map (keepInt dl)) = intSum (modWeight μ dl cp) o := by
  cases o with
  | none => simp [intD, intC, intSum]
  | some d =>
    simp only [intD, intC, intSum, Option.map_some, keepInt, List.map_map]
    induction d with
    | nil => simp
    | cons p d ih =>
      simp only [List.map_cons, List.sum_cons, Function.comp] at ih ⊢
      have := dsum_csum μ dl cp p.2
      linarith

/-- the mass function of `chem_mass` and its domain -/
def muOf (mono : Bool) : Elem → Rat := fun e => (elemMass mono e).getD 0
def knownOf (mono : Bool) : Elem → Prop := fun e => (elemMass mono e).isSome = true

/-- **the label path of `mass` on a plain labelled annotation**: labelled residues + placed modifications + labelled
(ion-type adjustment + charge carriers) + isotope·neutron + loss -/
theorem massOf_labelled (menv : Pept.Env) (mono : Bool) (dl : Mod → Option Rat) (cp : Mod → Comp)
    (aa : Char → Comp) (b : Annotation) (i0 : Mod) (is : List Mod) (map : List (Chem.Key × Chem.Key))
    (hpl : PlainL b (i0 :: is)) (hparse : parseIsotopeMods (i0 :: is) = .ok map)
    (hmapK : ∀ p ∈ map, knownOf mono p.2)
    (hres : ResiduesResolve (knownOf mono) aa b.seq) (hmods : ModsResolve menv (knownOf mono) dl cp)
    (t : Chem.Key) (ch isoN : Int) (loss : Rat) (adj car : Comp)
    (hadj : lookup t neutralAdj = some adj) (hadjK : AK (knownOf mono) adj)
    (hcar : defaultCarrier ch t = .ok car) (hcarK : AK (knownOf mono) car)
    (hcc : (t = ionP || t = ionN || (lookup t Gen.baseAdducts).isSome) = true) (hn : knownOf mono kNn) :
    massOf CompCalc.compMass menv mono b t ch isoN loss =
      .ok (plainWeight (fun x => chemMassL (labelMu map (muOf mono)) (aa x)) (modWeight (muOf mono) dl cp) b +
        (chemMassL (labelMu map (muOf mono)) adj + chemMassL (labelMu map (muOf mono)) car) +
        (isoN : Rat) * muOf mono kNn + loss) := by
  obtain ⟨c, hc, hm, hk⟩ := compMass_labelled menv (knownOf mono) dl cp aa (muOf mono) b (i0 :: is) map hpl hparse
    hmapK hres hmods t ch isoN adj car hadj hadjK hcar hcarK hcc hn
  have hall : c.all (fun p => (elemMass mono p.1).isSome) = true := by
    rw [List.all_eq_true]
    intro p hp
    exact hk p hp
  have hchem := chemMass_ok mono c hall
  unfold massOf massWith resolveArgs
  simp only [hpl.adducts, effLabels, effCharge, hpl.isotope, hres.notB, hres.notZ, bind, Except.bind, pure, Except.pure,
    Bool.false_eq_true, if_false, hc, hchem, Chem.roundOpt]
  congr 1
  have h1 := optD_optC (muOf mono) dl cp b.nterm
  have h2 := optD_optC (muOf mono) dl cp b.cterm
  have h3 := intD_intC (muOf mono) dl cp b.internal
  have hm' : chemMassL (muOf mono) c = _ := hm
  show chemMassL (muOf mono) c + _ + loss = _
  rw [hm']
  simp only [plainWeight]
  linarith

/-! ### assembling `LabelledDecomposes` for the composition path -/

theorem plainL_slice (a : Annotation) (iso : List Mod) (s e : Int) (hp : PlainL a iso) : PlainL (slice a s e) iso := by
  obtain ⟨h1, h2, h3, h4, _, h6⟩ := slice_global a s e
  exact ⟨by rw [h2, hp.static], by rw [h1, hp.isotope], by rw [h3, hp.labile], by rw [h4, hp.unknown],
    slice_intervals_none a s e hp.intervals, by rw [h6, hp.adducts]⟩

theorem residuesResolve_slice (K : Elem → Prop) (aa : Char → Comp) (a : Annotation) (s e : Int)
    (hr : ResiduesResolve K aa a.seq) : ResiduesResolve K aa (slice a s e).seq := by
  rw [slice_seq]
  refine ⟨fun c hc => hr.residues c (mem_pySlice _ _ _ _ hc), ?_, ?_⟩
  · have := hr.notB
    simp only [List.contains_eq_mem, decide_eq_false_iff_not] at this ⊢
    exact fun h => this (mem_pySlice _ _ _ _ h)
  · have := hr.notZ
    simp only [List.contains_eq_mem, decide_eq_false_iff_not] at this ⊢
    exact fun h => this (mem_pySlice _ _ _ _ h)

/-- the table facts about one fragment ion type `t` that the label path needs -/
structure LabelTables (mono : Bool) (t : Chem.Key) (adj base : Comp) (txt : List Nat) : Prop where
  notP : t ≠ ionP
  notN : t ≠ ionN
  hadj : lookup t neutralAdj = some adj
  adjK : AK (knownOf mono) adj
  text : lookup t Gen.baseAdducts = some txt
  hbase : chargeAdductsCompStr txt = .ok base
  baseK : AK (knownOf mono) base
  adjN : lookup ionN neutralAdj = some []
  kH : knownOf mono kH
  kE : knownOf mono kE
  kNn : knownOf mono kNn

/-- the default charge carrier of a fragment ion type: `charge − 1` protons plus the base adducts -/
def carrierOf (base : Comp) (ch : Int) : Comp := addAll (addAll [] (protonsComp (ch - 1))) base

theorem AK_protons (mono : Bool) (hH : knownOf mono kH) (hE : knownOf mono kE) (n : Int) :
    AK (knownOf mono) (protonsComp n) := by
  intro q hq
  simp only [protonsComp, List.mem_cons, List.not_mem_nil, or_false] at hq
  rcases hq with rfl | rfl
  · exact hH
  · exact hE

theorem defaultCarrier_fragment (mono : Bool) (t : Chem.Key) (adj base : Comp) (txt : List Nat)
    (ht : LabelTables mono t adj base txt) (ch : Int) :
    defaultCarrier ch t = .ok (carrierOf base ch) ∧ AK (knownOf mono) (carrierOf base ch) := by
  constructor
  · unfold defaultCarrier
    have : (t = ionP || t = ionN) = false := by simp [ht.notP, ht.notN]
    simp only [this, Bool.false_eq_true, if_false, ht.text, bind, Except.bind, ht.hbase]
    rfl
  · exact AK_addAll _ _ _ (AK_addAll _ _ _ (AK_nil _) (AK_protons mono ht.kH ht.kE _)) ht.baseK

/-- the offset of ion type `t` at charge `ch` under the labels: labelled neutral adjustment + labelled carriers -/
def labelOffset (mono : Bool) (map : List (Chem.Key × Chem.Key)) (adj base : Comp) (ch : Int) : Rat :=
  chemMassL (labelMu map (muOf mono)) adj + chemMassL (labelMu map (muOf mono)) (carrierOf base ch)

/-- **the composition path of `mass` satisfies `LabelledDecomposes`** on a plain labelled working copy -/
theorem labelledDecomposes_compMass (menv : Pept.Env) (mono : Bool) (dl : Mod → Option Rat) (cp : Mod → Comp)
    (aa : Char → Comp) (a : Annotation) (i0 : Mod) (is : List Mod) (map : List (Chem.Key × Chem.Key))
    (hpl : PlainL a (i0 :: is)) (hparse : parseIsotopeMods (i0 :: is) = .ok map)
    (hmapK : ∀ p ∈ map, knownOf mono p.2)
    (hres : ResiduesResolve (knownOf mono) aa a.seq) (hmods : ModsResolve menv (knownOf mono) dl cp)
    (t : Chem.Key) (adj base : Comp) (txt : List Nat) (ht : LabelTables mono t adj base txt) :
    LabelledDecomposes CompCalc.compMass menv mono a
      (fun x => chemMassL (labelMu map (muOf mono)) (aa x)) (modWeight (muOf mono) dl cp) t
      (labelOffset mono map adj base) (muOf mono kNn) := by
  have hcc : (t = ionP || t = ionN || (lookup t Gen.baseAdducts).isSome) = true := by simp [ht.text]
  refine ⟨?_, ?_, ?_⟩
  · intro s e c iso loss
    obtain ⟨hc1, hc2⟩ := defaultCarrier_fragment mono t adj base txt ht c
    exact massOf_labelled menv mono dl cp aa (slice a s e) i0 is map (plainL_slice a _ s e hpl) hparse hmapK
      (residuesResolve_slice _ aa a s e hres) hmods t c iso loss adj (carrierOf base c) ht.hadj ht.adjK hc1 hc2 hcc ht.kNn
  · intro s e
    have hcarN : defaultCarrier 0 ionN = .ok (addAll [] (protonsComp 0)) := by
      unfold defaultCarrier
      have : (ionN = ionP || ionN = ionN) = true := by decide
      simp only [this, if_true]
      rfl
    have hccN : (ionN = ionP || ionN = ionN || (lookup ionN Gen.baseAdducts).isSome) = true := by
      have : (ionN = ionP || ionN = ionN) = true := by decide
      simp [this]
    have := massOf_labelled menv mono dl cp aa (slice a s e) i0 is map (plainL_slice a _ s e hpl) hparse hmapK
      (residuesResolve_slice _ aa a s e hres) hmods ionN 0 0 0 [] (addAll [] (protonsComp 0)) ht.adjN (AK_nil _) hcarN
      (AK_addAll _ _ _ (AK_nil _) (AK_protons mono ht.kH ht.kE 0)) hccN ht.kNn
    rw [this]
    congr 1
    simp only [chemMassL_addAll, chemMassL_nil, protonsComp, chemMassL_cons]
    push_cast
    ring
  · intro c
    obtain ⟨hc1, hc2⟩ := defaultCarrier_fragment mono t adj base txt ht c
    have hb : PlainL (blankOf a) (i0 :: is) := ⟨rfl, hpl.isotope, rfl, rfl, rfl, rfl⟩
    have hr : ResiduesResolve (knownOf mono) aa (blankOf a).seq :=
      ⟨fun c hc => (by cases hc), rfl, rfl⟩
    have := massOf_labelled menv mono dl cp aa (blankOf a) i0 is map hb hparse hmapK hr hmods t c 0 0 adj
      (carrierOf base c) ht.hadj ht.adjK hc1 hc2 hcc ht.kNn
    rw [this]
    congr 1
    simp only [plainWeight, blankOf, optSum, intSum, labelOffset, List.map_nil, List.sum_nil]
    push_cast
    ring


/-! ### the table facts as a Boolean check (for `decide +kernel` on the generated tables) -/

def labelTablesB (mono : Bool) (t : Chem.Key) (adj base : Comp) (txt : List Nat) : Bool :=
  decide (t ≠ ionP) && decide (t ≠ ionN) && decide (lookup t neutralAdj = some adj) &&
  adj.all (fun q => (elemMass mono q.1).isSome) && decide (lookup t Gen.baseAdducts = some txt) &&
  (match chargeAdductsCompStr txt with
    | .ok b => decide (b = base)
    | .error _ => false) &&
  base.all (fun q => (elemMass mono q.1).isSome) && decide (lookup ionN neutralAdj = some []) &&
  (elemMass mono kH).isSome && (elemMass mono kE).isSome && (elemMass mono kNn).isSome

theorem labelTables_of_B (mono : Bool) (t : Chem.Key) (adj base : Comp) (txt : List Nat)
    (h : labelTablesB mono t adj base txt = true) : LabelTables mono t adj base txt := by
  unfold labelTablesB at h
  simp only [Bool.and_eq_true, decide_eq_true_eq, List.all_eq_true] at h
  obtain ⟨⟨⟨⟨⟨⟨⟨⟨⟨⟨h1, h2⟩, h3⟩, h4⟩, h5⟩, h6⟩, h7⟩, h8⟩, h9⟩, h10⟩, h11⟩ := h
  have hb : chargeAdductsCompStr txt = .ok base := by
    cases hx : chargeAdductsCompStr txt with
    | ok b => rw [hx] at h6; simp only [decide_eq_true_eq] at h6; rw [h6]
    | error e => rw [hx] at h6; cases h6
  exact ⟨h1, h2, h3, fun q hq => h4 q hq, h5, hb, fun q hq => h7 q hq, h8, h9, h10, h11⟩

/-- the table entries of an ion type, read off the generated tables -/
def adjOfKey (t : Chem.Key) : Comp := (lookup t neutralAdj).getD []
def txtOfKey (t : Chem.Key) : List Nat := (lookup t Gen.baseAdducts).getD []
def baseOfKey (t : Chem.Key) : Comp :=
  match chargeAdductsCompStr (txtOfKey t) with
  | .ok b => b
  | .error _ => []

end Fragment
