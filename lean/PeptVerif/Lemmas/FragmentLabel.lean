import PeptVerif.Model.CompCalc
import PeptVerif.Lemmas.Mass
import PeptVerif.Lemmas.FragmentMass
/-!
The composition path of `mass` (isotope-labelled peptides; `Model/CompCalc.lean`, read-only) decomposes into
residues + placed modifications + an offset that depends on the ion type and the charge.  Used to discharge the
hypothesis `LabelledDecomposes` of `Lemmas/FragmentMass.lean`.

Key fact: isotope substitution on a composition whose keys are distinct is a change of the mass function —
`chemMassL μ (relabel c) = chemMassL (labelMu map μ) c` — hence linear.
-/
namespace Fragment
open Pept Pept.Mass Pept.CompCalc Chem

/-! ### compositions with distinct keys -/

def keys (c : Comp) : List Elem := c.map (·.1)

/-- distinct keys (a Python dict) -/
def KN (c : Comp) : Prop := (keys c).Nodup

theorem keys_addKey (c : Comp) (e : Elem) (k : Rat) :
    keys (addKey c e k) = if e ∈ keys c then keys c else keys c ++ [e] := by
  induction c with
  | nil => simp [addKey, keys]
  | cons p c ih =>
    obtain ⟨e', k'⟩ := p
    simp only [addKey]
    by_cases h : e' = e
    · subst h; simp [keys]
    · have hne : ¬ e = e' := fun h' => h h'.symm
      simp only [h, if_false]
      show e' :: keys (addKey c e k) = _
      rw [ih]
      by_cases hm : e ∈ keys c
      · have hm' : e ∈ keys ((e', k') :: c) := List.mem_cons_of_mem _ hm
        rw [if_pos hm, if_pos hm']; rfl
      · have hm' : e ∉ keys ((e', k') :: c) := by
          intro hh
          rcases List.mem_cons.1 hh with h1 | h1
          · exact hne h1
          · exact hm h1
        rw [if_neg hm, if_neg hm']; rfl

theorem KN_addKey (c : Comp) (e : Elem) (k : Rat) (h : KN c) : KN (addKey c e k) := by
  unfold KN at *
  rw [keys_addKey]
  split
  · exact h
  · rename_i hm
    rw [List.nodup_append]
    refine ⟨h, by simp, ?_⟩
    intro a ha b hb hab
    simp only [List.mem_singleton] at hb
    subst hb; subst hab
    exact hm ha

theorem KN_addAll (a b : Comp) (h : KN a) : KN (addAll a b) := by
  unfold addAll
  induction b generalizing a with
  | nil => exact h
  | cons p b ih => exact ih _ (KN_addKey a p.1 p.2 h)

theorem KN_nil : KN [] := by simp [KN, keys]

theorem lookup_eq_none_iff (e : Elem) (c : Comp) : lookup e c = none ↔ e ∉ keys c := by
  induction c with
  | nil => simp [lookup, keys]
  | cons p c ih =>
    obtain ⟨e', k'⟩ := p
    simp only [lookup]
    by_cases h : e' = e
    · subst h; simp [keys]
    · have hne : ¬ e = e' := fun h' => h h'.symm
      simp only [h, if_false, ih]
      simp [keys, hne]

/-- the count of a key (0 when absent) -/
def cnt (e : Elem) (c : Comp) : Rat := (lookup e c).getD 0

/-- change the mass of one key -/
def upd (μ : Elem → Rat) (f : Elem) (v : Rat) : Elem → Rat := fun e => if e = f then v else μ e

theorem chemMassL_upd (μ : Elem → Rat) (f : Elem) (v : Rat) (c : Comp) (h : KN c) :
    chemMassL (upd μ f v) c = chemMassL μ c + (v - μ f) * cnt f c := by
  induction c with
  | nil => simp [chemMassL_nil, cnt, lookup]
  | cons p c ih =>
    obtain ⟨e', k'⟩ := p
    have hc : KN c := by unfold KN keys at *; exact (List.nodup_cons.1 h).2
    have hnot : e' ∉ keys c := by unfold KN keys at *; exact (List.nodup_cons.1 h).1
    rw [chemMassL_cons, chemMassL_cons, ih hc]
    by_cases he : e' = f
    · subst he
      have h0 : cnt e' c = 0 := by
        unfold cnt; rw [(lookup_eq_none_iff e' c).2 hnot]; rfl
      have h1 : cnt e' ((e', k') :: c) = k' := by simp [cnt, lookup]
      have h2 : upd μ e' v e' = v := by simp [upd]
      simp only [] 
      rw [h1, h2, h0]; ring
    · have h1 : cnt f ((e', k') :: c) = cnt f c := by simp [cnt, lookup, he]
      have h2 : upd μ f v e' = μ e' := by simp [upd, he]
      simp only []
      rw [h1, h2]; ring

theorem chemMassL_delKey (μ : Elem → Rat) (f : Elem) (c : Comp) (h : KN c) :
    chemMassL μ (delKey c f) = chemMassL μ c - μ f * cnt f c := by
  induction c with
  | nil => simp [delKey, chemMassL_nil, cnt, lookup]
  | cons p c ih =>
    obtain ⟨e', k'⟩ := p
    have hc : KN c := by unfold KN keys at *; exact (List.nodup_cons.1 h).2
    have hnot : e' ∉ keys c := by unfold KN keys at *; exact (List.nodup_cons.1 h).1
    have ih' := ih hc
    unfold delKey at ih' ⊢
    by_cases he : e' = f
    · subst he
      have h0 : lookup e' c = none := (lookup_eq_none_iff e' c).2 hnot
      simp only [List.filter_cons, bne_self_eq_false, Bool.false_eq_true, if_false, ih', chemMassL_cons, cnt, lookup,
        if_true, h0, Option.getD_some, Option.getD_none]
      ring
    · have hb : ((e', k').1 != f) = true := by simpa using he
      simp only [List.filter_cons, hb, if_true, chemMassL_cons, ih', cnt, lookup, he, if_false]
      ring

theorem chemMassL_setKey (μ : Elem → Rat) (t : Elem) (v : Rat) (c : Comp) (ht : t ∈ keys c) :
    chemMassL μ (setKey c t v) = chemMassL μ c + μ t * (v - cnt t c) := by
  induction c with
  | nil => simp [keys] at ht
  | cons p c ih =>
    obtain ⟨e', k'⟩ := p
    simp only [setKey]
    by_cases he : e' = t
    · subst he
      simp only [if_true, chemMassL_cons, cnt, lookup, Option.getD_some]
      ring
    · have ht' : t ∈ keys c := by
        simp only [keys, List.map_cons, List.mem_cons] at ht
        rcases ht with h | h
        · exact absurd h.symm he
        · exact h
      simp only [he, if_false, chemMassL_cons, ih ht', cnt, lookup]
      ring

theorem keys_setKey (t : Elem) (v : Rat) (c : Comp) (ht : t ∈ keys c) : keys (setKey c t v) = keys c := by
  induction c with
  | nil => simp [keys] at ht
  | cons p c ih =>
    obtain ⟨e', k'⟩ := p
    simp only [setKey]
    by_cases he : e' = t
    · simp [he, keys]
    · have ht' : t ∈ keys c := by
        simp only [keys, List.map_cons, List.mem_cons] at ht
        rcases ht with h | h
        · exact absurd h.symm he
        · exact h
      simp only [he, if_false]
      show e' :: keys (setKey c t v) = e' :: keys c
      rw [ih ht']

theorem keys_delKey (f : Elem) (c : Comp) : keys (delKey c f) = (keys c).filter (· != f) := by
  unfold delKey keys
  induction c with
  | nil => rfl
  | cons p c ih =>
    by_cases h : p.1 = f
    · simp [List.filter_cons, h, ih]
    · simp [List.filter_cons, h, ih]

theorem cnt_setKey_ne (f t : Elem) (v : Rat) (c : Comp) (h : f ≠ t) : cnt f (setKey c t v) = cnt f c := by
  unfold cnt
  induction c with
  | nil => simp [setKey, lookup, Ne.symm h]
  | cons p c ih =>
    obtain ⟨e', k'⟩ := p
    simp only [setKey]
    by_cases he : e' = t
    · have hf : ¬ e' = f := fun h' => h (h'.symm.trans he)
      simp only [he, if_true, lookup]
      rw [he] at hf
      simp only [hf, if_false]
    · simp only [he, if_false, lookup]
      split
      · rfl
      · exact ih

theorem cnt_append_ne (f t : Elem) (n : Rat) (c : Comp) (h : f ≠ t) : cnt f (c ++ [(t, n)]) = cnt f c := by
  unfold cnt
  induction c with
  | nil => simp [lookup, Ne.symm h]
  | cons p c ih =>
    obtain ⟨e', k'⟩ := p
    simp only [List.cons_append, lookup]
    split
    · rfl
    · exact ih

/-! ### one relabelling step, and all of them -/

/-- the loop body of `apply_isotope_mods_to_composition` for one (element → label) entry -/
def relabelStep (c : Comp) (p : Chem.Key × Chem.Key) : Comp :=
  match lookup p.1 c with
  | none => c
  | some n =>
    if p.1 = p.2 then c
    else
      let c' := match lookup p.2 c with
        | some k => setKey c p.2 (k + n)
        | none => c ++ [(p.2, n)]
      delKey c' p.1

theorem relabelStep_KN (c : Comp) (p : Chem.Key × Chem.Key) (h : KN c) : KN (relabelStep c p) := by
  unfold relabelStep
  cases hl : lookup p.1 c with
  | none => exact h
  | some n =>
    simp only []
    split
    · exact h
    · cases ht : lookup p.2 c with
      | some k =>
        simp only []
        have hmem : p.2 ∈ keys c := by
          by_contra hc; rw [(lookup_eq_none_iff _ _).2 hc] at ht; cases ht
        unfold KN
        rw [keys_delKey, keys_setKey _ _ _ hmem]
        exact List.Nodup.sublist List.filter_sublist h
      | none =>
        simp only []
        have hnot : p.2 ∉ keys c := (lookup_eq_none_iff _ _).1 ht
        unfold KN
        rw [keys_delKey]
        refine List.Nodup.sublist List.filter_sublist ?_
        show (keys (c ++ [(p.2, n)])).Nodup
        unfold keys
        rw [List.map_append, List.nodup_append]
        refine ⟨h, by simp, ?_⟩
        intro a ha b hb hab
        simp only [List.map_cons, List.map_nil, List.mem_singleton] at hb
        subst hb; subst hab
        exact hnot ha

/-- one step moves the count of `p.1` to `p.2`: as a mass, the element `p.1` now weighs what `p.2` weighs -/
theorem relabelStep_mass (μ : Elem → Rat) (c : Comp) (p : Chem.Key × Chem.Key) (h : KN c) :
    chemMassL μ (relabelStep c p) = chemMassL (upd μ p.1 (μ p.2)) c := by
  rw [chemMassL_upd μ p.1 (μ p.2) c h]
  unfold relabelStep
  cases hl : lookup p.1 c with
  | none => simp [cnt, hl]
  | some n =>
    have hcnt : cnt p.1 c = n := by simp [cnt, hl]
    simp only []
    split
    · rename_i heq; rw [← heq]; ring
    · rename_i hne
      cases ht : lookup p.2 c with
      | some k =>
        simp only []
        have hmem : p.2 ∈ keys c := by
          by_contra hc; rw [(lookup_eq_none_iff _ _).2 hc] at ht; cases ht
        have hKN : KN (setKey c p.2 (k + n)) := by unfold KN; rw [keys_setKey _ _ _ hmem]; exact h
        have hk : cnt p.2 c = k := by simp [cnt, ht]
        rw [chemMassL_delKey μ p.1 _ hKN, chemMassL_setKey μ p.2 _ c hmem, cnt_setKey_ne _ _ _ _ hne, hcnt, hk]
        ring
      | none =>
        simp only []
        have hnot : p.2 ∉ keys c := (lookup_eq_none_iff _ _).1 ht
        have hKN : KN (c ++ [(p.2, n)]) := by
          unfold KN keys
          rw [List.map_append, List.nodup_append]
          refine ⟨h, by simp, ?_⟩
          intro a ha b hb hab
          simp only [List.map_cons, List.map_nil, List.mem_singleton] at hb
          subst hb; subst hab
          exact hnot ha
        rw [chemMassL_delKey μ p.1 _ hKN, chemMassL_append, chemMassL_cons, chemMassL_nil, cnt_append_ne _ _ _ _ hne,
          hcnt]
        ring

/-- the mass function after all substitutions (the last entry is applied innermost) -/
def labelMu (map : List (Chem.Key × Chem.Key)) (μ : Elem → Rat) : Elem → Rat :=
  map.foldr (fun p ν => upd ν p.1 (ν p.2)) μ

theorem relabel_mass (μ : Elem → Rat) (map : List (Chem.Key × Chem.Key)) (c : Comp) (h : KN c) :
    chemMassL μ (map.foldl relabelStep c) = chemMassL (labelMu map μ) c ∧ KN (map.foldl relabelStep c) := by
  induction map generalizing c with
  | nil => exact ⟨rfl, h⟩
  | cons p ps ih =>
    obtain ⟨h1, h2⟩ := ih (relabelStep c p) (relabelStep_KN c p h)
    refine ⟨?_, h2⟩
    rw [List.foldl_cons, h1]
    exact relabelStep_mass (labelMu ps μ) c p h

/-! ### compositions over known elements -/

/-- all keys satisfy `K` (e.g. "has a mass") -/
def AK (K : Elem → Prop) (c : Comp) : Prop := ∀ q ∈ c, K q.1

theorem AK_nil (K : Elem → Prop) : AK K [] := by intro q hq; cases hq

theorem AK_addKey (K : Elem → Prop) (c : Comp) (e : Elem) (k : Rat) (h : AK K c) (he : K e) : AK K (addKey c e k) := by
  induction c with
  | nil => intro q hq; simp only [addKey, List.mem_singleton] at hq; subst hq; exact he
  | cons p c ih =>
    obtain ⟨e', k'⟩ := p
    have hc : AK K c := fun q hq => h q (List.mem_cons_of_mem _ hq)
    have hp : K e' := h (e', k') List.mem_cons_self
    simp only [addKey]
    split
    · intro q hq
      rcases List.mem_cons.1 hq with h1 | h1
      · subst h1; exact hp
      · exact hc q h1
    · intro q hq
      rcases List.mem_cons.1 hq with h1 | h1
      · subst h1; exact hp
      · exact ih hc q h1

theorem AK_addAll (K : Elem → Prop) (a b : Comp) (ha : AK K a) (hb : AK K b) : AK K (addAll a b) := by
  unfold addAll
  induction b generalizing a with
  | nil => exact ha
  | cons p b ih =>
    exact ih _ (AK_addKey K a p.1 p.2 ha (hb p List.mem_cons_self)) (fun q hq => hb q (List.mem_cons_of_mem _ hq))

theorem AK_filter (K : Elem → Prop) (c : Comp) (f : Elem × Rat → Bool) (h : AK K c) : AK K (c.filter f) :=
  fun q hq => h q (List.mem_filter.1 hq).1

theorem AK_setKey (K : Elem → Prop) (c : Comp) (t : Elem) (v : Rat) (h : AK K c) (ht : K t) : AK K (setKey c t v) := by
  induction c with
  | nil => intro q hq; simp only [setKey, List.mem_singleton] at hq; subst hq; exact ht
  | cons p c ih =>
    obtain ⟨e', k'⟩ := p
    have hc : AK K c := fun q hq => h q (List.mem_cons_of_mem _ hq)
    have hp : K e' := h (e', k') List.mem_cons_self
    simp only [setKey]
    split
    · intro q hq
      rcases List.mem_cons.1 hq with h1 | h1
      · subst h1; exact hp
      · exact hc q h1
    · intro q hq
      rcases List.mem_cons.1 hq with h1 | h1
      · subst h1; exact hp
      · exact ih hc q h1

theorem AK_scale (K : Elem → Prop) (k : Rat) (c : Comp) (h : AK K c) : AK K (scale k c) := by
  intro q hq
  simp only [scale, List.mem_map] at hq
  obtain ⟨p, hp, rfl⟩ := hq
  exact h p hp

theorem AK_relabelStep (K : Elem → Prop) (c : Comp) (p : Chem.Key × Chem.Key) (h : AK K c) (ht : K p.2) :
    AK K (relabelStep c p) := by
  unfold relabelStep
  cases lookup p.1 c with
  | none => exact h
  | some n =>
    simp only []
    split
    · exact h
    · cases lookup p.2 c with
      | some k => exact AK_filter K _ _ (AK_setKey K c p.2 _ h ht)
      | none =>
        refine AK_filter K _ _ ?_
        intro q hq
        rcases List.mem_append.1 hq with h1 | h1
        · exact h q h1
        · simp only [List.mem_singleton] at h1; subst h1; exact ht

theorem AK_relabel (K : Elem → Prop) (map : List (Chem.Key × Chem.Key)) (c : Comp) (h : AK K c)
    (ht : ∀ p ∈ map, K p.2) : AK K (map.foldl relabelStep c) := by
  induction map generalizing c with
  | nil => exact h
  | cons p ps ih =>
    exact ih _ (AK_relabelStep K c p h (ht p List.mem_cons_self)) (fun q hq => ht q (List.mem_cons_of_mem _ hq))

/-- **isotope substitution is a change of the mass function** (hence linear in the composition) -/
theorem applyIsotopeMods_mass (μ : Elem → Rat) (K : Elem → Prop) (mods : List Mod) (map : List (Chem.Key × Chem.Key))
    (hp : parseIsotopeMods mods = .ok map) (hK : ∀ p ∈ map, K p.2) (c : Comp) (h : KN c) (hc : AK K c) :
    ∃ c', applyIsotopeMods c mods = .ok c' ∧ chemMassL μ c' = chemMassL (labelMu map μ) c ∧ AK K c' := by
  refine ⟨map.foldl relabelStep c, ?_, (relabel_mass μ map c h).1, AK_relabel K map c hc hK⟩
  unfold applyIsotopeMods
  rw [hp]
  rfl

end Fragment
