import PeptVerif.Model.ModBuilderRegex
import PeptVerif.Lemmas.RegexLite
import PeptVerif.Lemmas.ModBuilder
/-! Lemmas about the regex-subset matcher as used by `mod_builder.py` (C13). -/
set_option linter.unnecessarySeqFocus false
set_option linter.unusedSimpArgs false
namespace Pept
namespace ModBuilder
open RegexLite

/-- number of consuming items = length of every match of the pattern (items never alternate or repeat) -/
def consumeCount : Pattern → Nat
  | [] => 0
  | .consume _ :: ps => consumeCount ps + 1
  | .behind _ :: ps => consumeCount ps
  | .ahead _ :: ps => consumeCount ps
  | .aheadNot _ :: ps => consumeCount ps
  | .notAhead _ :: ps => consumeCount ps

theorem matchItems_len (p : Pattern) (before after : List Char) (k : Nat)
    (h : matchItems p before after = some k) : k = consumeCount p := by
  induction p generalizing before after k with
  | nil => simp [matchItems] at h; simp [consumeCount, h]
  | cons it ps ih =>
    cases it with
    | behind c =>
      cases before with
      | nil => simp [matchItems] at h
      | cons b bs =>
        simp only [matchItems] at h
        split at h
        · exact ih _ _ _ h
        · simp at h
    | ahead c =>
      cases after with
      | nil => simp [matchItems] at h
      | cons a as =>
        simp only [matchItems] at h
        split at h
        · exact ih _ _ _ h
        · simp at h
    | aheadNot c =>
      cases after with
      | nil => simp [matchItems] at h
      | cons a as =>
        simp only [matchItems] at h
        split at h
        · simp at h
        · exact ih _ _ _ h
    | notAhead c =>
      cases after with
      | nil => simp only [matchItems] at h; exact ih _ _ _ h
      | cons a as =>
        simp only [matchItems] at h
        split at h
        · simp at h
        · exact ih _ _ _ h
    | consume c =>
      cases after with
      | nil => simp [matchItems] at h
      | cons a as =>
        simp only [matchItems] at h
        split at h
        · cases hm : matchItems ps (a :: before) as with
          | none => simp [hm] at h
          | some j =>
            simp [hm] at h
            have := ih _ _ _ hm
            simp [consumeCount]; omega
        · simp at h

/-- every range starts at a position of the text, has the length of the pattern and ends inside the text -/
theorem rangesGo_spec (p : Pattern) (i : Nat) (before after : List Char) :
    ∀ r ∈ rangesGo p i before after,
      i ≤ r.1 ∧ r.2 = r.1 + consumeCount p ∧ r.2 ≤ i + after.length := by
  induction after generalizing i before with
  | nil =>
    intro r hr
    simp only [rangesGo] at hr
    cases hm : matchItems p before [] with
    | none => simp [hm] at hr
    | some k =>
      have hk := matchItems_le p before [] k hm
      have hl := matchItems_len p before [] k hm
      simp [hm] at hr
      subst hr
      simp at hk ⊢
      omega
  | cons c rest ih =>
    intro r hr
    simp only [rangesGo, List.mem_append] at hr
    rcases hr with hr | hr
    · cases hm : matchItems p before (c :: rest) with
      | none => simp [hm] at hr
      | some k =>
        have hk := matchItems_le p before (c :: rest) k hm
        have hl := matchItems_len p before (c :: rest) k hm
        simp [hm] at hr
        subst hr
        simp at hk ⊢
        omega
    · have := ih (i + 1) (c :: before) r hr
      simp; omega

/-- the ranges come in strictly increasing order of their start: every start position is tried once -/
theorem rangesGo_sorted (p : Pattern) (i : Nat) (before after : List Char) :
    (rangesGo p i before after).Pairwise fun r r' => r.1 < r'.1 := by
  induction after generalizing i before with
  | nil =>
    simp only [rangesGo]
    cases matchItems p before [] <;> simp
  | cons c rest ih =>
    simp only [rangesGo]
    rw [List.pairwise_append]
    refine ⟨?_, ih _ _, ?_⟩
    · cases matchItems p before (c :: rest) <;> simp
    · intro r hr r' hr'
      have h2 := (rangesGo_spec p (i + 1) (c :: before) rest r' hr').1
      cases hm : matchItems p before (c :: rest) with
      | none => simp [hm] at hr
      | some k =>
        simp [hm] at hr
        subst hr
        simp; omega

/-- the shift from the start of a match to the residue index used by `mod_builder.py` (offset -1):
`-1` for an empty match, `0` for a non-empty one -/
def shiftOf (p : Pattern) : Int := if consumeCount p = 0 then -1 else 0

theorem modSites_eq_map (p : Pattern) (s : List Char) :
    modSites p s = (matchRanges p s).map fun r => (r.1 : Int) + shiftOf p := by
  unfold modSites matchIndices indicesOfRanges matchRanges
  refine List.map_congr_left ?_
  intro r hr
  obtain ⟨-, h2, -⟩ := rangesGo_spec p 0 [] s r hr
  unfold shiftOf
  simp only [ne_eq, ite_not]
  split <;> split <;> omega

/-- hypothesis (1) of the C13 theorems, from the model of the matcher: no position twice -/
theorem modSites_sorted (p : Pattern) (s : List Char) : (modSites p s).Pairwise (· < ·) := by
  rw [modSites_eq_map, List.pairwise_map]
  refine (rangesGo_sorted p 0 [] s).imp ?_
  intro r r' h
  omega

theorem modSites_nodup (p : Pattern) (s : List Char) : (modSites p s).Nodup :=
  (modSites_sorted p s).imp (fun h => by omega)

/-- hypothesis (2): positions lie in `-1 … n-1`; a consuming pattern only yields residue indices `0 … n-1` -/
theorem modSites_bounds (p : Pattern) (s : List Char) (x : Int) (hx : x ∈ modSites p s) :
    -1 ≤ x ∧ x < (s.length : Int) ∧ (consumeCount p ≠ 0 → 0 ≤ x) := by
  rw [modSites_eq_map] at hx
  obtain ⟨r, hr, rfl⟩ := List.mem_map.mp hx
  obtain ⟨-, h2, h3⟩ := rangesGo_spec p 0 [] s r hr
  unfold shiftOf
  by_cases hc : consumeCount p = 0
  · simp [hc]; omega
  · simp [hc]; omega

/-- `get_regex_match_indices` (offset 0) as modelled for C06 is the same function of the ranges -/
theorem sitesGo_eq_ranges (p : Pattern) (i : Nat) (before after : List Char) :
    sitesGo p i before after = (rangesGo p i before after).map fun r => if r.1 = r.2 then r.1 else r.1 + 1 := by
  induction after generalizing i before with
  | nil =>
    simp only [sitesGo, rangesGo]
    cases hm : matchItems p before [] with
    | none => simp
    | some k => cases k <;> simp
  | cons c rest ih =>
    simp only [sitesGo, rangesGo, List.map_append, ih]
    congr 1
    cases hm : matchItems p before (c :: rest) with
    | none => simp
    | some k => cases k <;> simp

theorem modSites_eq_sites (p : Pattern) (s : List Char) :
    modSites p s = (sites p s).map fun (x : Nat) => (x : Int) - 1 := by
  unfold modSites matchIndices indicesOfRanges matchRanges sites
  rw [sitesGo_eq_ranges, List.map_map]
  refine List.map_congr_left ?_
  intro r _
  simp only [Function.comp, ne_eq, ite_not]
  split
  · omega
  · push_cast; omega

/-- a single residue class `K` / `[ST]`: exactly the residues of the class -/
theorem mem_modSites_class (cls : List Char) (s : List Char) (x : Int) :
    x ∈ modSites [.consume cls] s ↔ ∃ k : Nat, ∃ h : k < s.length, x = (k : Int) ∧ cls.contains s[k] = true := by
  rw [modSites_eq_sites]
  simp only [List.mem_map, sites, mem_sitesGo_consume1]
  constructor
  · rintro ⟨y, ⟨k, hk, rfl, hc⟩, rfl⟩
    exact ⟨k, hk, by push_cast; omega, hc⟩
  · rintro ⟨k, hk, rfl, hc⟩
    exact ⟨k + 1, ⟨k, hk, by omega, hc⟩, by push_cast; omega⟩

/-- the empty pattern `''` (a bare terminal value): every position `-1 … n-1` once -/
theorem mem_modSites_empty (s : List Char) (x : Int) : x ∈ modSites [] s ↔ -1 ≤ x ∧ x < (s.length : Int) := by
  rw [modSites_eq_sites]
  simp only [List.mem_map, mem_sites_zeroWidth [] (by simp), holdsAt_nil, and_true]
  constructor
  · rintro ⟨y, hy, rfl⟩; omega
  · rintro ⟨h1, h2⟩
    exact ⟨(x + 1).toNat, by omega, by omega⟩

/-! ### one residue with look-around conditions: `S(?=P)`, `(?<=K)P`, `(?<=[KR])[ST](?!P)` … -/

theorem matchItems_append_zeroWidth (pre q : Pattern) (hz : ∀ it ∈ pre, it.zeroWidth = true)
    (before after : List Char) :
    matchItems (pre ++ q) before after =
      if holdsAt pre before.head? after.head? = true then matchItems q before after else none := by
  induction pre with
  | nil => simp [holdsAt_nil]
  | cons it ps ih =>
    have hps : ∀ it ∈ ps, it.zeroWidth = true := fun x hx => hz x (List.mem_cons_of_mem _ hx)
    have hit := hz it (List.mem_cons_self)
    have ih' := ih hps
    rw [holdsAt_cons, List.cons_append]
    cases it with
    | consume c => simp [Item.zeroWidth] at hit
    | behind c =>
      cases before with
      | nil => simp [matchItems, Item.holds]
      | cons b bs =>
        simp only [matchItems, ih', Item.holds, List.head?_cons]
        grind
    | ahead c =>
      cases after with
      | nil => simp [matchItems, Item.holds]
      | cons a as =>
        simp only [matchItems, ih', Item.holds, List.head?_cons]
        grind
    | aheadNot c =>
      cases after with
      | nil => simp [matchItems, Item.holds]
      | cons a as =>
        simp only [matchItems, ih', Item.holds, List.head?_cons]
        grind
    | notAhead c =>
      cases after with
      | nil =>
        simp only [matchItems, ih', Item.holds, List.head?_nil, Bool.true_and]
        split <;> simp_all
      | cons a as =>
        simp only [matchItems, ih', Item.holds, List.head?_cons]
        grind

/-- the condition under which `pre ++ [consume cls] ++ post` matches the residue `c` with neighbours `prev`, `next` -/
def oneHolds (pre : Pattern) (cls : List Char) (post : Pattern) (prev : Option Char) (c : Char) (next : Option Char) :
    Bool :=
  holdsAt pre prev (some c) && cls.contains c && holdsAt post (some c) next

theorem matchItems_one (pre post : Pattern) (cls : List Char) (hpre : ∀ it ∈ pre, it.zeroWidth = true)
    (hpost : ∀ it ∈ post, it.zeroWidth = true) (before after : List Char) :
    matchItems (pre ++ .consume cls :: post) before after =
      match after with
      | [] => none
      | c :: rest => if oneHolds pre cls post before.head? c rest.head? = true then some 1 else none := by
  rw [matchItems_append_zeroWidth pre _ hpre]
  cases after with
  | nil => simp only [matchItems]; split <;> rfl
  | cons c rest =>
    simp only [matchItems, matchItems_zeroWidth post hpost, oneHolds, List.head?_cons]
    grind

theorem mem_rangesGo_one (pre post : Pattern) (cls : List Char) (hpre : ∀ it ∈ pre, it.zeroWidth = true)
    (hpost : ∀ it ∈ post, it.zeroWidth = true) (i : Nat) (before after : List Char) (r : Nat × Nat) :
    r ∈ rangesGo (pre ++ .consume cls :: post) i before after ↔
      ∃ k, ∃ h : k < after.length, r = (i + k, i + k + 1) ∧
        oneHolds pre cls post (prevAt before after k) after[k] after[k + 1]? = true := by
  induction after generalizing i before with
  | nil => simp [rangesGo, matchItems_one pre post cls hpre hpost]
  | cons c rest ih =>
    simp only [rangesGo, List.mem_append, ih, matchItems_one pre post cls hpre hpost]
    constructor
    · rintro (h | ⟨k, hk, rfl, hh⟩)
      · by_cases hc : oneHolds pre cls post before.head? c rest.head? = true
        · simp only [hc, if_true, List.mem_singleton] at h
          subst h
          refine ⟨0, by simp, by simp, ?_⟩
          simpa [prevAt, List.head?_eq_getElem?] using hc
        · simp [hc] at h
      · refine ⟨k + 1, by simp; omega, by simp; omega, ?_⟩
        cases k with
        | zero => simpa [prevAt] using hh
        | succ k => simpa [prevAt] using hh
    · rintro ⟨k, hk, rfl, hh⟩
      cases k with
      | zero =>
        left
        have hc : oneHolds pre cls post before.head? c rest.head? = true := by
          simpa [prevAt, List.head?_eq_getElem?] using hh
        simp [hc]
      | succ k =>
        right
        refine ⟨k, by simp at hk; omega, by simp; omega, ?_⟩
        cases k with
        | zero => simpa [prevAt] using hh
        | succ k => simpa [prevAt] using hh

theorem consumeCount_zeroWidth (p : Pattern) (hz : ∀ it ∈ p, it.zeroWidth = true) : consumeCount p = 0 := by
  induction p with
  | nil => rfl
  | cons it ps ih =>
    have hps : ∀ it ∈ ps, it.zeroWidth = true := fun x hx => hz x (List.mem_cons_of_mem _ hx)
    have hit := hz it (List.mem_cons_self)
    cases it <;> simp_all [consumeCount, Item.zeroWidth]

theorem consumeCount_one (pre post : Pattern) (cls : List Char) (hpre : ∀ it ∈ pre, it.zeroWidth = true)
    (hpost : ∀ it ∈ post, it.zeroWidth = true) : consumeCount (pre ++ .consume cls :: post) = 1 := by
  induction pre with
  | nil => simp [consumeCount, consumeCount_zeroWidth post hpost]
  | cons it ps ih =>
    have hps : ∀ it ∈ ps, it.zeroWidth = true := fun x hx => hpre x (List.mem_cons_of_mem _ hx)
    have hit := hpre it (List.mem_cons_self)
    cases it <;> simp_all [consumeCount, Item.zeroWidth]

/-- which residues a one-residue rule with look-around conditions addresses -/
theorem mem_modSites_one (pre post : Pattern) (cls : List Char) (hpre : ∀ it ∈ pre, it.zeroWidth = true)
    (hpost : ∀ it ∈ post, it.zeroWidth = true) (s : List Char) (x : Int) :
    x ∈ modSites (pre ++ .consume cls :: post) s ↔
      ∃ k : Nat, ∃ h : k < s.length, x = (k : Int) ∧
        oneHolds pre cls post (if k = 0 then none else s[k - 1]?) s[k] s[k + 1]? = true := by
  rw [modSites_eq_map]
  simp only [List.mem_map, matchRanges, mem_rangesGo_one pre post cls hpre hpost, shiftOf,
    consumeCount_one pre post cls hpre hpost]
  constructor
  · rintro ⟨r, ⟨k, hk, rfl, hh⟩, rfl⟩
    exact ⟨k, hk, by simp, by simpa [prevAt] using hh⟩
  · rintro ⟨k, hk, rfl, hh⟩
    exact ⟨_, ⟨k, hk, rfl, by simpa [prevAt] using hh⟩, by simp⟩

/-! ### targets -/

theorem resolveRules_sitesOK {α : Type} (s : List Char) (rules : List (Target × α))
    (h : ∀ r ∈ rules, ∀ l, r.1 = .sites l → l.Nodup) : ∀ r ∈ resolveRules s rules, r.1.Nodup := by
  intro r hr
  obtain ⟨r0, hr0, rfl⟩ := List.mem_map.mp hr
  cases ht : r0.1 with
  | sites l => simp only [Target.resolve, ht]; exact h r0 hr0 l ht
  | pat p => simp only [Target.resolve, ht]; exact modSites_nodup p s

end ModBuilder
end Pept
