import PeptVerif.Model.Mass
import PeptVerif.Lemmas.Fragment
/-!
Connection between the abstract-weight fragment model (`Model/Fragment.lean`) and the concrete mass model
(`Model/Mass.lean`, fast path): for a *plain* working copy (static rules written out, no isotope labels, no labile /
unknown-position / interval mods, no charge adducts) the per-residue components that `fragment` sums are the `mass` of
the one-residue slices, and their sum over a span plus the table offsets is the `mass` of the slice as that ion.
Core Lean only.
-/
namespace Fragment
open Pept Pept.Mass Chem

/-! ### `sumM` over lists whose elements all evaluate -/

theorem foldlM_ok {α} (f : α → Except Pept.Err Rat) (g : α → Rat) (l : List α) (acc : Rat)
    (h : ∀ x ∈ l, f x = .ok (g x)) :
    l.foldlM (fun acc x => do let v ← f x; pure (acc + v)) acc = .ok (acc + (l.map g).sum) := by
  induction l generalizing acc with
  | nil => simp [List.foldlM, pure, Except.pure, Rat.add_zero]
  | cons a l ih =>
    rw [List.foldlM_cons, h a List.mem_cons_self]
    show List.foldlM _ (acc + g a) l = _
    rw [ih _ (fun x hx => h x (List.mem_cons_of_mem _ hx))]
    simp [Rat.add_assoc]

theorem sumM_ok {α} (f : α → Except Pept.Err Rat) (g : α → Rat) (l : List α) (h : ∀ x ∈ l, f x = .ok (g x)) :
    sumM f l = .ok ((l.map g).sum) := by
  unfold sumM
  rw [foldlM_ok f g l 0 h, Rat.zero_add]

/-! ### the weight of a plain annotation -/

/-- Σ of the masses of a list of mods -/
def modsSum (mw : Mod → Rat) (l : List Mod) : Rat := (l.map mw).sum

def optSum (mw : Mod → Rat) : Option (List Mod) → Rat
  | none => 0
  | some l => modsSum mw l

def intSum (mw : Mod → Rat) : Option (List (Int × List Mod)) → Rat
  | none => 0
  | some d => (d.map fun p => modsSum mw p.2).sum

/-- residues + N-terminal + residue + C-terminal modifications -/
def plainWeight (w : Char → Rat) (mw : Mod → Rat) (b : Annotation) : Rat :=
  (b.seq.map w).sum + optSum mw b.nterm + intSum mw b.internal + optSum mw b.cterm

/-- no static rules, isotope labels, labile / unknown-position / interval mods, charge adducts: what is left of a
working copy of `fragment` without isotope labels -/
structure Plain (a : Annotation) : Prop where
  static : a.static = none
  isotope : a.isotope = none
  labile : a.labile = none
  unknown : a.unknown = none
  intervals : a.intervals = none
  adducts : a.adducts = none

/-- residues have table masses `w`, none of them is B or Z; every modification resolves to `mw` -/
structure Resolves (env : Pept.Env) (mono : Bool) (w : Char → Rat) (mw : Mod → Rat) (seq : List Char) : Prop where
  residues : ∀ c ∈ seq, aaMass mono c.toNat = some (w c)
  notB : seq.contains 'B' = false
  notZ : seq.contains 'Z' = false
  mods : ∀ m : Mod, modMass env mono m = .ok (mw m)

theorem sumOptMods_ok (env : Pept.Env) (mono : Bool) (mw : Mod → Rat) (h : ∀ m : Mod, modMass env mono m = .ok (mw m))
    (o : Option (List Mod)) : sumOptMods env mono o = .ok (optSum mw o) := by
  cases o with
  | none => rfl
  | some l => exact sumM_ok _ _ l (fun m _ => h m)

theorem internalMass_ok (env : Pept.Env) (mono : Bool) (mw : Mod → Rat)
    (h : ∀ m : Mod, modMass env mono m = .ok (mw m)) (o : Option (List (Int × List Mod))) :
    internalMass env mono o = .ok (intSum mw o) := by
  cases o with
  | none => rfl
  | some d =>
    exact sumM_ok _ (fun p => modsSum mw p.2) d (fun p _ => sumM_ok _ _ p.2 (fun m _ => h m))

theorem residueMass_ok (mono : Bool) (w : Char → Rat) (seq : List Char)
    (h : ∀ c ∈ seq, aaMass mono c.toNat = some (w c)) : residueMass mono seq = .ok ((seq.map w).sum) := by
  unfold residueMass
  apply sumM_ok
  intro c hc
  rw [h c hc]
  rfl

theorem labileMass_plain (env : Pept.Env) (mono : Bool) (b : Annotation) (ion : Chem.Key) (h : b.labile = none) :
    labileMass env mono b ion = .ok 0 := by
  unfold labileMass
  rw [h]
  split <;> rfl

theorem placedModsMass_plain (env : Pept.Env) (mono : Bool) (mw : Mod → Rat) (b : Annotation) (ion : Chem.Key)
    (hp : Plain b) (h : ∀ m : Mod, modMass env mono m = .ok (mw m)) :
    placedModsMass env mono b ion =
      .ok (0 + 0 + optSum mw b.nterm + 0 + intSum mw b.internal + optSum mw b.cterm) := by
  unfold placedModsMass
  simp only [labileMass_plain env mono b ion hp.labile, hp.unknown, hp.intervals, sumOptMods_ok env mono mw h,
    internalMass_ok env mono mw h, intervalsMass, bind, Except.bind, pure, Except.pure, optSum]

/-- `mass` of a plain annotation on the fast path, before the charge/ion adjustment is unfolded -/
theorem massWith_plain (cm : CompMassFn) (env : Pept.Env) (w : Char → Rat) (mw : Mod → Rat) (b : Annotation)
    (o : Opts) (hp : Plain b) (hr : Resolves env o.mono w mw b.seq) (ho1 : o.adducts = none)
    (ho2 : o.isotopeMods = none) :
    massWith cm env b o =
      Mass.adjustMass (plainWeight w mw b) (effCharge b o) o.ion o.mono o.isotope o.loss none o.precision := by
  have hfast : fastMass env b o ⟨effCharge b o, none, none⟩ =
      Mass.adjustMass (plainWeight w mw b) (effCharge b o) o.ion o.mono o.isotope o.loss none o.precision := by
    unfold fastMass staticMass
    rw [hp.static, residueMass_ok o.mono w b.seq hr.residues, placedModsMass_plain env o.mono mw b o.ion hp hr.mods]
    show Mass.adjustMass _ _ _ _ _ _ _ _ = _
    congr 1
    simp only [plainWeight]
    grind
  unfold massWith resolveArgs
  simp only [hp.adducts, ho1, hr.notB, hr.notZ, effLabels, ho2, hp.isotope, bind, Except.bind, pure, Except.pure,
    Bool.false_eq_true, if_false]
  exact hfast

/-! ### the weight of a slice is additive in the cut point -/

/-- the residue-mod part of a slice's weight, as a sum over the parent's entries inside the span -/
def intPart (mw : Mod → Rat) (d : List (Int × List Mod)) (s e : Int) : Rat :=
  ((d.filterMap fun p => if s ≤ p.1 ∧ p.1 < e then some (p.1 - s, p.2) else none).map fun p => modsSum mw p.2).sum

theorem intPart_split (mw : Mod → Rat) (d : List (Int × List Mod)) (s m e : Int) (h1 : s ≤ m) (h2 : m ≤ e) :
    intPart mw d s e = intPart mw d s m + intPart mw d m e := by
  induction d with
  | nil => simp [intPart, Rat.add_zero]
  | cons p d ih =>
    unfold intPart at ih ⊢
    simp only [List.filterMap_cons]
    by_cases c1 : s ≤ p.1 ∧ p.1 < m
    · have c2 : s ≤ p.1 ∧ p.1 < e := ⟨c1.1, by omega⟩
      have c3 : ¬ (m ≤ p.1 ∧ p.1 < e) := by omega
      simp only [c1, c2, c3, and_self, if_true, if_false, List.map_cons, List.sum_cons, ih]
      grind
    · by_cases c3 : m ≤ p.1 ∧ p.1 < e
      · have c2 : s ≤ p.1 ∧ p.1 < e := ⟨by omega, c3.2⟩
        simp only [c1, c2, c3, and_self, if_true, if_false, List.map_cons, List.sum_cons, ih]
        grind
      · have c2 : ¬ (s ≤ p.1 ∧ p.1 < e) := by omega
        simp only [c1, c2, c3, if_false, ih]

theorem intSum_slice (mw : Mod → Rat) (a : Annotation) (s e : Int) :
    intSum mw (slice a s e).internal = match a.internal with
      | none => 0
      | some d => intPart mw d s e := by
  rw [slice_internal]
  cases a.internal <;> rfl

theorem map_pySlice {α β} (f : α → β) (l : List α) (s e : Int) : (pySlice l s e).map f = pySlice (l.map f) s e := by
  simp [pySlice, List.map_take, List.map_drop]

/-- binary additivity: cutting `[s, e)` at `m` (strictly inside) splits the weight -/
theorem plainWeight_split (w : Char → Rat) (mw : Mod → Rat) (a : Annotation) (s m e : Int)
    (h0 : 0 ≤ s) (h1 : s < m) (h2 : m < e) (h3 : e ≤ alen a) :
    plainWeight w mw (slice a s e) = plainWeight w mw (slice a s m) + plainWeight w mw (slice a m e) := by
  unfold plainWeight
  rw [slice_seq, slice_seq, slice_seq, map_pySlice, map_pySlice, map_pySlice]
  have hseq := spanSum_split (a.seq.map w) s m e h0 (by omega) (by omega)
  unfold spanSum at hseq
  rw [hseq, slice_nterm, slice_nterm, slice_nterm, slice_cterm, slice_cterm, slice_cterm,
    intSum_slice, intSum_slice, intSum_slice]
  have hm : m > 0 := by omega
  have hme : m < alen a := by omega
  simp only [hm, hme, if_true, optSum]
  cases hint : a.internal with
  | none => simp only []; grind
  | some d =>
    simp only []
    rw [intPart_split mw d s m e (by omega) (by omega)]
    grind

theorem spanSum_single (comps : List Rat) (k : Nat) (x : Rat) (h : comps[k]? = some x) :
    spanSum comps (k : Int) ((k : Int) + 1) = x := by
  unfold spanSum pySlice
  have e1 : ((k : Int) + 1).toNat - (k : Int).toNat = 1 := by omega
  have e2 : (k : Int).toNat = k := by omega
  rw [e1, e2]
  have hlt : k < comps.length := by
    rcases Nat.lt_or_ge k comps.length with h' | h'
    · exact h'
    · rw [List.getElem?_eq_none h'] at h; cases h
  rw [List.drop_eq_getElem_cons hlt]
  have hx : comps[k] = x := by
    rw [List.getElem?_eq_getElem hlt] at h
    exact Option.some.inj h
  simp [hx, Rat.add_zero]

/-- if the `k`-th component is the weight of the one-residue slice `[k, k+1)`, the components of a span sum to the
weight of the slice of that span -/
theorem spanSum_eq_plainWeight (w : Char → Rat) (mw : Mod → Rat) (a : Annotation) (comps : List Rat)
    (hc : ∀ k : Nat, k < a.seq.length → comps[k]? = some (plainWeight w mw (slice a (k : Int) ((k : Int) + 1))))
    (s : Nat) (len : Nat) (hlen : s + (len + 1) ≤ a.seq.length) :
    spanSum comps (s : Int) ((s : Int) + (len : Int) + 1) =
      plainWeight w mw (slice a (s : Int) ((s : Int) + (len : Int) + 1)) := by
  induction len with
  | zero =>
    have := spanSum_single comps s _ (hc s (by omega))
    simpa using this
  | succ len ih =>
    have hl : alen a = (a.seq.length : Int) := rfl
    have e1 : (s : Int) + ((len + 1 : Nat) : Int) + 1 = ((s : Int) + (len : Int) + 1) + 1 := by omega
    have hsplit := spanSum_split comps (s : Int) ((s : Int) + (len : Int) + 1) (((s : Int) + (len : Int) + 1) + 1)
      (by omega) (by omega) (by omega)
    have hw := plainWeight_split w mw a (s : Int) ((s : Int) + (len : Int) + 1) (((s : Int) + (len : Int) + 1) + 1)
      (by omega) (by omega) (by omega) (by rw [hl]; omega)
    have hk := spanSum_single comps (s + len + 1) _ (hc (s + len + 1) (by omega))
    have e2 : ((s + len + 1 : Nat) : Int) = (s : Int) + (len : Int) + 1 := by omega
    rw [e2] at hk
    rw [e1, hsplit, hw, ih (by omega), hk]

/-! ### slices of a plain annotation are plain; the final identity -/

theorem slice_intervals_none (a : Annotation) (s e : Int) (h : a.intervals = none) : (slice a s e).intervals = none := by
  unfold slice
  split
  · rfl
  · simp [h]

theorem plain_slice (a : Annotation) (s e : Int) (hp : Plain a) : Plain (slice a s e) := by
  obtain ⟨h1, h2, h3, h4, _, h6⟩ := slice_global a s e
  exact ⟨by rw [h2, hp.static], by rw [h1, hp.isotope], by rw [h3, hp.labile], by rw [h4, hp.unknown],
    slice_intervals_none a s e hp.intervals, by rw [h6, hp.adducts]⟩

theorem mem_pySlice {α} (l : List α) (s e : Int) (x : α) (h : x ∈ pySlice l s e) : x ∈ l :=
  List.mem_of_mem_drop (List.mem_of_mem_take h)

theorem resolves_slice (env : Pept.Env) (mono : Bool) (w : Char → Rat) (mw : Mod → Rat) (a : Annotation) (s e : Int)
    (hr : Resolves env mono w mw a.seq) : Resolves env mono w mw (slice a s e).seq := by
  rw [slice_seq]
  refine ⟨fun c hc => hr.residues c (mem_pySlice _ _ _ _ hc), ?_, ?_, hr.mods⟩
  · have := hr.notB
    simp only [List.contains_eq_mem, decide_eq_false_iff_not] at this ⊢
    exact fun h => this (mem_pySlice _ _ _ _ h)
  · have := hr.notZ
    simp only [List.contains_eq_mem, decide_eq_false_iff_not] at this ⊢
    exact fun h => this (mem_pySlice _ _ _ _ h)

/-- the concrete tables agree with the abstract parameters of the fragment model for one ion type -/
structure TablesAgree (P : MassParams) (mono : Bool) (t : Ion) : Prop where
  proton : P.proton = Gen.protonMass
  neutron : P.neutron = Gen.neutronMass
  /-- the `'n'` entry of `*_FRAGMENT_ADJUSTMENTS` is 0 (the fragmenter adds it to every component and once more) -/
  adjN : fragmentAdjMass mono ionN = some 0
  adjN' : P.fragAdjN mono = 0
  fragAdj : fragmentAdjMass mono (keyOfChars t.name) = some (P.fragAdj mono t)
  ionOffset : fragmentIonAdjMass mono (keyOfChars t.name) = some (P.ionOffset mono t)
  notP : keyOfChars t.name ≠ ionP
  notN : keyOfChars t.name ≠ ionN

/-- a component: `mass(slice(k, k+1), charge=0, ion_type='n', monoisotopic=mono)` is the weight of that slice -/
theorem component_eq (cm : CompMassFn) (env : Pept.Env) (mono : Bool) (w : Char → Rat) (mw : Mod → Rat)
    (a : Annotation) (s e : Int) (hp : Plain a) (hr : Resolves env mono w mw a.seq)
    (hN : fragmentAdjMass mono ionN = some 0) :
    massWith cm env (slice a s e) { charge := some 0, ion := ionN, mono := mono } =
      .ok (plainWeight w mw (slice a s e)) := by
  rw [massWith_plain cm env w mw (slice a s e) _ (plain_slice a s e hp) (resolves_slice env mono w mw a s e hr) rfl rfl]
  simp only [Mass.adjustMass, chargeTerm, effCharge, hN, bind, Except.bind, pure, Except.pure, Option.getD_some]
  have : (ionN = ionP || ionN = ionN) = true := by decide
  simp only [this, if_true, Chem.roundOpt]
  congr 1
  grind

/-- **frag_mass_eq**: on a plain working copy whose components are the `mass` of its one-residue slices, the mass the
fragment model gives to the ion (ion type `t`, span `[s, s+len+1)`, charge, isotope, loss; no rounding) is the `mass` of
the sliced annotation as that ion. -/
theorem mkFrag_mass_eq_massWith (cm : CompMassFn) (menv : Pept.Env) (w : Char → Rat) (mw : Mod → Rat) (j : Job)
    (t : Ion) (s len : Nat) (c iso : Int) (loss : Rat)
    (hp : Plain j.annotation) (hr : Resolves menv j.monoisotopic w mw j.annotation.seq)
    (ht : TablesAgree j.env.P j.monoisotopic t) (hprec : j.precision = none)
    (hlen : s + (len + 1) ≤ j.annotation.seq.length)
    (hc : ∀ k : Nat, k < j.annotation.seq.length → ∃ x,
      massWith cm menv (slice j.annotation (k : Int) ((k : Int) + 1))
        { charge := some 0, ion := ionN, mono := j.monoisotopic } = .ok x ∧ j.massComponents[k]? = some x) :
    massWith cm menv (slice j.annotation (s : Int) ((s : Int) + (len : Int) + 1))
        { charge := some c, ion := keyOfChars t.name, mono := j.monoisotopic, isotope := iso, loss := loss } =
      .ok (mkFrag j ⟨t, (s : Int), (s : Int) + (len : Int) + 1, c, iso, loss⟩).mass := by
  have hcomps : ∀ k : Nat, k < j.annotation.seq.length →
      j.massComponents[k]? = some (plainWeight w mw (slice j.annotation (k : Int) ((k : Int) + 1))) := by
    intro k hk
    obtain ⟨x, hx, hxk⟩ := hc k hk
    rw [component_eq cm menv j.monoisotopic w mw j.annotation _ _ hp hr ht.adjN] at hx
    rw [hxk, ← Except.ok.inj hx]
  have hsum := spanSum_eq_plainWeight w mw j.annotation j.massComponents hcomps s len hlen
  rw [mass_formula, hprec, hsum]
  rw [massWith_plain cm menv w mw _ _ (plain_slice _ _ _ hp) (resolves_slice menv j.monoisotopic w mw _ _ _ hr) rfl rfl]
  have hpn : (keyOfChars t.name = ionP || keyOfChars t.name = ionN) = false := by
    simp [ht.notP, ht.notN]
  simp only [Mass.adjustMass, chargeTerm, effCharge, ht.fragAdj, ht.ionOffset, hpn, bind, Except.bind, pure, Except.pure,
    Option.getD_some, Bool.false_eq_true, if_false, Chem.roundOpt, roundOpt, ionBase, labelShift, hp.isotope,
    Option.isSome_none, Bool.not_false, if_true, ht.adjN', ← ht.proton, ← ht.neutron, Rat.intCast_sub]
  congr 1
  grind

/-! ### isotope-labelled peptides: the offset depends on the ion type *and* the charge -/

/-- the empty peptide carrying the isotope labels of `a` (what `_label_shift` hands to `mass`) -/
def blankOf (a : Annotation) : Annotation := { seq := [], isotope := a.isotope }

/-- `mass(b, charge=c, ion_type=t, monoisotopic=mono, isotope=iso, loss=loss)` -/
def massOf (cm : CompMassFn) (menv : Pept.Env) (mono : Bool) (b : Annotation) (t : Chem.Key) (c iso : Int) (loss : Rat) :
    Except Pept.Err Rat :=
  massWith cm menv b { charge := some c, ion := t, mono := mono, isotope := iso, loss := loss }

/-- **What the label path of `mass` has to satisfy** for the fragmenter's component sums to be right: on every slice of
the working copy `a` (and on the empty labelled peptide) the mass is
`residues + placed modifications + O(ion type, charge) + isotope·neutron + loss`, where the offset `O` — the labelled
ion-type adjustment plus the labelled charge carriers — depends on the ion type **and the charge** (with `<D>` the
charge-carrying hydrogens are labelled too), and nothing else. -/
structure LabelledDecomposes (cm : CompMassFn) (menv : Pept.Env) (mono : Bool) (a : Annotation)
    (w : Char → Rat) (mw : Mod → Rat) (t : Chem.Key) (O : Int → Rat) (neutron : Rat) : Prop where
  /-- as ion type `t`: residues + placed mods + `O charge` + isotope·neutron + loss -/
  slices : ∀ (s e : Int) (c iso : Int) (loss : Rat),
    massOf cm menv mono (slice a s e) t c iso loss =
      .ok (plainWeight w mw (slice a s e) + O c + (iso : Rat) * neutron + loss)
  /-- as the neutral species (`ion_type='n'`, charge 0): residues + placed mods, no offset -/
  comps : ∀ (s e : Int), massOf cm menv mono (slice a s e) ionN 0 0 0 = .ok (plainWeight w mw (slice a s e))
  /-- the empty labelled peptide as ion type `t`: the offset alone -/
  blank : ∀ (c : Int), massOf cm menv mono (blankOf a) t c 0 0 = .ok (O c)

/-- **frag_mass_eq_mass_labelled** (no rounding). Let the working copy carry isotope labels, let the label path of `mass`
decompose as above, let the `k`-th component be `mass(slice(k,k+1), charge=0, ion_type='n')` and let the model's label
shift be what `_label_shift` computes, **for this ion type and this charge**:
`labelShift t c = mass(blank, t, c) − adjust_mass(0.0, c, t)`.  Then the ion's mass in the fragment model is
`mass(slice(s,e), ion_type=t, charge=c, isotope, loss)`. -/
theorem mkFrag_mass_eq_massWith_labelled (cm : CompMassFn) (menv : Pept.Env) (w : Char → Rat) (mw : Mod → Rat)
    (O : Int → Rat) (j : Job) (t : Ion) (s len : Nat) (c iso : Int) (loss : Rat)
    (hlab : j.annotation.isotope.isSome = true)
    (hd : LabelledDecomposes cm menv j.monoisotopic j.annotation w mw (keyOfChars t.name) O j.env.P.neutron)
    (hN : j.env.P.fragAdjN j.monoisotopic = 0) (hprec : j.precision = none)
    (hlen : s + (len + 1) ≤ j.annotation.seq.length)
    (hc : ∀ k : Nat, k < j.annotation.seq.length → ∃ x,
      massOf cm menv j.monoisotopic (slice j.annotation (k : Int) ((k : Int) + 1)) ionN 0 0 0 = .ok x ∧
      j.massComponents[k]? = some x)
    (hshift : ∃ m, massOf cm menv j.monoisotopic (blankOf j.annotation) (keyOfChars t.name) c 0 0 = .ok m ∧
      j.env.labelShift j.annotation j.monoisotopic t c =
        m - (j.env.P.proton * ((c - 1 : Int) : Rat) + j.env.P.ionOffset j.monoisotopic t +
              j.env.P.fragAdj j.monoisotopic t)) :
    massOf cm menv j.monoisotopic (slice j.annotation (s : Int) ((s : Int) + (len : Int) + 1))
        (keyOfChars t.name) c iso loss =
      .ok (mkFrag j ⟨t, (s : Int), (s : Int) + (len : Int) + 1, c, iso, loss⟩).mass := by
  have hcomps : ∀ k : Nat, k < j.annotation.seq.length →
      j.massComponents[k]? = some (plainWeight w mw (slice j.annotation (k : Int) ((k : Int) + 1))) := by
    intro k hk
    obtain ⟨x, hx, hxk⟩ := hc k hk
    rw [hd.comps] at hx
    rw [hxk, ← Except.ok.inj hx]
  have hsum := spanSum_eq_plainWeight w mw j.annotation j.massComponents hcomps s len hlen
  obtain ⟨m, hm, hsh⟩ := hshift
  rw [hd.blank] at hm
  have hm' : m = O c := (Except.ok.inj hm).symm
  rw [hd.slices, mass_formula, hprec, hsum]
  simp only [roundOpt, ionBase, labelShift, hlab, Bool.not_true, Bool.false_eq_true, if_false, hsh, hm', hN]
  congr 1
  grind

/-- **Why the shift must be keyed by (ion type, charge)**: if the shift computed for charge `c₀` is used for charge `c`
(a table keyed by the ion type only), the ion's mass is off by exactly
`(O c₀ − O c) − proton·(c₀ − c)` — zero only if the labelled charge carriers weigh what unlabelled protons weigh. -/
theorem labelShift_wrong_charge (P : MassParams) (mono : Bool) (t : Ion) (O : Int → Rat) (c c₀ : Int) :
    let shift := fun (z : Int) => O z -
      (P.proton * ((z - 1 : Int) : Rat) + P.ionOffset mono t + P.fragAdj mono t)
    (shift c₀ + (P.proton * ((c - 1 : Int) : Rat) + P.ionOffset mono t + P.fragAdj mono t)) -
      (shift c + (P.proton * ((c - 1 : Int) : Rat) + P.ionOffset mono t + P.fragAdj mono t)) =
      (O c₀ - O c) - P.proton * (((c₀ - c : Int)) : Rat) := by
  intro shift
  simp only [shift, Rat.intCast_sub]
  grind

end Fragment
