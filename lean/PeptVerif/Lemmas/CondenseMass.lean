import Mathlib.Data.Rat.Floor
import Mathlib.Tactic.FieldSimp
import PeptVerif.Lemmas.AbsMass
import PeptVerif.Model.CondenseMass
/-! Helper lemmas for C18: rounding error, the mass of the rendered output, the per-piece decomposition. -/
namespace Pept
namespace CondenseMass
open Static AbsMass

/-! ### rounding -/

theorem absQ_eq_abs (x : ℚ) : absQ x = |x| := by
  unfold absQ
  split
  · rename_i h; rw [abs_of_neg h]
  · rename_i h; rw [abs_of_nonneg (not_lt.mp h)]

theorem roundHalfEven_err (x : ℚ) : |(roundHalfEven x : ℚ) - x| ≤ 1 / 2 := by
  have h1 : ((x.floor : ℤ) : ℚ) ≤ x := Int.floor_le x
  have h2 : x < ((x.floor : ℤ) : ℚ) + 1 := Int.lt_floor_add_one x
  unfold roundHalfEven
  simp only
  split
  · rename_i h; rw [abs_le]; constructor <;> linarith
  · split
    · rename_i h h'; rw [abs_le]; push_cast; constructor <;> linarith
    · rename_i h h'
      have : x - (x.floor : ℚ) = 1 / 2 := le_antisymm (not_lt.mp h') (not_lt.mp h)
      split
      · rw [abs_le]; constructor <;> linarith
      · rw [abs_le]; push_cast; constructor <;> linarith

theorem pow10_pos (p : ℕ) : (0 : ℚ) < ((pow10 p : ℕ) : ℚ) := by
  unfold pow10; positivity

/-- half a unit in the last place -/
def halfUlp (p : ℕ) : ℚ := (1 / 2) / ((pow10 p : ℕ) : ℚ)

theorem halfUlp_nonneg (p : ℕ) : 0 ≤ halfUlp p := by
  unfold halfUlp; have := pow10_pos p; positivity

theorem roundNum_err (x : ℚ) (p : ℕ) : |(roundNum x p : ℚ) / ((pow10 p : ℕ) : ℚ) - x| ≤ halfUlp p := by
  have hp := pow10_pos p
  have h := roundHalfEven_err (x * ((pow10 p : ℕ) : ℚ))
  have e : (roundNum x p : ℚ) / ((pow10 p : ℕ) : ℚ) - x =
      ((roundHalfEven (x * ((pow10 p : ℕ) : ℚ)) : ℚ) - x * ((pow10 p : ℕ) : ℚ)) / ((pow10 p : ℕ) : ℚ) := by
    unfold roundNum; field_simp
  rw [e, abs_div, abs_of_pos hp]
  unfold halfUlp
  exact div_le_div_of_nonneg_right h (le_of_lt hp)

/-! ### the value of what is written -/

/-- an environment that weighs a numeric modification by its value (what `mod_mass` does for ints and floats) -/
structure NumericMu (E : Env) (p : ℕ) : Prop where
  int : ∀ i : ℤ, E.mu (.int i) = i
  dec : ∀ k : ℤ, E.mu (.flt (decText k p)) = (k : ℚ) / ((pow10 p : ℕ) : ℚ)

def numO (p : ℕ) : Option Num → ℚ
  | none => 0
  | some n => n.toRat p

def outInternal (p : ℕ) : List (ℕ × ℤ) → ℚ
  | [] => 0
  | q :: r => (q.2 : ℚ) / ((pow10 p : ℕ) : ℚ) + outInternal p r

def outIntervalsL (p : ℕ) : List (Interval × Option Num) → ℚ
  | [] => 0
  | q :: r => numO p q.2 + outIntervalsL p r

def outIntervals (p : ℕ) : Option (List (Interval × Option Num)) → ℚ
  | none => 0
  | some l => outIntervalsL p l

/-- the mass of the output, from the numbers written -/
def outMass (E : Env) (c : Annotation) (s : Shifts) (p : ℕ) : ℚ :=
  sumRes E c.seq + numO p s.labile + numO p s.unknown + numO p s.nterm + outIntervals p s.intervals +
    outInternal p s.internal + numO p s.cterm + E.adj

theorem sumMods_toMods (E : Env) (p : ℕ) (h : NumericMu E p) (n : Num) : sumMods E (n.toMods p) = n.toRat p := by
  cases n with
  | int i => simp [Num.toMods, Num.toVal, Num.toRat, sumMods, modMass, h.int]
  | dec k => simp [Num.toMods, Num.toVal, Num.toRat, sumMods, modMass, h.dec]

theorem optSum_map_toMods (E : Env) (p : ℕ) (h : NumericMu E p) (o : Option Num) :
    optSum E (o.map (Num.toMods p)) = numO p o := by
  cases o with
  | none => rfl
  | some n => simp [optSum, numO, sumMods_toMods E p h]

theorem sumInternal_render (E : Env) (p : ℕ) (h : NumericMu E p) (l : List (ℕ × ℤ)) :
    sumInternal E (l.map fun q => (Int.ofNat q.1, (Num.dec q.2).toMods p)) = outInternal p l := by
  induction l with
  | nil => rfl
  | cons q l ih =>
    simp only [List.map_cons, sumInternal, outInternal, ih, sumMods_toMods E p h, Num.toRat]

theorem sumIntervals_render (E : Env) (p : ℕ) (h : NumericMu E p) (l : List (Interval × Option Num)) :
    sumIntervals E (l.map fun q => { q.1 with mods := q.2.map (Num.toMods p) }) = outIntervalsL p l := by
  induction l with
  | nil => rfl
  | cons q l ih =>
    simp only [List.map_cons, sumIntervals, outIntervalsL, ih, optSum_map_toMods E p h]

/-- the fast-path mass of the rendered output is `outMass` -/
theorem massFast_render (E : Env) (c : Annotation) (s : Shifts) (p : ℕ) (h : NumericMu E p) (hp : E.ionP = true) :
    massFast E (render c s p) = .ok (outMass E c s p) := by
  have hint : optInt E (render c s p).internal = outInternal p s.internal := by
    unfold render
    cases hs : s.internal with
    | nil => simp [optInt, outInternal]
    | cons q l =>
      simp only [optInt]
      exact sumInternal_render E p h (q :: l)
  have hiv : optIntervals E (render c s p).intervals = outIntervals p s.intervals := by
    unfold render
    cases hs : s.intervals with
    | none => simp [optIntervals, outIntervals]
    | some l => simp only [optIntervals, outIntervals, Option.map_some]; exact sumIntervals_render E p h l
  have hstat : (render c s p).static = none := rfl
  unfold massFast
  rw [hstat]
  simp only
  unfold plainMass outMass
  rw [hint, hiv]
  simp only [render, hp, if_true, optSum_map_toMods E p h]

/-! ### the loop over the pieces, as a pure function of the differences -/

/-- `pieceShifts` with the differences (terminal label shifts already taken off) given -/
def shiftsFrom (p : ℕ) : List ℚ → ℕ → List (ℕ × ℤ)
  | [], _ => []
  | d :: r, i => if absQ d > threshold then (i, roundNum d p) :: shiftsFrom p r (i + 1) else shiftsFrom p r (i + 1)

/-- the differences of all pieces -/
def pieceDiffs (E : Env) : List Annotation → Except Err (List ℚ)
  | [] => .ok []
  | q :: r =>
    match pieceDiff E q with
    | .error e => .error e
    | .ok d =>
      match pieceDiffs E r with
      | .error e => .error e
      | .ok ds => .ok (d :: ds)

theorem pieceShifts_eq (E : Env) (p : ℕ) (t : ℚ) (pieces : List Annotation) (i : ℕ) (l : List (ℕ × ℤ))
    (h : pieceShifts E p t pieces i = .ok l) :
    ∃ ds, pieceDiffs E pieces = .ok ds ∧ l = shiftsFrom p (ds.map (· - t)) i := by
  induction pieces generalizing i l with
  | nil => simp [pieceShifts] at h; subst h; exact ⟨[], rfl, rfl⟩
  | cons q r ih =>
    simp only [pieceShifts] at h
    cases hd : pieceDiff E q with
    | error e => simp [hd] at h
    | ok d =>
      simp only [hd] at h
      cases hr : pieceShifts E p t r (i + 1) with
      | error e => simp [hr] at h
      | ok rest =>
        simp only [hr] at h
        obtain ⟨ds, hds, hrest⟩ := ih (i + 1) rest hr
        refine ⟨d :: ds, by simp [pieceDiffs, hd, hds], ?_⟩
        simp only [List.map_cons, shiftsFrom]
        split at h
        · rename_i hg; simp only [Except.ok.injEq] at h; rw [if_pos hg, ← h, hrest]
        · rename_i hg; simp only [Except.ok.injEq] at h; rw [if_neg hg, ← h, hrest]

/-- how many differences are nonzero but below the cut-off (they are dropped) -/
def droppedNonzero : List ℚ → ℕ
  | [] => 0
  | d :: r => (if d ≠ 0 ∧ ¬ absQ d > threshold then 1 else 0) + droppedNonzero r

def listSum : List ℚ → ℚ
  | [] => 0
  | d :: r => d + listSum r

theorem threshold_pos : (0 : ℚ) < threshold := by unfold threshold; norm_num

/-- **the loop's error**: what is written differs from the sum of the differences by at most half a unit in the last place
per shift written plus the cut-off per nonzero difference dropped -/
theorem shiftsFrom_err (p : ℕ) (ds : List ℚ) (i : ℕ) :
    |outInternal p (shiftsFrom p ds i) - listSum ds| ≤
      ((shiftsFrom p ds i).length : ℚ) * halfUlp p + (droppedNonzero ds : ℚ) * threshold := by
  induction ds generalizing i with
  | nil => simp [shiftsFrom, outInternal, listSum, droppedNonzero]
  | cons d r ih =>
    have ihr := ih (i + 1)
    simp only [shiftsFrom, listSum, droppedNonzero]
    split
    · rename_i hg
      have he := roundNum_err d p
      have hz : (if d ≠ 0 ∧ ¬ absQ d > threshold then 1 else 0 : ℕ) = 0 := by simp [hg]
      simp only [outInternal, List.length_cons, hz]
      have e : (roundNum d p : ℚ) / ((pow10 p : ℕ) : ℚ) + outInternal p (shiftsFrom p r (i + 1)) - (d + listSum r) =
          ((roundNum d p : ℚ) / ((pow10 p : ℕ) : ℚ) - d) + (outInternal p (shiftsFrom p r (i + 1)) - listSum r) := by ring
      rw [e]
      have := abs_add_le ((roundNum d p : ℚ) / ((pow10 p : ℕ) : ℚ) - d) (outInternal p (shiftsFrom p r (i + 1)) - listSum r)
      push_cast
      linarith
    · rename_i hg
      have hle : |d| ≤ threshold := by rw [← absQ_eq_abs]; exact not_lt.mp hg
      have e : outInternal p (shiftsFrom p r (i + 1)) - (d + listSum r) =
          (-d) + (outInternal p (shiftsFrom p r (i + 1)) - listSum r) := by ring
      rw [e]
      have h3 := abs_add_le (-d) (outInternal p (shiftsFrom p r (i + 1)) - listSum r)
      rw [abs_neg] at h3
      by_cases hd : d = 0
      · subst hd
        have hz : (if (0 : ℚ) ≠ 0 ∧ ¬ absQ 0 > threshold then 1 else 0 : ℕ) = 0 := by simp
        simp only [hz] at *
        simp only [abs_zero] at h3
        push_cast; linarith
      · have hz : (if d ≠ 0 ∧ ¬ absQ d > threshold then 1 else 0 : ℕ) = 1 := by simp [hd, hg]
        simp only [hz]
        push_cast; linarith

end CondenseMass
end Pept
