import Mathlib.Data.Rat.Floor
import Mathlib.Tactic.FieldSimp
import PeptVerif.Lemmas.AbsMass
import PeptVerif.Model.CondenseMass
/-! Helper lemmas for C18: rounding error, the mass of the rendered output, the per-piece decomposition. -/
namespace Pept
namespace CondenseMass
open Static AbsMass

/-! ### rounding -/

theorem absQ_eq_abs (x : ℚ) : absQ x = |x| := by
  unfold absQ
  split
  · rename_i h; rw [abs_of_neg h]
  · rename_i h; rw [abs_of_nonneg (not_lt.mp h)]

theorem roundHalfEven_err (x : ℚ) : |(roundHalfEven x : ℚ) - x| ≤ 1 / 2 := by
  have h1 : ((x.floor : ℤ) : ℚ) ≤ x := Int.floor_le x
  have h2 : x < ((x.floor : ℤ) : ℚ) + 1 := Int.lt_floor_add_one x
  unfold roundHalfEven
  simp only
  split
  · rename_i h; rw [abs_le]; constructor <;> linarith
  · split
    · rename_i h h'; rw [abs_le]; push_cast; constructor <;> linarith
    · rename_i h h'
      have : x - (x.floor : ℚ) = 1 / 2 := le_antisymm (not_lt.mp h') (not_lt.mp h)
      split
      · rw [abs_le]; constructor <;> linarith
      · rw [abs_le]; push_cast; constructor <;> linarith

theorem pow10_pos (p : ℕ) : (0 : ℚ) < ((pow10 p : ℕ) : ℚ) := by
  unfold pow10; positivity

/-- half a unit in the last place -/
def halfUlp (p : ℕ) : ℚ := (1 / 2) / ((pow10 p : ℕ) : ℚ)

theorem halfUlp_nonneg (p : ℕ) : 0 ≤ halfUlp p := by
  unfold halfUlp; have := pow10_pos p; positivity

theorem roundNum_err (x : ℚ) (p : ℕ) : |(roundNum x p : ℚ) / ((pow10 p : ℕ) : ℚ) - x| ≤ halfUlp p := by
  have hp := pow10_pos p
  have h := roundHalfEven_err (x * ((pow10 p : ℕ) : ℚ))
  have e : (roundNum x p : ℚ) / ((pow10 p : ℕ) : ℚ) - x =
      ((roundHalfEven (x * ((pow10 p : ℕ) : ℚ)) : ℚ) - x * ((pow10 p : ℕ) : ℚ)) / ((pow10 p : ℕ) : ℚ) := by
    unfold roundNum; field_simp
  rw [e, abs_div, abs_of_pos hp]
  unfold halfUlp
  exact div_le_div_of_nonneg_right h (le_of_lt hp)

/-! ### the value of what is written -/

/-- an environment that weighs a numeric modification by its value (what `mod_mass` does for ints and floats) -/
structure NumericMu (E : Env) (p : ℕ) : Prop where
  int : ∀ i : ℤ, E.mu (.int i) = i
  dec : ∀ k : ℤ, E.mu (.flt (decText k p)) = (k : ℚ) / ((pow10 p : ℕ) : ℚ)

def numO (p : ℕ) : Option Num → ℚ
  | none => 0
  | some n => n.toRat p

def outInternal (p : ℕ) : List (ℕ × ℤ) → ℚ
  | [] => 0
  | q :: r => (q.2 : ℚ) / ((pow10 p : ℕ) : ℚ) + outInternal p r

def outIntervalsL (p : ℕ) : List (Interval × Option Num) → ℚ
  | [] => 0
  | q :: r => numO p q.2 + outIntervalsL p r

def outIntervals (p : ℕ) : Option (List (Interval × Option Num)) → ℚ
  | none => 0
  | some l => outIntervalsL p l

/-- the mass of the output, from the numbers written -/
def outMass (E : Env) (c : Annotation) (s : Shifts) (p : ℕ) : ℚ :=
  sumRes E c.seq + numO p s.labile + numO p s.unknown + numO p s.nterm + outIntervals p s.intervals +
    outInternal p s.internal + numO p s.cterm + E.adj

theorem sumMods_toMods (E : Env) (p : ℕ) (h : NumericMu E p) (n : Num) : sumMods E (n.toMods p) = n.toRat p := by
  cases n with
  | int i => simp [Num.toMods, Num.toVal, Num.toRat, sumMods, modMass, h.int]
  | dec k => simp [Num.toMods, Num.toVal, Num.toRat, sumMods, modMass, h.dec]

theorem optSum_map_toMods (E : Env) (p : ℕ) (h : NumericMu E p) (o : Option Num) :
    optSum E (o.map (Num.toMods p)) = numO p o := by
  cases o with
  | none => rfl
  | some n => simp [optSum, numO, sumMods_toMods E p h]

theorem sumInternal_render (E : Env) (p : ℕ) (h : NumericMu E p) (l : List (ℕ × ℤ)) :
    sumInternal E (l.map fun q => (Int.ofNat q.1, (Num.dec q.2).toMods p)) = outInternal p l := by
  induction l with
  | nil => rfl
  | cons q l ih =>
    simp only [List.map_cons, sumInternal, outInternal, ih, sumMods_toMods E p h, Num.toRat]

theorem sumIntervals_render (E : Env) (p : ℕ) (h : NumericMu E p) (l : List (Interval × Option Num)) :
    sumIntervals E (l.map fun q => { q.1 with mods := q.2.map (Num.toMods p) }) = outIntervalsL p l := by
  induction l with
  | nil => rfl
  | cons q l ih =>
    simp only [List.map_cons, sumIntervals, outIntervalsL, ih, optSum_map_toMods E p h]

/-- the fast-path mass of the rendered output is `outMass` -/
theorem massFast_render (E : Env) (c : Annotation) (s : Shifts) (p : ℕ) (h : NumericMu E p) (hp : E.ionP = true) :
    massFast E (render c s p) = .ok (outMass E c s p) := by
  have hint : optInt E (render c s p).internal = outInternal p s.internal := by
    unfold render
    cases hs : s.internal with
    | nil => simp [optInt, outInternal]
    | cons q l =>
      simp only [optInt]
      exact sumInternal_render E p h (q :: l)
  have hiv : optIntervals E (render c s p).intervals = outIntervals p s.intervals := by
    unfold render
    cases hs : s.intervals with
    | none => simp [optIntervals, outIntervals]
    | some l => simp only [optIntervals, outIntervals, Option.map_some]; exact sumIntervals_render E p h l
  have hstat : (render c s p).static = none := rfl
  unfold massFast
  rw [hstat]
  simp only
  unfold plainMass outMass
  rw [hint, hiv]
  simp only [render, hp, if_true, optSum_map_toMods E p h]

/-! ### the loop over the pieces, as a pure function of the differences -/

/-- `pieceShifts` with the differences (terminal label shifts already taken off) given -/
def shiftsFrom (p : ℕ) : List ℚ → ℕ → List (ℕ × ℤ)
  | [], _ => []
  | d :: r, i => if absQ d > threshold then (i, roundNum d p) :: shiftsFrom p r (i + 1) else shiftsFrom p r (i + 1)

/-- the differences of all pieces -/
def pieceDiffs (E : Env) : List Annotation → Except Err (List ℚ)
  | [] => .ok []
  | q :: r =>
    match pieceDiff E q with
    | .error e => .error e
    | .ok d =>
      match pieceDiffs E r with
      | .error e => .error e
      | .ok ds => .ok (d :: ds)

theorem pieceShifts_eq (E : Env) (p : ℕ) (t : ℚ) (pieces : List Annotation) (i : ℕ) (l : List (ℕ × ℤ))
    (h : pieceShifts E p t pieces i = .ok l) :
    ∃ ds, pieceDiffs E pieces = .ok ds ∧ l = shiftsFrom p (ds.map (· - t)) i := by
  induction pieces generalizing i l with
  | nil => simp [pieceShifts] at h; subst h; exact ⟨[], rfl, rfl⟩
  | cons q r ih =>
    simp only [pieceShifts] at h
    cases hd : pieceDiff E q with
    | error e => simp [hd] at h
    | ok d =>
      simp only [hd] at h
      cases hr : pieceShifts E p t r (i + 1) with
      | error e => simp [hr] at h
      | ok rest =>
        simp only [hr] at h
        obtain ⟨ds, hds, hrest⟩ := ih (i + 1) rest hr
        refine ⟨d :: ds, by simp [pieceDiffs, hd, hds], ?_⟩
        simp only [List.map_cons, shiftsFrom]
        split at h
        · rename_i hg; simp only [Except.ok.injEq] at h; rw [if_pos hg, ← h, hrest]
        · rename_i hg; simp only [Except.ok.injEq] at h; rw [if_neg hg, ← h, hrest]

/-- how many differences are nonzero but below the cut-off (they are dropped) -/
def droppedNonzero : List ℚ → ℕ
  | [] => 0
  | d :: r => (if d ≠ 0 ∧ ¬ absQ d > threshold then 1 else 0) + droppedNonzero r

def listSum : List ℚ → ℚ
  | [] => 0
  | d :: r => d + listSum r

theorem threshold_pos : (0 : ℚ) < threshold := by unfold threshold; norm_num

/-- **the loop's error**: what is written differs from the sum of the differences by at most half a unit in the last place
per shift written plus the cut-off per nonzero difference dropped -/
theorem shiftsFrom_err (p : ℕ) (ds : List ℚ) (i : ℕ) :
    |outInternal p (shiftsFrom p ds i) - listSum ds| ≤
      ((shiftsFrom p ds i).length : ℚ) * halfUlp p + (droppedNonzero ds : ℚ) * threshold := by
  induction ds generalizing i with
  | nil => simp [shiftsFrom, outInternal, listSum, droppedNonzero]
  | cons d r ih =>
    have ihr := ih (i + 1)
    simp only [shiftsFrom, listSum, droppedNonzero]
    split
    · rename_i hg
      have he := roundNum_err d p
      have hz : (if d ≠ 0 ∧ ¬ absQ d > threshold then 1 else 0 : ℕ) = 0 := by simp [hg]
      simp only [outInternal, List.length_cons, hz]
      have e : (roundNum d p : ℚ) / ((pow10 p : ℕ) : ℚ) + outInternal p (shiftsFrom p r (i + 1)) - (d + listSum r) =
          ((roundNum d p : ℚ) / ((pow10 p : ℕ) : ℚ) - d) + (outInternal p (shiftsFrom p r (i + 1)) - listSum r) := by ring
      rw [e]
      have := abs_add_le ((roundNum d p : ℚ) / ((pow10 p : ℕ) : ℚ) - d) (outInternal p (shiftsFrom p r (i + 1)) - listSum r)
      push_cast
      linarith
    · rename_i hg
      have hle : |d| ≤ threshold := by rw [← absQ_eq_abs]; exact not_lt.mp hg
      have e : outInternal p (shiftsFrom p r (i + 1)) - (d + listSum r) =
          (-d) + (outInternal p (shiftsFrom p r (i + 1)) - listSum r) := by ring
      rw [e]
      have h3 := abs_add_le (-d) (outInternal p (shiftsFrom p r (i + 1)) - listSum r)
      rw [abs_neg] at h3
      by_cases hd : d = 0
      · subst hd
        have hz : (if (0 : ℚ) ≠ 0 ∧ ¬ absQ 0 > threshold then 1 else 0 : ℕ) = 0 := by simp
        simp only [hz] at *
        simp only [abs_zero] at h3
        push_cast; linarith
      · have hz : (if d ≠ 0 ∧ ¬ absQ d > threshold then 1 else 0 : ℕ) = 1 := by simp [hd, hg]
        simp only [hz]
        push_cast; linarith

/-! ### one piece, no label in force -/

/-- total of the modifications listed under key `j` -/
def sumAt (E : Env) (cur : Option (List (Int × List Mod))) (j : Int) : ℚ :=
  match cur with
  | none => 0
  | some d => sumInternal E (d.filter fun q => decide (q.1 = j))

theorem sumInternal_map_key (E : Env) (f : Int → Int) (d : List (Int × List Mod)) :
    sumInternal E (d.map fun q => (f q.1, q.2)) = sumInternal E d := by
  induction d with
  | nil => rfl
  | cons q d ih => simp only [List.map_cons, sumInternal, ih]

theorem plainMass_bare (E : Env) (sq : List Char) : plainMass E { seq := sq } = sumRes E sq := by
  simp [plainMass, optSum, optInt, optIntervals]

theorem massOf_bare (E : Env) (sq : List Char) : massOf E { seq := sq } = .ok (sumRes E sq + E.adj) := by
  simp [massOf, massFast, plainMass_bare]

theorem slice_of_hasMods (b : Annotation) (start stop : ℕ) (h : hasMods b = true) :
    slice b start stop =
      { b with seq := (b.seq.take stop).drop start,
               internal := b.internal.map fun d =>
                 (d.filter fun p => decide (Int.ofNat start ≤ p.1) && decide (p.1 < Int.ofNat stop)).map fun p => (p.1 - Int.ofNat start, p.2),
               intervals := b.intervals.map fun l =>
                 (l.filter fun iv => decide (iv.start < Int.ofNat stop) && decide (iv.stop > Int.ofNat start)).map fun iv =>
                   { iv with start := max 0 (iv.start - Int.ofNat start), stop := max 0 (iv.stop - Int.ofNat start) },
               nterm := if start > 0 then none else b.nterm,
               cterm := if stop < b.seq.length then none else b.cterm } := by
  simp [slice, h]

def pieceInternal (cur : Option (List (Int × List Mod))) (j : ℕ) : Option (List (Int × List Mod)) :=
  cur.map fun d => (d.filter fun q => decide (q.1 = (j : Int))).map fun q => (q.1 - Int.ofNat j, q.2)

/-- the piece of residue `j` of a condensed, unlabelled annotation differs from its stripped form by exactly the
modifications listed on residue `j` -/
theorem pieceDiff_core (E : Env) (c : Annotation) (j : ℕ) (hiso : c.isotope = none) (hst : c.static = none) :
    pieceDiff E { slice (core c) j (j + 1) with labile := none } = .ok (sumAt E c.internal j) := by
  cases hm : hasMods (core c) with
  | false =>
    have hint : c.internal = none := by
      simp only [hasMods, core, Bool.or_eq_false_iff] at hm
      have := hm.1.1.1.2
      cases h : c.internal with
      | none => rfl
      | some d => rw [h] at this; simp at this
    have hp : ({ slice (core c) j (j + 1) with labile := none } : Annotation) = { seq := ((core c).seq.take (j + 1)).drop j } := by
      simp [slice, hm]
    rw [hp]
    simp [pieceDiff, stripped, massOf_bare, sumAt, hint]
  | true =>
    have hfilter : ∀ d : List (Int × List Mod),
        (d.filter fun q => decide ((Int.ofNat j) ≤ q.1) && decide (q.1 < Int.ofNat (j + 1))) =
        d.filter fun q => decide (q.1 = (j : Int)) := by
      intro d
      apply List.filter_congr
      intro q _
      rw [Bool.eq_iff_iff]
      simp only [Bool.and_eq_true, decide_eq_true_eq, Int.ofNat_eq_natCast]
      push_cast; omega
    have hpiece : ({ slice (core c) j (j + 1) with labile := none } : Annotation) =
        { seq := (c.seq.take (j + 1)).drop j, internal := pieceInternal c.internal j } := by
      rw [slice_of_hasMods _ _ _ hm]
      simp only [core, hiso, hst, Option.map_none, ite_self, pieceInternal]
      cases hi : c.internal with
      | none => rfl
      | some d => simp only [Option.map_some, hfilter]
    rw [hpiece]
    have hmass : massOf E { seq := (c.seq.take (j + 1)).drop j, internal := pieceInternal c.internal j } =
        .ok (sumRes E ((c.seq.take (j + 1)).drop j) + sumAt E c.internal j + E.adj) := by
      simp only [massOf, massFast, plainMass, optSum, optIntervals, ite_self, pieceInternal]
      cases hi : c.internal with
      | none => simp [optInt, sumAt]
      | some d =>
        simp only [Option.map_some, optInt, sumAt, sumInternal_map_key E (fun k => k - Int.ofNat j)]
        congr 1; ring
    unfold pieceDiff stripped
    rw [hmass, massOf_bare]
    simp

/-! ### all pieces -/

theorem pieceDiffs_map {α : Type} (E : Env) (f : α → Annotation) (g : α → ℚ) (l : List α)
    (h : ∀ i ∈ l, pieceDiff E (f i) = .ok (g i)) : pieceDiffs E (l.map f) = .ok (l.map g) := by
  induction l with
  | nil => rfl
  | cons x l ih =>
    have hx := h x (by simp)
    have hl := ih (fun i hi => h i (by simp [hi]))
    simp [pieceDiffs, hx, hl]

theorem splitPieces_core (c : Annotation) :
    splitPieces (core c) = (List.range c.seq.length).map fun i => { slice (core c) i (i + 1) with labile := none } := by
  simp [splitPieces, core]

theorem pieceDiffs_core (E : Env) (c : Annotation) (hiso : c.isotope = none) (hst : c.static = none) :
    pieceDiffs E (splitPieces (core c)) = .ok ((List.range c.seq.length).map fun i : ℕ => sumAt E c.internal (i : ℕ)) := by
  rw [splitPieces_core]
  exact pieceDiffs_map E _ _ _ (fun i _ => pieceDiff_core E c i hiso hst)

/-- every key of the residue-modification dict is a position of the sequence -/
def InRange (c : Annotation) : Prop := ∀ q ∈ c.internal.getD [], 0 ≤ q.1 ∧ q.1 < (c.seq.length : Int)

theorem listSum_indicator (n : ℕ) (k : Int) (x : ℚ) (h0 : 0 ≤ k) (h1 : k < (n : Int)) :
    listSum ((List.range n).map fun j : ℕ => if k = (j : Int) then x else 0) = x := by
  induction n with
  | zero => omega
  | succ n ih =>
    rw [List.range_succ, List.map_append]
    have happ : ∀ a b : List ℚ, listSum (a ++ b) = listSum a + listSum b := by
      intro a b; induction a with
      | nil => simp [listSum]
      | cons y a iha => simp only [List.cons_append, listSum, iha]; ring
    rw [happ]
    by_cases hk : k = (n : Int)
    · subst hk
      have hz : listSum ((List.range n).map fun j : ℕ => if ((n : ℕ) : Int) = (j : Int) then x else 0) = 0 := by
        have : ∀ l : List ℕ, (∀ j ∈ l, j < n) → listSum (l.map fun j : ℕ => if ((n : ℕ) : Int) = (j : Int) then x else 0) = 0 := by
          intro l hl
          induction l with
          | nil => rfl
          | cons j l ihl =>
            have hj := hl j (by simp)
            have : ¬ ((n : ℕ) : Int) = (j : Int) := by omega
            simp only [List.map_cons, listSum, if_neg this, zero_add]
            exact ihl (fun j' hj' => hl j' (by simp [hj']))
        exact this _ (fun j hj => List.mem_range.mp hj)
      rw [hz]; simp [listSum]
    · have hlt : k < (n : Int) := by push_cast at h1; omega
      rw [ih hlt]
      simp [listSum, hk]

theorem listSum_add_map (l : List ℕ) (f g : ℕ → ℚ) :
    listSum (l.map fun j => f j + g j) = listSum (l.map f) + listSum (l.map g) := by
  induction l with
  | nil => simp [listSum]
  | cons x l ih => simp only [List.map_cons, listSum, ih]; ring

theorem listSum_sumAt (E : Env) (n : ℕ) (d : List (Int × List Mod)) (h : ∀ q ∈ d, 0 ≤ q.1 ∧ q.1 < (n : Int)) :
    listSum ((List.range n).map fun j : ℕ => sumAt E (some d) (j : ℕ)) = sumInternal E d := by
  induction d with
  | nil =>
    have : ∀ l : List ℕ, listSum (l.map fun j : ℕ => sumAt E (some []) (j : ℕ)) = 0 := by
      intro l; induction l with
      | nil => rfl
      | cons x l ih => simp only [List.map_cons, listSum, ih]; simp [sumAt, sumInternal]
    simp [this, sumInternal]
  | cons q d ih =>
    have hq := h q (by simp)
    have hd := ih (fun q' hq' => h q' (by simp [hq']))
    have hsplit : (fun j : ℕ => sumAt E (some (q :: d)) (j : ℕ)) =
        fun j : ℕ => (if q.1 = (j : Int) then sumMods E q.2 else 0) + sumAt E (some d) (j : ℕ) := by
      funext j
      simp only [sumAt, List.filter_cons]
      by_cases hk : q.1 = (j : Int)
      · simp [hk, sumInternal]
      · simp [hk]
    rw [hsplit, listSum_add_map, hd, listSum_indicator n q.1 _ hq.1 hq.2]
    simp [sumInternal]

theorem listSum_sumAt_opt (E : Env) (c : Annotation) (h : InRange c) :
    listSum ((List.range c.seq.length).map fun j : ℕ => sumAt E c.internal (j : ℕ)) = optInt E c.internal := by
  cases hi : c.internal with
  | none =>
    have : ∀ l : List ℕ, listSum (l.map fun j : ℕ => sumAt E none (j : ℕ)) = 0 := by
      intro l; induction l with
      | nil => rfl
      | cons x l ih => simp only [List.map_cons, listSum, ih]; simp [sumAt]
    simp [this, optInt]
  | some d =>
    have hd : ∀ q ∈ d, 0 ≤ q.1 ∧ q.1 < (c.seq.length : Int) := by
      intro q hq; apply h; simp [hi, hq]
    simp only [optInt]
    exact listSum_sumAt E c.seq.length d hd

/-! ### the sums written for termini, labile, unknown-position and interval modifications -/

theorem intSum_eq (E : Env) (hn : ∀ i : ℤ, E.mu (.int i) = i) (l : List Mod) (h : allInt l = true) :
    ((intSum l : ℤ) : ℚ) = sumMods E l := by
  induction l with
  | nil => simp [intSum, sumMods]
  | cons m l ih =>
    simp only [allInt, List.all_cons, Bool.and_eq_true] at h
    have hl : allInt l = true := h.2
    cases hv : m.val with
    | int i =>
      simp only [intSum, sumMods, modMass, hv, hn, ← ih hl]; push_cast; ring
    | flt r => rw [hv] at h; simp at h
    | str r => rw [hv] at h; simp at h

theorem roundedSum_err (E : Env) (p : ℕ) (hn : ∀ i : ℤ, E.mu (.int i) = i) (l : List Mod) :
    |(roundedSum E l p).toRat p - sumMods E l| ≤ halfUlp p := by
  unfold roundedSum
  split
  · rename_i h
    simp only [Num.toRat, intSum_eq E hn l h, sub_self, abs_zero]
    exact halfUlp_nonneg p
  · simp only [Num.toRat]
    exact roundNum_err _ p

def cnt {α : Type} : Option α → ℕ
  | none => 0
  | some _ => 1

theorem numO_err (E : Env) (p : ℕ) (hn : ∀ i : ℤ, E.mu (.int i) = i) (o : Option (List Mod)) :
    |numO p (o.map fun l => roundedSum E l p) - optSum E o| ≤ (cnt o : ℚ) * halfUlp p := by
  cases o with
  | none => simp [numO, optSum, cnt]
  | some l => simp only [Option.map_some, numO, optSum, cnt, Nat.cast_one, one_mul]; exact roundedSum_err E p hn l

theorem termNum_zero (E : Env) (p : ℕ) (o : Option (List Mod)) :
    termNum E p o 0 = o.map fun l => roundedSum E l p := by
  have : ¬ absQ 0 > threshold := by
    rw [absQ_eq_abs, abs_zero]; exact not_lt.mpr (le_of_lt threshold_pos)
  simp [termNum, this]

def cntIntervals : List Interval → ℕ
  | [] => 0
  | iv :: r => cnt iv.mods + cntIntervals r

theorem intervals_err (E : Env) (p : ℕ) (hn : ∀ i : ℤ, E.mu (.int i) = i) (l : List Interval) :
    |outIntervalsL p (l.map fun iv => (iv, iv.mods.map fun ms => roundedSum E ms p)) - sumIntervals E l| ≤
      (cntIntervals l : ℚ) * halfUlp p := by
  induction l with
  | nil => simp [outIntervalsL, sumIntervals, cntIntervals]
  | cons iv l ih =>
    have h1 := numO_err E p hn iv.mods
    simp only [List.map_cons, outIntervalsL, sumIntervals, cntIntervals]
    have e : numO p (iv.mods.map fun ms => roundedSum E ms p) +
          outIntervalsL p (l.map fun iv => (iv, iv.mods.map fun ms => roundedSum E ms p)) -
          (optSum E iv.mods + sumIntervals E l) =
        (numO p (iv.mods.map fun ms => roundedSum E ms p) - optSum E iv.mods) +
        (outIntervalsL p (l.map fun iv => (iv, iv.mods.map fun ms => roundedSum E ms p)) - sumIntervals E l) := by ring
    rw [e]
    have := abs_add_le (numO p (iv.mods.map fun ms => roundedSum E ms p) - optSum E iv.mods)
      (outIntervalsL p (l.map fun iv => (iv, iv.mods.map fun ms => roundedSum E ms p)) - sumIntervals E l)
    push_cast; linarith

def cntIntervalsO : Option (List Interval) → ℕ
  | none => 0
  | some l => cntIntervals l

/-- how many numbers the function writes -/
def written (c : Annotation) (s : Shifts) : ℕ :=
  s.internal.length + cnt c.nterm + cnt c.cterm + cnt c.labile + cnt c.unknown + cntIntervalsO c.intervals

theorem pieceShifts_of_diffs (E : Env) (p : ℕ) (t : ℚ) (pieces : List Annotation) (i : ℕ) (ds : List ℚ)
    (h : pieceDiffs E pieces = .ok ds) : pieceShifts E p t pieces i = .ok (shiftsFrom p (ds.map (· - t)) i) := by
  induction pieces generalizing i ds with
  | nil => simp [pieceDiffs] at h; subst h; rfl
  | cons q r ih =>
    simp only [pieceDiffs] at h
    cases hd : pieceDiff E q with
    | error e => simp [hd] at h
    | ok d =>
      simp only [hd] at h
      cases hr : pieceDiffs E r with
      | error e => simp [hr] at h
      | ok ds' =>
        simp only [hr, Except.ok.injEq] at h
        subst h
        simp only [pieceShifts, hd, ih (i + 1) ds' hr, List.map_cons, shiftsFrom]
        split <;> rfl

/-- the differences of the pieces of a condensed unlabelled annotation -/
def diffsOf (E : Env) (c : Annotation) : List ℚ := (List.range c.seq.length).map fun i : ℕ => sumAt E c.internal (i : ℕ)

/-- what the function writes for a condensed, unlabelled annotation -/
theorem shiftsOf_nolabel (E : Env) (c : Annotation) (p : ℕ) (hiso : c.isotope = none) (hst : c.static = none) :
    shiftsOf E c p = .ok
      { internal := shiftsFrom p (diffsOf E c) 0,
        nterm := c.nterm.map fun l => roundedSum E l p,
        cterm := c.cterm.map fun l => roundedSum E l p,
        labile := c.labile.map fun l => roundedSum E l p,
        unknown := c.unknown.map fun l => roundedSum E l p,
        intervals := c.intervals.map fun l => l.map fun iv => (iv, iv.mods.map fun ms => roundedSum E ms p) } := by
  have hd := pieceDiffs_core E c hiso hst
  have hs := pieceShifts_of_diffs E p (0 + 0) _ 0 _ hd
  have hmap : ((List.range c.seq.length).map fun i : ℕ => sumAt E c.internal (i : ℕ)).map (· - ((0 : ℚ) + 0)) = diffsOf E c := by
    unfold diffsOf; simp
  rw [hmap] at hs
  simp only [shiftsOf, hiso, termLabelShift, hs, termNum_zero]

/-- **the central bound of C18** for a condensed, unlabelled annotation -/
theorem outMass_err (E : Env) (c : Annotation) (p : ℕ) (s : Shifts) (hiso : c.isotope = none) (hst : c.static = none)
    (hr : InRange c) (hn : ∀ i : ℤ, E.mu (.int i) = i) (hp : E.ionP = true) (hs : shiftsOf E c p = .ok s) :
    |outMass E c s p - (plainMass E c + E.adj)| ≤
      (written c s : ℚ) * halfUlp p + (droppedNonzero (diffsOf E c) : ℚ) * threshold := by
  rw [shiftsOf_nolabel E c p hiso hst] at hs
  simp only [Except.ok.injEq] at hs
  subst hs
  have h1 := shiftsFrom_err p (diffsOf E c) 0
  have hsum : listSum (diffsOf E c) = optInt E c.internal := listSum_sumAt_opt E c hr
  rw [hsum] at h1
  have h2 := numO_err E p hn c.nterm
  have h3 := numO_err E p hn c.cterm
  have h4 := numO_err E p hn c.labile
  have h5 := numO_err E p hn c.unknown
  have h6 : |outIntervals p (c.intervals.map fun l => l.map fun iv => (iv, iv.mods.map fun ms => roundedSum E ms p)) -
      optIntervals E c.intervals| ≤ (cntIntervalsO c.intervals : ℚ) * halfUlp p := by
    cases hi : c.intervals with
    | none => simp [outIntervals, optIntervals, cntIntervalsO]
    | some l => simp only [Option.map_some, outIntervals, optIntervals, cntIntervalsO]; exact intervals_err E p hn l
  rw [abs_le] at h1 h2 h3 h4 h5 h6 ⊢
  simp only [outMass, plainMass, written, hp, if_true]
  push_cast
  constructor <;> nlinarith [h1.1, h1.2, h2.1, h2.2, h3.1, h3.2, h4.1, h4.2, h5.1, h5.2, h6.1, h6.2]

/-! ### the range of the keys survives condensation -/

theorem keys_internalAppend (d : List (Int × List Mod)) (i : Int) (ms : List Mod) :
    ∀ q ∈ internalAppend d i ms, q.1 = i ∨ ∃ q' ∈ d, q'.1 = q.1 := by
  induction d with
  | nil => intro q hq; simp [internalAppend] at hq; left; rw [hq]
  | cons x d ih =>
    obtain ⟨k, v⟩ := x
    intro q hq
    simp only [internalAppend] at hq
    split at hq
    · rename_i hk
      rcases List.mem_cons.mp hq with h | h
      · left; rw [h]; exact hk
      · right; exact ⟨q, by simp [h], rfl⟩
    · rcases List.mem_cons.mp hq with h | h
      · right; exact ⟨(k, v), by simp, by rw [h]⟩
      · rcases ih q h with h' | ⟨q', hq', he⟩
        · left; exact h'
        · right; exact ⟨q', by simp [hq'], he⟩

def KeysIn (n : ℕ) (cur : Option (List (Int × List Mod))) : Prop := ∀ q ∈ cur.getD [], 0 ≤ q.1 ∧ q.1 < (n : Int)

theorem keysIn_addInternal (n : ℕ) (cur : Option (List (Int × List Mod))) (i : ℕ) (ms : List Mod) (hi : i < n)
    (h : KeysIn n cur) : KeysIn n (addInternal cur (Int.ofNat i) ms) := by
  intro q hq
  cases cur with
  | none =>
    simp [addInternal] at hq
    rw [hq]; simp only [Int.ofNat_eq_natCast]; omega
  | some d =>
    simp only [addInternal, Option.getD_some] at hq
    rcases keys_internalAppend d _ ms q hq with h' | ⟨q', hq', he⟩
    · rw [h']; simp only [Int.ofNat_eq_natCast]; omega
    · rw [← he]; exact h q' (by simp [hq'])

theorem keysIn_addInternalAt (n : ℕ) (idx : List ℕ) (cur : Option (List (Int × List Mod))) (ms : List Mod)
    (hi : ∀ i ∈ idx, i < n) (h : KeysIn n cur) : KeysIn n (addInternalAt cur idx ms) := by
  induction idx generalizing cur with
  | nil => exact h
  | cons j idx ih =>
    have : addInternalAt cur (j :: idx) ms = addInternalAt (addInternal cur (Int.ofNat j) ms) idx ms := rfl
    rw [this]
    exact ih _ (fun i hi' => hi i (by simp [hi'])) (keysIn_addInternal n cur j ms (hi j (by simp)) h)

theorem keysIn_applyResidueRules (seq : List Char) (m : StaticMap) (cur : Option (List (Int × List Mod)))
    (h : KeysIn seq.length cur) : KeysIn seq.length (applyResidueRules seq cur m) := by
  induction m generalizing cur with
  | nil => exact h
  | cons x m ih =>
    obtain ⟨k, ms⟩ := x
    simp only [applyResidueRules]
    split
    · exact ih cur h
    · exact ih _ (keysIn_addInternalAt _ _ cur ms (targetIndices_lt k seq) h)

theorem inRange_condense (a c : Annotation) (hc : condenseStatic a = .ok c) (h : InRange a) : InRange c := by
  unfold condenseStatic at hc
  cases hs : a.static with
  | none => simp [hs] at hc; subst hc; exact h
  | some rules =>
    simp only [hs] at hc
    cases hp : parseStaticMods (some rules) with
    | error e => simp [hp] at hc
    | ok m =>
      simp [hp] at hc; subst hc
      exact keysIn_applyResidueRules a.seq m a.internal h

end CondenseMass
end Pept
