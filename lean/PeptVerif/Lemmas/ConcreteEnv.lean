import PeptVerif.Lemmas.Mass
import PeptVerif.Lemmas.CondenseLabel
import PeptVerif.Model.ConcreteEnv
/-! The concrete environment (`Model/ConcreteEnv.lean`, generated tables of /repo) satisfies what the abstract theorems of
C12 / C18 assume: `Coherent`. Every table fact is a kernel-evaluated check over the regenerated tables, so an edit of
constants.py / chem.txt that breaks the agreement of the two mass calculators breaks a theorem here. -/
namespace Pept
namespace Concrete
open Chem AbsMass CondenseMass

/-! ### table checks (closed terms, `decide +kernel`) -/

/-- every residue: tabulated mass (`MONOISOTOPIC_AA_MASSES` / `AVERAGE_AA_MASSES`) = mass of its composition read through the
text-keyed element masses; and its composition has distinct keys -/
def aaTableOk (mono : Bool) : Bool :=
  Gen.aaComp.all fun e =>
    decide (constMass mono e.2 = AbsMass.chemMass (emOf mono) (decodeComp e.2)) &&
    decide (((decodeComp e.2).map (·.1)).Nodup)

theorem aaTable_ok : ∀ mono, aaTableOk mono = true := by
  intro mono; cases mono <;> decide +kernel

/-- the four constant compositions of the plain precursor query -/
def ionAdjP : AbsMass.Comp := decodeComp ((lookup Mass.ionP neutralAdj).getD [])
def chargeP : AbsMass.Comp := decodeComp (compOrNil (CompCalc.defaultCarrier 0 Mass.ionP))
def ntermP : AbsMass.Comp := decodeComp ((lookup Mass.ionP Gen.neutralStart).getD [])
def ctermP : AbsMass.Comp := decodeComp ((lookup Mass.ionP Gen.neutralEnd).getD [])

def termKeys : List (List Char) := (ionAdjP ++ chargeP ++ ntermP ++ ctermP).map (·.1)

/-- the neutral precursor: what `adjust_mass` adds = mass of (ion-type adjustment + charge carrier); the adjustment plus the
carrier has exactly the atoms of `NTERM_COMPOSITION` + `CTERM_COMPOSITION`; distinct keys -/
def termTableOk (mono : Bool) : Bool :=
  decide (okOr0 (Mass.adjustMass 0 (some 0) Mass.ionP mono 0 0 none none) =
    AbsMass.chemMass (emOf mono) ionAdjP + AbsMass.chemMass (emOf mono) chargeP) &&
  termKeys.all (fun x => decide (compGet ionAdjP x + compGet chargeP x = compGet ntermP x + compGet ctermP x)) &&
  decide ((ionAdjP.map (·.1)).Nodup) && decide ((chargeP.map (·.1)).Nodup) &&
  decide ((ntermP.map (·.1)).Nodup) && decide ((ctermP.map (·.1)).Nodup)

theorem termTable_ok : ∀ mono, termTableOk mono = true := by
  intro mono; cases mono <;> decide +kernel

/-! ### from the checks to `Coherent` -/

theorem compGet_of_not_mem (c : AbsMass.Comp) (k : List Char) (h : k ∉ c.map (·.1)) : compGet c k = 0 := by
  apply compGet_of_not_has
  cases hh : compHas c k with
  | false => rfl
  | true => exact absurd ((compHas_eq_true c k).mp hh) h

/-- **the concrete environment of `mass(x)` is coherent**, in both mass modes, for any resolver -/
theorem coherent_envOf (env : Pept.Env) (mono : Bool) : Coherent (envOf env mono) := by
  have hT := termTable_ok mono
  unfold termTableOk at hT
  simp only [Bool.and_eq_true, decide_eq_true_eq] at hT
  obtain ⟨⟨⟨⟨⟨hadj, hterm⟩, hn1⟩, hn2⟩, hn3⟩, hn4⟩ := hT
  have hA := aaTable_ok mono
  have hAe : ∀ x c, lookup x Gen.aaComp = some c →
      constMass mono c = AbsMass.chemMass (emOf mono) (decodeComp c) ∧ ((decodeComp c).map (·.1)).Nodup := by
    intro x c hl
    have hm := Mass.chem_lookup_mem x Gen.aaComp c hl
    have := List.all_eq_true.mp hA (x, c) hm
    simpa [Bool.and_eq_true] using this
  refine ⟨?_, hadj, ?_, ?_, hn1, hn2, hn3, hn4, rfl, rfl, rfl, rfl⟩
  · intro x
    show (aaMass mono x.toNat).getD 0 = AbsMass.chemMass (emOf mono) (decodeComp ((lookup x.toNat Gen.aaComp).getD []))
    unfold aaMass
    cases hl : lookup x.toNat Gen.aaComp with
    | none => simp [decodeComp, AbsMass.chemMass]
    | some c => simpa using (hAe _ c hl).1
  · intro x
    show compGet ionAdjP x + compGet chargeP x = compGet ntermP x + compGet ctermP x
    by_cases hx : x ∈ termKeys
    · have := List.all_eq_true.mp hterm x hx
      simpa using this
    · unfold termKeys at hx
      simp only [List.map_append, List.mem_append, not_or] at hx
      rw [compGet_of_not_mem _ _ hx.1.1.1, compGet_of_not_mem _ _ hx.1.1.2, compGet_of_not_mem _ _ hx.1.2,
        compGet_of_not_mem _ _ hx.2]
  · intro x
    show NodupKeys (decodeComp ((lookup x.toNat Gen.aaComp).getD []))
    cases hl : lookup x.toNat Gen.aaComp with
    | none => simp [decodeComp, NodupKeys]
    | some c => exact (hAe _ c hl).2

end Concrete
end Pept
