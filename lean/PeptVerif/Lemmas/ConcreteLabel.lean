import PeptVerif.Lemmas.FragmentLabel
import PeptVerif.Lemmas.ConcreteKeys
import PeptVerif.Lemmas.CondenseLabel
import PeptVerif.Lemmas.CompCalc
/-! Bridge on the LABEL path: for a plain labelled annotation (static rules written out, nothing labile / unknown / interval /
adduct) the composition path of the concrete model (`Mass.mass` → `CompCalc.compMass`, closed form `Fragment.massOf_labelled`
of C04) and `AbsMass.massLabel` at the concrete environment return the same number.

Idea (as in `Lemmas/FragmentLabel.lean`): isotope substitution on a dict with distinct keys is a change of the mass
function; the relabelled mass functions of the two models correspond through the key packing. -/
namespace Pept
namespace Concrete
open Chem AbsMass Static

/-! ### relabelling = a change of the mass function (text keys) -/

def updC (em : List Char → ℚ) (f : List Char) (v : ℚ) : List Char → ℚ := fun e => if e = f then v else em e

theorem chemMass_updC (em : List Char → ℚ) (f : List Char) (v : ℚ) (c : AbsMass.Comp) (h : NodupKeys c) :
    AbsMass.chemMass (updC em f v) c = AbsMass.chemMass em c + (v - em f) * compGet c f := by
  induction c with
  | nil => simp [AbsMass.chemMass, compGet]
  | cons p c ih =>
    obtain ⟨k, w⟩ := p
    have hn' : NodupKeys c := (List.nodup_cons.mp h).2
    have hnot : k ∉ c.map (·.1) := (List.nodup_cons.mp h).1
    simp only [AbsMass.chemMass, ih hn', compGet]
    by_cases hk : k = f
    · subst hk
      have hz : compGet c k = 0 := by
        apply compGet_of_not_has
        cases hh : compHas c k with
        | false => rfl
        | true => exact absurd ((compHas_eq_true c k).mp hh) hnot
      simp [updC, hz]; ring
    · simp [updC, hk]; ring

/-- the mass function after all substitutions (text keys; the counterpart of `Fragment.labelMu`) -/
def labelEm (lm : LabelMap) (em : List Char → ℚ) : List Char → ℚ :=
  lm.foldr (fun p ν => updC ν p.1 (ν p.2)) em

theorem chemMass_relabel1_upd (em : List Char → ℚ) (c : AbsMass.Comp) (el lab : List Char) (h : NodupKeys c) :
    AbsMass.chemMass em (relabel1 c el lab) = AbsMass.chemMass (updC em el (em lab)) c := by
  rw [chemMass_relabel1 em c el lab h, chemMass_updC em el (em lab) c h]; ring

theorem chemMass_relabel_labelEm (em : List Char → ℚ) (lm : LabelMap) (c : AbsMass.Comp) (h : NodupKeys c) :
    AbsMass.chemMass em (relabel c lm) = AbsMass.chemMass (labelEm lm em) c := by
  induction lm generalizing c with
  | nil => rfl
  | cons p ps ih =>
    obtain ⟨el, lab⟩ := p
    have : relabel c ((el, lab) :: ps) = relabel (relabel1 c el lab) ps := rfl
    rw [this, ih _ (nodupKeys_relabel1 c el lab h)]
    exact chemMass_relabel1_upd (labelEm ps em) c el lab h

/-! ### the two relabelled mass functions correspond through the packing -/

def encPair (p : List Char × List Char) : Chem.Key × Chem.Key := (keyOfChars p.1, keyOfChars p.2)

/-- the keys of a label map survive packing and unpacking -/
def MapKeysOk (lm : LabelMap) : Prop :=
  ∀ p ∈ lm, decodeKey (keyOfChars p.1) = p.1 ∧ decodeKey (keyOfChars p.2) = p.2 ∧ keyOfChars p.2 < 256 ^ 8

theorem labelEm_enc (mono : Bool) (lm : LabelMap) (h : MapKeysOk lm) (k : ℕ) (hk : k < 256 ^ 8) :
    labelEm lm (emOf mono) (decodeKey k) =
      Fragment.labelMu (lm.map encPair) (fun e => (elemMass mono e).getD 0) k := by
  induction lm generalizing k with
  | nil =>
    simp only [labelEm, List.foldr_nil, List.map_nil, Fragment.labelMu, emOf, keyOfChars_decodeKey k hk]
  | cons p ps ih =>
    obtain ⟨el, lab⟩ := p
    have hp := h (el, lab) (by simp)
    have hps : MapKeysOk ps := fun q hq => h q (by simp [hq])
    have e1 : labelEm ((el, lab) :: ps) (emOf mono) =
        updC (labelEm ps (emOf mono)) el (labelEm ps (emOf mono) lab) := rfl
    have e2 : Fragment.labelMu (((el, lab) :: ps).map encPair) (fun e => (elemMass mono e).getD 0) =
        Fragment.upd (Fragment.labelMu (ps.map encPair) (fun e => (elemMass mono e).getD 0)) (keyOfChars el)
          (Fragment.labelMu (ps.map encPair) (fun e => (elemMass mono e).getD 0) (keyOfChars lab)) := rfl
    rw [e1, e2]
    unfold updC Fragment.upd
    have hlab : labelEm ps (emOf mono) lab =
        Fragment.labelMu (ps.map encPair) (fun e => (elemMass mono e).getD 0) (keyOfChars lab) := by
      have := ih hps (keyOfChars lab) hp.2.2
      rw [hp.2.1] at this
      exact this
    by_cases hx : decodeKey k = el
    · have hk' : k = keyOfChars el := by rw [← hx, keyOfChars_decodeKey k hk]
      rw [if_pos hx, if_pos hk', hlab]
    · have hk' : ¬ k = keyOfChars el := by
        intro e; apply hx; rw [e, hp.1]
      rw [if_neg hx, if_neg hk', ih hps k hk]

theorem chemMass_labelEm_decode (mono : Bool) (lm : LabelMap) (h : MapKeysOk lm) (c : Chem.Comp) (hc : SmallKeys c) :
    AbsMass.chemMass (labelEm lm (emOf mono)) (decodeComp c) =
      chemMassL (Fragment.labelMu (lm.map encPair) (fun e => (elemMass mono e).getD 0)) c := by
  induction c with
  | nil => rfl
  | cons p c ih =>
    obtain ⟨k, v⟩ := p
    have hk : k < 256 ^ 8 := hc (k, v) (by simp)
    have ih' := ih (fun q hq => hc q (by simp [hq]))
    unfold decodeComp at ih' ⊢
    simp only [List.map_cons, AbsMass.chemMass, ih', chemMassL_cons, labelEm_enc mono lm h k hk]
    ring

/-! ### residues under an arbitrary mass function -/

theorem chemMass_seqCompOf_any (E : AbsMass.Env) (ν : List Char → ℚ) (s : List Char) (acc : AbsMass.Comp) :
    AbsMass.chemMass ν (seqCompOf E s acc) = AbsMass.chemMass ν acc + (s.map fun x => AbsMass.chemMass ν (E.aaComp x)).sum := by
  induction s generalizing acc with
  | nil => simp [seqCompOf]
  | cons x s ih => simp only [seqCompOf, ih, chemMass_compAdd, List.map_cons, List.sum_cons]; ring

/-! ### modifications: the composition weights of the two models agree -/

theorem sumMods_eq_modsSum (E : AbsMass.Env) (mw : Mod → ℚ) (h : ∀ m, AbsMass.modMass E m = mw m) (l : List Mod) :
    AbsMass.sumMods E l = Fragment.modsSum mw l := by
  induction l with
  | nil => rfl
  | cons m l ih =>
    unfold Fragment.modsSum at ih ⊢
    simp only [AbsMass.sumMods, List.map_cons, List.sum_cons, h m, ih]

theorem optSum_eq_optSum (E : AbsMass.Env) (mw : Mod → ℚ) (h : ∀ m, AbsMass.modMass E m = mw m) (o : Option (List Mod)) :
    AbsMass.optSum E o = Fragment.optSum mw o := by
  cases o with
  | none => rfl
  | some l => exact sumMods_eq_modsSum E mw h l

theorem optInt_eq_intSum (E : AbsMass.Env) (mw : Mod → ℚ) (h : ∀ m, AbsMass.modMass E m = mw m)
    (o : Option (List (Int × List Mod))) : AbsMass.optInt E o = Fragment.intSum mw o := by
  cases o with
  | none => rfl
  | some d =>
    simp only [AbsMass.optInt, Fragment.intSum]
    induction d with
    | nil => rfl
    | cons q d ih => simp only [AbsMass.sumInternal, List.map_cons, List.sum_cons, ih, sumMods_eq_modsSum E mw h]

/-- what the two models weigh a modification with on the composition path -/
theorem modMass_envC_eq_modWeight (env : Pept.Env) (mono : Bool) (t : Key) (ch : Int) (dl : Mod → Option ℚ) (cp : Mod → Chem.Comp)
    (K : Elem → Prop) (hmods : Fragment.ModsResolve env K dl cp) (hsm : ∀ m, dl m = none → SmallKeys (cp m)) (m : Mod) :
    AbsMass.modMass (CondenseMass.envC (envFor env t mono ch 0 0)) m =
      Fragment.modWeight (fun e => (elemMass mono e).getD 0) dl cp m := by
  unfold AbsMass.modMass CondenseMass.envC Fragment.modWeight
  show (match modResOf env m.val with
        | .comp c => AbsMass.chemMass (emOf mono) c | .delta d => d | .bad => 0) * (m.mult : ℚ) = _
  unfold modResOf
  rw [hmods.delta m]
  cases hd : dl m with
  | some v => simp
  | none =>
    simp only
    rw [(hmods.comp m hd).1]
    simp only [chemMass_decodeComp mono (cp m) (hsm m hd)]
    ring

theorem isBad_of_resolve (env : Pept.Env) (mono : Bool) (t : Key) (ch : Int) (dl : Mod → Option ℚ) (cp : Mod → Chem.Comp)
    (K : Elem → Prop) (hmods : Fragment.ModsResolve env K dl cp) (m : Mod) :
    isBad (envFor env t mono ch 0 0) m = false := by
  unfold isBad
  show (match modResOf env m.val with | .bad => true | _ => false) = false
  unfold modResOf
  rw [hmods.delta m]
  cases hd : dl m with
  | some v => rfl
  | none => simp only; rw [(hmods.comp m hd).1]

/-- **bridge (label path)**: a plain labelled annotation, residues and modifications resolving, keys of at most 8 bytes, the
two label parsers agreeing through the key packing (`hmap`, `hkeys`) -/
theorem mass_bridge_label (env : Pept.Env) (mono : Bool) (dl : Mod → Option ℚ) (cp : Mod → Chem.Comp) (aa : Char → Chem.Comp)
    (b : Annotation) (i0 : Mod) (is : List Mod) (lm : LabelMap)
    (hpl : Fragment.PlainL b (i0 :: is))
    (hparseC : AbsMass.parseIsotopeMods (fun k => (lookup (keyOfChars k) isotopicMasses).isSome) (i0 :: is) = .ok lm)
    (hparseN : CompCalc.parseIsotopeMods (i0 :: is) = .ok (lm.map encPair))
    (hkeys : MapKeysOk lm) (hmapK : ∀ p ∈ lm.map encPair, Fragment.knownOf mono p.2)
    (hres : Fragment.ResiduesResolve (Fragment.knownOf mono) aa b.seq) (hsa : ∀ x ∈ b.seq, SmallKeys (aa x))
    (hmods : Fragment.ModsResolve env (Fragment.knownOf mono) dl cp) (hsm : ∀ m, dl m = none → SmallKeys (cp m))
    (t : Key) (ch : Int) (adj car : Chem.Comp)
    (hadj : lookup t neutralAdj = some adj) (hadjK : Fragment.AK (Fragment.knownOf mono) adj) (hsadj : SmallKeys adj)
    (hcar : CompCalc.defaultCarrier ch t = .ok car) (hcarK : Fragment.AK (Fragment.knownOf mono) car) (hscar : SmallKeys car)
    (hcc : (t = Mass.ionP || t = Mass.ionN || (lookup t Gen.baseAdducts).isSome) = true)
    (hn : Fragment.knownOf mono kNn) :
    ∃ X, Fragment.massOf CompCalc.compMass env mono b t ch 0 0 = .ok X ∧
      AbsMass.massLabel (envFor env t mono ch 0 0) b = .ok X := by
  -- the concrete model: C04's closed form
  have hK := Fragment.massOf_labelled env mono dl cp aa b i0 is (lm.map encPair) hpl hparseN hmapK hres hmods t ch 0 0 adj car
    hadj hadjK hcar hcarK hcc hn
  refine ⟨_, hK, ?_⟩
  -- the abstract model at the concrete environment
  have hcond : condenseStatic b = .ok b := by simp [condenseStatic, hpl.static]
  have hbad : (allMods b).any (isBad (envFor env t mono ch 0 0)) = false := by
    rw [List.any_eq_false]; intro m _; simp [isBad_of_resolve env mono t ch dl cp _ hmods m]
  have hq : (envFor env t mono ch 0 0).q.deltaIgnoresMult = false := rfl
  have hmw := modMass_envC_eq_modWeight env mono t ch dl cp _ hmods hsm
  -- modification part
  have hmodpart : AbsMass.chemMass (emOf mono) (modComposition (envFor env t mono ch 0 0) b) + deltaMass (envFor env t mono ch 0 0) b =
      Fragment.optSum (Fragment.modWeight (fun e => (elemMass mono e).getD 0) dl cp) b.nterm +
      Fragment.intSum (Fragment.modWeight (fun e => (elemMass mono e).getD 0) dl cp) b.internal +
      Fragment.optSum (Fragment.modWeight (fun e => (elemMass mono e).getD 0) dl cp) b.cterm := by
    unfold modComposition deltaMass
    simp only [hpl.labile, hpl.unknown, hpl.intervals, Option.getD_none, List.flatMap_nil, compSum, deltaSum, ite_self,
      chemMass_compAdd1]
    have h4 := CondenseMass.compSum_mass' (envFor env t mono ch 0 0) hq (b.nterm.getD []) []
    have h5 := CondenseMass.compSum_mass' (envFor env t mono ch 0 0) hq (b.cterm.getD []) (compSum (envFor env t mono ch 0 0) [] (b.nterm.getD []))
    have h6 := CondenseMass.compSum_mass' (envFor env t mono ch 0 0) hq ((b.internal.getD []).flatMap fun q => q.2)
      (compSum (envFor env t mono ch 0 0) (compSum (envFor env t mono ch 0 0) [] (b.nterm.getD [])) (b.cterm.getD []))
    rw [CondenseMass.sumMods_flatMap_internal] at h6
    rw [CondenseMass.optSum_getD] at h4 h5
    have e2 : AbsMass.sumInternal (CondenseMass.envC (envFor env t mono ch 0 0)) (b.internal.getD []) =
        AbsMass.optInt (CondenseMass.envC (envFor env t mono ch 0 0)) b.internal := by
      cases b.internal <;> simp [AbsMass.optInt, AbsMass.sumInternal]
    rw [e2] at h6
    rw [optSum_eq_optSum _ _ hmw] at h4 h5
    rw [optInt_eq_intSum _ _ hmw] at h6
    have hem : (envFor env t mono ch 0 0).em = emOf mono := rfl
    have hiso : ((envFor env t mono ch 0 0).isotope : ℚ) = 0 := by show ((0 : Int) : ℚ) = 0; simp
    rw [hem] at h4 h5 h6
    simp only [AbsMass.chemMass] at h4
    rw [hiso]
    linarith
  -- sequence part
  have hnod := nodupKeys_sequenceComposition (envFor env t mono ch 0 0) b
  have hseqpart : AbsMass.chemMass (emOf mono) (relabel (sequenceComposition (envFor env t mono ch 0 0) b) lm) =
      (b.seq.map fun x => chemMassL (Fragment.labelMu (lm.map encPair) (Fragment.muOf mono)) (aa x)).sum +
      chemMassL (Fragment.labelMu (lm.map encPair) (Fragment.muOf mono)) adj +
      chemMassL (Fragment.labelMu (lm.map encPair) (Fragment.muOf mono)) car := by
    rw [chemMass_relabel_labelEm (emOf mono) lm _ hnod]
    unfold sequenceComposition
    rw [chemMass_compAdd, chemMass_compAdd, chemMass_seqCompOf_any]
    have hI : (envFor env t mono ch 0 0).ionAdj = decodeComp adj := by
      show decodeComp ((lookup t neutralAdj).getD []) = decodeComp adj; rw [hadj]; rfl
    have hC : (envFor env t mono ch 0 0).chargeComp = decodeComp car := by
      show decodeComp (compOrNil (CompCalc.defaultCarrier ch t)) = decodeComp car; rw [hcar]; rfl
    rw [hI, hC, chemMass_labelEm_decode mono lm hkeys adj hsadj, chemMass_labelEm_decode mono lm hkeys car hscar]
    have hR : (b.seq.map fun x => AbsMass.chemMass (labelEm lm (emOf mono)) ((envFor env t mono ch 0 0).aaComp x)) =
        b.seq.map fun x => chemMassL (Fragment.labelMu (lm.map encPair) (Fragment.muOf mono)) (aa x) := by
      apply List.map_congr_left
      intro x hx
      have hA : (envFor env t mono ch 0 0).aaComp x = decodeComp (aa x) := by
        show decodeComp ((lookup x.toNat Gen.aaComp).getD []) = decodeComp (aa x)
        rw [(hres.residues x hx).1]; rfl
      rw [hA, chemMass_labelEm_decode mono lm hkeys (aa x) (hsa x hx)]
      rfl
    rw [hR]
    simp only [AbsMass.chemMass, zero_add]
    rfl
  have hl' : AbsMass.parseIsotopeMods (envFor env t mono ch 0 0).knownLabel (i0 :: is) = .ok lm := hparseC
  unfold massLabel compMassOf
  have hrule := absentRuleBad_static_none (envFor env t mono ch 0 0) b hpl.static
  simp only [hcond, hbad, hrule, Bool.or_self, hpl.isotope, hl', Bool.false_eq_true, if_false]
  have huse : (envFor env t mono ch 0 0).useIsotopeOnMods = false := rfl
  simp only [huse, Bool.false_eq_true, if_false, chemMass_dropZeros, chemMass_compAdd, AbsMass.chemMass]
  have hem : (envFor env t mono ch 0 0).em = emOf mono := rfl
  rw [hem, hseqpart]
  congr 1
  unfold Fragment.plainWeight
  have := hmodpart
  have hmu : (fun e => (elemMass mono e).getD 0) = Fragment.muOf mono := rfl
  rw [hmu] at this
  simp only [Int.cast_zero, zero_mul, add_zero]
  linarith

/-! ### the labels of the property and the tables: everything `mass_bridge_label` asks for, checked on the generated tables -/

def propLabels : List (List Char) :=
  [['1', '3', 'C'], ['1', '5', 'N'], ['1', '8', 'O'], ['1', '7', 'O'], ['3', '4', 'S'], ['D'], ['T'], ['2', 'H']]

/-- single labels and ordered pairs of labels -/
def labelLists : List (List Mod) :=
  propLabels.map (fun a => [⟨.str a, 1⟩]) ++ propLabels.flatMap fun a => propLabels.map fun b => [⟨.str a, 1⟩, ⟨.str b, 1⟩]

def mapKeysOkB (lm : LabelMap) : Bool :=
  lm.all fun p => decide (decodeKey (keyOfChars p.1) = p.1) && decide (decodeKey (keyOfChars p.2) = p.2) &&
    decide (keyOfChars p.2 < 256 ^ 8)

/-- for one label list: the two parsers agree through the packing, the keys survive packing, the labels have masses -/
def labelListOk (mono : Bool) (L : List Mod) : Bool :=
  match AbsMass.parseIsotopeMods (fun k => (lookup (keyOfChars k) isotopicMasses).isSome) L with
  | .error _ => false
  | .ok lm =>
    decide (CompCalc.parseIsotopeMods L = .ok (lm.map encPair)) && mapKeysOkB lm &&
      (lm.map encPair).all fun p => (elemMass mono p.2).isSome

theorem labelLists_ok : ∀ mono, labelLists.all (labelListOk mono) = true := by
  intro mono; cases mono <;> decide +kernel

/-- the residue compositions, the precursor adjustment and the particles: keys of at most 8 bytes, all with a mass -/
def tablesSmallKnown (mono : Bool) : Bool :=
  (Gen.aaComp.all fun e => e.2.all fun p => decide (p.1 < 256 ^ 8) && (elemMass mono p.1).isSome) &&
  (((lookup Mass.ionP neutralAdj).getD []).all fun p => decide (p.1 < 256 ^ 8) && (elemMass mono p.1).isSome) &&
  (lookup Mass.ionP neutralAdj).isSome &&
  (elemMass mono kH).isSome && (elemMass mono kE).isSome && (elemMass mono kNn).isSome

theorem tablesSmallKnown_ok : ∀ mono, tablesSmallKnown mono = true := by
  intro mono; cases mono <;> decide +kernel

/-- **bridge (label path), precursor ion, the property's labels**: for a plain annotation carrying one label or a pair of labels
of the property, with known residues and modifications that resolve (compositions keyed by at most 8 bytes), at any charge
and in both mass modes, the concrete model's `mass` (composition path of C03) and `AbsMass.massLabel` at the concrete
environment return the same number. -/
theorem mass_bridge_label_precursor (env : Pept.Env) (mono : Bool) (dl : Mod → Option ℚ) (cp : Mod → Chem.Comp)
    (b : Annotation) (L : List Mod) (ch : Int) (hL : L ∈ labelLists) (hpl : Fragment.PlainL b L)
    (hseq : CompCalc.KnownResidues b.seq)
    (hmods : Fragment.ModsResolve env (Fragment.knownOf mono) dl cp) (hsm : ∀ m, dl m = none → SmallKeys (cp m)) :
    ∃ X, Mass.mass env b { charge := some ch, mono := mono } = .ok X ∧
      AbsMass.massLabel (envFor env Mass.ionP mono ch 0 0) b = .ok X := by
  have hLok := List.all_eq_true.mp (labelLists_ok mono) L hL
  unfold labelListOk at hLok
  cases hp : AbsMass.parseIsotopeMods (fun k => (lookup (keyOfChars k) isotopicMasses).isSome) L with
  | error e => rw [hp] at hLok; simp at hLok
  | ok lm =>
    rw [hp] at hLok
    simp only [Bool.and_eq_true, decide_eq_true_eq] at hLok
    obtain ⟨⟨hN, hkB⟩, hknown⟩ := hLok
    have hkeys : MapKeysOk lm := by
      intro p hpm
      have := List.all_eq_true.mp hkB p hpm
      simp only [Bool.and_eq_true, decide_eq_true_eq] at this
      exact ⟨this.1.1, this.1.2, this.2⟩
    have hmapK : ∀ p ∈ lm.map encPair, Fragment.knownOf mono p.2 := fun p hpm => List.all_eq_true.mp hknown p hpm
    have hT := tablesSmallKnown_ok mono
    unfold tablesSmallKnown at hT
    simp only [Bool.and_eq_true] at hT
    obtain ⟨⟨⟨⟨⟨hAA, hADJ⟩, hADJs⟩, hH⟩, hE⟩, hNn⟩ := hT
    obtain ⟨adj, hadj⟩ := Option.isSome_iff_exists.mp hADJs
    have hadjAll : ∀ p ∈ adj, p.1 < 256 ^ 8 ∧ (elemMass mono p.1).isSome = true := by
      intro p hpm
      rw [hadj] at hADJ
      have := List.all_eq_true.mp hADJ p hpm
      simpa [Bool.and_eq_true] using this
    -- the residues
    let aa : Char → Chem.Comp := fun x => (lookup x.toNat Gen.aaComp).getD []
    have haaAll : ∀ x ∈ b.seq, lookup x.toNat Gen.aaComp = some (aa x) ∧
        ∀ p ∈ aa x, p.1 < 256 ^ 8 ∧ (elemMass mono p.1).isSome = true := by
      intro x hx
      obtain ⟨f, hf⟩ := hseq x hx
      have hax : aa x = f := by show (lookup x.toNat Gen.aaComp).getD [] = f; rw [hf]; rfl
      refine ⟨by rw [hax]; exact hf, ?_⟩
      intro p hpm
      rw [hax] at hpm
      have hm := Mass.chem_lookup_mem _ _ _ hf
      have := List.all_eq_true.mp (List.all_eq_true.mp hAA (x.toNat, f) hm) p hpm
      simpa [Bool.and_eq_true] using this
    obtain ⟨hB, hZ⟩ := CompCalc.noBZ b.seq hseq
    have hres : Fragment.ResiduesResolve (Fragment.knownOf mono) aa b.seq :=
      ⟨fun x hx => ⟨(haaAll x hx).1, fun q hq => ((haaAll x hx).2 q hq).2⟩, hB, hZ⟩
    -- the charge carrier of the precursor
    have hcar : CompCalc.defaultCarrier ch Mass.ionP = .ok (addAll [] (CompCalc.protonsComp ch)) := by
      simp [CompCalc.defaultCarrier]; rfl
    have hcarKeys : ∀ p ∈ addAll [] (CompCalc.protonsComp ch), p.1 = kH ∨ p.1 = kE := by
      intro p hpm
      simp only [CompCalc.protonsComp, addAll, List.foldl_cons, List.foldl_nil, addKey] at hpm
      have hne : ¬ kH = kE := by decide
      simp only [hne, if_false, List.mem_cons, List.mem_nil_iff, or_false] at hpm
      rcases hpm with h | h <;> simp [h]
    have hscar : SmallKeys (addAll [] (CompCalc.protonsComp ch)) := by
      intro p hpm
      rcases hcarKeys p hpm with h | h <;> rw [h] <;> decide
    have hcarK : Fragment.AK (Fragment.knownOf mono) (addAll [] (CompCalc.protonsComp ch)) := by
      intro p hpm
      rcases hcarKeys p hpm with h | h
      · show (elemMass mono p.1).isSome = true; rw [h]; exact hH
      · show (elemMass mono p.1).isSome = true; rw [h]; exact hE
    cases L with
    | nil => exact absurd hL (by decide)
    | cons i0 is =>
      obtain ⟨X, hX1, hX2⟩ := mass_bridge_label env mono dl cp aa b i0 is lm hpl hp hN hkeys hmapK hres
        (fun x hx p hpm => ((haaAll x hx).2 p hpm).1) hmods hsm Mass.ionP ch adj _ hadj
        (fun p hpm => (hadjAll p hpm).2) (fun p hpm => (hadjAll p hpm).1) hcar hcarK hscar (by decide) hNn
      exact ⟨X, hX1, hX2⟩

end Concrete
end Pept
