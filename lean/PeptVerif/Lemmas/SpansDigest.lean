import PeptVerif.Lemmas.SpansNodup
/-! C06 helper lemmas: the every-position-is-a-site test of `build_spans`; `sorted(set(spans))` of `digest`. -/
namespace Spans

/-- a strictly increasing list inside `[a,b]` has at most `b-a+1` elements, and exactly that many only
if it contains every integer of `[a,b]` -/
theorem ssorted_length (l : List Int) (h : SSorted l) (a b : Int) (hb : ∀ x ∈ l, a ≤ x ∧ x ≤ b) :
    (l.length : Int) ≤ max 0 (b - a + 1) ∧
      ((l.length : Int) = b - a + 1 → ∀ i, a ≤ i → i ≤ b → i ∈ l) := by
  induction l generalizing a with
  | nil =>
    refine ⟨by simp; omega, ?_⟩
    intro h i h1 h2; simp at h; omega
  | cons x t ih =>
    unfold SSorted at h; rw [List.pairwise_cons] at h
    have hx := hb x (by simp)
    have ih := ih h.2 (x + 1) (fun y hy => by have := h.1 y hy; have := hb y (by simp [hy]); omega)
    simp only [List.length_cons]
    refine ⟨by omega, ?_⟩
    intro hlen i h1 h2
    have hxa : x = a := by omega
    subst hxa
    by_cases hi : i = x
    · simp [hi]
    · exact List.mem_cons_of_mem _ (ih.2 (by omega) i (by omega) h2)

theorem length_range (a b : Int) : ((range a b).length : Int) = max 0 (b - a) := by
  unfold range; simp; omega

/-- the test `len(sorted(set(sites))) == max_index + 1` of `build_spans` recognises exactly the site
lists that contain every position `0..n`, provided all sites lie in `[0,n]` -/
theorem length_sortDedup_iff (n : Int) (S : List Int) (hn : -1 ≤ n) (hb : ∀ s ∈ S, 0 ≤ s ∧ s ≤ n) :
    ((sortDedup S).length : Int) = n + 1 ↔ NonSpecific n S := by
  constructor
  · intro h i h0 hn
    have := (ssorted_length (sortDedup S) (ssorted_sortDedup S) 0 n
      (fun x hx => hb x ((mem_sortDedup x S).mp hx))).2 (by omega) i h0 hn
    exact (mem_sortDedup i S).mp this
  · intro h
    have : sortDedup S = range 0 (n + 1) := by
      apply ssorted_ext _ _ (ssorted_sortDedup S) (pairwise_range _ _)
      intro x
      rw [mem_sortDedup, mem_range]
      constructor
      · intro hx; have := hb x hx; omega
      · intro hx; exact h x hx.1 (by omega)
    rw [this, length_range]; omega

/-! ### `sorted(set(spans))` -/

def SpanLT (a b : Span) : Prop := a.1 < b.1 ∨ (a.1 = b.1 ∧ (a.2.1 < b.2.1 ∨ (a.2.1 = b.2.1 ∧ a.2.2 < b.2.2)))

theorem spanLt_iff (a b : Span) : spanLt a b = true ↔ SpanLT a b := by
  simp [spanLt, SpanLT]

theorem mem_insertSpan (x y : Span) (l : List Span) : y ∈ insertSpan x l ↔ y = x ∨ y ∈ l := by
  induction l with
  | nil => simp [insertSpan]
  | cons a l ih =>
    simp only [insertSpan]
    split
    · simp
    · split
      · rename_i h; have : x = a := by simpa using h
        subst this; simp
      · simp [ih]; constructor <;> (intro h; rcases h with h | h | h <;> simp [h])

theorem mem_sortDedupSpans (x : Span) (l : List Span) : x ∈ sortDedupSpans l ↔ x ∈ l := by
  induction l with
  | nil => simp [sortDedupSpans]
  | cons a l ih =>
    have : sortDedupSpans (a :: l) = insertSpan a (sortDedupSpans l) := rfl
    rw [this, mem_insertSpan, ih]; simp

theorem pairwise_insertSpan (x : Span) (l : List Span) (h : l.Pairwise SpanLT) :
    (insertSpan x l).Pairwise SpanLT := by
  induction l with
  | nil => simp [insertSpan]
  | cons a l ih =>
    simp only [insertSpan]
    rw [List.pairwise_cons] at h
    split
    · rename_i hxa
      rw [spanLt_iff] at hxa
      rw [List.pairwise_cons]; refine ⟨?_, List.pairwise_cons.mpr h⟩
      intro b hb; rcases List.mem_cons.mp hb with rfl | hb
      · exact hxa
      · have := h.1 b hb; unfold SpanLT at *; omega
    · split
      · exact List.pairwise_cons.mpr h
      · rename_i h1 h2
        rw [spanLt_iff] at h1
        have h2' : x ≠ a := by simpa using h2
        rw [List.pairwise_cons]; refine ⟨?_, ih h.2⟩
        intro b hb
        rcases (mem_insertSpan x b l).mp hb with rfl | hb
        · obtain ⟨b1, b2, b3⟩ := b; obtain ⟨a1, a2, a3⟩ := a
          simp only [SpanLT, ne_eq, Prod.mk.injEq] at *; omega
        · exact h.1 b hb

theorem pairwise_sortDedupSpans (l : List Span) : (sortDedupSpans l).Pairwise SpanLT := by
  induction l with
  | nil => simp [sortDedupSpans]
  | cons a l ih => exact pairwise_insertSpan a _ ih

theorem nodup_of_pairwise_spanLT {l : List Span} (h : l.Pairwise SpanLT) : l.Nodup :=
  h.imp (by intro a b h heq; subst heq; unfold SpanLT at h; omega)

end Spans
