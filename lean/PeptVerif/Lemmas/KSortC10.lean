import PeptVerif.Model.ModDbTypes
/-!
A fuel-based, structurally recursive bottom-up merge sort on code-point strings that reduces in the kernel
(core `List.mergeSort` is defined by well-founded recursion and does not), with the two facts needed to turn
"the sorted key list is strictly increasing" (checked by `decide +kernel`) into `List.Nodup keys`:
the sort is a permutation, and a strictly increasing list has no duplicates.  Mathlib-free.
-/
namespace KSort
open ModDb

/-- strict lexicographic order on code-point lists -/
def ltStr : Str → Str → Bool
  | [], [] => false
  | [], _ :: _ => true
  | _ :: _, [] => false
  | a :: as, b :: bs => if a < b then true else if b < a then false else ltStr as bs

theorem ltStr_irrefl : ∀ a : Str, ltStr a a = false
  | [] => rfl
  | a :: as => by simp [ltStr, ltStr_irrefl as]

theorem ltStr_trans : ∀ {a b c : Str}, ltStr a b = true → ltStr b c = true → ltStr a c = true
  | [], [], _, h, _ => by simp [ltStr] at h
  | [], _ :: _, [], _, h => by simp [ltStr] at h
  | [], _ :: _, _ :: _, _, _ => by simp [ltStr]
  | _ :: _, [], _, h, _ => by simp [ltStr] at h
  | _ :: _, _ :: _, [], _, h => by simp [ltStr] at h
  | a :: as, b :: bs, c :: cs, h1, h2 => by
    simp only [ltStr] at h1 h2 ⊢
    by_cases hab : a < b
    · by_cases hbc : b < c
      · have : a < c := Nat.lt_trans hab hbc
        simp [this]
      · by_cases hcb : c < b
        · simp [hbc, hcb] at h2
        · have : b = c := by omega
          subst this; simp [hab]
    · by_cases hba : b < a
      · simp [hab, hba] at h1
      · have hab' : a = b := by omega
        subst hab'
        by_cases hbc : a < c
        · simp [hbc]
        · by_cases hcb : c < a
          · simp [hbc, hcb] at h2
          · simp only [hab, hbc, hcb, if_false] at h1 h2 ⊢
            exact ltStr_trans h1 h2

def mergeF : Nat → List Str → List Str → List Str
  | 0, xs, ys => xs ++ ys
  | _ + 1, [], ys => ys
  | _ + 1, xs, [] => xs
  | f + 1, x :: xs, y :: ys =>
    if ltStr y x then y :: mergeF f (x :: xs) ys else x :: mergeF f xs (y :: ys)

theorem mergeF_perm : ∀ (f : Nat) (xs ys : List Str), (mergeF f xs ys).Perm (xs ++ ys)
  | 0, xs, ys => by simp [mergeF]
  | _ + 1, [], ys => by simp [mergeF]
  | _ + 1, x :: xs, [] => by simp [mergeF]
  | f + 1, x :: xs, y :: ys => by
    simp only [mergeF]
    split
    · have h := mergeF_perm f (x :: xs) ys
      have : (y :: mergeF f (x :: xs) ys).Perm (y :: ((x :: xs) ++ ys)) := h.cons y
      exact this.trans (List.perm_middle.symm)
    · have h := mergeF_perm f xs (y :: ys)
      exact h.cons x

def mergePairs : List (List Str) → List (List Str)
  | a :: b :: r => mergeF (a.length + b.length) a b :: mergePairs r
  | l => l

theorem mergePairs_perm : ∀ ls : List (List Str), (mergePairs ls).flatten.Perm ls.flatten
  | [] => by simp [mergePairs]
  | [a] => by simp [mergePairs]
  | a :: b :: r => by
    simp only [mergePairs, List.flatten_cons]
    have h1 := mergeF_perm (a.length + b.length) a b
    have h2 := mergePairs_perm r
    have := h1.append h2
    simpa [List.append_assoc] using this

def msortAux : Nat → List (List Str) → List Str
  | 0, ls => ls.flatten
  | _ + 1, [] => []
  | _ + 1, [a] => a
  | f + 1, a :: b :: r => msortAux f (mergePairs (a :: b :: r))

theorem msortAux_perm : ∀ (f : Nat) (ls : List (List Str)), (msortAux f ls).Perm ls.flatten
  | 0, ls => by simp [msortAux]
  | _ + 1, [] => by simp [msortAux]
  | _ + 1, [a] => by simp [msortAux]
  | f + 1, a :: b :: r => by
    simp only [msortAux]
    exact (msortAux_perm f _).trans (mergePairs_perm _)

/-- bottom-up merge sort; `length + 1` rounds are more than enough (⌈log₂ n⌉ suffice) -/
def msort (l : List Str) : List Str := msortAux (l.length + 1) (l.map fun x => [x])

theorem flatten_singletons : ∀ l : List Str, (l.map fun x => [x]).flatten = l
  | [] => rfl
  | x :: r => by simp [flatten_singletons r]

theorem msort_perm (l : List Str) : (msort l).Perm l := by
  have := msortAux_perm (l.length + 1) (l.map fun x => [x])
  rwa [flatten_singletons] at this

/-- adjacent elements strictly increasing -/
def strictSorted : List Str → Bool
  | a :: b :: r => ltStr a b && strictSorted (b :: r)
  | _ => true

theorem strictSorted_pairwise : ∀ l : List Str, strictSorted l = true → l.Pairwise (fun a b => ltStr a b = true)
  | [] => fun _ => List.Pairwise.nil
  | [a] => fun _ => by simp
  | a :: b :: r => fun h => by
    simp only [strictSorted, Bool.and_eq_true] at h
    have ih := strictSorted_pairwise (b :: r) h.2
    refine List.Pairwise.cons ?_ ih
    intro c hc
    rcases List.mem_cons.mp hc with rfl | hc
    · exact h.1
    · exact ltStr_trans h.1 ((List.pairwise_cons.mp ih).1 c hc)

theorem nodup_of_strictSorted (l : List Str) (h : strictSorted l = true) : l.Nodup := by
  have := strictSorted_pairwise l h
  refine this.imp ?_
  intro a b hab heq
  subst heq
  simp [ltStr_irrefl] at hab

/-- the kernel-checkable criterion: if the sorted keys are strictly increasing, the keys are pairwise distinct -/
theorem nodup_of_msort (l : List Str) (h : strictSorted (msort l) = true) : l.Nodup :=
  (msort_perm l).nodup_iff.mp (nodup_of_strictSorted _ h)

end KSort
