import PeptVerif.Model.ModDbTypes
/-!
A fuel-based, structurally recursive bottom-up merge sort on code-point strings that reduces in the kernel
(core `List.mergeSort` is defined by well-founded recursion and does not), with the two facts needed to turn
"the sorted key list is strictly increasing" (checked by `decide +kernel`) into `List.Nodup keys`:
the sort is a permutation, and a strictly increasing list has no duplicates.  Mathlib-free.
-/
namespace KSort
open ModDb

/-- strict lexicographic order on code-point lists (written with `Nat.beq` / `Nat.ble` and `match` on `Bool`, which the
kernel evaluates much faster than `if a < b`) -/
def ltStr : Str → Str → Bool
  | [], [] => false
  | [], _ :: _ => true
  | _ :: _, [] => false
  | a :: as, b :: bs =>
    match Nat.beq a b with
    | true => ltStr as bs
    | false => Nat.ble a b

theorem ltStr_cons (a b : Nat) (as bs : Str) :
    ltStr (a :: as) (b :: bs) = if a = b then ltStr as bs else decide (a < b) := by
  simp only [ltStr]
  by_cases h : a = b
  · subst h; simp
  · have : Nat.beq a b = false := by
      cases hb : Nat.beq a b
      · rfl
      · exact absurd (Nat.eq_of_beq_eq_true hb) h
    simp only [this, h, if_false]
    by_cases h2 : a < b
    · have : Nat.ble a b = true := Nat.ble_eq.mpr (Nat.le_of_lt h2)
      simp [h2, this]
    · have h3 : ¬ a ≤ b := by omega
      have : Nat.ble a b = false := by
        cases hb : Nat.ble a b
        · rfl
        · exact absurd (Nat.ble_eq.mp hb) h3
      simp [h2, this]

theorem ltStr_irrefl : ∀ a : Str, ltStr a a = false
  | [] => rfl
  | a :: as => by simp [ltStr_cons, ltStr_irrefl as]

theorem ltStr_trans : ∀ {a b c : Str}, ltStr a b = true → ltStr b c = true → ltStr a c = true
  | [], [], _, h, _ => by simp [ltStr] at h
  | [], _ :: _, [], _, h => by simp [ltStr] at h
  | [], _ :: _, _ :: _, _, _ => by simp [ltStr]
  | _ :: _, [], _, h, _ => by simp [ltStr] at h
  | _ :: _, _ :: _, [], _, h => by simp [ltStr] at h
  | a :: as, b :: bs, c :: cs, h1, h2 => by
    rw [ltStr_cons] at h1 h2 ⊢
    by_cases hab : a = b
    · subst hab
      by_cases hbc : a = c
      · subst hbc
        simp only [if_true] at h1 h2 ⊢
        exact ltStr_trans h1 h2
      · simp only [hbc, if_false] at h2 ⊢
        exact h2
    · simp only [hab, if_false, decide_eq_true_eq] at h1
      by_cases hbc : b = c
      · subst hbc
        simp [hab, h1]
      · simp only [hbc, if_false, decide_eq_true_eq] at h2
        have : a ≠ c := by omega
        simp only [this, if_false, decide_eq_true_eq]
        omega

def mergeF : Nat → List Str → List Str → List Str
  | 0, xs, ys => xs ++ ys
  | _ + 1, [], ys => ys
  | _ + 1, xs, [] => xs
  | f + 1, x :: xs, y :: ys =>
    if ltStr y x then y :: mergeF f (x :: xs) ys else x :: mergeF f xs (y :: ys)

theorem mergeF_perm : ∀ (f : Nat) (xs ys : List Str), (mergeF f xs ys).Perm (xs ++ ys)
  | 0, xs, ys => by simp [mergeF]
  | _ + 1, [], ys => by simp [mergeF]
  | _ + 1, x :: xs, [] => by simp [mergeF]
  | f + 1, x :: xs, y :: ys => by
    simp only [mergeF]
    split
    · have h := mergeF_perm f (x :: xs) ys
      have : (y :: mergeF f (x :: xs) ys).Perm (y :: ((x :: xs) ++ ys)) := h.cons y
      exact this.trans (List.perm_middle.symm)
    · have h := mergeF_perm f xs (y :: ys)
      exact h.cons x

def mergePairs (n : Nat) : List (List Str) → List (List Str)
  | a :: b :: r => mergeF n a b :: mergePairs n r
  | l => l

theorem mergePairs_perm (n : Nat) : ∀ ls : List (List Str), (mergePairs n ls).flatten.Perm ls.flatten
  | [] => by simp [mergePairs]
  | [a] => by simp [mergePairs]
  | a :: b :: r => by
    simp only [mergePairs, List.flatten_cons]
    have h1 := mergeF_perm n a b
    have h2 := mergePairs_perm n r
    have := h1.append h2
    simpa [List.append_assoc] using this

def msortAux (n : Nat) : Nat → List (List Str) → List Str
  | 0, ls => ls.flatten
  | _ + 1, [] => []
  | _ + 1, [a] => a
  | f + 1, a :: b :: r => msortAux n f (mergePairs n (a :: b :: r))

theorem msortAux_perm (n : Nat) : ∀ (f : Nat) (ls : List (List Str)), (msortAux n f ls).Perm ls.flatten
  | 0, ls => by simp [msortAux]
  | _ + 1, [] => by simp [msortAux]
  | _ + 1, [a] => by simp [msortAux]
  | f + 1, a :: b :: r => by
    simp only [msortAux]
    exact (msortAux_perm n f _).trans (mergePairs_perm n _)

/-- bottom-up merge sort; merge fuel = total length, 64 rounds (enough for 2^64 keys; with less fuel the result is
still a permutation, only possibly unsorted — sortedness is checked on the result, never assumed) -/
def msort (l : List Str) : List Str := msortAux l.length 64 (l.map fun x => [x])

theorem flatten_singletons : ∀ l : List Str, (l.map fun x => [x]).flatten = l
  | [] => rfl
  | x :: r => by simp [flatten_singletons r]

theorem msort_perm (l : List Str) : (msort l).Perm l := by
  have := msortAux_perm l.length 64 (l.map fun x => [x])
  rwa [flatten_singletons] at this

/-- adjacent elements strictly increasing -/
def strictSorted : List Str → Bool
  | a :: b :: r => ltStr a b && strictSorted (b :: r)
  | _ => true

theorem strictSorted_pairwise : ∀ l : List Str, strictSorted l = true → l.Pairwise (fun a b => ltStr a b = true)
  | [] => fun _ => List.Pairwise.nil
  | [a] => fun _ => by simp
  | a :: b :: r => fun h => by
    simp only [strictSorted, Bool.and_eq_true] at h
    have ih := strictSorted_pairwise (b :: r) h.2
    refine List.Pairwise.cons ?_ ih
    intro c hc
    rcases List.mem_cons.mp hc with rfl | hc
    · exact h.1
    · exact ltStr_trans h.1 ((List.pairwise_cons.mp ih).1 c hc)

theorem nodup_of_strictSorted (l : List Str) (h : strictSorted l = true) : l.Nodup := by
  have := strictSorted_pairwise l h
  refine this.imp ?_
  intro a b hab heq
  subst heq
  simp [ltStr_irrefl] at hab

/-- the kernel-checkable criterion: if the sorted keys are strictly increasing, the keys are pairwise distinct -/
theorem nodup_of_msort (l : List Str) (h : strictSorted (msort l) = true) : l.Nodup :=
  (msort_perm l).nodup_iff.mp (nodup_of_strictSorted _ h)

end KSort
