import PeptVerif.Model.AnnotEq
import Mathlib.Tactic.Ring
import Mathlib.Tactic.Linarith
/-! Helper lemmas for C20: the canonical decimal `normDec` decides numeric equality of `mantissa·10^exp` readings. -/
namespace Pept

theorem stripZeros_spec (f : Nat) (m e : Int) (hm : m ≠ 0) :
    ∃ j : Nat, (stripZeros f m e).2 = e + j ∧ m = (stripZeros f m e).1 * 10 ^ j ∧ (stripZeros f m e).1 ≠ 0 := by
  induction f generalizing m e with
  | zero => exact ⟨0, by simp [stripZeros], by simp [stripZeros], by simpa [stripZeros]⟩
  | succ f ih =>
    simp only [stripZeros, if_neg hm]
    split
    · rename_i h10
      have hq : m / 10 ≠ 0 := by omega
      obtain ⟨j, h1, h2, h3⟩ := ih (m / 10) (e + 1) hq
      refine ⟨j + 1, ?_, ?_, h3⟩
      · rw [h1]; push_cast; ring
      · have h4 : m = (m / 10) * 10 := by omega
        calc m = (m / 10) * 10 := h4
          _ = ((stripZeros f (m / 10) (e + 1)).1 * 10 ^ j) * 10 := by rw [← h2]
          _ = (stripZeros f (m / 10) (e + 1)).1 * 10 ^ (j + 1) := by ring
    · exact ⟨0, by simp, by simp, hm⟩

theorem stripZeros_canon (f : Nat) (m e : Int) (hm : m ≠ 0) (hf : m.natAbs < 2 ^ f) :
    (stripZeros f m e).1 % 10 ≠ 0 := by
  induction f generalizing m e with
  | zero => simp at hf; omega
  | succ f ih =>
    simp only [stripZeros, if_neg hm]
    split
    · rename_i h10
      have hq : m / 10 ≠ 0 := by omega
      apply ih (m / 10) (e + 1) hq
      have : 2 ^ (f + 1) = 2 * 2 ^ f := by ring
      omega
    · assumption

theorem canon_unique_le (a b : Int) (i d : Nat) (ha : a % 10 ≠ 0) (h : a * 10 ^ i = b * 10 ^ (i + d)) : a = b ∧ d = 0 := by
  have hp : (10 : Int) ^ i ≠ 0 := pow_ne_zero _ (by norm_num)
  have h2 : a = b * 10 ^ d := by
    have : a * 10 ^ i = (b * 10 ^ d) * 10 ^ i := by rw [h]; ring
    exact mul_right_cancel₀ hp this
  cases d with
  | zero => simpa using h2
  | succ d =>
    exfalso
    apply ha
    rw [h2, pow_succ]
    have : b * (10 ^ d * 10) = (b * 10 ^ d) * 10 := by ring
    rw [this]
    exact Int.mul_emod_left _ _

theorem canon_unique (a b : Int) (i j : Nat) (ha : a % 10 ≠ 0) (hb : b % 10 ≠ 0) (h : a * 10 ^ i = b * 10 ^ j) :
    a = b ∧ i = j := by
  rcases Nat.le_total i j with hij | hij
  · obtain ⟨d, rfl⟩ := Nat.exists_eq_add_of_le hij
    obtain ⟨h1, h2⟩ := canon_unique_le a b i d ha h
    exact ⟨h1, by omega⟩
  · obtain ⟨d, rfl⟩ := Nat.exists_eq_add_of_le hij
    obtain ⟨h1, h2⟩ := canon_unique_le b a j d hb h.symm
    exact ⟨h1.symm, by omega⟩

/-- `m·10^e = m'·10^e'` without fractions: both sides scaled by `10^(-min e e')` -/
def decEquiv (m e m' e' : Int) : Prop :=
  m * 10 ^ (e - min e e').toNat = m' * 10 ^ (e' - min e e').toNat

theorem normDec_spec (m e : Int) (hm : m ≠ 0) :
    ∃ j : Nat, (normDec m e).2 = e + j ∧ m = (normDec m e).1 * 10 ^ j ∧ (normDec m e).1 % 10 ≠ 0 := by
  unfold normDec
  rw [if_neg hm]
  obtain ⟨j, h1, h2, _⟩ := stripZeros_spec (m.natAbs.log2 + 1) m e hm
  exact ⟨j, h1, h2, stripZeros_canon _ m e hm Nat.lt_log2_self⟩

theorem normDec_zero (e : Int) : normDec 0 e = (0, 0) := by simp [normDec]

/-- the canonical decimal decides numeric equality -/
theorem normDec_eq_iff (m e m' e' : Int) : normDec m e = normDec m' e' ↔ decEquiv m e m' e' := by
  unfold decEquiv
  by_cases hm : m = 0
  · subst hm
    rw [normDec_zero]
    by_cases hm' : m' = 0
    · subst hm'; simp [normDec_zero]
    · obtain ⟨j, h1, h2, h3⟩ := normDec_spec m' e' hm'
      constructor
      · intro h
        rw [← h] at h3
        simp at h3
      · intro h
        exfalso
        have hp : (10 : Int) ^ (e' - min e e').toNat ≠ 0 := pow_ne_zero _ (by norm_num)
        have : m' * 10 ^ (e' - min e e').toNat = 0 := by rw [← h]; ring
        rcases mul_eq_zero.1 this with h | h
        · exact hm' h
        · exact hp h
  · obtain ⟨j, h1, h2, h3⟩ := normDec_spec m e hm
    by_cases hm' : m' = 0
    · subst hm'
      rw [normDec_zero]
      constructor
      · intro h
        rw [h] at h3
        simp at h3
      · intro h
        exfalso
        have hp : (10 : Int) ^ (e - min e e').toNat ≠ 0 := pow_ne_zero _ (by norm_num)
        have : m * 10 ^ (e - min e e').toNat = 0 := by rw [h]; ring
        rcases mul_eq_zero.1 this with h | h
        · exact hm h
        · exact hp h
    · obtain ⟨j', h1', h2', h3'⟩ := normDec_spec m' e' hm'
      set p := normDec m e with hp
      set p' := normDec m' e' with hp'
      constructor
      · intro h
        have e1 : p.1 = p'.1 := by rw [h]
        have e2 : p.2 = p'.2 := by rw [h]
        have hj : j + (e - min e e').toNat = j' + (e' - min e e').toNat := by omega
        calc m * 10 ^ (e - min e e').toNat = p.1 * 10 ^ (j + (e - min e e').toNat) := by rw [h2, pow_add]; ring
          _ = p'.1 * 10 ^ (j' + (e' - min e e').toNat) := by rw [e1, hj]
          _ = m' * 10 ^ (e' - min e e').toNat := by rw [h2', pow_add]; ring
      · intro h
        have h' : p.1 * 10 ^ (j + (e - min e e').toNat) = p'.1 * 10 ^ (j' + (e' - min e e').toNat) := by
          calc p.1 * 10 ^ (j + (e - min e e').toNat) = m * 10 ^ (e - min e e').toNat := by rw [h2, pow_add]; ring
            _ = m' * 10 ^ (e' - min e e').toNat := h
            _ = p'.1 * 10 ^ (j' + (e' - min e e').toNat) := by rw [h2', pow_add]; ring
        obtain ⟨u1, u2⟩ := canon_unique _ _ _ _ h3 h3' h'
        apply Prod.ext u1
        omega

/-! ### value equality -/


theorem valKey_num_eq_iff (m e m' e' : Int) :
    (ValKey.num (normDec m e).1 (normDec m e).2 = ValKey.num (normDec m' e').1 (normDec m' e').2) ↔ decEquiv m e m' e' := by
  rw [← normDec_eq_iff]
  constructor
  · intro h
    injection h with h1 h2
    exact Prod.ext h1 h2
  · intro h; rw [h]

theorem valEq_int_int (i j : Int) : valEq (.int i) (.int j) = true ↔ i = j := by
  simp only [valEq, valKey, beq_iff_eq]
  rw [valKey_num_eq_iff]
  simp [decEquiv]

theorem valEq_int_flt (i : Int) (r : List Char) (m e : Int) (h : readDec r = some (m, e)) :
    valEq (.int i) (.flt r) = true ↔ decEquiv i 0 m e := by
  simp only [valEq, valKey, h, beq_iff_eq]
  exact valKey_num_eq_iff i 0 m e

theorem valEq_flt_flt (r r' : List Char) (m e m' e' : Int) (h : readDec r = some (m, e)) (h' : readDec r' = some (m', e')) :
    valEq (.flt r) (.flt r') = true ↔ decEquiv m e m' e' := by
  simp only [valEq, valKey, h, h', beq_iff_eq]
  exact valKey_num_eq_iff m e m' e'

theorem valEq_str (s : List Char) (v : ModVal) : valEq (.str s) v = true ↔ v = .str s := by
  cases v with
  | int i => simp [valEq, valKey]
  | flt r =>
    simp only [valEq, valKey]
    cases readDec r with
    | none => simp
    | some p => simp
  | str t =>
    simp only [valEq, valKey, beq_iff_eq]
    constructor
    · intro h; injection h with h; rw [h]
    · intro h; injection h with h; rw [h]

end Pept
