import PeptVerif.Lemmas.SpansDigest
import PeptVerif.Model.SeqDigest
import PeptVerif.Spec.SeqDigest
/-! C06 helper lemmas: the sequential digest at the level of spans (core Lean only). -/
namespace Spans

theorem mem_buildSpans_enz' (n : Int) (sites : List Int) (mc : Nat) (lo hi : Option Int)
    (hlen : ((sortDedup sites).length : Int) ≠ n + 1) (s e v : Int) :
    (s, e, v) ∈ buildSpans n sites mc lo hi false ↔
      IsEnz n sites mc (s, e, v) ∧ lo.getD 1 ≤ e - s ∧ e - s ≤ hi.getD n := by
  unfold buildSpans
  simp only [hlen, if_false, Bool.false_eq_true]
  unfold buildEnzymatic IsEnz
  rw [mem_enzGo _ _ _ _ (ssorted_sortDedup _)]
  have : sortDedup (0 :: n :: sortDedup sites) = plus n sites := plus_sortDedup n sites
  rw [this]
  simp only [Option.getD_some]
  constructor
  · rintro ⟨a, b, c, d, e, f, g⟩; exact ⟨⟨a, b, c, d, e⟩, f, g⟩
  · rintro ⟨⟨a, b, c, d, e⟩, f, g⟩; exact ⟨a, b, c, d, e, f, g⟩

/-- `x` is a pair of consecutive cleavage points of `S ∪ {0,n}`, reported with value 0 -/
def Cons (n : Int) (S : List Int) (x : Span) : Prop :=
  x.1 ∈ plus n S ∧ x.2.1 ∈ plus n S ∧ x.1 < x.2.1 ∧ (∀ y ∈ plus n S, ¬ (x.1 < y ∧ y < x.2.1)) ∧ x.2.2 = 0

theorem inside_eq_zero_iff (l : List Int) (s e : Int) : inside l s e = 0 ↔ ∀ y ∈ l, ¬ (s < y ∧ y < e) := by
  unfold inside
  rw [List.length_eq_zero_iff, List.filter_eq_nil_iff]
  constructor
  · intro h y hy; have := h y hy; simpa using this
  · intro h y hy; have := h y hy; simpa using this

theorem isEnz_zero_iff (n : Int) (S : List Int) (x : Span) : IsEnz n S 0 x ↔ Cons n S x := by
  unfold IsEnz Cons
  constructor
  · rintro ⟨h1, h2, h3, h4, h5⟩
    have h0 : inside (plus n S) x.1 x.2.1 = 0 := by omega
    exact ⟨h1, h2, h3, (inside_eq_zero_iff _ _ _).mp h0, by rw [h4, h0]; rfl⟩
  · rintro ⟨h1, h2, h3, h4, h5⟩
    have h0 := (inside_eq_zero_iff _ _ _).mpr h4
    exact ⟨h1, h2, h3, by rw [h5, h0]; rfl, by omega⟩

theorem mem_digest_enz0 (m : Int) (S : List Int) (lo : Option Int)
    (hlen : ((sortDedup S).length : Int) ≠ m + 1) (x : Span) :
    x ∈ digestSpans m S 0 lo none false true ↔
      Cons m S x ∧ lo.getD 1 ≤ spanLen x ∧ spanLen x ≤ m := by
  unfold digestSpans
  rw [mem_sortDedupSpans]
  simp only [if_true, List.nil_append]
  obtain ⟨s, e, v⟩ := x
  rw [mem_buildSpans_enz' m S 0 lo none hlen, isEnz_zero_iff]
  simp [spanLen]

theorem plus_bounds (n : Int) (U : List Int) (hn : 0 ≤ n) (hU : ∀ y ∈ U, 0 ≤ y ∧ y ≤ n) :
    ∀ y ∈ plus n U, 0 ≤ y ∧ y ≤ n := by
  intro y hy
  rcases (mem_plus n U y).mp hy with rfl | rfl | hy
  · omega
  · omega
  · exact hU y hy

theorem seqStep_inv (n : Int) (st : Stage) (hst : LocalStage n st) (lo : Option Int) (U : List Int)
    (acc : List Span) (hn : 0 ≤ n) (hU : ∀ y ∈ U, 0 ≤ y ∧ y ≤ n)
    (hacc : ∀ x, x ∈ acc ↔ Cons n U x ∧ lo.getD 1 ≤ spanLen x) (x : Span) :
    x ∈ seqStep st lo acc ↔ Cons n (U ++ st.sites 0 n) x ∧ lo.getD 1 ≤ spanLen x := by
  obtain ⟨hmc, hsemi, hcomp⟩ := hst.plain
  have hS : ∀ y ∈ st.sites 0 n, 0 ≤ y ∧ y ≤ n := by
    intro y hy; have := hst.bounds 0 n (by omega) hn (by omega) y hy; omega
  have hUS : ∀ y ∈ U ++ st.sites 0 n, 0 ≤ y ∧ y ≤ n := by
    intro y hy; rcases List.mem_append.mp hy with h | h
    · exact hU y h
    · exact hS y h
  have hLU := plus_bounds n U hn hU
  have hLUS := plus_bounds n _ hn hUS
  have hsub : ∀ y ∈ plus n U, y ∈ plus n (U ++ st.sites 0 n) := by
    intro y hy; rw [mem_plus] at hy ⊢; simp only [List.mem_append]
    rcases hy with h | h | h <;> simp [h]
  -- the cleavage points of a fragment are the global ones inside it
  have hM1 : ∀ a b fv, Cons n U (a, b, fv) → ∀ y ∈ plus (b - a) (st.sites a b),
      0 ≤ y ∧ y ≤ b - a ∧ a + y ∈ plus n (U ++ st.sites 0 n) := by
    intro a b fv hf y hy
    obtain ⟨ha, hb, hab, _, _⟩ := hf
    simp only at ha hb hab
    have ha' := hLU a ha; have hb' := hLU b hb
    have hbnd : 0 ≤ y ∧ y ≤ b - a := by
      rcases (mem_plus _ _ y).mp hy with rfl | rfl | hy
      · omega
      · omega
      · exact hst.bounds a b (by omega) (by omega) (by omega) y hy
    refine ⟨hbnd.1, hbnd.2, ?_⟩
    by_cases h0 : y = 0
    · subst h0; simpa using hsub a ha
    by_cases h1 : y = b - a
    · subst h1; have : a + (b - a) = b := by omega
      rw [this]; exact hsub b hb
    rcases (mem_plus _ _ y).mp hy with h | h | h
    · exact absurd h h0
    · exact absurd h h1
    · have := (hst.loc a b (by omega) hab (by omega) y (by omega) (by omega)).mp h
      rw [mem_plus]; simp only [List.mem_append]; simp [this]
  have hM2 : ∀ a b fv, Cons n U (a, b, fv) → ∀ z ∈ plus n (U ++ st.sites 0 n), a ≤ z → z ≤ b →
      z - a ∈ plus (b - a) (st.sites a b) := by
    intro a b fv hf z hz haz hzb
    obtain ⟨ha, hb, hab, hnone, _⟩ := hf
    simp only at ha hb hab hnone
    have ha' := hLU a ha; have hb' := hLU b hb
    by_cases h0 : z = a
    · subst h0; rw [mem_plus]; left; omega
    by_cases h1 : z = b
    · subst h1; rw [mem_plus]; right; left; rfl
    have hzU : z ∉ plus n U := fun h => hnone z h ⟨by omega, by omega⟩
    have hzS : z ∈ st.sites 0 n := by
      rw [mem_plus] at hz hzU; simp only [List.mem_append] at hz
      rcases hz with h | h | h | h
      · exact absurd (Or.inl h) hzU
      · exact absurd (Or.inr (Or.inl h)) hzU
      · exact absurd (Or.inr (Or.inr h)) hzU
      · exact h
    have := (hst.loc a b (by omega) hab (by omega) (z - a) (by omega) (by omega)).mpr
      (by have : a + (z - a) = z := by omega
          rw [this]; exact hzS)
    rw [mem_plus]; right; right; exact this
  obtain ⟨s, e, v⟩ := x
  unfold seqStep
  simp only [List.mem_flatMap, List.mem_map, hmc, hsemi, hcomp]
  constructor
  · rintro ⟨⟨a, b, fv⟩, hf, ⟨d1, d2, dv⟩, hd, hx⟩
    simp only [Prod.mk.injEq] at hx
    obtain ⟨rfl, rfl, rfl⟩ := hx
    obtain ⟨hf, hflo⟩ := (hacc _).mp hf
    have hf' := hf
    obtain ⟨ha, hb, hab, hnone, hfv⟩ := hf
    simp only at ha hb hab hnone hfv
    have ha' := hLU a ha; have hb' := hLU b hb
    rw [mem_digest_enz0 _ _ _ (hst.noShortcut a b (by omega) hab (by omega))] at hd
    obtain ⟨⟨hd1, hd2, hd12, hdnone, hdv⟩, hdlo, hdhi⟩ := hd
    simp only [spanLen] at hd1 hd2 hd12 hdnone hdv hdlo hdhi hflo ⊢
    have h1 := hM1 a b fv hf' d1 hd1
    have h2 := hM1 a b fv hf' d2 hd2
    refine ⟨⟨h1.2.2, h2.2.2, by simp only; omega, ?_, hfv⟩, by omega⟩
    intro y hy hbetween
    simp only at hbetween
    have := hM2 a b fv hf' y hy (by omega) (by omega)
    exact hdnone (y - a) this ⟨by omega, by omega⟩
  · rintro ⟨⟨hs, he, hse, hnone, hv⟩, hlo⟩
    simp only [spanLen] at hs he hse hnone hv hlo
    have hs' := hLUS s hs; have he' := hLUS e he
    obtain ⟨a, ha, has, hamax⟩ := exists_greatest_le (plus n U) s ⟨0, by rw [mem_plus]; simp, hs'.1⟩
    obtain ⟨b, hb, heb, hbmin⟩ := exists_least_ge (plus n U) e ⟨n, by rw [mem_plus]; simp, he'.2⟩
    have hf : Cons n U (a, b, 0) := by
      refine ⟨ha, hb, by simp only; omega, ?_, rfl⟩
      intro z hz hbetween
      simp only at hbetween
      by_cases hzs : z ≤ s
      · have := hamax z hz hzs; omega
      · by_cases hze : e ≤ z
        · have := hbmin z hz hze; omega
        · exact hnone z (hsub z hz) ⟨by omega, by omega⟩
    have ha' := hLU a ha; have hb' := hLU b hb
    refine ⟨(a, b, 0), (hacc _).mpr ⟨hf, by simp only [spanLen]; omega⟩, (s - a, e - a, 0), ?_, ?_⟩
    · rw [mem_digest_enz0 _ _ _ (hst.noShortcut a b (by omega) (by omega) (by omega))]
      simp only [spanLen]
      refine ⟨⟨hM2 a b 0 hf s hs has (by omega), hM2 a b 0 hf e he (by omega) heb, by simp only; omega, ?_, rfl⟩,
        by omega, by omega⟩
      intro y hy hbetween
      simp only at hbetween
      have := hM1 a b 0 hf y hy
      exact hnone (a + y) this.2.2 ⟨by omega, by omega⟩
    · simp only [Prod.mk.injEq]; omega


theorem seqFold_inv (n : Int) (lo : Option Int) (hn : 0 ≤ n) (rest : List Stage)
    (hrest : ∀ st ∈ rest, LocalStage n st) (U : List Int) (hU : ∀ y ∈ U, 0 ≤ y ∧ y ≤ n) (acc : List Span)
    (hacc : ∀ x, x ∈ acc ↔ Cons n U x ∧ lo.getD 1 ≤ spanLen x) (x : Span) :
    x ∈ rest.foldl (fun acc st => if acc.isEmpty then acc else seqStep st lo acc) acc ↔
      Cons n (U ++ rest.flatMap (fun st => st.sites 0 n)) x ∧ lo.getD 1 ≤ spanLen x := by
  induction rest generalizing U acc with
  | nil => simpa using hacc x
  | cons st rest ih =>
    have hst := hrest st (by simp)
    simp only [List.foldl_cons, List.flatMap_cons]
    have hacc' : ∀ x, x ∈ (if acc.isEmpty then acc else seqStep st lo acc) ↔
        Cons n (U ++ st.sites 0 n) x ∧ lo.getD 1 ≤ spanLen x := by
      intro x
      rw [← seqStep_inv n st hst lo U acc hn hU hacc x]
      split
      · rename_i h
        have : acc = [] := by simpa using h
        subst this; simp [seqStep]
      · rfl
    have hU' : ∀ y ∈ U ++ st.sites 0 n, 0 ≤ y ∧ y ≤ n := by
      intro y hy; rcases List.mem_append.mp hy with h | h
      · exact hU y h
      · have := hst.bounds 0 n (by omega) hn (by omega) y h; omega
    have := ih (fun s hs => hrest s (by simp [hs])) (U ++ st.sites 0 n) hU' _ hacc'
    rw [List.append_assoc] at this
    exact this

/-- an empty sequence has no spans -/
theorem not_mem_digestSpans_zero (S : List Int) (hS : ∀ y ∈ S, 0 ≤ y ∧ y ≤ 0) (mc : Nat) (lo hi : Option Int)
    (x : Span) : x ∉ digestSpans 0 S mc lo hi false true := by
  obtain ⟨s, e, v⟩ := x
  unfold digestSpans
  rw [mem_sortDedupSpans]
  simp only [if_true, List.nil_append]
  by_cases hlen : ((sortDedup S).length : Int) = 0 + 1
  · unfold buildSpans
    simp only [hlen, if_true]
    rw [mem_buildNonEnzymatic']
    simp only; omega
  · rw [mem_buildSpans_enz' 0 S mc lo hi hlen]
    rintro ⟨⟨h1, h2, h3, _⟩, _⟩
    have hb := plus_bounds 0 S (by omega) hS
    simp only at h1 h2 h3
    have := hb _ h1; have := hb _ h2
    omega

theorem seqFold_nil (lo : Option Int) (rest : List Stage) :
    rest.foldl (fun acc st => if acc.isEmpty then acc else seqStep st lo acc) [] = [] := by
  induction rest with
  | nil => rfl
  | cons st rest ih => simpa using ih

theorem nodup_seqStep (n : Int) (st : Stage) (hst : LocalStage n st) (lo : Option Int) (U : List Int)
    (acc : List Span) (hn : 0 ≤ n) (hU : ∀ y ∈ U, 0 ≤ y ∧ y ≤ n)
    (hacc : ∀ x, x ∈ acc ↔ Cons n U x ∧ lo.getD 1 ≤ spanLen x) (hnd : acc.Nodup) :
    (seqStep st lo acc).Nodup := by
  obtain ⟨hmc, hsemi, hcomp⟩ := hst.plain
  have hLU := plus_bounds n U hn hU
  have hout : ∀ f ∈ acc, ∀ d ∈ digestSpans (f.2.1 - f.1) (st.sites f.1 f.2.1) st.mc lo none st.semi st.complete,
      0 ≤ d.1 ∧ d.1 < d.2.1 ∧ d.2.1 ≤ f.2.1 - f.1 ∧ d.2.2 = 0 := by
    intro f hf d hd
    obtain ⟨hfc, _⟩ := (hacc f).mp hf
    obtain ⟨ha, hb, hab, _, _⟩ := hfc
    have ha' := hLU _ ha; have hb' := hLU _ hb
    rw [hmc, hsemi, hcomp, mem_digest_enz0 _ _ _ (hst.noShortcut f.1 f.2.1 (by omega) hab (by omega))] at hd
    obtain ⟨⟨hd1, hd2, hd12, _, hdv⟩, _, hdhi⟩ := hd
    have hbb := plus_bounds (f.2.1 - f.1) _ (by omega) (hst.bounds f.1 f.2.1 (by omega) (by omega) (by omega))
    have hb1 := hbb _ hd1
    have hb2 := hbb _ hd2
    exact ⟨hb1.1, hd12, hb2.2, hdv⟩
  unfold seqStep
  simp only [List.Nodup]
  rw [List.pairwise_flatMap]
  constructor
  · intro f hf
    rw [List.pairwise_map]
    have hnd' : (digestSpans (f.2.1 - f.1) (st.sites f.1 f.2.1) st.mc lo none st.semi st.complete).Pairwise
        (fun a b => a ≠ b) := nodup_of_pairwise_spanLT (pairwise_sortDedupSpans _)
    refine hnd'.imp_of_mem ?_
    intro d d' hd hd' hne heq
    have h1 := hout f hf d hd; have h2 := hout f hf d' hd'
    apply hne
    obtain ⟨d1, d2, dv⟩ := d; obtain ⟨e1, e2, ev⟩ := d'
    simp only [Prod.mk.injEq] at heq ⊢; simp only at h1 h2; omega
  · have hp : acc.Pairwise (fun a b => a ≠ b) := hnd
    refine hp.imp_of_mem ?_
    intro f g hf hg hfg x hx y hy hxy
    subst hxy
    simp only [List.mem_map] at hx hy
    obtain ⟨d, hd, rfl⟩ := hx
    obtain ⟨d', hd', heq⟩ := hy
    have h1 := hout f hf d hd; have h2 := hout g hg d' hd'
    obtain ⟨⟨fa, fb, fab, fnone, fv⟩, _⟩ := (hacc f).mp hf
    obtain ⟨⟨ga, gb, gab, gnone, gv⟩, _⟩ := (hacc g).mp hg
    have e1 := fnone _ ga; have e2 := fnone _ gb; have e3 := gnone _ fa; have e4 := gnone _ fb
    apply hfg
    obtain ⟨f1, f2, f3⟩ := f; obtain ⟨g1, g2, g3⟩ := g
    obtain ⟨d1, d2, dv⟩ := d; obtain ⟨c1, c2, cv⟩ := d'
    simp only [Prod.mk.injEq] at heq ⊢
    simp only at h1 h2 fab gab fv gv e1 e2 e3 e4
    omega

theorem nodup_seqFold (n : Int) (lo : Option Int) (hn : 0 ≤ n) (rest : List Stage)
    (hrest : ∀ st ∈ rest, LocalStage n st) (U : List Int) (hU : ∀ y ∈ U, 0 ≤ y ∧ y ≤ n) (acc : List Span)
    (hacc : ∀ x, x ∈ acc ↔ Cons n U x ∧ lo.getD 1 ≤ spanLen x) (hnd : acc.Nodup) :
    (rest.foldl (fun acc st => if acc.isEmpty then acc else seqStep st lo acc) acc).Nodup := by
  induction rest generalizing U acc with
  | nil => simpa using hnd
  | cons st rest ih =>
    have hst := hrest st (by simp)
    simp only [List.foldl_cons]
    have hacc' : ∀ x, x ∈ (if acc.isEmpty then acc else seqStep st lo acc) ↔
        Cons n (U ++ st.sites 0 n) x ∧ lo.getD 1 ≤ spanLen x := by
      intro x
      rw [← seqStep_inv n st hst lo U acc hn hU hacc x]
      split
      · rename_i h
        have : acc = [] := by simpa using h
        subst this; simp [seqStep]
      · rfl
    have hnd' : (if acc.isEmpty then acc else seqStep st lo acc).Nodup := by
      split
      · exact hnd
      · exact nodup_seqStep n st hst lo U acc hn hU hacc hnd
    have hU' : ∀ y ∈ U ++ st.sites 0 n, 0 ≤ y ∧ y ≤ n := by
      intro y hy; rcases List.mem_append.mp hy with h | h
      · exact hU y h
      · have := hst.bounds 0 n (by omega) hn (by omega) y h; omega
    exact ih (fun s hs => hrest s (by simp [hs])) (U ++ st.sites 0 n) hU' _ hacc' hnd'

end Spans
