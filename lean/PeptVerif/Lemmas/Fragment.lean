import PeptVerif.Model.Fragment
/-! Helper lemmas for C04 (core Lean only). -/
namespace Fragment
open Spans Pept

/-! ### span lists -/

theorem filter_range_lt (m : Nat) : (List.range (m+1)).filter (fun k => decide (k < m)) = List.range m := by
  rw [List.range_succ, List.filter_append]
  have h1 : (List.range m).filter (fun k => decide (k < m)) = List.range m := by
    apply List.filter_eq_self.2
    intro a ha; simpa using List.mem_range.1 ha
  simp [h1]

theorem forwardSpans_eq (n : Nat) (h : 1 ≤ n) :
    forwardSpans (n : Int) = (List.range n).map fun (k : Nat) => ((0 : Int), (n : Int) - (k : Int), (0 : Int)) := by
  obtain ⟨m, rfl⟩ : ∃ m, n = m + 1 := ⟨n - 1, by omega⟩
  simp only [forwardSpans, buildLeftSemi, rangeDown, Option.getD_none]
  have e1 : min ((0:Int) + (((m+1 : Nat) : Int) - 0)) (((m+1 : Nat) : Int) - 1) = (m : Int) := by omega
  have e2 : ((m : Int) - ((0:Int) - 1)).toNat = m + 1 := by omega
  rw [e1, e2, List.filter_map, List.map_map]
  have e3 : ((fun (i : Int) => decide (i - 0 ≥ 1)) ∘ fun (k : Nat) => (m : Int) - (k : Int)) = fun k => decide (k < m) := by
    funext k; simp only [Function.comp]; congr 1; apply propext; omega
  rw [e3, filter_range_lt, List.range_succ_eq_map, List.map_cons, List.map_map]
  simp
  intro a _; omega

theorem backwardSpans_eq (n : Nat) (h : 1 ≤ n) :
    backwardSpans (n : Int) = (List.range n).map fun (k : Nat) => ((k : Int), (n : Int), (0 : Int)) := by
  obtain ⟨m, rfl⟩ : ∃ m, n = m + 1 := ⟨n - 1, by omega⟩
  simp only [backwardSpans, buildRightSemi, range, Option.getD_none, Option.getD_some]
  have e1 : max ((0:Int) + 1) (((m+1 : Nat) : Int) - (((m+1 : Nat) : Int) - 0)) = 1 := by omega
  have e2 : ((((m+1 : Nat) : Int) + 1) - 1).toNat = m + 1 := by omega
  rw [e1, e2, List.filter_map, List.map_map]
  have e3 : ((fun (i : Int) => decide (((m+1 : Nat) : Int) - i ≥ 1)) ∘ fun (k : Nat) => (1 : Int) + (k : Int))
      = fun k => decide (k < m) := by
    funext k; simp only [Function.comp]; congr 1; apply propext; omega
  rw [e3, filter_range_lt, List.range_succ_eq_map, List.map_cons, List.map_map]
  simp
  intro a _; omega

theorem immoniumSpans_eq (n : Nat) :
    immoniumSpans (n : Int) = (List.range n).map fun (k : Nat) => ((k : Int), (k : Int) + 1, (0 : Int)) := by
  simp [immoniumSpans, range]

theorem mem_internalSpans (n : Int) (s e v : Int) :
    (s, e, v) ∈ internalSpans n ↔ 0 < s ∧ s < e ∧ e < n ∧ v = 0 := by
  simp only [internalSpans, buildNonEnzymatic, range, List.mem_filter, List.mem_flatMap, List.mem_map, List.mem_range,
    Option.getD_none]
  constructor
  · rintro ⟨⟨i, ⟨a, ha, rfl⟩, b, hb, hEq⟩, hf⟩
    simp only [Prod.mk.injEq] at hEq
    obtain ⟨rfl, rfl, rfl⟩ := hEq
    simp at hf
    omega
  · rintro ⟨h1, h2, h3, rfl⟩
    refine ⟨⟨s, ⟨s.toNat, by omega, by omega⟩, e, ⟨(e - s - 1).toNat, by omega, by omega⟩, rfl⟩, ?_⟩
    simp; omega

/-! ### duplicate-freeness of nested loops -/

theorem nodup_map_of_inj {α β} {f : α → β} {l : List α} (hl : l.Nodup)
    (hf : ∀ a ∈ l, ∀ b ∈ l, f a = f b → a = b) : (l.map f).Nodup := by
  induction l with
  | nil => simp
  | cons a l ih =>
    rw [List.map_cons, List.nodup_cons]
    rw [List.nodup_cons] at hl
    refine ⟨?_, ih hl.2 (fun x hx y hy => hf x (List.mem_cons_of_mem _ hx) y (List.mem_cons_of_mem _ hy))⟩
    intro hmem
    obtain ⟨b, hb, hEq⟩ := List.mem_map.1 hmem
    have := hf b (List.mem_cons_of_mem _ hb) a (List.mem_cons_self) hEq
    exact hl.1 (this ▸ hb)

/-- a `flatMap` is duplicate free when every block is and the blocks are told apart by a projection -/
theorem nodup_flatMap_of_proj {α β γ} {l : List α} {f : α → List β} (g : β → γ) (p : α → γ)
    (hp : (l.map p).Nodup) (hproj : ∀ a ∈ l, ∀ x ∈ f a, g x = p a) (h1 : ∀ a ∈ l, (f a).Nodup) :
    (l.flatMap f).Nodup := by
  induction l with
  | nil => simp
  | cons a l ih =>
    rw [List.flatMap_cons, List.nodup_append]
    rw [List.map_cons, List.nodup_cons] at hp
    refine ⟨h1 a List.mem_cons_self,
      ih hp.2 (fun b hb => hproj b (List.mem_cons_of_mem _ hb)) (fun b hb => h1 b (List.mem_cons_of_mem _ hb)), ?_⟩
    intro x hx y hy hxy
    subst hxy
    obtain ⟨b, hb, hxb⟩ := List.mem_flatMap.1 hy
    have e1 := hproj a List.mem_cons_self x hx
    have e2 := hproj b (List.mem_cons_of_mem _ hb) x hxb
    exact hp.1 (List.mem_map.2 ⟨b, hb, by rw [← e2, e1]⟩)

theorem nodup_append_of_proj {β γ} {l₁ l₂ : List β} (g : β → γ) (P : γ → Prop)
    (h1 : l₁.Nodup) (h2 : l₂.Nodup) (hP : ∀ x ∈ l₁, P (g x)) (hQ : ∀ x ∈ l₂, ¬ P (g x)) : (l₁ ++ l₂).Nodup := by
  rw [List.nodup_append]
  refine ⟨h1, h2, ?_⟩
  intro x hx y hy hxy
  subst hxy
  exact hQ x hy (hP x hx)

/-! ### `get_losses` is a set: the sums of 1 … max(1, max_losses) applicable losses, and 0 -/

theorem mem_toSet (acc l : List Rat) (y : Rat) : y ∈ toSet acc l ↔ y ∈ acc ∨ y ∈ l := by
  induction l generalizing acc with
  | nil => simp [toSet]
  | cons x xs ih =>
    simp only [toSet, List.foldl_cons] at ih ⊢
    rw [ih]
    by_cases hx : x ∈ acc
    · simp only [addNew, hx, if_true, List.mem_cons]
      constructor
      · rintro (h | h)
        · exact Or.inl h
        · exact Or.inr (Or.inr h)
      · rintro (h | rfl | h)
        · exact Or.inl h
        · exact Or.inl hx
        · exact Or.inr h
    · simp only [addNew, hx, if_false, List.mem_append, List.mem_cons, List.not_mem_nil, or_false]
      constructor
      · rintro ((h | h) | h)
        · exact Or.inl h
        · exact Or.inr (Or.inl h)
        · exact Or.inr (Or.inr h)
      · rintro (h | h | h)
        · exact Or.inl (Or.inl h)
        · exact Or.inl (Or.inr h)
        · exact Or.inr h

theorem nodup_toSet (acc l : List Rat) (h : acc.Nodup) : (toSet acc l).Nodup := by
  induction l generalizing acc with
  | nil => simpa [toSet]
  | cons x xs ih =>
    simp only [toSet, List.foldl_cons] at ih ⊢
    apply ih
    by_cases hx : x ∈ acc
    · simpa [addNew, hx]
    · simp only [addNew, hx, if_false]
      rw [List.nodup_append]
      refine ⟨h, by simp, ?_⟩
      intro a ha b hb hab
      simp only [List.mem_singleton] at hb
      subst hb; subst hab
      exact hx ha

theorem nodup_getLosses (s : List Char) (losses : List LossRule) (m : Int) : (getLosses s losses m).Nodup := by
  simp only [getLosses]
  have h := nodup_toSet (toSet [] (applicableList s losses)) (comboSums (applicableList s losses) m)
    (nodup_toSet [] _ (by simp))
  split
  · exact h
  · rename_i h0
    rw [List.nodup_append]
    refine ⟨h, by simp, ?_⟩
    intro a ha b hb hab
    simp only [List.mem_singleton] at hb
    subst hb; subst hab
    exact h0 ha

theorem mem_combinations {α} (k : Nat) (xs l : List α) :
    l ∈ combinations k xs ↔ l.Sublist xs ∧ l.length = k := by
  induction xs generalizing k l with
  | nil =>
    cases k with
    | zero => simp [combinations]
    | succ k =>
      simp only [combinations, List.not_mem_nil, List.sublist_nil, false_iff, not_and]
      rintro rfl; simp
  | cons x xs ih =>
    cases k with
    | zero =>
      simp only [combinations, List.mem_singleton]
      constructor
      · rintro rfl; simp
      · rintro ⟨_, h⟩; exact List.length_eq_zero_iff.1 h
    | succ k =>
      simp only [combinations, List.mem_append, List.mem_map]
      constructor
      · rintro (⟨t, ht, rfl⟩ | h)
        · obtain ⟨h1, h2⟩ := (ih k t).1 ht
          exact ⟨List.Sublist.cons_cons x h1, by simp [h2]⟩
        · obtain ⟨h1, h2⟩ := (ih (k+1) l).1 h
          exact ⟨List.Sublist.cons x h1, h2⟩
      · rintro ⟨h1, h2⟩
        cases h1 with
        | cons _ h => exact Or.inr ((ih (k+1) l).2 ⟨h, h2⟩)
        | cons_cons _ h =>
          rename_i t
          exact Or.inl ⟨t, (ih k t).2 ⟨h, by simpa using h2⟩, rfl⟩

theorem mem_comboSums (app : List Rat) (m : Int) (x : Rat) :
    x ∈ comboSums app m ↔ ∃ sub : List Rat, sub.Sublist app ∧ 2 ≤ sub.length ∧ (sub.length : Int) ≤ m ∧ x = sub.sum := by
  simp only [comboSums]
  split
  · rename_i hm
    simp only [List.mem_flatMap, List.mem_map, Spans.range, List.mem_range, mem_combinations]
    constructor
    · rintro ⟨k, ⟨a, ha, rfl⟩, sub, ⟨hs, hl⟩, rfl⟩
      exact ⟨sub, hs, by omega, by omega, rfl⟩
    · rintro ⟨sub, hs, h2, hm2, rfl⟩
      exact ⟨(sub.length : Int), ⟨sub.length - 2, by omega, by omega⟩, sub, ⟨hs, by simp⟩, rfl⟩
  · rename_i hm
    simp only [List.not_mem_nil, false_iff, not_exists, not_and]
    intro sub _ h2 hm2; omega

/-- `get_losses` returns exactly: 0, and every sum of a non-empty sub-multiset of at most `max(1, max_losses)`
applicable losses (one copy of a rule's loss per match of its pattern) -/
theorem mem_getLosses (s : List Char) (losses : List LossRule) (m : Int) (x : Rat) :
    x ∈ getLosses s losses m ↔
      x = 0 ∨ ∃ sub : List Rat, sub.Sublist (applicableList s losses) ∧ 1 ≤ sub.length ∧
        (sub.length : Int) ≤ max 1 m ∧ x = sub.sum := by
  have key : x ∈ toSet (toSet [] (applicableList s losses)) (comboSums (applicableList s losses) m) ↔
      ∃ sub : List Rat, sub.Sublist (applicableList s losses) ∧ 1 ≤ sub.length ∧
        (sub.length : Int) ≤ max 1 m ∧ x = sub.sum := by
    rw [mem_toSet, mem_toSet, mem_comboSums]
    simp only [List.not_mem_nil, false_or]
    constructor
    · rintro (h | ⟨sub, hs, h2, hm, rfl⟩)
      · exact ⟨[x], List.singleton_sublist.2 h, by simp, by simp; omega, by simp [Rat.add_zero]⟩
      · exact ⟨sub, hs, by omega, by omega, rfl⟩
    · rintro ⟨sub, hs, h1, hm, rfl⟩
      by_cases h2 : 2 ≤ sub.length
      · exact Or.inr ⟨sub, hs, h2, by omega, rfl⟩
      · have h1' : sub.length = 1 := by omega
        obtain ⟨a, rfl⟩ := List.length_eq_one_iff.1 h1'
        exact Or.inl (by simpa [Rat.add_zero] using List.singleton_sublist.1 hs)
  simp only [getLosses]
  split
  · rename_i h0
    rw [key]
    constructor
    · exact Or.inr
    · rintro (rfl | h)
      · exact key.1 h0
      · exact h
  · rw [List.mem_append, key]
    simp only [List.mem_singleton]
    constructor
    · rintro (h | h)
      · exact Or.inr h
      · exact Or.inl h
    · rintro (h | h)
      · exact Or.inr h
      · exact Or.inl h

/-! ### the loops never reach the `ValueError` of `get_number`; `fragment` as one `flatMap` -/

/-- the ion types for which `get_number` has a branch -/
def Classified (t : Ion) : Prop := t.isForward = true ∨ t.isBackward = true ∨ t.isInternal = true ∨ t = Ion.I

/-- `get_number` without its error branch -/
def numberOf (t : Ion) (n s e : Int) : Number :=
  if t.isForward then .int e else if t.isBackward then .int (n - s) else if t.isInternal then .pair s e else .int s

theorem getNumber_ok {t : Ion} (h : Classified t) (n s e : Int) : getNumber t n s e = .ok (numberOf t n s e) := by
  unfold getNumber numberOf
  rcases h with h | h | h | h
  · simp [h]
  · by_cases h1 : t.isForward = true <;> simp [h, h1]
  · by_cases h1 : t.isForward = true <;> by_cases h2 : t.isBackward = true <;> simp [h, h1, h2]
  · subst h; rfl

/-- the label text of an ion (what the three label return types print) -/
def labelOf (j : Job) (k : Key) : List Char :=
  getLabel j.env.showLoss k.ion k.charge (numberOf k.ion (alen j.annotation) k.start k.stop) k.loss k.isotope

/-- the innermost loop body without the (unreachable) error -/
def outOf (j : Job) (k : Key) : List Out :=
  match j.returnType with
  | .fragment => [.frag (mkFrag j k)]
  | .label => [.label (labelOf j k)]
  | .mass => [.num (mkFrag j k).mass]
  | .mz => [.num (mkFrag j k).mz]
  | .massLabel => [.numLabel (mkFrag j k).mass (labelOf j k)]
  | .mzLabel => [.numLabel (mkFrag j k).mz (labelOf j k)]
  | .other => []

theorem emit_ok (j : Job) (k : Key) (h : Classified k.ion) : emit j k = .ok (outOf j k) := by
  unfold emit outOf labelOf
  cases hr : j.returnType <;> simp [getNumber_ok h, bind, Except.bind, pure, Except.pure]

theorem mapM_ok {α β} (f : α → Except Err β) (g : α → β) (l : List α) (h : ∀ x ∈ l, f x = .ok (g x)) :
    l.mapM f = .ok (l.map g) := by
  induction l with
  | nil => rfl
  | cons a l ih =>
    rw [List.mapM_cons, h a List.mem_cons_self, ih (fun x hx => h x (List.mem_cons_of_mem _ hx))]
    rfl

theorem mem_loopKeys (j : Job) (spans : List Span) (ions : List Ion) (k : Key) :
    k ∈ loopKeys j spans ions ↔
      ∃ sp ∈ spans, k.start = sp.1 ∧ k.stop = sp.2.1 ∧ k.ion ∈ ions ∧ k.isotope ∈ j.isotopes ∧
        k.loss ∈ getLosses (slice j.annotation sp.1 sp.2.1).seq j.losses j.maxLosses ∧ k.charge ∈ j.charges := by
  simp only [loopKeys, List.mem_flatMap, List.mem_map]
  constructor
  · rintro ⟨sp, hsp, t, ht, iso, hiso, loss, hloss, c, hc, rfl⟩
    exact ⟨sp, hsp, rfl, rfl, ht, hiso, hloss, hc⟩
  · rintro ⟨sp, hsp, h1, h2, ht, hiso, hloss, hc⟩
    refine ⟨sp, hsp, k.ion, ht, k.isotope, hiso, k.loss, hloss, k.charge, hc, ?_⟩
    cases k; simp_all

theorem loopKeys_nil (j : Job) (spans : List Span) : loopKeys j spans [] = [] := by
  simp [loopKeys]

theorem buildFragments_ok (j : Job) (spans : List Span) (ions : List Ion) (h : ∀ t ∈ ions, Classified t) :
    buildFragments j spans ions = .ok ((loopKeys j spans ions).flatMap (outOf j)) := by
  unfold buildFragments
  rw [mapM_ok (emit j) (outOf j)]
  · simp [Except.map, List.flatMap]
  · intro k hk
    obtain ⟨_, _, _, _, ht, _⟩ := (mem_loopKeys j spans ions k).1 hk
    exact emit_ok j k (h _ ht)

theorem forward_terminal (t : Ion) : (t.isTerminal && t.isForward) = t.isForward := by
  cases t <;> simp [Ion.isTerminal, Ion.isForward, Ion.terminalTypes, Ion.forwardTypes, Ion.backwardTypes]

theorem backward_terminal (t : Ion) : (t.isTerminal && t.isBackward) = t.isBackward := by
  cases t <;> simp [Ion.isTerminal, Ion.isBackward, Ion.terminalTypes, Ion.forwardTypes, Ion.backwardTypes]

/-- all keys of one `fragment` call, in the order in which the ions are produced -/
def allKeys (j : Job) (ionTypes : List Ion) : List Key :=
  loopKeys j (forwardSpans (alen j.annotation)) (ionTypes.filter Ion.isForward) ++
  loopKeys j (backwardSpans (alen j.annotation)) (ionTypes.filter Ion.isBackward) ++
  loopKeys j (internalSpans (alen j.annotation)) (ionTypes.filter Ion.isInternal) ++
  (if Ion.I ∈ ionTypes then loopKeys j (immoniumSpans (alen j.annotation)) [Ion.I] else [])

theorem getTerminal_ok (j : Job) (ions : List Ion) :
    getTerminal j (ions.filter Ion.isTerminal) =
      .ok ((loopKeys j (forwardSpans (alen j.annotation)) (ions.filter Ion.isForward) ++
            loopKeys j (backwardSpans (alen j.annotation)) (ions.filter Ion.isBackward)).flatMap (outOf j)) := by
  unfold getTerminal getForward getBackward
  have hf : (ions.filter Ion.isTerminal).filter Ion.isForward = ions.filter Ion.isForward := by
    rw [List.filter_filter]; congr 1; funext t; rw [Bool.and_comm]; exact forward_terminal t
  have hb : (ions.filter Ion.isTerminal).filter Ion.isBackward = ions.filter Ion.isBackward := by
    rw [List.filter_filter]; congr 1; funext t; rw [Bool.and_comm]; exact backward_terminal t
  simp only [hf, hb]
  rw [buildFragments_ok, buildFragments_ok]
  · simp [bind, Except.bind, pure, Except.pure, List.flatMap_append]
  · intro t ht; exact Or.inr (Or.inl (List.mem_filter.1 ht).2)
  · intro t ht; exact Or.inl (List.mem_filter.1 ht).2

/-- `fragment` on an unambiguous peptide never raises and is one pass over `allKeys` -/
theorem fragment_ok (env : Env) (a : Annotation) (args : Args) (mc : Option (List Rat))
    (h : containsSequenceAmbiguity (mkJob env a args mc).annotation = false) :
    fragment env a args mc =
      .ok ((allKeys (mkJob env a args mc) args.ionTypes.toList).flatMap (outOf (mkJob env a args mc))) := by
  unfold fragment
  simp only [h, Bool.false_eq_true, if_false]
  have ht : (if (args.ionTypes.toList.filter Ion.isTerminal) ≠ [] then
        getTerminal (mkJob env a args mc) (args.ionTypes.toList.filter Ion.isTerminal) else pure []) =
      getTerminal (mkJob env a args mc) (args.ionTypes.toList.filter Ion.isTerminal) := by
    split
    · rfl
    · rename_i hnil
      have hnil' : args.ionTypes.toList.filter Ion.isTerminal = [] := by simpa using hnil
      rw [hnil']
      simp [getTerminal, getForward, getBackward, buildFragments, loopKeys_nil, bind, Except.bind, pure, Except.pure,
        Except.map]
  have hi : (if (args.ionTypes.toList.filter Ion.isInternal) ≠ [] then
        getInternal (mkJob env a args mc) (args.ionTypes.toList.filter Ion.isInternal) else pure []) =
      getInternal (mkJob env a args mc) (args.ionTypes.toList.filter Ion.isInternal) := by
    split
    · rfl
    · rename_i hnil
      have hnil' : args.ionTypes.toList.filter Ion.isInternal = [] := by simpa using hnil
      rw [hnil']
      simp [getInternal, buildFragments, loopKeys_nil, pure, Except.pure, Except.map]
  rw [ht, hi, getTerminal_ok]
  unfold getInternal getImmonium
  rw [buildFragments_ok _ _ _ (fun t ht => Or.inr (Or.inr (Or.inl (List.mem_filter.1 ht).2)))]
  by_cases hI : Ion.I ∈ args.ionTypes.toList
  · rw [buildFragments_ok _ _ [Ion.I] (fun t ht => Or.inr (Or.inr (Or.inr (by simpa using ht))))]
    simp [allKeys, hI, bind, Except.bind, pure, Except.pure, List.flatMap_append]
  · simp [allKeys, hI, bind, Except.bind, pure, Except.pure, List.flatMap_append]

theorem fragment_ambiguous (env : Env) (a : Annotation) (args : Args) (mc : Option (List Rat))
    (h : containsSequenceAmbiguity (mkJob env a args mc).annotation = true) :
    fragment env a args mc = .error .valueError := by
  unfold fragment
  simp [h, bind, Except.bind, throw, throwThe, MonadExceptOf.throw]

/-! ### exactly one ion per key -/

theorem nodup_loopKeys (j : Job) (spans : List Span) (ions : List Ion)
    (hs : (spans.map fun sp : Span => (sp.1, sp.2.1)).Nodup) (hi : ions.Nodup)
    (hiso : j.isotopes.Nodup) (hc : j.charges.Nodup) : (loopKeys j spans ions).Nodup := by
  unfold loopKeys
  refine nodup_flatMap_of_proj (fun k : Key => (k.start, k.stop)) (fun sp : Span => (sp.1, sp.2.1)) hs ?_ ?_
  · intro sp _ x hx
    simp only [List.mem_flatMap, List.mem_map] at hx
    obtain ⟨t, _, iso, _, loss, _, c, _, rfl⟩ := hx
    rfl
  · intro sp _
    refine nodup_flatMap_of_proj (fun k : Key => k.ion) id (by simpa using hi) ?_ ?_
    · intro t _ x hx
      simp only [List.mem_flatMap, List.mem_map] at hx
      obtain ⟨iso, _, loss, _, c, _, rfl⟩ := hx
      rfl
    · intro t _
      refine nodup_flatMap_of_proj (fun k : Key => k.isotope) id (by simpa using hiso) ?_ ?_
      · intro iso _ x hx
        simp only [List.mem_flatMap, List.mem_map] at hx
        obtain ⟨loss, _, c, _, rfl⟩ := hx
        rfl
      · intro iso _
        refine nodup_flatMap_of_proj (fun k : Key => k.loss) id
          (by simpa using nodup_getLosses _ j.losses j.maxLosses) ?_ ?_
        · intro loss _ x hx
          simp only [List.mem_map] at hx
          obtain ⟨c, _, rfl⟩ := hx
          rfl
        · intro loss _
          refine nodup_map_of_inj hc ?_
          intro c _ c' _ h
          simpa using congrArg Key.charge h

theorem nodup_spanProj_of_map {f : Nat → Span} (n : Nat)
    (hinj : ∀ a b : Nat, ((f a).1, (f a).2.1) = ((f b).1, (f b).2.1) → a = b) :
    (((List.range n).map f).map fun sp : Span => (sp.1, sp.2.1)).Nodup := by
  rw [List.map_map]
  exact nodup_map_of_inj List.nodup_range (fun a _ b _ h => hinj a b h)

theorem nodup_forwardProj (n : Nat) (h : 1 ≤ n) :
    ((forwardSpans (n : Int)).map fun sp : Span => (sp.1, sp.2.1)).Nodup := by
  rw [forwardSpans_eq n h]
  apply nodup_spanProj_of_map
  intro a b hab
  simp only [Prod.mk.injEq] at hab
  omega

theorem nodup_backwardProj (n : Nat) (h : 1 ≤ n) :
    ((backwardSpans (n : Int)).map fun sp : Span => (sp.1, sp.2.1)).Nodup := by
  rw [backwardSpans_eq n h]
  apply nodup_spanProj_of_map
  intro a b hab
  simp only [Prod.mk.injEq] at hab
  omega

theorem nodup_immoniumProj (n : Nat) :
    ((immoniumSpans (n : Int)).map fun sp : Span => (sp.1, sp.2.1)).Nodup := by
  rw [immoniumSpans_eq n]
  apply nodup_spanProj_of_map
  intro a b hab
  simp only [Prod.mk.injEq] at hab
  omega

theorem nodup_range' (a b : Int) : (Spans.range a b).Nodup := by
  unfold Spans.range
  exact nodup_map_of_inj List.nodup_range (fun x _ y _ h => by omega)

theorem nodup_internalProj (n : Int) :
    ((internalSpans n).map fun sp : Span => (sp.1, sp.2.1)).Nodup := by
  unfold internalSpans
  refine List.Nodup.sublist (List.Sublist.map _ List.filter_sublist) ?_
  unfold buildNonEnzymatic
  rw [List.map_flatMap]
  refine nodup_flatMap_of_proj (fun x : Int × Int => x.1) id (by simpa using nodup_range' _ _) ?_ ?_
  · intro i _ x hx
    simp only [List.mem_map] at hx
    obtain ⟨sp, ⟨jj, _, rfl⟩, rfl⟩ := hx
    rfl
  · intro i _
    rw [List.map_map]
    exact nodup_map_of_inj (nodup_range' _ _) (fun x _ y _ h => by simpa using h)

theorem mem_forwardSpans (n : Nat) (h : 1 ≤ n) (s e v : Int) :
    (s, e, v) ∈ forwardSpans (n : Int) ↔ s = 0 ∧ 1 ≤ e ∧ e ≤ n ∧ v = 0 := by
  rw [forwardSpans_eq n h]
  simp only [List.mem_map, List.mem_range, Prod.mk.injEq]
  constructor
  · rintro ⟨k, hk, rfl, rfl, rfl⟩; omega
  · rintro ⟨rfl, h1, h2, rfl⟩
    exact ⟨((n : Int) - e).toNat, by omega, rfl, by omega, rfl⟩

theorem mem_backwardSpans (n : Nat) (h : 1 ≤ n) (s e v : Int) :
    (s, e, v) ∈ backwardSpans (n : Int) ↔ 0 ≤ s ∧ s < n ∧ e = n ∧ v = 0 := by
  rw [backwardSpans_eq n h]
  simp only [List.mem_map, List.mem_range, Prod.mk.injEq]
  constructor
  · rintro ⟨k, hk, rfl, rfl, rfl⟩; omega
  · rintro ⟨h1, h2, rfl, rfl⟩
    exact ⟨s.toNat, by omega, by omega, rfl, rfl⟩

theorem mem_immoniumSpans (n : Nat) (s e v : Int) :
    (s, e, v) ∈ immoniumSpans (n : Int) ↔ 0 ≤ s ∧ s < n ∧ e = s + 1 ∧ v = 0 := by
  rw [immoniumSpans_eq n]
  simp only [List.mem_map, List.mem_range, Prod.mk.injEq]
  constructor
  · rintro ⟨k, hk, rfl, rfl, rfl⟩; omega
  · rintro ⟨h1, h2, rfl, rfl⟩
    exact ⟨s.toNat, by omega, by omega, by omega, rfl⟩

theorem not_forward_of_backward {t : Ion} (h : t.isBackward = true) : t.isForward = false := by
  cases t <;> simp_all [Ion.isForward, Ion.isBackward, Ion.forwardTypes, Ion.backwardTypes]

theorem not_forward_of_internal {t : Ion} (h : t.isInternal = true) : t.isForward = false := by
  cases t <;> simp_all [Ion.isForward, Ion.isInternal, Ion.forwardTypes, Ion.internalTypes]

theorem not_backward_of_internal {t : Ion} (h : t.isInternal = true) : t.isBackward = false := by
  cases t <;> simp_all [Ion.isBackward, Ion.isInternal, Ion.backwardTypes, Ion.internalTypes]

theorem I_unclassified : Ion.I.isForward = false ∧ Ion.I.isBackward = false ∧ Ion.I.isInternal = false := by
  decide

/-- where an ion of type `t` may be cut in a peptide of length `n` -/
def SpanOK (n : Int) (t : Ion) (s e : Int) : Prop :=
  (t.isForward = true ∧ s = 0 ∧ 1 ≤ e ∧ e ≤ n) ∨ (t.isBackward = true ∧ 0 ≤ s ∧ s < n ∧ e = n) ∨
  (t.isInternal = true ∧ 0 < s ∧ s < e ∧ e < n) ∨ (t = Ion.I ∧ 0 ≤ s ∧ s < n ∧ e = s + 1)

theorem mem_allKeys (j : Job) (ions : List Ion) (k : Key) (hn : 1 ≤ j.annotation.seq.length) :
    k ∈ allKeys j ions ↔
      k.ion ∈ ions ∧ SpanOK (alen j.annotation) k.ion k.start k.stop ∧ k.isotope ∈ j.isotopes ∧
      k.loss ∈ getLosses (slice j.annotation k.start k.stop).seq j.losses j.maxLosses ∧ k.charge ∈ j.charges := by
  have hl : alen j.annotation = ((j.annotation.seq.length : Nat) : Int) := rfl
  unfold allKeys SpanOK
  rw [hl]
  simp only [List.mem_append, mem_loopKeys, List.mem_filter]
  constructor
  · rintro (((⟨⟨s, e, v⟩, hsp, h1, h2, ⟨ht, hf⟩, hiso, hloss, hc⟩ | ⟨⟨s, e, v⟩, hsp, h1, h2, ⟨ht, hf⟩, hiso, hloss, hc⟩) |
      ⟨⟨s, e, v⟩, hsp, h1, h2, ⟨ht, hf⟩, hiso, hloss, hc⟩) | him)
    · obtain ⟨rfl, g1, g2, rfl⟩ := (mem_forwardSpans _ hn _ _ _).1 hsp
      simp only at h1 h2 hloss
      rw [← h2, ← h1] at hloss
      exact ⟨ht, Or.inl ⟨hf, h1, by omega, by omega⟩, hiso, hloss, hc⟩
    · obtain ⟨g0, g1, rfl, rfl⟩ := (mem_backwardSpans _ hn _ _ _).1 hsp
      simp only at h1 h2 hloss
      rw [← h2, ← h1] at hloss
      exact ⟨ht, Or.inr (Or.inl ⟨hf, by omega, by omega, h2⟩), hiso, hloss, hc⟩
    · obtain ⟨g0, g1, g2, rfl⟩ := (mem_internalSpans _ _ _ _).1 hsp
      simp only at h1 h2 hloss
      rw [← h2, ← h1] at hloss
      exact ⟨ht, Or.inr (Or.inr (Or.inl ⟨hf, by omega, by omega, by omega⟩)), hiso, hloss, hc⟩
    · split at him
      · rename_i hI
        obtain ⟨⟨s, e, v⟩, hsp, h1, h2, ht, hiso, hloss, hc⟩ := (mem_loopKeys _ _ _ _).1 him
        obtain ⟨g0, g1, rfl, rfl⟩ := (mem_immoniumSpans _ _ _ _).1 hsp
        simp only at h1 h2 hloss
        rw [← h2, ← h1] at hloss
        have ht' : k.ion = Ion.I := by simpa using ht
        exact ⟨ht' ▸ hI, Or.inr (Or.inr (Or.inr ⟨ht', by omega, by omega, by omega⟩)), hiso, hloss, hc⟩
      · simp at him
  · rintro ⟨ht, hspan, hiso, hloss, hc⟩
    rcases hspan with ⟨hf, h1, h2, h3⟩ | ⟨hf, h1, h2, h3⟩ | ⟨hf, h1, h2, h3⟩ | ⟨hf, h1, h2, h3⟩
    · exact Or.inl (Or.inl (Or.inl ⟨(k.start, k.stop, 0), (mem_forwardSpans _ hn _ _ _).2 ⟨h1, h2, h3, rfl⟩, rfl, rfl,
        ⟨ht, hf⟩, hiso, hloss, hc⟩))
    · exact Or.inl (Or.inl (Or.inr ⟨(k.start, k.stop, 0), (mem_backwardSpans _ hn _ _ _).2 ⟨h1, h2, h3, rfl⟩, rfl, rfl,
        ⟨ht, hf⟩, hiso, hloss, hc⟩))
    · exact Or.inl (Or.inr ⟨(k.start, k.stop, 0), (mem_internalSpans _ _ _ _).2 ⟨h1, h2, h3, rfl⟩, rfl, rfl,
        ⟨ht, hf⟩, hiso, hloss, hc⟩)
    · refine Or.inr ?_
      rw [hf] at ht
      simp only [ht, if_true]
      exact (mem_loopKeys _ _ _ _).2 ⟨(k.start, k.stop, 0), (mem_immoniumSpans _ _ _ _).2 ⟨h1, h2, h3, rfl⟩, rfl, rfl,
        by simp [hf], hiso, hloss, hc⟩

theorem nodup_allKeys (j : Job) (ions : List Ion) (hn : 1 ≤ j.annotation.seq.length)
    (hi : ions.Nodup) (hiso : j.isotopes.Nodup) (hc : j.charges.Nodup) : (allKeys j ions).Nodup := by
  have hl : alen j.annotation = ((j.annotation.seq.length : Nat) : Int) := rfl
  have hfil : ∀ p : Ion → Bool, (ions.filter p).Nodup := fun p => List.Nodup.sublist List.filter_sublist hi
  unfold allKeys
  rw [hl]
  have ionOf : ∀ (spans : List Span) (l : List Ion) (k : Key), k ∈ loopKeys j spans l → k.ion ∈ l := by
    intro spans l k hk
    obtain ⟨_, _, _, _, ht, _⟩ := (mem_loopKeys _ _ _ _).1 hk
    exact ht
  refine nodup_append_of_proj (fun k : Key => k.ion) (fun t => t ≠ Ion.I) ?_ ?_ ?_ ?_
  · refine nodup_append_of_proj (fun k : Key => k.ion) (fun t => t.isInternal = false) ?_ ?_ ?_ ?_
    · refine nodup_append_of_proj (fun k : Key => k.ion) (fun t => t.isForward = true) ?_ ?_ ?_ ?_
      · exact nodup_loopKeys j _ _ (nodup_forwardProj _ hn) (hfil _) hiso hc
      · exact nodup_loopKeys j _ _ (nodup_backwardProj _ hn) (hfil _) hiso hc
      · intro k hk; exact (List.mem_filter.1 (ionOf _ _ k hk)).2
      · intro k hk
        have := not_forward_of_backward (List.mem_filter.1 (ionOf _ _ k hk)).2
        simp [this]
    · exact nodup_loopKeys j _ _ (nodup_internalProj _) (hfil _) hiso hc
    · intro k hk
      rcases List.mem_append.1 hk with hk | hk
      · have hf := (List.mem_filter.1 (ionOf _ _ k hk)).2
        cases hint : k.ion.isInternal
        · rfl
        · rw [not_forward_of_internal hint] at hf; cases hf
      · have hb := (List.mem_filter.1 (ionOf _ _ k hk)).2
        cases hint : k.ion.isInternal
        · rfl
        · rw [not_backward_of_internal hint] at hb; cases hb
    · intro k hk
      simp [(List.mem_filter.1 (ionOf _ _ k hk)).2]
  · split
    · exact nodup_loopKeys j _ _ (nodup_immoniumProj _) (by simp) hiso hc
    · simp
  · intro k hk hI
    obtain ⟨h1, h2, h3⟩ := I_unclassified
    rcases List.mem_append.1 hk with hk | hk
    · rcases List.mem_append.1 hk with hk | hk
      · have := (List.mem_filter.1 (ionOf _ _ k hk)).2
        have hI' : k.ion = Ion.I := hI; rw [hI', h1] at this; cases this
      · have := (List.mem_filter.1 (ionOf _ _ k hk)).2
        have hI' : k.ion = Ion.I := hI; rw [hI', h2] at this; cases this
    · have := (List.mem_filter.1 (ionOf _ _ k hk)).2
      have hI' : k.ion = Ion.I := hI; rw [hI', h3] at this; cases this
  · intro k hk
    split at hk
    · have := ionOf _ _ k hk
      simp only [List.mem_singleton] at this
      simp [this]
    · simp at hk

/-! ### masses: table offset + sum of the components of the ion's own span -/

/-- everything in an ion's mass that does not come from its residues -/
def ionBase (j : Job) (t : Ion) (c iso : Int) (loss : Rat) : Rat :=
  j.env.P.fragAdjN j.monoisotopic + labelShift j t c + j.env.P.proton * ((c - 1 : Int) : Rat) +
    j.env.P.ionOffset j.monoisotopic t + j.env.P.fragAdj j.monoisotopic t + (iso : Rat) * j.env.P.neutron + loss

theorem mass_formula (j : Job) (k : Key) :
    (mkFrag j k).mass =
      roundOpt (spanSum j.massComponents k.start k.stop + ionBase j k.ion k.charge k.isotope k.loss) j.precision := by
  simp only [mkFrag, adjustMass, baseMass, adjustMassN, ionBase]
  congr 1
  grind

theorem neutral_formula (j : Job) (k : Key) :
    (mkFrag j k).neutralMass = spanSum j.massComponents k.start k.stop + ionBase j k.ion 0 k.isotope k.loss := by
  simp only [mkFrag, adjustMass, baseMass, adjustMassN, ionBase, roundOpt]
  grind

theorem rat_sum_append (l₁ l₂ : List Rat) : (l₁ ++ l₂).sum = l₁.sum + l₂.sum := by
  induction l₁ with
  | nil => simp [Rat.zero_add]
  | cons a l ih => simp [ih, Rat.add_assoc]

/-- prefix sums: the component sum of a span is additive in the cut point -/
theorem spanSum_split (comps : List Rat) (s m e : Int) (h0 : 0 ≤ s) (h1 : s ≤ m) (h2 : m ≤ e) :
    spanSum comps s e = spanSum comps s m + spanSum comps m e := by
  unfold spanSum pySlice
  have e1 : e.toNat - s.toNat = (m.toNat - s.toNat) + (e.toNat - m.toNat) := by omega
  have e2 : m.toNat = s.toNat + (m.toNat - s.toNat) := by omega
  rw [e1, List.take_add, rat_sum_append, List.drop_drop, ← e2]

/-- locality: the component sum of a span reads only the components inside the span -/
theorem spanSum_congr (c₁ c₂ : List Rat) (s e : Int) (h0 : 0 ≤ s)
    (h : ∀ i : Nat, s ≤ (i : Int) → (i : Int) < e → c₁[i]? = c₂[i]?) : spanSum c₁ s e = spanSum c₂ s e := by
  unfold spanSum pySlice
  congr 1
  apply List.ext_getElem?
  intro i
  rw [List.getElem?_take, List.getElem?_take, List.getElem?_drop, List.getElem?_drop]
  split
  · apply h <;> omega
  · rfl

/-! ### return types as projections -/

/-- what each return type shows of a `Fragment` (through the dataclass's own `mass` / `mz` / `label`) -/
def project (showLoss : Rat → List Char) (rt : RT) : Out → Except Err Out
  | .frag f =>
    match rt with
    | .mass => .ok (.num f.mass)
    | .mz => .ok (.num f.mz)
    | .label => (f.label showLoss).map .label
    | .massLabel => (f.label showLoss).map (.numLabel f.mass)
    | .mzLabel => (f.label showLoss).map (.numLabel f.mz)
    | _ => .ok (.frag f)
  | o => .ok o

theorem classified_of_mem_allKeys (j : Job) (ions : List Ion) (k : Key) (h : k ∈ allKeys j ions) : Classified k.ion := by
  unfold allKeys at h
  have ionOf : ∀ (spans : List Span) (l : List Ion), k ∈ loopKeys j spans l → k.ion ∈ l := by
    intro spans l hk
    obtain ⟨_, _, _, _, ht, _⟩ := (mem_loopKeys _ _ _ _).1 hk
    exact ht
  simp only [List.mem_append] at h
  rcases h with ((h | h) | h) | h
  · exact Or.inl (List.mem_filter.1 (ionOf _ _ h)).2
  · exact Or.inr (Or.inl (List.mem_filter.1 (ionOf _ _ h)).2)
  · exact Or.inr (Or.inr (Or.inl (List.mem_filter.1 (ionOf _ _ h)).2))
  · split at h
    · exact Or.inr (Or.inr (Or.inr (by simpa using ionOf _ _ h)))
    · simp at h

/-- the same job with another `return_type` -/
def Job.withRT (j : Job) (rt : RT) : Job := { j with returnType := rt }

theorem frag_label_mkFrag (j : Job) (k : Key) (h : Classified k.ion) :
    (mkFrag j k).label j.env.showLoss = .ok (labelOf j k) := by
  simp only [Frag.label, Frag.number, mkFrag, labelOf, getNumber_ok h, bind, Except.bind, pure, Except.pure]

theorem outOf_withRT_fragment (j : Job) (k : Key) : outOf (j.withRT .fragment) k = [.frag (mkFrag j k)] := rfl

theorem project_outOf (j : Job) (rt : RT) (hrt : rt ≠ .other) (k : Key) (h : Classified k.ion) :
    (outOf (j.withRT .fragment) k).mapM (project j.env.showLoss rt) = .ok (outOf (j.withRT rt) k) := by
  have hl := frag_label_mkFrag j k h
  rw [outOf_withRT_fragment]
  cases rt
  · rfl
  · rfl
  · rfl
  · show (do let b ← (Except.map Out.label ((mkFrag j k).label j.env.showLoss)); let bs ← pure []; pure (b :: bs)) = _
    rw [hl]; rfl
  · show (do let b ← (Except.map (Out.numLabel (mkFrag j k).mass) ((mkFrag j k).label j.env.showLoss));
             let bs ← pure []; pure (b :: bs)) = _
    rw [hl]; rfl
  · show (do let b ← (Except.map (Out.numLabel (mkFrag j k).mz) ((mkFrag j k).label j.env.showLoss));
             let bs ← pure []; pure (b :: bs)) = _
    rw [hl]; rfl
  · exact absurd rfl hrt

theorem mapM_flatMap_ok {α β γ} (f : α → List β) (g : α → List γ) (p : β → Except Err γ) (l : List α)
    (h : ∀ x ∈ l, (f x).mapM p = .ok (g x)) : (l.flatMap f).mapM p = .ok (l.flatMap g) := by
  induction l with
  | nil => rfl
  | cons a l ih =>
    rw [List.flatMap_cons, List.mapM_append, h a List.mem_cons_self,
      ih (fun x hx => h x (List.mem_cons_of_mem _ hx))]
    rfl

/-! ### a slice carries the modifications of its residues and of the termini it contains -/

theorem fields_none_of_not_hasMods (a : Annotation) (h : hasMods a = false) :
    a.isotope = none ∧ a.static = none ∧ a.labile = none ∧ a.unknown = none ∧ a.nterm = none ∧ a.cterm = none ∧
    a.internal = none ∧ a.intervals = none ∧ a.charge = none ∧ a.adducts = none := by
  simp only [hasMods, Bool.or_eq_false_iff, Option.isSome_eq_false_iff, Option.isNone_iff_eq_none] at h
  obtain ⟨⟨⟨⟨⟨⟨⟨⟨⟨h1, h2⟩, h3⟩, h4⟩, h5⟩, h6⟩, h7⟩, h8⟩, h9⟩, h10⟩ := h
  exact ⟨h1, h2, h3, h4, h5, h6, h7, h8, h9, h10⟩

theorem slice_seq (a : Annotation) (s e : Int) : (slice a s e).seq = pySlice a.seq s e := by
  unfold slice
  split <;> rfl

theorem slice_nterm (a : Annotation) (s e : Int) : (slice a s e).nterm = if s > 0 then none else a.nterm := by
  unfold slice
  split
  · rename_i h
    have := (fields_none_of_not_hasMods a (by simpa using h)).2.2.2.2.1
    simp [this]
  · rfl

theorem slice_cterm (a : Annotation) (s e : Int) : (slice a s e).cterm = if e < alen a then none else a.cterm := by
  unfold slice
  split
  · rename_i h
    have := (fields_none_of_not_hasMods a (by simpa using h)).2.2.2.2.2.1
    simp [this]
  · rfl

theorem slice_global (a : Annotation) (s e : Int) :
    (slice a s e).isotope = a.isotope ∧ (slice a s e).static = a.static ∧ (slice a s e).labile = a.labile ∧
    (slice a s e).unknown = a.unknown ∧ (slice a s e).charge = a.charge ∧ (slice a s e).adducts = a.adducts := by
  unfold slice
  split
  · rename_i h
    obtain ⟨h1, h2, h3, h4, _, _, _, _, h9, h10⟩ := fields_none_of_not_hasMods a (by simpa using h)
    simp [h1, h2, h3, h4, h9, h10]
  · exact ⟨rfl, rfl, rfl, rfl, rfl, rfl⟩

theorem slice_internal (a : Annotation) (s e : Int) :
    (slice a s e).internal = a.internal.map fun d =>
      d.filterMap fun p => if s ≤ p.1 ∧ p.1 < e then some (p.1 - s, p.2) else none := by
  unfold slice
  split
  · rename_i h
    have := (fields_none_of_not_hasMods a (by simpa using h)).2.2.2.2.2.2.1
    simp [this]
  · rfl

/-- the residue modifications of a slice are exactly those of the residues `s ≤ k < e`, re-indexed from 0 -/
theorem mem_slice_internal (a : Annotation) (s e : Int) (d : List (Int × List Mod)) (h : a.internal = some d)
    (k' : Int) (m : List Mod) :
    (∃ d', (slice a s e).internal = some d' ∧ (k', m) ∈ d') ↔ ∃ k, (k, m) ∈ d ∧ s ≤ k ∧ k < e ∧ k' = k - s := by
  rw [slice_internal, h]
  simp only [Option.map_some, Option.some.injEq, exists_eq_left', List.mem_filterMap]
  constructor
  · rintro ⟨⟨k, m'⟩, hmem, hif⟩
    split at hif
    · rename_i hc
      simp only [Option.some.injEq, Prod.mk.injEq] at hif
      obtain ⟨rfl, rfl⟩ := hif
      exact ⟨k, hmem, hc.1, hc.2, rfl⟩
    · cases hif
  · rintro ⟨k, hmem, h1, h2, rfl⟩
    exact ⟨(k, m), hmem, by simp [h1, h2]⟩

/-! ### the number of strictly internal spans -/

theorem nodup_internalSpans (n : Int) : (internalSpans n).Nodup := by
  have h := nodup_internalProj n
  exact (List.pairwise_map.1 h).imp (fun hne heq => hne (by rw [heq]))

theorem internalSpans_step (n : Nat) (hn : 1 ≤ n) :
    (internalSpans ((n + 1 : Nat) : Int)).length = (internalSpans (n : Int)).length + (n - 1) := by
  let extra : List Span := (List.range (n - 1)).map fun (k : Nat) => ((k : Int) + 1, (n : Int), (0 : Int))
  have hextra : extra.Nodup :=
    nodup_map_of_inj List.nodup_range (fun a _ b _ h => by simp only [Prod.mk.injEq] at h; omega)
  have hL : (internalSpans (n : Int) ++ extra).Nodup := by
    rw [List.nodup_append]
    refine ⟨nodup_internalSpans _, hextra, ?_⟩
    rintro ⟨s, e, v⟩ h1 ⟨s', e', v'⟩ h2 heq
    have := (mem_internalSpans _ _ _ _).1 h1
    simp only [extra, List.mem_map, List.mem_range, Prod.mk.injEq] at h2
    obtain ⟨k, _, _, rfl, _⟩ := h2
    simp only [Prod.mk.injEq] at heq
    omega
  have hperm : (internalSpans ((n + 1 : Nat) : Int)).Perm (internalSpans (n : Int) ++ extra) := by
    rw [List.perm_ext_iff_of_nodup (nodup_internalSpans _) hL]
    rintro ⟨s, e, v⟩
    rw [List.mem_append, mem_internalSpans, mem_internalSpans]
    simp only [extra, List.mem_map, List.mem_range, Prod.mk.injEq]
    constructor
    · rintro ⟨h1, h2, h3, rfl⟩
      by_cases he : e < (n : Int)
      · exact Or.inl ⟨h1, h2, he, rfl⟩
      · exact Or.inr ⟨(s - 1).toNat, by omega, by omega, by omega, rfl⟩
    · rintro (⟨h1, h2, h3, rfl⟩ | ⟨k, hk, rfl, rfl, rfl⟩)
      · exact ⟨h1, h2, by omega, rfl⟩
      · exact ⟨by omega, by omega, by omega, rfl⟩
  rw [hperm.length_eq, List.length_append]
  simp [extra]

theorem internalSpans_count (n : Nat) : 2 * (internalSpans (n : Int)).length = (n - 1) * (n - 2) := by
  induction n with
  | zero => decide
  | succ n ih =>
    cases n with
    | zero => decide
    | succ m =>
      rw [internalSpans_step (m + 1) (by omega), Nat.mul_add, ih]
      show (m + 1 - 1) * (m + 1 - 2) + 2 * (m + 1 - 1) = (m + 1 + 1 - 1) * (m + 1 + 1 - 2)
      cases m with
      | zero => rfl
      | succ k =>
        simp only [Nat.add_one_sub_one]
        grind

/-! ### applicability of a rule on a span: the number of matches bounds how often its loss can be taken -/

theorem rat_sum_replicate (n : Nat) (v : Rat) : (List.replicate n v).sum = (n : Rat) * v := by
  induction n with
  | zero => simp [Rat.zero_mul]
  | succ n ih =>
    rw [List.replicate_succ, List.sum_cons, ih]
    have : ((n + 1 : Nat) : Rat) = (n : Rat) + 1 := by simp [Rat.natCast_add]
    rw [this]; grind

theorem applicableList_one (s : List Char) (r : LossRule) :
    applicableList s [r] = List.replicate (r.1.count s) r.2 := by
  simp [applicableList]

theorem applicableList_two (s : List Char) (r₁ r₂ : LossRule) :
    applicableList s [r₁, r₂] = List.replicate (r₁.1.count s) r₁.2 ++ List.replicate (r₂.1.count s) r₂.2 := by
  simp [applicableList]

/-- a rule whose pattern does not match the span contributes nothing -/
theorem applicableList_filter (s : List Char) (rules : List LossRule) :
    applicableList s rules = applicableList s (rules.filter fun r => decide (0 < r.1.count s)) := by
  induction rules with
  | nil => rfl
  | cons r rs ih =>
    unfold applicableList at ih ⊢
    rw [List.flatMap_cons, List.filter_cons]
    by_cases h : 0 < r.1.count s
    · simp only [h, decide_true, if_true, List.flatMap_cons, ih]
    · have h0 : r.1.count s = 0 := by omega
      simp only [h0, List.replicate_zero, List.nil_append, ih]
      simp

/-- one rule: its loss can be taken `i` times for every `1 ≤ i ≤ min(#matches, max(1, max_losses))` -/
theorem getLosses_one_rule (s : List Char) (r : LossRule) (m : Int) (x : Rat) :
    x ∈ getLosses s [r] m ↔
      x = 0 ∨ ∃ i : Nat, 1 ≤ i ∧ i ≤ r.1.count s ∧ (i : Int) ≤ max 1 m ∧ x = (i : Rat) * r.2 := by
  rw [mem_getLosses, applicableList_one]
  constructor
  · rintro (h | ⟨sub, hs, h1, hm, rfl⟩)
    · exact Or.inl h
    · obtain ⟨i, hi, rfl⟩ := List.sublist_replicate_iff.1 hs
      rw [List.length_replicate] at h1 hm
      exact Or.inr ⟨i, h1, hi, hm, rat_sum_replicate i r.2⟩
  · rintro (h | ⟨i, h1, hi, hm, rfl⟩)
    · exact Or.inl h
    · exact Or.inr ⟨List.replicate i r.2, (List.replicate_sublist_replicate r.2).2 hi, by simpa using h1,
        by simpa using hm, (rat_sum_replicate i r.2).symm⟩

/-- two rules: `i` copies of the first and `j` of the second, each bounded by its number of matches on the span,
`1 ≤ i + j ≤ max(1, max_losses)` -/
theorem getLosses_two_rules (s : List Char) (r₁ r₂ : LossRule) (m : Int) (x : Rat) :
    x ∈ getLosses s [r₁, r₂] m ↔
      x = 0 ∨ ∃ i j : Nat, 1 ≤ i + j ∧ i ≤ r₁.1.count s ∧ j ≤ r₂.1.count s ∧ ((i + j : Nat) : Int) ≤ max 1 m ∧
        x = (i : Rat) * r₁.2 + (j : Rat) * r₂.2 := by
  rw [mem_getLosses, applicableList_two]
  constructor
  · rintro (h | ⟨sub, hs, h1, hm, rfl⟩)
    · exact Or.inl h
    · obtain ⟨l₁, l₂, rfl, hs1, hs2⟩ := List.sublist_append_iff.1 hs
      obtain ⟨i, hi, rfl⟩ := List.sublist_replicate_iff.1 hs1
      obtain ⟨j, hj, rfl⟩ := List.sublist_replicate_iff.1 hs2
      simp only [List.length_append, List.length_replicate] at h1 hm
      exact Or.inr ⟨i, j, h1, hi, hj, hm, by rw [rat_sum_append, rat_sum_replicate, rat_sum_replicate]⟩
  · rintro (h | ⟨i, j, h1, hi, hj, hm, rfl⟩)
    · exact Or.inl h
    · refine Or.inr ⟨List.replicate i r₁.2 ++ List.replicate j r₂.2,
        List.Sublist.append ((List.replicate_sublist_replicate _).2 hi) ((List.replicate_sublist_replicate _).2 hj),
        by simpa using h1, by simpa using hm, ?_⟩
      rw [rat_sum_append, rat_sum_replicate, rat_sum_replicate]

end Fragment
