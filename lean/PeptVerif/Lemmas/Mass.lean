import Mathlib.Tactic.Ring
import Mathlib.Tactic.Linarith
import Mathlib.Tactic.FieldSimp
import Mathlib.Tactic.Positivity
import Mathlib.Tactic.SplitIfs
import Mathlib.Data.Rat.Defs
import Mathlib.Algebra.Order.Field.Rat
import PeptVerif.Spec.Mass
/-! Helper lemmas for C02 / C03 / C05: linearity of `chemMassL`, sums in the `Except` monad, table look-ups. -/
namespace Pept
open Chem Mass Spec

namespace Chem

theorem foldl_acc (m : Elem → Rat) (c : Comp) (a : Rat) :
    c.foldl (fun acc p => acc + m p.1 * p.2) a = a + chemMassL m c := by
  unfold chemMassL
  induction c generalizing a with
  | nil => simp
  | cons p c ih => simp only [List.foldl_cons]; rw [ih, ih (0 + _)]; ring

theorem chemMassL_nil (m : Elem → Rat) : chemMassL m [] = 0 := rfl

theorem chemMassL_cons (m : Elem → Rat) (p : Elem × Rat) (c : Comp) :
    chemMassL m (p :: c) = m p.1 * p.2 + chemMassL m c := by
  show List.foldl _ _ _ = _
  simp only [List.foldl_cons]
  rw [foldl_acc]; ring

theorem chemMassL_append (m : Elem → Rat) (a b : Comp) :
    chemMassL m (a ++ b) = chemMassL m a + chemMassL m b := by
  induction a with
  | nil => simp [chemMassL_nil]
  | cons p a ih => rw [List.cons_append, chemMassL_cons, chemMassL_cons, ih]; ring

theorem chemMassL_scale (m : Elem → Rat) (k : Rat) (c : Comp) :
    chemMassL m (scale k c) = k * chemMassL m c := by
  induction c with
  | nil => simp [scale, chemMassL_nil]
  | cons p c ih =>
    have : scale k (p :: c) = (p.1, p.2 * k) :: scale k c := rfl
    rw [this, chemMassL_cons, chemMassL_cons, ih]; ring

theorem chemMassL_addKey (m : Elem → Rat) (c : Comp) (e : Elem) (k : Rat) :
    chemMassL m (addKey c e k) = chemMassL m c + m e * k := by
  induction c with
  | nil => simp [addKey, chemMassL_cons, chemMassL_nil]
  | cons p c ih =>
    obtain ⟨e', k'⟩ := p
    simp only [addKey]
    split
    · rename_i h; subst h; rw [chemMassL_cons, chemMassL_cons]; ring
    · rw [chemMassL_cons, chemMassL_cons, ih]; ring

theorem chemMassL_addAll (m : Elem → Rat) (a b : Comp) :
    chemMassL m (addAll a b) = chemMassL m a + chemMassL m b := by
  unfold addAll
  induction b generalizing a with
  | nil => simp [chemMassL_nil]
  | cons p b ih => simp only [List.foldl_cons]; rw [ih, chemMassL_addKey, chemMassL_cons]; ring

theorem chemMassL_dropZeros (m : Elem → Rat) (c : Comp) : chemMassL m (dropZeros c) = chemMassL m c := by
  unfold dropZeros
  induction c with
  | nil => rfl
  | cons p c ih =>
    by_cases h : p.2 = 0
    · simp [List.filter_cons, h, chemMassL_cons, ih]
    · simp [List.filter_cons, h, chemMassL_cons, ih]

theorem chemMassL_merge (m : Elem → Rat) (a b : Comp) :
    chemMassL m (merge a b) = chemMassL m a + chemMassL m b := by
  unfold merge
  rw [chemMassL_dropZeros, chemMassL_addAll, chemMassL_addAll, chemMassL_nil]; ring

theorem chemMassL_map_mul (m : Elem → Rat) (k : Rat) (c : Comp) :
    chemMassL m (c.map fun p => (p.1, p.2 * k)) = k * chemMassL m c := chemMassL_scale m k c


theorem roundHalfEvenInt_bound (x : Rat) :
    ((roundHalfEvenInt x : Int) : Rat) - x ≤ 1 / 2 ∧ x - ((roundHalfEvenInt x : Int) : Rat) ≤ 1 / 2 := by
  have h1 := Rat.floor_le x
  have h2 := Rat.lt_floor_add_one x
  push_cast at h2
  unfold roundHalfEvenInt
  simp only []
  split_ifs <;> constructor <;> push_cast <;> linarith

theorem pow10_pos (n : Nat) : 0 < pow10 n := by
  unfold pow10
  exact_mod_cast Nat.pos_of_ne_zero (by positivity)

/-- `round(x, p)` for `p ≥ 0` on the exact rational is within half a unit of the last place -/
theorem pyRound_bound (q : Rat) (p : Nat) :
    pyRound q (p : Int) - q ≤ 1 / 2 / pow10 p ∧ q - pyRound q (p : Int) ≤ 1 / 2 / pow10 p := by
  have hP := pow10_pos p
  have hb := roundHalfEvenInt_bound (q * pow10 p)
  have key : pyRound q (p : Int) = ((roundHalfEvenInt (q * pow10 p) : Int) : Rat) / pow10 p := by
    unfold pyRound
    simp
  rw [key]
  constructor
  · have : ((roundHalfEvenInt (q * pow10 p) : Int) : Rat) / pow10 p - q
        = (((roundHalfEvenInt (q * pow10 p) : Int) : Rat) - q * pow10 p) / pow10 p := by field_simp
    rw [this]
    exact (div_le_div_iff_of_pos_right hP).mpr hb.1
  · have : q - ((roundHalfEvenInt (q * pow10 p) : Int) : Rat) / pow10 p
        = (q * pow10 p - ((roundHalfEvenInt (q * pow10 p) : Int) : Rat)) / pow10 p := by field_simp
    rw [this]
    exact (div_le_div_iff_of_pos_right hP).mpr hb.2


/-- `chem_mass` succeeds on a composition of known elements and is then the linear form -/
theorem chemMass_ok (mono : Bool) (c : Comp) (h : c.all (fun p => (elemMass mono p.1).isSome) = true) :
    chemMass mono c none = .ok (chemMassL (fun e => (elemMass mono e).getD 0) c) := by
  unfold chemMass chemMassL
  have key : ∀ (l : Comp) (a : Rat), l.all (fun p => (elemMass mono p.1).isSome) = true →
      l.foldlM (chemStep mono) a
      = Except.ok (l.foldl (fun acc p => acc + (elemMass mono p.1).getD 0 * p.2) a) := by
    intro l
    induction l with
    | nil => intro a _; rfl
    | cons p l ih =>
      intro a hl
      simp only [List.all_cons, Bool.and_eq_true] at hl
      obtain ⟨hp, hl⟩ := hl
      obtain ⟨m, hm⟩ := Option.isSome_iff_exists.mp hp
      rw [List.foldlM_cons, List.foldl_cons]
      have hs : chemStep mono a p = Except.ok (a + (elemMass mono p.1).getD 0 * p.2) := by
        unfold chemStep; rw [hm]; rfl
      rw [hs]
      exact ih _ hl
  rw [key c 0 h]
  rfl

theorem isotopicAveragineMass_pos : 0 < isotopicAveragineMass := by decide +kernel

/-- averagine scaling is mass-exact over ℚ -/
theorem chemMassL_averagine (m : Rat) :
    chemMassL (fun e => (elemMass true e).getD 0)
      (Gen.averagine.map (fun p => (p.1, p.2 * m / isotopicAveragineMass))) = m := by
  have hM := isotopicAveragineMass_pos
  have hf : (fun p : Elem × Rat => (p.1, p.2 * m / isotopicAveragineMass))
      = (fun p : Elem × Rat => (p.1, p.2 * (m / isotopicAveragineMass))) := by
    funext p; rw [mul_div_assoc]
  rw [hf, chemMassL_map_mul]
  have : chemMassL (fun e => (elemMass true e).getD 0) Gen.averagine = isotopicAveragineMass := rfl
  rw [this]
  field_simp

end Chem

namespace Spec

theorem sumR_nil : sumR [] = 0 := rfl
theorem sumR_cons (x : Rat) (l : List Rat) : sumR (x :: l) = x + sumR l := rfl
theorem sumR_append (a b : List Rat) : sumR (a ++ b) = sumR a + sumR b := by
  induction a with
  | nil => simp [sumR_nil]
  | cons x a ih => rw [List.cons_append, sumR_cons, sumR_cons, ih]; ring

theorem sumR_flatMap {α β} (f : α → List β) (g : β → Rat) (l : List α) :
    sumR ((l.flatMap f).map g) = sumR (l.map fun x => sumR ((f x).map g)) := by
  induction l with
  | nil => rfl
  | cons x l ih => simp only [List.flatMap_cons, List.map_append, List.map_cons, sumR_append, sumR_cons, ih]

theorem modsValue_append (env : Env) (mono : Bool) (a b : List Mod) :
    modsValue env mono (a ++ b) = modsValue env mono a + modsValue env mono b := by
  simp [modsValue, sumR_append]

end Spec

namespace Mass

theorem bind_ok {α β} (a : α) (f : α → Except Err β) : (Except.ok a >>= f) = f a := rfl
theorem pure_eq_ok {α} (a : α) : (pure a : Except Err α) = Except.ok a := rfl
theorem pure_bind' {α β} (a : α) (f : α → Except Err β) : ((pure a : Except Err α) >>= f) = f a := rfl

theorem foldlM_sum_ok {α} (f : α → Except Err Rat) (g : α → Rat) (l : List α) (a : Rat)
    (h : ∀ x ∈ l, f x = .ok (g x)) :
    l.foldlM (fun acc x => do let v ← f x; pure (acc + v)) a = .ok (a + sumR (l.map g)) := by
  induction l generalizing a with
  | nil => simp [sumR_nil, pure_eq_ok]
  | cons x l ih =>
    rw [List.foldlM_cons, h x (List.mem_cons_self), bind_ok, pure_eq_ok, bind_ok,
      ih _ (fun y hy => h y (List.mem_cons_of_mem _ hy)), List.map_cons, sumR_cons]
    congr 1; ring

theorem sumM_ok {α} (f : α → Except Err Rat) (g : α → Rat) (l : List α)
    (h : ∀ x ∈ l, f x = .ok (g x)) : sumM f l = .ok (sumR (l.map g)) := by
  unfold sumM; rw [foldlM_sum_ok f g l 0 h]; congr 1; ring


theorem modMass_ok (env : Env) (mono : Bool) (m : Mod) (h : modResolves env mono m = true) :
    modMass env mono m = .ok (modValue env mono m) := by
  unfold modMass modValue
  unfold modResolves at h
  cases mono <;> simp only [Bool.false_eq_true, if_false, if_true] at h ⊢
  · cases hv : (env.res m.val).avg with
    | ok v => rfl
    | error e => rw [hv] at h; simp at h
  · cases hv : (env.res m.val).mono with
    | ok v => rfl
    | error e => rw [hv] at h; simp at h

theorem sumMods_ok (env : Env) (mono : Bool) (l : List Mod) (h : l.all (modResolves env mono) = true) :
    sumMods env mono l = .ok (modsValue env mono l) := by
  unfold sumMods modsValue
  apply sumM_ok
  intro m hm
  exact modMass_ok env mono m (List.all_eq_true.mp h m hm)

theorem sumOptMods_ok (env : Env) (mono : Bool) (o : Option (List Mod))
    (h : (o.getD []).all (modResolves env mono) = true) :
    sumOptMods env mono o = .ok (modsValue env mono (o.getD [])) := by
  cases o with
  | none => rfl
  | some l => exact sumMods_ok env mono l h


theorem all_flatMap {α β} (f : α → List β) (p : β → Bool) (l : List α) (h : (l.flatMap f).all p = true) :
    ∀ x ∈ l, (f x).all p = true := by
  intro x hx
  rw [List.all_eq_true] at h ⊢
  intro y hy
  exact h y (List.mem_flatMap.mpr ⟨x, hx, hy⟩)

theorem intervalsMass_ok (env : Env) (mono : Bool) (ivs : Option (List Interval))
    (h : ((ivs.getD []).flatMap (fun iv => iv.mods.getD [])).all (modResolves env mono) = true) :
    intervalsMass env mono ivs
    = Except.ok (modsValue env mono ((ivs.getD []).flatMap (fun iv => iv.mods.getD []))) := by
  cases ivs with
  | none => rfl
  | some l =>
    simp only [Option.getD_some] at h ⊢
    show sumM _ l = _
    rw [sumM_ok _ (fun iv => modsValue env mono (iv.mods.getD [])) l
      (fun iv hiv => sumOptMods_ok env mono iv.mods (all_flatMap _ _ l h iv hiv))]
    simp only [modsValue]
    rw [sumR_flatMap]

theorem internalMass_ok (env : Env) (mono : Bool) (d : Option (List (Int × List Mod)))
    (h : ((d.getD []).flatMap (·.2)).all (modResolves env mono) = true) :
    internalMass env mono d = Except.ok (modsValue env mono ((d.getD []).flatMap (·.2))) := by
  cases d with
  | none => rfl
  | some l =>
    simp only [Option.getD_some] at h ⊢
    show sumM _ l = _
    rw [sumM_ok _ (fun p => modsValue env mono p.2) l
      (fun p hp => sumMods_ok env mono p.2 (all_flatMap _ _ l h p hp))]
    simp only [modsValue]
    rw [sumR_flatMap]

theorem labileMass_ok (env : Env) (mono : Bool) (a : Annotation) (ion : Key)
    (h : (if ion = ionP then a.labile.getD [] else []).all (modResolves env mono) = true) :
    labileMass env mono a ion = Except.ok (modsValue env mono (if ion = ionP then a.labile.getD [] else [])) := by
  unfold labileMass
  by_cases hp : ion = ionP
  · simp only [hp, if_true] at h ⊢; exact sumOptMods_ok env mono _ h
  · simp only [hp, if_false]; rfl

theorem placedModsMass_ok (env : Env) (mono : Bool) (a : Annotation) (ion : Key)
    (h : (placedMods a ion).all (modResolves env mono) = true) :
    placedModsMass env mono a ion = .ok (modsValue env mono (placedMods a ion)) := by
  unfold placedMods at h ⊢
  simp only [List.all_append, Bool.and_eq_true] at h
  obtain ⟨⟨⟨⟨⟨h1, h2⟩, h3⟩, h4⟩, h5⟩, h6⟩ := h
  unfold placedModsMass
  rw [labileMass_ok env mono a ion h1, bind_ok, sumOptMods_ok env mono _ h2, bind_ok, sumOptMods_ok env mono _ h3, bind_ok,
    intervalsMass_ok env mono _ h4, bind_ok, internalMass_ok env mono _ h5, bind_ok,
    sumOptMods_ok env mono _ h6, bind_ok, pure_eq_ok]
  simp only [modsValue_append]


theorem list_lookup_mem {α β} [BEq α] (k : α) (l : List (α × β)) (v : β) (h : l.lookup k = some v) :
    ∃ k', (k', v) ∈ l := by
  induction l with
  | nil => simp [List.lookup] at h
  | cons p l ih =>
    obtain ⟨a, b⟩ := p
    simp only [List.lookup] at h
    split at h
    · injection h with h; exact ⟨a, h ▸ List.mem_cons_self⟩
    · obtain ⟨k', hk⟩ := ih h; exact ⟨k', List.mem_cons_of_mem _ hk⟩

def mapResolves (env : Env) (mono : Bool) (map : List (List Char × List Mod)) : Bool :=
  map.all (fun p => p.2.all (modResolves env mono))

theorem lookupMods_ok (env : Env) (mono : Bool) (map : List (List Char × List Mod)) (key : List Char)
    (h : mapResolves env mono map = true) :
    lookupMods env mono map key
      = .ok (match map.lookup key with | some l => modsValue env mono l | none => 0) := by
  unfold lookupMods
  cases hl : map.lookup key with
  | none => rfl
  | some l =>
    obtain ⟨k', hk⟩ := list_lookup_mem key map l hl
    exact sumMods_ok env mono l (List.all_eq_true.mp h (k', l) hk)

theorem ruleMass_ok (env : Env) (mono : Bool) (seq : List Char) (p : List Char × List Mod)
    (h : p.2.all (modResolves env mono) = true) :
    ruleMass env mono seq p
      = .ok (if p.1 = nTerm || p.1 = cTerm then 0 else modsValue env mono p.2 * ((countSub p.1 seq : Nat) : Rat)) := by
  unfold ruleMass
  by_cases hp : (p.1 = nTerm || p.1 = cTerm) = true
  · simp only [hp, if_true]; rfl
  · simp only [hp]
    rw [sumMods_ok env mono p.2 h, bind_ok, pure_eq_ok]
    rfl

theorem staticMass_ok (env : Env) (mono : Bool) (a : Annotation)
    (h : (match a.static with
      | none => true
      | some st => match env.parseStatic st with
        | .error _ => false
        | .ok map => mapResolves env mono map) = true) :
    staticMass env mono a.seq a.static = .ok (staticValue env mono a) := by
  unfold staticMass staticValue
  cases hs : a.static with
  | none => rfl
  | some st =>
    rw [hs] at h
    simp only at h ⊢
    cases hp : env.parseStatic st with
    | error e => rw [hp] at h; simp at h
    | ok map =>
      rw [hp] at h
      simp only at h ⊢
      rw [bind_ok]
      unfold staticMapMass
      rw [lookupMods_ok env mono map nTerm h, bind_ok, lookupMods_ok env mono map cTerm h, bind_ok,
        sumM_ok _ _ map (fun p hp => ruleMass_ok env mono a.seq p (List.all_eq_true.mp h p hp)), bind_ok, pure_eq_ok]
      rfl


theorem chem_lookup_mem {β} (k : Nat) (l : List (Nat × β)) (v : β) (h : lookup k l = some v) : (k, v) ∈ l := by
  induction l with
  | nil => simp [lookup] at h
  | cons p l ih =>
    obtain ⟨a, b⟩ := p
    simp only [lookup] at h
    split at h
    · rename_i hk; injection h with h; subst hk; subst h; exact List.mem_cons_self
    · exact List.mem_cons_of_mem _ (ih h)

theorem residueMass_ok (mono : Bool) (seq : List Char) (hT : Gen.aaComp = residueFormula)
    (h : seq.all (fun c => (lookup c.toNat residueFormula).isSome) = true) :
    residueMass mono seq = .ok (residueSum lib mono seq) := by
  unfold residueMass residueSum
  apply sumM_ok
  intro c hc
  have hk := List.all_eq_true.mp h c hc
  cases hl : lookup c.toNat residueFormula with
  | none => rw [hl] at hk; simp at hk
  | some f =>
    have ha : aaMass mono c.toNat = (lookup c.toNat residueFormula).map (constMass mono) :=
      congrArg (fun t => (lookup c.toNat t).map (constMass mono)) hT
    have hb : aaMass mono c.toNat = some (constMass mono f) :=
      ha.trans (congrArg (Option.map (constMass mono)) hl)
    show (match aaMass mono c.toNat with
      | none => Except.error Err.unknownAA
      | some m => pure m) = Except.ok (lib.compMass mono ((some f).getD []))
    rw [hb]
    rfl

theorem constMass_eq (mono : Bool) (c : Comp) : constMass mono c = lib.compMass mono c := rfl

/-- one entry of the backbone-offset table against what `adjust_mass` adds for that ion type -/
def adjustEntryOk (mono : Bool) (p : Key × Rat) : Bool :=
  if p.1 = ionP || p.1 = ionN then decide (fragmentAdjMass mono p.1 = some p.2)
  else match fragmentAdjMass mono p.1, fragmentIonAdjMass mono p.1 with
    | some fa, some fi => decide (fa + fi = p.2 + lib.hplus mono)
    | _, _ => false

/-- the table obligation behind `adjust_mass`: for every ion type of the specification table and both modes the
library's neutral adjustment (+ ion adjustment for fragments) is the backbone offset (+ h⁺) -/
def adjustTablesOk : Bool := [true, false].all fun mono => (offsetTable lib mono).all (adjustEntryOk mono)

theorem adjustEntry_of_tables (hT : adjustTablesOk = true) (mono : Bool) (ion : Key) (v : Rat)
    (hv : neutralOffset lib mono ion = some v) : adjustEntryOk mono (ion, v) = true := by
  have hm := chem_lookup_mem ion _ v hv
  unfold adjustTablesOk at hT
  simp only [List.all_cons, List.all_nil, Bool.and_true, Bool.and_eq_true] at hT
  cases mono
  · exact List.all_eq_true.mp hT.2 _ hm
  · exact List.all_eq_true.mp hT.1 _ hm

theorem adjustMass_eq (hT : adjustTablesOk = true) (base : Rat) (charge : Option Int) (ion : Key) (mono : Bool)
    (isotope : Int) (loss : Rat) (precision : Option Int) (v : Rat) (hv : neutralOffset lib mono ion = some v) :
    adjustMass base charge ion mono isotope loss none precision
      = .ok (roundOpt (base + v + Spec.chargeTerm lib mono ion (charge.getD 0) none
              + (isotope : Rat) * lib.neutron + loss) precision) := by
  have he := adjustEntry_of_tables hT mono ion v hv
  unfold adjustEntryOk at he
  unfold adjustMass Mass.chargeTerm Spec.chargeTerm
  by_cases hp : (ion = ionP || ion = ionN) = true
  · simp only [hp, if_true] at he ⊢
    have hf : fragmentAdjMass mono ion = some v := of_decide_eq_true he
    rw [pure_bind', hf]
    show Except.ok (roundOpt _ precision) = Except.ok (roundOpt _ precision)
    congr 2
    show _ = base + v + (charge.getD 0 : Rat) * Gen.protonMass + (isotope : Rat) * Gen.neutronMass + loss
    ring
  · simp only [hp, Bool.false_eq_true, if_false] at he ⊢
    cases hfa : fragmentAdjMass mono ion with
    | none => rw [hfa] at he; simp at he
    | some fa =>
      cases hfi : fragmentIonAdjMass mono ion with
      | none => rw [hfa, hfi] at he; simp at he
      | some fi =>
        rw [hfa, hfi] at he
        have hs : fa + fi = v + lib.hplus mono := of_decide_eq_true he
        rw [pure_bind']
        show Except.ok (roundOpt _ precision) = Except.ok (roundOpt _ precision)
        congr 2
        show _ = base + v + (lib.hplus mono + ((charge.getD 0 : Int) - 1 : Rat) * Gen.protonMass)
          + (isotope : Rat) * Gen.neutronMass + loss
        linarith


/-- the proof of C02's `mass_eq_spec_partial`, with the two table obligations as hypotheses -/
theorem mass_eq_spec_of_tables (hR : Gen.aaComp = residueFormula) (hA : adjustTablesOk = true)
    (env : Env) (a : Annotation) (o : Opts)
    (hlab : o.isotopeMods = none) (hlab' : a.isotope = none)
    (hadd : o.adducts = none) (hadd' : a.adducts = none)
    (hdom : inDomain env a o.ion o.mono none = true) :
    mass env a o = .ok (roundOpt (specMassT lib env a o.ion
      ((effCharge a o).getD 0) o.mono o.isotope o.loss none) o.precision) := by
  unfold inDomain at hdom
  simp only [Bool.and_eq_true] at hdom
  obtain ⟨⟨⟨⟨hres, hoff⟩, hmods⟩, hstat⟩, _⟩ := hdom
  have hB : a.seq.contains 'B' = false := by
    cases hc : a.seq.contains 'B' with
    | false => rfl
    | true =>
      have hm : 'B' ∈ a.seq := List.contains_iff_mem.mp hc
      have := List.all_eq_true.mp hres 'B' hm
      revert this; decide
  have hZ : a.seq.contains 'Z' = false := by
    cases hc : a.seq.contains 'Z' with
    | false => rfl
    | true =>
      have hm : 'Z' ∈ a.seq := List.contains_iff_mem.mp hc
      have := List.all_eq_true.mp hres 'Z' hm
      revert this; decide
  obtain ⟨v, hv⟩ := Option.isSome_iff_exists.mp hoff
  unfold mass massWith resolveArgs effLabels
  rw [hlab, hlab', hadd, hadd']
  simp only [pure_bind', hB, hZ, Bool.false_eq_true, if_false]
  unfold fastMass
  rw [staticMass_ok env o.mono a hstat, bind_ok, residueMass_ok o.mono a.seq hR hres, bind_ok,
    placedModsMass_ok env o.mono a o.ion hmods, bind_ok, adjustMass_eq hA _ _ _ _ _ _ _ v hv]
  unfold specMassT
  rw [hv]
  simp only [Option.getD_some]
  apply congrArg Except.ok
  apply congrArg (fun q => roundOpt q o.precision)
  ring



/-! ### ion masses in normal form (C05) -/

/-- a plain ion-mass query: ion type, charge, mode, isotope offset, loss; no adducts, no labels, no rounding -/
def ionQuery (t : Key) (z : Int) (mono : Bool) (iso : Int) (loss : Rat) : Opts :=
  { ion := t, charge := some z, mono := mono, isotope := iso, loss := loss }

theorem placedMods_fragment (a : Annotation) (t : Key) (ht : t ≠ ionP) :
    placedMods a t = a.unknown.getD [] ++ a.nterm.getD [] ++
      (a.intervals.getD []).flatMap (fun iv => iv.mods.getD []) ++ (a.internal.getD []).flatMap (·.2) ++ a.cterm.getD [] := by
  unfold placedMods
  simp [ht]

/-- the part of an ion mass that does not depend on the ion type or the charge -/
def ionBase (env : Env) (a : Annotation) (mono : Bool) : Rat :=
  residueSum lib mono a.seq + (staticValue env mono a + modsValue env mono (placedMods a 98))

/-- the domain for fragment ion types, stated once (on the `b` type) -/
def fragDomain (env : Env) (a : Annotation) (mono : Bool) : Prop :=
  a.isotope = none ∧ a.adducts = none ∧ inDomain env a 98 mono none = true

theorem fragMass (hR : Gen.aaComp = residueFormula) (hA : adjustTablesOk = true)
    (env : Env) (a : Annotation) (mono : Bool) (hd : fragDomain env a mono)
    (t : Key) (htp : t ≠ ionP) (htn : t ≠ ionN) (v : Rat) (hv : neutralOffset lib mono t = some v)
    (z iso : Int) (loss : Rat) :
    mass env a (ionQuery t z mono iso loss)
      = .ok (ionBase env a mono + v + (lib.hplus mono + ((z : Rat) - 1) * lib.proton) + (iso : Rat) * lib.neutron + loss) := by
  obtain ⟨hl, had, hdom⟩ := hd
  have hpl : placedMods a t = placedMods a 98 := by
    rw [placedMods_fragment a t htp, placedMods_fragment a 98 (by decide)]
  have hdom' : inDomain env a t mono none = true := by
    unfold inDomain at hdom ⊢
    rw [hpl, hv]
    simp only [Bool.and_eq_true] at hdom ⊢
    obtain ⟨⟨⟨⟨h1, _⟩, h3⟩, h4⟩, h5⟩ := hdom
    exact ⟨⟨⟨⟨h1, rfl⟩, h3⟩, h4⟩, h5⟩
  have := mass_eq_spec_of_tables hR hA env a (ionQuery t z mono iso loss) rfl hl rfl had hdom'
  rw [this]
  apply congrArg Except.ok
  show specMassT lib env a t z mono iso loss none = _
  unfold specMassT ionBase Spec.chargeTerm
  rw [hv, hpl]
  simp only [Option.getD_some]
  have h1 : (t = ionP || t = ionN) = false := by simp [htp, htn]
  simp only [h1, Bool.false_eq_true, if_false]
  ring

theorem precursorMass (hR : Gen.aaComp = residueFormula) (hA : adjustTablesOk = true)
    (env : Env) (a : Annotation) (mono : Bool) (hl : a.isotope = none) (had : a.adducts = none)
    (hdom : inDomain env a ionP mono none = true) (z iso : Int) (loss : Rat) :
    mass env a (ionQuery ionP z mono iso loss)
      = .ok (residueSum lib mono a.seq + lib.compMass mono fH2O
              + (staticValue env mono a + modsValue env mono (placedMods a ionP))
              + (z : Rat) * lib.proton + (iso : Rat) * lib.neutron + loss) := by
  have := mass_eq_spec_of_tables hR hA env a (ionQuery ionP z mono iso loss) rfl hl rfl had hdom
  rw [this]
  apply congrArg Except.ok
  show specMassT lib env a ionP z mono iso loss none = _
  unfold specMassT Spec.chargeTerm
  have hv : neutralOffset lib mono ionP = some (lib.compMass mono fH2O) := rfl
  rw [hv]
  simp only [Option.getD_some]
  simp

set_option maxRecDepth 8000 in
theorem offsets (mono : Bool) :
    neutralOffset lib mono (k "a") = some (-(lib.compMass mono fCO)) ∧
    neutralOffset lib mono (k "b") = some 0 ∧
    neutralOffset lib mono (k "c") = some (lib.compMass mono fNH3) ∧
    neutralOffset lib mono (k "x") = some (lib.compMass mono fCO - lib.compMass mono fH2 + lib.compMass mono fH2O) ∧
    neutralOffset lib mono (k "y") = some (0 + lib.compMass mono fH2O) ∧
    neutralOffset lib mono (k "z") = some (-(lib.compMass mono fNH3) + lib.compMass mono fH2O) ∧
    neutralOffset lib mono (k "i") = some (-(lib.compMass mono fCO)) :=
  ⟨rfl, rfl, rfl, rfl, rfl, rfl, rfl⟩

set_option maxRecDepth 8000 in
theorem offset_internal (mono : Bool) (f b : Key) (hf : f ∈ [k "a", k "b", k "c"]) (hb : b ∈ [k "x", k "y", k "z"]) :
    neutralOffset lib mono (f * 256 + b)
      = some ((seriesOffset lib mono f).getD 0 + (seriesOffset lib mono b).getD 0) := by
  simp only [List.mem_cons, List.mem_nil_iff, or_false] at hf hb
  rcases hf with rfl | rfl | rfl <;> rcases hb with rfl | rfl | rfl <;> rfl


/-! ### adduct lists (C02) -/

/-- every symbol of `AVERAGE_ATOMIC_MASSES` is an element symbol of `ISOTOPIC_ATOMIC_MASSES`, not an isotope key -/
def avgKeysOk : Bool := averageMasses.all (fun p => (lookup p.1 isotopicMasses).isSome && !isIsotopeKey p.1)

theorem elem_of_table (hK : avgKeysOk = true) (mono : Bool) (sym : Key) (m : Rat)
    (h : lookup sym (if mono then isotopicMasses else averageMasses) = some m) :
    lib.elem mono sym = m := by
  show (elemMass mono sym).getD 0 = m
  unfold elemMass
  cases mono with
  | true =>
    simp only [if_true] at h
    rw [h]; rfl
  | false =>
    simp only [Bool.false_eq_true, if_false] at h
    have hm := chem_lookup_mem sym _ m h
    have hk := List.all_eq_true.mp hK (sym, m) hm
    simp only [Bool.and_eq_true, Bool.not_eq_true'] at hk
    obtain ⟨hi, hn⟩ := hk
    obtain ⟨m', hm'⟩ := Option.isSome_iff_exists.mp hi
    rw [hm']
    simp only [Bool.false_eq_true, if_false, hn, h]
    rfl

theorem adductElemMass_of_table (mono : Bool) (sym : Key) (m : Rat)
    (h : lookup sym (if mono then isotopicMasses else averageMasses) = some m) : adductElemMass mono sym = some m := by
  unfold adductElemMass
  cases mono with
  | true => simpa using h
  | false =>
    simp only [Bool.false_eq_true, if_false] at h ⊢
    rw [h]

/-- what the current code adds beyond count·(m − q·mₑ) for one stated ion: q·mₑ·(count − 1) -/
def adductDefectIon (x : List Nat) : Rat :=
  match parseIonElements x with
  | .ok (cnt, sym, q) => if sym = kE then 0 else (q : Rat) * Gen.electronMass * ((cnt : Rat) - 1)
  | .error _ => 0

/-- … and for a whole list; the literal `+H+` is answered with `PROTON_MASS` instead of m(H) − mₑ -/
def adductDefect (mono : Bool) (s : List Nat) : Rat :=
  if s = [43, 72, 43] then Gen.protonMass - lib.hplus mono else sumR ((splitComma s).map adductDefectIon)

theorem adductMass_eq (hK : avgKeysOk = true) (mono : Bool) (x : List Nat) (h : adductIonOk mono x = true) :
    adductMass mono x = .ok (adductIonTerm lib mono x + adductDefectIon x) := by
  unfold adductIonOk at h
  unfold adductMass adductIonTerm adductDefectIon
  cases hp : parseIonElements x with
  | error e => rw [hp] at h; simp at h
  | ok r =>
    obtain ⟨cnt, sym, q⟩ := r
    rw [hp] at h
    rw [bind_ok]
    simp only at h ⊢
    by_cases he : sym = kE
    · simp only [he, if_true]
      show Except.ok _ = Except.ok _
      congr 1
      show _ = (cnt : Rat) * Gen.electronMass + 0
      ring
    · simp only [he, if_false, decide_false, Bool.false_or] at h ⊢
      obtain ⟨m, hm⟩ := Option.isSome_iff_exists.mp h
      rw [adductElemMass_of_table mono sym m hm]
      have hel := elem_of_table hK mono sym m hm
      show Except.ok _ = Except.ok _
      congr 1
      rw [hel]
      show _ = (cnt : Rat) * (m - (q : Rat) * Gen.electronMass) + (q : Rat) * Gen.electronMass * ((cnt : Rat) - 1)
      ring

theorem chargeAdductsMassStr_eq (hK : avgKeysOk = true) (mono : Bool) (s : List Nat)
    (h : (splitComma s).all (adductIonOk mono) = true) :
    chargeAdductsMassStr mono s = .ok (adductTerm lib mono s + adductDefect mono s) := by
  unfold chargeAdductsMassStr adductDefect
  by_cases hs : s = [43, 72, 43]
  · subst hs
    simp only [if_true]
    show Except.ok _ = Except.ok _
    congr 1
    have : adductTerm lib mono [43, 72, 43] = lib.hplus mono := by
      show sumR [adductIonTerm lib mono [43, 72, 43]] = _
      have hp : parseIonElements [43, 72, 43] = .ok (1, kH, 1) := by decide +kernel
      unfold adductIonTerm
      rw [hp]
      have : (kH = kE) = False := by decide
      simp only [this, if_false, sumR_cons, sumR_nil]
      unfold MassTable.hplus
      push_cast
      show (1 : Rat) * (lib.elem mono kH - 1 * Gen.electronMass) + 0 = lib.elem mono kH - Gen.electronMass
      ring
    rw [this]; ring
  · simp only [hs, if_false]
    rw [sumM_ok (adductMass mono) (fun x => adductIonTerm lib mono x + adductDefectIon x) _
      (fun x hx => adductMass_eq hK mono x (List.all_eq_true.mp h x hx))]
    show Except.ok _ = Except.ok _
    congr 1
    unfold adductTerm
    generalize splitComma s = l
    induction l with
    | nil => simp [sumR_nil]
    | cons x l ih => simp only [List.map_cons, sumR_cons, ih]; ring


theorem adjustMass_adducts_eq (hA : adjustTablesOk = true) (hK : avgKeysOk = true) (base : Rat) (charge : Option Int)
    (ion : Key) (mono : Bool) (isotope : Int) (loss : Rat) (precision : Option Int) (v : Rat)
    (hv : neutralOffset lib mono ion = some v) (hp : (ion = ionP || ion = ionN) = true) (s : List Char)
    (h : (splitComma (s.map Char.toNat)).all (adductIonOk mono) = true) :
    adjustMass base charge ion mono isotope loss (some (.str s)) precision
      = .ok (roundOpt (base + v + (adductTerm lib mono (s.map Char.toNat) + adductDefect mono (s.map Char.toNat))
              + (isotope : Rat) * lib.neutron + loss) precision) := by
  have he := adjustEntry_of_tables hA mono ion v hv
  unfold adjustEntryOk at he
  simp only [hp, if_true] at he
  have hf : fragmentAdjMass mono ion = some v := of_decide_eq_true he
  unfold adjustMass Mass.chargeTerm chargeAdductsMass
  dsimp only
  rw [chargeAdductsMassStr_eq hK mono _ h, bind_ok, hf]
  show Except.ok (roundOpt _ precision) = Except.ok (roundOpt _ precision)
  congr 2
  show _ = base + v + (adductTerm lib mono (s.map Char.toNat) + adductDefect mono (s.map Char.toNat))
    + (isotope : Rat) * Gen.neutronMass + loss
  ring

/-- **mass with an explicit adduct list** (on the peptide, ion type `p` / `n`): the specification sum plus exactly the
defect of the adduct arithmetic, `Σ q·mₑ·(count − 1)` over the stated non-electron ions (`PROTON_MASS − h⁺` for the
literal `+H+`) -/
theorem mass_eq_spec_adducts_of_tables (hR : Gen.aaComp = residueFormula) (hA : adjustTablesOk = true)
    (hK : avgKeysOk = true) (env : Env) (a : Annotation) (o : Opts) (s : List Char)
    (hr : resolveArgs a o = .ok ⟨effCharge a o, some (.str s), none⟩)
    (hdom : inDomain env a o.ion o.mono (some (s.map Char.toNat)) = true) :
    mass env a o = .ok (roundOpt (specMassT lib env a o.ion ((effCharge a o).getD 0) o.mono o.isotope o.loss
        (some (s.map Char.toNat)) + adductDefect o.mono (s.map Char.toNat)) o.precision) := by
  unfold inDomain at hdom
  simp only [Bool.and_eq_true] at hdom
  obtain ⟨⟨⟨⟨hres, hoff⟩, hmods⟩, hstat⟩, hpn, hions⟩ := hdom
  have hB : a.seq.contains 'B' = false := by
    cases hc : a.seq.contains 'B' with
    | false => rfl
    | true =>
      have := List.all_eq_true.mp hres 'B' (List.contains_iff_mem.mp hc)
      revert this; decide
  have hZ : a.seq.contains 'Z' = false := by
    cases hc : a.seq.contains 'Z' with
    | false => rfl
    | true =>
      have := List.all_eq_true.mp hres 'Z' (List.contains_iff_mem.mp hc)
      revert this; decide
  obtain ⟨v, hv⟩ := Option.isSome_iff_exists.mp hoff
  unfold mass massWith
  rw [hr, bind_ok]
  simp only [hB, hZ, Bool.false_eq_true, if_false]
  unfold fastMass
  rw [staticMass_ok env o.mono a hstat, bind_ok, residueMass_ok o.mono a.seq hR hres, bind_ok,
    placedModsMass_ok env o.mono a o.ion hmods, bind_ok]
  dsimp only
  rw [adjustMass_adducts_eq hA hK _ _ _ _ _ _ _ v hv hpn s hions]
  unfold specMassT Spec.chargeTerm
  rw [hv]
  simp only [Option.getD_some]
  apply congrArg Except.ok
  apply congrArg (fun q => roundOpt q o.precision)
  ring


/-! ### closeness of two mass tables carries over to compositions (C02: library tables vs hand-typed reference) -/

def absQ (q : Rat) : Rat := if q < 0 then -q else q

/-- Σ |count| -/
def l1 (c : Comp) : Rat := sumR (c.map fun p => absQ p.2)

theorem absQ_nonneg (q : Rat) : 0 ≤ absQ q := by
  unfold absQ; split_ifs with h <;> linarith

theorem term_close (d k ε : Rat) (h1 : -ε ≤ d) (h2 : d ≤ ε) : d * k ≤ ε * absQ k ∧ -(ε * absQ k) ≤ d * k := by
  unfold absQ
  split_ifs with hk
  · constructor <;> nlinarith
  · have hk' : 0 ≤ k := not_lt.mp hk
    constructor <;> nlinarith

theorem chemMassL_close (ν₁ ν₂ : Elem → Rat) (ε : Rat) (keys : List Elem)
    (hk : ∀ e ∈ keys, -ε ≤ ν₁ e - ν₂ e ∧ ν₁ e - ν₂ e ≤ ε) (c : Comp) (hc : ∀ p ∈ c, p.1 ∈ keys) :
    chemMassL ν₁ c - chemMassL ν₂ c ≤ ε * l1 c ∧ -(ε * l1 c) ≤ chemMassL ν₁ c - chemMassL ν₂ c := by
  induction c with
  | nil => simp [chemMassL_nil, l1, sumR_nil]
  | cons p c ih =>
    obtain ⟨i1, i2⟩ := ih (fun q hq => hc q (List.mem_cons_of_mem _ hq))
    obtain ⟨b1, b2⟩ := hk p.1 (hc p List.mem_cons_self)
    obtain ⟨t1, t2⟩ := term_close (ν₁ p.1 - ν₂ p.1) p.2 ε b1 b2
    have hl : l1 (p :: c) = absQ p.2 + l1 c := rfl
    rw [chemMassL_cons, chemMassL_cons, hl]
    constructor <;> nlinarith


/-! ### precision is applied last -/

theorem fastMass_precision_last (env : Env) (a : Annotation) (o : Opts) (r : Resolved) :
    fastMass env a o r = (fastMass env a { o with precision := none } r).map (fun x => roundOpt x o.precision) := by
  unfold fastMass
  cases staticMass env o.mono a.seq a.static with
  | error e => rfl
  | ok st =>
    cases residueMass o.mono a.seq with
    | error e => rfl
    | ok rs =>
      cases placedModsMass env o.mono a o.ion with
      | error e => rfl
      | ok pm =>
        simp only [bind_ok]
        unfold adjustMass
        dsimp only
        cases Mass.chargeTerm (r.charge.getD 0) o.ion o.mono r.adducts with
        | error e => rfl
        | ok ct =>
          cases fragmentAdjMass o.mono o.ion with
          | none => rfl
          | some fa => rfl

end Mass
end Pept
