import PeptVerif.Model.AnnotEq
/-! Helper lemmas for C20: multiset equality modulo an equivalence (`msEq`), `Mod`/`Interval` equality, annotation equality. Core Lean only. -/
namespace Pept

/-- a Boolean equivalence relation -/
structure BEquiv {α : Type} (r : α → α → Bool) : Prop where
  refl : ∀ x, r x x = true
  symm : ∀ x y, r x y = true → r y x = true
  trans : ∀ x y z, r x y = true → r y z = true → r x z = true

namespace BEquiv
variable {α : Type} {r : α → α → Bool}

theorem symm_eq (h : BEquiv r) (x y : α) : r x y = r y x := by
  cases hxy : r x y with
  | true => exact (h.symm x y hxy).symm
  | false =>
    cases hyx : r y x with
    | true => rw [h.symm y x hyx] at hxy; cases hxy
    | false => rfl

/-- equivalent elements have the same class -/
theorem congr_left (h : BEquiv r) (x y : α) (hxy : r x y = true) (z : α) : r x z = r y z := by
  cases hyz : r y z with
  | true => exact h.trans x y z hxy hyz
  | false =>
    cases hxz : r x z with
    | true => rw [h.trans y x z (h.symm x y hxy) hxz] at hyz; cases hyz
    | false => rfl

theorem countP_congr (h : BEquiv r) (x y : α) (hxy : r x y = true) (l : List α) :
    l.countP (r x) = l.countP (r y) := by
  have : r x = r y := funext (h.congr_left x y hxy)
  rw [this]

end BEquiv

theorem msEq_iff {α : Type} (r : α → α → Bool) (a b : List α) :
    msEq r a b = true ↔ ∀ e, e ∈ a ∨ e ∈ b → a.countP (r e) = b.countP (r e) := by
  simp only [msEq, List.all_eq_true, List.mem_append, beq_iff_eq]

theorem msEq_refl {α : Type} (r : α → α → Bool) (a : List α) : msEq r a a = true := by
  simp [msEq_iff]

theorem msEq_symm {α : Type} (r : α → α → Bool) (a b : List α) : msEq r a b = msEq r b a := by
  have key : ∀ a b : List α, msEq r a b = true → msEq r b a = true := by
    intro a b h
    rw [msEq_iff] at h ⊢
    intro e he
    exact (h e (Or.symm he)).symm
  cases hab : msEq r a b with
  | true => exact (key a b hab).symm
  | false =>
    cases hba : msEq r b a with
    | true => rw [key b a hba] at hab; cases hab
    | false => rfl

theorem exists_mem_of_countP_pos {α : Type} (p : α → Bool) (l : List α) (h : 0 < l.countP p) : ∃ x ∈ l, p x = true := by
  have := List.countP_pos_iff.1 h
  exact this

theorem msEq_trans {α : Type} {r : α → α → Bool} (hr : BEquiv r) (a b c : List α)
    (hab : msEq r a b = true) (hbc : msEq r b c = true) : msEq r a c = true := by
  rw [msEq_iff] at hab hbc ⊢
  intro e he
  rcases he with he | he
  · -- e ∈ a: its class is non-empty in a, hence in b
    have h1 := hab e (Or.inl he)
    have hpos : 0 < a.countP (r e) := List.countP_pos_iff.2 ⟨e, he, hr.refl e⟩
    rw [h1] at hpos
    obtain ⟨j, hj, hej⟩ := List.countP_pos_iff.1 hpos
    have h2 := hbc j (Or.inl hj)
    rw [h1, hr.countP_congr e j hej b, h2, hr.countP_congr e j hej c]
  · have h1 := hbc e (Or.inr he)
    have hpos : 0 < c.countP (r e) := List.countP_pos_iff.2 ⟨e, he, hr.refl e⟩
    rw [← h1] at hpos
    obtain ⟨j, hj, hej⟩ := List.countP_pos_iff.1 hpos
    have h2 := hab j (Or.inr hj)
    rw [← h1, hr.countP_congr e j hej b, ← h2, hr.countP_congr e j hej a]

/-- the order of the elements does not matter -/
theorem msEq_of_perm {α : Type} (r : α → α → Bool) (a b : List α) (h : a.Perm b) : msEq r a b = true := by
  rw [msEq_iff]
  intro e _
  exact h.countP_eq _

theorem msEq_perm_right {α : Type} (r : α → α → Bool) (a b b' : List α) (h : b.Perm b') : msEq r a b = msEq r a b' := by
  have key : ∀ b b' : List α, b.Perm b' → msEq r a b = true → msEq r a b' = true := by
    intro b b' h hab
    rw [msEq_iff] at hab ⊢
    intro e he
    rw [← h.countP_eq]
    exact hab e (he.imp id (fun x => h.mem_iff.2 x))
  cases hab : msEq r a b with
  | true => exact (key b b' h hab).symm
  | false =>
    cases hab' : msEq r a b' with
    | true => rw [key b' b h.symm hab'] at hab; cases hab
    | false => rfl

theorem msEq_false_of_count {α : Type} (r : α → α → Bool) (a b : List α) (e : α) (he : e ∈ a ∨ e ∈ b)
    (h : a.countP (r e) ≠ b.countP (r e)) : msEq r a b = false := by
  cases hm : msEq r a b with
  | false => rfl
  | true => exact absurd ((msEq_iff r a b).1 hm e he) h

theorem countP_eraseIdx_add {α : Type} (p : α → Bool) (l : List α) (i : Nat) (h : i < l.length) :
    (l.eraseIdx i).countP p + (if p l[i] then 1 else 0) = l.countP p := by
  induction l generalizing i with
  | nil => simp at h
  | cons x xs ih =>
    cases i with
    | zero => simp [List.countP_cons]
    | succ i =>
      have hi : i < xs.length := by simpa using h
      simp only [List.eraseIdx_cons_succ, List.countP_cons, List.getElem_cons_succ]
      have := ih i hi
      omega

theorem countP_set {α : Type} (p : α → Bool) (l : List α) (i : Nat) (x : α) (h : i < l.length) :
    (l.set i x).countP p + (if p l[i] then 1 else 0) = l.countP p + (if p x then 1 else 0) := by
  induction l generalizing i with
  | nil => simp at h
  | cons y ys ih =>
    cases i with
    | zero => simp [List.countP_cons]; omega
    | succ i =>
      have hi : i < ys.length := by simpa using h
      simp only [List.set_cons_succ, List.countP_cons, List.getElem_cons_succ]
      have := ih i hi
      omega

/-- dropping one element is seen -/
theorem msEq_eraseIdx {α : Type} {r : α → α → Bool} (hr : BEquiv r) (a : List α) (i : Nat) (h : i < a.length) :
    msEq r a (a.eraseIdx i) = false := by
  apply msEq_false_of_count r a _ a[i] (Or.inl (List.getElem_mem h))
  have := countP_eraseIdx_add (r a[i]) a i h
  simp only [hr.refl, if_true] at this
  omega

/-- replacing one element by a non-equivalent one is seen -/
theorem msEq_set {α : Type} {r : α → α → Bool} (hr : BEquiv r) (a : List α) (i : Nat) (x : α) (h : i < a.length)
    (hne : r a[i] x = false) : msEq r a (a.set i x) = false := by
  apply msEq_false_of_count r a _ a[i] (Or.inl (List.getElem_mem h))
  have := countP_set (r a[i]) a i x h
  simp only [hr.refl, if_true, hne] at this
  simp at this
  omega

/-- one more copy of an element is seen, wherever it is inserted -/
theorem msEq_insertIdx {α : Type} {r : α → α → Bool} (hr : BEquiv r) (a : List α) (j : Nat) (x : α) (hj : j ≤ a.length) :
    msEq r a (a.insertIdx j x) = false := by
  rw [msEq_perm_right r a _ (x :: a) (List.perm_insertIdx x a hj)]
  apply msEq_false_of_count r a _ x (Or.inr (by simp))
  simp [hr.refl]

/-! ### Mod and Interval equality -/


theorem modEq_iff (a b : Mod) : modEq a b = true ↔ modKey a = modKey b := by
  unfold modEq valEq modKey
  by_cases h1 : valKey a.val = valKey b.val <;> by_cases h2 : a.mult = b.mult <;> simp [h1, h2]

theorem modEq_bequiv : BEquiv modEq where
  refl x := (modEq_iff x x).2 rfl
  symm x y h := (modEq_iff y x).2 ((modEq_iff x y).1 h).symm
  trans x y z h1 h2 := (modEq_iff x z).2 (((modEq_iff x y).1 h1).trans ((modEq_iff y z).1 h2))

theorem countP_modEq (m : Mod) (l : List Mod) : l.countP (modEq m) = (l.map modKey).count (modKey m) := by
  induction l with
  | nil => simp
  | cons x xs ih =>
    simp only [List.countP_cons, List.map_cons, List.count_cons, ih]
    congr 1
    by_cases h : modKey m = modKey x
    · simp [(modEq_iff m x).2 h, h]
    · have : modEq m x = false := by
        cases hm : modEq m x with
        | false => rfl
        | true => exact absurd ((modEq_iff m x).1 hm) h
      have h' : ¬ (modKey x = modKey m) := fun e => h e.symm
      simp [this, h']

/-- `Counter` equality of two mod lists = equality of the multisets of (value, multiplier) keys -/
theorem counterEq_iff_perm (a b : List Mod) : counterEq a b = true ↔ (a.map modKey).Perm (b.map modKey) := by
  rw [counterEq, msEq_iff, List.perm_iff_count]
  constructor
  · intro h k
    by_cases hk : k ∈ a.map modKey ∨ k ∈ b.map modKey
    · have : ∃ m, (m ∈ a ∨ m ∈ b) ∧ modKey m = k := by
        rcases hk with hk | hk
        · obtain ⟨m, hm, rfl⟩ := List.mem_map.1 hk; exact ⟨m, Or.inl hm, rfl⟩
        · obtain ⟨m, hm, rfl⟩ := List.mem_map.1 hk; exact ⟨m, Or.inr hm, rfl⟩
      obtain ⟨m, hm, rfl⟩ := this
      have := h m hm
      rwa [countP_modEq, countP_modEq] at this
    · have h1 : k ∉ a.map modKey := fun x => hk (Or.inl x)
      have h2 : k ∉ b.map modKey := fun x => hk (Or.inr x)
      rw [List.count_eq_zero_of_not_mem h1, List.count_eq_zero_of_not_mem h2]
  · intro h m _
    rw [countP_modEq, countP_modEq]
    exact h (modKey m)

/-- `are_mods_equal` as a relation -/
theorem areModsEqual_bequiv : BEquiv areModsEqual where
  refl x := by cases x <;> simp [areModsEqual, counterEq, msEq_refl]
  symm x y h := by
    cases x <;> cases y <;> simp_all [areModsEqual, counterEq]
    rwa [msEq_symm]
  trans x y z h1 h2 := by
    cases x <;> cases y <;> cases z <;> simp_all [areModsEqual, counterEq]
    exact msEq_trans modEq_bequiv _ _ _ h1 h2

theorem ivEq_iff (a b : Interval) :
    ivEq a b = true ↔ a.start = b.start ∧ a.stop = b.stop ∧ a.ambiguous = b.ambiguous ∧ areModsEqual a.mods b.mods = true := by
  unfold ivEq
  by_cases h1 : a.start = b.start <;> by_cases h2 : a.stop = b.stop <;> by_cases h3 : a.ambiguous = b.ambiguous <;>
    cases h4 : areModsEqual a.mods b.mods <;> simp [h1, h2, h3]

theorem ivEq_bequiv : BEquiv ivEq where
  refl x := (ivEq_iff x x).2 ⟨rfl, rfl, rfl, areModsEqual_bequiv.refl _⟩
  symm x y h := by
    obtain ⟨h1, h2, h3, h4⟩ := (ivEq_iff x y).1 h
    exact (ivEq_iff y x).2 ⟨h1.symm, h2.symm, h3.symm, areModsEqual_bequiv.symm _ _ h4⟩
  trans x y z h h' := by
    obtain ⟨h1, h2, h3, h4⟩ := (ivEq_iff x y).1 h
    obtain ⟨g1, g2, g3, g4⟩ := (ivEq_iff y z).1 h'
    exact (ivEq_iff x z).2 ⟨h1.trans g1, h2.trans g2, h3.trans g3, areModsEqual_bequiv.trans _ _ _ h4 g4⟩

theorem areIntervalsEqual_some (a b : List Interval) :
    areIntervalsEqual (some a) (some b) = true ↔ a.length = b.length ∧ msEq ivEq a b = true := by
  simp [areIntervalsEqual]

theorem areIntervalsEqual_bequiv : BEquiv areIntervalsEqual where
  refl x := by cases x <;> simp [areIntervalsEqual, msEq_refl]
  symm x y h := by
    cases x <;> cases y
    · rfl
    · cases h
    · cases h
    · rw [areIntervalsEqual_some] at h ⊢
      rw [msEq_symm]; exact ⟨h.1.symm, h.2⟩
  trans x y z h1 h2 := by
    match x, y, z, h1, h2 with
    | none, none, none, _, _ => rfl
    | some a, some b, some c, h1, h2 =>
      rw [areIntervalsEqual_some] at h1 h2 ⊢
      exact ⟨h1.1.trans h2.1, msEq_trans ivEq_bequiv _ _ _ h1.2 h2.2⟩

/-! ### annotation equality -/


theorem annEq_eq_and (a b : Annotation) :
    annEq a b = (decide (a.seq = b.seq) && areModsEqual a.labile b.labile && areModsEqual a.unknown b.unknown &&
      areModsEqual a.nterm b.nterm && areModsEqual a.cterm b.cterm && areModsEqual a.adducts b.adducts &&
      areModsEqual a.isotope b.isotope && areModsEqual a.static b.static && internalOk a b &&
      areIntervalsEqual a.intervals b.intervals && decide (a.charge = b.charge)) := by
  unfold annEq
  repeat' split
  all_goals simp_all



theorem lookup_none_of_not_mem {β : Type} (d : List (Int × β)) (k : Int) (h : k ∉ d.map (·.1)) : d.lookup k = none := by
  induction d with
  | nil => rfl
  | cons p ps ih =>
    simp only [List.map_cons, List.mem_cons, not_or] at h
    have : (k == p.1) = false := by simpa using h.1
    obtain ⟨pk, pv⟩ := p
    simp only [List.lookup_cons, this]
    exact ih h.2

theorem getInternal_none_of_not_mem (a : Annotation) (k : Int) (h : k ∉ internalKeys a) : getInternal a k = none := by
  unfold getInternal
  unfold internalKeys at h
  cases hi : a.internal with
  | none => rfl
  | some d =>
    rw [hi] at h
    exact lookup_none_of_not_mem d k h

theorem internalKeys_nil_of_none (a : Annotation) (h : a.internal = none) : internalKeys a = [] := by
  simp [internalKeys, h]

theorem internalOk_iff (a b : Annotation) :
    internalOk a b = true ↔ ∀ k, areModsEqual (getInternal a k) (getInternal b k) = true := by
  unfold internalOk
  constructor
  · intro h k
    by_cases hk : k ∈ internalKeys a ++ internalKeys b
    · split at h
      · exact (List.all_eq_true.1 h) k hk
      · rename_i hn
        simp only [Bool.or_eq_true, not_or, Option.isSome_iff_ne_none, ne_eq, Classical.not_not] at hn
        rw [internalKeys_nil_of_none a hn.1, internalKeys_nil_of_none b hn.2] at hk
        simp at hk
    · rw [List.mem_append, not_or] at hk
      rw [getInternal_none_of_not_mem a k hk.1, getInternal_none_of_not_mem b k hk.2]
      rfl
  · intro h
    split
    · exact List.all_eq_true.2 fun k _ => h k
    · rfl

/-- annotation equality, declaratively: equal residues and charge, and every position (labile, unknown, both
termini, adducts, isotope and static rules, every residue index, the interval list) carries equal multisets -/
structure AnnEquiv (a b : Annotation) : Prop where
  seq : a.seq = b.seq
  labile : areModsEqual a.labile b.labile = true
  unknown : areModsEqual a.unknown b.unknown = true
  nterm : areModsEqual a.nterm b.nterm = true
  cterm : areModsEqual a.cterm b.cterm = true
  adducts : areModsEqual a.adducts b.adducts = true
  isotope : areModsEqual a.isotope b.isotope = true
  static : areModsEqual a.static b.static = true
  internal : ∀ k, areModsEqual (getInternal a k) (getInternal b k) = true
  intervals : areIntervalsEqual a.intervals b.intervals = true
  charge : a.charge = b.charge

theorem annEq_iff (a b : Annotation) : annEq a b = true ↔ AnnEquiv a b := by
  rw [annEq_eq_and]
  simp only [Bool.and_eq_true, decide_eq_true_eq, internalOk_iff]
  constructor
  · rintro ⟨⟨⟨⟨⟨⟨⟨⟨⟨⟨h1, h2⟩, h3⟩, h4⟩, h5⟩, h6⟩, h7⟩, h8⟩, h9⟩, h10⟩, h11⟩
    exact ⟨h1, h2, h3, h4, h5, h6, h7, h8, h9, h10, h11⟩
  · rintro ⟨h1, h2, h3, h4, h5, h6, h7, h8, h9, h10, h11⟩
    exact ⟨⟨⟨⟨⟨⟨⟨⟨⟨⟨h1, h2⟩, h3⟩, h4⟩, h5⟩, h6⟩, h7⟩, h8⟩, h9⟩, h10⟩, h11⟩

theorem annEquiv_refl (a : Annotation) : AnnEquiv a a :=
  ⟨rfl, areModsEqual_bequiv.refl _, areModsEqual_bequiv.refl _, areModsEqual_bequiv.refl _, areModsEqual_bequiv.refl _,
   areModsEqual_bequiv.refl _, areModsEqual_bequiv.refl _, areModsEqual_bequiv.refl _,
   fun _ => areModsEqual_bequiv.refl _, areIntervalsEqual_bequiv.refl _, rfl⟩

theorem annEquiv_symm {a b : Annotation} (h : AnnEquiv a b) : AnnEquiv b a :=
  ⟨h.seq.symm, areModsEqual_bequiv.symm _ _ h.labile, areModsEqual_bequiv.symm _ _ h.unknown,
   areModsEqual_bequiv.symm _ _ h.nterm, areModsEqual_bequiv.symm _ _ h.cterm, areModsEqual_bequiv.symm _ _ h.adducts,
   areModsEqual_bequiv.symm _ _ h.isotope, areModsEqual_bequiv.symm _ _ h.static,
   fun k => areModsEqual_bequiv.symm _ _ (h.internal k), areIntervalsEqual_bequiv.symm _ _ h.intervals, h.charge.symm⟩

theorem annEquiv_trans {a b c : Annotation} (h : AnnEquiv a b) (g : AnnEquiv b c) : AnnEquiv a c :=
  ⟨h.seq.trans g.seq, areModsEqual_bequiv.trans _ _ _ h.labile g.labile, areModsEqual_bequiv.trans _ _ _ h.unknown g.unknown,
   areModsEqual_bequiv.trans _ _ _ h.nterm g.nterm, areModsEqual_bequiv.trans _ _ _ h.cterm g.cterm,
   areModsEqual_bequiv.trans _ _ _ h.adducts g.adducts, areModsEqual_bequiv.trans _ _ _ h.isotope g.isotope,
   areModsEqual_bequiv.trans _ _ _ h.static g.static,
   fun k => areModsEqual_bequiv.trans _ _ _ (h.internal k) (g.internal k),
   areIntervalsEqual_bequiv.trans _ _ _ h.intervals g.intervals, h.charge.trans g.charge⟩

/-! ### single perturbations -/


theorem modEq_false_of_val (m : Mod) (v : ModVal) (h : valEq m.val v = false) : modEq m { m with val := v } = false := by
  simp [modEq, h]

theorem modEq_false_of_mult (m : Mod) (k : Int) (h : k ≠ m.mult) : modEq m { m with mult := k } = false := by
  unfold modEq
  split
  · rfl
  · have : (m.mult != k) = true := by simp; exact fun e => h e.symm
    simp [this]

theorem ivEq_false_of_start (i : Interval) (s : Int) (h : s ≠ i.start) : ivEq i { i with start := s } = false := by
  have : (i.start != s) = true := by simp; exact fun e => h e.symm
  simp [ivEq, this]

theorem ivEq_false_of_stop (i : Interval) (s : Int) (h : s ≠ i.stop) : ivEq i { i with stop := s } = false := by
  have : (i.stop != s) = true := by simp; exact fun e => h e.symm
  unfold ivEq
  simp [this]

theorem ivEq_false_of_ambiguous (i : Interval) : ivEq i { i with ambiguous := !i.ambiguous } = false := by
  unfold ivEq
  cases i.ambiguous <;> simp

theorem ivEq_false_of_mods (i : Interval) (m : Option (List Mod)) (h : areModsEqual i.mods m = false) :
    ivEq i { i with mods := m } = false := by
  unfold ivEq
  simp [h]

/-- two lists related elementwise (same length, same order) -/
inductive Rel2 {α : Type} (r : α → α → Prop) : List α → List α → Prop where
  | nil : Rel2 r [] []
  | cons {x y : α} {xs ys : List α} : r x y → Rel2 r xs ys → Rel2 r (x :: xs) (y :: ys)

theorem Rel2.imp {α : Type} {r s : α → α → Prop} (h : ∀ x y, r x y → s x y) {a b : List α} (hr : Rel2 r a b) :
    Rel2 s a b := by
  induction hr with
  | nil => exact .nil
  | cons hxy _ ih => exact .cons (h _ _ hxy) ih

theorem countP_of_rel2 {α : Type} {r : α → α → Bool} (hr : BEquiv r) (a b : List α)
    (h : Rel2 (fun x y => r x y = true) a b) (e : α) : a.countP (r e) = b.countP (r e) := by
  induction h with
  | nil => rfl
  | @cons x y xs ys hxy _ ih =>
    have : r e x = r e y := by
      rw [hr.symm_eq e x, hr.symm_eq e y]
      exact hr.congr_left x y hxy e
    simp only [List.countP_cons, ih, this]

/-- equivalent elements in the same order -/
theorem msEq_of_rel2 {α : Type} {r : α → α → Bool} (hr : BEquiv r) (a b : List α)
    (h : Rel2 (fun x y => r x y = true) a b) : msEq r a b = true := by
  rw [msEq_iff]
  intro e _
  exact countP_of_rel2 hr a b h e

theorem length_of_rel2 {α : Type} {r : α → α → Prop} (a b : List α) (h : Rel2 r a b) : a.length = b.length := by
  induction h with
  | nil => rfl
  | cons _ _ ih => simp [ih]

/-- the positions that carry a list of mods: the named ones and every residue index -/
inductive Slot where
  | labile | unknown | nterm | cterm | adducts | isotope | static
  | residue (k : Int)

def Slot.get : Slot → Annotation → Option (List Mod)
  | .labile, a => a.labile
  | .unknown, a => a.unknown
  | .nterm, a => a.nterm
  | .cterm, a => a.cterm
  | .adducts, a => a.adducts
  | .isotope, a => a.isotope
  | .static, a => a.static
  | .residue k, a => getInternal a k

theorem AnnEquiv.slot {a b : Annotation} (h : AnnEquiv a b) (s : Slot) : areModsEqual (s.get a) (s.get b) = true := by
  cases s
  · exact h.labile
  · exact h.unknown
  · exact h.nterm
  · exact h.cterm
  · exact h.adducts
  · exact h.isotope
  · exact h.static
  · exact h.internal _

theorem annEq_false_of_slot (a b : Annotation) (s : Slot) (h : areModsEqual (s.get a) (s.get b) = false) :
    annEq a b = false := by
  cases he : annEq a b with
  | false => rfl
  | true =>
    have := ((annEq_iff a b).1 he).slot s
    rw [h] at this; cases this

theorem annEq_false_of_intervals (a b : Annotation) (h : areIntervalsEqual a.intervals b.intervals = false) :
    annEq a b = false := by
  cases he : annEq a b with
  | false => rfl
  | true =>
    have := ((annEq_iff a b).1 he).intervals
    rw [h] at this; cases this

theorem areIntervalsEqual_false_of_msEq (a b : List Interval) (h : msEq ivEq a b = false) :
    areIntervalsEqual (some a) (some b) = false := by
  simp [areIntervalsEqual, h]

end Pept
