import PeptVerif.Lemmas.ParserChain
/-!
Helper lemmas for C01: the leading sections of a chain in ANY order (the serializer writes them in one fixed order, the
grammar and the parser allow every order), followed by the middle and end sections. No Mathlib.
-/
namespace Pept

/-- one leading section as it appears in the text -/
inductive StartItem where
  | labile (m : Mod)          -- `{m}`
  | globals (g : List Mod)    -- one run `<…><…>` of static rules and isotope labels, in any order
  | unknown (l : List Mod)    -- `[…]…?`
  | nterm (l : List Mod)      -- `[…]…-`

def StartItem.render (plus : Plus) : StartItem → List Char
  | .labile m => Mod.serialize '{' '}' (plus m) m
  | .globals g => serializeMods '<' '>' plus g
  | .unknown l => serializeMods '[' ']' plus l ++ ['?']
  | .nterm l => serializeMods '[' ']' plus l ++ ['-']

def StartItem.ok : StartItem → Bool
  | .labile m => canonMod '{' '}' m
  | .globals g => !g.isEmpty && g.all (fun m => canonStatic m || canonIsotope m)
  | .unknown l => !l.isEmpty && l.all (canonMod '[' ']')
  | .nterm l => !l.isEmpty && l.all (canonMod '[' ']')

def StartItem.isGlobals : StartItem → Bool
  | .globals _ => true
  | _ => false

/-- two `<…>` runs are never adjacent (they would be one run) -/
def noAdjacentGlobals : List StartItem → Bool
  | a :: b :: t => !(a.isGlobals && b.isGlobals) && noAdjacentGlobals (b :: t)
  | _ => true

/-- what the section denotes: the effect on the accumulators -/
def StartItem.apply (acc : Annotation) : StartItem → Annotation
  | .labile m => { acc with labile := addMods acc.labile [m] }
  | .globals g => { acc with static := appendOpt acc.static (g.filter fun m => strHasAt m.val),
                             isotope := appendOpt acc.isotope (g.filter fun m => !strHasAt m.val) }
  | .unknown l => { acc with unknown := addMods acc.unknown l }
  | .nterm l => { acc with nterm := addMods acc.nterm l }

def renderStart (plus : Plus) (items : List StartItem) : List Char := items.flatMap (StartItem.render plus)

theorem addGlobals_filter (g : List Mod) (hg : g.all (fun m => canonStatic m || canonIsotope m) = true)
    (acc : Annotation) :
    addGlobals true acc g = .ok { acc with static := appendOpt acc.static (g.filter fun m => strHasAt m.val),
                                           isotope := appendOpt acc.isotope (g.filter fun m => !strHasAt m.val) } := by
  induction g generalizing acc with
  | nil => simp [addGlobals, appendOpt]
  | cons m t ih =>
    simp only [List.all_cons, Bool.and_eq_true, Bool.or_eq_true] at hg
    obtain ⟨v, mult⟩ := m
    rcases hg.1 with h | h
    · simp only [canonStatic, Bool.and_eq_true, decide_eq_true_eq] at h
      obtain ⟨⟨⟨hm, hs⟩, hat⟩, _⟩ := h
      cases v with
      | int i => simp [isStr] at hs
      | flt r => simp [isStr] at hs
      | str tx =>
        simp only [strHasAt] at hat
        subst hm
        simp only [addGlobals, hat, ↓reduceIte, show ¬ ((1 : Int) > 1) by decide]
        rw [ih hg.2]
        simp only [List.filter_cons, strHasAt, hat, Bool.not_true, Bool.false_eq_true, ↓reduceIte, appendOpt_addMods]
    · simp only [canonIsotope, Bool.and_eq_true, decide_eq_true_eq, Bool.not_eq_eq_eq_not, Bool.not_true] at h
      obtain ⟨⟨⟨hm, hs⟩, hat⟩, _⟩ := h
      cases v with
      | int i => simp [isStr] at hs
      | flt r => simp [isStr] at hs
      | str tx =>
        simp only [strHasAt] at hat
        subst hm
        simp only [addGlobals, hat, Bool.false_eq_true, ↓reduceIte, show ¬ ((1 : Int) > 1) by decide]
        rw [ih hg.2]
        simp only [List.filter_cons, strHasAt, hat, Bool.not_false, Bool.false_eq_true, ↓reduceIte, appendOpt_addMods]

theorem render_head (plus : Plus) (it : StartItem) (hok : it.ok = true) (r : List Char) :
    ∃ x t, it.render plus ++ r = x :: t ∧ (x = '{' ∨ x = '<' ∨ x = '[') ∧ (x = '<' → it.isGlobals = true) := by
  cases it with
  | labile m => exact ⟨'{', (Mod.serialize '{' '}' (plus m) m).tail ++ r, by rw [StartItem.render, Mod.serialize_eq_cons]; rfl, Or.inl rfl,
      fun h => absurd h (by decide)⟩
  | globals g =>
    cases g with
    | nil => simp [StartItem.ok] at hok
    | cons m t =>
      refine ⟨'<', (Mod.serialize '<' '>' (plus m) m).tail ++ serializeMods '<' '>' plus t ++ r, ?_,
        Or.inr (Or.inl rfl), fun _ => rfl⟩
      rw [StartItem.render, serializeMods_cons, Mod.serialize_eq_cons]; simp
  | unknown l =>
    cases l with
    | nil => simp [StartItem.ok] at hok
    | cons m t =>
      refine ⟨'[', (Mod.serialize '[' ']' (plus m) m).tail ++ serializeMods '[' ']' plus t ++ ['?'] ++ r, ?_,
        Or.inr (Or.inr rfl), fun h => absurd h (by decide)⟩
      rw [StartItem.render, serializeMods_cons, Mod.serialize_eq_cons]; simp
  | nterm l =>
    cases l with
    | nil => simp [StartItem.ok] at hok
    | cons m t =>
      refine ⟨'[', (Mod.serialize '[' ']' (plus m) m).tail ++ serializeMods '[' ']' plus t ++ ['-'] ++ r, ?_,
        Or.inr (Or.inr rfl), fun h => absurd h (by decide)⟩
      rw [StartItem.render, serializeMods_cons, Mod.serialize_eq_cons]; simp

/-- what follows one section: ModStop, and not `<` unless the next section is a `<…>` run -/
theorem renderStart_stop (plus : Plus) (items : List StartItem) (hok : ∀ it ∈ items, it.ok = true) (rest : List Char)
    (hrest : StartStop rest) :
    ModStop (renderStart plus items ++ rest) ∧
      ((renderStart plus items ++ rest).head? = some '<' → ∃ it t, items = it :: t ∧ it.isGlobals = true) := by
  cases items with
  | nil =>
    simp only [renderStart, List.flatMap_nil, List.nil_append]
    exact ⟨hrest.modStop, fun h => absurd h (hrest.head_ne '<' (by decide) (by decide))⟩
  | cons it t =>
    obtain ⟨x, tl, hx, hx1, hx2⟩ := render_head plus it (hok it (by simp)) (renderStart plus t ++ rest)
    have : renderStart plus (it :: t) ++ rest = x :: tl := by
      rw [← hx]; simp [renderStart]
    rw [this]
    refine ⟨?_, fun h => ⟨it, t, rfl, hx2 (by simpa using h)⟩⟩
    rcases hx1 with h | h | h <;> subst h <;> exact ModStop.cons (by decide) (by decide)

/-- **the leading sections in any order** -/
theorem parseStart_items (plus : Plus) (items : List StartItem) (hok : ∀ it ∈ items, it.ok = true)
    (hadj : noAdjacentGlobals items = true) (acc : Annotation) (rest : List Char) (hrest : StartStop rest) :
    parseStart true acc (renderStart plus items ++ rest) = .ok (items.foldl StartItem.apply acc, rest) := by
  induction items generalizing acc with
  | nil => simpa [renderStart] using parseStart_stop acc rest hrest
  | cons it t ih =>
    have hokt : ∀ it' ∈ t, it'.ok = true := fun it' h => hok it' (by simp [h])
    have hadjt : noAdjacentGlobals t = true := by
      cases t with
      | nil => rfl
      | cons b t' => simp only [noAdjacentGlobals, Bool.and_eq_true] at hadj; exact hadj.2
    obtain ⟨hstop, hlt⟩ := renderStart_stop plus t hokt rest hrest
    have htext : renderStart plus (it :: t) ++ rest = it.render plus ++ (renderStart plus t ++ rest) := by
      simp [renderStart]
    rw [htext, List.foldl_cons]
    have hitok := hok it (by simp)
    cases it with
    | labile m =>
      have := parseStart_labile plus [m] (by simpa [StartItem.ok] using hitok) acc _ hstop
      simp only [serializeMods, List.flatMap_cons, List.flatMap_nil, List.append_nil] at this
      rw [StartItem.render, this, ih hokt hadjt]
      simp [StartItem.apply, appendOpt, addMods]
    | globals g =>
      simp only [StartItem.ok, Bool.and_eq_true, Bool.not_eq_eq_eq_not, Bool.not_true] at hitok
      have hne : g ≠ [] := by intro h; subst h; simp at hitok
      have hcan : g.all (canonMod '<' '>') = true := by
        rw [List.all_eq_true]; intro m hm
        have := (List.all_eq_true.mp hitok.2) m hm
        simp only [Bool.or_eq_true] at this
        rcases this with h | h
        · exact canonStatic_canonMod m h
        · exact canonIsotope_canonMod m h
      have hnl : (renderStart plus t ++ rest).head? ≠ some '<' := by
        intro h
        obtain ⟨b, t', ht, hb⟩ := hlt h
        subst ht
        cases b with
        | globals g2 => simp [noAdjacentGlobals, StartItem.isGlobals] at hadj
        | labile _ => simp [StartItem.isGlobals] at hb
        | unknown _ => simp [StartItem.isGlobals] at hb
        | nterm _ => simp [StartItem.isGlobals] at hb
      rw [StartItem.render, parseStart_globals plus g hne hcan acc _ hstop hnl, addGlobals_filter g hitok.2]
      simp only
      rw [ih hokt hadjt]
      rfl
    | unknown l =>
      simp only [StartItem.ok, Bool.and_eq_true, Bool.not_eq_eq_eq_not, Bool.not_true] at hitok
      have hne : l ≠ [] := by intro h; subst h; simp at hitok
      have := parseStart_brackets plus l hne hitok.2 acc '?' (Or.inl rfl) (renderStart plus t ++ rest)
      simp only [StartItem.render, List.append_assoc, List.cons_append, List.nil_append]
      rw [this, if_neg (by decide), ih hokt hadjt]
      rfl
    | nterm l =>
      simp only [StartItem.ok, Bool.and_eq_true, Bool.not_eq_eq_eq_not, Bool.not_true] at hitok
      have hne : l ≠ [] := by intro h; subst h; simp at hitok
      have := parseStart_brackets plus l hne hitok.2 acc '-' (Or.inr rfl) (renderStart plus t ++ rest)
      simp only [StartItem.render, List.append_assoc, List.cons_append, List.nil_append]
      rw [this, if_pos rfl, ih hokt hadjt]
      rfl

/-! ### the leading sections only touch their own five fields -/

/-- overwrite the five leading-section fields -/
def withStart (A x : Annotation) : Annotation :=
  { x with labile := A.labile, static := A.static, isotope := A.isotope, unknown := A.unknown, nterm := A.nterm }

theorem apply_frame (acc : Annotation) (it : StartItem) :
    it.apply acc = withStart (it.apply acc) acc := by
  cases it <;> simp [StartItem.apply, withStart]

theorem foldl_apply_frame (items : List StartItem) (acc : Annotation) :
    items.foldl StartItem.apply acc = withStart (items.foldl StartItem.apply acc) acc := by
  induction items generalizing acc with
  | nil => simp [withStart]
  | cons it t ih =>
    rw [List.foldl_cons, ih (it.apply acc)]
    rw [apply_frame acc it]
    simp [withStart]

/-! ### a chain whose leading sections come in any order -/

/-- the chain loop, given the outcome of the three phases -/
theorem parseChains_of_phases (conn : Option Bool) (text : List Char) (a1 : Annotation) (r1 : List Char)
    (a2 : Annotation) (r2 : List Char) (a3 : Annotation) (conn' : Option Bool) (r3 : List Char)
    (h1 : parseStart true { seq := [] } text = .ok (a1, r1)) (h2 : parseMiddle a1 none r1 = .ok (a2, r2))
    (h3 : parseEnd a2 conn r2 = .ok (a3, conn', r3)) (hlen : r3.length < text.length) :
    parseChains true conn text =
      match parseChains true conn' r3 with
      | .error e => .error e
      | .ok l => .ok ((a3, conn') :: l) := by
  cases text with
  | nil => simp at hlen
  | cons c cs =>
    rw [parseChains.eq_def]
    simp only [h1, h2, h3, hlen, ↓reduceDIte]
    cases parseChains true conn' r3 <;> rfl

/-- text of a chain: leading sections in the given order, then the serializer's middle and end sections of `b` -/
def surfaceText (plus : Plus) (items : List StartItem) (b : Annotation) : List Char :=
  renderStart plus items ++ (serializeMiddle plus b ++ serializeEnd plus b)

/-- what that text denotes: the leading sections accumulate in order of appearance -/
def surfaceDenote (items : List StartItem) (b : Annotation) : Annotation :=
  { (items.foldl StartItem.apply { seq := [] }) with
      seq := b.seq, internal := b.internal, intervals := b.intervals, cterm := b.cterm, charge := b.charge,
      adducts := b.adducts }

theorem parseChains_surface (plus : Plus) (items : List StartItem) (hok : ∀ it ∈ items, it.ok = true)
    (hadj : noAdjacentGlobals items = true) (b : Annotation) (hb : canon b = true) (conn : Option Bool)
    (rest : List Char) (hrest : ChainStop rest) :
    parseChains true conn (surfaceText plus items b ++ rest) =
      match parseChains true (stopConn conn rest) (stopRest rest) with
      | .error e => .error e
      | .ok l => .ok ((surfaceDenote items b, stopConn conn rest) :: l) := by
  have hfr := foldl_apply_frame items { seq := [] }
  have g1 : (items.foldl StartItem.apply { seq := [] }).seq = [] := by rw [hfr]; rfl
  have g2 : (items.foldl StartItem.apply { seq := [] }).internal = none := by rw [hfr]; rfl
  have g3 : (items.foldl StartItem.apply { seq := [] }).intervals = none := by rw [hfr]; rfl
  have g4 : (items.foldl StartItem.apply { seq := [] }).cterm = none := by rw [hfr]; rfl
  have g5 : (items.foldl StartItem.apply { seq := [] }).charge = none := by rw [hfr]; rfl
  have g6 : (items.foldl StartItem.apply { seq := [] }).adducts = none := by rw [hfr]; rfl
  obtain ⟨a2, r2, hM, hE, hSS⟩ := phases_tail plus b hb _ g1 g2 g3 g4 g5 g6 conn rest hrest
  have hS := parseStart_items plus items hok hadj { seq := [] } _ hSS
  have htext : surfaceText plus items b ++ rest = renderStart plus items ++
      (serializeMiddle plus b ++ (ctermText plus b.cterm ++ (chargeText plus b.charge b.adducts ++ rest))) := by
    unfold surfaceText
    rw [serializeEnd_eq]
    simp only [List.append_assoc]
  have hne : b.seq ≠ [] := by
    simp only [canon, Bool.and_eq_true, Bool.not_eq_eq_eq_not, Bool.not_true] at hb
    intro h; rw [h] at hb; simp at hb
  have hlen : (stopRest rest).length < (surfaceText plus items b ++ rest).length := by
    have h1 := stopRest_length rest
    have h2 := serializeMiddle_ne_nil plus b hne
    rw [htext]
    cases hm : serializeMiddle plus b with
    | nil => exact absurd hm h2
    | cons x xs => simp; omega
  rw [htext] at hlen ⊢
  exact parseChains_of_phases conn _ _ _ a2 r2 _ _ _ hS hM hE hlen

end Pept
