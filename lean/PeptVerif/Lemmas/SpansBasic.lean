import PeptVerif.Lemmas.Spans
/-! C06 helper lemmas: Python `range`, the three simple span builders (core Lean only). -/
namespace Spans

theorem mem_range (a b x : Int) : x ∈ range a b ↔ a ≤ x ∧ x < b := by
  unfold range
  simp only [List.mem_map, List.mem_range]
  constructor
  · rintro ⟨k, hk, rfl⟩; omega
  · rintro ⟨h1, h2⟩; exact ⟨(x - a).toNat, by omega, by omega⟩

theorem pairwise_range (a b : Int) : (range a b).Pairwise (· < ·) := by
  unfold range
  rw [List.pairwise_map]
  exact List.pairwise_lt_range.imp (by intro x y h; omega)

theorem mem_rangeDown (a b x : Int) : x ∈ rangeDown a b ↔ b < x ∧ x ≤ a := by
  unfold rangeDown
  simp only [List.mem_map, List.mem_range]
  constructor
  · rintro ⟨k, hk, rfl⟩; omega
  · rintro ⟨h1, h2⟩; exact ⟨(a - x).toNat, by omega, by omega⟩

theorem pairwise_rangeDown (a b : Int) : (rangeDown a b).Pairwise (· > ·) := by
  unfold rangeDown
  rw [List.pairwise_map]
  exact List.pairwise_lt_range.imp (by intro x y h; omega)

theorem nodup_of_pairwise_lt {l : List Int} (h : l.Pairwise (· < ·)) : l.Nodup :=
  h.imp (by intro a b h; omega)

theorem nodup_of_pairwise_gt {l : List Int} (h : l.Pairwise (· > ·)) : l.Nodup :=
  h.imp (by intro a b h; omega)

/-- `build_non_enzymatic_spans`: membership -/
theorem mem_buildNonEnzymatic' (span : Span) (lo hi : Option Int) (s e v : Int) :
    (s, e, v) ∈ buildNonEnzymatic span lo hi ↔
      span.1 ≤ s ∧ s < span.2.1 ∧ v = 0 ∧ lo.getD 1 ≤ e - s ∧ e ≤ span.2.1 ∧
        e - s ≤ hi.getD (span.2.1 - span.1 - 1) ∧ e - s ≤ span.2.1 - span.1 - 1 := by
  unfold buildNonEnzymatic
  simp only [List.mem_flatMap, List.mem_map, mem_range, Prod.mk.injEq]
  constructor
  · rintro ⟨i, ⟨h1, h2⟩, j, ⟨h3, h4⟩, rfl, rfl, rfl⟩
    omega
  · rintro ⟨h1, h2, rfl, h3, h4, h5, h6⟩
    exact ⟨s, ⟨h1, h2⟩, e, by omega, rfl, rfl, rfl⟩

theorem nodup_buildNonEnzymatic' (span : Span) (lo hi : Option Int) :
    (buildNonEnzymatic span lo hi).Nodup := by
  unfold buildNonEnzymatic
  simp only [List.Nodup]
  rw [List.pairwise_flatMap]
  constructor
  · intro i _
    rw [List.pairwise_map]
    exact (pairwise_range _ _).imp (by intro a b h; simp; omega)
  · exact (pairwise_range _ _).imp (by
      intro a b h x hx y hy
      simp only [List.mem_map] at hx hy
      obtain ⟨_, _, rfl⟩ := hx
      obtain ⟨_, _, rfl⟩ := hy
      simp; omega)

/-- `build_left_semi_spans`: membership -/
theorem mem_buildLeftSemi' (span : Span) (lo hi : Option Int) (s e v : Int) :
    (s, e, v) ∈ buildLeftSemi span lo hi ↔
      s = span.1 ∧ v = span.2.2 ∧ span.1 ≤ e ∧ e < span.2.1 ∧
        lo.getD 1 ≤ e - s ∧ e - s ≤ hi.getD (span.2.1 - span.1) := by
  unfold buildLeftSemi
  simp only [List.mem_map, List.mem_filter, mem_rangeDown, Prod.mk.injEq, decide_eq_true_eq]
  constructor
  · rintro ⟨i, ⟨⟨h1, h2⟩, h3⟩, rfl, rfl, rfl⟩
    omega
  · rintro ⟨rfl, rfl, h1, h2, h3, h4⟩
    exact ⟨e, by omega, rfl, rfl, rfl⟩

theorem nodup_buildLeftSemi' (span : Span) (lo hi : Option Int) : (buildLeftSemi span lo hi).Nodup := by
  unfold buildLeftSemi
  simp only [List.Nodup]
  rw [List.pairwise_map]
  exact ((pairwise_rangeDown _ _).filter _).imp (by intro a b h; simp; omega)

/-- `build_right_semi_spans`: membership -/
theorem mem_buildRightSemi' (span : Span) (lo hi : Option Int) (s e v : Int) :
    (s, e, v) ∈ buildRightSemi span lo hi ↔
      e = span.2.1 ∧ v = span.2.2 ∧ span.1 < s ∧ s ≤ span.2.1 ∧
        lo.getD 1 ≤ e - s ∧ e - s ≤ hi.getD (span.2.1 - span.1) := by
  unfold buildRightSemi
  simp only [List.mem_map, List.mem_filter, mem_range, Prod.mk.injEq, decide_eq_true_eq]
  constructor
  · rintro ⟨i, ⟨⟨h1, h2⟩, h3⟩, rfl, rfl, rfl⟩
    omega
  · rintro ⟨rfl, rfl, h1, h2, h3, h4⟩
    exact ⟨s, by omega, rfl, rfl, rfl⟩

theorem nodup_buildRightSemi' (span : Span) (lo hi : Option Int) : (buildRightSemi span lo hi).Nodup := by
  unfold buildRightSemi
  simp only [List.Nodup]
  rw [List.pairwise_map]
  exact ((pairwise_range _ _).filter _).imp (by intro a b h; simp; omega)

end Spans
