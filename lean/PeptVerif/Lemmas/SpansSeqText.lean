import PeptVerif.Lemmas.SpansSeq
import PeptVerif.Lemmas.RegexLite
/-! C06 helper lemmas: zero-width regex rules applied to pieces of a text are local. Core Lean only. -/
namespace RegexLite

theorem matchItems_consumeZW (cls : List Char) (zw : Pattern) (hz : ∀ it ∈ zw, it.zeroWidth = true)
    (before : List Char) (c : Char) (rest : List Char) :
    matchItems (.consume cls :: zw) before (c :: rest) =
      if cls.contains c = true ∧ holdsAt zw (some c) rest.head? = true then some 1 else none := by
  simp only [matchItems, matchItems_zeroWidth zw hz, List.head?_cons]
  by_cases h1 : c ∈ cls <;> by_cases h2 : holdsAt zw (some c) rest.head? = true <;> simp [h1, h2]

theorem mem_sitesGo_consumeZW (cls : List Char) (zw : Pattern) (hz : ∀ it ∈ zw, it.zeroWidth = true) (i : Nat)
    (before after : List Char) (x : Nat) :
    x ∈ sitesGo (.consume cls :: zw) i before after ↔
      ∃ k, ∃ h : k < after.length, x = i + k + 1 ∧ cls.contains after[k] = true ∧
        holdsAt zw (some after[k]) after[k + 1]? = true := by
  induction after generalizing i before with
  | nil => simp [sitesGo, matchItems]
  | cons c rest ih =>
    simp only [sitesGo, List.mem_append, ih, matchItems_consumeZW cls zw hz]
    constructor
    · rintro (h | ⟨k, hk, rfl, hh⟩)
      · by_cases hc : cls.contains c = true ∧ holdsAt zw (some c) rest.head? = true
        · rw [if_pos hc] at h
          simp at h
          refine ⟨0, by simp, by omega, by simpa using hc.1, ?_⟩
          have := hc.2
          simpa [List.head?_eq_getElem?] using this
        · rw [if_neg hc] at h
          simp at h
      · exact ⟨k + 1, by simp; omega, by omega, by simpa using hh⟩
    · rintro ⟨k, hk, rfl, hh⟩
      cases k with
      | zero =>
        left
        have hc : cls.contains c = true ∧ holdsAt zw (some c) rest.head? = true := by
          refine ⟨by simpa using hh.1, ?_⟩
          have := hh.2
          simpa [List.head?_eq_getElem?] using this
        rw [if_pos hc]
        simp
      | succ k =>
        right
        exact ⟨k, by simp at hk; omega, by omega, by simpa using hh⟩

end RegexLite

namespace Spans
open RegexLite

theorem length_pieceText (text : List Char) (a b : Nat) (hab : a ≤ b) (hb : b ≤ text.length) :
    (pieceText text (a : Nat) (b : Nat)).length = b - a := by
  unfold pieceText
  have h1 : ((a : Int)).toNat = a := by omega
  have h2 : ((b : Int) - (a : Int)).toNat = b - a := by omega
  rw [h1, h2, List.length_take, List.length_drop]; omega

theorem getElem?_pieceText (text : List Char) (a b j : Nat) (hj : j < b - a) :
    (pieceText text (a : Nat) (b : Nat))[j]? = text[a + j]? := by
  unfold pieceText
  have h1 : ((a : Int)).toNat = a := by omega
  have h2 : ((b : Int) - (a : Int)).toNat = b - a := by omega
  rw [h1, h2, List.getElem?_take, if_pos hj, List.getElem?_drop]

theorem getElem?_pieceText_end (text : List Char) (a b : Nat) (hab : a ≤ b) (hb : b ≤ text.length) :
    (pieceText text (a : Nat) (b : Nat))[b - a]? = none := by
  rw [List.getElem?_eq_none_iff, length_pieceText text a b hab hb]; omega

theorem pieceText_full (text : List Char) : pieceText text 0 (text.length : Nat) = text := by
  unfold pieceText
  simp

theorem mem_ruleSites (regex : List Pattern) (t : List Char) (x : Int) :
    x ∈ ruleSites regex t ↔ ∃ p ∈ regex, ∃ k ∈ sites p t, x = (k : Int) := by
  unfold ruleSites
  simp only [List.mem_flatMap, List.mem_map]
  constructor
  · rintro ⟨p, hp, k, hk, rfl⟩; exact ⟨p, hp, k, hk, rfl⟩
  · rintro ⟨p, hp, k, hk, rfl⟩; exact ⟨p, hp, k, hk, rfl⟩

theorem ruleSites_flatMap {α} (l : List α) (f : α → List Pattern) (t : List Char) :
    ruleSites (l.flatMap f) t = l.flatMap (fun c => ruleSites (f c) t) := by
  unfold ruleSites
  rw [List.flatMap_assoc]

theorem holdsAt_of_behind (p : Pattern) (h : (p.any fun it => match it with | .behind _ => true | _ => false) = true)
    (next : Option Char) : holdsAt p none next = false := by
  rw [List.any_eq_true] at h
  obtain ⟨it, hit, hb⟩ := h
  unfold holdsAt
  rw [List.all_eq_false]
  refine ⟨it, hit, ?_⟩
  cases it <;> simp_all [Item.holds]

theorem holdsAt_endSafe (p : Pattern) (h : endSafe p = true) (prev : Option Char) :
    holdsAt p prev none = false := by
  unfold endSafe at h
  rw [List.any_eq_true] at h
  obtain ⟨it, hit, hb⟩ := h
  unfold holdsAt
  rw [List.all_eq_false]
  refine ⟨it, hit, ?_⟩
  cases it <;> simp_all [Item.holds]

/-- shape of a local rule -/
theorem localRule_cases (p : Pattern) (h : localRule p = true) :
    (∃ cls zw, p = .consume cls :: zw ∧ ∀ it ∈ zw, it.zeroWidth = true) ∨
      ((∀ it ∈ p, it.zeroWidth = true) ∧ cutsAt p = holdsAt p) := by
  cases p with
  | nil => right; exact ⟨by simp, by funext a b; simp [cutsAt]⟩
  | cons it ps =>
    cases it with
    | consume cls =>
      left; refine ⟨cls, ps, rfl, ?_⟩
      simpa [localRule, List.all_eq_true] using h
    | behind c => right; exact ⟨by simpa [localRule, List.all_eq_true] using h, by funext a b; simp [cutsAt]⟩
    | ahead c => right; exact ⟨by simpa [localRule, List.all_eq_true] using h, by funext a b; simp [cutsAt]⟩
    | aheadNot c => right; exact ⟨by simpa [localRule, List.all_eq_true] using h, by funext a b; simp [cutsAt]⟩
    | notAhead c => right; exact ⟨by simpa [localRule, List.all_eq_true] using h, by funext a b; simp [cutsAt]⟩

/-- a local rule cuts at `x` iff `cutsAt` holds for the two residues adjacent to `x` -/
theorem mem_sites_local (p : Pattern) (h : localRule p = true) (s : List Char) (x : Nat) :
    x ∈ sites p s ↔ x ≤ s.length ∧ cutsAt p (if x = 0 then none else s[x - 1]?) s[x]? = true := by
  rcases localRule_cases p h with ⟨cls, zw, rfl, hz⟩ | ⟨hz, hc⟩
  · unfold sites
    rw [mem_sitesGo_consumeZW cls zw hz]
    simp only [Nat.zero_add, cutsAt]
    constructor
    · rintro ⟨k, hk, rfl, h1, h2⟩
      refine ⟨by omega, ?_⟩
      have : ¬ k + 1 = 0 := by omega
      simp only [this, if_false, Nat.add_sub_cancel, List.getElem?_eq_getElem hk, h1, h2, Bool.and_self]
    · rintro ⟨hx, hcut⟩
      cases x with
      | zero => simp at hcut
      | succ k =>
        have hk : k < s.length := by omega
        have : ¬ k + 1 = 0 := by omega
        simp only [this, if_false, Nat.add_sub_cancel, List.getElem?_eq_getElem hk, Bool.and_eq_true] at hcut
        exact ⟨k, hk, rfl, hcut.1, hcut.2⟩
  · rw [hc]; exact mem_sites_zeroWidth p hz s x

theorem cutsAt_startSafe (p : Pattern) (hl : localRule p = true) (h : startSafe p = true) (next : Option Char) :
    cutsAt p none next = false := by
  rcases localRule_cases p hl with ⟨cls, zw, rfl, hz⟩ | ⟨hz, hc⟩
  · simp [cutsAt]
  · rw [hc]
    apply holdsAt_of_behind
    unfold startSafe at h
    rw [List.any_eq_true] at h ⊢
    obtain ⟨it, hit, hb⟩ := h
    refine ⟨it, hit, ?_⟩
    cases it <;> simp_all [Item.zeroWidth]
    exact absurd (hz _ hit) (by simp)

theorem cutsAt_endSafe (p : Pattern) (hl : localRule p = true) (h : endSafe p = true) (prev : Option Char) :
    cutsAt p prev none = false := by
  rcases localRule_cases p hl with ⟨cls, zw, rfl, hz⟩ | ⟨hz, hc⟩
  · have hzw : endSafe zw = true := by
      unfold endSafe at h ⊢
      simpa using h
    cases prev with
    | none => simp [cutsAt]
    | some c => simp [cutsAt, holdsAt_endSafe zw hzw]
  · rw [hc]; exact holdsAt_endSafe p h prev

/-- a config whose rules are local rules is a local stage on every text, if no piece hits the shortcut -/
theorem localStage_toStage (text : List Char) (c : EnzymeConfig)
    (hplain : c.mc = 0 ∧ c.semi = false ∧ c.complete = true)
    (hzw : ∀ p ∈ c.regex, localRule p = true) (hns : StageShortcutFree text c) :
    LocalStage (text.length : Nat) (c.toStage text) where
  plain := hplain
  bounds := by
    intro a b ha hab hb x hx
    obtain ⟨a, rfl⟩ := Int.eq_ofNat_of_zero_le ha
    obtain ⟨b, rfl⟩ := Int.eq_ofNat_of_zero_le (by omega : (0:Int) ≤ b)
    simp only [EnzymeConfig.toStage, mem_ruleSites] at hx
    obtain ⟨p, _, k, hk, rfl⟩ := hx
    have := sites_le p _ k hk
    rw [length_pieceText text a b (by omega) (by omega)] at this
    omega
  loc := by
    intro a b ha hab hb x hx0 hxm
    obtain ⟨a, rfl⟩ := Int.eq_ofNat_of_zero_le ha
    obtain ⟨b, rfl⟩ := Int.eq_ofNat_of_zero_le (by omega : (0:Int) ≤ b)
    obtain ⟨x, rfl⟩ := Int.eq_ofNat_of_zero_le (by omega : (0:Int) ≤ x)
    have hfull : pieceText text 0 ((text.length : Nat) : Int) = text := pieceText_full text
    simp only [EnzymeConfig.toStage, mem_ruleSites, hfull]
    have hlen := length_pieceText text a b (by omega) (by omega)
    constructor
    · rintro ⟨p, hp, k, hk, hxk⟩
      have hkx : k = x := by omega
      subst hkx
      refine ⟨p, hp, a + k, ?_, by omega⟩
      rw [mem_sites_local p (hzw p hp)] at hk ⊢
      have h1 : ¬ k = 0 := by omega
      have h2 : ¬ a + k = 0 := by omega
      simp only [h1, h2, if_false] at hk ⊢
      rw [getElem?_pieceText text a b (k - 1) (by omega), getElem?_pieceText text a b k (by omega)] at hk
      have : a + (k - 1) = a + k - 1 := by omega
      rw [this] at hk
      exact ⟨by omega, hk.2⟩
    · rintro ⟨p, hp, k, hk, hxk⟩
      have hkx : k = a + x := by omega
      subst hkx
      refine ⟨p, hp, x, ?_, rfl⟩
      rw [mem_sites_local p (hzw p hp)] at hk ⊢
      have h1 : ¬ x = 0 := by omega
      have h2 : ¬ a + x = 0 := by omega
      simp only [h1, h2, if_false] at hk ⊢
      rw [getElem?_pieceText text a b (x - 1) (by omega), getElem?_pieceText text a b x (by omega)]
      have : a + (x - 1) = a + x - 1 := by omega
      rw [this]
      exact ⟨by omega, hk.2⟩
  noShortcut := by
    intro a b ha hab hb
    obtain ⟨a, rfl⟩ := Int.eq_ofNat_of_zero_le ha
    obtain ⟨b, rfl⟩ := Int.eq_ofNat_of_zero_le (by omega : (0:Int) ≤ b)
    exact hns b (by omega) a (by omega)

/-- syntactic sufficient condition: all rules of the config have a look-behind, or all have a positive
look-ahead — then no piece is cut at both of its ends, so the shortcut cannot fire on a piece -/
theorem stageShortcutFree_of_safe (text : List Char) (c : EnzymeConfig)
    (hzw : ∀ p ∈ c.regex, localRule p = true)
    (hsafe : (∀ p ∈ c.regex, startSafe p = true) ∨ (∀ p ∈ c.regex, endSafe p = true)) :
    StageShortcutFree text c := by
  intro b hb a hab hlen
  have hpl := length_pieceText text a b (by omega) (by omega)
  have hbnd : ∀ x ∈ sortDedup (ruleSites c.regex (pieceText text (a : Nat) (b : Nat))),
      (0:Int) ≤ x ∧ x ≤ (b : Int) - a := by
    intro x hx
    rw [mem_sortDedup, mem_ruleSites] at hx
    obtain ⟨p, _, k, hk, rfl⟩ := hx
    have := sites_le p _ k hk
    rw [hpl] at this; omega
  have hall := (ssorted_length _ (ssorted_sortDedup _) 0 ((b : Int) - a) hbnd).2 (by omega)
  rcases hsafe with hs | hs
  · have h0 := hall 0 (by omega) (by omega)
    rw [mem_sortDedup, mem_ruleSites] at h0
    obtain ⟨p, hp, k, hk, hk0⟩ := h0
    have : k = 0 := by omega
    subst this
    rw [mem_sites_local p (hzw p hp)] at hk
    simp only [if_true] at hk
    rw [cutsAt_startSafe p (hzw p hp) (hs p hp)] at hk
    simp at hk
  · have hm := hall ((b : Int) - a) (by omega) (by omega)
    rw [mem_sortDedup, mem_ruleSites] at hm
    obtain ⟨p, hp, k, hk, hkm⟩ := hm
    have : k = b - a := by omega
    subst this
    rw [mem_sites_local p (hzw p hp)] at hk
    rw [getElem?_pieceText_end text a b (by omega) (by omega), cutsAt_endSafe p (hzw p hp) (hs p hp)] at hk
    simp at hk

end Spans
