import PeptVerif.Lemmas.CombinatoricParse
/-! Helper lemmas for C19 (round 5): outside `canon` - empty-but-present lists, results are in normal form. -/
namespace Pept

theorem optMods_dropEmptyList (o c : Char) (plus : Plus) (x : Option (List Mod)) :
    optMods o c plus (dropEmptyList x) = optMods o c plus x := by
  rcases x with _ | ⟨_ | ⟨m, l⟩⟩ <;> simp [dropEmptyList, optMods, serializeMods]

theorem normList_dropEmptyList (x : Option (List Mod)) : normList (dropEmptyList x) = normList x := by
  rcases x with _ | ⟨_ | ⟨m, l⟩⟩ <;> simp [dropEmptyList, normList]

theorem serializeStart_dropEmpty (plus : Plus) (a : Annotation) : serializeStart plus (dropEmpty a) = serializeStart plus a := by
  simp [serializeStart, dropEmpty, optMods_dropEmptyList]

theorem serializeEnd_dropEmpty (plus : Plus) (a : Annotation) : serializeEnd plus (dropEmpty a) = serializeEnd plus a := by
  simp only [serializeEnd, dropEmpty, optMods_dropEmptyList]
  rcases a.cterm with _ | ⟨_ | ⟨m, l⟩⟩ <;> simp [dropEmptyList]

theorem pieces_dropEmpty (a : Annotation) : pieces (dropEmpty a) = pieces a := rfl

theorem sizeOf_dropEmpty (a : Annotation) (size : Option Nat) : sizeOf (dropEmpty a) size = sizeOf a size := rfl

theorem components_dropEmpty (a : Annotation) : components (dropEmpty a) = components a := rfl

theorem wrap_dropEmpty (a : Annotation) (sel : List (Char × List Mod)) : wrap (dropEmpty a) sel = wrap a sel := by
  simp [wrap, dropEmpty, normList_dropEmptyList]

theorem assemble_dropEmpty (a : Annotation) : assemble (dropEmpty a) = assemble a := by
  funext comps; rw [assemble_eq_wrap, assemble_eq_wrap, wrap_dropEmpty]

theorem expansionText_dropEmpty (plus : Plus) (a : Annotation) (sel : List Annotation) :
    expansionText plus (dropEmpty a) sel = expansionText plus a sel := by
  simp [expansionText, serializeStart_dropEmpty, serializeEnd_dropEmpty]

theorem reparse_dropEmpty (a : Annotation) : reparse (dropEmpty a) = reparse a := by
  funext sel; simp [reparse, expansionText_dropEmpty]

theorem normMult_idem (m : Mod) : normMult (normMult m) = normMult m := by
  simp only [normMult]; split <;> simp_all

theorem normList_idem (x : Option (List Mod)) : normList (normList x) = normList x := by
  rcases x with _ | ⟨_ | ⟨m, l⟩⟩ <;> simp [normList, normMult_idem]

theorem okList_normList (x : Option (List Mod)) : okList (normList x) = true := by
  rcases x with _ | ⟨_ | ⟨m, l⟩⟩ <;> simp [normList, okList, normMult]
  all_goals (try constructor) <;> (try intros) <;> split <;> omega

end Pept
