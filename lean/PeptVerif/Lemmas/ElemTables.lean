import PeptVerif.Model.Chem
import PeptVerif.Generated.ElementMasses
/-!
The two derived element-mass tables of `Model/Chem.lean` equal the generated literals (kernel evaluation, once); a
literal-table version of `elemMass` for table obligations that look elements up thousands of times.  Mathlib-free.
-/
namespace Pept.Chem

theorem isotopic_lit_ok : isotopicMasses = Gen.isotopicLit := by decide +kernel
theorem average_lit_ok : averageMasses = Gen.averageLit := by decide +kernel

/-- `elemMass` over the literal tables -/
def elemMassLit (mono : Bool) (e : Elem) : Option Rat :=
  match lookup e Gen.isotopicLit with
  | none =>
    if e = kE then some Gen.electronMass
    else if e = kPp then some Gen.protonMass
    else if e = kNn then some Gen.neutronMass
    else none
  | some m =>
    if mono then some m
    else if isIsotopeKey e then some m
    else lookup e Gen.averageLit

theorem elemMass_eq_lit (mono : Bool) (e : Elem) : elemMass mono e = elemMassLit mono e := by
  unfold elemMass elemMassLit
  rw [isotopic_lit_ok, average_lit_ok]
  rfl


/-- the front table agrees with the two full tables -/
theorem front_ok : Gen.frontLit.all (fun p => decide (lookup p.1 Gen.isotopicLit = some p.2.1) &&
    decide (lookup p.1 Gen.averageLit = p.2.2)) = true := by decide +kernel

/-- `elemMass` with the most used keys looked up in the short front table first (kernel evaluation over thousands of
vocabulary compositions is dominated by these look-ups) -/
def elemMassFast (mono : Bool) (e : Elem) : Option Rat :=
  match lookup e Gen.frontLit with
  | some (m, a) => if mono then some m else if isIsotopeKey e then some m else a
  | none => elemMassLit mono e

theorem lookup_mem' {β} (k : Nat) (l : List (Nat × β)) (v : β) (h : lookup k l = some v) : (k, v) ∈ l := by
  induction l with
  | nil => simp [lookup] at h
  | cons p l ih =>
    obtain ⟨a, b⟩ := p
    simp only [lookup] at h
    split at h
    · rename_i hk; injection h with h; subst hk; subst h; exact List.mem_cons_self
    · exact List.mem_cons_of_mem _ (ih h)

theorem elemMassFast_eq (mono : Bool) (e : Elem) : elemMassFast mono e = elemMass mono e := by
  rw [elemMass_eq_lit]
  unfold elemMassFast
  cases hl : lookup e Gen.frontLit with
  | none => rfl
  | some p =>
    obtain ⟨m, a⟩ := p
    have hm := lookup_mem' e _ (m, a) hl
    have hk := List.all_eq_true.mp front_ok (e, m, a) hm
    simp only [Bool.and_eq_true, decide_eq_true_eq] at hk
    obtain ⟨h1, h2⟩ := hk
    unfold elemMassLit
    rw [h1, h2]

end Pept.Chem
