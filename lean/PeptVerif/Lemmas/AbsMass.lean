import Mathlib.Tactic.Ring
import Mathlib.Tactic.Linarith
import Mathlib.Data.Rat.Defs
import Mathlib.Algebra.Order.Field.Rat
import PeptVerif.Model.AbsMass
import PeptVerif.Lemmas.StaticMods
/-! Helper lemmas for C12 / C18: the fast-path mass is additive over the dictionary updates of condensation;
`chem_mass` is linear; relabelling a composition shifts its mass by count × mass difference. -/
namespace Pept
namespace AbsMass
open Static

/-! ### fast path -/

theorem sumMods_append (E : Env) (a b : List Mod) : sumMods E (a ++ b) = sumMods E a + sumMods E b := by
  induction a with
  | nil => simp [sumMods]
  | cons m a ih => simp only [List.cons_append, sumMods, ih]; ring

theorem optSum_appendMods (E : Env) (cur : Option (List Mod)) (ms : List Mod) :
    optSum E (appendMods cur ms) = optSum E cur + sumMods E ms := by
  cases cur with
  | none => simp [appendMods, optSum]
  | some l => simp [appendMods, optSum, sumMods_append]

theorem sumInternal_internalAppend (E : Env) (d : List (Int × List Mod)) (i : Int) (ms : List Mod) :
    sumInternal E (internalAppend d i ms) = sumInternal E d + sumMods E ms := by
  induction d with
  | nil => simp [internalAppend, sumInternal]
  | cons p d ih =>
    obtain ⟨k, v⟩ := p
    simp only [internalAppend]
    split
    · simp only [sumInternal, sumMods_append]; ring
    · simp only [sumInternal, ih]; ring

theorem optInt_addInternal (E : Env) (cur : Option (List (Int × List Mod))) (i : Int) (ms : List Mod) :
    optInt E (addInternal cur i ms) = optInt E cur + sumMods E ms := by
  cases cur with
  | none => simp [addInternal, optInt, sumInternal]
  | some d => simp [addInternal, optInt, sumInternal_internalAppend]

theorem optInt_addInternalAt (E : Env) (idx : List Nat) (cur : Option (List (Int × List Mod))) (ms : List Mod) :
    optInt E (addInternalAt cur idx ms) = optInt E cur + sumMods E ms * (idx.length : Nat) := by
  induction idx generalizing cur with
  | nil => simp [addInternalAt]
  | cons j idx ih =>
    have : addInternalAt cur (j :: idx) ms = addInternalAt (addInternal cur (Int.ofNat j) ms) idx ms := rfl
    rw [this, ih, optInt_addInternal]
    simp only [List.length_cons]; push_cast; ring

theorem optInt_applyResidueRules (E : Env) (seq : List Char) (m : StaticMap) (cur : Option (List (Int × List Mod))) :
    optInt E (applyResidueRules seq cur m) = optInt E cur + staticResidueMass E seq m := by
  induction m generalizing cur with
  | nil => simp [applyResidueRules, staticResidueMass]
  | cons p m ih =>
    obtain ⟨k, ms⟩ := p
    simp only [applyResidueRules, staticResidueMass]
    cases hk : isTermKey k with
    | true => simp [ih]
    | false =>
      simp only [ih, optInt_addInternalAt, targetIndices_length, Bool.false_eq_true, if_false]
      ring

theorem plainMass_applyMap (E : Env) (a : Annotation) (m : StaticMap) :
    plainMass E (applyMap a m) = staticMass E a.seq m + plainMass E a := by
  unfold plainMass staticMass
  simp only [applyMap, optInt_applyResidueRules]
  cases h1 : dictGet m nTermKey <;> cases h2 : dictGet m cTermKey <;>
    simp only [optSum_appendMods] <;> ring

/-- **central lemma of C12 (mass)**: on the fast path, condensing the static rules does not change the mass —
for any residue weights, modification weights and charge / ion-type term; errors included -/
theorem massFast_condense (E : Env) (a : Annotation) :
    (condenseStatic a >>= massFast E) = massFast E a := by
  unfold condenseStatic massFast
  cases hs : a.static with
  | none => simp [hs, bind, Except.bind]
  | some rules =>
    simp only
    cases hp : parseStaticMods (some rules) with
    | error e => simp [bind, Except.bind]
    | ok m =>
      simp only [bind, Except.bind]
      have : (applyMap a m).static = none := rfl
      simp only [this, plainMass_applyMap]

/-! ### compositions -/

theorem chemMass_compAdd1 (em : List Char → Rat) (c : Comp) (k : List Char) (v : Rat) :
    chemMass em (compAdd1 c k v) = chemMass em c + v * em k := by
  induction c with
  | nil => simp [compAdd1, chemMass]
  | cons p c ih =>
    obtain ⟨k', w⟩ := p
    simp only [compAdd1]
    split
    · rename_i h; subst h; simp only [chemMass]; ring
    · simp only [chemMass, ih]; ring

theorem chemMass_foldl (em : List Char → Rat) (d c : Comp) :
    chemMass em (d.foldl (fun acc p => compAdd1 acc p.1 p.2) c) = chemMass em c + chemMass em d := by
  induction d generalizing c with
  | nil => simp [chemMass]
  | cons p d ih =>
    obtain ⟨k, v⟩ := p
    simp only [List.foldl_cons, ih, chemMass_compAdd1, chemMass]; ring

theorem chemMass_compAdd (em : List Char → Rat) (c d : Comp) :
    chemMass em (compAdd c d) = chemMass em c + chemMass em d := chemMass_foldl em d c

theorem chemMass_dropZeros (em : List Char → Rat) (c : Comp) : chemMass em (dropZeros c) = chemMass em c := by
  induction c with
  | nil => rfl
  | cons p c ih =>
    obtain ⟨k, v⟩ := p
    unfold dropZeros at *
    by_cases h : v = 0
    · subst h; simp [List.filter_cons, chemMass, ih]
    · simp [List.filter_cons, h, chemMass, ih]

theorem chemMass_append (em : List Char → Rat) (c d : Comp) :
    chemMass em (c ++ d) = chemMass em c + chemMass em d := by
  induction c with
  | nil => simp [chemMass]
  | cons p c ih => obtain ⟨k, v⟩ := p; simp only [List.cons_append, chemMass, ih]; ring

/-! ### relabelling -/

/-- keys of a dict are distinct -/
def NodupKeys (c : Comp) : Prop := (c.map (·.1)).Nodup

theorem compHas_eq_true (c : Comp) (k : List Char) : compHas c k = true ↔ k ∈ c.map (·.1) := by
  induction c with
  | nil => simp [compHas]
  | cons p c ih =>
    obtain ⟨k', v⟩ := p
    simp only [compHas, Bool.or_eq_true, ih, List.map_cons, List.mem_cons, beq_iff_eq]
    constructor
    · rintro (h | h)
      · exact Or.inl h.symm
      · exact Or.inr h
    · rintro (h | h)
      · exact Or.inl h.symm
      · exact Or.inr h

theorem compGet_of_not_has (c : Comp) (k : List Char) (h : compHas c k = false) : compGet c k = 0 := by
  induction c with
  | nil => rfl
  | cons p c ih =>
    obtain ⟨k', v⟩ := p
    simp only [compHas, Bool.or_eq_false_iff, beq_eq_false_iff_ne] at h
    simp only [compGet, if_neg h.1, ih h.2]

/-- deleting a key of a dict with distinct keys removes exactly that key's contribution -/
theorem chemMass_compDel (em : List Char → Rat) (c : Comp) (k : List Char) (hn : NodupKeys c) :
    chemMass em (compDel c k) = chemMass em c - compGet c k * em k := by
  induction c with
  | nil => simp [compDel, chemMass, compGet]
  | cons p c ih =>
    obtain ⟨k', v⟩ := p
    have hn' : NodupKeys c := (List.nodup_cons.mp hn).2
    have hnot : k' ∉ c.map (·.1) := (List.nodup_cons.mp hn).1
    unfold compDel at *
    by_cases h : k' = k
    · subst h
      have hz : compHas c k' = false := by
        cases hh : compHas c k' with
        | false => rfl
        | true => exact absurd ((compHas_eq_true c k').mp hh) hnot
      have hg := compGet_of_not_has c k' hz
      have := ih hn'
      rw [hg] at this
      simp only [List.filter_cons, bne_self_eq_false, Bool.false_eq_true, if_false, this, chemMass, compGet, if_true]
      ring
    · have : (k' != k) = true := by simp [h]
      simp only [List.filter_cons, this, if_true, chemMass, compGet, if_neg h, ih hn']
      ring

theorem compGet_compAdd1 (c : Comp) (k x : List Char) (v : Rat) :
    compGet (compAdd1 c k v) x = compGet c x + (if x = k then v else 0) := by
  induction c with
  | nil =>
    by_cases h : x = k
    · subst h; simp [compAdd1, compGet]
    · have : ¬ k = x := fun e => h e.symm
      simp [compAdd1, compGet, h, this]
  | cons p c ih =>
    obtain ⟨k', w⟩ := p
    simp only [compAdd1]
    by_cases hk : k' = k
    · subst hk
      by_cases hx : x = k'
      · subst hx; simp [compGet]
      · have : ¬ k' = x := fun e => hx e.symm
        simp [compGet, hx, this]
    · by_cases hx : k' = x
      · subst hx
        have : ¬ k' = k := hk
        simp [compGet, hk]
      · simp [compGet, hk, hx, ih]

theorem keys_compAdd1 (c : Comp) (k : List Char) (v : Rat) :
    (compAdd1 c k v).map (·.1) = if k ∈ c.map (·.1) then c.map (·.1) else c.map (·.1) ++ [k] := by
  induction c with
  | nil => simp [compAdd1]
  | cons p c ih =>
    obtain ⟨k', w⟩ := p
    simp only [compAdd1]
    by_cases hk : k' = k
    · subst hk; simp
    · have : ¬ k = k' := fun e => hk e.symm
      simp only [if_neg hk, List.map_cons, ih, List.mem_cons, this, false_or]
      split <;> simp

theorem nodupKeys_compAdd1 (c : Comp) (k : List Char) (v : Rat) (h : NodupKeys c) : NodupKeys (compAdd1 c k v) := by
  unfold NodupKeys at *
  rw [keys_compAdd1]
  split
  · exact h
  · rename_i hk
    exact List.nodup_append.mpr ⟨h, by simp, by
      intro a ha b hb; simp at hb; subst hb; intro e; subst e; exact hk ha⟩

theorem nodupKeys_foldl (d c : Comp) (h : NodupKeys c) :
    NodupKeys (d.foldl (fun acc p => compAdd1 acc p.1 p.2) c) := by
  induction d generalizing c with
  | nil => exact h
  | cons p d ih => exact ih _ (nodupKeys_compAdd1 c p.1 p.2 h)

theorem nodupKeys_compAdd (c d : Comp) (h : NodupKeys c) : NodupKeys (compAdd c d) := nodupKeys_foldl d c h

theorem nodupKeys_nil : NodupKeys [] := by simp [NodupKeys]

/-- **one relabelling step shifts the mass by count × (label mass − element mass)** -/
theorem chemMass_relabel1 (em : List Char → Rat) (c : Comp) (el lab : List Char) (hn : NodupKeys c) :
    chemMass em (relabel1 c el lab) = chemMass em c + compGet c el * (em lab - em el) := by
  unfold relabel1
  cases hh : compHas c el with
  | false => simp [compGet_of_not_has c el hh]
  | true =>
    simp only [if_true]
    by_cases he : el = lab
    · subst he; simp
    · simp only [if_neg he]
      rw [chemMass_compDel em _ el (nodupKeys_compAdd1 c lab _ hn), chemMass_compAdd1, compGet_compAdd1]
      simp only [if_neg he]; ring

theorem keys_compDel_sublist (c : Comp) (k : List Char) : ((compDel c k).map (·.1)).Sublist (c.map (·.1)) := by
  unfold compDel
  exact List.Sublist.map _ List.filter_sublist

theorem nodupKeys_compDel (c : Comp) (k : List Char) (h : NodupKeys c) : NodupKeys (compDel c k) :=
  List.Nodup.sublist (keys_compDel_sublist c k) h

theorem nodupKeys_relabel1 (c : Comp) (el lab : List Char) (h : NodupKeys c) : NodupKeys (relabel1 c el lab) := by
  unfold relabel1
  split
  · split
    · exact h
    · exact nodupKeys_compDel _ _ (nodupKeys_compAdd1 _ _ _ h)
  · exact h

/-- the shift a label map produces on a composition, entry by entry (each entry sees the result of the previous ones) -/
def labelShift (em : List Char → Rat) : Comp → LabelMap → Rat
  | _, [] => 0
  | c, (el, lab) :: r => compGet c el * (em lab - em el) + labelShift em (relabel1 c el lab) r

theorem chemMass_relabel (em : List Char → Rat) (lm : LabelMap) (c : Comp) (hn : NodupKeys c) :
    chemMass em (relabel c lm) = chemMass em c + labelShift em c lm := by
  induction lm generalizing c with
  | nil => simp [relabel, labelShift]
  | cons p lm ih =>
    obtain ⟨el, lab⟩ := p
    have : relabel c ((el, lab) :: lm) = relabel (relabel1 c el lab) lm := rfl
    rw [this, ih _ (nodupKeys_relabel1 c el lab hn), chemMass_relabel1 em c el lab hn]
    simp only [labelShift]; ring

theorem compGet_compDel (c : Comp) (k x : List Char) :
    compGet (compDel c k) x = if x = k then 0 else compGet c x := by
  induction c with
  | nil => simp [compDel, compGet]
  | cons p c ih =>
    obtain ⟨k', v⟩ := p
    unfold compDel at *
    by_cases hk : k' = k
    · subst hk
      simp only [List.filter_cons, bne_self_eq_false, Bool.false_eq_true, if_false, ih]
      by_cases hx : x = k'
      · simp [hx]
      · have : ¬ k' = x := fun e => hx e.symm
        simp [hx, compGet, this]
    · have hne : (k' != k) = true := by simp [hk]
      simp only [List.filter_cons, hne, if_true, compGet]
      by_cases hx : k' = x
      · subst hx; simp [hk]
      · simp only [if_neg hx, ih]

theorem compGet_relabel1 (c : Comp) (el lab x : List Char) :
    compGet (relabel1 c el lab) x =
      if compHas c el = true ∧ el ≠ lab then
        (if x = el then 0 else compGet c x + (if x = lab then compGet c el else 0))
      else compGet c x := by
  unfold relabel1
  cases hh : compHas c el with
  | false => simp
  | true =>
    by_cases he : el = lab
    · subst he; simp
    · simp [he, compGet_compDel, compGet_compAdd1]

theorem compGet_relabel1_other (c : Comp) (el lab x : List Char) (h1 : x ≠ el) (h2 : x ≠ lab) :
    compGet (relabel1 c el lab) x = compGet c x := by
  rw [compGet_relabel1]; split <;> simp [h1, h2]

theorem compGet_relabel1_zero (c : Comp) (el lab x : List Char) (hx : compGet c x = 0) (hel : compGet c el = 0) :
    compGet (relabel1 c el lab) x = 0 := by
  rw [compGet_relabel1]
  split
  · split
    · rfl
    · rw [hx, hel]; split <;> simp
  · exact hx

/-- a label map whose elements all have count zero leaves the mass alone -/
theorem labelShift_zero (em : List Char → Rat) (lm : LabelMap) (c : Comp) (h : ∀ p ∈ lm, compGet c p.1 = 0) :
    labelShift em c lm = 0 := by
  induction lm generalizing c with
  | nil => rfl
  | cons p lm ih =>
    obtain ⟨el, lab⟩ := p
    have hel : compGet c el = 0 := h (el, lab) (by simp)
    simp only [labelShift, hel, zero_mul, zero_add]
    apply ih
    intro q hq
    exact compGet_relabel1_zero c el lab q.1 (h q (by simp [hq])) hel

/-! ### the dicts the composition path builds have distinct keys -/

theorem nodupKeys_seqCompOf (E : Env) (s : List Char) (acc : Comp) (h : NodupKeys acc) : NodupKeys (seqCompOf E s acc) := by
  induction s generalizing acc with
  | nil => exact h
  | cons c s ih => exact ih _ (nodupKeys_compAdd acc _ h)

theorem nodupKeys_sequenceComposition (E : Env) (a : Annotation) : NodupKeys (sequenceComposition E a) :=
  nodupKeys_compAdd _ _ (nodupKeys_compAdd _ _ (nodupKeys_seqCompOf E a.seq [] nodupKeys_nil))

theorem nodupKeys_compSum (E : Env) (l : List Mod) (acc : Comp) (h : NodupKeys acc) : NodupKeys (compSum E acc l) := by
  induction l generalizing acc with
  | nil => exact h
  | cons m l ih => exact ih _ (nodupKeys_compAdd acc _ h)

theorem nodupKeys_modComposition (E : Env) (a : Annotation) : NodupKeys (modComposition E a) := by
  unfold modComposition
  apply nodupKeys_compAdd1
  apply nodupKeys_compSum
  apply nodupKeys_compSum
  apply nodupKeys_compSum
  split
  · apply nodupKeys_compSum
    apply nodupKeys_compSum
    exact nodupKeys_compSum E _ [] nodupKeys_nil
  · apply nodupKeys_compSum
    exact nodupKeys_compSum E _ [] nodupKeys_nil

/-! ### condensing and the composition path -/

theorem condenseStatic_static (a c : Annotation) (h : condenseStatic a = .ok c) : c.static = none := by
  unfold condenseStatic at h
  cases hs : a.static with
  | none => simp [hs] at h; subst h; exact hs
  | some rules =>
    simp only [hs] at h
    cases hp : parseStaticMods (some rules) with
    | error e => simp [hp] at h
    | ok m => simp [hp] at h; subst h; rfl

theorem condenseStatic_idem (a c : Annotation) (h : condenseStatic a = .ok c) : condenseStatic c = .ok c := by
  have := condenseStatic_static a c h
  simp [condenseStatic, this]

theorem condenseStatic_seq (a c : Annotation) (h : condenseStatic a = .ok c) : c.seq = a.seq := by
  unfold condenseStatic at h
  cases hs : a.static with
  | none => simp [hs] at h; subst h; rfl
  | some rules =>
    simp only [hs] at h
    cases hp : parseStaticMods (some rules) with
    | error e => simp [hp] at h
    | ok m => simp [hp] at h; subst h; rfl

theorem condenseStatic_isotope (a c : Annotation) (L : Option (List Mod)) (h : condenseStatic a = .ok c) :
    condenseStatic { a with isotope := L } = .ok { c with isotope := L } := by
  unfold condenseStatic at h ⊢
  cases hs : a.static with
  | none => simp [hs] at h ⊢; subst h; simp [hs]
  | some rules =>
    simp only [hs] at h ⊢
    cases hp : parseStaticMods (some rules) with
    | error e => simp [hp] at h
    | ok m => simp [hp] at h ⊢; subst h; rfl

/-! ### the label shift depends on the counts only, and is additive in them -/

/-- one relabelling step on a count function -/
def relabelG {K : Type} [DecidableEq K] (g : K → ℚ) (el lab : K) : K → ℚ :=
  if el = lab then g else fun x => if x = el then 0 else g x + (if x = lab then g el else 0)

/-- the label shift of a count function (generic in the key type: text keys here, packed keys in `Model/Chem.lean`) -/
def shiftG {K : Type} [DecidableEq K] (em : K → ℚ) : (K → ℚ) → List (K × K) → ℚ
  | _, [] => 0
  | g, (el, lab) :: r => g el * (em lab - em el) + shiftG em (relabelG g el lab) r

theorem compGet_relabel1_G (c : Comp) (el lab : List Char) :
    compGet (relabel1 c el lab) = relabelG (compGet c) el lab := by
  funext x
  rw [compGet_relabel1]
  unfold relabelG
  by_cases he : el = lab
  · simp [he]
  · simp only [if_neg he, ne_eq, he, not_false_eq_true, and_true]
    cases hh : compHas c el with
    | true => simp
    | false =>
      have h0 := compGet_of_not_has c el hh
      by_cases hx : x = el
      · subst hx; simp [h0]
      · simp [hx, h0]

theorem labelShift_eq_shiftG (em : List Char → ℚ) (lm : LabelMap) (c : Comp) :
    labelShift em c lm = shiftG em (compGet c) lm := by
  induction lm generalizing c with
  | nil => rfl
  | cons p lm ih =>
    obtain ⟨el, lab⟩ := p
    simp only [labelShift, shiftG, ih, compGet_relabel1_G]

theorem relabelG_add {K : Type} [DecidableEq K] (g h : K → ℚ) (el lab : K) :
    relabelG (fun x => g x + h x) el lab = fun x => relabelG g el lab x + relabelG h el lab x := by
  unfold relabelG
  by_cases he : el = lab
  · simp [he]
  · simp only [if_neg he]
    funext x
    by_cases hx : x = el
    · simp [hx]
    · by_cases hl : x = lab
      · subst hl
        have : ¬ x = el := hx
        simp only [if_neg this, if_true]; ring
      · simp [hx, hl]

theorem shiftG_add {K : Type} [DecidableEq K] (em : K → ℚ) (lm : List (K × K)) (g h : K → ℚ) :
    shiftG em (fun x => g x + h x) lm = shiftG em g lm + shiftG em h lm := by
  induction lm generalizing g h with
  | nil => simp [shiftG]
  | cons p lm ih =>
    obtain ⟨el, lab⟩ := p
    simp only [shiftG, relabelG_add, ih]; ring

theorem shiftG_zero {K : Type} [DecidableEq K] (em : K → ℚ) (lm : List (K × K)) : shiftG em (fun _ => 0) lm = 0 := by
  induction lm with
  | nil => rfl
  | cons p lm ih =>
    obtain ⟨el, lab⟩ := p
    have : relabelG (fun _ => (0 : ℚ)) el lab = fun _ => 0 := by
      unfold relabelG; split
      · rfl
      · funext x; simp
    simp only [shiftG, this, ih]; ring

/-- the total count of a key over all entries (for a dict with distinct keys: its entry) -/
def compTotal (d : Comp) (x : List Char) : ℚ :=
  match d with
  | [] => 0
  | (k, v) :: r => (if k = x then v else 0) + compTotal r x

theorem compTotal_eq_get (d : Comp) (x : List Char) (hn : NodupKeys d) : compTotal d x = compGet d x := by
  induction d with
  | nil => rfl
  | cons p d ih =>
    obtain ⟨k, v⟩ := p
    have hn' : NodupKeys d := (List.nodup_cons.mp hn).2
    have hnot : k ∉ d.map (·.1) := (List.nodup_cons.mp hn).1
    simp only [compTotal, compGet]
    by_cases h : k = x
    · subst h
      have hz : compHas d k = false := by
        cases hh : compHas d k with
        | false => rfl
        | true => exact absurd ((compHas_eq_true d k).mp hh) hnot
      rw [ih hn', compGet_of_not_has d k hz]; simp
    · simp [h, ih hn']

theorem compGet_foldl (d c : Comp) (x : List Char) :
    compGet (d.foldl (fun acc p => compAdd1 acc p.1 p.2) c) x = compGet c x + compTotal d x := by
  induction d generalizing c with
  | nil => simp [compTotal]
  | cons p d ih =>
    obtain ⟨k, v⟩ := p
    simp only [List.foldl_cons, ih, compGet_compAdd1, compTotal]
    by_cases h : k = x
    · subst h; simp; ring
    · have : ¬ x = k := fun e => h e.symm
      simp [h, this]

theorem compGet_compAdd (c d : Comp) (x : List Char) (hn : NodupKeys d) :
    compGet (compAdd c d) x = compGet c x + compGet d x := by
  unfold compAdd
  rw [compGet_foldl, compTotal_eq_get d x hn]

theorem absentRuleBad_static_none (E : Env) (a : Annotation) (h : a.static = none) : absentRuleBad E a = false := by
  simp [absentRuleBad, h, parseStaticMods]

theorem absentRuleBad_isotope (E : Env) (a : Annotation) (L : Option (List Mod)) :
    absentRuleBad E { a with isotope := L } = absentRuleBad E a := rfl

end AbsMass
end Pept
