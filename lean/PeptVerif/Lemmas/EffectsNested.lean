import PeptVerif.Lemmas.Effects
import PeptVerif.Model.EffectsNested
/-! C08: nested execution is bounded by the summary-based analysis (proofs) -/

namespace Effects

theorem step_call (S : List Summary) (ret f : Nat) (args : List (Option Var)) (P : Pts) :
    step S (.call ret f args) P = callStep (summaryOf S f) ret args P := rfl

theorem targets_call (S : List Summary) (ret f : Nat) (args : List (Option Var)) (P : Pts) :
    targets S (.call ret f args) P = callTargets (summaryOf S f) args P := rfl

theorem summarize_eq (S : List Summary) (p : List Stmt) (A : Pts) (n r : Nat) :
    summarize S p A n r = summarizeFrom A (writeSet S p A) n r := rfl

/-! ### order on summaries -/

structure SumLe (a b : Summary) : Prop where
  writes : a.writes ⊆ b.writes
  globals : a.globals ⊆ b.globals
  retTop : a.retTop ⊆ b.retTop
  retKids : a.retKids ⊆ b.retKids
  retDeep : a.retDeep ⊆ b.retDeep
  links : a.links ⊆ b.links

theorem SumLe.trans {a b c : Summary} (h1 : SumLe a b) (h2 : SumLe b c) : SumLe a c :=
  ⟨fun _ h => h2.writes (h1.writes h), fun _ h => h2.globals (h1.globals h), fun _ h => h2.retTop (h1.retTop h),
   fun _ h => h2.retKids (h1.retKids h), fun _ h => h2.retDeep (h1.retDeep h), fun _ h => h2.links (h1.links h)⟩

theorem all_contains_subset {α : Type} [BEq α] [LawfulBEq α] {a b : List α} (h : a.all (fun x => b.contains x) = true) :
    a ⊆ b := by
  intro x hx
  rw [List.all_eq_true] at h
  simpa using h x hx

theorem summarySub_sound {a b : Summary} (h : summarySub a b = true) : SumLe a b := by
  unfold summarySub at h
  simp only [Bool.and_eq_true] at h
  obtain ⟨⟨⟨⟨⟨h1, h2⟩, h3⟩, h4⟩, h5⟩, h6⟩ := h
  exact ⟨all_contains_subset h1, all_contains_subset h2, all_contains_subset h3, all_contains_subset h4,
         all_contains_subset h5, all_contains_subset h6⟩

theorem mem_dedup {α : Type} [DecidableEq α] {x : α} : ∀ {l : List α}, x ∈ dedup l ↔ x ∈ l
  | [] => by simp [dedup]
  | a :: l => by
    unfold dedup
    by_cases ha : a ∈ dedup l
    · simp only [ha, if_true, List.mem_cons]
      constructor
      · intro h; exact Or.inr (mem_dedup.1 h)
      · rintro (h | h)
        · subst h; exact ha
        · exact mem_dedup.2 h
    · simp only [ha, if_false, List.mem_cons]
      constructor
      · rintro (h | h)
        · exact Or.inl h
        · exact Or.inr (mem_dedup.1 h)
      · rintro (h | h)
        · exact Or.inl h
        · exact Or.inr (mem_dedup.2 h)

theorem dedup_mono {α : Type} [DecidableEq α] {a b : List α} (h : a ⊆ b) : dedup a ⊆ dedup b :=
  fun _ hx => mem_dedup.2 (h (mem_dedup.1 hx))

theorem filterMap_mono {α β : Type} {a b : List α} (f : α → Option β) (h : a ⊆ b) : a.filterMap f ⊆ b.filterMap f := by
  intro y hy
  rcases List.mem_filterMap.1 hy with ⟨x, hx, hf⟩
  exact List.mem_filterMap.2 ⟨x, h hx, hf⟩

theorem map_mono {α β : Type} {a b : List α} (f : α → β) (h : a ⊆ b) : a.map f ⊆ b.map f := by
  intro y hy
  rcases List.mem_map.1 hy with ⟨x, hx, hf⟩
  exact List.mem_map.2 ⟨x, h hx, hf⟩

theorem filter_mono {α : Type} {a b : List α} (f : α → Bool) (h : a ⊆ b) : a.filter f ⊆ b.filter f := by
  intro y hy
  rcases List.mem_filter.1 hy with ⟨hx, hf⟩
  exact List.mem_filter.2 ⟨h hx, hf⟩

theorem flatMap_mono' {α β : Type} {l : List α} {f g : α → List β} (h : ∀ a, f a ⊆ g a) : l.flatMap f ⊆ l.flatMap g := by
  intro o ho
  rcases List.mem_flatMap.1 ho with ⟨a, ha, hoa⟩
  exact List.mem_flatMap.2 ⟨a, ha, h a hoa⟩

theorem flatMap_mono_list {α β : Type} {l l' : List α} (f : α → List β) (h : l ⊆ l') : l.flatMap f ⊆ l'.flatMap f := by
  intro o ho
  rcases List.mem_flatMap.1 ho with ⟨a, ha, hoa⟩
  exact List.mem_flatMap.2 ⟨a, h ha, hoa⟩

theorem append_mono' {α : Type} {a a' b b' : List α} (ha : a ⊆ a') (hb : b ⊆ b') : a ++ b ⊆ a' ++ b' := by
  intro o ho
  rcases List.mem_append.1 ho with ho | ho
  · exact List.mem_append.2 (Or.inl (ha ho))
  · exact List.mem_append.2 (Or.inr (hb ho))

/-- the summary of a run is monotone in what the run did -/
theorem summarizeFrom_mono {P A : Pts} {w w' : List Obj} (hP : Le P A) (hw : w ⊆ w') (n r : Nat) :
    SumLe (summarizeFrom P w n r) (summarizeFrom A w' n r) := by
  refine ⟨dedup_mono (flatMap_mono_list _ hw), dedup_mono (filterMap_mono _ hw), dedup_mono (map_mono _ (hP r).1),
    dedup_mono (map_mono _ (hP r).2.1), dedup_mono (map_mono _ (hP r).2.2), dedup_mono (flatMap_mono' (fun j => ?_))⟩
  exact append_mono' (map_mono _ (filter_mono _ (hP j).2.1)) (map_mono _ (filter_mono _ (hP j).2.2))

/-! ### a call with a smaller summary on a smaller table stays within a table closed under the call with the full summary -/

theorem links_fold_le' {P A : Pts} (hP : Le P A) (args : List (Option Var)) (ret : Var) (ls : List (Nat × Bool × Src))
    (h : ∀ l, l ∈ ls → Le (link A (argCell A args l.1).top (cond l.2.1 (sel A args ret l.2.2))
        (cond (!l.2.1) (sel A args ret l.2.2))) A) :
    ∀ {Q : Pts}, Le Q A →
      Le (ls.foldl (fun Q l => link Q (argCell P args l.1).top (cond l.2.1 (sel P args ret l.2.2))
            (cond (!l.2.1) (sel P args ret l.2.2))) Q) A := by
  induction ls with
  | nil => intro Q hQ; exact hQ
  | cons l ls ih =>
    intro Q hQ
    simp only [List.foldl_cons]
    refine ih (fun l' hl' => h l' (List.mem_cons_of_mem _ hl')) ?_
    exact (link_mono hQ (argCell_mono hP args l.1).1 (cond_mono (fun x => x) (sel_mono hP args ret l.2.2))
      (cond_mono (fun x => x) (sel_mono hP args ret l.2.2))).trans (h l List.mem_cons_self)

theorem callStep_le {S : List Summary} {s : Summary} {ret f : Nat} {args : List (Option Var)} {P A : Pts}
    (hs : SumLe s (summaryOf S f)) (hc : closedStmt S (.call ret f args) A = true) (hP : Le P A) :
    Le (callStep s ret args P) A := by
  simp only [closedStmt, Bool.and_eq_true, List.all_eq_true] at hc
  unfold callStep
  refine add_le ret (links_fold_le' hP args ret s.links (fun l hl => linkClosed_sound (hc.1 l (hs.links hl))) hP) ?_
  refine CellLe.trans ⟨?_, ?_, ?_⟩ (cellSub_sound hc.2)
  · exact fun o ho => flatMap_mono_list _ hs.retTop (flatMap_mono' (fun x => sel_mono hP args ret x) ho)
  · exact fun o ho => flatMap_mono_list _ hs.retKids (flatMap_mono' (fun x => sel_mono hP args ret x) ho)
  · exact fun o ho => flatMap_mono_list _ hs.retDeep (flatMap_mono' (fun x => sel_mono hP args ret x) ho)

theorem callTargets_le {s s' : Summary} {args : List (Option Var)} {P A : Pts} (hs : SumLe s s') (hP : Le P A) :
    callTargets s args P ⊆ callTargets s' args A := by
  unfold callTargets
  refine append_mono' ?_ (map_mono _ hs.globals)
  intro o ho
  refine flatMap_mono_list _ hs.writes (flatMap_mono' (fun w => ?_) ho)
  by_cases hw : w.2 = true
  · simp only [hw, if_true]; exact append_mono (argCell_mono hP args w.1).2.1 (argCell_mono hP args w.1).2.2
  · have : w.2 = false := by simpa using hw
    simp only [this, Bool.false_eq_true, if_false]; exact (argCell_mono hP args w.1).1

/-- for statements other than calls the summary table is irrelevant -/
theorem step_noncall (S S' : List Summary) (st : Stmt) (h : ∀ ret f args, st ≠ .call ret f args) (P : Pts) :
    step S st P = step S' st P ∧ targets S st P = targets S' st P := by
  cases st with
  | call ret f args => exact absurd rfl (h ret f args)
  | _ => exact ⟨rfl, rfl⟩

/-- **Nested execution is bounded by the summary-based analysis.**  If the table `S` is closed under every body of `fns`,
then running any body with real nested calls, along any nested trace, from any state below its table `A`, stays below `A`
and writes only objects of `writeSet S p A`. -/
theorem nested_bounded (S : List Summary) (fns : List FnInfo)
    (hclosed : ∀ f i, fns[f]? = some i → closedAt S fns f = true) :
    ∀ (tr : NTrace) (p : List Stmt) (A : Pts), closedB S p A = true → ∀ (σ : NState), Le σ.pts A →
      Le (execN fns p tr σ).pts A ∧ ∀ o, o ∈ (execN fns p tr σ).log → o ∈ σ.log ∨ o ∈ writeSet S p A := by
  intro tr
  induction tr with
  | done => intro p A _ σ h; exact ⟨h, fun o ho => Or.inl ho⟩
  | step k sub rest ihsub ihrest =>
    intro p A hA σ hσ
    have hpost := closedB_sound hA
    simp only [execN]
    cases hk : p[k]? with
    | none => exact ihrest p A hA σ hσ
    | some st =>
      have hst : st ∈ p := List.mem_of_getElem? hk
      have hcs : closedStmt S st A = true := by
        unfold closedB at hA
        rw [List.all_eq_true] at hA
        exact hA st hst
      -- common tail: a state below A whose new log entries are in the write set
      have tail : ∀ (P' : Pts) (l' : List Obj), Le P' A → l' ⊆ targets S st A →
          Le (execN fns p rest ⟨P', σ.log ++ l'⟩).pts A ∧
            ∀ o, o ∈ (execN fns p rest ⟨P', σ.log ++ l'⟩).log → o ∈ σ.log ∨ o ∈ writeSet S p A := by
        intro P' l' hP' hl'
        obtain ⟨h1, h2⟩ := ihrest p A hA ⟨P', σ.log ++ l'⟩ hP'
        refine ⟨h1, fun o ho => ?_⟩
        rcases h2 o ho with h | h
        · rcases List.mem_append.1 h with h | h
          · exact Or.inl h
          · exact Or.inr (List.mem_flatMap.2 ⟨st, hst, hl' h⟩)
        · exact Or.inr h
      cases st with
      | call ret f args =>
        simp only
        cases hf : fns[f]? with
        | none => exact ihrest p A hA σ hσ
        | some i =>
          simp only
          have hcl := hclosed f i hf
          unfold closedAt at hcl
          rw [hf] at hcl
          simp only [Bool.and_eq_true] at hcl
          obtain ⟨hb, hsub⟩ := ihsub i.prog i.table hcl.1 ⟨[], []⟩ (nil_le _)
          have hlog : (execN fns i.prog sub ⟨[], []⟩).log ⊆ writeSet S i.prog i.table := by
            intro o ho
            rcases hsub o ho with h | h
            · cases h
            · exact h
          have hs : SumLe (summarizeFrom (execN fns i.prog sub ⟨[], []⟩).pts (execN fns i.prog sub ⟨[], []⟩).log i.nparams i.ret)
              (summaryOf S f) :=
            (summarizeFrom_mono hb hlog i.nparams i.ret).trans (by
              rw [← summarize_eq]; exact summarySub_sound hcl.2)
          exact tail _ _ (callStep_le hs hcs hσ) (by
            rw [targets_call]; exact callTargets_le hs hσ)
      | param x i =>
        exact tail _ _ ((step_mono S (.param x i) hσ).trans (hpost _ hst)) (targets_mono S (.param x i) hσ)
      | global x g =>
        exact tail _ _ ((step_mono S (.global x g) hσ).trans (hpost _ hst)) (targets_mono S (.global x g) hσ)
      | alias x ys =>
        exact tail _ _ ((step_mono S (.alias x ys) hσ).trans (hpost _ hst)) (targets_mono S (.alias x ys) hσ)
      | elem x y =>
        exact tail _ _ ((step_mono S (.elem x y) hσ).trans (hpost _ hst)) (targets_mono S (.elem x y) hσ)
      | asRec x y d =>
        exact tail _ _ ((step_mono S (.asRec x y d) hσ).trans (hpost _ hst)) (targets_mono S (.asRec x y d) hσ)
      | leaf x y =>
        exact tail _ _ ((step_mono S (.leaf x y) hσ).trans (hpost _ hst)) (targets_mono S (.leaf x y) hσ)
      | fresh x =>
        exact tail _ _ ((step_mono S (.fresh x) hσ).trans (hpost _ hst)) (targets_mono S (.fresh x) hσ)
      | shallow x ys =>
        exact tail _ _ ((step_mono S (.shallow x ys) hσ).trans (hpost _ hst)) (targets_mono S (.shallow x ys) hσ)
      | pack x ys =>
        exact tail _ _ ((step_mono S (.pack x ys) hσ).trans (hpost _ hst)) (targets_mono S (.pack x ys) hσ)
      | store x y =>
        exact tail _ _ ((step_mono S (.store x y) hσ).trans (hpost _ hst)) (targets_mono S (.store x y) hσ)
      | write x =>
        exact tail _ _ ((step_mono S (.write x) hσ).trans (hpost _ hst)) (targets_mono S (.write x) hσ)
      | gwrite g =>
        exact tail _ _ ((step_mono S (.gwrite g) hσ).trans (hpost _ hst)) (targets_mono S (.gwrite g) hσ)

end Effects
