import PeptVerif.Lemmas.FormulaRT
/-!
# Hill ordering of `write_chem_formula` — helper lemmas for `Props/C15Ext.lean`

`sortBy key` (`Model/Formula.lean`) is the model of Python's `sorted(items, key=…)`: a left fold of the stable insertion
`insertBy`.  Here: the result is sorted by `key`, and the sort is stable (for every key value the entries with that key keep
their original relative order).  Together with `sortBy_perm` these three facts determine the result uniquely.
-/
namespace C15
open ModDb Formula

abbrev SortedBy {α : Type} (key : α → Nat) (l : List α) : Prop := l.Pairwise (fun a b => key a ≤ key b)

theorem mem_insertBy {α : Type} (key : α → Nat) (x y : α) (l : List α) :
    y ∈ insertBy key x l ↔ y = x ∨ y ∈ l := by
  induction l with
  | nil => simp [insertBy]
  | cons z r ih =>
    by_cases h : key x < key z
    · simp [insertBy, h]
    · simp only [insertBy, h, if_false, List.mem_cons, ih]
      constructor
      · rintro (h1 | h1 | h1)
        · exact .inr (.inl h1)
        · exact .inl h1
        · exact .inr (.inr h1)
      · rintro (h1 | h1 | h1)
        · exact .inr (.inl h1)
        · exact .inl h1
        · exact .inr (.inr h1)

theorem insertBy_sorted {α : Type} (key : α → Nat) (x : α) (l : List α) (h : SortedBy key l) :
    SortedBy key (insertBy key x l) := by
  induction l with
  | nil => simp [SortedBy, insertBy]
  | cons z r ih =>
    have hz := List.pairwise_cons.1 h
    by_cases hlt : key x < key z
    · simp only [insertBy, hlt, if_true]
      refine List.pairwise_cons.2 ⟨?_, h⟩
      intro b hb
      rcases List.mem_cons.1 hb with rfl | hb
      · omega
      · have := hz.1 b hb
        omega
    · simp only [insertBy, hlt, if_false]
      refine List.pairwise_cons.2 ⟨?_, ih hz.2⟩
      intro b hb
      rcases (mem_insertBy key x b r).1 hb with rfl | hb
      · omega
      · exact hz.1 b hb

theorem foldl_insertBy_sorted {α : Type} (key : α → Nat) (l acc : List α) (h : SortedBy key acc) :
    SortedBy key (l.foldl (fun acc x => insertBy key x acc) acc) := by
  induction l generalizing acc with
  | nil => exact h
  | cons x l ih => exact ih _ (insertBy_sorted key x acc h)

theorem sortBy_sorted {α : Type} (key : α → Nat) (l : List α) : SortedBy key (sortBy key l) := by
  unfold sortBy
  exact foldl_insertBy_sorted key l [] List.Pairwise.nil

/-- stable insertion: among the entries of one key value, the new entry comes last -/
theorem insertBy_filter {α : Type} (key : α → Nat) (n : Nat) (x : α) (l : List α) (h : SortedBy key l) :
    (insertBy key x l).filter (fun a => key a == n) =
      l.filter (fun a => key a == n) ++ (if key x == n then [x] else []) := by
  induction l with
  | nil => by_cases hx : key x == n <;> simp [insertBy, hx]
  | cons z r ih =>
    have hz := List.pairwise_cons.1 h
    by_cases hlt : key x < key z
    · simp only [insertBy, hlt, if_true]
      by_cases hx : key x == n
      · have hx' : key x = n := by simpa using hx
        have hnone : (z :: r).filter (fun a => key a == n) = [] := by
          apply List.filter_eq_nil_iff.2
          intro a ha
          have hge : key z ≤ key a := by
            rcases List.mem_cons.1 ha with rfl | ha
            · exact Nat.le_refl _
            · exact hz.1 a ha
          have : key a ≠ n := by omega
          simpa using this
        rw [List.filter_cons, if_pos hx, hnone]
        simp [hx]
      · rw [List.filter_cons, if_neg hx]
        simp [hx]
    · simp only [insertBy, hlt, if_false]
      rw [List.filter_cons, List.filter_cons, ih hz.2]
      by_cases hzn : key z == n <;> simp [hzn]

theorem foldl_insertBy_filter {α : Type} (key : α → Nat) (n : Nat) (l acc : List α) (h : SortedBy key acc) :
    (l.foldl (fun acc x => insertBy key x acc) acc).filter (fun a => key a == n) =
      acc.filter (fun a => key a == n) ++ l.filter (fun a => key a == n) := by
  induction l generalizing acc with
  | nil => simp
  | cons x l ih =>
    simp only [List.foldl_cons]
    rw [ih _ (insertBy_sorted key x acc h), insertBy_filter key n x acc h, List.filter_cons]
    by_cases hx : key x == n <;> simp [hx]

theorem sortBy_stable {α : Type} (key : α → Nat) (n : Nat) (l : List α) :
    (sortBy key l).filter (fun a => key a == n) = l.filter (fun a => key a == n) := by
  unfold sortBy
  simpa using foldl_insertBy_filter key n l [] List.Pairwise.nil

/-- two lists sorted by `key` with the same sub-list for every key value are equal -/
theorem sorted_filter_ext {α : Type} (key : α → Nat) (r s : List α) (hr : SortedBy key r) (hs : SortedBy key s)
    (h : ∀ n, r.filter (fun a => key a == n) = s.filter (fun a => key a == n)) : r = s := by
  induction r generalizing s with
  | nil =>
    cases s with
    | nil => rfl
    | cons y s' =>
      have := h (key y)
      simp at this
  | cons x r' ih =>
    cases s with
    | nil =>
      have := h (key x)
      simp at this
    | cons y s' =>
      have hr' := List.pairwise_cons.1 hr
      have hs' := List.pairwise_cons.1 hs
      have hx : x ∈ (y :: s') := by
        have hm : x ∈ (x :: r').filter (fun a => key a == key x) := by simp
        rw [h (key x)] at hm
        exact (List.mem_filter.1 hm).1
      have hy : y ∈ (x :: r') := by
        have hm : y ∈ (y :: s').filter (fun a => key a == key y) := by simp
        rw [← h (key y)] at hm
        exact (List.mem_filter.1 hm).1
      have h1 : key y ≤ key x := by
        rcases List.mem_cons.1 hx with hxy | hx
        · rw [hxy]
        · exact hs'.1 x hx
      have h2 : key x ≤ key y := by
        rcases List.mem_cons.1 hy with hyx | hy
        · rw [hyx]
        · exact hr'.1 y hy
      have hk : key y = key x := by omega
      have h0 := h (key x)
      simp [hk] at h0
      obtain ⟨hxy, h0'⟩ := h0
      rw [← hxy]
      congr 1
      apply ih s' hr'.2 hs'.2
      intro n
      by_cases hn : key x == n
      · have hn' : key x = n := by simpa using hn
        rw [← hn']
        exact h0'
      · have hh := h n
        simpa [List.filter_cons, hn, hk] using hh

end C15
