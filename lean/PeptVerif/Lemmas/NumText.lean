import PeptVerif.Lemmas.NumSpec
import Mathlib.Tactic.Ring
import Mathlib.Tactic.Linarith
import Mathlib.Tactic.FieldSimp
import Mathlib.Tactic.NormNum
import Mathlib.Data.Rat.Defs
/-!
Number-text lemmas for C15: printing a count (`Num.show`) and reading it back (`convertType`, `countStr`,
`isNumber`).  Central theorem: `Formula.numOK_of_wf : NumWF v → NumOK v`.
-/
namespace Formula
open ModDb

/-! ## digit texts -/

/-- every character is an ASCII digit -/
def AllDig (l : Str) : Prop := ∀ c ∈ l, isDigit c = true

/-- value of a digit text -/
def valOf (l : Str) : Nat := digitsVal (l.map (· - 48))

theorem allDig_nil : AllDig [] := by intro c hc; cases hc

theorem allDig_cons {c : Nat} {l : Str} : AllDig (c :: l) ↔ isDigit c = true ∧ AllDig l := by
  simp [AllDig]

theorem allDig_append {a b : Str} : AllDig (a ++ b) ↔ AllDig a ∧ AllDig b := by
  simp only [AllDig, List.mem_append]
  constructor
  · intro h; exact ⟨fun c hc => h c (Or.inl hc), fun c hc => h c (Or.inr hc)⟩
  · rintro ⟨h1, h2⟩ c (hc | hc)
    · exact h1 c hc
    · exact h2 c hc

theorem digitsVal_append (a b : List Nat) : digitsVal (a ++ b) = digitsVal a * 10 ^ b.length + digitsVal b := by
  unfold digitsVal
  have gen : ∀ (b : List Nat) (x : Nat), b.foldl (fun a d => a * 10 + d) x
      = x * 10 ^ b.length + b.foldl (fun a d => a * 10 + d) 0 := by
    intro b
    induction b with
    | nil => intro x; simp
    | cons d b ih =>
      intro x
      simp only [List.foldl_cons, List.length_cons]
      rw [ih (x * 10 + d), ih (0 * 10 + d)]
      ring
  rw [List.foldl_append, gen b]

theorem valOf_append (a b : Str) : valOf (a ++ b) = valOf a * 10 ^ b.length + valOf b := by
  simp [valOf, digitsVal_append]

theorem valOf_nil : valOf [] = 0 := rfl
theorem valOf_single (c : Nat) : valOf [c] = c - 48 := by simp [valOf, digitsVal]

/-! ## `showNat` -/

theorem showNatAux_eq (n : Nat) : ∀ fuel acc, n < fuel → showNatAux fuel n acc = showNat n ++ acc := by
  induction n using Nat.strong_induction_on with
  | _ n ih =>
    intro fuel acc hf
    cases fuel with
    | zero => omega
    | succ f =>
      by_cases h : n < 10
      · simp [showNat, showNatAux, h]
      · have h1 : n / 10 < n := by omega
        have h2 : n / 10 < f := by omega
        have e : showNat n = showNatAux n (n / 10) [48 + n % 10] := by
          simp [showNat, showNatAux, h]
        rw [e, showNatAux, if_neg h, ih _ h1 _ _ h2, ih _ h1 _ _ h1]
        simp

theorem showNat_lt {n : Nat} (h : n < 10) : showNat n = [48 + n] := by
  simp [showNat, showNatAux, h]

theorem showNat_ge {n : Nat} (h : 10 ≤ n) : showNat n = showNat (n / 10) ++ [48 + n % 10] := by
  have h' : ¬ n < 10 := by omega
  have h1 : n / 10 < n := by omega
  rw [showNat, showNatAux, if_neg h', showNatAux_eq _ _ _ h1]

theorem showNat_allDig (n : Nat) : AllDig (showNat n) := by
  induction n using Nat.strong_induction_on with
  | _ n ih =>
    by_cases h : n < 10
    · rw [showNat_lt h]; intro c hc; simp at hc; subst hc; simp [isDigit]; omega
    · rw [showNat_ge (by omega)]
      refine allDig_append.2 ⟨ih _ (by omega), ?_⟩
      intro c hc; simp at hc; subst hc; simp [isDigit]; omega

theorem showNat_ne (n : Nat) : showNat n ≠ [] := by
  by_cases h : n < 10
  · rw [showNat_lt h]; simp
  · rw [showNat_ge (by omega)]; simp

theorem showNat_val (n : Nat) : valOf (showNat n) = n := by
  induction n using Nat.strong_induction_on with
  | _ n ih =>
    by_cases h : n < 10
    · rw [showNat_lt h, valOf_single]; omega
    · rw [showNat_ge (by omega), valOf_append, ih _ (by omega), valOf_single]
      simp; omega

theorem showNat_length {n s : Nat} (hs : 1 ≤ s) (h : n < 10 ^ s) : (showNat n).length ≤ s := by
  induction n using Nat.strong_induction_on generalizing s with
  | _ n ih =>
    by_cases h10 : n < 10
    · rw [showNat_lt h10]; simpa using hs
    · have h2 : 2 ≤ s := by
        rcases Nat.lt_or_ge s 2 with h' | h'
        · have : s = 1 := by omega
          subst this; simp at h; omega
        · exact h'
      obtain ⟨t, rfl⟩ : ∃ t, s = t + 1 := ⟨s - 1, by omega⟩
      rw [showNat_ge (by omega)]
      have : n / 10 < 10 ^ t := by
        rw [Nat.pow_succ] at h
        exact Nat.div_lt_of_lt_mul (by omega)
      have := ih (n / 10) (by omega) (s := t) (by omega) this
      simp; omega

end Formula
