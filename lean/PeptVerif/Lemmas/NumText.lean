import PeptVerif.Lemmas.NumSpec
import Mathlib.Tactic.Ring
import Mathlib.Tactic.Linarith
import Mathlib.Tactic.FieldSimp
import Mathlib.Tactic.NormNum
import Mathlib.Data.Rat.Defs
import Mathlib.Algebra.Field.Rat
/-!
Number-text lemmas for C15: printing a count (`Num.show`) and reading it back (`convertType`, `countStr`,
`isNumber`).  Central theorem: `Formula.numOK_of_wf : NumWF v → NumOK v`.
-/
namespace Formula
open ModDb

/-! ## digit texts -/

/-- every character is an ASCII digit -/
def AllDig (l : Str) : Prop := ∀ c ∈ l, isDigit c = true

/-- value of a digit text -/
def valOf (l : Str) : Nat := digitsVal (l.map (· - 48))

theorem allDig_nil : AllDig [] := by intro c hc; cases hc

theorem allDig_cons {c : Nat} {l : Str} : AllDig (c :: l) ↔ isDigit c = true ∧ AllDig l := by
  simp [AllDig]

theorem allDig_append {a b : Str} : AllDig (a ++ b) ↔ AllDig a ∧ AllDig b := by
  simp only [AllDig, List.mem_append]
  constructor
  · intro h; exact ⟨fun c hc => h c (Or.inl hc), fun c hc => h c (Or.inr hc)⟩
  · rintro ⟨h1, h2⟩ c (hc | hc)
    · exact h1 c hc
    · exact h2 c hc

theorem digitsVal_append (a b : List Nat) : digitsVal (a ++ b) = digitsVal a * 10 ^ b.length + digitsVal b := by
  unfold digitsVal
  have gen : ∀ (b : List Nat) (x : Nat), b.foldl (fun a d => a * 10 + d) x
      = x * 10 ^ b.length + b.foldl (fun a d => a * 10 + d) 0 := by
    intro b
    induction b with
    | nil => intro x; simp
    | cons d b ih =>
      intro x
      simp only [List.foldl_cons, List.length_cons]
      rw [ih (x * 10 + d), ih (0 * 10 + d)]
      ring
  rw [List.foldl_append, gen b]

theorem valOf_append (a b : Str) : valOf (a ++ b) = valOf a * 10 ^ b.length + valOf b := by
  simp [valOf, digitsVal_append]

theorem valOf_nil : valOf [] = 0 := rfl
theorem valOf_single (c : Nat) : valOf [c] = c - 48 := by simp [valOf, digitsVal]

/-! ## `showNat` -/

theorem showNatAux_eq (n : Nat) : ∀ fuel acc, n < fuel → showNatAux fuel n acc = showNat n ++ acc := by
  induction n using Nat.strong_induction_on with
  | _ n ih =>
    intro fuel acc hf
    cases fuel with
    | zero => omega
    | succ f =>
      by_cases h : n < 10
      · simp [showNat, showNatAux, h]
      · have h1 : n / 10 < n := by omega
        have h2 : n / 10 < f := by omega
        have e : showNat n = showNatAux n (n / 10) [48 + n % 10] := by
          simp [showNat, showNatAux, h]
        rw [e, showNatAux, if_neg h, ih _ h1 _ _ h2, ih _ h1 _ _ h1]
        simp

theorem showNat_lt {n : Nat} (h : n < 10) : showNat n = [48 + n] := by
  simp [showNat, showNatAux, h]

theorem showNat_ge {n : Nat} (h : 10 ≤ n) : showNat n = showNat (n / 10) ++ [48 + n % 10] := by
  have h' : ¬ n < 10 := by omega
  have h1 : n / 10 < n := by omega
  rw [showNat, showNatAux, if_neg h', showNatAux_eq _ _ _ h1]

theorem showNat_allDig (n : Nat) : AllDig (showNat n) := by
  induction n using Nat.strong_induction_on with
  | _ n ih =>
    by_cases h : n < 10
    · rw [showNat_lt h]; intro c hc; simp at hc; subst hc; simp [isDigit]; omega
    · rw [showNat_ge (by omega)]
      refine allDig_append.2 ⟨ih _ (by omega), ?_⟩
      intro c hc; simp at hc; subst hc; simp [isDigit]; omega

theorem showNat_ne (n : Nat) : showNat n ≠ [] := by
  by_cases h : n < 10
  · rw [showNat_lt h]; simp
  · rw [showNat_ge (by omega)]; simp

theorem showNat_val (n : Nat) : valOf (showNat n) = n := by
  induction n using Nat.strong_induction_on with
  | _ n ih =>
    by_cases h : n < 10
    · rw [showNat_lt h, valOf_single]; omega
    · rw [showNat_ge (by omega), valOf_append, ih _ (by omega), valOf_single]
      simp; omega

theorem showNat_length {n s : Nat} (hs : 1 ≤ s) (h : n < 10 ^ s) : (showNat n).length ≤ s := by
  induction n using Nat.strong_induction_on generalizing s with
  | _ n ih =>
    by_cases h10 : n < 10
    · rw [showNat_lt h10]; simpa using hs
    · have h2 : 2 ≤ s := by
        rcases Nat.lt_or_ge s 2 with h' | h'
        · have : s = 1 := by omega
          subst this; simp at h; omega
        · exact h'
      obtain ⟨t, rfl⟩ : ∃ t, s = t + 1 := ⟨s - 1, by omega⟩
      rw [showNat_ge (by omega)]
      have : n / 10 < 10 ^ t := by
        rw [Nat.pow_succ] at h
        exact Nat.div_lt_of_lt_mul (by omega)
      have := ih (n / 10) (by omega) (s := t) (by omega) this
      simp; omega

/-! ## scanners on digit texts -/

theorem digitRun_digits (ds : Str) (hd : AllDig ds) (rest : Str)
    (hr : ∀ c r, rest = c :: r → isDigit c = false ∧ c ≠ 95) (b : Bool) (acc : List Nat) :
    digitRun (ds ++ rest) b acc = (acc.reverse ++ ds.map (· - 48), rest) := by
  induction ds generalizing b acc with
  | nil =>
    cases rest with
    | nil => simp [digitRun]
    | cons c r =>
      obtain ⟨h1, h2⟩ := hr c r rfl
      simp [digitRun, h1, h2]
  | cons d ds ih =>
    obtain ⟨h1, h2⟩ := allDig_cons.1 hd
    simp [digitRun, h1, ih h2]

theorem spanP_digits (ds : Str) (hd : AllDig ds) (rest : Str)
    (hr : ∀ c r, rest = c :: r → isDigit c = false) : spanP isDigit (ds ++ rest) = (ds, rest) := by
  induction ds with
  | nil =>
    cases rest with
    | nil => simp [spanP]
    | cons c r => simp [spanP, hr c r rfl]
  | cons d ds ih =>
    obtain ⟨h1, h2⟩ := allDig_cons.1 hd
    simp [spanP, h1, ih h2]

theorem stripL_id (s : Str) (h : ∀ c r, s = c :: r → isWs c = false) : stripL s = s := by
  cases s with
  | nil => rfl
  | cons c r => simp [stripL, h c r rfl]

theorem strip_id (s : Str) (h : ∀ c ∈ s, isWs c = false) : strip s = s := by
  unfold strip
  rw [stripL_id s (fun c r e => h c (by simp [e])), stripL_id, List.reverse_reverse]
  intro c r e
  apply h c
  have : c ∈ s.reverse := by simp [e]
  simpa using this

theorem digit_not_ws {c : Nat} (h : isDigit c = true) : isWs c = false := by
  simp [isDigit] at h
  simp [isWs]; omega

/-! ## number texts: `-? digits` and `-? digits . digits` -/

def signTxt (neg : Bool) : Str := if neg then [45] else []
def signVal (neg : Bool) : Int := if neg then -1 else 1

theorem signOf_signTxt (neg : Bool) (c : Nat) (t : Str) (hc : isDigit c = true) :
    signOf (signTxt neg ++ c :: t) = (signVal neg, c :: t) := by
  simp [isDigit] at hc
  cases neg
  · simp only [signTxt, signVal, Bool.false_eq_true, if_false, List.nil_append]
    unfold signOf
    split
    · rename_i h; simp at h; omega
    · rename_i h; simp at h; omega
    · rfl
  · simp [signTxt, signVal, signOf]

theorem not_special (c : Nat) (t : Str) (hc : isDigit c = true) :
    (lower (c :: t) == str% "inf" || lower (c :: t) == str% "infinity" || lower (c :: t) == str% "nan") = false := by
  simp [isDigit] at hc
  have e : toLowerC c = c := by
    simp [toLowerC, isUpper]; omega
  simp [lower, e]
  omega

/-- the characters a printed number consists of -/
def NumChars (s : Str) : Prop := ∀ c ∈ s, (isDigit c || c == 45 || c == 46) = true

theorem numChars_append {a b : Str} : NumChars (a ++ b) ↔ NumChars a ∧ NumChars b := by
  simp only [NumChars, List.mem_append]
  constructor
  · intro h; exact ⟨fun c hc => h c (Or.inl hc), fun c hc => h c (Or.inr hc)⟩
  · rintro ⟨h1, h2⟩ c (hc | hc)
    · exact h1 c hc
    · exact h2 c hc

theorem numChars_of_allDig {a : Str} (h : AllDig a) : NumChars a := by
  intro c hc; simp [h c hc]

theorem numChars_signTxt (neg : Bool) : NumChars (signTxt neg) := by
  cases neg <;> simp [signTxt, NumChars]

theorem numChars_intTxt (neg : Bool) (D1 : Str) (hd : AllDig D1) : NumChars (signTxt neg ++ D1) :=
  numChars_append.2 ⟨numChars_signTxt neg, numChars_of_allDig hd⟩

theorem numChars_floatTxt (neg : Bool) (D1 D2 : Str) (h1 : AllDig D1) (h2 : AllDig D2) :
    NumChars (signTxt neg ++ D1 ++ 46 :: D2) := by
  refine numChars_append.2 ⟨numChars_intTxt neg D1 h1, ?_⟩
  intro c hc
  rcases List.mem_cons.1 hc with rfl | hc
  · simp
  · simp [h2 c hc]

theorem strip_numChars {s : Str} (h : NumChars s) : strip s = s := by
  apply strip_id
  intro c hc
  have := h c hc
  simp [isDigit] at this
  simp [isWs]; omega

theorem parseInt_intTxt (neg : Bool) (D1 : Str) (hd : AllDig D1) (hne : D1 ≠ []) :
    parseInt (signTxt neg ++ D1) = some (signVal neg * (valOf D1 : Int)) := by
  obtain ⟨c, t, rfl⟩ := List.exists_cons_of_ne_nil hne
  have hc := (allDig_cons.1 hd).1
  have hrun := digitRun_digits (c :: t) hd [] (by simp) false []
  rw [List.append_nil] at hrun
  unfold parseInt
  rw [strip_numChars (numChars_intTxt neg _ hd), signOf_signTxt _ _ _ hc]
  simp only [hrun]
  simp [valOf]

theorem parseInt_floatTxt (neg : Bool) (D1 D2 : Str) (hd : AllDig D1) (hd2 : AllDig D2) (hne : D1 ≠ []) :
    parseInt (signTxt neg ++ D1 ++ 46 :: D2) = none := by
  obtain ⟨c, t, rfl⟩ := List.exists_cons_of_ne_nil hne
  have hc := (allDig_cons.1 hd).1
  have hrun := digitRun_digits (c :: t) hd (46 :: D2) (by simp [isDigit]) false []
  unfold parseInt
  rw [strip_numChars (numChars_floatTxt neg _ _ hd hd2), List.append_assoc, List.cons_append, signOf_signTxt _ _ _ hc]
  rw [List.cons_append] at hrun
  simp only [hrun]
  simp

theorem parseFloat_intTxt (neg : Bool) (D1 : Str) (hd : AllDig D1) (hne : D1 ≠ []) :
    parseFloat (signTxt neg ++ D1) = .val ((signVal neg : Rat) * ((valOf D1 : Nat) : Rat)) := by
  obtain ⟨c, t, rfl⟩ := List.exists_cons_of_ne_nil hne
  have hc := (allDig_cons.1 hd).1
  have hrun := digitRun_digits (c :: t) hd [] (by simp) false []
  rw [List.append_nil] at hrun
  unfold parseFloat
  rw [strip_numChars (numChars_intTxt neg _ hd), signOf_signTxt _ _ _ hc]
  simp only [not_special c t hc, hrun]
  simp [valOf]

theorem parseFloat_floatTxt (neg : Bool) (D1 D2 : Str) (hd : AllDig D1) (hd2 : AllDig D2) (hne : D1 ≠ []) :
    parseFloat (signTxt neg ++ D1 ++ 46 :: D2)
      = .val ((signVal neg : Rat) * (((valOf (D1 ++ D2) : Nat) : Rat) / ((10 ^ D2.length : Nat) : Rat))) := by
  obtain ⟨c, t, rfl⟩ := List.exists_cons_of_ne_nil hne
  have hc := (allDig_cons.1 hd).1
  have hrun := digitRun_digits (c :: t) hd (46 :: D2) (by simp [isDigit]) false []
  have hrun2 := digitRun_digits D2 hd2 [] (by simp) false []
  rw [List.append_nil] at hrun2
  rw [List.cons_append] at hrun
  unfold parseFloat
  rw [strip_numChars (numChars_floatTxt neg _ _ hd hd2), List.append_assoc, List.cons_append,
    signOf_signTxt _ _ _ hc]
  simp only [not_special c _ hc, hrun, hrun2]
  simp [valOf]

/-- `countStr` after the optional sign -/
def countTail (s1 : Str) : Str :=
  let (d1, s2) := spanP isDigit s1
  let (dot, s3) := match s2 with
    | 46 :: t => ([46], t)
    | t => ([], t)
  let (d2, _) := spanP isDigit s3
  d1 ++ dot ++ d2

theorem countStr_neg (t : Str) : countStr (45 :: t) = 45 :: countTail t := by
  simp [countStr, countTail]
  rfl

theorem countStr_pos (c : Nat) (t : Str) (hc : c ≠ 45) : countStr (c :: t) = countTail (c :: t) := by
  unfold countStr countTail
  split
  rename_i heq
  split at heq
  · rename_i h; simp at h; omega
  · cases heq
    simp
    rfl

theorem countStr_signTxt (neg : Bool) (c : Nat) (t : Str) (hc : isDigit c = true) :
    countStr (signTxt neg ++ c :: t) = signTxt neg ++ countTail (c :: t) := by
  simp [isDigit] at hc
  cases neg
  · simp only [signTxt, Bool.false_eq_true, if_false, List.nil_append]
    exact countStr_pos c t (by omega)
  · simp only [signTxt, if_true]
    exact countStr_neg _

theorem countTail_int (D1 rest : Str) (hd : AllDig D1)
    (hr : ∀ c r, rest = c :: r → (isDigit c || c == 46) = false) : countTail (D1 ++ rest) = D1 := by
  have h1 : ∀ c r, rest = c :: r → isDigit c = false := by
    intro c r e; have := hr c r e; simp at this; simp [this.1]
  unfold countTail
  rw [spanP_digits D1 hd rest h1]
  cases rest with
  | nil => simp [spanP]
  | cons c r =>
    have := hr c r rfl
    simp at this
    simp only
    split
    · rename_i h; simp at h; omega
    · simp [spanP, h1 c r rfl]

theorem countTail_float (D1 D2 rest : Str) (hd : AllDig D1) (hd2 : AllDig D2)
    (hr : ∀ c r, rest = c :: r → (isDigit c || c == 46) = false) :
    countTail (D1 ++ 46 :: D2 ++ rest) = D1 ++ 46 :: D2 := by
  have h1 : ∀ c r, rest = c :: r → isDigit c = false := by
    intro c r e; have := hr c r e; simp at this; simp [this.1]
  unfold countTail
  rw [List.append_assoc, spanP_digits D1 hd _ (by simp [isDigit])]
  simp only [List.cons_append, spanP_digits D2 hd2 rest h1]
  simp

theorem countStr_intTxt (neg : Bool) (D1 rest : Str) (hd : AllDig D1) (hne : D1 ≠ [])
    (hr : ∀ c r, rest = c :: r → (isDigit c || c == 46) = false) :
    countStr (signTxt neg ++ D1 ++ rest) = signTxt neg ++ D1 := by
  obtain ⟨c, t, rfl⟩ := List.exists_cons_of_ne_nil hne
  have hc := (allDig_cons.1 hd).1
  rw [List.append_assoc, List.cons_append, countStr_signTxt _ _ _ hc, ← List.cons_append,
    countTail_int _ _ hd hr]

theorem countStr_floatTxt (neg : Bool) (D1 D2 rest : Str) (hd : AllDig D1) (hd2 : AllDig D2) (hne : D1 ≠ [])
    (hr : ∀ c r, rest = c :: r → (isDigit c || c == 46) = false) :
    countStr (signTxt neg ++ D1 ++ 46 :: D2 ++ rest) = signTxt neg ++ D1 ++ 46 :: D2 := by
  obtain ⟨c, t, rfl⟩ := List.exists_cons_of_ne_nil hne
  have hc := (allDig_cons.1 hd).1
  have := countTail_float (c :: t) D2 rest hd hd2 hr
  rw [List.append_assoc, List.append_assoc, List.cons_append, countStr_signTxt _ _ _ hc, ← List.cons_append,
    ← List.append_assoc (c :: t), this, List.append_assoc]

/-! ## arithmetic of the printed value -/

theorem signVal_natAbs (i : Int) : signVal (decide (i < 0)) * (i.natAbs : Int) = i := by
  unfold signVal
  by_cases h : i < 0
  · simp only [h, decide_true, if_true]; omega
  · simp only [h, decide_false, Bool.false_eq_true, if_false]; omega

/-- if `den ∣ 10^L`, then `r = ± (|num|·10^L / den) / 10^L` with an exact natural-number division -/
theorem rat_recon (r : Rat) (L : Nat) (hd : r.den ∣ 10 ^ L) :
    ((signVal (decide (r.num < 0)) : Int) : Rat)
      * (((r.num.natAbs * 10 ^ L / r.den : Nat) : Rat) / ((10 ^ L : Nat) : Rat)) = r := by
  obtain ⟨k, hk⟩ := hd
  have hden : 0 < r.den := r.den_pos
  have hk0 : k ≠ 0 := by
    rintro rfl
    have : 0 < 10 ^ L := Nat.pow_pos (by norm_num)
    omega
  have e1 : r.num.natAbs * 10 ^ L / r.den = r.num.natAbs * k := by
    rw [hk, ← Nat.mul_assoc, Nat.mul_comm r.num.natAbs, Nat.mul_assoc, Nat.mul_div_cancel_left _ hden]
  rw [e1, hk]
  have e2 : ((r.den : Nat) : Rat) ≠ 0 := by exact_mod_cast r.den_ne_zero
  have e3 : ((k : Nat) : Rat) ≠ 0 := by exact_mod_cast hk0
  have ha := signVal_natAbs r.num
  generalize r.num.natAbs = a at ha ⊢
  generalize signVal (decide (r.num < 0)) = sg at ha ⊢
  conv_rhs => rw [← Rat.num_div_den r, ← ha]
  push_cast
  field_simp

/-! ## `decScale`, `padLeft` -/

theorem decScale_some {fuel den s0 s : Nat} (h : decScale fuel den s0 = some s) : den ∣ 10 ^ s := by
  induction fuel generalizing s0 with
  | zero => simp [decScale] at h
  | succ f ih =>
    rw [decScale] at h
    split at h
    · rename_i hm
      cases h
      exact Nat.dvd_of_mod_eq_zero (by simpa using hm)
    · exact ih h

theorem decScale_isSome {fuel den s0 : Nat} (s : Nat) (h0 : s0 ≤ s) (h1 : s < s0 + fuel) (hd : den ∣ 10 ^ s) :
    ∃ s', decScale fuel den s0 = some s' := by
  induction fuel generalizing s0 with
  | zero => omega
  | succ f ih =>
    rw [decScale]
    split
    · exact ⟨_, rfl⟩
    · rename_i hm
      have : s0 ≠ s := by
        rintro rfl
        apply hm
        simp [Nat.mod_eq_zero_of_dvd hd]
      exact ih (by omega) (by omega)

theorem valOf_replicate (k : Nat) : valOf (List.replicate k 48) = 0 := by
  induction k with
  | zero => rfl
  | succ k ih =>
    rw [List.replicate_succ, ← List.singleton_append, valOf_append, ih, valOf_single]
    simp

theorem padLeft_allDig {n : Nat} {s : Str} (h : AllDig s) : AllDig (padLeft n s) := by
  refine allDig_append.2 ⟨?_, h⟩
  intro c hc
  rw [List.eq_of_mem_replicate hc]
  decide

theorem padLeft_length {n : Nat} {s : Str} (h : s.length ≤ n) : (padLeft n s).length = n := by
  simp [padLeft]; omega

theorem padLeft_val (n : Nat) (s : Str) : valOf (padLeft n s) = valOf s := by
  simp [padLeft, valOf_append, valOf_replicate]

/-! ## shape of the printed texts -/

theorem showInt_shape (i : Int) : showInt i = signTxt (decide (i < 0)) ++ showNat i.natAbs := by
  unfold showInt signTxt
  by_cases h : i < 0 <;> simp [h]

theorem showFloat_shape (r : Rat) (h : ∃ s, s ≤ 399 ∧ r.den ∣ 10 ^ s) :
    ∃ D1 D2, AllDig D1 ∧ AllDig D2 ∧ D1 ≠ [] ∧
      showFloat r = signTxt (decide (r.num < 0)) ++ D1 ++ 46 :: D2 ∧
      ((signVal (decide (r.num < 0)) : Int) : Rat)
        * (((valOf (D1 ++ D2) : Nat) : Rat) / ((10 ^ D2.length : Nat) : Rat)) = r := by
  obtain ⟨s0, hs0, hd0⟩ := h
  obtain ⟨s, hs⟩ := decScale_isSome (fuel := 400) (s0 := 0) s0 (by omega) (by omega) hd0
  have hd := decScale_some hs
  have hsign : (if r.num < 0 then [45] else []) = signTxt (decide (r.num < 0)) := by
    unfold signTxt; by_cases h : r.num < 0 <;> simp [h]
  unfold showFloat
  rw [hs]
  simp only [hsign]
  by_cases h0 : s = 0
  · subst h0
    have hden1 : r.den = 1 := by simpa using hd
    refine ⟨showNat (r.num.natAbs * 10 ^ 0 / r.den), [48], showNat_allDig _, by simp [AllDig, isDigit],
      showNat_ne _, by simp, ?_⟩
    have := rat_recon r 1 (by rw [hden1]; exact Nat.one_dvd _)
    rw [valOf_append, showNat_val, valOf_single]
    rw [hden1] at this ⊢
    simpa using this
  · have hpos : 1 ≤ s := by omega
    have h10 : 0 < 10 ^ s := Nat.pow_pos (by norm_num)
    have hfp : r.num.natAbs * 10 ^ s / r.den % 10 ^ s < 10 ^ s := Nat.mod_lt _ h10
    have hlen := padLeft_length (showNat_length hpos hfp)
    refine ⟨showNat (r.num.natAbs * 10 ^ s / r.den / 10 ^ s),
      padLeft s (showNat (r.num.natAbs * 10 ^ s / r.den % 10 ^ s)), showNat_allDig _,
      padLeft_allDig (showNat_allDig _), showNat_ne _, by simp [h0], ?_⟩
    rw [valOf_append, showNat_val, padLeft_val, showNat_val, hlen, Nat.div_add_mod']
    exact rat_recon r s hd

/-! ## the interface theorem -/

/-- Python ints: the printed text reads back as the same int -/
theorem numOK_int (v : Num) (hf : v.isFloat = false) (hden : v.val.den = 1) : NumOK v := by
  have hshow : v.show = signTxt (decide (v.val.num < 0)) ++ showNat v.val.num.natAbs := by
    simp [Num.show, hf, showInt_shape]
  have hd := showNat_allDig v.val.num.natAbs
  have hne := showNat_ne v.val.num.natAbs
  refine ⟨?_, ?_, ?_, ?_, ?_⟩
  · rw [hshow]
    unfold convertType
    rw [parseInt_intTxt _ _ hd hne]
    simp only
    rw [showNat_val, signVal_natAbs]
    obtain ⟨val, isF⟩ := v
    simp only at hf hden
    subst hf
    simp only [Num.ofInt, Rat.coe_int_num_of_den_eq_one hden]
  · rw [hshow]; simp [hne]
  · rw [hshow]; exact numChars_intTxt _ _ hd
  · intro rest hr; rw [hshow]; exact countStr_intTxt _ _ _ hd hne hr
  · rw [hshow]; unfold isNumber; rw [parseFloat_intTxt _ _ hd hne]

/-- Python floats that are finite decimals with at most 399 fractional digits: the printed text reads back as the
same float -/
theorem numOK_float (v : Num) (hf : v.isFloat = true) (h : ∃ s, s ≤ 399 ∧ v.val.den ∣ 10 ^ s) : NumOK v := by
  obtain ⟨D1, D2, hd1, hd2, hne, hsh, hval⟩ := showFloat_shape v.val h
  have hshow : v.show = signTxt (decide (v.val.num < 0)) ++ D1 ++ 46 :: D2 := by
    simp [Num.show, hf, hsh]
  refine ⟨?_, ?_, ?_, ?_, ?_⟩
  · rw [hshow]
    unfold convertType
    rw [parseInt_floatTxt _ _ _ hd1 hd2 hne, parseFloat_floatTxt _ _ _ hd1 hd2 hne]
    simp only
    rw [hval]
    obtain ⟨val, isF⟩ := v
    simp only at hf
    subst hf
    rfl
  · rw [hshow]; simp
  · rw [hshow]; exact numChars_floatTxt _ _ _ hd1 hd2
  · intro rest hr
    rw [hshow]
    have := countStr_floatTxt (decide (v.val.num < 0)) D1 D2 rest hd1 hd2 hne hr
    simpa using this
  · rw [hshow]; unfold isNumber; rw [parseFloat_floatTxt _ _ _ hd1 hd2 hne]

/-- **Central theorem.** For a Python int, or a float that is a finite decimal with ≤ 399 fractional digits, the
printed text is non-empty, consists of digits, `-`, `.` only, is consumed exactly by the count pattern, is accepted by
`float()`, and `convert_type` reads it back as the same number of the same kind. -/
theorem numOK_of_wf (v : Num) (h : NumWF v) : NumOK v := by
  cases hf : v.isFloat
  · exact numOK_int v hf (h.1 hf)
  · exact numOK_float v hf (h.2 hf)

/-- non-vacuity: `-1.25` and `-12` satisfy the hypothesis, and print as expected -/
example : NumWF ⟨-5 / 4, true⟩ ∧ (⟨-5 / 4, true⟩ : Num).show = str% "-1.25" :=
  ⟨⟨by decide, fun _ => ⟨2, by decide, by decide +kernel⟩⟩, by decide +kernel⟩
example : NumWF (Num.ofInt (-12)) ∧ (Num.ofInt (-12)).show = str% "-12" :=
  ⟨⟨fun _ => by decide, by decide⟩, by decide⟩

end Formula
