import PeptVerif.Generated.Unimod
import PeptVerif.Generated.PsiMod
import PeptVerif.Model.Formula
import PeptVerif.Model.Chem
/-!
C03, exhaustive clause: every vocabulary entry's tabulated masses against the mass of its tabulated composition,
computed with THIS work package's element table (`Model/Chem.lean`, recomputed from data/chem.txt).
The vocabularies are `Generated/Unimod.lean` / `Generated/PsiMod.lean` (owned by the C10 work package, regenerated from
the loaded databases); the composition text is read with the formula model of `Model/Formula.lean` (C15).  Mathlib-free.
-/
namespace Pept.ModTables
open Pept Pept.Chem ModDb

/-- the tabulated composition of an entry as a composition of this model (packed keys, exact counts) -/
def entryComp (e : Entry) : Option Comp :=
  match e.comp with
  | some f => match Formula.parseChem f [] with
    | .ok c => some (c.map fun kv => (keyOfCodes kv.1, kv.2.val))
    | .error _ => none
  | none => none

def absQ (q : Rat) : Rat := if q < 0 then -q else q

/-- composed of C, H, N, O, P, S and their isotopes only -/
def chnops (c : Comp) : Bool :=
  c.all fun p => p.1 == kC || p.1 == kH || p.1 == kN || p.1 == kO || p.1 == 80 || p.1 == kS || isIsotopeKey p.1

/-- `chem_mass(composition, monoisotopic)`; `none` = unknown element -/
def massOf (mono : Bool) (c : Comp) : Option Rat :=
  if c.all (fun p => (elemMass mono p.1).isSome) then some (chemMassL (fun e => (elemMass mono e).getD 0) c) else none

/-- |tabulated monoisotopic mass − mass of the composition| -/
def monoGap (e : Entry) : Option Rat := do
  let c ← entryComp e; let m ← e.mono; let x ← massOf true c; pure (absQ (x - m.toRat))

/-- |tabulated average mass − average mass of the composition| -/
def avgGap (e : Entry) : Option Rat := do
  let c ← entryComp e; let m ← e.avg; let x ← massOf false c; pure (absQ (x - m.toRat))

/-- monoisotopic row consistent within 1e-4 -/
def monoOk (e : Entry) : Bool := match monoGap e with | some g => decide (g ≤ 1 / 10000) | none => false

/-- average row consistent within 1e-3 + 5 ppm of the tabulated mass -/
def avgOk (e : Entry) : Bool :=
  match avgGap e, e.avg with
  | some g, some a => decide (g ≤ 1 / 1000 + 5 / 1000000 * absQ a.toRat)
  | _, _ => false

def isChnops (e : Entry) : Bool := match entryComp e with | some c => chnops c | none => false

/-- ids of the entries failing a predicate -/
def failing (p : Entry → Bool) (db : List Entry) : List Str := (db.filter (fun e => !p e)).map (·.id)

end Pept.ModTables
