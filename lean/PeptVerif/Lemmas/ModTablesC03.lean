import PeptVerif.Generated.Unimod
import PeptVerif.Generated.PsiMod
import PeptVerif.Model.Formula
import PeptVerif.Lemmas.ElemTables
/-!
C03, exhaustive clause: every vocabulary entry's tabulated masses against the mass of its tabulated composition,
computed with THIS work package's element table (`Model/Chem.lean`, recomputed from data/chem.txt).
The vocabularies are `Generated/Unimod.lean` / `Generated/PsiMod.lean` (owned by the C10 work package, regenerated from
the loaded databases); the composition text is read with the formula model of `Model/Formula.lean` (C15).  Mathlib-free.
-/
namespace Pept.ModTables
open Pept Pept.Chem ModDb

/-- the tabulated composition of an entry as a composition of this model (packed keys, exact counts) -/
def entryComp (e : Entry) : Option Comp :=
  match e.comp with
  | some f => match Formula.parseChem f [] with
    | .ok c => some (c.map fun kv => (keyOfCodes kv.1, kv.2.val))
    | .error _ => none
  | none => none

def absQ (q : Rat) : Rat := if q < 0 then -q else q

/-- composed of C, H, N, O, P, S and their isotopes only -/
def chnops (c : Comp) : Bool :=
  c.all fun p => p.1 == kC || p.1 == kH || p.1 == kN || p.1 == kO || p.1 == 80 || p.1 == kS || isIsotopeKey p.1

/-- `chem_mass(composition, monoisotopic)`; `none` = unknown element -/
def massOf (mono : Bool) (c : Comp) : Option Rat :=
  if c.all (fun p => (elemMassFast mono p.1).isSome) then some (chemMassL (fun e => (elemMassFast mono e).getD 0) c) else none

/-- `massOf` is the library's `chem_mass` (the literal tables equal the recomputed ones: `Lemmas/ElemTables.lean`) -/
theorem massOf_eq (mono : Bool) (c : Comp) (x : Rat) (h : massOf mono c = some x) :
    c.all (fun p => (elemMass mono p.1).isSome) = true ∧ chemMassL (fun e => (elemMass mono e).getD 0) c = x := by
  have hf : (fun e => (elemMass mono e).getD 0) = (fun e => (elemMassFast mono e).getD 0) := by
    funext e; rw [elemMassFast_eq]
  have hg : (fun (p : Chem.Elem × Rat) => (elemMass mono p.1).isSome) = (fun p => (elemMassFast mono p.1).isSome) := by
    funext p; rw [elemMassFast_eq]
  unfold massOf at h
  rw [hf, hg]
  split at h
  · rename_i hall; exact ⟨hall, Option.some.inj h⟩
  · cases h

/-- |tabulated monoisotopic mass − mass of the composition| -/
def monoGap (e : Entry) : Option Rat := do
  let c ← entryComp e; let m ← e.mono; let x ← massOf true c; pure (absQ (x - m.toRat))

/-- |tabulated average mass − average mass of the composition| -/
def avgGap (e : Entry) : Option Rat := do
  let c ← entryComp e; let m ← e.avg; let x ← massOf false c; pure (absQ (x - m.toRat))

/-- monoisotopic row consistent within 1e-4 -/
def monoOk (e : Entry) : Bool := match monoGap e with | some g => decide (g ≤ 1 / 10000) | none => false

/-- average row consistent within 1e-3 + 5 ppm of the tabulated mass -/
def avgOk (e : Entry) : Bool :=
  match avgGap e, e.avg with
  | some g, some a => decide (g ≤ 1 / 1000 + 5 / 1000000 * absQ a.toRat)
  | _, _ => false

def isChnops (e : Entry) : Bool := match entryComp e with | some c => chnops c | none => false

/-- ids of the entries failing a predicate -/
def failing (p : Entry → Bool) (db : List Entry) : List Str := (db.filter (fun e => !p e)).map (·.id)


/-- rows that carry both a monoisotopic mass and a composition -/
def rows (db : List Entry) : List Entry := db.filter (fun e => e.mono.isSome && e.comp.isSome)

/-- the PSI-MOD rows whose monoisotopic mass is not the mass of their composition within 1e-4 (charged species: one
electron mass; iron-sulfur clusters, ...) -/
def psimodMonoExcluded : List Str := [[48,48,48,52,57], [48,48,48,55,49], [48,48,48,55,53], [48,48,48,56,51], [48,48,49,52,53], [48,48,49,52,54], [48,48,49,52,55], [48,48,49,52,56], [48,48,49,52,57], [48,48,50,51,48], [48,48,50,51,49], [48,48,50,56,53], [48,48,50,56,57], [48,48,50,57,48], [48,48,50,57,49], [48,48,50,57,51], [48,48,50,57,52], [48,48,51,48,53], [48,48,51,51,49], [48,48,51,51,54], [48,48,51,53,51], [48,48,51,54,49], [48,48,51,54,50], [48,48,51,54,52], [48,48,55,49,49], [48,48,56,48,49], [48,48,56,53,52], [48,48,56,53,53], [48,48,56,53,54], [48,48,56,53,55], [48,48,56,54,52], [48,48,56,56,56], [48,48,56,56,57], [48,49,49,52,53], [48,49,51,56,50], [48,49,52,52,51], [48,49,52,54,52], [48,49,52,54,53], [48,49,53,56,56], [48,49,54,56,55], [48,49,54,57,56], [48,49,54,57,57], [48,49,55,48,48], [48,49,55,48,49], [48,49,55,48,50], [48,49,55,55,51], [48,49,55,56,52], [48,49,55,56,56], [48,49,55,56,57], [48,49,55,57,48], [48,49,55,57,49], [48,49,55,57,50], [48,49,55,57,55], [48,49,55,57,56], [48,49,56,48,49], [48,49,56,48,50], [48,49,57,48,54], [48,49,57,48,55], [48,49,57,51,51], [48,49,57,51,52], [48,49,57,55,52], [48,49,57,57,48], [48,49,57,57,49]]

/-! #### kernel-evaluated table obligations (restated in `Props/C03.lean`; kept here so that the evaluation is cached
independently of the rest of C03) -/

theorem unimod_mono_consistent' : Gen.Unimod.entries.all monoOk = true := by decide +kernel

theorem unimod_avg_excluded' :
    failing avgOk Gen.Unimod.entries = [str% "291", str% "391", str% "415", str% "424", str% "444", str% "954"] := by
  decide +kernel

theorem unimod_avg_chnops_consistent' : Gen.Unimod.entries.all (fun e => avgOk e || !isChnops e) = true := by
  decide +kernel

theorem psimod_mono_excluded' : failing monoOk (rows Gen.PsiMod.entries) = psimodMonoExcluded := by decide +kernel

theorem psimod_avg_counts' :
    (rows Gen.PsiMod.entries).length = 1541 ∧ (failing avgOk (rows Gen.PsiMod.entries)).length = 1048 := by
  constructor <;> decide +kernel

end Pept.ModTables
