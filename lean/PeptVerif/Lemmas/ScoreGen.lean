import PeptVerif.Model.Score
/-! Helper lemmas for Props/C17Gen.lean (hand-written, core Lean only): a dict whose values are mapped afterwards is the
dict of the mapped values. -/
namespace Score

theorem dictSet_map_val {κ β γ : Type} (eq : κ → κ → Bool) (g : β → γ) (k : κ) (v : β) (d : List (κ × β)) :
    (dictSet eq k v d).map (fun p => (p.1, g p.2)) = dictSet eq k (g v) (d.map fun p => (p.1, g p.2)) := by
  induction d with
  | nil => rfl
  | cons p d ih =>
    obtain ⟨k', v'⟩ := p
    simp only [dictSet, List.map_cons]
    split
    · rfl
    · rw [List.map_cons, ih]

theorem foldl_dictSet_map_val {κ β γ μ : Type} (eq : κ → κ → Bool) (g : β → γ) (kf : μ → κ) (vf : μ → β) (ms : List μ)
    (d : List (κ × β)) :
    (ms.foldl (fun d m => dictSet eq (kf m) (vf m) d) d).map (fun p => (p.1, g p.2))
      = ms.foldl (fun d m => dictSet eq (kf m) (g (vf m)) d) (d.map fun p => (p.1, g p.2)) := by
  induction ms generalizing d with
  | nil => rfl
  | cons m ms ih => rw [List.foldl_cons, ih, dictSet_map_val, List.foldl_cons]

/-- `{f.mz: f for f in ms}` then `f.intensity for f in d.values()` = the values of `{f.mz: f.intensity …}` -/
theorem values_of_pairs [Num α] (ms : List (α × α)) :
    ((ms.foldl (fun d f => dictSet Num.eq f.1 f d) []).map (·.2)).map (fun f => f.2) = (groupByMz ms).map (·.2) := by
  have := foldl_dictSet_map_val (Num.eq (α := α)) (fun f : α × α => f.2) (fun m : α × α => m.1) (fun m => m) ms []
  simp only [List.map_nil] at this
  unfold groupByMz
  rw [← this, List.map_map, List.map_map]
  rfl

end Score
