import PeptVerif.Lemmas.ParserRoundTrip
/-!
Helper lemmas for C01: the middle section (residues, residue modifications, intervals). No Mathlib.
-/
namespace Pept

/-! ### single steps of `_parse_sequence_middle` -/

/-- what may follow a bracket run inside the middle section: anything but `[`, `^`, a digit -/
def MidStop (r : List Char) : Prop := ModStop r ∧ r.head? ≠ some '['

theorem pm_res (acc : Annotation) (dm : Option (Int × Bool)) (c : Char) (t : List Char) (hc : isAA c = true) :
    parseMiddle acc dm (c :: t) = parseMiddle { acc with seq := acc.seq ++ [c] } dm t := by
  rw [parseMiddle.eq_def]; simp [hc]

theorem pm_mods (plus : Plus) (acc : Annotation) (hseq : acc.seq ≠ []) (dm : Option (Int × Bool)) (l : List Mod)
    (hne : l ≠ []) (hl : l.all (canonMod '[' ']') = true) (t : List Char) (ht : MidStop t) :
    parseMiddle acc dm (serializeMods '[' ']' plus l ++ t) = parseMiddle (addInternal acc l) dm t := by
  cases l with
  | nil => exact absurd rfl hne
  | cons m ms =>
    have h2 := parseMods_serialize '[' ']' (by decide) (by decide) (by decide) (by decide) (by decide) plus (m :: ms)
      hl t ht.1 ht.2
    rw [serializeMods_cons, Mod.serialize_eq_cons] at h2 ⊢
    simp only [List.cons_append, List.append_assoc] at h2 ⊢
    rw [parseMiddle.eq_def]
    have hA : isAA '[' = false := by decide
    simp [hA, hseq]
    split
    · rename_i e he; rw [h2] at he; cases he
    · rename_i ms' rest' hb
      rw [h2] at hb; cases hb; rfl

theorem pm_open (acc : Annotation) (t : List Char) :
    parseMiddle acc none ('(' :: t) = parseMiddle acc (some (Int.ofNat acc.seq.length, false)) t := by
  rw [parseMiddle.eq_def]
  have hA : isAA '(' = false := by decide
  simp [hA]

theorem pm_amb (acc : Annotation) (st : Int) (b : Bool) (t : List Char) :
    parseMiddle acc (some (st, b)) ('?' :: t) = parseMiddle acc (some (st, true)) t := by
  rw [parseMiddle.eq_def]
  have hA : isAA '?' = false := by decide
  simp [hA]

theorem pm_close_none (acc : Annotation) (st : Int) (hst : st ≠ Int.ofNat acc.seq.length) (amb : Bool) (t : List Char)
    (ht : t.head? ≠ some '[') :
    parseMiddle acc (some (st, amb)) (')' :: t) =
      parseMiddle (addInterval acc ⟨st, Int.ofNat acc.seq.length, amb, none⟩) none t := by
  rw [parseMiddle.eq_def]
  have hA : isAA ')' = false := by decide
  have hst' : ¬ st = (acc.seq.length : Int) := by simpa [Int.ofNat_eq_natCast] using hst
  simp [hA, ht, hst']

theorem pm_close_mods (plus : Plus) (acc : Annotation) (st : Int) (hst : st ≠ Int.ofNat acc.seq.length) (amb : Bool)
    (l : List Mod) (hne : l ≠ [])
    (hl : l.all (canonMod '[' ']') = true) (t : List Char) (ht : MidStop t) :
    parseMiddle acc (some (st, amb)) (')' :: (serializeMods '[' ']' plus l ++ t)) =
      parseMiddle (addInterval acc ⟨st, Int.ofNat acc.seq.length, amb, some l⟩) none t := by
  cases l with
  | nil => exact absurd rfl hne
  | cons m ms =>
    have h2 := parseMods_serialize '[' ']' (by decide) (by decide) (by decide) (by decide) (by decide) plus (m :: ms)
      hl t ht.1 ht.2
    have hh : (serializeMods '[' ']' plus (m :: ms) ++ t).head? = some '[' := serializeMods_head _ _ _ _ _ _
    rw [parseMiddle.eq_def]
    have hA : isAA ')' = false := by decide
    have hst' : ¬ st = (acc.seq.length : Int) := by simpa [Int.ofNat_eq_natCast] using hst
    simp [hA, hh, hst']
    split
    · rename_i e he; rw [h2] at he; cases he
    · rename_i ms' rest' hb
      rw [h2] at hb; cases hb; rfl

theorem pm_cterm (plus : Plus) (acc : Annotation) (l : List Mod) (hne : l ≠ [])
    (hl : l.all (canonMod '[' ']') = true) (t : List Char) (ht : MidStop t) :
    parseMiddle acc none ('-' :: (serializeMods '[' ']' plus l ++ t)) =
      .ok ({ acc with cterm := addMods acc.cterm l }, t) := by
  have h2 := parseMods_serialize '[' ']' (by decide) (by decide) (by decide) (by decide) (by decide) plus l
    hl t ht.1 ht.2
  rw [parseMiddle.eq_def]
  have hA : isAA '-' = false := by decide
  simp [hA, h2, hne]

theorem pm_stop (acc : Annotation) (t : List Char)
    (ht : t = [] ∨ ∃ c r, t = c :: r ∧ (c = '/' ∨ c = '+')) : parseMiddle acc none t = .ok (acc, t) := by
  rcases ht with h | ⟨c, r, h, hc⟩
  · subst h; rw [parseMiddle.eq_def]; rfl
  · subst h
    rw [parseMiddle.eq_def]
    have hA : isAA c = false := by rcases hc with h | h <;> subst h <;> decide
    have h1 : c ≠ '[' := by rcases hc with h | h <;> subst h <;> decide
    have h2 : c ≠ '-' := by rcases hc with h | h <;> subst h <;> decide
    simp [hA, h1, h2, hc]

/-! ### what the serializer writes in front of residue `i` -/

def marksL (plus : Plus) (i : Int) (ws : Bool) (L : List Interval) : List Char := L.flatMap (ivMark plus i ws)

theorem marksL_past (plus : Plus) (i : Int) (ws : Bool) (L : List Interval)
    (h : ∀ iv ∈ L, iv.start < iv.stop ∧ iv.stop < i) : marksL plus i ws L = [] := by
  induction L with
  | nil => rfl
  | cons iv t ih =>
    have h1 := h iv (by simp)
    have : ivMark plus i ws iv = [] := by
      unfold ivMark
      rw [if_neg (by intro hh; omega), if_neg (by omega)]; rfl
    simp only [marksL, List.flatMap_cons, this, List.nil_append]
    exact ih (fun iv' h' => h iv' (by simp [h']))

theorem marksL_far (plus : Plus) (n i : Int) (ws : Bool) (L : List Interval) (lo : Int)
    (h : canonIntervalList n lo L = true) (hi : i < lo) : marksL plus i ws L = [] := by
  induction L generalizing lo with
  | nil => rfl
  | cons iv t ih =>
    simp only [canonIntervalList, Bool.and_eq_true, decide_eq_true_eq] at h
    obtain ⟨⟨⟨⟨h1, h2⟩, h3⟩, h4⟩, h5⟩ := h
    have : ivMark plus i ws iv = [] := by
      unfold ivMark
      rw [if_neg (by intro hh; omega), if_neg (by omega)]; rfl
    simp only [marksL, List.flatMap_cons, this, List.nil_append]
    exact ih iv.stop h5 (by omega)

/-- the opening mark of the first remaining interval, if it starts at `i` -/
def openMark (i : Int) (ws : Bool) : List Interval → List Char
  | [] => []
  | iv :: _ => if ws = true ∧ iv.start = i then '(' :: (if iv.ambiguous then ['?'] else []) else []

/-- no interval is open: only the first remaining interval can start at `i` -/
theorem marksL_closed (plus : Plus) (n i : Int) (ws : Bool) (L : List Interval)
    (h : canonIntervalList n i L = true) : marksL plus i ws L = openMark i ws L := by
  cases L with
  | nil => rfl
  | cons iv t =>
    simp only [openMark]
    simp only [canonIntervalList, Bool.and_eq_true, decide_eq_true_eq] at h
    obtain ⟨⟨⟨⟨h1, h2⟩, h3⟩, h4⟩, h5⟩ := h
    have ht := marksL_far plus n i ws t iv.stop h5 (by omega)
    simp only [marksL, List.flatMap_cons] at ht ⊢
    rw [ht]
    unfold ivMark
    rw [if_neg (show ¬ iv.stop = i by omega)]
    simp

/-- an interval is open: it closes at `i` (then the next one may open) or nothing is written -/
theorem marksL_open (plus : Plus) (n i : Int) (ws : Bool) (iv : Interval) (t : List Interval)
    (h1 : iv.start < i) (h2 : i ≤ iv.stop) (h5 : canonIntervalList n iv.stop t = true) :
    marksL plus i ws (iv :: t) =
      if iv.stop = i then ')' :: (optMods '[' ']' plus iv.mods ++ marksL plus i ws t) else [] := by
  simp only [marksL, List.flatMap_cons]
  by_cases hs : iv.stop = i
  · rw [if_pos hs]
    unfold ivMark
    rw [if_neg (by intro hh; omega), if_pos hs]; simp
  · rw [if_neg hs]
    have ht := marksL_far plus n i ws t iv.stop h5 (by omega)
    simp only [marksL] at ht
    rw [ht]
    unfold ivMark
    rw [if_neg (by intro hh; omega), if_neg hs]; rfl

theorem marksL_append (plus : Plus) (i : Int) (ws : Bool) (L1 L2 : List Interval) :
    marksL plus i ws (L1 ++ L2) = marksL plus i ws L1 ++ marksL plus i ws L2 := by
  simp [marksL]

/-! ### the dict of residue modifications -/

theorem dictGet_append_lt (k : Int) (d1 d2 : List (Int × List Mod)) (h : ∀ p ∈ d1, p.1 < k) :
    dictGet k (d1 ++ d2) = dictGet k d2 := by
  induction d1 with
  | nil => rfl
  | cons p t ih =>
    obtain ⟨k', v⟩ := p
    have := h (k', v) (by simp)
    simp only [List.cons_append, dictGet]
    rw [if_neg (by simp at this; omega)]
    exact ih (fun q hq => h q (by simp [hq]))

theorem dictGet_sorted (n k : Int) (d : List (Int × List Mod)) (h : canonInternalList n k d = true) :
    dictGet k d = match d with
      | [] => none
      | (k', v) :: _ => if k' = k then some v else none := by
  cases d with
  | nil => rfl
  | cons p t =>
    obtain ⟨k', v⟩ := p
    simp only [dictGet]
    by_cases hk : k' = k
    · simp [hk]
    · simp only [hk, ↓reduceIte]
      simp only [canonInternalList, Bool.and_eq_true, decide_eq_true_eq] at h
      obtain ⟨⟨⟨⟨h1, h2⟩, h3⟩, h4⟩, h5⟩ := h
      -- every later key is larger than k
      have : ∀ (lo : Int) (t : List (Int × List Mod)), k < lo → canonInternalList n lo t = true → dictGet k t = none := by
        intro lo t
        induction t generalizing lo with
        | nil => intros; rfl
        | cons q t' ih =>
          obtain ⟨k2, v2⟩ := q
          intro hlo hc
          simp only [canonInternalList, Bool.and_eq_true, decide_eq_true_eq] at hc
          obtain ⟨⟨⟨⟨g1, g2⟩, g3⟩, g4⟩, g5⟩ := hc
          simp only [dictGet]
          rw [if_neg (by omega)]
          exact ih (k2 + 1) (by omega) g5
      exact this (k' + 1) t (by omega) h5

theorem dictExtend_new (k : Int) (ms : List Mod) (d : List (Int × List Mod)) (h : ∀ p ∈ d, p.1 < k) :
    dictExtend k ms d = d ++ [(k, ms)] := by
  induction d with
  | nil => rfl
  | cons p t ih =>
    obtain ⟨k', v⟩ := p
    have := h (k', v) (by simp)
    simp only [dictExtend, List.cons_append]
    rw [if_neg (by simp at this; omega)]
    rw [ih (fun q hq => h q (by simp [hq]))]

/-! ### the marks in front of one residue, read by the parser -/

def optL {α} (l : List α) : Option (List α) := if l = [] then none else some l

theorem marksL_head (plus : Plus) (i : Int) (ws : Bool) (L : List Interval) (r : List Char) (x : Char)
    (h : (marksL plus i ws L ++ r).head? = some x) : x = '(' ∨ x = ')' ∨ r.head? = some x := by
  induction L with
  | nil => right; right; simpa [marksL] using h
  | cons iv t ih =>
    simp only [marksL, List.flatMap_cons, List.append_assoc] at h ih
    unfold ivMark at h
    by_cases h1 : ws = true ∧ iv.start = i
    · rw [if_pos h1] at h; simp at h; left; exact h.symm
    · rw [if_neg h1] at h
      by_cases h2 : iv.stop = i
      · rw [if_pos h2] at h; simp at h; right; left; exact h.symm
      · rw [if_neg h2] at h; simp only [List.nil_append] at h; exact ih h

/-- the state of the interval bookkeeping in front of residue `i` -/
def IvState (n : Int) (dm : Option (Int × Bool)) (i : Int) (L : List Interval) : Prop :=
  (dm = none ∧ canonIntervalList n i L = true) ∨
  (∃ iv t, L = iv :: t ∧ dm = some (iv.start, iv.ambiguous) ∧ iv.start < i ∧ i ≤ iv.stop ∧ iv.stop ≤ n ∧
    canonOptMods '[' ']' iv.mods = true ∧ canonIntervalList n iv.stop t = true)

/-- closed state: the marks in front of residue `i` (an interval may open) -/
theorem marks_closed (plus : Plus) (n i : Int) (acc : Annotation) (hlen : Int.ofNat acc.seq.length = i)
    (L : List Interval) (hL : canonIntervalList n i L = true) (rest : List Char) :
    ∃ dm', parseMiddle acc none (marksL plus i true L ++ rest) = parseMiddle acc dm' rest ∧
      IvState n dm' (i + 1) L := by
  rw [marksL_closed plus n i true L hL]
  cases L with
  | nil => exact ⟨none, rfl, Or.inl ⟨rfl, rfl⟩⟩
  | cons iv t =>
    simp only [openMark]
    have hL' := hL
    simp only [canonIntervalList, Bool.and_eq_true, decide_eq_true_eq] at hL'
    obtain ⟨⟨⟨⟨h1, h2⟩, h3⟩, h4⟩, h5⟩ := hL'
    by_cases hs : iv.start = i
    · refine ⟨some (iv.start, iv.ambiguous), ?_, Or.inr ⟨iv, t, rfl, rfl, by omega, by omega, h3, h4, h5⟩⟩
      simp only [hs, and_self, ↓reduceIte, List.cons_append]
      rw [pm_open, hlen]
      cases ha : iv.ambiguous with
      | false => simp
      | true => simp [pm_amb]
    · refine ⟨none, ?_, Or.inl ⟨rfl, ?_⟩⟩
      · simp [hs]
      · simp only [canonIntervalList, Bool.and_eq_true, decide_eq_true_eq]
        exact ⟨⟨⟨⟨by omega, h2⟩, h3⟩, h4⟩, h5⟩

theorem addInterval_intervals (acc : Annotation) (iv : Interval) (Lpre : List Interval)
    (h : acc.intervals = optL Lpre) : (addInterval acc iv).intervals = optL (Lpre ++ [iv]) := by
  unfold addInterval optL at *
  by_cases hp : Lpre = []
  · subst hp; simp at h; simp [h]
  · simp [hp] at h; simp [h]

/-- the marks in front of residue `i` in any state; `Lpre` = the intervals already closed -/
theorem marks_step (plus : Plus) (n i : Int) (acc : Annotation) (hlen : Int.ofNat acc.seq.length = i)
    (dm : Option (Int × Bool)) (Lpre L : List Interval) (hpre : ∀ iv ∈ Lpre, iv.start < iv.stop ∧ iv.stop < i)
    (hacc : acc.intervals = optL Lpre) (hst : IvState n dm i L) (rest : List Char)
    (hrest : ∀ x, rest.head? = some x → isAA x = true) :
    ∃ dm' Lpre' L', Lpre ++ L = Lpre' ++ L' ∧
      parseMiddle acc dm (marksL plus i true (Lpre ++ L) ++ rest) =
        parseMiddle { acc with intervals := optL Lpre' } dm' rest ∧
      (∀ iv ∈ Lpre', iv.start < iv.stop ∧ iv.stop < i + 1) ∧ IvState n dm' (i + 1) L' := by
  rw [marksL_append, marksL_past plus i true Lpre hpre, List.nil_append]
  have hacc' : { acc with intervals := optL Lpre } = acc := by rw [← hacc]
  rcases hst with ⟨hdm, hL⟩ | ⟨iv, t, hLe, hdm, h1, h2, h3, h4, h5⟩
  · subst hdm
    obtain ⟨dm', hp, hs⟩ := marks_closed plus n i acc hlen L hL rest
    exact ⟨dm', Lpre, L, rfl, by rw [hp, hacc'], fun iv h => ⟨(hpre iv h).1, by have := (hpre iv h).2; omega⟩, hs⟩
  · subst hLe hdm
    rw [marksL_open plus n i true iv t h1 h2 h5]
    by_cases hs : iv.stop = i
    · rw [if_pos hs]
      -- the interval closes here
      have hrest' : MidStop (marksL plus i true t ++ rest) := by
        have key : ∀ x, (marksL plus i true t ++ rest).head? = some x → x = '(' ∨ x = ')' ∨ isAA x = true := by
          intro x hx
          rcases marksL_head plus i true t rest x hx with h | h | h
          · exact Or.inl h
          · exact Or.inr (Or.inl h)
          · exact Or.inr (Or.inr (hrest x h))
        constructor
        · intro x hx
          rcases key x hx with h | h | h
          · subst h; exact ⟨by decide, by decide⟩
          · subst h; exact ⟨by decide, by decide⟩
          · exact ⟨isAA_ne x '^' h (by decide), isAA_not_digit x h⟩
        · intro hx
          rcases key '[' hx with h | h | h
          · exact absurd h (by decide)
          · exact absurd h (by decide)
          · exact absurd h (by decide)
      have hiv : (⟨iv.start, Int.ofNat acc.seq.length, iv.ambiguous, iv.mods⟩ : Interval) = iv := by
        rw [hlen, ← hs]
      have hclose : parseMiddle acc (some (iv.start, iv.ambiguous))
          (')' :: (optMods '[' ']' plus iv.mods ++ (marksL plus i true t ++ rest))) =
          parseMiddle (addInterval acc iv) none (marksL plus i true t ++ rest) := by
        cases hm : iv.mods with
        | none =>
          simp only [optMods, List.nil_append]
          rw [pm_close_none _ _ (by rw [hlen]; omega) _ _ hrest'.2, ← hm, hiv]
        | some l =>
          rw [hm] at h4
          obtain ⟨hne, hall⟩ := canonOptMods_some _ _ _ h4
          rw [show optMods '[' ']' plus (some l) = serializeMods '[' ']' plus l from rfl,
            pm_close_mods plus _ _ (by rw [hlen]; omega) _ l hne hall _ hrest', ← hm, hiv]
      have ht : canonIntervalList n i t = true := by rw [← hs]; exact h5
      have hlen2 : Int.ofNat (addInterval acc iv).seq.length = i := by simpa [addInterval] using hlen
      obtain ⟨dm', hp, hst'⟩ := marks_closed plus n i (addInterval acc iv) hlen2 t ht rest
      refine ⟨dm', Lpre ++ [iv], t, by simp, ?_, ?_, hst'⟩
      · simp only [List.cons_append, List.append_assoc]
        rw [hclose, hp]
        congr 1
        have := addInterval_intervals acc iv Lpre hacc
        unfold addInterval at this ⊢
        simp only at this
        simp [this]
      · intro iv' h'
        simp only [List.mem_append, List.mem_singleton] at h'
        rcases h' with h' | h'
        · exact ⟨(hpre iv' h').1, by have := (hpre iv' h').2; omega⟩
        · subst h'
          have : iv'.start < iv'.stop := by omega
          exact ⟨this, by omega⟩
    · rw [if_neg hs, List.nil_append]
      exact ⟨some (iv.start, iv.ambiguous), Lpre, iv :: t, rfl, by rw [hacc'],
        fun iv' h => ⟨(hpre iv' h).1, by have := (hpre iv' h).2; omega⟩,
        Or.inr ⟨iv, t, rfl, rfl, by omega, by omega, h3, h4, h5⟩⟩

theorem canonIntervalList_top (n : Int) (L : List Interval) (h : canonIntervalList n n L = true) : L = [] := by
  cases L with
  | nil => rfl
  | cons iv t =>
    simp only [canonIntervalList, Bool.and_eq_true, decide_eq_true_eq] at h
    omega

theorem canonInternalList_top (n : Int) (D : List (Int × List Mod)) (h : canonInternalList n n D = true) : D = [] := by
  cases D with
  | nil => rfl
  | cons p t =>
    obtain ⟨k, v⟩ := p
    simp only [canonInternalList, Bool.and_eq_true, decide_eq_true_eq] at h
    omega

/-- the closing pass after the last residue -/
theorem marks_final (plus : Plus) (n : Int) (acc : Annotation) (hlen : Int.ofNat acc.seq.length = n)
    (dm : Option (Int × Bool)) (Lpre L : List Interval) (hpre : ∀ iv ∈ Lpre, iv.start < iv.stop ∧ iv.stop < n)
    (hacc : acc.intervals = optL Lpre) (hst : IvState n dm n L) (rest : List Char) (hrest : MidStop rest) :
    parseMiddle acc dm (marksL plus n false (Lpre ++ L) ++ rest) =
      parseMiddle { acc with intervals := optL (Lpre ++ L) } none rest := by
  rw [marksL_append, marksL_past plus n false Lpre hpre, List.nil_append]
  rcases hst with ⟨hdm, hL⟩ | ⟨iv, t, hLe, hdm, h1, h2, h3, h4, h5⟩
  · subst hdm
    have := canonIntervalList_top n L hL
    subst this
    simp only [marksL, List.flatMap_nil, List.nil_append, List.append_nil]
    rw [← hacc]
  · subst hLe hdm
    have hs : iv.stop = n := by omega
    have ht : t = [] := canonIntervalList_top n t (by rw [hs] at h5; exact h5)
    subst ht
    rw [marksL_open plus n n false iv [] h1 h2 h5, if_pos hs]
    simp only [marksL, List.flatMap_nil, List.append_nil]
    have hiv : (⟨iv.start, Int.ofNat acc.seq.length, iv.ambiguous, iv.mods⟩ : Interval) = iv := by
      rw [hlen, ← hs]
    have hclose : parseMiddle acc (some (iv.start, iv.ambiguous)) (')' :: (optMods '[' ']' plus iv.mods ++ rest)) =
        parseMiddle (addInterval acc iv) none rest := by
      cases hm : iv.mods with
      | none =>
        simp only [optMods, List.nil_append]
        rw [pm_close_none _ _ (by rw [hlen]; omega) _ _ hrest.2, ← hm, hiv]
      | some l =>
        rw [hm] at h4
        obtain ⟨hne, hall⟩ := canonOptMods_some _ _ _ h4
        rw [show optMods '[' ']' plus (some l) = serializeMods '[' ']' plus l from rfl,
          pm_close_mods plus _ _ (by rw [hlen]; omega) _ l hne hall _ hrest, ← hm, hiv]
    simp only [List.cons_append]
    rw [hclose]
    congr 1
    have := addInterval_intervals acc iv Lpre hacc
    unfold addInterval at this ⊢
    simp only at this
    simp [this]

theorem midStop_marks (plus : Plus) (i : Int) (ws : Bool) (L : List Interval) (r : List Char)
    (h : ∀ x, r.head? = some x → x ≠ '^' ∧ x.isDigit = false ∧ x ≠ '[') :
    MidStop (marksL plus i ws L ++ r) := by
  have key : ∀ x, (marksL plus i ws L ++ r).head? = some x → x ≠ '^' ∧ x.isDigit = false ∧ x ≠ '[' := by
    intro x hx
    rcases marksL_head plus i ws L r x hx with h' | h' | h'
    · subst h'; exact ⟨by decide, by decide, by decide⟩
    · subst h'; exact ⟨by decide, by decide, by decide⟩
    · exact h x h'
  exact ⟨fun x hx => ⟨(key x hx).1, (key x hx).2.1⟩, fun hx => (key '[' hx).2.2 rfl⟩

theorem serializeResidues_eq (plus : Plus) (a : Annotation) (i : Int) (suf : List Char) :
    serializeResidues plus a i suf =
      match suf with
      | [] => marksL plus i false (a.intervals.getD [])
      | c :: t => marksL plus i true (a.intervals.getD []) ++
          c :: (optMods '[' ']' plus (dictGet i (a.internal.getD [])) ++ serializeResidues plus a (i + 1) t) := by
  cases suf with
  | nil => rfl
  | cons c t =>
    simp only [serializeResidues, ivMarks, marksL, internalAt]
    cases a.internal <;> simp [optMods, dictGet]

theorem midStop_residues (plus : Plus) (a : Annotation) (i : Int) (suf : List Char) (hAA : suf.all isAA = true)
    (tail : List Char) (ht : MidStop tail) : MidStop (serializeResidues plus a i suf ++ tail) := by
  rw [serializeResidues_eq]
  cases suf with
  | nil =>
    exact midStop_marks plus i false _ tail (fun x hx => ⟨(ht.1 x hx).1, (ht.1 x hx).2, fun h => ht.2 (h ▸ hx)⟩)
  | cons c t =>
    simp only [List.all_cons, Bool.and_eq_true] at hAA
    simp only [List.append_assoc, List.cons_append]
    apply midStop_marks
    intro x hx
    simp at hx; subst hx
    exact ⟨isAA_ne c '^' hAA.1 (by decide), isAA_not_digit c hAA.1, isAA_ne c '[' hAA.1 (by decide)⟩

theorem optL_getD {α} (l : List α) : (optL l).getD [] = l := by
  unfold optL; split <;> simp_all

/-- **the residues, their modifications and the intervals**: lockstep induction over the sequence -/
theorem parseMiddle_residues (plus : Plus) (a : Annotation) (n : Int) (suf : List Char) :
    ∀ (acc : Annotation) (dm : Option (Int × Bool)) (i : Int) (Dpre D : List (Int × List Mod)) (Lpre L : List Interval),
      suf.all isAA = true → Int.ofNat acc.seq.length = i → i + Int.ofNat suf.length = n → acc.seq ++ suf = a.seq →
      a.internal.getD [] = Dpre ++ D → (∀ p ∈ Dpre, p.1 < i) → canonInternalList n i D = true →
      acc.internal = optL Dpre →
      a.intervals.getD [] = Lpre ++ L → (∀ iv ∈ Lpre, iv.start < iv.stop ∧ iv.stop < i) →
      acc.intervals = optL Lpre → IvState n dm i L →
      ∀ tail, MidStop tail →
      parseMiddle acc dm (serializeResidues plus a i suf ++ tail) =
        parseMiddle { acc with seq := a.seq, internal := optL (a.internal.getD []),
                               intervals := optL (a.intervals.getD []) } none tail := by
  induction suf with
  | nil =>
    intro acc dm i Dpre D Lpre L _ hlen hin hseq hD hDpre hDcan haccD hL hLpre haccL hst tail htail
    have hi : i = n := by simpa using hin
    subst hi
    have hDnil := canonInternalList_top _ D hDcan
    subst hDnil
    rw [serializeResidues_eq, hL]
    simp only
    rw [marks_final plus i acc hlen dm Lpre L hLpre haccL hst tail htail]
    simp only [List.append_nil] at hseq hD
    congr 1
    rw [hD, ← haccD, ← hseq]
  | cons c t ih =>
    intro acc dm i Dpre D Lpre L hAA hlen hin hseq hD hDpre hDcan haccD hL hLpre haccL hst tail htail
    simp only [List.all_cons, Bool.and_eq_true] at hAA
    rw [serializeResidues_eq]
    simp only [List.append_assoc, List.cons_append]
    rw [hL]
    -- 1. the interval marks
    obtain ⟨dm', Lpre', L', hsplit, hparse, hLpre', hst'⟩ :=
      marks_step plus n i acc hlen dm Lpre L hLpre haccL hst
        (c :: (optMods '[' ']' plus (dictGet i (a.internal.getD [])) ++ (serializeResidues plus a (i + 1) t ++ tail)))
        (by intro x hx; simp at hx; subst hx; exact hAA.1)
    rw [hparse]
    -- 2. the residue
    rw [pm_res _ _ _ _ hAA.1]
    -- 3. its modifications
    have hR : MidStop (serializeResidues plus a (i + 1) t ++ tail) := midStop_residues plus a (i + 1) t hAA.2 tail htail
    rw [hD, dictGet_append_lt i Dpre D hDpre, dictGet_sorted n i D hDcan]
    have hlen' : Int.ofNat (acc.seq ++ [c]).length = i + 1 := by
      simp only [List.length_append, List.length_cons, List.length_nil, Int.ofNat_eq_natCast] at *
      omega
    have hin' : i + 1 + Int.ofNat t.length = n := by
      simp only [List.length_cons, Int.ofNat_eq_natCast] at *; omega
    have hseq' : (acc.seq ++ [c]) ++ t = a.seq := by simpa using hseq
    have hL' : a.intervals.getD [] = Lpre' ++ L' := by rw [hL, hsplit]
    cases D with
    | nil =>
      simp only [optMods, List.nil_append]
      have := ih { acc with seq := acc.seq ++ [c], intervals := optL Lpre' } dm' (i + 1) Dpre [] Lpre' L' hAA.2 hlen' hin'
        hseq' hD (fun p hp => by have := hDpre p hp; omega) rfl haccD hL' hLpre' rfl hst' tail htail
      rw [this]; simp [hD, hL]
    | cons p D' =>
      obtain ⟨k, ms⟩ := p
      have hDc := hDcan
      simp only [canonInternalList, Bool.and_eq_true, decide_eq_true_eq, Bool.not_eq_eq_eq_not, Bool.not_true] at hDc
      obtain ⟨⟨⟨⟨g1, g2⟩, g3⟩, g4⟩, g5⟩ := hDc
      by_cases hk : k = i
      · subst hk
        simp only [↓reduceIte]
        have hne : ms ≠ [] := by intro h; subst h; simp at g3
        rw [show optMods '[' ']' plus (some ms) = serializeMods '[' ']' plus ms from rfl, pm_mods plus _ (by simp) _ ms hne g4 _ hR]
        have hint : (addInternal { acc with seq := acc.seq ++ [c], intervals := optL Lpre' } ms).internal =
            optL (Dpre ++ [(k, ms)]) := by
          simp only [addInternal]
          rw [show Int.ofNat (acc.seq ++ [c]).length - 1 = k by omega, haccD, optL_getD, dictExtend_new k ms Dpre hDpre]
          simp [optL]
        have := ih (addInternal { acc with seq := acc.seq ++ [c], intervals := optL Lpre' } ms) dm' (k + 1)
          (Dpre ++ [(k, ms)]) D' Lpre' L' hAA.2 (by simpa [addInternal] using hlen') hin'
          (by simpa [addInternal] using hseq') (by rw [hD]; simp)
          (fun p hp => by
            simp only [List.mem_append, List.mem_singleton] at hp
            rcases hp with hp | hp
            · have := hDpre p hp; omega
            · subst hp; show k < k + 1; omega)
          g5 hint hL' hLpre' (by simp [addInternal]) hst' tail htail
        rw [this]; simp [hD, hL, addInternal]
      · simp only [hk, ↓reduceIte, optMods, List.nil_append]
        have hDcan' : canonInternalList n (i + 1) ((k, ms) :: D') = true := by
          simp only [canonInternalList, Bool.and_eq_true, decide_eq_true_eq, Bool.not_eq_eq_eq_not, Bool.not_true]
          exact ⟨⟨⟨⟨by omega, g2⟩, g3⟩, g4⟩, g5⟩
        have := ih { acc with seq := acc.seq ++ [c], intervals := optL Lpre' } dm' (i + 1) Dpre ((k, ms) :: D') Lpre' L'
          hAA.2 hlen' hin' hseq' hD (fun p hp => by have := hDpre p hp; omega) hDcan' haccD hL' hLpre' rfl hst' tail htail
        rw [this]; simp [hD, hL]
end Pept
