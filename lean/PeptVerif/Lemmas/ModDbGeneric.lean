import PeptVerif.Model.ModDb
import Mathlib.Tactic.Ring
/-!
Table-independent helper lemmas for C10 ("generic forms behave consistently"):
splitting at `|`, cutting a `#tag`, number tests (`convertType`) on texts that cannot be numbers,
prefix tests, `afterColon` under a case-insensitive prefix.
-/
namespace ModDbGeneric
open ModDb Formula

/-! ## splitting at `|` -/

theorem splitOnAux_bar (a rest : Str) (h : 124 ∉ a) : ∀ acc : Str,
    splitOnAux [124] 0 acc (a ++ 124 :: rest) = (acc.reverse ++ a) :: splitOnAux [124] 0 [] rest := by
  induction a with
  | nil => intro acc; simp [splitOnAux, List.isPrefixOf]
  | cons c a ih =>
    intro acc
    have hc : c ≠ 124 := by intro e; apply h; simp [e]
    have ha : 124 ∉ a := by intro e; apply h; simp [e]
    have : ([124] : Str).isPrefixOf (c :: (a ++ 124 :: rest)) = false := by
      simp [List.isPrefixOf]; omega
    simp only [List.cons_append, splitOnAux, this]
    rw [ih ha]; simp

theorem splitOnAux_nobar (a : Str) (h : 124 ∉ a) : ∀ acc : Str,
    splitOnAux [124] 0 acc a = [acc.reverse ++ a] := by
  induction a with
  | nil => intro acc; simp [splitOnAux]
  | cons c a ih =>
    intro acc
    have hc : c ≠ 124 := by intro e; apply h; simp [e]
    have ha : 124 ∉ a := by intro e; apply h; simp [e]
    have : ([124] : Str).isPrefixOf (c :: a) = false := by
      simp [List.isPrefixOf]; omega
    simp only [splitOnAux, this]
    rw [ih ha]; simp

theorem splitBar_cons (a rest : Str) (h : 124 ∉ a) : splitBar (a ++ 124 :: rest) = a :: splitBar rest := by
  simp [splitBar, splitOn, splitOnAux_bar a rest h]

theorem splitBar_single (a : Str) (h : 124 ∉ a) : splitBar a = [a] := by
  simp [splitBar, splitOn, splitOnAux_nobar a h]

end ModDbGeneric
