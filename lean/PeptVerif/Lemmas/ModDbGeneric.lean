import PeptVerif.Model.ModDb
import Mathlib.Tactic.Ring
/-!
Table-independent helper lemmas for C10 ("generic forms behave consistently"):
splitting at `|`, cutting a `#tag`, number tests (`convertType`) on texts that cannot be numbers,
prefix tests, `afterColon` under a case-insensitive prefix.
-/
namespace ModDbGeneric
open ModDb Formula

/-! ## splitting at `|` -/

theorem splitOnAux_bar (a rest : Str) (h : 124 ∉ a) : ∀ acc : Str,
    splitOnAux [124] 0 acc (a ++ 124 :: rest) = (acc.reverse ++ a) :: splitOnAux [124] 0 [] rest := by
  induction a with
  | nil => intro acc; simp [splitOnAux, List.isPrefixOf]
  | cons c a ih =>
    intro acc
    have hc : c ≠ 124 := by intro e; apply h; simp [e]
    have ha : 124 ∉ a := by intro e; apply h; simp [e]
    have : ([124] : Str).isPrefixOf (c :: (a ++ 124 :: rest)) = false := by
      simp [List.isPrefixOf]; omega
    simp only [List.cons_append, splitOnAux, this]
    rw [ih ha]; simp

theorem splitOnAux_nobar (a : Str) (h : 124 ∉ a) : ∀ acc : Str,
    splitOnAux [124] 0 acc a = [acc.reverse ++ a] := by
  induction a with
  | nil => intro acc; simp [splitOnAux]
  | cons c a ih =>
    intro acc
    have hc : c ≠ 124 := by intro e; apply h; simp [e]
    have ha : 124 ∉ a := by intro e; apply h; simp [e]
    have : ([124] : Str).isPrefixOf (c :: a) = false := by
      simp [List.isPrefixOf]; omega
    simp only [splitOnAux, this]
    rw [ih ha]; simp

theorem splitBar_cons (a rest : Str) (h : 124 ∉ a) : splitBar (a ++ 124 :: rest) = a :: splitBar rest := by
  simp [splitBar, splitOn, splitOnAux_bar a rest h]

theorem splitBar_single (a : Str) (h : 124 ∉ a) : splitBar a = [a] := by
  simp [splitBar, splitOn, splitOnAux_nobar a h]

/-! ## texts containing `#` or `:` are not numbers -/

/-- characters that can never be part of a Python number literal: `#` and `:` -/
def junk (x : Nat) : Bool := x == 35 || x == 58

theorem junk_cases {x : Nat} (h : junk x = true) : x = 35 ∨ x = 58 := by
  simpa [junk] using h

theorem stripL_mem {x : Nat} (hx : isWs x = false) : ∀ s : Str, x ∈ s → x ∈ stripL s := by
  intro s
  induction s with
  | nil => intro h; cases h
  | cons c r ih =>
    intro h
    simp only [stripL]
    split
    · rename_i hc
      rcases List.mem_cons.1 h with e | e
      · subst e; simp [hx] at hc
      · exact ih e
    · exact h

theorem strip_mem {x : Nat} (hx : isWs x = false) {s : Str} (h : x ∈ s) : x ∈ strip s := by
  unfold strip
  have := stripL_mem hx _ (List.mem_reverse.2 (stripL_mem hx s h))
  exact List.mem_reverse.2 this

theorem signOf_mem {x : Nat} (h1 : x ≠ 43) (h2 : x ≠ 45) {s : Str} (h : x ∈ s) : x ∈ (signOf s).2 := by
  unfold signOf
  split
  · rcases List.mem_cons.1 h with e | e
    · exact absurd e h1
    · exact e
  · rcases List.mem_cons.1 h with e | e
    · exact absurd e h2
    · exact e
  · exact h

theorem digitRun_mem {x : Nat} (hx : junk x = true) : ∀ (s : Str) (b : Bool) (acc : List Nat),
    x ∈ s → x ∈ (digitRun s b acc).2 := by
  have hd : isDigit x = false := by rcases junk_cases hx with rfl | rfl <;> decide
  have h95 : x ≠ 95 := by rcases junk_cases hx with rfl | rfl <;> decide
  intro s
  induction s with
  | nil => intro b acc h; cases h
  | cons c r ih =>
    intro b acc h
    have hr : isDigit c = true → x ∈ r := by
      intro hc
      rcases List.mem_cons.1 h with e | e
      · subst e; simp [hd] at hc
      · exact e
    unfold digitRun
    split
    · rename_i hc; exact ih _ _ (hr hc)
    · split
      · split
        · split
          · rename_i hc2
            apply ih
            rcases List.mem_cons.1 h with e | e
            · subst e; simp_all
            · exact e
          · exact h
        · exact h
      · exact h


theorem junk_facts {x : Nat} (hx : junk x = true) :
    isWs x = false ∧ isDigit x = false ∧ x ≠ 43 ∧ x ≠ 45 ∧ x ≠ 46 ∧ x ≠ 101 ∧ x ≠ 69 ∧ toLowerC x = x := by
  rcases junk_cases hx with rfl | rfl <;> decide

theorem parseInt_junk {x : Nat} (hx : junk x = true) {s : Str} (h : x ∈ s) : parseInt s = none := by
  obtain ⟨hw, _, h43, h45, _⟩ := junk_facts hx
  have h1 : x ∈ (signOf (strip s)).2 := signOf_mem h43 h45 (strip_mem hw h)
  have h2 := digitRun_mem hx _ false [] h1
  unfold parseInt
  rcases hs : signOf (strip s) with ⟨sg, r⟩
  rw [hs] at h2
  rcases hd : digitRun r false [] with ⟨ds, rest⟩
  rw [hd] at h2
  simp only
  cases rest with
  | nil => cases h2
  | cons a b => simp [hd]


/-- the `.`-test of `parseFloat` -/
def dotSplit : Str → Bool × Str
  | 46 :: t => (true, t)
  | t => (false, t)

/-- the exponent part of `parseFloat` -/
def expPart (sg : Int) (mant : Rat) : Str → FloatRes
  | [] => .val (sg * mant)
  | c :: t =>
    if c == 101 || c == 69 then
      let e := digitRun (signOf t).2 false []
      if e.1.isEmpty || !e.2.isEmpty then .bad
      else if digitsVal e.1 > 400 then (if mant == 0 || (signOf t).1 < 0 then .val 0 else .special)
      else .val (sg * mant * pow10 ((signOf t).1 * (digitsVal e.1 : Int)))
    else .bad

/-- `parseFloat` in stages (projections instead of destructuring lets) -/
theorem parseFloat_eq (s : Str) : parseFloat s =
    (let p := signOf (strip s)
     let lw := lower p.2
     if lw == str% "inf" || lw == str% "infinity" || lw == str% "nan" then .special
     else
       let d1 := digitRun p.2 false []
       let ds := dotSplit d1.2
       let f := if ds.1 then digitRun ds.2 false [] else ([], ds.2)
       if d1.1.isEmpty && f.1.isEmpty then .bad
       else expPart p.1 (((digitsVal (d1.1 ++ f.1) : Nat) : Rat) / ((10 ^ f.1.length : Nat) : Rat)) f.2) := by
  rfl

theorem dotSplit_mem {x : Nat} (h46 : x ≠ 46) {s : Str} (h : x ∈ s) : x ∈ (dotSplit s).2 := by
  unfold dotSplit
  split
  · rcases List.mem_cons.1 h with e | e
    · exact absurd e h46
    · exact e
  · exact h

theorem expPart_junk {x : Nat} (hx : junk x = true) (sg : Int) (mant : Rat) {s : Str} (h : x ∈ s) :
    expPart sg mant s = .bad := by
  obtain ⟨hw, hdg, h43, h45, h46, h101, h69, hlow⟩ := junk_facts hx
  cases s with
  | nil => cases h
  | cons c t =>
    simp only [expPart]
    split
    · rename_i hc
      have ht : x ∈ t := by
        rcases List.mem_cons.1 h with e | e
        · subst e; simp at hc; omega
        · exact e
      have h2 := digitRun_mem hx _ false [] (signOf_mem h43 h45 ht)
      have : (digitRun (signOf t).2 false []).2.isEmpty = false := by
        cases hh : (digitRun (signOf t).2 false []).2 with
        | nil => rw [hh] at h2; cases h2
        | cons a b => rfl
      simp [this]
    · rfl

theorem parseFloat_junk {x : Nat} (hx : junk x = true) {s : Str} (h : x ∈ s) : parseFloat s = .bad := by
  obtain ⟨hw, hdg, h43, h45, h46, h101, h69, hlow⟩ := junk_facts hx
  have h1 : x ∈ (signOf (strip s)).2 := signOf_mem h43 h45 (strip_mem hw h)
  have hlw : x ∈ lower (signOf (strip s)).2 := List.mem_map.2 ⟨x, h1, hlow⟩
  have hsp : (lower (signOf (strip s)).2 == str% "inf" || lower (signOf (strip s)).2 == str% "infinity"
      || lower (signOf (strip s)).2 == str% "nan") = false := by
    rcases junk_cases hx with rfl | rfl <;>
    · apply Bool.eq_false_iff.2
      intro hh
      simp only [Bool.or_eq_true, beq_iff_eq] at hh
      rcases hh with (e | e) | e <;> (rw [e] at hlw; simp at hlw)
  have h2 := dotSplit_mem h46 (digitRun_mem hx _ false [] h1)
  rw [parseFloat_eq]
  simp only [hsp, Bool.false_eq_true, if_false]
  cases hb : (dotSplit (digitRun (signOf (strip s)).2 false []).2).1
  · simp only [Bool.false_eq_true, if_false]
    split
    · rfl
    · exact expPart_junk hx _ _ h2
  · simp only [if_true]
    split
    · rfl
    · exact expPart_junk hx _ _ (digitRun_mem hx _ false [] h2)

theorem convertType_junk {x : Nat} (hx : junk x = true) {s : Str} (h : x ∈ s) : convertType s = .str := by
  simp [convertType, parseInt_junk hx h, parseFloat_junk hx h]

theorem convertType_hash {s : Str} (h : 35 ∈ s) : convertType s = .str := convertType_junk (x := 35) rfl h
theorem convertType_colon {s : Str} (h : 58 ∈ s) : convertType s = .str := convertType_junk (x := 58) rfl h


/-! ## cutting the `#tag` -/

theorem spanP_append_stop (p : Nat → Bool) (c : Nat) (t : Str) (hc : p c = false) :
    ∀ b : Str, (∀ x ∈ b, p x = true) → spanP p (b ++ c :: t) = (b, c :: t) := by
  intro b
  induction b with
  | nil => intro _; simp [spanP, hc]
  | cons a b ih =>
    intro h
    have ha : p a = true := h a (by simp)
    have hb : ∀ x ∈ b, p x = true := fun x hx => h x (by simp [hx])
    simp [spanP, ha, ih hb]

theorem spanP_all (p : Nat → Bool) : ∀ b : Str, (∀ x ∈ b, p x = true) → spanP p b = (b, []) := by
  intro b
  induction b with
  | nil => intro _; simp [spanP]
  | cons a b ih =>
    intro h
    have ha : p a = true := h a (by simp)
    have hb : ∀ x ∈ b, p x = true := fun x hx => h x (by simp [hx])
    simp [spanP, ha, ih hb]

theorem ne_of_not_mem {c : Nat} {b : Str} (h : c ∉ b) : ∀ x ∈ b, (x != c) = true := by
  intro x hx
  simp only [bne_iff_ne, ne_eq]
  intro e; subst e; exact h hx

theorem beforeHash_tag (b t : Str) (h : 35 ∉ b) : beforeHash (b ++ 35 :: t) = b := by
  simp [beforeHash, spanP_append_stop (· != 35) 35 t (by simp) b (ne_of_not_mem h)]

theorem contains_tag (b t : Str) : (b ++ 35 :: t).contains 35 = true := by simp

theorem contains_false {c : Nat} {b : Str} (h : c ∉ b) : b.contains c = false := by simpa using h

theorem startsWith_hash_tag {b : Str} (t : Str) (h : 35 ∉ b) (hne : b ≠ []) :
    startsWith (b ++ 35 :: t) [35] = false := by
  cases b with
  | nil => exact absurd rfl hne
  | cons c b =>
    have : c ≠ 35 := by intro e; apply h; simp [e]
    simp [startsWith, List.isPrefixOf]; omega

theorem startsWith_hash_false {b : Str} (h : 35 ∉ b) : startsWith b [35] = false := by
  cases b with
  | nil => simp [startsWith, List.isPrefixOf]
  | cons c b =>
    have : c ≠ 35 := by intro e; apply h; simp [e]
    simp [startsWith, List.isPrefixOf]; omega

/-! ## `parseModMass` / `parseModComp` in two stages: tag cutting, then the body -/

/-- the branch chain of `_parse_mod_mass` for a text that is not a number -/
def massStrBody (T : Tables) (m : Str) (mono : Bool) : Except Err (Option Mass) :=
  let lw := lower m
  if startsWith lw (str% "glycan:") then glycanMassProforma T m mono
  else if hasPrefix pGno m then (getMass T T.gno (stripPrefix pGno m) mono).map some
  else if hasPrefix pXlmod m then (getMass T T.xlmod (stripPrefix pXlmod m) mono).map some
  else if hasPrefix pResid m then (getMass T T.resid (stripPrefix pResid m) mono).map some
  else if startsWith lw (str% "info:") then .ok none
  else if isDbStr pPsi T.psimod m then (getMass T T.psimod (stripPrefix pPsi m) mono).map some
  else if isDbStr pUnimod T.unimod m then (getMass T T.unimod (stripPrefix pUnimod m) mono).map some
  else if startsWith lw (str% "formula:") then (chemMassProforma T m mono).map some
  else if startsWith lw (str% "obs:") then (obsMassProforma m).map some
  else .ok none

/-- `_parse_mod_mass` after the tag has been cut -/
def massBody (T : Tables) (m : Str) (mono : Bool) : Except Err (Option Mass) :=
  match convertType m with
  | .num n => .ok (some (some n.val))
  | .special => .ok (some none)
  | .str => massStrBody T m mono

theorem parseModMass_eq (T : Tables) (m : Str) (mono : Bool) : parseModMass T m mono =
    if m.contains 35 && startsWith m [35] then .ok (some (some 0))
    else massBody T (if m.contains 35 then beforeHash m else m) mono := rfl

theorem parseModMass_noTag (T : Tables) {m : Str} (mono : Bool) (h : 35 ∉ m) :
    parseModMass T m mono = massBody T m mono := by
  rw [parseModMass_eq]; simp [h]

theorem parseModMass_str (T : Tables) {m : Str} (mono : Bool) (h : 35 ∉ m) (hc : convertType m = .str) :
    parseModMass T m mono = massStrBody T m mono := by
  rw [parseModMass_noTag T mono h, massBody, hc]

/-- the branch chain of `_parse_mod_comp` after the tag has been cut -/
def compStrBody (T : Tables) (m : Str) : Except Err (Option Comp) :=
  let lw := lower m
  if startsWith lw (str% "glycan:") then (glycanCompProforma T m).map some
  else if hasPrefix pGno m then dbComp T.gno pGno m
  else if hasPrefix pXlmod m then dbComp T.xlmod pXlmod m
  else if hasPrefix pResid m then dbComp T.resid pResid m
  else if startsWith lw (str% "info:") then .ok none
  else if startsWith lw (str% "obs:") then .ok none
  else if isDbStr pPsi T.psimod m then dbComp T.psimod pPsi m
  else if isDbStr pUnimod T.unimod m then dbComp T.unimod pUnimod m
  else if startsWith lw (str% "formula:") then (parseChem ((splitColon1 m).getD []) []).map some
  else .ok none

theorem parseModComp_eq (T : Tables) (m : Str) : parseModComp T m =
    match convertType m with
    | .num _ => .ok none
    | .special => .ok none
    | .str =>
      if m.contains 35 && startsWith m [35] then .ok (some [])
      else compStrBody T (if m.contains 35 then beforeHash m else m) := rfl

theorem parseModComp_str (T : Tables) {m : Str} (h : 35 ∉ m) (hc : convertType m = .str) :
    parseModComp T m = compStrBody T m := by
  rw [parseModComp_eq, hc]; simp [h]

/-! ## multiplier -/

theorem Num_mul_one (v : Num) : Num.mul v (Num.ofInt 1) = v := by
  cases v with
  | mk val isFloat => simp [Num.mul, Num.ofInt]

/-- multiply every count of a composition (what `modCompMult` does) -/
def scaleComp (k : Int) (c : Comp) : Comp := c.map (fun kv => (kv.1, Num.mul kv.2 (Num.ofInt k)))

theorem scaleComp_one (c : Comp) : scaleComp 1 c = c := by
  induction c with
  | nil => rfl
  | cons a c ih =>
    simp only [scaleComp, List.map_cons, Num_mul_one] at ih ⊢
    rw [ih]

theorem scaleComp_keys (k : Int) (c : Comp) : (scaleComp k c).map (·.1) = c.map (·.1) := by
  simp [scaleComp]

theorem scaleComp_vals (k : Int) (c : Comp) :
    (scaleComp k c).map (·.2.val) = c.map (fun kv => kv.2.val * (k : Rat)) := by
  simp [scaleComp, Num.mul, Num.ofInt]

/-- `chem_mass` is linear in the counts -/
theorem chemMassComp_scale (M : MassTable) (mono : Bool) (k : Int) (c : Comp) :
    chemMassComp M mono (scaleComp k c) = (chemMassComp M mono c).map (· * (k : Rat)) := by
  induction c with
  | nil => simp [scaleComp, chemMassComp, Except.map]
  | cons a c ih =>
    obtain ⟨key, v⟩ := a
    simp only [scaleComp, List.map_cons] at ih ⊢
    simp only [chemMassComp]
    cases elemMass M mono key with
    | error e => rfl
    | ok m =>
      simp only [ih]
      cases chemMassComp M mono c with
      | error e => rfl
      | ok t =>
        simp only [Except.map, Num.mul, Num.ofInt]
        congr 1
        ring

theorem rat_mul_add (m : Rat) (a b : Int) : m * ((a + b : Int) : Rat) = m * (a : Rat) + m * (b : Rat) := by
  push_cast; ring

theorem rat_mul_mul (m : Rat) (a b : Int) : m * ((a * b : Int) : Rat) = m * (a : Rat) * (b : Rat) := by
  push_cast; ring

/-! ## case-insensitive prefixes -/

theorem toLowerC_eq_58 {c : Nat} (h : toLowerC c = 58) : c = 58 := by
  unfold toLowerC at h
  split at h
  · rename_i hu; simp [isUpper] at hu; omega
  · exact h

theorem toLowerC_eq_35 {c : Nat} (h : toLowerC c = 35) : c = 35 := by
  unfold toLowerC at h
  split at h
  · rename_i hu; simp [isUpper] at hu; omega
  · exact h

theorem mem_lower_58 {s : Str} : 58 ∈ lower s ↔ 58 ∈ s := by
  constructor
  · intro h
    obtain ⟨c, hc, e⟩ := List.mem_map.1 h
    rw [toLowerC_eq_58 e] at hc; exact hc
  · intro h; exact List.mem_map.2 ⟨58, h, by decide⟩

theorem mem_lower_35 {s : Str} : 35 ∈ lower s ↔ 35 ∈ s := by
  constructor
  · intro h
    obtain ⟨c, hc, e⟩ := List.mem_map.1 h
    rw [toLowerC_eq_35 e] at hc; exact hc
  · intro h; exact List.mem_map.2 ⟨35, h, by decide⟩

theorem lower_append (a b : Str) : lower (a ++ b) = lower a ++ lower b := by simp [lower]

theorem startsWith_iff {l p : Str} : startsWith l p = true ↔ ∃ r, l = p ++ r := by
  unfold startsWith
  rw [List.isPrefixOf_iff_prefix]
  constructor
  · rintro ⟨r, hr⟩; exact ⟨r, hr.symm⟩
  · rintro ⟨r, hr⟩; exact ⟨r, hr.symm⟩

/-- a text whose lower-cased form starts with `p` is `p' ++ t` with `lower p' = p` -/
theorem split_of_startsWith_lower {s p : Str} (h : startsWith (lower s) p = true) :
    ∃ p' t, s = p' ++ t ∧ lower p' = p := by
  obtain ⟨r, hr⟩ := startsWith_iff.1 h
  obtain ⟨l₁, l₂, h1, h2, _⟩ := List.map_eq_append_iff.1 hr
  exact ⟨l₁, l₂, h1, h2⟩

theorem colon_of_startsWith_lower {s p : Str} (h : startsWith (lower s) p = true) (hp : 58 ∈ p) : 58 ∈ s := by
  obtain ⟨r, hr⟩ := startsWith_iff.1 h
  apply mem_lower_58.1
  rw [hr]; simp [hp]

/-- if `lower p' = q ++ ":"` and `q` has no colon, the first colon of `p' ++ t` is the last character of `p'` -/
theorem spanP_colon_prefix {p' q : Str} (t : Str) (hp : lower p' = q ++ [58]) (hq : 58 ∉ q) :
    ∃ q', p' = q' ++ [58] ∧ lower q' = q ∧ spanP (· != 58) (p' ++ t) = (q', 58 :: t) := by
  obtain ⟨l₁, l₂, h1, h2, h3⟩ := List.map_eq_append_iff.1 hp
  obtain ⟨c, hc, e⟩ := List.map_eq_singleton_iff.1 h3
  have e' := toLowerC_eq_58 e
  subst hc; subst e'
  have hq' : 58 ∉ l₁ := by
    intro hh; apply hq; rw [← h2]; exact mem_lower_58.2 hh
  refine ⟨l₁, h1, h2, ?_⟩
  rw [h1, List.append_assoc]
  exact spanP_append_stop (· != 58) 58 t (by simp) l₁ (ne_of_not_mem hq')

theorem afterColon_prefix {p' q : Str} (t : Str) (hp : lower p' = q ++ [58]) (hq : 58 ∉ q) :
    afterColon (p' ++ t) = some t := by
  obtain ⟨q', _, _, h⟩ := spanP_colon_prefix t hp hq
  simp [afterColon, h]

theorem joinAfterColon_prefix {p' q : Str} (t : Str) (hp : lower p' = q ++ [58]) (hq : 58 ∉ q) :
    joinAfterColon (p' ++ t) = t.filter (· != 58) := by
  obtain ⟨q', _, _, h⟩ := spanP_colon_prefix t hp hq
  simp [joinAfterColon, h]

theorem splitColon1_prefix {p' q : Str} (t : Str) (hp : lower p' = q ++ [58]) (hq : 58 ∉ q) :
    splitColon1 (p' ++ t) = some (spanP (· != 58) t).1 := by
  obtain ⟨q', _, _, h⟩ := spanP_colon_prefix t hp hq
  simp [splitColon1, h]

theorem not_hash_prefix {p' p t : Str} (hp : lower p' = p) (h35p : 35 ∉ p) (h35 : 35 ∉ t) : 35 ∉ p' ++ t := by
  intro h
  rcases List.mem_append.1 h with e | e
  · apply h35p; rw [← hp]; exact mem_lower_35.2 e
  · exact h35 e

theorem convertType_prefix {p' p : Str} (t : Str) (hp : lower p' = p) (h58 : 58 ∈ p) :
    convertType (p' ++ t) = .str := by
  apply convertType_colon
  apply List.mem_append_left
  apply mem_lower_58.1; rw [hp]; exact h58


/-- decidable side condition on a concrete prefix: ends in `:` and has no other `:`, no `#` -/
def goodPrefix (p : Str) : Bool := p.getLast? == some 58 && !p.dropLast.contains 58 && !p.contains 35

theorem goodPrefix_split {p : Str} (h : goodPrefix p = true) : p = p.dropLast ++ [58] ∧ 58 ∉ p.dropLast ∧ 35 ∉ p := by
  simp only [goodPrefix, Bool.and_eq_true, beq_iff_eq, Bool.not_eq_true', List.contains_eq_mem,
    decide_eq_false_iff_not] at h
  obtain ⟨⟨h1, h2⟩, h3⟩ := h
  obtain ⟨ys, hy⟩ := List.getLast?_eq_some_iff.1 h1
  subst hy
  simp only [List.dropLast_concat] at h2 ⊢
  exact ⟨trivial, h2, h3⟩

structure PrefixFacts (p' p t : Str) : Prop where
  noHash : 35 ∉ p' ++ t
  conv : convertType (p' ++ t) = .str
  after : afterColon (p' ++ t) = some t
  join : joinAfterColon (p' ++ t) = t.filter (· != 58)
  split1 : splitColon1 (p' ++ t) = some (spanP (· != 58) t).1
  low : lower (p' ++ t) = p ++ lower t

theorem prefixFacts {p' p t : Str} (hp : lower p' = p) (hg : goodPrefix p = true) (h35 : 35 ∉ t) :
    PrefixFacts p' p t := by
  obtain ⟨h1, h2, h3⟩ := goodPrefix_split hg
  have hp' : lower p' = p.dropLast ++ [58] := by rw [hp]; exact h1
  refine ⟨not_hash_prefix hp h3 h35, convertType_prefix t hp (by rw [h1]; simp), afterColon_prefix t hp' h2,
    joinAfterColon_prefix t hp' h2, splitColon1_prefix t hp' h2, by rw [lower_append, hp]⟩

theorem mass_xlmod_prefix (T : Tables) (p' t : Str) (mono : Bool) (hp : lower p' ∈ pXlmod) (h35 : 35 ∉ t) :
    parseModMass T (p' ++ t) mono = (getMass T T.xlmod t mono).map some := by
  simp only [pXlmod, List.mem_cons, List.mem_nil_iff, or_false] at hp
  rcases hp with hp | hp
  all_goals
    obtain ⟨h1, h2, h3, _, _, hl⟩ := prefixFacts hp (by decide) h35
    rw [parseModMass_str T mono h1 h2]
    simp [massStrBody, hasPrefix, stripPrefix, pGno, pXlmod, hl, h3, startsWith, List.isPrefixOf]


theorem mass_gno_prefix (T : Tables) (p' t : Str) (mono : Bool) (hp : lower p' ∈ pGno) (h35 : 35 ∉ t) :
    parseModMass T (p' ++ t) mono = (getMass T T.gno t mono).map some := by
  simp only [pGno, List.mem_cons, List.mem_nil_iff, or_false] at hp
  rcases hp with hp | hp
  all_goals
    obtain ⟨h1, h2, h3, _, _, hl⟩ := prefixFacts hp (by decide) h35
    rw [parseModMass_str T mono h1 h2]
    simp [massStrBody, hasPrefix, stripPrefix, pGno, hl, h3, startsWith, List.isPrefixOf]

theorem mass_resid_prefix (T : Tables) (p' t : Str) (mono : Bool) (hp : lower p' ∈ pResid) (h35 : 35 ∉ t) :
    parseModMass T (p' ++ t) mono = (getMass T T.resid t mono).map some := by
  simp only [pResid, List.mem_cons, List.mem_nil_iff, or_false] at hp
  rcases hp with hp | hp
  all_goals
    obtain ⟨h1, h2, h3, _, _, hl⟩ := prefixFacts hp (by decide) h35
    rw [parseModMass_str T mono h1 h2]
    simp [massStrBody, hasPrefix, stripPrefix, pGno, pXlmod, pResid, hl, h3, startsWith, List.isPrefixOf]

theorem mass_psi_prefix (T : Tables) (p' t : Str) (mono : Bool) (hp : lower p' ∈ pPsi) (h35 : 35 ∉ t) :
    parseModMass T (p' ++ t) mono = (getMass T T.psimod t mono).map some := by
  simp only [pPsi, List.mem_cons, List.mem_nil_iff, or_false] at hp
  rcases hp with hp | hp | hp
  all_goals
    obtain ⟨h1, h2, h3, _, _, hl⟩ := prefixFacts hp (by decide) h35
    rw [parseModMass_str T mono h1 h2]
    simp [massStrBody, isDbStr, hasPrefix, stripPrefix, pGno, pXlmod, pResid, pPsi, hl, h3, startsWith,
      List.isPrefixOf]

theorem mass_unimod_prefix (T : Tables) (p' t : Str) (mono : Bool) (hp : lower p' ∈ pUnimod) (h35 : 35 ∉ t)
    (hP : isDbStr pPsi T.psimod (p' ++ t) = false) :
    parseModMass T (p' ++ t) mono = (getMass T T.unimod t mono).map some := by
  simp only [pUnimod, List.mem_cons, List.mem_nil_iff, or_false] at hp
  rcases hp with hp | hp
  all_goals
    obtain ⟨h1, h2, h3, _, _, hl⟩ := prefixFacts hp (by decide) h35
    rw [parseModMass_str T mono h1 h2]
    have hU : isDbStr pUnimod T.unimod (p' ++ t) = true := by
      simp [isDbStr, hasPrefix, pUnimod, hl, startsWith, List.isPrefixOf]
    have hS : stripPrefix pUnimod (p' ++ t) = t := by
      simp [hasPrefix, stripPrefix, pUnimod, hl, h3, startsWith, List.isPrefixOf]
    simp [massStrBody, hasPrefix, hP, hU, hS, pGno, pXlmod, pResid, hl, startsWith, List.isPrefixOf]

theorem mass_info_prefix (T : Tables) (p' t : Str) (mono : Bool) (hp : lower p' = str% "info:") (h35 : 35 ∉ t) :
    parseModMass T (p' ++ t) mono = .ok none := by
  obtain ⟨h1, h2, h3, _, _, hl⟩ := prefixFacts hp (by decide) h35
  rw [parseModMass_str T mono h1 h2]
  simp [massStrBody, hasPrefix, pGno, pXlmod, pResid, hl, startsWith, List.isPrefixOf]

theorem mass_obs_prefix (T : Tables) (p' t : Str) (mono : Bool) (hp : lower p' = str% "obs:") (h35 : 35 ∉ t)
    (hP : isDbStr pPsi T.psimod (p' ++ t) = false) (hU : isDbStr pUnimod T.unimod (p' ++ t) = false) :
    parseModMass T (p' ++ t) mono =
      (match parseFloat (t.filter (· != 58)) with
       | .val r => .ok (some (some r))
       | .special => .ok (some none)
       | .bad => .error .invalidDeltaMass) := by
  obtain ⟨h1, h2, h3, h4, _, hl⟩ := prefixFacts hp (by decide) h35
  rw [parseModMass_str T mono h1 h2]
  simp only [massStrBody, obsMassProforma, hasPrefix, hP, hU, pGno, pXlmod, pResid, hl, h4]
  simp only [startsWith, List.any]
  simp
  cases parseFloat (t.filter (· != 58)) <;> rfl

theorem mass_formula_prefix (T : Tables) (p' t : Str) (mono : Bool) (hp : lower p' = str% "formula:") (h35 : 35 ∉ t)
    (hP : isDbStr pPsi T.psimod (p' ++ t) = false) (hU : isDbStr pUnimod T.unimod (p' ++ t) = false) :
    parseModMass T (p' ++ t) mono =
      (match chemMassStr T.mass mono (t.filter (· != 58)) [] with
       | .ok m => .ok (some (some m))
       | .error e => .error e) := by
  obtain ⟨h1, h2, h3, h4, _, hl⟩ := prefixFacts hp (by decide) h35
  rw [parseModMass_str T mono h1 h2]
  simp only [massStrBody, chemMassProforma, hasPrefix, hP, hU, pGno, pXlmod, pResid, hl, h4]
  simp only [startsWith, List.any]
  simp
  cases chemMassStr T.mass mono (t.filter (· != 58)) [] <;> rfl

theorem mass_glycan (T : Tables) (s : Str) (mono : Bool) (hp : startsWith (lower s) (str% "glycan:") = true)
    (h35 : 35 ∉ s) : parseModMass T s mono = glycanMassProforma T s mono := by
  have hc : convertType s = .str := convertType_colon (colon_of_startsWith_lower hp (by decide))
  rw [parseModMass_str T mono h35 hc]
  simp [massStrBody, hp]

theorem getMass_signed (T : Tables) (db : List Entry) (c : Nat) (ds : Str) (mono : Bool) (hc : c = 43 ∨ c = 45) :
    getMass T db (c :: ds) mono =
      (match parseFloat (c :: ds) with
       | .val r => .ok (some r)
       | .special => .ok none
       | .bad => .error .invalidDeltaMass) := by
  rcases hc with rfl | rfl
  · simp [getMass]; cases parseFloat (43 :: ds) <;> rfl
  · simp [getMass]; cases parseFloat (45 :: ds) <;> rfl

/-! ## `int()` and `float()` agree; a numeric text is a mass shift -/

theorem digitRun_all_head {r : Str} {ds : List Nat} (h : digitRun r false [] = (ds, [])) (hne : ds ≠ []) :
    ∃ c r', r = c :: r' ∧ isDigit c = true := by
  cases r with
  | nil => simp [digitRun] at h; exact absurd h hne
  | cons c r' =>
    refine ⟨c, r', rfl, ?_⟩
    by_cases hc : isDigit c = true
    · exact hc
    · simp [digitRun, hc] at h

theorem parseFloat_of_parseInt {s : Str} {i : Int} (h : parseInt s = some i) : parseFloat s = .val (i : Rat) := by
  unfold parseInt at h
  simp only at h
  split at h
  · cases h
  · rename_i hcond
    simp only [Bool.or_eq_true, Bool.not_eq_true', not_or, Bool.not_eq_false,
      List.isEmpty_iff] at hcond
    obtain ⟨h1, h2⟩ := hcond
    have h1' : (digitRun (signOf (strip s)).2 false []).1 ≠ [] := by
      intro e; rw [e] at h1; simp at h1
    have hd : digitRun (signOf (strip s)).2 false [] = ((digitRun (signOf (strip s)).2 false []).1, []) :=
      Prod.ext rfl h2
    obtain ⟨c, r', hr, hc⟩ := digitRun_all_head hd h1'
    have hsp : (lower (signOf (strip s)).2 == str% "inf" || lower (signOf (strip s)).2 == str% "infinity"
        || lower (signOf (strip s)).2 == str% "nan") = false := by
      rw [hr]
      have : toLowerC c = c := by
        simp [isDigit] at hc
        simp [toLowerC, isUpper]; omega
      simp [lower, this]
      simp [isDigit] at hc
      omega
    rw [parseFloat_eq]
    simp only [hsp, Bool.false_eq_true, if_false, h2, dotSplit]
    simp only [Option.some.injEq] at h
    have h3 : (digitRun (signOf (strip s)).2 false []).1.isEmpty = false := by
      cases hh : (digitRun (signOf (strip s)).2 false []).1 with
      | nil => exact absurd hh h1'
      | cons a b => rfl
    simp [h3, expPart, ← h]


/-- `convert_type` in terms of `float()` alone (the value; the int/float flag is immaterial for a mass) -/
theorem convertType_of_parseFloat (s : Str) :
    (∀ r, parseFloat s = .val r → ∃ n, convertType s = .num n ∧ n.val = r) ∧
    (parseFloat s = .special → convertType s = .special) ∧
    (parseFloat s = .bad → convertType s = .str) := by
  cases hi : parseInt s with
  | some i =>
    have := parseFloat_of_parseInt hi
    refine ⟨?_, ?_, ?_⟩
    · intro r hr; rw [this] at hr; cases hr
      exact ⟨Num.ofInt i, by simp [convertType, hi], rfl⟩
    · intro hr; rw [this] at hr; cases hr
    · intro hr; rw [this] at hr; cases hr
  | none =>
    refine ⟨?_, ?_, ?_⟩
    · intro r hr; exact ⟨⟨r, true⟩, by simp [convertType, hi, hr], rfl⟩
    · intro hr; simp [convertType, hi, hr]
    · intro hr; simp [convertType, hi, hr]

theorem massBody_number (T : Tables) (s : Str) (mono : Bool) :
    massBody T s mono =
      (match parseFloat s with
       | .val r => .ok (some (some r))
       | .special => .ok (some none)
       | .bad => massStrBody T s mono) := by
  obtain ⟨h1, h2, h3⟩ := convertType_of_parseFloat s
  cases hf : parseFloat s with
  | val r =>
    obtain ⟨n, hn, hv⟩ := h1 r hf
    simp [massBody, hn, hv]
  | special => simp [massBody, h2 hf]
  | bad => simp [massBody, h3 hf]

/-! ## compositions of the prefixed families -/

theorem comp_family_prefix (T : Tables) (p' t : Str) (h35 : 35 ∉ t) :
    (lower p' ∈ pGno → parseModComp T (p' ++ t) = dbComp T.gno [] t) ∧
    (lower p' ∈ pXlmod → parseModComp T (p' ++ t) = dbComp T.xlmod [] t) ∧
    (lower p' ∈ pResid → parseModComp T (p' ++ t) = dbComp T.resid [] t) ∧
    (lower p' ∈ pPsi → parseModComp T (p' ++ t) = dbComp T.psimod [] t) ∧
    (lower p' ∈ pUnimod → isDbStr pPsi T.psimod (p' ++ t) = false →
      parseModComp T (p' ++ t) = dbComp T.unimod [] t) := by
  have hS : ∀ t : Str, stripPrefix [] t = t := by intro t; simp [stripPrefix, hasPrefix]
  refine ⟨?_, ?_, ?_, ?_, ?_⟩
  · intro hp
    simp only [pGno, List.mem_cons, List.mem_nil_iff, or_false] at hp
    rcases hp with hp | hp
    all_goals
      obtain ⟨h1, h2, h3, _, _, hl⟩ := prefixFacts hp (by decide) h35
      rw [parseModComp_str T h1 h2]
      simp [compStrBody, dbComp, hasPrefix, stripPrefix, pGno, hl, h3, startsWith, List.isPrefixOf]
  · intro hp
    simp only [pXlmod, List.mem_cons, List.mem_nil_iff, or_false] at hp
    rcases hp with hp | hp
    all_goals
      obtain ⟨h1, h2, h3, _, _, hl⟩ := prefixFacts hp (by decide) h35
      rw [parseModComp_str T h1 h2]
      simp [compStrBody, dbComp, hasPrefix, stripPrefix, pGno, pXlmod, hl, h3, startsWith, List.isPrefixOf]
  · intro hp
    simp only [pResid, List.mem_cons, List.mem_nil_iff, or_false] at hp
    rcases hp with hp | hp
    all_goals
      obtain ⟨h1, h2, h3, _, _, hl⟩ := prefixFacts hp (by decide) h35
      rw [parseModComp_str T h1 h2]
      simp [compStrBody, dbComp, hasPrefix, stripPrefix, pGno, pXlmod, pResid, hl, h3, startsWith,
        List.isPrefixOf]
  · intro hp
    simp only [pPsi, List.mem_cons, List.mem_nil_iff, or_false] at hp
    rcases hp with hp | hp | hp
    all_goals
      obtain ⟨h1, h2, h3, _, _, hl⟩ := prefixFacts hp (by decide) h35
      rw [parseModComp_str T h1 h2]
      simp [compStrBody, dbComp, isDbStr, hasPrefix, stripPrefix, pGno, pXlmod, pResid, pPsi, hl, h3,
        startsWith, List.isPrefixOf]
  · intro hp hP
    simp only [pUnimod, List.mem_cons, List.mem_nil_iff, or_false] at hp
    rcases hp with hp | hp
    all_goals
      obtain ⟨h1, h2, h3, _, _, hl⟩ := prefixFacts hp (by decide) h35
      rw [parseModComp_str T h1 h2]
      have hU : isDbStr pUnimod T.unimod (p' ++ t) = true := by
        simp [isDbStr, hasPrefix, pUnimod, hl, startsWith, List.isPrefixOf]
      have hSt : stripPrefix pUnimod (p' ++ t) = t := by
        simp [hasPrefix, stripPrefix, pUnimod, hl, h3, startsWith, List.isPrefixOf]
      simp [compStrBody, dbComp, hS, hasPrefix, hP, hU, hSt, pGno, pXlmod, pResid, hl, startsWith,
        List.isPrefixOf]

theorem getComp_signed (db : List Entry) (c : Nat) (ds : Str) (hc : c = 43 ∨ c = 45) :
    getComp db (c :: ds) =
      (match parseFloat (c :: ds) with
       | .bad => .error .invalidDeltaMass
       | _ => .error .deltaMassComp) := by
  rcases hc with rfl | rfl
  · simp [getComp]; cases parseFloat (43 :: ds) <;> rfl
  · simp [getComp]; cases parseFloat (45 :: ds) <;> rfl

theorem dbComp_signed (db : List Entry) (c : Nat) (ds : Str) (hc : c = 43 ∨ c = 45) :
    dbComp db [] (c :: ds) =
      (match parseFloat (c :: ds) with
       | .bad => .error .invalidDeltaMass
       | _ => .error .deltaMassComp) := by
  have hS : stripPrefix [] (c :: ds) = c :: ds := by simp [stripPrefix, hasPrefix]
  rw [dbComp, hS, getComp_signed db c ds hc]
  cases parseFloat (c :: ds) <;> rfl


theorem comp_formula_prefix (T : Tables) (p' t : Str) (hp : lower p' = str% "formula:") (h35 : 35 ∉ t)
    (hP : isDbStr pPsi T.psimod (p' ++ t) = false) (hU : isDbStr pUnimod T.unimod (p' ++ t) = false) :
    parseModComp T (p' ++ t) = (parseChem (spanP (· != 58) t).1 []).map some := by
  obtain ⟨h1, h2, _, _, h5, hl⟩ := prefixFacts hp (by decide) h35
  rw [parseModComp_str T h1 h2]
  simp only [compStrBody, hasPrefix, hP, hU, pGno, pXlmod, pResid, hl, h5]
  simp only [startsWith, List.any]
  simp

theorem comp_glycan (T : Tables) (s : Str) (hp : startsWith (lower s) (str% "glycan:") = true)
    (h35 : 35 ∉ s) : parseModComp T s = (glycanCompProforma T s).map some := by
  have hc : convertType s = .str := convertType_colon (colon_of_startsWith_lower hp (by decide))
  rw [parseModComp_str T h35 hc]
  simp [compStrBody, hp]

theorem spanP_noColon {t : Str} (h : 58 ∉ t) : (spanP (· != 58) t).1 = t ∧ t.filter (· != 58) = t := by
  refine ⟨by rw [spanP_all _ t (ne_of_not_mem h)], ?_⟩
  apply List.filter_eq_self.2
  exact ne_of_not_mem h

/-! ## "documented resolvable form" of one alternative (C09 deferred validation) -/

/-- alternative `a` of a mass string is of a documented resolvable form -/
def massForm (T : Tables) (a : Str) : Bool :=
  if a.contains 35 && startsWith a [35] then true
  else
    let m := if a.contains 35 then beforeHash a else a
    match convertType m with
    | .num _ => true
    | .special => true
    | .str =>
      let lw := lower m
      startsWith lw (str% "glycan:") || hasPrefix pGno m || hasPrefix pXlmod m || hasPrefix pResid m ||
        (!startsWith lw (str% "info:") &&
          (isDbStr pPsi T.psimod m || isDbStr pUnimod T.unimod m || startsWith lw (str% "formula:") ||
            startsWith lw (str% "obs:")))

/-- alternative `a` of a composition string is of a documented resolvable form (numbers, `obs:` and `info:` are not;
`convert_type` is applied before the `#` cut) -/
def compForm (T : Tables) (a : Str) : Bool :=
  match convertType a with
  | .num _ => false
  | .special => false
  | .str =>
    if a.contains 35 && startsWith a [35] then true
    else
      let m := if a.contains 35 then beforeHash a else a
      let lw := lower m
      startsWith lw (str% "glycan:") || hasPrefix pGno m || hasPrefix pXlmod m || hasPrefix pResid m ||
        (!startsWith lw (str% "info:") && !startsWith lw (str% "obs:") &&
          (isDbStr pPsi T.psimod m || isDbStr pUnimod T.unimod m || startsWith lw (str% "formula:")))

theorem massStrBody_not_form (T : Tables) (m : Str) (mono : Bool)
    (h : (startsWith (lower m) (str% "glycan:") || hasPrefix pGno m || hasPrefix pXlmod m || hasPrefix pResid m ||
        (!startsWith (lower m) (str% "info:") &&
          (isDbStr pPsi T.psimod m || isDbStr pUnimod T.unimod m || startsWith (lower m) (str% "formula:") ||
            startsWith (lower m) (str% "obs:")))) = false) :
    massStrBody T m mono = .ok none := by
  simp only [Bool.or_eq_false_iff, Bool.and_eq_false_iff, Bool.not_eq_false'] at h
  obtain ⟨⟨⟨⟨h1, h2⟩, h3⟩, h4⟩, h5⟩ := h
  simp only [massStrBody, h1, h2, h3, h4, Bool.false_eq_true, if_false]
  rcases h5 with h5 | ⟨⟨⟨h6, h7⟩, h8⟩, h9⟩
  · simp [h5]
  · simp [h6, h7, h8, h9]

theorem parseModMass_not_form' (T : Tables) (a : Str) (mono : Bool) (h : massForm T a = false) :
    parseModMass T a mono = .ok none := by
  rw [parseModMass_eq]
  unfold massForm at h
  split at h
  · cases h
  · rename_i hc
    rw [if_neg hc]
    simp only at h
    unfold massBody
    split at h
    · cases h
    · cases h
    · rename_i hs
      try rw [hs]
      exact massStrBody_not_form T _ mono h

theorem compStrBody_not_form (T : Tables) (m : Str)
    (h : (startsWith (lower m) (str% "glycan:") || hasPrefix pGno m || hasPrefix pXlmod m || hasPrefix pResid m ||
        (!startsWith (lower m) (str% "info:") && !startsWith (lower m) (str% "obs:") &&
          (isDbStr pPsi T.psimod m || isDbStr pUnimod T.unimod m || startsWith (lower m) (str% "formula:")))) = false) :
    compStrBody T m = .ok none := by
  simp only [Bool.or_eq_false_iff, Bool.and_eq_false_iff, Bool.not_eq_false'] at h
  obtain ⟨⟨⟨⟨h1, h2⟩, h3⟩, h4⟩, h5⟩ := h
  simp only [compStrBody, h1, h2, h3, h4, Bool.false_eq_true, if_false]
  rcases h5 with (h5 | h5) | ⟨⟨h6, h7⟩, h8⟩
  · simp [h5]
  · by_cases hi : startsWith (lower m) (str% "info:") = true <;> simp [h5, hi]
  · by_cases hi : startsWith (lower m) (str% "info:") = true <;>
    by_cases ho : startsWith (lower m) (str% "obs:") = true <;> simp [hi, ho, h6, h7, h8]

theorem parseModComp_not_form' (T : Tables) (a : Str) (h : compForm T a = false) :
    parseModComp T a = .ok none := by
  rw [parseModComp_eq]
  unfold compForm at h
  split at h
  · rename_i hs; first | rw [hs] | rfl
  · rename_i hs; first | rw [hs] | rfl
  · rename_i hs
    try rw [hs]
    try simp only
    split at h
    · cases h
    · rename_i hc
      rw [if_neg hc]
      exact compStrBody_not_form T _ h

theorem firstMass_ok (T : Tables) (mono : Bool) (x : Mass) : ∀ l : List Str,
    firstMass T mono l = .ok x → ∃ a ∈ l, parseModMass T a mono = .ok (some x) := by
  intro l
  induction l with
  | nil => intro h; cases h
  | cons a r ih =>
    intro h
    simp only [firstMass] at h
    cases hp : parseModMass T a mono with
    | error e => rw [hp] at h; cases h
    | ok o =>
      rw [hp] at h
      cases o with
      | some m =>
        simp only [Except.ok.injEq] at h
        subst h
        exact ⟨a, by simp, hp⟩
      | none =>
        obtain ⟨b, hb, hb'⟩ := ih h
        exact ⟨b, by simp [hb], hb'⟩

theorem firstMass_all_none (T : Tables) (mono : Bool) : ∀ l : List Str,
    (∀ a ∈ l, parseModMass T a mono = .ok none) → firstMass T mono l = .error .invalidModMass := by
  intro l
  induction l with
  | nil => intro _; rfl
  | cons a r ih =>
    intro h
    simp only [firstMass, h a (by simp)]
    exact ih (fun b hb => h b (by simp [hb]))

theorem firstComp_ok (T : Tables) (x : Comp) : ∀ l : List Str,
    firstComp T l = .ok x → ∃ a ∈ l, parseModComp T a = .ok (some x) := by
  intro l
  induction l with
  | nil => intro h; cases h
  | cons a r ih =>
    intro h
    simp only [firstComp] at h
    cases hp : parseModComp T a with
    | error e => rw [hp] at h; cases h
    | ok o =>
      rw [hp] at h
      cases o with
      | some m =>
        simp only [Except.ok.injEq] at h
        subst h
        exact ⟨a, by simp, hp⟩
      | none =>
        obtain ⟨b, hb, hb'⟩ := ih h
        exact ⟨b, by simp [hb], hb'⟩

theorem firstComp_all_none (T : Tables) : ∀ l : List Str,
    (∀ a ∈ l, parseModComp T a = .ok none) → firstComp T l = .error .invalidComp := by
  intro l
  induction l with
  | nil => intro _; rfl
  | cons a r ih =>
    intro h
    simp only [firstComp, h a (by simp)]
    exact ih (fun b hb => h b (by simp [hb]))

theorem map_some_ok {α : Type} {e : Except Err α} {x : α} : e.map some = .ok (some x) ↔ e = .ok x := by
  cases e with
  | error er => simp [Except.map]
  | ok v => simp [Except.map]

theorem map_some_error {α : Type} {e : Except Err α} {er : Err} : e.map some = .error er ↔ e = .error er := by
  cases e with
  | error er => simp [Except.map]
  | ok v => simp [Except.map]

/-- where a value of the branch chain comes from: always a reader of the text or a vocabulary, never a default -/
theorem massStrBody_ok_cases (T : Tables) (m : Str) (mono : Bool) (x : Mass)
    (h : massStrBody T m mono = .ok (some x)) :
    glycanMassProforma T m mono = .ok (some x) ∨
    getMass T T.gno (stripPrefix pGno m) mono = .ok x ∨
    getMass T T.xlmod (stripPrefix pXlmod m) mono = .ok x ∨
    getMass T T.resid (stripPrefix pResid m) mono = .ok x ∨
    getMass T T.psimod (stripPrefix pPsi m) mono = .ok x ∨
    getMass T T.unimod (stripPrefix pUnimod m) mono = .ok x ∨
    chemMassProforma T m mono = .ok x ∨
    obsMassProforma m = .ok x := by
  unfold massStrBody at h
  simp only at h
  split at h
  · exact .inl h
  split at h
  · exact .inr (.inl (map_some_ok.1 h))
  split at h
  · exact .inr (.inr (.inl (map_some_ok.1 h)))
  split at h
  · exact .inr (.inr (.inr (.inl (map_some_ok.1 h))))
  split at h
  · cases h
  split at h
  · exact .inr (.inr (.inr (.inr (.inl (map_some_ok.1 h)))))
  split at h
  · exact .inr (.inr (.inr (.inr (.inr (.inl (map_some_ok.1 h))))))
  split at h
  · exact .inr (.inr (.inr (.inr (.inr (.inr (.inl (map_some_ok.1 h)))))))
  split at h
  · exact .inr (.inr (.inr (.inr (.inr (.inr (.inr (map_some_ok.1 h)))))))
  · cases h

/-! ### inside a vocabulary family -/

def signed (k : Str) : Bool :=
  match k with
  | c :: _ => c == 43 || c == 45
  | [] => false

theorem getMass_unsigned (T : Tables) (db : List Entry) (k : Str) (mono : Bool) (hs : signed k = false) :
    getMass T db k mono =
      (match findEntry db k with
       | none => .error .unknownMod
       | some e => entryMass T e mono) := by
  cases k with
  | nil => rfl
  | cons c r =>
    simp only [signed] at hs
    simp only [getMass, hs, Bool.false_eq_true, if_false]
    cases findEntry db (c :: r) <;> rfl

theorem getMass_signed' (T : Tables) (db : List Entry) (k : Str) (mono : Bool) (hs : signed k = true) :
    getMass T db k mono =
      (match parseFloat k with
       | .val r => .ok (some r)
       | .special => .ok none
       | .bad => .error .invalidDeltaMass) := by
  cases k with
  | nil => cases hs
  | cons c r =>
    simp only [signed] at hs
    simp only [getMass, hs, if_true]
    cases parseFloat (c :: r) <;> rfl

theorem getComp_unsigned (db : List Entry) (k : Str) (hs : signed k = false) :
    getComp db k =
      (match findEntry db k with
       | none => .error .unknownMod
       | some e => match e.comp with
         | none => .error .invalidComp
         | some c => .ok c) := by
  cases k with
  | nil => rfl
  | cons c r =>
    simp only [signed] at hs
    simp only [getComp, hs, Bool.false_eq_true, if_false]
    cases findEntry db (c :: r) with
    | none => rfl
    | some e => simp only []; cases e.comp <;> rfl

theorem getComp_signed' (db : List Entry) (k : Str) (hs : signed k = true) :
    getComp db k =
      (match parseFloat k with
       | .bad => .error .invalidDeltaMass
       | _ => .error .deltaMassComp) := by
  cases k with
  | nil => cases hs
  | cons c r =>
    simp only [signed] at hs
    simp only [getComp, hs, if_true]
    cases parseFloat (c :: r) <;> rfl

/-! ## error classes of the resolver (C09: errors are of the `ValueError` family) -/

/-- the Python exception class is `ValueError` or a subclass of it -/
def _root_.Formula.Err.isValueErrorFamily : Err → Bool
  | .unknownMod | .unknownModMass | .invalidDeltaMass | .invalidComp | .deltaMassComp | .invalidModMass
  | .invalidChemFormula | .invalidGlycanFormula | .valueError => true
  | .typeError | .keyError | .hang | .special => false

abbrev VE (e : Err) : Prop := e.isValueErrorFamily = true

/-- close a goal `VE e` from `h : Except.error <literal> = Except.error e` -/
macro "err_lit " h:ident : tactic =>
  `(tactic| (simp only [Except.error.injEq] at $h:ident; subst $h:ident; rfl))

theorem splitChem_err : ∀ (s : Str) (b : Bool) (acc : Str) (e : Err), splitChem b acc s = .error e → VE e := by
  intro s
  induction s with
  | nil =>
    intro b acc e h
    cases b
    · simp [splitChem] at h
    · simp only [splitChem, Except.error.injEq] at h; subst h; rfl
  | cons c r ih =>
    intro b acc e h
    cases b
    · simp only [splitChem] at h
      split at h
      · split at h
        · cases h
        · rename_i e' he'
          simp only [Except.error.injEq] at h; subst h
          exact ih _ _ _ he'
      · split at h
        · simp only [Except.error.injEq] at h; subst h; rfl
        · exact ih _ _ _ h
    · simp only [splitChem] at h
      split at h
      · split at h
        · cases h
        · rename_i e' he'
          simp only [Except.error.injEq] at h; subst h
          exact ih _ _ _ he'
      · exact ih _ _ _ h

theorem parseCondensed_err (s : Str) (e : Err) (h : parseCondensed s = .error e) : VE e := by
  unfold parseCondensed at h
  simp only at h
  split at h
  · cases h
  split at h
  · err_lit h
  split at h
  · err_lit h
  split at h
  · err_lit h
  · cases h

theorem parseIsotope_err (s : Str) (e : Err) (h : parseIsotope s = .error e) : VE e := by
  unfold parseIsotope at h
  split at h
  · cases h
  · split at h
    · exact parseCondensed_err _ _ h
    · simp only at h
      split at h
      · err_lit h
      split at h
      · err_lit h
      · cases h

theorem parseComponent_err (s : Str) (e : Err) (h : parseComponent s = .error e) : VE e := by
  unfold parseComponent at h
  split at h
  · exact parseIsotope_err _ _ h
  · exact parseCondensed_err _ _ h

theorem parseComponents_err : ∀ (l : List Str) (e : Err), parseComponents l = .error e → VE e := by
  intro l
  induction l with
  | nil => intro e h; cases h
  | cons c r ih =>
    intro e h
    simp only [parseComponents] at h
    split at h
    · rename_i e' he'
      simp only [Except.error.injEq] at h; subst h
      exact parseComponent_err _ _ he'
    · split at h
      · rename_i e' he'
        simp only [Except.error.injEq] at h; subst h
        exact ih _ he'
      · cases h

/-- `parse_chem_formula(s)` (no separator): only `ValueError` (unclosed bracket) or `InvalidChemFormulaError` -/
theorem parseChem_err (s : Str) (e : Err) (h : parseChem s [] = .error e) : VE e := by
  unfold parseChem at h
  simp only [bne_self_eq_false, Bool.false_eq_true, if_false] at h
  split at h
  · rename_i e' he'
    simp only [Except.error.injEq] at h; subst h
    exact splitChem_err _ _ _ _ he'
  · split at h
    · rename_i e' he'
      simp only [Except.error.injEq] at h; subst h
      exact parseComponents_err _ _ he'
    · cases h


/-- table defect 1: an element row (not an isotope key) without an average mass — the only source of `KeyError` -/
def KeyErrSrc (M : MassTable) : Prop := ∃ el ∈ M.elems, el.avg = none ∧ isIsoKey el.sym = false
/-- table defect 2: a monosaccharide entry without mono mass, average mass or composition — the only source of `TypeError` -/
def TypeErrSrc (mono : List Entry) : Prop := ∃ e ∈ mono, e.mono = none ∨ e.avg = none ∨ e.comp = none
/-- table defect 3: an empty monosaccharide name or synonym — the only source of an endless loop -/
def HangSrc (mono : List Entry) : Prop := [] ∈ namesSorted mono

/-- an error of the resolver: of the `ValueError` family, or one of the three table defects, located -/
def ErrOK (T : Tables) (e : Err) : Prop :=
  VE e ∨ (e = .typeError ∧ TypeErrSrc T.mono) ∨ (e = .keyError ∧ KeyErrSrc T.mass) ∨ (e = .hang ∧ HangSrc T.mono)

theorem ErrOK.ve {T : Tables} {e : Err} (h : VE e) : ErrOK T e := .inl h

theorem elemMass_err (T : Tables) (mono : Bool) (k : Str) (e : Err) (h : elemMass T.mass mono k = .error e) :
    ErrOK T e := by
  unfold elemMass at h
  split at h
  · split at h
    · cases h
    split at h
    · cases h
    split at h
    · cases h
    · exact .ve (by err_lit h)
  · rename_i el hel
    split at h
    · cases h
    · rename_i hcond
      split at h
      · cases h
      · rename_i havg
        simp only [Except.error.injEq] at h; subst h
        refine .inr (.inr (.inl ⟨rfl, el, ?_, havg, ?_⟩))
        · exact List.mem_of_find?_eq_some hel
        · have := List.find?_some hel
          simp only [beq_iff_eq] at this
          rw [this]
          simp only [Bool.or_eq_true, not_or, Bool.not_eq_true] at hcond
          exact hcond.2

theorem chemMassComp_err (T : Tables) (mono : Bool) : ∀ (c : Comp) (e : Err),
    chemMassComp T.mass mono c = .error e → ErrOK T e := by
  intro c
  induction c with
  | nil => intro e h; cases h
  | cons kv r ih =>
    intro e h
    obtain ⟨k, v⟩ := kv
    simp only [chemMassComp] at h
    split at h
    · rename_i e' he'
      simp only [Except.error.injEq] at h; subst h
      exact elemMass_err T mono k _ he'
    · split at h
      · rename_i e' he'
        simp only [Except.error.injEq] at h; subst h
        exact ih _ he'
      · cases h

theorem chemMassStr_err (T : Tables) (mono : Bool) (s : Str) (e : Err)
    (h : chemMassStr T.mass mono s [] = .error e) : ErrOK T e := by
  unfold chemMassStr at h
  split at h
  · rename_i e' he'
    simp only [Except.error.injEq] at h; subst h
    exact .ve (parseChem_err _ _ he')
  · exact chemMassComp_err T mono _ _ h

/-! ### glycans -/

theorem lookupLast_mem (key : Entry → Str) (s : Str) : ∀ (l : List Entry) (e : Entry),
    lookupLast key s l = some e → e ∈ l := by
  intro l
  induction l with
  | nil => intro e h; cases h
  | cons a r ih =>
    intro e h
    simp only [lookupLast] at h
    split at h
    · rename_i r' hr'
      simp only [Option.some.injEq] at h; subst h
      exact List.mem_cons_of_mem _ (ih _ hr')
    · split at h
      · simp only [Option.some.injEq] at h; subst h; simp
      · cases h

theorem lookupSyn_mem (s : Str) : ∀ (l : List Entry) (e : Entry), lookupSyn s l = some e → e ∈ l := by
  intro l
  induction l with
  | nil => intro e h; cases h
  | cons a r ih =>
    intro e h
    simp only [lookupSyn] at h
    split at h
    · rename_i r' hr'
      simp only [Option.some.injEq] at h; subst h
      exact List.mem_cons_of_mem _ (ih _ hr')
    · split at h
      · simp only [Option.some.injEq] at h; subst h; simp
      · cases h

theorem monoEntry_mem (mono : List Entry) (k : Str) (e : Entry) (h : monoEntry mono k = some e) : e ∈ mono := by
  unfold monoEntry at h
  split at h
  · rename_i e' he'
    simp only [Option.some.injEq] at h; subst h
    exact lookupLast_mem _ _ _ _ he'
  · exact lookupSyn_mem _ _ _ h

theorem monoLookup_mem (mono : List Entry) (k : Str) (e : Entry) (h : monoLookup mono k = some e) : e ∈ mono := by
  unfold monoLookup at h
  split at h
  · rename_i e' he'
    simp only [Option.some.injEq] at h; subst h
    exact lookupLast_mem _ _ _ _ he'
  · split at h
    · rename_i e' he'
      simp only [Option.some.injEq] at h; subst h
      exact lookupLast_mem _ _ _ _ he'
    · exact lookupSyn_mem _ _ _ h

theorem parseGlycanAux_err (T : Tables) : ∀ (s : Str) (k : Nat) (d : Comp) (e : Err),
    parseGlycanAux (namesSorted T.mono) k s d = .error e → ErrOK T e := by
  intro s
  induction s with
  | nil => intro k d e h; cases k <;> cases h
  | cons c r ih =>
    intro k d e h
    cases k with
    | succ k => simp only [parseGlycanAux] at h; exact ih _ _ _ h
    | zero =>
      simp only [parseGlycanAux] at h
      split at h
      · exact .ve (by err_lit h)
      · rename_i nm hnm
        split at h
        · rename_i hemp
          simp only [Except.error.injEq] at h; subst h
          refine .inr (.inr (.inr ⟨rfl, ?_⟩))
          have hm := List.mem_of_find?_eq_some hnm
          simp only [List.isEmpty_iff] at hemp
          rw [hemp] at hm
          exact hm
        · split at h
          · exact .ve (by err_lit h)
          · exact ih _ _ _ h

theorem parseGlycan_err (T : Tables) (s : Str) (e : Err) (h : parseGlycan T.mono s [] = .error e) : ErrOK T e := by
  unfold parseGlycan at h
  split at h
  · cases h
  · simp only [bne_self_eq_false, Bool.false_eq_true, if_false] at h
    exact parseGlycanAux_err T _ _ _ _ h

theorem glycanMassDict_err (T : Tables) (isMono : Bool) : ∀ (g : Comp) (e : Err),
    glycanMassDict T.mono isMono g = .error e → ErrOK T e := by
  intro g
  induction g with
  | nil => intro e h; cases h
  | cons kv r ih =>
    intro e h
    obtain ⟨k, v⟩ := kv
    simp only [glycanMassDict] at h
    split at h
    · exact .ve (by err_lit h)
    · rename_i en hen
      split at h
      · rename_i hm
        simp only [Except.error.injEq] at h; subst h
        refine .inr (.inl ⟨rfl, en, monoEntry_mem _ _ _ hen, ?_⟩)
        cases isMono
        · simp only [Bool.false_eq_true, if_false] at hm; exact .inr (.inl hm)
        · simp only [if_true] at hm; exact .inl hm
      · split at h
        · rename_i e' he'
          simp only [Except.error.injEq] at h; subst h
          exact ih _ he'
        · cases h

theorem glycanMassStr_err (T : Tables) (isMono : Bool) (s : Str) (e : Err)
    (h : glycanMassStr T.mono isMono s = .error e) : ErrOK T e := by
  unfold glycanMassStr at h
  split at h
  · rename_i e' he'
    simp only [Except.error.injEq] at h; subst h
    exact parseGlycan_err T _ _ he'
  · exact glycanMassDict_err T isMono _ _ h

theorem glycanCompDict_err (T : Tables) : ∀ (g acc : Comp) (e : Err),
    glycanCompDict T.mono g acc = .error e → ErrOK T e := by
  intro g
  induction g with
  | nil => intro acc e h; cases h
  | cons kv r ih =>
    intro acc e h
    obtain ⟨k, v⟩ := kv
    simp only [glycanCompDict] at h
    split at h
    · exact .ve (by err_lit h)
    · rename_i en hen
      split at h
      · rename_i hc
        simp only [Except.error.injEq] at h; subst h
        exact .inr (.inl ⟨rfl, en, monoEntry_mem _ _ _ hen, .inr (.inr hc)⟩)
      · split at h
        · rename_i e' he'
          simp only [Except.error.injEq] at h; subst h
          exact .ve (parseChem_err _ _ he')
        · exact ih _ _ h

theorem glycanCompStr_err (T : Tables) (s : Str) (e : Err)
    (h : glycanCompStr T.mono s = .error e) : ErrOK T e := by
  unfold glycanCompStr at h
  split at h
  · rename_i e' he'
    simp only [Except.error.injEq] at h; subst h
    exact parseGlycan_err T _ _ he'
  · exact glycanCompDict_err T _ _ _ h


/-! ### the branches of `_parse_mod_mass` / `_parse_mod_comp` -/

theorem glycanMassProforma_err (T : Tables) (s : Str) (mono : Bool) (e : Err)
    (h : glycanMassProforma T s mono = .error e) : ErrOK T e := by
  unfold glycanMassProforma at h
  simp only at h
  split at h
  · split at h <;> cases h
  · split at h
    · cases h
    · rename_i e' he'
      simp only [Except.error.injEq] at h; subst h
      exact glycanMassStr_err T mono _ _ he'

theorem glycanCompProforma_err (T : Tables) (s : Str) (e : Err)
    (h : glycanCompProforma T s = .error e) : ErrOK T e := by
  unfold glycanCompProforma at h
  simp only at h
  split at h
  · rename_i en hen
    split at h
    · rename_i hc
      simp only [Except.error.injEq] at h; subst h
      exact .inr (.inl ⟨rfl, en, monoLookup_mem _ _ _ hen, .inr (.inr hc)⟩)
    · exact .ve (parseChem_err _ _ h)
  · split at h
    · rename_i e' he'
      simp only [Except.error.injEq] at h; subst h
      exact glycanCompStr_err T _ _ he'
    · exact .ve (parseChem_err _ _ h)

theorem entryMass_err (T : Tables) (en : Entry) (mono : Bool) (e : Err)
    (h : entryMass T en mono = .error e) : ErrOK T e := by
  unfold entryMass at h
  split at h
  · cases h
  · split at h
    · exact .ve (by err_lit h)
    · split at h
      · cases h
      · rename_i e' he'
        simp only [Except.error.injEq] at h; subst h
        exact chemMassStr_err T mono _ _ he'

theorem getMass_err (T : Tables) (db : List Entry) (k : Str) (mono : Bool) (e : Err)
    (h : getMass T db k mono = .error e) : ErrOK T e := by
  cases hs : signed k with
  | true =>
    rw [getMass_signed' T db k mono hs] at h
    split at h
    · cases h
    · cases h
    · exact .ve (by err_lit h)
  | false =>
    rw [getMass_unsigned T db k mono hs] at h
    split at h
    · exact .ve (by err_lit h)
    · exact entryMass_err T _ mono _ h

theorem getComp_err (db : List Entry) (k : Str) (e : Err) (h : getComp db k = .error e) : VE e := by
  cases hs : signed k with
  | true =>
    rw [getComp_signed' db k hs] at h
    split at h
    · err_lit h
    · err_lit h
  | false =>
    rw [getComp_unsigned db k hs] at h
    split at h
    · err_lit h
    · split at h
      · err_lit h
      · cases h

theorem dbComp_err (db : List Entry) (ps : List Str) (m : Str) (e : Err) (h : dbComp db ps m = .error e) : VE e := by
  unfold dbComp at h
  split at h
  · rename_i e' he'
    simp only [Except.error.injEq] at h; subst h
    exact getComp_err _ _ _ he'
  · exact parseChem_err _ _ (map_some_error.1 h)

theorem obsMassProforma_err (s : Str) (e : Err) (h : obsMassProforma s = .error e) : VE e := by
  unfold obsMassProforma at h
  simp only at h
  split at h
  · cases h
  · cases h
  · err_lit h

theorem chemMassProforma_err (T : Tables) (s : Str) (mono : Bool) (e : Err)
    (h : chemMassProforma T s mono = .error e) : ErrOK T e := by
  unfold chemMassProforma at h
  simp only at h
  split at h
  · cases h
  · rename_i e' he'
    simp only [Except.error.injEq] at h; subst h
    exact chemMassStr_err T mono _ _ he'

theorem massStrBody_err (T : Tables) (m : Str) (mono : Bool) (e : Err)
    (h : massStrBody T m mono = .error e) : ErrOK T e := by
  unfold massStrBody at h
  simp only at h
  split at h
  · exact glycanMassProforma_err T _ _ _ h
  split at h
  · exact getMass_err T _ _ _ _ (map_some_error.1 h)
  split at h
  · exact getMass_err T _ _ _ _ (map_some_error.1 h)
  split at h
  · exact getMass_err T _ _ _ _ (map_some_error.1 h)
  split at h
  · cases h
  split at h
  · exact getMass_err T _ _ _ _ (map_some_error.1 h)
  split at h
  · exact getMass_err T _ _ _ _ (map_some_error.1 h)
  split at h
  · exact chemMassProforma_err T _ _ _ (map_some_error.1 h)
  split at h
  · exact .ve (obsMassProforma_err _ _ (map_some_error.1 h))
  · cases h

theorem parseModMass_err (T : Tables) (a : Str) (mono : Bool) (e : Err)
    (h : parseModMass T a mono = .error e) : ErrOK T e := by
  rw [parseModMass_eq] at h
  split at h
  · cases h
  · unfold massBody at h
    split at h
    · cases h
    · cases h
    · exact massStrBody_err T _ _ _ h

theorem firstMass_err (T : Tables) (mono : Bool) : ∀ (l : List Str) (e : Err),
    firstMass T mono l = .error e → ErrOK T e := by
  intro l
  induction l with
  | nil => intro e h; exact .ve (by simp only [firstMass] at h; err_lit h)
  | cons a r ih =>
    intro e h
    simp only [firstMass] at h
    split at h
    · rename_i e' he'
      simp only [Except.error.injEq] at h; subst h
      exact parseModMass_err T _ _ _ he'
    · cases h
    · exact ih _ h

theorem compStrBody_err (T : Tables) (m : Str) (e : Err) (h : compStrBody T m = .error e) : ErrOK T e := by
  unfold compStrBody at h
  simp only at h
  split at h
  · exact glycanCompProforma_err T _ _ (map_some_error.1 h)
  split at h
  · exact .ve (dbComp_err _ _ _ _ h)
  split at h
  · exact .ve (dbComp_err _ _ _ _ h)
  split at h
  · exact .ve (dbComp_err _ _ _ _ h)
  split at h
  · cases h
  split at h
  · cases h
  split at h
  · exact .ve (dbComp_err _ _ _ _ h)
  split at h
  · exact .ve (dbComp_err _ _ _ _ h)
  split at h
  · exact .ve (parseChem_err _ _ (map_some_error.1 h))
  · cases h

theorem parseModComp_err (T : Tables) (a : Str) (e : Err) (h : parseModComp T a = .error e) : ErrOK T e := by
  rw [parseModComp_eq] at h
  split at h
  · cases h
  · cases h
  · split at h
    · cases h
    · exact compStrBody_err T _ _ h

theorem firstComp_err (T : Tables) : ∀ (l : List Str) (e : Err), firstComp T l = .error e → ErrOK T e := by
  intro l
  induction l with
  | nil => intro e h; exact .ve (by simp only [firstComp] at h; err_lit h)
  | cons a r ih =>
    intro e h
    simp only [firstComp] at h
    split at h
    · rename_i e' he'
      simp only [Except.error.injEq] at h; subst h
      exact parseModComp_err T _ _ he'
    · cases h
    · exact ih _ h

end ModDbGeneric
