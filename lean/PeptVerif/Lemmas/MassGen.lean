import PeptVerif.Lemmas.Label
/-!
# Model-side lemmas for the mechanical tie of the arithmetic core (Props/C02Gen)

Facts about the hand model only (no generated definition is mentioned here): every element of the isotopic table that is not a
specific isotope has an average mass (so the source's `AVERAGE_ATOMIC_MASSES[element]` cannot raise where the hand model
answers), and the dict idioms `d[k] = d.get(k, 0) + v` / `d[k] = v` in terms of `addKey`.
-/
namespace Pept.MassGen
open Pept Pept.Chem Pept.Mass Pept.Label

/-- every non-isotope key of the isotopic table has an average mass -/
def avgTotalOk : Bool := isotopicMasses.all (fun p => isIsotopeKey p.1 || (lookup p.1 averageMasses).isSome)

theorem avg_total_ok : avgTotalOk = true := by decide +kernel

theorem avg_of_iso (e : Elem) (mi : Rat) (hi : lookup e isotopicMasses = some mi) (hiso : isIsotopeKey e = false) :
    ∃ a, lookup e averageMasses = some a := by
  have hm := chem_lookup_mem e _ mi hi
  have := List.all_eq_true.mp avg_total_ok (e, mi) hm
  simp only [hiso, Bool.false_or] at this
  exact Option.isSome_iff_exists.mp this

/-- `d[k] = d.get(k, 0) + v` is `addKey` -/
theorem setKey_getD (d : Comp) (k : Elem) (v : Rat) : setKey d k ((lookup k d).getD 0 + v) = addKey d k v := by
  induction d with
  | nil => simp [setKey, addKey, lookup]
  | cons p r ih =>
    obtain ⟨a, b⟩ := p
    by_cases h : a = k
    · simp [setKey, addKey, lookup, h]
    · simp [setKey, addKey, lookup, h, ih]

theorem setKey_absent (d : Comp) (k : Elem) (v : Rat) (h : k ∉ d.map (·.1)) : setKey d k v = d ++ [(k, v)] := by
  induction d with
  | nil => rfl
  | cons p r ih =>
    obtain ⟨a, b⟩ := p
    simp only [List.map_cons, List.mem_cons, not_or] at h
    have : ¬ a = k := fun e => h.1 e.symm
    simp [setKey, this, ih h.2]

theorem addKey_absent (d : Comp) (k : Elem) (v : Rat) (h : k ∉ d.map (·.1)) : addKey d k v = d ++ [(k, v)] := by
  induction d with
  | nil => rfl
  | cons p r ih =>
    obtain ⟨a, b⟩ := p
    simp only [List.map_cons, List.mem_cons, not_or] at h
    have : ¬ a = k := fun e => h.1 e.symm
    simp [addKey, this, ih h.2]

/-- copying a dict with distinct keys item by item: `d[k] = v` and `d[k] = d.get(k, 0) + v` build the same dict -/
theorem foldl_set_eq_add (l acc : Comp) (hn : NodupKeys l) (hd : ∀ k ∈ l.map (·.1), k ∉ acc.map (·.1)) :
    l.foldl (fun d x => setKey d x.1 x.2) acc = l.foldl (fun d x => addKey d x.1 x.2) acc := by
  induction l generalizing acc with
  | nil => rfl
  | cons p r ih =>
    obtain ⟨a, b⟩ := p
    simp only [List.foldl_cons]
    have ha : a ∉ acc.map (·.1) := hd a (by simp)
    rw [setKey_absent _ _ _ ha, addKey_absent _ _ _ ha]
    unfold NodupKeys at hn
    simp only [List.map_cons, List.nodup_cons] at hn
    apply ih _ hn.2
    intro k hk
    simp only [List.map_append, List.map_cons, List.map_nil, List.mem_append, List.mem_singleton, not_or]
    refine ⟨hd k (by simp [hk]), ?_⟩
    intro e; subst e; exact hn.1 hk

end Pept.MassGen
