import PeptVerif.Spec.ScoreRnd
import PeptVerif.Lemmas.Score
/-! Helper lemmas for the rounding-robust window theorems of C17 (`Props/C17Ext.lean`). -/
namespace Score

/-- `rnd` has relative error at most `u` (IEEE binary64 round-to-nearest: `u = 2^-53` in the normal range; trusted,
see the header of `Spec/ScoreRnd.lean`) -/
def RndRel (rnd : Rat → Rat) (u : Rat) : Prop := ∀ z, |rnd z - z| ≤ u * |z|

/-- the absolute slack of the sandwich: `u·(|mz|+|tol|)` for th, `u·|mz| + 4u·|mz·tol/10⁶|` for ppm -/
def slack (u : Rat) (t : Tol) (tol x : Rat) : Rat :=
  match t with
  | .th => u * (|x| + |tol|)
  | .ppm => u * |x| + 4 * u * |x * tol / 1000000|

theorem loR_th (rnd : Rat → Rat) (tol x : Rat) : loR rnd .th tol x = rnd (x - tol) := rfl
theorem hiR_th (rnd : Rat → Rat) (tol x : Rat) : hiR rnd .th tol x = rnd (x + tol) := rfl
theorem loR_ppm (rnd : Rat → Rat) (tol x : Rat) :
    loR rnd .ppm tol x = rnd (x - rnd (rnd (x * tol) / 1000000)) := rfl
theorem hiR_ppm (rnd : Rat → Rat) (tol x : Rat) :
    hiR rnd .ppm tol x = rnd (x + rnd (rnd (x * tol) / 1000000)) := rfl

theorem RndRel.u_nonneg {rnd : Rat → Rat} {u : Rat} (h : RndRel rnd u) : 0 ≤ u := by
  have h1 := h 1
  have h2 := abs_nonneg (rnd 1 - 1)
  simp only [abs_one, mul_one] at h1
  linarith

/-- one rounded operation: an argument within `b` of `e` is rounded to within `b + u(|e|+b)` of `e` -/
theorem rnd_step {rnd : Rat → Rat} {u : Rat} (hrel : RndRel rnd u) (z e b : Rat) (h : |z - e| ≤ b) :
    |rnd z - e| ≤ b + u * (|e| + b) := by
  have hu := hrel.u_nonneg
  have h1 := hrel z
  have h2 : |z| ≤ |e| + b := by
    have := abs_sub_abs_le_abs_sub z e; linarith
  have h3 : |rnd z - e| ≤ |rnd z - z| + |z - e| := abs_sub_le _ _ _
  have h4 : u * |z| ≤ u * (|e| + b) := mul_le_mul_of_nonneg_left h2 hu
  linarith

/-- the rounded ppm offset `rnd (rnd (x·tol) / 10⁶)` is within `(2u+u²)·|E|` of `E = x·tol/10⁶` -/
theorem ppm_offset_err {rnd : Rat → Rat} {u : Rat} (hrel : RndRel rnd u) (tol x : Rat) :
    |rnd (rnd (x * tol) / 1000000) - x * tol / 1000000|
      ≤ u * |x * tol / 1000000| + u * (|x * tol / 1000000| + u * |x * tol / 1000000|) := by
  apply rnd_step hrel
  have h1 := hrel (x * tol)
  have e : rnd (x * tol) / 1000000 - x * tol / 1000000 = (rnd (x * tol) - x * tol) / 1000000 := by ring
  rw [e, abs_div, abs_div]
  have hm : |(1000000 : Rat)| = 1000000 := by norm_num
  rw [hm]
  have : u * (|x * tol| / 1000000) = (u * |x * tol|) / 1000000 := by ring
  rw [this]
  exact div_le_div_of_nonneg_right h1 (by norm_num)

/-- both rounded ppm bounds are within `slack` of the exact bounds `x ∓ x·tol/10⁶` -/
theorem ppm_bound_err {rnd : Rat → Rat} {u : Rat} (hrel : RndRel rnd u) (hu : u ≤ 1/8) (tol x : Rat) :
    |loR rnd .ppm tol x - (x - x * tol / 1000000)| ≤ slack u .ppm tol x
    ∧ |hiR rnd .ppm tol x - (x + x * tol / 1000000)| ≤ slack u .ppm tol x := by
  have hu0 := hrel.u_nonneg
  have ho := ppm_offset_err hrel tol x
  rw [loR_ppm, hiR_ppm]
  simp only [slack]
  generalize rnd (rnd (x * tol) / 1000000) = off at ho
  generalize x * tol / 1000000 = E at ho ⊢
  have hA := abs_nonneg E
  have hX := abs_nonneg x
  have hfin : ∀ b2, b2 = u * |E| + u * (|E| + u * |E|) → ∀ w, |w| ≤ |x| + |E| →
      b2 + u * (|w| + b2) ≤ u * |x| + 4 * u * |E| := by
    intro b2 hb2 w hw
    have hAu : 0 ≤ |E| * u := mul_nonneg hA hu0
    have h3 : 0 ≤ 1 - 3 * u - u * u := by nlinarith
    have h4 := mul_nonneg hAu h3
    have h5 : u * |w| ≤ u * (|x| + |E|) := mul_le_mul_of_nonneg_left hw hu0
    subst hb2
    nlinarith
  constructor
  · have h : |(x - off) - (x - E)| ≤ u * |E| + u * (|E| + u * |E|) := by
      have e : (x - off) - (x - E) = -(off - E) := by ring
      rw [e, abs_neg]; exact ho
    have := rnd_step hrel _ _ _ h
    exact le_trans this (hfin _ rfl _ (abs_sub x E))
  · have h : |(x + off) - (x + E)| ≤ u * |E| + u * (|E| + u * |E|) := by
      have e : (x + off) - (x + E) = off - E := by ring
      rw [e]; exact ho
    have := rnd_step hrel _ _ _ h
    exact le_trans this (hfin _ rfl _ (abs_add_le x E))

/-- both rounded th bounds are within `slack` of the exact bounds `x ∓ tol` -/
theorem th_bound_err {rnd : Rat → Rat} {u : Rat} (hrel : RndRel rnd u) (tol x : Rat) :
    |loR rnd .th tol x - (x - tol)| ≤ slack u .th tol x
    ∧ |hiR rnd .th tol x - (x + tol)| ≤ slack u .th tol x := by
  have hu0 := hrel.u_nonneg
  rw [loR_th, hiR_th]
  simp only [slack]
  constructor
  · exact le_trans (hrel _) (mul_le_mul_of_nonneg_left (abs_sub x tol) hu0)
  · exact le_trans (hrel _) (mul_le_mul_of_nonneg_left (abs_add_le x tol) hu0)

/-- from "both bounds within `S` of `x ∓ E`" to the sandwich for one peak -/
theorem sandwich_of_bound_err (lo hi x E S y : Rat) (hl : |lo - (x - E)| ≤ S) (hh : |hi - (x + E)| ≤ S) :
    (|y - x| ≤ E - S → lo ≤ y ∧ y ≤ hi) ∧ (lo ≤ y ∧ y ≤ hi → |y - x| ≤ E + S) := by
  have ⟨l1, l2⟩ := abs_le.mp hl
  have ⟨h1, h2⟩ := abs_le.mp hh
  constructor
  · intro h
    have ⟨a, b⟩ := abs_le.mp h
    constructor <;> linarith
  · rintro ⟨a, b⟩
    apply abs_le.mpr
    constructor <;> linarith

/-- membership in the brute-force window -/
theorem mem_windowFrom (p : Rat → Rat → Bool) (x : Rat) (l : List Rat) : ∀ (k j : Nat),
    j ∈ windowFrom p x k l ↔ k ≤ j ∧ ∃ y, l[j - k]? = some y ∧ p y x = true := by
  induction l with
  | nil => intro k j; simp [windowFrom]
  | cons a l ih =>
    intro k j
    simp only [windowFrom]
    by_cases hk : j = k
    · subst hk
      by_cases hp : p a x = true
      · simp [hp]
      · simp [hp, ih]
    · by_cases hkj : k + 1 ≤ j
      · have e : j - k = (j - (k+1)) + 1 := by omega
        have hk' : k ≤ j := by omega
        by_cases hp : p a x = true
        · simp [hp, ih, e, hk, hkj, hk']
        · simp [hp, ih, e, hkj, hk']
      · have hk' : ¬ k ≤ j := by omega
        by_cases hp : p a x = true
        · simp [hp, ih, hk, hkj, hk']
        · simp [hp, ih, hkj, hk']

theorem mem_window (p : Rat → Rat → Bool) (ys : List Rat) (x : Rat) (j : Nat) :
    j ∈ window p ys x ↔ ∃ y, ys[j]? = some y ∧ p y x = true := by
  unfold window
  rw [mem_windowFrom]
  simp

end Score
