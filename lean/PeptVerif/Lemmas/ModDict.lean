import PeptVerif.Model.ModDict
import PeptVerif.Model.AnnotEq
/-! Helper lemmas for C20: lookups in `mod_dict`, `strip` + `add_mod_dict`, `create_annotation(**dict())`. Core Lean only. -/
namespace Pept

theorem lookup_optSeg_append {β : Type} (k k' : DKey) (f : β → DVal) (o : Option β) (rest : ModDict) :
    (optSeg k' f o ++ rest).lookup k =
      if k = k' then (match o with | some x => some (f x) | none => rest.lookup k) else rest.lookup k := by
  cases o with
  | none => simp [optSeg]
  | some l =>
    by_cases h : k = k'
    · subst h; simp [optSeg]
    · have : (k == k') = false := by simpa using h
      simp [optSeg, List.lookup_cons, this, h]

theorem lookup_idxEntries_named (d : List (Int × List Mod)) (k : DKey) (h : ∀ i, k ≠ .idx i) :
    (idxEntries d).lookup k = none := by
  induction d with
  | nil => rfl
  | cons p ps ih =>
    have : (k == DKey.idx p.1) = false := by simpa using h p.1
    simp only [idxEntries, List.map_cons, List.lookup_cons, this]
    exact ih

theorem lookup_internalSeg_named (o : Option (List (Int × List Mod))) (k : DKey) (h : ∀ i, k ≠ .idx i) :
    (idxSeg o).lookup k = none := by
  cases o with
  | none => rfl
  | some d => exact lookup_idxEntries_named d k h

theorem intEntries_optSeg_append {β : Type} (k : DKey) (f : β → DVal) (o : Option β) (rest : ModDict) (h : ∀ i, k ≠ .idx i) :
    intEntries (optSeg k f o ++ rest) = intEntries rest := by
  cases o with
  | none => simp [optSeg]
  | some l =>
    cases k <;> first | (exact absurd rfl (h _)) | simp [optSeg, intEntries]

theorem intEntries_idxEntries (d : List (Int × List Mod)) : intEntries (idxEntries d) = d := by
  induction d with
  | nil => rfl
  | cons p ps ih =>
    simp only [intEntries, idxEntries] at ih ⊢
    simp [ih]

theorem intEntries_modDict (a : Annotation) : intEntries (modDict a) = a.internal.getD [] := by
  simp only [modDict, List.append_assoc]
  repeat rw [intEntries_optSeg_append _ _ _ _ (by intro i h; cases h)]
  cases a.internal with
  | none => rfl
  | some d => exact intEntries_idxEntries d

/-- what `'<key>' in mod_dict` / `mod_dict['<key>']` see for the named keys -/
theorem lookup_modDict (a : Annotation) :
    (modDict a).lookup .isotope = a.isotope.map .mods ∧ (modDict a).lookup .static = a.static.map .mods ∧
    (modDict a).lookup .labile = a.labile.map .mods ∧ (modDict a).lookup .unknown = a.unknown.map .mods ∧
    (modDict a).lookup .nterm = a.nterm.map .mods ∧ (modDict a).lookup .cterm = a.cterm.map .mods ∧
    (modDict a).lookup .intervals = a.intervals.map .ivs ∧ (modDict a).lookup .charge = a.charge.map .charge ∧
    (modDict a).lookup .adducts = a.adducts.map .mods := by
  simp only [modDict, List.append_assoc, lookup_optSeg_append, reduceCtorEq, if_false, if_true]
  have hI : ∀ k : DKey, (∀ i, k ≠ .idx i) →
      List.lookup k (idxSeg a.internal) = none :=
    fun k h => lookup_internalSeg_named a.internal k h
  rw [hI _ (by intro i h; cases h), hI _ (by intro i h; cases h), hI _ (by intro i h; cases h),
    hI _ (by intro i h; cases h), hI _ (by intro i h; cases h), hI _ (by intro i h; cases h),
    hI _ (by intro i h; cases h), hI _ (by intro i h; cases h), hI _ (by intro i h; cases h)]
  refine ⟨?_, ?_, ?_, ?_, ?_, ?_, ?_, ?_, ?_⟩
  · cases a.isotope <;> rfl
  · cases a.static <;> rfl
  · cases a.labile <;> rfl
  · cases a.unknown <;> rfl
  · cases a.nterm <;> rfl
  · cases a.cterm <;> rfl
  · cases a.intervals <;> rfl
  · cases a.charge <;> rfl
  · cases a.adducts <;> rfl

theorem onKey_mods (d : ModDict) (k : DKey) (o : Option (List Mod)) (h : d.lookup k = o.map .mods) (app : Bool) :
    onKey d k (addList none · app) none = o := by
  unfold onKey
  rw [h]
  cases o <;> cases app <;> rfl

/-- `strip` then `add_mod_dict(mod_dict)` rebuilds every field; an *empty* internal dict comes back as None -/
theorem addModDict_strip_modDict (a : Annotation) (app : Bool) :
    addModDict (strip a) (modDict a) app = { a with internal := if a.internal = some [] then none else a.internal } := by
  obtain ⟨h1, h2, h3, h4, h5, h6, h7, h8, h9⟩ := lookup_modDict a
  unfold addModDict
  simp only [strip]
  rw [onKey_mods _ _ _ h1, onKey_mods _ _ _ h2, onKey_mods _ _ _ h3, onKey_mods _ _ _ h4, onKey_mods _ _ _ h5,
    onKey_mods _ _ _ h6, onKey_mods _ _ _ h9]
  have e7 : onKey (modDict a) .intervals (addIvs none · app) none = a.intervals := by
    unfold onKey; rw [h7]; cases a.intervals <;> cases app <;> rfl
  have e8 : ∀ f : DVal → Option Int, (∀ c, f (.charge c) = some c) → onKey (modDict a) .charge f none = a.charge := by
    intro f hf; unfold onKey; rw [h8]; cases a.charge <;> simp [hf]
  rw [e7, e8 _ (fun c => rfl), intEntries_modDict]
  cases hi : a.internal with
  | none => cases a; simp_all
  | some d =>
    cases d with
    | nil => cases a; simp_all
    | cons p ps => cases a; cases app <;> simp_all [addInternalDict]

theorem fixList_modsInput (l : List Mod) : fixList (modsInput l) = l := by
  simp [fixList, modsInput, convertToMod, Function.comp_def]

theorem map_fixList_modsInput (o : Option (List Mod)) : (o.map modsInput).map fixList = o := by
  cases o <;> simp [fixList_modsInput]

theorem createAnnotation_dictArgs (a : Annotation) : createAnnotation (dictArgs a) = a := by
  cases a
  simp only [createAnnotation, dictArgs, map_fixList_modsInput]
  congr
  · rename_i internal _ _ _
    cases internal with
    | none => rfl
    | some d => simp [fixList_modsInput, Function.comp_def]
  · rename_i intervals _ _
    cases intervals with
    | none => rfl
    | some l => simp [fixIntervals, fixInterval, Function.comp_def]

end Pept
