import PeptVerif.Lemmas.CondenseMass
/-! The text `decText k p` denotes the number `k / 10^p` (so `NumericMu` is satisfiable: an environment that reads a written
float through `valOfText`). Uses core's `Nat.toDigits` / `Nat.ofDigitChars` lemmas. -/
namespace Pept
namespace CondenseMass
open Static AbsMass

/-- value of a digit string read as a fraction: `0.d₁d₂…` -/
def fracVal (l : List Char) : ℚ := (Nat.ofDigitChars 10 l 0 : ℚ) / (10 : ℚ) ^ l.length

/-- the number an unsigned positional decimal `ip.fr` denotes -/
def valU (t : List Char) : ℚ :=
  (Nat.ofDigitChars 10 (t.takeWhile (· != '.')) 0 : ℚ) + fracVal ((t.dropWhile (· != '.')).drop 1)

/-- the number a positional decimal text denotes -/
def valOfText : List Char → ℚ
  | '-' :: r => - valU r
  | r => valU r

theorem fracVal_append_zero (l : List Char) : fracVal (l ++ ['0']) = fracVal l := by
  unfold fracVal
  rw [Nat.ofDigitChars_append, Nat.ofDigitChars_cons, Nat.ofDigitChars_nil]
  simp only [List.length_append, List.length_cons, List.length_nil, pow_succ]
  have h10 : (10 : ℚ) ^ l.length ≠ 0 := by positivity
  push_cast
  field_simp
  simp

theorem dropLeadingZeros_cons_ne (c : Char) (r : List Char) (h : c ≠ '0') : dropLeadingZeros (c :: r) = c :: r := by
  unfold dropLeadingZeros
  split
  · rename_i heq; simp at heq; exact absurd heq.1 h
  · rfl

theorem fracVal_dropTrailing_aux (l : List Char) : fracVal (dropLeadingZeros l).reverse = fracVal l.reverse := by
  induction l with
  | nil => simp [dropLeadingZeros]
  | cons c r ih =>
    by_cases h : c = '0'
    · subst h
      have : dropLeadingZeros ('0' :: r) = dropLeadingZeros r := by simp [dropLeadingZeros]
      rw [this, ih, List.reverse_cons, fracVal_append_zero]
    · rw [dropLeadingZeros_cons_ne c r h]

theorem fracVal_dropTrailingZeros (l : List Char) : fracVal (dropTrailingZeros l) = fracVal l := by
  unfold dropTrailingZeros
  rw [fracVal_dropTrailing_aux, List.reverse_reverse]

theorem fracVal_frac (l : List Char) :
    fracVal (match dropTrailingZeros l with | [] => ['0'] | x => x) = fracVal l := by
  cases h : dropTrailingZeros l with
  | nil =>
    have := fracVal_dropTrailingZeros l
    rw [h] at this
    simp only
    rw [← this]
    simp [fracVal, Nat.ofDigitChars]
  | cons c r =>
    simp only
    rw [← h, fracVal_dropTrailingZeros]

theorem ofDigitChars_padLeft (l : List Char) (p : ℕ) : Nat.ofDigitChars 10 (padLeft l p) 0 = Nat.ofDigitChars 10 l 0 := by
  unfold padLeft
  rw [Nat.ofDigitChars_append, Nat.ofDigitChars_replicate_zero]
  simp

theorem toDigits_all_digit (n : ℕ) : ∀ c ∈ Nat.toDigits 10 n, c.isDigit = true :=
  fun _ hc => Nat.isDigit_of_mem_toDigits (by decide) (by decide) hc

theorem takeWhile_append_stop (a r : List Char) (h : ∀ c ∈ a, (c != '.') = true) :
    (a ++ '.' :: r).takeWhile (· != '.') = a ∧ (a ++ '.' :: r).dropWhile (· != '.') = '.' :: r := by
  induction a with
  | nil => simp
  | cons x a ih =>
    have hx := h x (by simp)
    have := ih (fun c hc => h c (by simp [hc]))
    simp only [List.cons_append, List.takeWhile_cons, List.dropWhile_cons, hx, if_true, this, and_self]

theorem digit_ne_dot (c : Char) (h : c.isDigit = true) : (c != '.') = true := by
  simp only [bne_iff_ne, ne_eq]
  intro e; subst e; simp [Char.isDigit] at h

/-- the fraction digits of `decText` denote `(n % 10^p) / 10^p` -/
theorem fracVal_padLeft (m p : ℕ) (hm : m < 10 ^ p) :
    fracVal (padLeft (toString m).toList p) = (m : ℚ) / (10 : ℚ) ^ p := by
  have hl : (toString m).toList = Nat.toDigits 10 m := by simp
  rw [hl]
  unfold fracVal
  rw [ofDigitChars_padLeft, Nat.ofDigitChars_ten_toDigits]
  by_cases hp : p = 0
  · subst hp
    have : m = 0 := by simpa using hm
    subst this; simp
  · have hlen : (Nat.toDigits 10 m).length ≤ p :=
      (Nat.length_toDigits_le_iff (by decide) (Nat.pos_of_ne_zero hp)).mpr hm
    have : (padLeft (Nat.toDigits 10 m) p).length = p := by
      unfold padLeft; simp only [List.length_append, List.length_replicate]; omega
    rw [this]

/-- the unsigned text of `n / 10^p` -/
def bodyText (n p : ℕ) : List Char :=
  (toString (n / pow10 p)).toList ++ ['.'] ++
    (match dropTrailingZeros (padLeft (toString (n % pow10 p)).toList p) with | [] => ['0'] | l => l)

theorem valU_bodyText (n p : ℕ) : valU (bodyText n p) = (n : ℚ) / ((pow10 p : ℕ) : ℚ) := by
  have hPq : ((pow10 p : ℕ) : ℚ) = (10 : ℚ) ^ p := by unfold pow10; push_cast; rfl
  have hip : (toString (n / pow10 p)).toList = Nat.toDigits 10 (n / pow10 p) := by simp
  have hnd : ∀ c ∈ Nat.toDigits 10 (n / pow10 p), (c != '.') = true :=
    fun c hc => digit_ne_dot c (toDigits_all_digit _ c hc)
  unfold bodyText
  rw [hip, List.append_assoc, List.singleton_append]
  unfold valU
  obtain ⟨h1, h2⟩ := takeWhile_append_stop (Nat.toDigits 10 (n / pow10 p))
    (match dropTrailingZeros (padLeft (toString (n % pow10 p)).toList p) with | [] => ['0'] | l => l) hnd
  rw [h1, h2, List.drop_one, List.tail_cons, Nat.ofDigitChars_ten_toDigits, fracVal_frac,
    fracVal_padLeft _ _ (by unfold pow10; exact Nat.mod_lt _ (by positivity)), hPq]
  have hdm := Nat.div_add_mod n (pow10 p)
  have h10 : (10 : ℚ) ^ p ≠ 0 := by positivity
  have : ((n / pow10 p : ℕ) : ℚ) * (10 : ℚ) ^ p + ((n % pow10 p : ℕ) : ℚ) = (n : ℚ) := by
    rw [← hPq]; exact_mod_cast (by rw [Nat.mul_comm]; exact hdm)
  field_simp
  linarith

theorem bodyText_head (n p : ℕ) : ∀ c, (bodyText n p).head? = some c → c ≠ '-' := by
  intro c hc
  have hip : (toString (n / pow10 p)).toList = Nat.toDigits 10 (n / pow10 p) := by simp
  unfold bodyText at hc
  rw [hip] at hc
  cases hd : Nat.toDigits 10 (n / pow10 p) with
  | nil => exact absurd hd Nat.toDigits_ne_nil
  | cons d ds =>
    rw [hd] at hc
    simp at hc
    subst hc
    have := toDigits_all_digit (n / pow10 p) d (by rw [hd]; simp)
    intro e; subst e; simp [Char.isDigit] at this

theorem decText_eq (k : ℤ) (p : ℕ) :
    decText k p = (if k < 0 then ['-'] else []) ++ bodyText k.natAbs p := by
  unfold decText bodyText
  simp only [List.append_assoc]
  cases dropTrailingZeros (padLeft (toString (k.natAbs % pow10 p)).toList p) <;> rfl

/-- **`decText k p` denotes `k / 10^p`** -/
theorem valOfText_decText (k : ℤ) (p : ℕ) : valOfText (decText k p) = (k : ℚ) / ((pow10 p : ℕ) : ℚ) := by
  rw [decText_eq]
  by_cases hk : k < 0
  · simp only [hk, if_true, List.singleton_append, valOfText, valU_bodyText]
    have : (k : ℚ) = -((k.natAbs : ℕ) : ℚ) := by
      have : k = -(k.natAbs : ℤ) := by omega
      rw [this]; push_cast; simp
    rw [this]; ring
  · simp only [hk, if_false, List.nil_append]
    have hval : ∀ t : List Char, (∀ c, t.head? = some c → c ≠ '-') → valOfText t = valU t := by
      intro t ht
      cases t with
      | nil => rfl
      | cons c r =>
        by_cases hc : c = '-'
        · exact absurd hc (ht c rfl)
        · unfold valOfText; split
          · rename_i heq; simp at heq; exact absurd heq.1 hc
          · rfl
    rw [hval _ (bodyText_head _ p), valU_bodyText]
    have : (k : ℚ) = ((k.natAbs : ℕ) : ℚ) := by
      have : k = (k.natAbs : ℤ) := by omega
      rw [this]; push_cast; simp
    rw [this]

/-- `NumericMu` is satisfiable: any environment that reads ints as themselves and float texts through `valOfText` -/
theorem numericMu_of_valOfText (E : Env) (p : ℕ) (hi : ∀ i : ℤ, E.mu (.int i) = i)
    (hf : ∀ t, E.mu (.flt t) = valOfText t) : NumericMu E p :=
  ⟨hi, fun k => by rw [hf, valOfText_decText]⟩

end CondenseMass
end Pept
