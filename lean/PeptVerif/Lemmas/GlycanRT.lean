import PeptVerif.Lemmas.NumSpec
import PeptVerif.Lemmas.FormulaRT
import PeptVerif.Model.ModDbGen
import Mathlib.Tactic.Ring
/-!
Helper lemmas for the glycan half of C15 (`Props/C15Glycan.lean`): vocabulary order (`namesSorted`), the
glycan tokenizer (`parseGlycanAux`) against the writer (`writeGlycan`), and linearity of `glycanCompDict` /
`glycanMassDict`.
-/
namespace Formula
open ModDb

/-! ## lookups: names and synonyms resolve to entries -/

/-- the keys of a glycan dict -/
def gkeys (g : Comp) : List Str := g.map (·.1)

/-- replacing every key by `f key` (e.g. a synonym by the entry's name) -/
def mapKeys (f : Str → Str) (g : Comp) : Comp := g.map (fun kv => (f kv.1, kv.2))

theorem glycanCompDict_congr (mono : List Entry) (f : Str → Str) :
    ∀ (g : Comp) (acc : Comp), (∀ kv ∈ g, monoEntry mono (f kv.1) = monoEntry mono kv.1) →
      glycanCompDict mono (mapKeys f g) acc = glycanCompDict mono g acc := by
  intro g
  induction g with
  | nil => intro acc _; rfl
  | cons kv g ih =>
    intro acc h
    obtain ⟨k, v⟩ := kv
    have hk : monoEntry mono (f k) = monoEntry mono k := h (k, v) (by simp)
    have ih' := fun acc => ih acc (fun kv hkv => h kv (List.mem_cons_of_mem _ hkv))
    simp only [mapKeys, List.map_cons, glycanCompDict, hk]
    cases monoEntry mono k with
    | none => rfl
    | some e =>
      simp only
      cases e.comp with
      | none => rfl
      | some fm =>
        simp only
        cases parseChem fm [] with
        | error er => rfl
        | ok c => simp only; exact ih' _

theorem glycanMassDict_congr (mono : List Entry) (isMono : Bool) (f : Str → Str) :
    ∀ (g : Comp), (∀ kv ∈ g, monoEntry mono (f kv.1) = monoEntry mono kv.1) →
      glycanMassDict mono isMono (mapKeys f g) = glycanMassDict mono isMono g := by
  intro g
  induction g with
  | nil => intro _; rfl
  | cons kv g ih =>
    intro h
    obtain ⟨k, v⟩ := kv
    have hk : monoEntry mono (f k) = monoEntry mono k := h (k, v) (by simp)
    have ih' := ih (fun kv hkv => h kv (List.mem_cons_of_mem _ hkv))
    simp only [mapKeys] at ih'
    simp only [mapKeys, List.map_cons, glycanMassDict, hk, ih']

/-! ## vocabulary order -/

theorem mem_insertBy {α} (key : α → Nat) (x y : α) : ∀ l : List α, y ∈ insertBy key x l ↔ y = x ∨ y ∈ l := by
  intro l
  induction l with
  | nil => simp [insertBy]
  | cons z r ih =>
    simp only [insertBy]
    split
    · simp
    · simp only [List.mem_cons, ih]
      constructor
      · rintro (h | h | h) <;> simp [h]
      · rintro (h | h | h) <;> simp [h]

theorem mem_foldl_insertBy {α} (key : α → Nat) (y : α) :
    ∀ (l acc : List α), y ∈ l.foldl (fun acc x => insertBy key x acc) acc ↔ y ∈ acc ∨ y ∈ l := by
  intro l
  induction l with
  | nil => simp
  | cons x r ih =>
    intro acc
    simp only [List.foldl_cons, ih, mem_insertBy, List.mem_cons]
    constructor
    · rintro ((h | h) | h) <;> simp [h]
    · rintro (h | h | h) <;> simp [h]

theorem mem_sortBy {α} (key : α → Nat) (y : α) (l : List α) : y ∈ sortBy key l ↔ y ∈ l := by
  simp [sortBy, mem_foldl_insertBy]

theorem insertBy_sorted {α} (key : α → Nat) (x : α) :
    ∀ l : List α, l.Pairwise (fun a b => key a ≤ key b) → (insertBy key x l).Pairwise (fun a b => key a ≤ key b) := by
  intro l
  induction l with
  | nil => intro _; simp [insertBy]
  | cons z r ih =>
    intro h
    rw [List.pairwise_cons] at h
    simp only [insertBy]
    split
    · rename_i hlt
      rw [List.pairwise_cons]
      refine ⟨?_, List.pairwise_cons.2 h⟩
      intro b hb
      rcases List.mem_cons.1 hb with rfl | hb
      · omega
      · have := h.1 b hb; omega
    · rename_i hge
      rw [List.pairwise_cons]
      refine ⟨?_, ih h.2⟩
      intro b hb
      rcases (mem_insertBy key x b r).1 hb with rfl | hb
      · omega
      · exact h.1 b hb

theorem sortBy_sorted {α} (key : α → Nat) (l : List α) : (sortBy key l).Pairwise (fun a b => key a ≤ key b) := by
  unfold sortBy
  suffices h : ∀ (l acc : List α), acc.Pairwise (fun a b => key a ≤ key b) →
      (l.foldl (fun acc x => insertBy key x acc) acc).Pairwise (fun a b => key a ≤ key b) from
    h l [] List.Pairwise.nil
  intro l
  induction l with
  | nil => intro acc h; exact h
  | cons x r ih => intro acc h; exact ih _ (insertBy_sorted key x acc h)

theorem mem_dedup (y : Str) : ∀ l : List Str, y ∈ dedup l ↔ y ∈ l := by
  intro l
  induction l with
  | nil => simp [dedup]
  | cons x r ih =>
    simp only [dedup]
    split
    · rename_i hc
      have hx : x ∈ r := by simpa using hc
      rw [ih, List.mem_cons]
      constructor
      · exact Or.inr
      · rintro (rfl | h)
        · exact hx
        · exact h
    · simp [ih]

/-- the strings of the vocabulary: the entries' names and synonyms -/
def IsNameOrSyn (db : List Entry) (nm : Str) : Prop := ∃ e ∈ db, nm = e.name ∨ nm ∈ e.syns

theorem mem_namesSorted (db : List Entry) (nm : Str) : nm ∈ namesSorted db ↔ IsNameOrSyn db nm := by
  unfold namesSorted IsNameOrSyn
  simp only [mem_sortBy, mem_dedup, List.mem_append, List.mem_map, List.mem_flatten]
  constructor
  · rintro (⟨e, he, rfl⟩ | ⟨l, ⟨e, he, rfl⟩, hl⟩)
    · exact ⟨e, he, Or.inl rfl⟩
    · exact ⟨e, he, Or.inr hl⟩
  · rintro ⟨e, he, rfl | hs⟩
    · exact Or.inl ⟨e, he, rfl⟩
    · exact Or.inr ⟨_, ⟨e, he, rfl⟩, hs⟩

/-- longest first -/
def LenDesc (names : List Str) : Prop := names.Pairwise (fun a b => b.length ≤ a.length)

/-- `namesSorted` is sorted longest first (the sort key is `1000000 - length`, hence the length bound) -/
theorem namesSorted_lenDesc (db : List Entry) (hlen : ∀ nm ∈ namesSorted db, nm.length ≤ 1000000) :
    LenDesc (namesSorted db) := by
  have h := sortBy_sorted (fun s : Str => 1000000 - s.length)
    (dedup (db.map (·.name) ++ (db.map (·.syns)).flatten))
  change (namesSorted db).Pairwise _ at h
  unfold LenDesc
  rw [List.pairwise_iff_forall_sublist] at h ⊢
  intro a b hab
  have h1 := h hab
  have ha : a ∈ namesSorted db := hab.subset (by simp)
  have hb : b ∈ namesSorted db := hab.subset (by simp)
  have := hlen a ha
  have := hlen b hb
  omega

theorem isPrefixOf_iff {a t : Str} : a.isPrefixOf t = true ↔ ∃ r, t = a ++ r := by
  rw [List.isPrefixOf_iff_prefix]
  constructor
  · rintro ⟨r, h⟩; exact ⟨r, h.symm⟩
  · rintro ⟨r, h⟩; exact ⟨r, h.symm⟩

theorem prefix_same_length {a b t : Str} (ha : a.isPrefixOf t = true) (hb : b.isPrefixOf t = true)
    (hl : a.length = b.length) : a = b := by
  obtain ⟨r, hr⟩ := isPrefixOf_iff.1 ha
  obtain ⟨s, hs⟩ := isPrefixOf_iff.1 hb
  rw [hr] at hs
  exact List.append_inj_left hs hl

/-- in a longest-first vocabulary the first name that is a prefix of the text is a longest one -/
theorem find_longest (names : List Str) (text : Str) (hs : LenDesc names) (nm : Str)
    (h : names.find? (fun n => n.isPrefixOf text) = some nm) :
    nm ∈ names ∧ nm.isPrefixOf text = true ∧ ∀ nm' ∈ names, nm'.isPrefixOf text = true → nm'.length ≤ nm.length := by
  induction names with
  | nil => simp at h
  | cons x r ih =>
    unfold LenDesc at hs
    rw [List.pairwise_cons] at hs
    rw [List.find?_cons] at h
    split at h
    · rename_i hx
      cases h
      refine ⟨by simp, hx, ?_⟩
      intro nm' hnm' _
      rcases List.mem_cons.1 hnm' with rfl | hm
      · exact Nat.le_refl _
      · exact hs.1 nm' hm
    · rename_i hx
      obtain ⟨h1, h2, h3⟩ := ih hs.2 h
      refine ⟨List.mem_cons_of_mem _ h1, h2, ?_⟩
      intro nm' hnm' hp
      rcases List.mem_cons.1 hnm' with rfl | hm
      · rw [hp] at hx; cases hx
      · exact h3 nm' hm hp

/-- conversely: a vocabulary name that is a prefix of the text, with no longer vocabulary name being a prefix, is the
one the tokenizer takes -/
theorem find_eq_of_longest (names : List Str) (text : Str) (hs : LenDesc names) (nm : Str) (hmem : nm ∈ names)
    (hp : nm.isPrefixOf text = true)
    (hmax : ∀ nm' ∈ names, nm'.isPrefixOf text = true → nm'.length ≤ nm.length) :
    names.find? (fun n => n.isPrefixOf text) = some nm := by
  cases hf : names.find? (fun n => n.isPrefixOf text) with
  | none =>
    rw [List.find?_eq_none] at hf
    exact absurd hp (hf nm hmem)
  | some x =>
    obtain ⟨h1, h2, h3⟩ := find_longest names text hs x hf
    have : x.length = nm.length := Nat.le_antisymm (hmax x h1 h2) (h3 nm hmem hp)
    rw [prefix_same_length h2 hp this]

/-! ## mass: count-weighted sum -/

/-- mass of the monosaccharide called `k` (name or synonym) -/
def monoMass (mono : List Entry) (isMono : Bool) (k : Str) : Option Rat :=
  match monoEntry mono k with
  | none => none
  | some e => (if isMono then e.mono else e.avg).map Dec.toRat

/-- `Σ mass(k) · v` over the items of the dict -/
def massSum (mono : List Entry) (isMono : Bool) (g : Comp) : Rat :=
  (g.map (fun kv => (monoMass mono isMono kv.1).getD 0 * kv.2.val)).sum

theorem massSum_append (mono : List Entry) (isMono : Bool) (g₁ g₂ : Comp) :
    massSum mono isMono (g₁ ++ g₂) = massSum mono isMono g₁ + massSum mono isMono g₂ := by
  simp [massSum, List.sum_append]

theorem glycanMassDict_eq_sum (mono : List Entry) (isMono : Bool) :
    ∀ g : Comp, (∀ kv ∈ g, (monoMass mono isMono kv.1).isSome = true) →
      glycanMassDict mono isMono g = .ok (massSum mono isMono g) := by
  intro g
  induction g with
  | nil => intro _; rfl
  | cons kv g ih =>
    intro h
    obtain ⟨k, v⟩ := kv
    have hk := h (k, v) (by simp)
    have ih' := ih (fun kv hkv => h kv (List.mem_cons_of_mem _ hkv))
    simp only [glycanMassDict, ih', massSum, List.map_cons, List.sum_cons]
    simp only [monoMass] at hk ⊢
    cases hm : monoEntry mono k with
    | none => rw [hm] at hk; cases hk
    | some e =>
      rw [hm] at hk
      simp only at hk ⊢
      cases hmm : (if isMono = true then e.mono else e.avg) with
      | none => rw [hmm] at hk; cases hk
      | some m => simp

theorem glycanMassDict_append (mono : List Entry) (isMono : Bool) (g₂ : Comp) :
    ∀ g₁ : Comp, glycanMassDict mono isMono (g₁ ++ g₂) =
      (match glycanMassDict mono isMono g₁, glycanMassDict mono isMono g₂ with
       | .ok a, .ok b => .ok (a + b)
       | .error e, _ => .error e
       | .ok _, .error e => .error e) := by
  intro g₁
  induction g₁ with
  | nil =>
    simp only [List.nil_append, glycanMassDict]
    cases glycanMassDict mono isMono g₂ with
    | error e => rfl
    | ok b => simp
  | cons kv g ih =>
    obtain ⟨k, v⟩ := kv
    simp only [List.cons_append, glycanMassDict, ih]
    cases monoEntry mono k with
    | none => rfl
    | some e =>
      simp only
      cases (if isMono = true then e.mono else e.avg) with
      | none => rfl
      | some m =>
        simp only
        cases glycanMassDict mono isMono g with
        | error er => rfl
        | ok a =>
          cases glycanMassDict mono isMono g₂ with
          | error er => rfl
          | ok b => simp only [Except.ok.injEq]; ring

/-! ## composition: count-weighted sum -/

/-- total count of element `el` in a dict (the dicts built here have every key once; summing makes the statement
independent of that) -/
def compVal (c : Comp) (el : Str) : Rat := (c.map (fun kv => if kv.1 = el then kv.2.val else 0)).sum

theorem compVal_nil (el : Str) : compVal [] el = 0 := rfl
theorem compVal_cons (kv : Str × Num) (c : Comp) (el : Str) :
    compVal (kv :: c) el = (if kv.1 = el then kv.2.val else 0) + compVal c el := by
  simp [compVal]

theorem compVal_addTo (el k : Str) (v : Num) :
    ∀ d : Comp, compVal (addTo d k v) el = compVal d el + (if k = el then v.val else 0) := by
  intro d
  induction d with
  | nil => simp [addTo, compVal, Num.add, Num.zero, Num.ofInt]
  | cons kv r ih =>
    obtain ⟨k', v'⟩ := kv
    simp only [addTo]
    split
    · rename_i hk
      have hk' : k' = k := by simpa using hk
      subst hk'
      simp only [compVal_cons, Num.add]
      split <;> ring
    · simp only [compVal_cons, ih]; ring

/-- `acc[el] += n · v` for every `(el, n)` of `c` (the inner loop of `_glycan_comp`) -/
def addScaled (acc c : Comp) (v : Num) : Comp := c.foldl (fun a kv => addTo a kv.1 (Num.mul kv.2 v)) acc

theorem compVal_addScaled (el : Str) (v : Num) :
    ∀ (c acc : Comp), compVal (addScaled acc c v) el = compVal acc el + compVal c el * v.val := by
  intro c
  induction c with
  | nil => intro acc; simp [addScaled, compVal_nil]
  | cons kv r ih =>
    intro acc
    have := ih (addTo acc kv.1 (Num.mul kv.2 v))
    simp only [addScaled, List.foldl_cons] at this ⊢
    rw [this, compVal_addTo, compVal_cons]
    simp only [Num.mul]
    split <;> ring

/-- elemental composition of the monosaccharide called `k` (name or synonym) -/
def monoComp (mono : List Entry) (k : Str) : Option Comp :=
  match monoEntry mono k with
  | none => none
  | some e =>
    match e.comp with
    | none => none
    | some f =>
      match parseChem f [] with
      | .ok c => some c
      | .error _ => none

/-- the fold `_glycan_comp` performs when every key is known -/
def compFold (mono : List Entry) (g : Comp) (acc : Comp) : Comp :=
  g.foldl (fun a kv => addScaled a ((monoComp mono kv.1).getD []) kv.2) acc

theorem glycanCompDict_eq_fold (mono : List Entry) :
    ∀ (g acc : Comp), (∀ kv ∈ g, (monoComp mono kv.1).isSome = true) →
      glycanCompDict mono g acc = .ok (compFold mono g acc) := by
  intro g
  induction g with
  | nil => intro acc _; rfl
  | cons kv g ih =>
    intro acc h
    obtain ⟨k, v⟩ := kv
    have hk := h (k, v) (by simp)
    have ih' := fun acc => ih acc (fun kv hkv => h kv (List.mem_cons_of_mem _ hkv))
    simp only [glycanCompDict, compFold, List.foldl_cons]
    simp only [monoComp] at hk ⊢
    cases hm : monoEntry mono k with
    | none => rw [hm] at hk; cases hk
    | some e =>
      rw [hm] at hk
      simp only at hk ⊢
      cases hc : e.comp with
      | none => rw [hc] at hk; cases hk
      | some f =>
        rw [hc] at hk
        simp only at hk ⊢
        cases hp : parseChem f [] with
        | error er => rw [hp] at hk; cases hk
        | ok c =>
          simp only [Option.getD_some]
          rw [ih']
          rfl

/-- `Σ n_k(el) · v` over the items `(k, v)` of the dict -/
def compSum (mono : List Entry) (g : Comp) (el : Str) : Rat :=
  (g.map (fun kv => compVal ((monoComp mono kv.1).getD []) el * kv.2.val)).sum

theorem compVal_compFold (mono : List Entry) (el : Str) :
    ∀ (g acc : Comp), compVal (compFold mono g acc) el = compVal acc el + compSum mono g el := by
  intro g
  induction g with
  | nil => intro acc; simp [compFold, compSum]
  | cons kv g ih =>
    intro acc
    have := ih (addScaled acc ((monoComp mono kv.1).getD []) kv.2)
    simp only [compFold, List.foldl_cons] at this ⊢
    rw [this, compVal_addScaled]
    simp only [compSum, List.map_cons, List.sum_cons]
    ring

theorem compSum_append (mono : List Entry) (g₁ g₂ : Comp) (el : Str) :
    compSum mono (g₁ ++ g₂) el = compSum mono g₁ el + compSum mono g₂ el := by
  simp [compSum, List.sum_append]

theorem glycanCompDict_append (mono : List Entry) (g₂ : Comp) :
    ∀ (g₁ acc : Comp), glycanCompDict mono (g₁ ++ g₂) acc =
      (match glycanCompDict mono g₁ acc with
       | .ok a => glycanCompDict mono g₂ a
       | .error e => .error e) := by
  intro g₁
  induction g₁ with
  | nil => intro acc; rfl
  | cons kv g ih =>
    intro acc
    obtain ⟨k, v⟩ := kv
    simp only [List.cons_append, glycanCompDict]
    cases monoEntry mono k with
    | none => rfl
    | some e =>
      simp only
      cases e.comp with
      | none => rfl
      | some f =>
        simp only
        cases parseChem f [] with
        | error er => rfl
        | ok c => simp only; exact ih _

/-! ## what a lookup returns -/

theorem lookupLast_some (key : Entry → Str) (s : Str) (e : Entry) :
    ∀ db : List Entry, lookupLast key s db = some e → e ∈ db ∧ key e = s := by
  intro db
  induction db with
  | nil => intro h; cases h
  | cons x r ih =>
    intro h
    simp only [lookupLast] at h
    cases hr : lookupLast key s r with
    | some y =>
      rw [hr] at h
      cases h
      have := ih hr
      exact ⟨List.mem_cons_of_mem _ this.1, this.2⟩
    | none =>
      rw [hr] at h
      simp only at h
      split at h
      · rename_i hk
        cases h
        exact ⟨by simp, by simpa using hk⟩
      · cases h

theorem lookupSyn_some (s : Str) (e : Entry) :
    ∀ db : List Entry, lookupSyn s db = some e → e ∈ db ∧ s ∈ e.syns := by
  intro db
  induction db with
  | nil => intro h; cases h
  | cons x r ih =>
    intro h
    simp only [lookupSyn] at h
    cases hr : lookupSyn s r with
    | some y =>
      rw [hr] at h
      cases h
      have := ih hr
      exact ⟨List.mem_cons_of_mem _ this.1, this.2⟩
    | none =>
      rw [hr] at h
      simp only at h
      split at h
      · rename_i hk
        cases h
        exact ⟨by simp, by simpa using hk⟩
      · cases h

/-- a resolved key is the name or a synonym of the entry it resolves to -/
theorem monoEntry_some (mono : List Entry) (k : Str) (e : Entry) (h : monoEntry mono k = some e) :
    e ∈ mono ∧ (k = e.name ∨ k ∈ e.syns) := by
  unfold monoEntry byName at h
  cases hb : lookupLast (·.name) k mono with
  | some y =>
    rw [hb] at h
    cases h
    have := lookupLast_some _ _ _ _ hb
    exact ⟨this.1, Or.inl this.2.symm⟩
  | none =>
    rw [hb] at h
    have := lookupSyn_some _ _ _ h
    exact ⟨this.1, Or.inr this.2⟩

/-- the name of the entry a key resolves to (the key itself when unknown) -/
def canon (mono : List Entry) (k : Str) : Str :=
  match monoEntry mono k with
  | some e => e.name
  | none => k

/-- in a table whose names resolve to their own entries, a key and its canonical name resolve identically -/
theorem monoEntry_canon (mono : List Entry) (hname : ∀ e ∈ mono, monoEntry mono e.name = some e) (k : Str) :
    monoEntry mono (canon mono k) = monoEntry mono k := by
  unfold canon
  cases h : monoEntry mono k with
  | none => exact h
  | some e => exact hname e (monoEntry_some mono k e h).1

/-! ## the tokenizer against the writer (sep = '') -/

theorem writeGlycan_nil : writeGlycan [] [] = [] := rfl

theorem writeGlycan_cons (k : Str) (v : Num) (g : Comp) :
    writeGlycan ((k, v) :: g) [] = k ++ v.show ++ writeGlycan g [] := by
  cases g with
  | nil => simp [writeGlycan, intercalate]
  | cons kv r => simp [writeGlycan, intercalate]

/-- does the text start with a character the count scanner would swallow -/
def startsCount : Str → Bool
  | [] => false
  | c :: _ => isCountChar c

theorem spanP_exact (p : Nat → Bool) : ∀ (a rest : Str), (∀ c ∈ a, p c = true) →
    (∀ c r, rest = c :: r → p c = false) → spanP p (a ++ rest) = (a, rest) := by
  intro a
  induction a with
  | nil =>
    intro rest _ hr
    cases rest with
    | nil => rfl
    | cons c r => simp [spanP, hr c r rfl]
  | cons x t ih =>
    intro rest ha hr
    have hx : p x = true := ha x (by simp)
    have := ih rest (fun c hc => ha c (List.mem_cons_of_mem _ hc)) hr
    simp [spanP, hx, this]

/-- characters consumed by the previous token are skipped -/
theorem parseGlycanAux_skip (names : List Str) (rest : Str) (d : Comp) :
    ∀ pre : Str, parseGlycanAux names pre.length (pre ++ rest) d = parseGlycanAux names 0 rest d := by
  intro pre
  induction pre with
  | nil => rfl
  | cons c t ih => simpa [parseGlycanAux] using ih

theorem gly_countOf_show {v : Num} (hv : NumOK v) : countOf v.show = some v := by
  unfold countOf
  have : v.show.isEmpty = false := by
    cases h : v.show with
    | nil => exact absurd h hv.ne
    | cons _ _ => rfl
  simp [this, hv.conv]

theorem isCountChar_of_chars {c : Nat} (h : (isDigit c || c == 45 || c == 46) = true) : isCountChar c = true := by
  unfold isCountChar
  simp only [Bool.or_eq_true] at h ⊢
  rcases h with (h | h) | h
  · exact Or.inl (Or.inl (Or.inl h))
  · exact Or.inl (Or.inr h)
  · exact Or.inr h

/-- one item: the tokenizer takes the written name, reads back the written count and adds it to the dict
(`d[name] = d.get(name, 0) + count`, since fix 4cd4abe; before: assignment) -/
theorem parseGlycanAux_item (names : List Str) (nm : Str) (v : Num) (rest : Str) (d : Comp)
    (hne : nm ≠ []) (hv : NumOK v)
    (hfind : names.find? (fun n => n.isPrefixOf (nm ++ v.show ++ rest)) = some nm)
    (hrest : startsCount rest = false) :
    parseGlycanAux names 0 (nm ++ v.show ++ rest) d = parseGlycanAux names 0 rest (addTo d nm v) := by
  obtain ⟨c, t, rfl⟩ : ∃ c t, nm = c :: t := by
    cases nm with
    | nil => exact absurd rfl hne
    | cons c t => exact ⟨c, t, rfl⟩
  have hspan : spanP isCountChar (v.show ++ rest) = (v.show, rest) := by
    apply spanP_exact
    · intro x hx; exact isCountChar_of_chars (hv.chars x hx)
    · intro x r hr; subst hr; exact hrest
  have hdrop : (c :: (t ++ (v.show ++ rest))).drop (c :: t).length = v.show ++ rest := by
    have : c :: (t ++ (v.show ++ rest)) = (c :: t) ++ (v.show ++ rest) := rfl
    rw [this, List.drop_left]
  simp only [List.cons_append, List.append_assoc] at hfind ⊢
  rw [parseGlycanAux]
  simp only [hfind, List.isEmpty_cons, Bool.false_eq_true, if_false, hdrop, hspan, gly_countOf_show hv]
  have hlen : (c :: t).length + v.show.length - 1 = (t ++ v.show).length := by
    simp only [List.length_cons, List.length_append]; omega
  rw [hlen, ← List.append_assoc, parseGlycanAux_skip]

/-- the written form is unambiguous for the vocabulary: at every item the written name is in the vocabulary, no longer
vocabulary name is a prefix of the remaining text, and the text after the count does not go on with a count character
(decidable: `decide` works on concrete instances) -/
def Unambig (names : List Str) : Comp → Bool
  | [] => true
  | (nm, v) :: g =>
    names.contains nm &&
    names.all (fun n => !(n.isPrefixOf (nm ++ v.show ++ writeGlycan g [])) || decide (n.length ≤ nm.length)) &&
    !startsCount (writeGlycan g []) &&
    Unambig names g

theorem parseGlycanAux_write (names : List Str) (hne : ∀ nm ∈ names, nm ≠ []) (hs : LenDesc names) :
    ∀ (g d : Comp), Unambig names g = true → (∀ kv ∈ g, NumOK kv.2) →
      parseGlycanAux names 0 (writeGlycan g []) d = .ok (addAll d g) := by
  intro g
  induction g with
  | nil => intro d _ _; rfl
  | cons kv g ih =>
    intro d hu hv
    obtain ⟨nm, v⟩ := kv
    simp only [Unambig, Bool.and_eq_true, Bool.not_eq_true', List.contains_iff_mem, List.all_eq_true,
      Bool.or_eq_true, decide_eq_true_eq] at hu
    obtain ⟨⟨⟨hmem, hmax⟩, hsc⟩, hu'⟩ := hu
    have hp : nm.isPrefixOf (nm ++ v.show ++ writeGlycan g []) = true :=
      isPrefixOf_iff.2 ⟨v.show ++ writeGlycan g [], by simp⟩
    have hfind := find_eq_of_longest names _ hs nm hmem hp (by
      intro n hn hpn
      rcases hmax n hn with h | h
      · rw [hpn] at h; cases h
      · exact h)
    rw [writeGlycan_cons, parseGlycanAux_item names nm v _ d (hne nm hmem) (hv (nm, v) (by simp)) hfind hsc]
    rw [ih _ hu' (fun kv hkv => hv kv (List.mem_cons_of_mem _ hkv))]
    rfl

theorem gly_setTo_new (k : Str) (v : Num) : ∀ d : Comp, k ∉ gkeys d → setTo d k v = d ++ [(k, v)] := by
  intro d
  induction d with
  | nil => intro _; rfl
  | cons kv r ih =>
    intro h
    obtain ⟨k', v'⟩ := kv
    simp only [gkeys, List.map_cons, List.mem_cons, not_or] at h
    have hk : (k' == k) = false := by
      simp only [beq_eq_false_iff_ne, ne_eq]
      exact fun e => h.1 e.symm
    simp only [setTo, hk, Bool.false_eq_true, if_false, List.cons_append]
    rw [ih h.2]

/-- with pairwise different keys the accumulated dict is the written one -/
theorem addAll_nil_distinct (g : Comp) (h : (gkeys g).Nodup) : addAll [] g = g := by
  have := addAll_distinct (d := []) (l := g) h (by intro k _ hk; cases hk)
  simpa using this

theorem writeGlycan_append (g₂ : Comp) : ∀ g₁ : Comp,
    writeGlycan (g₁ ++ g₂) [] = writeGlycan g₁ [] ++ writeGlycan g₂ [] := by
  intro g₁
  induction g₁ with
  | nil => rfl
  | cons kv r ih =>
    obtain ⟨k, v⟩ := kv
    rw [List.cons_append, writeGlycan_cons, writeGlycan_cons, ih]
    simp

/-- unambiguity of a concatenation gives unambiguity of both parts (a name that matches the shorter text matches the
longer one) -/
theorem unambig_append (names : List Str) (g₂ : Comp) : ∀ g₁ : Comp,
    Unambig names (g₁ ++ g₂) = true → Unambig names g₁ = true ∧ Unambig names g₂ = true := by
  intro g₁
  induction g₁ with
  | nil => intro h; exact ⟨rfl, h⟩
  | cons kv r ih =>
    intro hu
    obtain ⟨nm, v⟩ := kv
    simp only [List.cons_append, Unambig, Bool.and_eq_true, Bool.not_eq_true', List.contains_iff_mem,
      List.all_eq_true, Bool.or_eq_true, decide_eq_true_eq] at hu ⊢
    obtain ⟨⟨⟨hmem, hmax⟩, hsc⟩, hu'⟩ := hu
    obtain ⟨h1, h2⟩ := ih hu'
    refine ⟨⟨⟨⟨hmem, ?_⟩, ?_⟩, h1⟩, h2⟩
    · intro n hn
      rcases hmax n hn with h | h
      · left
        cases hp : n.isPrefixOf (nm ++ v.show ++ writeGlycan r []) with
        | false => rfl
        | true =>
          exfalso
          obtain ⟨t, ht⟩ := isPrefixOf_iff.1 hp
          have : n.isPrefixOf (nm ++ v.show ++ writeGlycan (r ++ g₂) []) = true := by
            rw [writeGlycan_append, isPrefixOf_iff]
            exact ⟨t ++ writeGlycan g₂ [], by rw [← List.append_assoc n, ← ht]; simp⟩
          rw [this] at h
          cases h
      · exact Or.inr h
    · rw [writeGlycan_append] at hsc
      cases hw : writeGlycan r [] with
      | nil => rfl
      | cons c t => rw [hw] at hsc; exact hsc

/-! ## a sufficient condition for unambiguity -/

/-- some vocabulary name continues `nm` with the character `c` (e.g. `Neu5Ac` continues `Neu` with `5`) -/
def clash (names : List Str) (nm : Str) (c : Nat) : Bool := names.any (fun n => (nm ++ [c]).isPrefixOf n)

/-- no written name is continued, by the first character of its count, to a longer vocabulary name -/
def NoClash (names : List Str) (g : Comp) : Bool :=
  g.all (fun kv => match kv.2.show with
    | [] => true
    | c :: _ => !clash names kv.1 c)

theorem startsCount_append {a b : Str} (ha : a ≠ []) (h : startsCount a = false) : startsCount (a ++ b) = false := by
  cases a with
  | nil => exact absurd rfl ha
  | cons c t => exact h

theorem startsCount_write (names : List Str) (hne : ∀ nm ∈ names, nm ≠ [])
    (hstart : ∀ nm ∈ names, startsCount nm = false) (g : Comp) (hk : ∀ kv ∈ g, kv.1 ∈ names) :
    startsCount (writeGlycan g []) = false := by
  cases g with
  | nil => rfl
  | cons kv r =>
    obtain ⟨nm, v⟩ := kv
    have hm : nm ∈ names := hk (nm, v) (by simp)
    rw [writeGlycan_cons, List.append_assoc]
    exact startsCount_append (hne nm hm) (hstart nm hm)

theorem unambig_of_noClash (names : List Str) (hne : ∀ nm ∈ names, nm ≠ [])
    (hstart : ∀ nm ∈ names, startsCount nm = false) :
    ∀ g : Comp, (∀ kv ∈ g, kv.1 ∈ names) → (∀ kv ∈ g, NumOK kv.2) → NoClash names g = true →
      Unambig names g = true := by
  intro g
  induction g with
  | nil => intro _ _ _; rfl
  | cons kv g ih =>
    intro hk hv hc
    obtain ⟨nm, v⟩ := kv
    have hm : nm ∈ names := hk (nm, v) (by simp)
    have hk' : ∀ kv ∈ g, kv.1 ∈ names := fun kv hkv => hk kv (List.mem_cons_of_mem _ hkv)
    simp only [NoClash, List.all_cons, Bool.and_eq_true] at hc
    have ih' := ih hk' (fun kv hkv => hv kv (List.mem_cons_of_mem _ hkv)) hc.2
    simp only [Unambig, Bool.and_eq_true, Bool.not_eq_true', List.contains_iff_mem, List.all_eq_true,
      Bool.or_eq_true, decide_eq_true_eq]
    refine ⟨⟨⟨hm, ?_⟩, startsCount_write names hne hstart g hk'⟩, ih'⟩
    intro n hn
    by_cases hlen : n.length ≤ nm.length
    · exact Or.inr hlen
    · left
      cases hp : n.isPrefixOf (nm ++ v.show ++ writeGlycan g []) with
      | false => rfl
      | true =>
        exfalso
        have hvne := (hv (nm, v) (by simp)).ne
        cases hsh : v.show with
        | nil => exact hvne hsh
        | cons c s =>
          have hc1 := hc.1
          simp only [hsh, Bool.not_eq_true', clash, List.any_eq_false] at hc1
          apply hc1 n hn
          rw [hsh] at hp
          rw [List.isPrefixOf_iff_prefix] at hp ⊢
          have h2 : (nm ++ [c]) <+: (nm ++ c :: s ++ writeGlycan g []) :=
            ⟨s ++ writeGlycan g [], by simp⟩
          exact List.prefix_of_prefix_length_le h2 hp (by simp; omega)

/-! ## the separated form (`sep` = one character) -/

theorem gly_splitOnAux_sep (c : Nat) (b : Str) : ∀ (a acc : Str), c ∉ a →
    splitOnAux [c] 0 acc (a ++ c :: b) = (acc.reverse ++ a) :: splitOnAux [c] 0 [] b := by
  intro a
  induction a with
  | nil => intro acc _; simp [splitOnAux, List.isPrefixOf]
  | cons x t ih =>
    intro acc h
    simp only [List.mem_cons, not_or] at h
    have hx : (c == x) = false := by simpa using h.1
    have := ih (x :: acc) h.2
    simp only [List.cons_append, splitOnAux, List.isPrefixOf, hx, Bool.false_and, Bool.false_eq_true, if_false]
    rw [this]
    simp

theorem splitOnAux_last (c : Nat) : ∀ (a acc : Str), c ∉ a → splitOnAux [c] 0 acc a = [acc.reverse ++ a] := by
  intro a
  induction a with
  | nil => intro acc _; simp [splitOnAux]
  | cons x t ih =>
    intro acc h
    simp only [List.mem_cons, not_or] at h
    have hx : (c == x) = false := by simpa using h.1
    have := ih (x :: acc) h.2
    simp only [splitOnAux, List.isPrefixOf, hx, Bool.false_and, Bool.false_eq_true, if_false]
    rw [this]
    simp

/-- the tokens of the separated form: name, count, name, count, … -/
def tokens (g : Comp) : List Str := g.flatMap (fun kv => [kv.1, kv.2.show])

theorem writeGlycan_sep_cons2 (sep : Str) (kv kv' : Str × Num) (g : Comp) :
    writeGlycan (kv :: kv' :: g) sep = kv.1 ++ sep ++ kv.2.show ++ sep ++ writeGlycan (kv' :: g) sep := by
  simp [writeGlycan, intercalate]

theorem gly_splitOn_write (c : Nat) : ∀ g : Comp, g ≠ [] → (∀ kv ∈ g, c ∉ kv.1 ∧ c ∉ kv.2.show) →
    splitOn [c] (writeGlycan g [c]) = tokens g := by
  intro g
  induction g with
  | nil => intro h; exact absurd rfl h
  | cons kv r ih =>
    intro _ h
    obtain ⟨h1, h2⟩ := h kv (by simp)
    cases r with
    | nil =>
      simp only [writeGlycan, List.map_cons, List.map_nil, intercalate, splitOn, tokens, List.flatMap_cons,
        List.flatMap_nil, List.append_nil]
      rw [List.append_assoc, List.singleton_append, gly_splitOnAux_sep c _ _ _ h1, splitOnAux_last c _ _ h2]
      simp
    | cons kv' r' =>
      have ih' := ih (by simp) (fun kv hkv => h kv (List.mem_cons_of_mem _ hkv))
      rw [writeGlycan_sep_cons2]
      simp only [splitOn, tokens, List.flatMap_cons] at ih' ⊢
      simp only [List.append_assoc, List.cons_append, List.nil_append]
      rw [gly_splitOnAux_sep c _ _ _ h1, gly_splitOnAux_sep c _ _ _ h2, ih']
      simp

/-- the dict `_parse_split_chem_formula` builds: a repeated key is *accumulated* (unlike the unseparated path) -/
def foldSep (d g : Comp) : Comp :=
  g.foldl (fun d kv => match d.get? kv.1 with
    | some _ => addTo d kv.1 kv.2
    | none => setTo d kv.1 kv.2) d

theorem splitFold_tokens : ∀ (g d : Comp), (∀ kv ∈ g, NumOK kv.2) → splitFold (tokens g) d = .ok (foldSep d g) := by
  intro g
  induction g with
  | nil => intro d _; rfl
  | cons kv r ih =>
    intro d h
    have hv := h kv (by simp)
    have ih' := fun d' => ih d' (fun kv hkv => h kv (List.mem_cons_of_mem _ hkv))
    simp only [tokens, List.flatMap_cons, List.cons_append, List.nil_append]
    rw [splitFold]
    simp only [hv.isNum, if_true, hv.conv, foldSep, List.foldl_cons]
    cases d.get? kv.1 with
    | none => exact ih' _
    | some x => exact ih' _

theorem gly_get?_none_of_not_mem (k : Str) : ∀ d : Comp, k ∉ gkeys d → d.get? k = none := by
  intro d h
  simp only [Comp.get?, Option.map_eq_none_iff, List.find?_eq_none]
  intro kv hkv hk
  apply h
  simp only [gkeys, List.mem_map]
  exact ⟨kv, hkv, by simpa using hk⟩

theorem foldSep_distinct : ∀ (g d : Comp), (gkeys (d ++ g)).Nodup → foldSep d g = d ++ g := by
  intro g
  induction g with
  | nil => intro d _; simp [foldSep]
  | cons kv g ih =>
    intro d h
    obtain ⟨k, v⟩ := kv
    have hk : k ∉ gkeys d := by
      simp only [gkeys, List.map_append, List.map_cons] at h ⊢
      rw [List.nodup_append] at h
      intro hkd
      exact h.2.2 k hkd k (by simp) rfl
    have h' : (gkeys ((d ++ [(k, v)]) ++ g)).Nodup := by simpa using h
    have := ih (d ++ [(k, v)]) h'
    simp only [foldSep, List.foldl_cons] at this ⊢
    rw [gly_get?_none_of_not_mem k d hk]
    simp only
    rw [gly_setTo_new k v d hk, this]
    simp

/-! ## the computed composition has every element once; `compVal` is the dict lookup -/

theorem gkeys_addTo (k : Str) (v : Num) :
    ∀ d : Comp, gkeys (addTo d k v) = if k ∈ gkeys d then gkeys d else gkeys d ++ [k] := by
  intro d
  induction d with
  | nil => simp [addTo, gkeys]
  | cons kv r ih =>
    obtain ⟨k', v'⟩ := kv
    simp only [addTo]
    split
    · rename_i hk
      have hk' : k' = k := by simpa using hk
      subst hk'
      simp [gkeys]
    · rename_i hk
      have hk' : ¬ k = k' := by
        intro e; apply hk; simp [e]
      simp only [gkeys, List.map_cons, List.mem_cons, hk', false_or] at ih ⊢
      rw [ih]
      split <;> simp [*]

theorem nodup_addTo (k : Str) (v : Num) (d : Comp) (h : (gkeys d).Nodup) : (gkeys (addTo d k v)).Nodup := by
  rw [gkeys_addTo]
  split
  · exact h
  · rename_i hk
    rw [List.nodup_append]
    refine ⟨h, by simp, ?_⟩
    intro a ha b hb
    simp only [List.mem_singleton] at hb
    subst hb
    intro e
    exact hk (e ▸ ha)

theorem nodup_addScaled (v : Num) : ∀ (c acc : Comp), (gkeys acc).Nodup → (gkeys (addScaled acc c v)).Nodup := by
  intro c
  induction c with
  | nil => intro acc h; exact h
  | cons kv r ih => intro acc h; exact ih _ (nodup_addTo _ _ _ h)

theorem nodup_compFold (mono : List Entry) : ∀ (g acc : Comp), (gkeys acc).Nodup →
    (gkeys (compFold mono g acc)).Nodup := by
  intro g
  induction g with
  | nil => intro acc h; exact h
  | cons kv r ih => intro acc h; exact ih _ (nodup_addScaled _ _ _ h)

theorem compVal_zero_of_not_mem (el : Str) : ∀ c : Comp, el ∉ gkeys c → compVal c el = 0 := by
  intro c
  induction c with
  | nil => intro _; rfl
  | cons kv r ih =>
    intro h
    simp only [gkeys, List.map_cons, List.mem_cons, not_or] at h
    have h1 : ¬ kv.1 = el := fun e => h.1 e.symm
    rw [compVal_cons, ih h.2]
    simp [h1]

/-- the count stored under `el`, 0 when absent (Python `d.get(el, 0)`) -/
def countAt (c : Comp) (el : Str) : Rat :=
  match c.get? el with
  | some v => v.val
  | none => 0

/-- in a dict with every key once `compVal` is the value stored under the key (0 when absent) -/
theorem compVal_eq_get (el : Str) : ∀ c : Comp, (gkeys c).Nodup → compVal c el = countAt c el := by
  intro c
  unfold countAt
  induction c with
  | nil => intro _; rfl
  | cons kv r ih =>
    intro h
    simp only [gkeys, List.map_cons, List.nodup_cons] at h
    rw [compVal_cons]
    by_cases hk : kv.1 = el
    · subst hk
      rw [compVal_zero_of_not_mem _ r h.1]
      simp [Comp.get?]
    · have : (kv.1 == el) = false := by simpa using hk
      rw [ih h.2]
      simp [Comp.get?, this, hk]

/-! ## canonical names -/

theorem unambig_keys (names : List Str) : ∀ g : Comp, Unambig names g = true → ∀ kv ∈ g, kv.1 ∈ names := by
  intro g
  induction g with
  | nil => intro _ kv h; cases h
  | cons kv r ih =>
    intro hu kv' hkv'
    obtain ⟨nm, v⟩ := kv
    simp only [Unambig, Bool.and_eq_true, List.contains_iff_mem] at hu
    rcases List.mem_cons.1 hkv' with rfl | h
    · exact hu.1.1.1
    · exact ih hu.2 kv' h

theorem monoMass_congr (mono : List Entry) (isMono : Bool) (k k' : Str) (h : monoEntry mono k' = monoEntry mono k) :
    monoMass mono isMono k' = monoMass mono isMono k := by
  simp only [monoMass, h]

theorem monoComp_congr (mono : List Entry) (k k' : Str) (h : monoEntry mono k' = monoEntry mono k) :
    monoComp mono k' = monoComp mono k := by
  simp only [monoComp, h]

theorem massSum_mapKeys (mono : List Entry) (isMono : Bool) (f : Str → Str) (g : Comp)
    (h : ∀ kv ∈ g, monoEntry mono (f kv.1) = monoEntry mono kv.1) :
    massSum mono isMono (mapKeys f g) = massSum mono isMono g := by
  induction g with
  | nil => rfl
  | cons kv r ih =>
    have h1 := monoMass_congr mono isMono _ _ (h kv (by simp))
    have ih' := ih (fun kv hkv => h kv (List.mem_cons_of_mem _ hkv))
    simp only [massSum, mapKeys, List.map_cons, List.sum_cons, h1] at ih' ⊢
    rw [ih']

theorem compSum_mapKeys (mono : List Entry) (f : Str → Str) (g : Comp) (el : Str)
    (h : ∀ kv ∈ g, monoEntry mono (f kv.1) = monoEntry mono kv.1) :
    compSum mono (mapKeys f g) el = compSum mono g el := by
  induction g with
  | nil => rfl
  | cons kv r ih =>
    have h1 := monoComp_congr mono _ _ (h kv (by simp))
    have ih' := ih (fun kv hkv => h kv (List.mem_cons_of_mem _ hkv))
    simp only [compSum, mapKeys, List.map_cons, List.sum_cons, h1] at ih' ⊢
    rw [ih']

/-! ## the tokenizer terminates with a dict or `InvalidGlycanFormulaError` -/

theorem parseGlycanAux_total (names : List Str) (hne : ∀ nm ∈ names, nm ≠ []) :
    ∀ (s : Str) (n : Nat) (d : Comp),
      (∃ c, parseGlycanAux names n s d = .ok c) ∨ parseGlycanAux names n s d = .error .invalidGlycanFormula := by
  intro s
  induction s with
  | nil => intro n d; exact Or.inl ⟨d, by cases n <;> rfl⟩
  | cons c r ih =>
    intro n d
    cases n with
    | succ k => simpa [parseGlycanAux] using ih k d
    | zero =>
      rw [parseGlycanAux]
      cases hf : names.find? (fun nm => nm.isPrefixOf (c :: r)) with
      | none => exact Or.inr rfl
      | some nm =>
        have hnm : nm ≠ [] := hne nm (List.mem_of_find?_eq_some hf)
        have hemp : nm.isEmpty = false := by
          cases nm with
          | nil => exact absurd rfl hnm
          | cons _ _ => rfl
        simp only [hemp, Bool.false_eq_true, if_false]
        cases countOf (spanP isCountChar (List.drop nm.length (c :: r))).1 with
        | none => exact Or.inr rfl
        | some v => exact ih _ _

/-! ## the generated vocabulary: exactly which written forms are ambiguous -/
section GenTable
local notation "NAMES" => namesSorted Gen.Mono.entries

theorem gen_nonempty : ∀ nm ∈ NAMES, nm ≠ [] := by decide +kernel

theorem gen_startsCount : ∀ nm ∈ NAMES, startsCount nm = false := by decide +kernel

theorem gen_clash : ∀ nm ∈ NAMES, ∀ n ∈ NAMES,
    (match n.drop nm.length with
      | c :: _ => nm.isPrefixOf n && (isDigit c || c == 45 || c == 46) && !(nm == str% "Neu" && c == 53)
      | [] => false) = false := by decide +kernel

theorem gen_neu5 : ∀ n ∈ NAMES, (str% "Neu5").isPrefixOf n = true → n = str% "Neu5Ac" ∨ n = str% "Neu5Gc" := by
  decide +kernel

theorem gen_ac : ∀ k ∈ NAMES, ∀ X ∈ [65, 71],
    k ≠ [X] ∧ ([X, 99].isPrefixOf k = true → X = 65 ∧ (k = str% "Ac" ∨ k = str% "Acetyl")) := by
  decide +kernel

theorem gen_mem : str% "Neu5Ac" ∈ NAMES := by decide +kernel

/-- the only vocabulary name continued by a count character to another vocabulary name is `Neu` (by `5`) -/
theorem gen_only_clash (nm : Str) (hnm : nm ∈ NAMES) (c : Nat) (hc : (isDigit c || c == 45 || c == 46) = true)
    (n : Str) (hn : n ∈ NAMES) (r : Str) (hr : n = nm ++ [c] ++ r) : nm = str% "Neu" ∧ c = 53 := by
  have h := gen_clash nm hnm n hn
  have hd : n.drop nm.length = c :: r := by
    rw [hr, List.append_assoc, List.drop_left]; rfl
  have hpre : nm.isPrefixOf n = true := isPrefixOf_iff.2 ⟨c :: r, by rw [hr]; simp⟩
  rw [hd] at h
  simp only [hpre, hc, Bool.true_and, Bool.not_eq_false', Bool.and_eq_true, beq_iff_eq] at h
  exact h

/-- if at an item some longer vocabulary name matches, the item is `Neu` with count text `5` and the next key is `Ac`
or `Acetyl` -/
theorem gen_item_ambiguous (nm : Str) (v : Num) (g' : Comp) (hnm : nm ∈ NAMES) (hv : NumOK v)
    (hk' : ∀ kv ∈ g', kv.1 ∈ NAMES) (n : Str) (hn : n ∈ NAMES)
    (hp : n <+: nm ++ v.show ++ writeGlycan g' []) (hlen : nm.length < n.length) :
    nm = str% "Neu" ∧ v.show = [53] ∧
      ∃ k2 v2 r, g' = (k2, v2) :: r ∧ (k2 = str% "Ac" ∨ k2 = str% "Acetyl") := by
  cases hsh : v.show with
  | nil => exact absurd hsh hv.ne
  | cons c0 s =>
    rw [hsh] at hp
    have hc0 : (isDigit c0 || c0 == 45 || c0 == 46) = true := hv.chars c0 (by rw [hsh]; simp)
    have h2 : (nm ++ [c0]) <+: (nm ++ c0 :: s ++ writeGlycan g' []) := ⟨s ++ writeGlycan g' [], by simp⟩
    obtain ⟨r0, hr0⟩ := List.prefix_of_prefix_length_le h2 hp (by simp; omega)
    obtain ⟨rfl, rfl⟩ := gen_only_clash nm hnm c0 hc0 n hn r0 hr0.symm
    have hn5 := gen_neu5 n hn (isPrefixOf_iff.2 ⟨r0, by rw [← hr0]; rfl⟩)
    obtain ⟨X, hX, hnX⟩ : ∃ X, X ∈ [65, 71] ∧ n = [78, 101, 117, 53, X, 99] := by
      rcases hn5 with h | h
      · exact ⟨65, by simp, h⟩
      · exact ⟨71, by simp, h⟩
    rw [hnX] at hp
    simp only [List.cons_append, List.nil_append, List.cons_prefix_cons, true_and] at hp
    cases s with
    | cons c' s' =>
      exfalso
      simp only [List.cons_append, List.cons_prefix_cons] at hp
      have hc' : (isDigit c' || c' == 45 || c' == 46) = true := hv.chars c' (by rw [hsh]; simp)
      rw [← hp.1] at hc'
      simp only [List.mem_cons, List.not_mem_nil, or_false] at hX
      rcases hX with rfl | rfl <;> exact absurd hc' (by decide)
    | nil =>
      refine ⟨rfl, rfl, ?_⟩
      simp only [List.nil_append] at hp
      cases g' with
      | nil => simp [writeGlycan_nil] at hp
      | cons kv2 r =>
        obtain ⟨k2, v2⟩ := kv2
        refine ⟨k2, v2, r, rfl, ?_⟩
        have hk2 : k2 ∈ NAMES := hk' (k2, v2) (by simp)
        have hfacts := gen_ac k2 hk2 X hX
        rw [writeGlycan_cons] at hp
        cases k2 with
        | nil => exact absurd rfl (gen_nonempty _ hk2)
        | cons a t =>
          simp only [List.cons_append, List.cons_prefix_cons] at hp
          obtain ⟨rfl, hp2⟩ := hp
          cases t with
          | nil => exact absurd rfl hfacts.1
          | cons b t' =>
            simp only [List.cons_append, List.cons_prefix_cons] at hp2
            obtain ⟨rfl, _⟩ := hp2
            exact (hfacts.2 (by simp [List.isPrefixOf])).2

/-- `Neu` with count text `5` immediately followed by `Ac` / `Acetyl` somewhere in the dict -/
def neu5ac : Comp → Bool
  | [] => false
  | [_] => false
  | (nm, v) :: (k2, v2) :: r =>
    (nm == str% "Neu" && v.show == [53] && (k2 == str% "Ac" || k2 == str% "Acetyl")) || neu5ac ((k2, v2) :: r)

/-- the check `Unambig` makes at one item: no longer vocabulary name matches -/
def noLonger (names : List Str) (nm : Str) (text : Str) : Bool :=
  names.all (fun n => !(n.isPrefixOf text) || decide (n.length ≤ nm.length))

theorem gen_noLonger_false (nm : Str) (v : Num) (g' : Comp) (hnm : nm ∈ NAMES) (hv : NumOK v)
    (hk' : ∀ kv ∈ g', kv.1 ∈ NAMES)
    (h : noLonger NAMES nm (nm ++ v.show ++ writeGlycan g' []) = false) :
    nm = str% "Neu" ∧ v.show = [53] ∧
      ∃ k2 v2 r, g' = (k2, v2) :: r ∧ (k2 = str% "Ac" ∨ k2 = str% "Acetyl") := by
  simp only [noLonger, List.all_eq_false, Bool.or_eq_true, Bool.not_eq_true', decide_eq_true_eq, not_or,
    Bool.not_eq_false] at h
  obtain ⟨n, hn, hp, hlen⟩ := h
  exact gen_item_ambiguous nm v g' hnm hv hk' n hn (List.isPrefixOf_iff_prefix.1 hp) (by omega)

theorem gen_noLonger_neu5ac (v v2 : Num) (k2 : Str) (r : Comp) (hv : v.show = [53])
    (hk2 : k2 = str% "Ac" ∨ k2 = str% "Acetyl") :
    noLonger NAMES (str% "Neu") (str% "Neu" ++ v.show ++ writeGlycan ((k2, v2) :: r) []) = false := by
  simp only [noLonger, List.all_eq_false, Bool.or_eq_true, Bool.not_eq_true', decide_eq_true_eq, not_or,
    Bool.not_eq_false]
  refine ⟨str% "Neu5Ac", gen_mem, ?_, by decide⟩
  rw [hv, writeGlycan_cons]
  rcases hk2 with rfl | rfl <;> simp [List.isPrefixOf]

/-- for the generated vocabulary a written dict (keys in the vocabulary, printable counts) is ambiguous exactly when it
contains `Neu` with count text `5` immediately followed by `Ac` or `Acetyl` (written `Neu5Ac…`) -/
theorem gen_unambig_eq : ∀ g : Comp, (∀ kv ∈ g, kv.1 ∈ NAMES) → (∀ kv ∈ g, NumOK kv.2) →
    Unambig NAMES g = !neu5ac g := by
  intro g
  induction g with
  | nil => intro _ _; rfl
  | cons kv g' ih =>
    intro hk hv
    obtain ⟨nm, v⟩ := kv
    have hnm : nm ∈ NAMES := hk (nm, v) (by simp)
    have hvv : NumOK v := hv (nm, v) (by simp)
    have hk' : ∀ kv ∈ g', kv.1 ∈ NAMES := fun kv hkv => hk kv (List.mem_cons_of_mem _ hkv)
    have ih' := ih hk' (fun kv hkv => hv kv (List.mem_cons_of_mem _ hkv))
    have hsc := startsCount_write NAMES gen_nonempty gen_startsCount g' hk'
    have hcont : (NAMES).contains nm = true := by simpa using hnm
    have hU : Unambig NAMES ((nm, v) :: g') =
        (noLonger NAMES nm (nm ++ v.show ++ writeGlycan g' []) && Unambig NAMES g') := by
      simp only [Unambig, noLonger, hcont, hsc, Bool.true_and, Bool.not_false, Bool.and_true]
    rw [hU, ih']
    cases hL : noLonger NAMES nm (nm ++ v.show ++ writeGlycan g' []) with
    | false =>
      obtain ⟨rfl, hsh, k2, v2, r, rfl, hk2⟩ := gen_noLonger_false nm v g' hnm hvv hk' hL
      have : ((str% "Neu") == (str% "Neu") && v.show == [53] && (k2 == str% "Ac" || k2 == str% "Acetyl")) = true := by
        rcases hk2 with rfl | rfl <;> simp [hsh]
      simp only [neu5ac, this, Bool.true_or, Bool.not_true, Bool.false_and]
    | true =>
      cases g' with
      | nil => rfl
      | cons kv2 r =>
        obtain ⟨k2, v2⟩ := kv2
        have : (nm == str% "Neu" && v.show == [53] && (k2 == str% "Ac" || k2 == str% "Acetyl")) = false := by
          cases hcond : (nm == str% "Neu" && v.show == [53] && (k2 == str% "Ac" || k2 == str% "Acetyl")) with
          | false => rfl
          | true =>
            exfalso
            simp only [Bool.and_eq_true, Bool.or_eq_true, beq_iff_eq] at hcond
            obtain ⟨⟨rfl, hsh⟩, hk2⟩ := hcond
            have := gen_noLonger_neu5ac v v2 k2 r hsh hk2
            rw [this] at hL
            cases hL
        simp only [neu5ac, this, Bool.false_or, Bool.true_and]

end GenTable
/-! ## additivity: the dict of a concatenated text is the `addAll` of the parts; mass and composition add up -/

theorem parseGlycan_eq_aux (mono : List Entry) (s : Str) :
    parseGlycan mono s [] = parseGlycanAux (namesSorted mono) 0 s [] := by
  unfold parseGlycan
  cases s with
  | nil => rfl
  | cons c r => rfl

/-- the separated path accumulates too: it builds the same dict as `addAll` -/
theorem foldSep_eq_addAll : ∀ (g d : Comp), foldSep d g = addAll d g := by
  intro g
  induction g with
  | nil => intro d; rfl
  | cons kv r ih =>
    intro d
    have hstep : (match d.get? kv.1 with
        | some _ => addTo d kv.1 kv.2
        | none => setTo d kv.1 kv.2) = addTo d kv.1 kv.2 := by
      cases hg : d.get? kv.1 with
      | some x => rfl
      | none =>
        have hk : kv.1 ∉ gkeys d := by
          intro hm
          simp only [gkeys, List.mem_map] at hm
          obtain ⟨x, hx, hxk⟩ := hm
          simp only [Comp.get?, Option.map_eq_none_iff, List.find?_eq_none] at hg
          exact hg x hx (by simp [hxk])
        simp only
        rw [gly_setTo_new kv.1 kv.2 d hk, addTo_new (by simpa [keys, gkeys] using hk)]
    have := ih (addTo d kv.1 kv.2)
    simp only [foldSep, List.foldl_cons] at this ⊢
    rw [addAll_cons, ← this]
    congr 1

theorem massSum_addTo (mono : List Entry) (isMono : Bool) (k : Str) (v : Num) :
    ∀ d : Comp, massSum mono isMono (addTo d k v) =
      massSum mono isMono d + (monoMass mono isMono k).getD 0 * v.val := by
  intro d
  induction d with
  | nil => simp [addTo, massSum, Num.add, Num.zero, Num.ofInt]
  | cons a r ih =>
    obtain ⟨k', v'⟩ := a
    simp only [addTo]
    split
    · rename_i hk
      have hk' : k' = k := by simpa using hk
      subst hk'
      simp only [massSum, List.map_cons, List.sum_cons, Num.add]
      ring
    · simp only [massSum, List.map_cons, List.sum_cons] at ih ⊢
      rw [ih]; ring

theorem massSum_addAll (mono : List Entry) (isMono : Bool) :
    ∀ (g d : Comp), massSum mono isMono (addAll d g) = massSum mono isMono d + massSum mono isMono g := by
  intro g
  induction g with
  | nil => intro d; simp [addAll, massSum]
  | cons kv r ih =>
    intro d
    rw [addAll_cons, ih, massSum_addTo]
    simp only [massSum, List.map_cons, List.sum_cons]
    ring

theorem compSum_addTo (mono : List Entry) (el k : Str) (v : Num) :
    ∀ d : Comp, compSum mono (addTo d k v) el =
      compSum mono d el + compVal ((monoComp mono k).getD []) el * v.val := by
  intro d
  induction d with
  | nil => simp [addTo, compSum, Num.add, Num.zero, Num.ofInt]
  | cons a r ih =>
    obtain ⟨k', v'⟩ := a
    simp only [addTo]
    split
    · rename_i hk
      have hk' : k' = k := by simpa using hk
      subst hk'
      simp only [compSum, List.map_cons, List.sum_cons, Num.add]
      ring
    · simp only [compSum, List.map_cons, List.sum_cons] at ih ⊢
      rw [ih]; ring

theorem compSum_addAll (mono : List Entry) (el : Str) :
    ∀ (g d : Comp), compSum mono (addAll d g) el = compSum mono d el + compSum mono g el := by
  intro g
  induction g with
  | nil => intro d; simp [addAll, compSum]
  | cons kv r ih =>
    intro d
    rw [addAll_cons, ih, compSum_addTo]
    simp only [compSum, List.map_cons, List.sum_cons]
    ring

/-- merging introduces no new keys -/
theorem mem_addAll_key {d g : Comp} {kv : Str × Num} (h : kv ∈ addAll d g) :
    kv.1 ∈ gkeys d ∨ kv.1 ∈ gkeys g := by
  have hk : kv.1 ∈ keys (addAll d g) := by
    simp only [keys, List.mem_map]; exact ⟨kv, h, rfl⟩
  exact mem_keys_addAll hk

end Formula
