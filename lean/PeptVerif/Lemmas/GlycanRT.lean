import PeptVerif.Lemmas.NumSpec
import Mathlib.Tactic.Ring
/-!
Helper lemmas for the glycan half of C15 (`Props/C15Glycan.lean`): vocabulary order (`namesSorted`), the
glycan tokenizer (`parseGlycanAux`) against the writer (`writeGlycan`), and linearity of `glycanCompDict` /
`glycanMassDict`.
-/
namespace Formula
open ModDb

/-! ## lookups: names and synonyms resolve to entries -/

/-- the keys of a glycan dict -/
def gkeys (g : Comp) : List Str := g.map (·.1)

/-- replacing every key by `f key` (e.g. a synonym by the entry's name) -/
def mapKeys (f : Str → Str) (g : Comp) : Comp := g.map (fun kv => (f kv.1, kv.2))

theorem glycanCompDict_congr (mono : List Entry) (f : Str → Str) :
    ∀ (g : Comp) (acc : Comp), (∀ kv ∈ g, monoEntry mono (f kv.1) = monoEntry mono kv.1) →
      glycanCompDict mono (mapKeys f g) acc = glycanCompDict mono g acc := by
  intro g
  induction g with
  | nil => intro acc _; rfl
  | cons kv g ih =>
    intro acc h
    obtain ⟨k, v⟩ := kv
    have hk : monoEntry mono (f k) = monoEntry mono k := h (k, v) (by simp)
    have ih' := fun acc => ih acc (fun kv hkv => h kv (List.mem_cons_of_mem _ hkv))
    simp only [mapKeys, List.map_cons, glycanCompDict, hk]
    cases monoEntry mono k with
    | none => rfl
    | some e =>
      simp only
      cases e.comp with
      | none => rfl
      | some fm =>
        simp only
        cases parseChem fm [] with
        | error er => rfl
        | ok c => simp only; exact ih' _

theorem glycanMassDict_congr (mono : List Entry) (isMono : Bool) (f : Str → Str) :
    ∀ (g : Comp), (∀ kv ∈ g, monoEntry mono (f kv.1) = monoEntry mono kv.1) →
      glycanMassDict mono isMono (mapKeys f g) = glycanMassDict mono isMono g := by
  intro g
  induction g with
  | nil => intro _; rfl
  | cons kv g ih =>
    intro h
    obtain ⟨k, v⟩ := kv
    have hk : monoEntry mono (f k) = monoEntry mono k := h (k, v) (by simp)
    have ih' := ih (fun kv hkv => h kv (List.mem_cons_of_mem _ hkv))
    simp only [mapKeys] at ih'
    simp only [mapKeys, List.map_cons, glycanMassDict, hk, ih']

/-! ## vocabulary order -/

theorem mem_insertBy {α} (key : α → Nat) (x y : α) : ∀ l : List α, y ∈ insertBy key x l ↔ y = x ∨ y ∈ l := by
  intro l
  induction l with
  | nil => simp [insertBy]
  | cons z r ih =>
    simp only [insertBy]
    split
    · simp
    · simp only [List.mem_cons, ih]
      constructor
      · rintro (h | h | h) <;> simp [h]
      · rintro (h | h | h) <;> simp [h]

theorem mem_foldl_insertBy {α} (key : α → Nat) (y : α) :
    ∀ (l acc : List α), y ∈ l.foldl (fun acc x => insertBy key x acc) acc ↔ y ∈ acc ∨ y ∈ l := by
  intro l
  induction l with
  | nil => simp
  | cons x r ih =>
    intro acc
    simp only [List.foldl_cons, ih, mem_insertBy, List.mem_cons]
    constructor
    · rintro ((h | h) | h) <;> simp [h]
    · rintro (h | h | h) <;> simp [h]

theorem mem_sortBy {α} (key : α → Nat) (y : α) (l : List α) : y ∈ sortBy key l ↔ y ∈ l := by
  simp [sortBy, mem_foldl_insertBy]

theorem insertBy_sorted {α} (key : α → Nat) (x : α) :
    ∀ l : List α, l.Pairwise (fun a b => key a ≤ key b) → (insertBy key x l).Pairwise (fun a b => key a ≤ key b) := by
  intro l
  induction l with
  | nil => intro _; simp [insertBy]
  | cons z r ih =>
    intro h
    rw [List.pairwise_cons] at h
    simp only [insertBy]
    split
    · rename_i hlt
      rw [List.pairwise_cons]
      refine ⟨?_, List.pairwise_cons.2 h⟩
      intro b hb
      rcases List.mem_cons.1 hb with rfl | hb
      · omega
      · have := h.1 b hb; omega
    · rename_i hge
      rw [List.pairwise_cons]
      refine ⟨?_, ih h.2⟩
      intro b hb
      rcases (mem_insertBy key x b r).1 hb with rfl | hb
      · omega
      · exact h.1 b hb

theorem sortBy_sorted {α} (key : α → Nat) (l : List α) : (sortBy key l).Pairwise (fun a b => key a ≤ key b) := by
  unfold sortBy
  suffices h : ∀ (l acc : List α), acc.Pairwise (fun a b => key a ≤ key b) →
      (l.foldl (fun acc x => insertBy key x acc) acc).Pairwise (fun a b => key a ≤ key b) from
    h l [] List.Pairwise.nil
  intro l
  induction l with
  | nil => intro acc h; exact h
  | cons x r ih => intro acc h; exact ih _ (insertBy_sorted key x acc h)

theorem mem_dedup (y : Str) : ∀ l : List Str, y ∈ dedup l ↔ y ∈ l := by
  intro l
  induction l with
  | nil => simp [dedup]
  | cons x r ih =>
    simp only [dedup]
    split
    · rename_i hc
      have hx : x ∈ r := by simpa using hc
      rw [ih, List.mem_cons]
      constructor
      · exact Or.inr
      · rintro (rfl | h)
        · exact hx
        · exact h
    · simp [ih]

/-- the strings of the vocabulary: the entries' names and synonyms -/
def IsNameOrSyn (db : List Entry) (nm : Str) : Prop := ∃ e ∈ db, nm = e.name ∨ nm ∈ e.syns

theorem mem_namesSorted (db : List Entry) (nm : Str) : nm ∈ namesSorted db ↔ IsNameOrSyn db nm := by
  unfold namesSorted IsNameOrSyn
  simp only [mem_sortBy, mem_dedup, List.mem_append, List.mem_map, List.mem_flatten]
  constructor
  · rintro (⟨e, he, rfl⟩ | ⟨l, ⟨e, he, rfl⟩, hl⟩)
    · exact ⟨e, he, Or.inl rfl⟩
    · exact ⟨e, he, Or.inr hl⟩
  · rintro ⟨e, he, rfl | hs⟩
    · exact Or.inl ⟨e, he, rfl⟩
    · exact Or.inr ⟨_, ⟨e, he, rfl⟩, hs⟩

/-- longest first -/
def LenDesc (names : List Str) : Prop := names.Pairwise (fun a b => b.length ≤ a.length)

/-- `namesSorted` is sorted longest first (the sort key is `1000000 - length`, hence the length bound) -/
theorem namesSorted_lenDesc (db : List Entry) (hlen : ∀ nm ∈ namesSorted db, nm.length ≤ 1000000) :
    LenDesc (namesSorted db) := by
  have h := sortBy_sorted (fun s : Str => 1000000 - s.length)
    (dedup (db.map (·.name) ++ (db.map (·.syns)).flatten))
  change (namesSorted db).Pairwise _ at h
  unfold LenDesc
  rw [List.pairwise_iff_forall_sublist] at h ⊢
  intro a b hab
  have h1 := h hab
  have ha : a ∈ namesSorted db := hab.subset (by simp)
  have hb : b ∈ namesSorted db := hab.subset (by simp)
  have := hlen a ha
  have := hlen b hb
  omega

theorem isPrefixOf_iff {a t : Str} : a.isPrefixOf t = true ↔ ∃ r, t = a ++ r := by
  rw [List.isPrefixOf_iff_prefix]
  constructor
  · rintro ⟨r, h⟩; exact ⟨r, h.symm⟩
  · rintro ⟨r, h⟩; exact ⟨r, h.symm⟩

theorem prefix_same_length {a b t : Str} (ha : a.isPrefixOf t = true) (hb : b.isPrefixOf t = true)
    (hl : a.length = b.length) : a = b := by
  obtain ⟨r, hr⟩ := isPrefixOf_iff.1 ha
  obtain ⟨s, hs⟩ := isPrefixOf_iff.1 hb
  rw [hr] at hs
  exact List.append_inj_left hs hl

/-- in a longest-first vocabulary the first name that is a prefix of the text is a longest one -/
theorem find_longest (names : List Str) (text : Str) (hs : LenDesc names) (nm : Str)
    (h : names.find? (fun n => n.isPrefixOf text) = some nm) :
    nm ∈ names ∧ nm.isPrefixOf text = true ∧ ∀ nm' ∈ names, nm'.isPrefixOf text = true → nm'.length ≤ nm.length := by
  induction names with
  | nil => simp at h
  | cons x r ih =>
    unfold LenDesc at hs
    rw [List.pairwise_cons] at hs
    rw [List.find?_cons] at h
    split at h
    · rename_i hx
      cases h
      refine ⟨by simp, hx, ?_⟩
      intro nm' hnm' _
      rcases List.mem_cons.1 hnm' with rfl | hm
      · exact Nat.le_refl _
      · exact hs.1 nm' hm
    · rename_i hx
      obtain ⟨h1, h2, h3⟩ := ih hs.2 h
      refine ⟨List.mem_cons_of_mem _ h1, h2, ?_⟩
      intro nm' hnm' hp
      rcases List.mem_cons.1 hnm' with rfl | hm
      · rw [hp] at hx; cases hx
      · exact h3 nm' hm hp

/-- conversely: a vocabulary name that is a prefix of the text, with no longer vocabulary name being a prefix, is the
one the tokenizer takes -/
theorem find_eq_of_longest (names : List Str) (text : Str) (hs : LenDesc names) (nm : Str) (hmem : nm ∈ names)
    (hp : nm.isPrefixOf text = true)
    (hmax : ∀ nm' ∈ names, nm'.isPrefixOf text = true → nm'.length ≤ nm.length) :
    names.find? (fun n => n.isPrefixOf text) = some nm := by
  cases hf : names.find? (fun n => n.isPrefixOf text) with
  | none =>
    rw [List.find?_eq_none] at hf
    exact absurd hp (hf nm hmem)
  | some x =>
    obtain ⟨h1, h2, h3⟩ := find_longest names text hs x hf
    have : x.length = nm.length := Nat.le_antisymm (hmax x h1 h2) (h3 nm hmem hp)
    rw [prefix_same_length h2 hp this]

end Formula
