import PeptVerif.Lemmas.SpansSemi
/-! C06 helper lemmas: the span lists are duplicate-free. Core Lean only. -/
namespace Spans

theorem nodup_groupLoop {build : Span → Option Int → Option Int → List Span} {Sh : Span → Span → Prop}
    (hb : BuildSpec build Sh) (hbn : ∀ p a b, (build p a b).Nodup) (sb : Bool) (lo : Int) (hi : Option Int)
    (G : List Span) (hG : G.Pairwise (fun a b => spanLen b < spanLen a)) :
    (groupLoop build sb lo hi G).Nodup := by
  induction G with
  | nil => simp [groupLoop]
  | cons p0 rest ih =>
    have hG' := List.pairwise_cons.mp hG
    have ih := ih hG'.2
    unfold groupLoop
    simp only
    by_cases hbrk : (if sb = true then spanLen p0 < lo else spanLen p0 ≤ lo)
    · rw [if_pos hbrk]; simp
    · rw [if_neg hbrk]
      cases rest with
      | nil => exact hbn _ _ _
      | cons next r =>
        simp only
        rw [List.nodup_append]
        refine ⟨hbn _ _ _, ih, ?_⟩
        intro x hx y hy hxy
        subst hxy
        rw [hb] at hx
        rw [mem_groupLoop hb sb lo hi _ hG'.2] at hy
        obtain ⟨p, hp, _, _, _, _, h5, _⟩ := hy
        have h1 : spanLen p ≤ spanLen next := by
          rcases List.mem_cons.mp hp with rfl | hp
          · omega
          · have := (List.pairwise_cons.mp hG'.2).1 p hp; omega
        omega

theorem nodup_grouped {build : Span → Option Int → Option Int → List Span} {Sh : Span → Span → Prop}
    (hb : BuildSpec build Sh) (hbn : ∀ p a b, (build p a b).Nodup) (key : Span → Int) (le : Span → Span → Bool)
    (hsh : ∀ p x, Sh p x → key x = key p)
    (htot : ∀ a b, le a b = false → le b a = true)
    (htr : ∀ a b c, le a b = true → le b c = true → le a c = true)
    (hkey : ∀ a b, le a b = true → key a ≤ key b)
    (E : List Span) (hnd : E.Nodup)
    (hdesc : ∀ a ∈ E, ∀ b ∈ E, a ≠ b → key a = key b → le a b = true → spanLen b < spanLen a)
    (sb : Bool) (lo : Int) (hi : Option Int) :
    ((groupByKey key (sortBy le E)).flatMap (groupLoop build sb lo hi)).Nodup := by
  have hsorted := pairwise_sortBy le htot htr E
  have hks : (sortBy le E).Pairwise (fun a b => key a ≤ key b) := hsorted.imp (fun h => hkey _ _ h)
  have hndS : (sortBy le E).Nodup := (perm_sortBy le E).nodup_iff.mpr hnd
  have hGdesc : ∀ G ∈ groupByKey key (sortBy le E), G.Pairwise (fun a b => spanLen b < spanLen a) := by
    intro G hG
    have hsub := groupByKey_sublist key _ G hG
    have h1 : G.Pairwise (fun a b => le a b = true) := hsorted.sublist hsub
    have h2 : G.Pairwise (fun a b => a ≠ b) := List.Nodup.sublist hsub hndS
    refine (h1.and h2).imp_of_mem ?_
    intro a b ha hb hab
    exact hdesc a ((mem_sortBy le a E).mp (hsub.subset ha)) b ((mem_sortBy le b E).mp (hsub.subset hb)) hab.2
      (groupByKey_const key _ G hG a ha b hb) hab.1
  simp only [List.Nodup]
  rw [List.pairwise_flatMap]
  refine ⟨fun G hG => nodup_groupLoop hb hbn sb lo hi G (hGdesc G hG), ?_⟩
  refine (groupByKey_pairwise key _ hks).imp_of_mem ?_
  intro G H hG hH hGH x hx y hy hxy
  subst hxy
  rw [mem_groupLoop hb sb lo hi G (hGdesc G hG)] at hx
  rw [mem_groupLoop hb sb lo hi H (hGdesc H hH)] at hy
  obtain ⟨p, hp, hs, _⟩ := hx
  obtain ⟨q, hq, hs', _⟩ := hy
  have := hGH p hp q hq
  have := hsh p x hs
  have := hsh q x hs'
  omega

theorem nodup_groupedLeft_enz (mc : Nat) (lo hiE : Int) (hi : Option Int) (L : List Int) (hL : SSorted L) (lo' : Option Int) :
    (groupedLeft (enzGo mc lo hiE L) lo' hi).Nodup := by
  rw [groupedLeft_eq]
  exact nodup_grouped buildSpec_left nodup_buildLeftSemi' _ _ (fun p x h => h.1) leLeft_tot leLeft_tr leLeft_key _
    (nodup_enzGo mc lo hiE L hL) (enz_desc_left mc lo hiE L hL) _ _ _

theorem nodup_groupedRight_enz (mc : Nat) (lo hiE : Int) (hi : Option Int) (L : List Int) (hL : SSorted L) (lo' : Option Int) :
    (groupedRight (enzGo mc lo hiE L) lo' hi).Nodup := by
  rw [groupedRight_eq]
  exact nodup_grouped buildSpec_right nodup_buildRightSemi' _ _ (fun p x h => h.1) leRight_tot leRight_tr leRight_key _
    (nodup_enzGo mc lo hiE L hL) (enz_desc_right mc lo hiE L hL) _ _ _

end Spans
