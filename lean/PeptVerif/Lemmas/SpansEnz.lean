import PeptVerif.Lemmas.SpansGroup
/-! C06 helper lemmas: counting cleavage points (`inside`), structure of the enzymatic span list. Core Lean only. -/
namespace Spans

theorem length_filter_le_of_imp {α} (p q : α → Bool) (l : List α) (h : ∀ y ∈ l, p y = true → q y = true) :
    (l.filter p).length ≤ (l.filter q).length := by
  induction l with
  | nil => simp
  | cons a l ih =>
    have ih := ih (fun y hy => h y (by simp [hy]))
    have ha := h a (by simp)
    simp only [List.filter_cons]
    cases hp : p a <;> cases hq : q a <;> simp_all <;> omega

theorem length_filter_lt_of_imp {α} (p q : α → Bool) (l : List α) (h : ∀ y ∈ l, p y = true → q y = true)
    (w : α) (hw : w ∈ l) (hwq : q w = true) (hwp : p w = false) :
    (l.filter p).length < (l.filter q).length := by
  induction l with
  | nil => simp at hw
  | cons a l ih =>
    have hle := length_filter_le_of_imp p q l (fun y hy => h y (by simp [hy]))
    have ha := h a (by simp)
    simp only [List.filter_cons]
    rcases List.mem_cons.mp hw with rfl | hw
    · simp [hwq, hwp]; omega
    · have ih := ih (fun y hy => h y (by simp [hy])) hw
      cases hp : p a <;> cases hq : q a <;> simp_all <;> omega

theorem inside_mono (l : List Int) (s s' e e' : Int) (hs : s' ≤ s) (he : e ≤ e') :
    inside l s e ≤ inside l s' e' := by
  unfold inside
  apply length_filter_le_of_imp
  intro y _ hy
  simp only [Bool.and_eq_true, decide_eq_true_eq] at hy ⊢
  omega

theorem inside_lt_right (l : List Int) (s e e' : Int) (he : e ∈ l) (hse : s < e) (hee : e < e') :
    inside l s e < inside l s e' := by
  unfold inside
  apply length_filter_lt_of_imp _ _ _ _ e he
  · simp; omega
  · simp
  · intro y _ hy
    simp only [Bool.and_eq_true, decide_eq_true_eq] at hy ⊢
    omega

theorem inside_lt_left (l : List Int) (s s' e : Int) (hs : s' ∈ l) (hss : s < s') (hse : s' < e) :
    inside l s' e < inside l s e := by
  unfold inside
  apply length_filter_lt_of_imp _ _ _ _ s' hs
  · simp; omega
  · simp
  · intro y _ hy
    simp only [Bool.and_eq_true, decide_eq_true_eq] at hy ⊢
    omega

theorem inside_congr (l : List Int) (s s' e e' : Int)
    (h : ∀ y ∈ l, (s < y ∧ y < e) ↔ (s' < y ∧ y < e')) : inside l s e = inside l s' e' := by
  unfold inside
  congr 1
  apply List.filter_congr
  intro y hy
  have := h y hy
  rw [Bool.eq_iff_iff]; simpa using this

/-- least element of a list above a bound -/
theorem exists_least_ge (l : List Int) (a : Int) (h : ∃ e ∈ l, a ≤ e) :
    ∃ e ∈ l, a ≤ e ∧ ∀ y ∈ l, a ≤ y → e ≤ y := by
  induction l with
  | nil => simp at h
  | cons x l ih =>
    by_cases hl : ∃ e ∈ l, a ≤ e
    · obtain ⟨e, he, hae, hmin⟩ := ih hl
      by_cases hx : a ≤ x ∧ x < e
      · refine ⟨x, by simp, hx.1, ?_⟩
        intro y hy hay
        rcases List.mem_cons.mp hy with rfl | hy
        · omega
        · have := hmin y hy hay; omega
      · refine ⟨e, by simp [he], hae, ?_⟩
        intro y hy hay
        rcases List.mem_cons.mp hy with rfl | hy
        · omega
        · exact hmin y hy hay
    · obtain ⟨e, he, hae⟩ := h
      rcases List.mem_cons.mp he with rfl | he
      · refine ⟨e, by simp, hae, ?_⟩
        intro y hy hay
        rcases List.mem_cons.mp hy with rfl | hy
        · omega
        · exact absurd ⟨y, hy, hay⟩ hl
      · exact absurd ⟨e, he, hae⟩ hl

/-- greatest element of a list below a bound -/
theorem exists_greatest_le (l : List Int) (a : Int) (h : ∃ e ∈ l, e ≤ a) :
    ∃ e ∈ l, e ≤ a ∧ ∀ y ∈ l, y ≤ a → y ≤ e := by
  induction l with
  | nil => simp at h
  | cons x l ih =>
    by_cases hl : ∃ e ∈ l, e ≤ a
    · obtain ⟨e, he, hae, hmin⟩ := ih hl
      by_cases hx : x ≤ a ∧ e < x
      · refine ⟨x, by simp, hx.1, ?_⟩
        intro y hy hay
        rcases List.mem_cons.mp hy with rfl | hy
        · omega
        · have := hmin y hy hay; omega
      · refine ⟨e, by simp [he], hae, ?_⟩
        intro y hy hay
        rcases List.mem_cons.mp hy with rfl | hy
        · omega
        · exact hmin y hy hay
    · obtain ⟨e, he, hae⟩ := h
      rcases List.mem_cons.mp he with rfl | he
      · refine ⟨e, by simp, hae, ?_⟩
        intro y hy hay
        rcases List.mem_cons.mp hy with rfl | hy
        · omega
        · exact absurd ⟨y, hy, hay⟩ hl
      · exact absurd ⟨e, he, hae⟩ hl

/-- two strictly increasing lists with the same elements are equal -/
theorem ssorted_ext (l₁ l₂ : List Int) (h₁ : SSorted l₁) (h₂ : SSorted l₂) (h : ∀ x, x ∈ l₁ ↔ x ∈ l₂) :
    l₁ = l₂ := by
  induction l₁ generalizing l₂ with
  | nil =>
    cases l₂ with
    | nil => rfl
    | cons b l₂ => have := (h b).mpr (by simp); simp at this
  | cons a l₁ ih =>
    cases l₂ with
    | nil => have := (h a).mp (by simp); simp at this
    | cons b l₂ =>
      unfold SSorted at h₁ h₂
      rw [List.pairwise_cons] at h₁ h₂
      have hab : a = b := by
        have h1 := (h a).mp (by simp)
        have h2 := (h b).mpr (by simp)
        rcases List.mem_cons.mp h1 with h1 | h1
        · exact h1
        · rcases List.mem_cons.mp h2 with h2 | h2
          · exact h2.symm
          · have := h₁.1 b h2; have := h₂.1 a h1; omega
      subst hab
      congr 1
      apply ih l₂ h₁.2 h₂.2
      intro x
      constructor
      · intro hx
        rcases List.mem_cons.mp ((h x).mp (by simp [hx])) with rfl | hx'
        · have := h₁.1 x hx; omega
        · exact hx'
      · intro hx
        rcases List.mem_cons.mp ((h x).mpr (by simp [hx])) with rfl | hx'
        · have := h₂.1 x hx; omega
        · exact hx'

theorem sortDedup_congr (l₁ l₂ : List Int) (h : ∀ x, x ∈ l₁ ↔ x ∈ l₂) : sortDedup l₁ = sortDedup l₂ :=
  ssorted_ext _ _ (ssorted_sortDedup _) (ssorted_sortDedup _) (by intro x; simp [mem_sortDedup, h])

theorem plus_sortDedup (n : Int) (S : List Int) : plus n (sortDedup S) = plus n S := by
  unfold plus
  apply sortDedup_congr
  intro x; simp [mem_sortDedup]

theorem mem_plus (n : Int) (S : List Int) (x : Int) : x ∈ plus n S ↔ x = 0 ∨ x = n ∨ x ∈ S := by
  unfold plus; simp [mem_sortDedup]

theorem nodup_enzGo (mc : Nat) (lo hi : Int) (l : List Int) (h : SSorted l) : (enzGo mc lo hi l).Nodup := by
  induction l with
  | nil => simp [enzGo]
  | cons a l ih =>
    have hl : SSorted l := by unfold SSorted at h ⊢; exact (List.pairwise_cons.mp h).2
    have hlt : ∀ y ∈ l, a < y := by unfold SSorted at h; exact (List.pairwise_cons.mp h).1
    simp only [enzGo]
    rw [List.nodup_append]
    refine ⟨?_, ih hl, ?_⟩
    · simp only [List.Nodup]
      rw [List.pairwise_filterMap, List.pairwise_iff_getElem]
      intro i j hi hj hij b hb b' hb'
      simp only [List.getElem_zipIdx] at hb hb'
      split at hb
      · split at hb'
        · simp only [Option.some.injEq] at hb hb'
          subst hb hb'
          simp; omega
        · simp at hb'
      · simp at hb
    · intro x hx y hy
      obtain ⟨s, e, v⟩ := x
      obtain ⟨s', e', v'⟩ := y
      rw [mem_enzGo _ _ _ _ hl] at hy
      have := hlt s' hy.1
      simp only [List.mem_filterMap] at hx
      obtain ⟨q, _, hq⟩ := hx
      split at hq
      · simp only [Option.some.injEq, Prod.mk.injEq] at hq
        simp only [ne_eq, Prod.mk.injEq]; omega
      · simp at hq

end Spans
