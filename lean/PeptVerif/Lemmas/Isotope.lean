import PeptVerif.Model.Isotope
import Mathlib.Tactic.Ring
import Mathlib.Tactic.Linarith
import Mathlib.Tactic.FieldSimp
import Mathlib.Tactic.NormNum
/-!
# Helper lemmas for C14: the "integral" calculus of key-merged distributions

`integral d g = Σ_{(k,a) ∈ d} a · g k`.  Total abundance is `integral d 1`, the first moment is `integral d id`, the
abundance at a key is the integral of an indicator.  `addKey` adds `v · g k`; the un-pruned convolution integrates
`g (rnd (k₁ + k₂))` against the product measure.  Everything else (commutativity, associativity, push-forward, totals,
means) follows from these two facts.
-/
set_option linter.unusedSectionVars false
namespace Isotope

variable {κ : Type}

/-- `Σ a · g k` over the entries of a distribution -/
def integral : Dist κ → (κ → Rat) → Rat
  | [], _ => 0
  | (k, a) :: t, g => a * g k + integral t g

@[simp] theorem integral_nil (g : κ → Rat) : integral ([] : Dist κ) g = 0 := rfl
@[simp] theorem integral_cons (k : κ) (a : Rat) (t : Dist κ) (g : κ → Rat) :
    integral ((k, a) :: t) g = a * g k + integral t g := rfl

theorem integral_add (d : Dist κ) (g h : κ → Rat) :
    integral d (fun k => g k + h k) = integral d g + integral d h := by
  induction d with
  | nil => simp
  | cons p t ih => obtain ⟨k, a⟩ := p; simp only [integral_cons, ih]; ring

theorem integral_mul_left (d : Dist κ) (c : Rat) (g : κ → Rat) :
    integral d (fun k => c * g k) = c * integral d g := by
  induction d with
  | nil => simp
  | cons p t ih => obtain ⟨k, a⟩ := p; simp only [integral_cons, ih]; ring

theorem integral_mul_right (d : Dist κ) (c : Rat) (g : κ → Rat) :
    integral d (fun k => g k * c) = integral d g * c := by
  induction d with
  | nil => simp
  | cons p t ih => obtain ⟨k, a⟩ := p; simp only [integral_cons, ih]; ring

theorem integral_const_zero (d : Dist κ) : integral d (fun _ => (0 : Rat)) = 0 := by
  induction d with
  | nil => rfl
  | cons p t ih => obtain ⟨k, a⟩ := p; simp only [integral_cons, ih]; ring

theorem integral_append (d e : Dist κ) (g : κ → Rat) : integral (d ++ e) g = integral d g + integral e g := by
  induction d with
  | nil => simp
  | cons p t ih => obtain ⟨k, a⟩ := p; simp only [List.cons_append, integral_cons, ih]; ring

theorem integral_congr (d : Dist κ) (g h : κ → Rat) (hgh : ∀ p ∈ d, g p.1 = h p.1) : integral d g = integral d h := by
  induction d with
  | nil => rfl
  | cons p t ih =>
    obtain ⟨k, a⟩ := p
    simp only [integral_cons]
    rw [hgh (k, a) (List.mem_cons_self ..), ih (fun q hq => hgh q (List.mem_cons_of_mem _ hq))]

/-- Fubini for two finite distributions -/
theorem integral_swap {κ₂ : Type} (d1 : Dist κ) (d2 : Dist κ₂) (h : κ → κ₂ → Rat) :
    integral d1 (fun k1 => integral d2 (fun k2 => h k1 k2)) =
    integral d2 (fun k2 => integral d1 (fun k1 => h k1 k2)) := by
  induction d1 with
  | nil => simp [integral_const_zero]
  | cons p t ih =>
    obtain ⟨k, a⟩ := p
    simp only [integral_cons, ih]
    rw [integral_add, integral_mul_left]

theorem integral_map_key {κ₂ : Type} (d : Dist κ) (f : κ → κ₂) (g : κ₂ → Rat) :
    integral (d.map (fun p => (f p.1, p.2))) g = integral d (fun k => g (f k)) := by
  induction d with
  | nil => rfl
  | cons p t ih => obtain ⟨k, a⟩ := p; simp only [List.map_cons, integral_cons, ih]

theorem integral_map_val (d : Dist κ) (c : Rat → Rat) (g : κ → Rat) (hc : ∀ a x, c a * x = c 1 * (a * x)) :
    integral (d.map (fun p => (p.1, c p.2))) g = c 1 * integral d g := by
  induction d with
  | nil => simp
  | cons p t ih => obtain ⟨k, a⟩ := p; simp only [List.map_cons, integral_cons, ih, hc a]; ring

theorem integral_scale (d : Dist κ) (c : Rat) (g : κ → Rat) :
    integral (d.map (fun p => (p.1, p.2 * c))) g = c * integral d g := by
  induction d with
  | nil => simp
  | cons p t ih => obtain ⟨k, a⟩ := p; simp only [List.map_cons, integral_cons, ih]; ring

theorem integral_div (d : Dist κ) (c : Rat) (g : κ → Rat) :
    integral (d.map (fun p => (p.1, p.2 / c))) g = integral d g / c := by
  induction d with
  | nil => simp
  | cons p t ih => obtain ⟨k, a⟩ := p; simp only [List.map_cons, integral_cons, ih]; ring

theorem integral_perm {d e : Dist κ} (h : d.Perm e) (g : κ → Rat) : integral d g = integral e g := by
  induction h with
  | nil => rfl
  | cons x _ ih => obtain ⟨k, a⟩ := x; simp only [integral_cons, ih]
  | swap x y l => obtain ⟨k, a⟩ := x; obtain ⟨k', a'⟩ := y; simp only [integral_cons]; ring
  | trans _ _ ih1 ih2 => rw [ih1, ih2]

/-! ### `addKey` -/
section
variable [DecidableEq κ]

theorem integral_addKey (d : Dist κ) (k : κ) (v : Rat) (g : κ → Rat) :
    integral (addKey d k v) g = integral d g + v * g k := by
  induction d with
  | nil => simp [addKey]
  | cons p t ih =>
    obtain ⟨k', a'⟩ := p
    simp only [addKey]
    split
    · next h => subst h; simp only [integral_cons]; ring
    · simp only [integral_cons, ih]; ring

theorem mem_keys_addKey (d : Dist κ) (k : κ) (v : Rat) (x : κ) :
    x ∈ (addKey d k v).map (·.1) ↔ x = k ∨ x ∈ d.map (·.1) := by
  induction d with
  | nil => simp [addKey]
  | cons p t ih =>
    obtain ⟨k', a'⟩ := p
    simp only [addKey]
    split
    · next h => subst h; simp only [List.map_cons, List.mem_cons]; tauto
    · simp only [List.map_cons, List.mem_cons, ih]; tauto

theorem nodup_keys_addKey (d : Dist κ) (k : κ) (v : Rat) (h : (d.map (·.1)).Nodup) :
    ((addKey d k v).map (·.1)).Nodup := by
  induction d with
  | nil => simp [addKey]
  | cons p t ih =>
    obtain ⟨k', a'⟩ := p
    simp only [List.map_cons, List.nodup_cons] at h
    simp only [addKey]
    split
    · next hk => subst hk; simp only [List.map_cons, List.nodup_cons]; exact h
    · next hk =>
      simp only [List.map_cons, List.nodup_cons]
      refine ⟨?_, ih h.2⟩
      intro hm
      rcases (mem_keys_addKey t k v k').1 hm with h1 | h1
      · exact hk h1
      · exact h.1 h1

/-- every abundance is positive -/
def AllPos (d : Dist κ) : Prop := ∀ p ∈ d, 0 < p.2

theorem allPos_addKey (d : Dist κ) (k : κ) (v : Rat) (hd : AllPos d) (hv : 0 < v) : AllPos (addKey d k v) := by
  induction d with
  | nil => intro p hp; simp [addKey] at hp; subst hp; exact hv
  | cons q t ih =>
    obtain ⟨k', a'⟩ := q
    have ha' : 0 < a' := hd (k', a') (List.mem_cons_self ..)
    have ht : AllPos t := fun p hp => hd p (List.mem_cons_of_mem _ hp)
    simp only [addKey]
    split
    · intro p hp
      rcases List.mem_cons.1 hp with h | h
      · subst h; show 0 < a' + v; linarith
      · exact ht p h
    · intro p hp
      rcases List.mem_cons.1 hp with h | h
      · subst h; exact ha'
      · exact ih ht p h

end

/-! ### the convolution -/
section
variable [DecidableEq κ] [Add κ]

/-- no product of the two distributions is removed by the threshold test -/
def AllKept (thr : Option Rat) (d1 d2 : Dist κ) : Prop :=
  ∀ p1 ∈ d1, ∀ p2 ∈ d2, keep thr (p1.2 * p2.2) = true

theorem allKept_none (d1 d2 : Dist κ) : AllKept none d1 d2 := fun _ _ _ _ => rfl

theorem allKept_zero (d1 d2 : Dist κ) (h1 : AllPos d1) (h2 : AllPos d2) : AllKept (some 0) d1 d2 := by
  intro p1 hp1 p2 hp2
  simp only [keep, decide_eq_true_eq]
  exact le_of_lt (mul_pos (h1 p1 hp1) (h2 p2 hp2))

theorem integral_convRow (rnd : κ → κ) (thr : Option Rat) (m1 : κ) (a1 : Rat) (d2 acc : Dist κ) (g : κ → Rat)
    (hk : ∀ p2 ∈ d2, keep thr (a1 * p2.2) = true) :
    integral (convRow rnd thr m1 a1 d2 acc) g = integral acc g + a1 * integral d2 (fun k => g (rnd (m1 + k))) := by
  induction d2 generalizing acc with
  | nil => simp [convRow]
  | cons p t ih =>
    obtain ⟨m2, a2⟩ := p
    simp only [convRow]
    rw [hk (m2, a2) (List.mem_cons_self ..)]
    simp only [if_true]
    rw [ih _ (fun q hq => hk q (List.mem_cons_of_mem _ hq)), integral_addKey, integral_cons]
    ring

theorem integral_convLoop (rnd : κ → κ) (thr : Option Rat) (d1 d2 acc : Dist κ) (g : κ → Rat)
    (hk : AllKept thr d1 d2) :
    integral (convLoop rnd thr d1 d2 acc) g =
      integral acc g + integral d1 (fun k1 => integral d2 (fun k2 => g (rnd (k1 + k2)))) := by
  induction d1 generalizing acc with
  | nil => simp [convLoop]
  | cons p t ih =>
    obtain ⟨m1, a1⟩ := p
    simp only [convLoop]
    rw [ih _ (fun q hq => hk q (List.mem_cons_of_mem _ hq)),
        integral_convRow rnd thr m1 a1 d2 acc g (fun q hq => hk (m1, a1) (List.mem_cons_self ..) q hq), integral_cons]
    ring

/-- the master identity: integrating against an un-pruned, un-truncated convolution -/
theorem integral_convolve (rnd : κ → κ) (thr : Option Rat) (d1 d2 : Dist κ) (g : κ → Rat) (hk : AllKept thr d1 d2) :
    integral (convolve rnd thr none d1 d2) g = integral d1 (fun k1 => integral d2 (fun k2 => g (rnd (k1 + k2)))) := by
  simp only [convolve]
  rw [integral_convLoop rnd thr d1 d2 [] g hk]
  simp

/-! positivity and key sets -/

theorem allPos_convRow (rnd : κ → κ) (thr : Option Rat) (m1 : κ) (a1 : Rat) (d2 acc : Dist κ)
    (ha : 0 < a1) (h2 : AllPos d2) (hacc : AllPos acc) : AllPos (convRow rnd thr m1 a1 d2 acc) := by
  induction d2 generalizing acc with
  | nil => simpa [convRow] using hacc
  | cons p t ih =>
    obtain ⟨m2, a2⟩ := p
    simp only [convRow]
    apply ih _ (fun q hq => h2 q (List.mem_cons_of_mem _ hq))
    split
    · exact allPos_addKey _ _ _ hacc (mul_pos ha (h2 (m2, a2) (List.mem_cons_self ..)))
    · exact hacc

theorem allPos_convLoop (rnd : κ → κ) (thr : Option Rat) (d1 d2 acc : Dist κ)
    (h1 : AllPos d1) (h2 : AllPos d2) (hacc : AllPos acc) : AllPos (convLoop rnd thr d1 d2 acc) := by
  induction d1 generalizing acc with
  | nil => simpa [convLoop] using hacc
  | cons p t ih =>
    obtain ⟨m1, a1⟩ := p
    simp only [convLoop]
    exact ih _ (fun q hq => h1 q (List.mem_cons_of_mem _ hq))
      (allPos_convRow rnd thr m1 a1 d2 acc (h1 (m1, a1) (List.mem_cons_self ..)) h2 hacc)

theorem insertDesc_perm (x : κ × Rat) (d : Dist κ) : (insertDesc x d).Perm (x :: d) := by
  induction d with
  | nil => exact List.Perm.refl _
  | cons y t ih =>
    simp only [insertDesc]
    split
    · exact List.Perm.refl _
    · exact (List.Perm.cons y ih).trans (List.Perm.swap x y t)

theorem foldl_insertDesc_perm (d acc : Dist κ) :
    (d.foldl (fun acc x => insertDesc x acc) acc).Perm (d.reverse ++ acc) := by
  induction d generalizing acc with
  | nil => simp
  | cons x t ih =>
    simp only [List.foldl_cons, List.reverse_cons, List.append_assoc, List.singleton_append]
    exact (ih _).trans (List.Perm.append_left _ (insertDesc_perm x acc))

theorem sortDesc_perm (d : Dist κ) : (sortDesc d).Perm d := by
  have := foldl_insertDesc_perm d []
  simp only [List.append_nil] at this
  exact this.trans (List.reverse_perm d)

theorem allPos_of_sublist {d e : Dist κ} (h : d.Sublist e) (he : AllPos e) : AllPos d :=
  fun p hp => he p (h.subset hp)

theorem allPos_of_perm {d e : Dist κ} (h : d.Perm e) (he : AllPos e) : AllPos d :=
  fun p hp => he p (h.subset hp)

theorem allPos_convolve (rnd : κ → κ) (thr : Option Rat) (maxIso : Option Nat) (d1 d2 : Dist κ)
    (h1 : AllPos d1) (h2 : AllPos d2) : AllPos (convolve rnd thr maxIso d1 d2) := by
  have hl : AllPos (convLoop rnd thr d1 d2 []) := allPos_convLoop rnd thr d1 d2 [] h1 h2 (fun _ h => nomatch h)
  simp only [convolve]
  cases maxIso with
  | none => exact hl
  | some n => exact allPos_of_sublist (List.take_sublist n _) (allPos_of_perm (sortDesc_perm _) hl)

theorem allPos_elementalFrom (floor : Option Rat) (isos : Dist κ) (n : Nat) (d : Dist κ)
    (hi : AllPos isos) (hd : AllPos d) : AllPos (elementalFrom floor isos n d) := by
  induction n generalizing d with
  | zero => exact hd
  | succ n ih => exact ih _ (allPos_convolve id floor none d isos hd hi)

end

/-! ### totals and first moments -/

theorem integral_const (d : Dist κ) (c : Rat) : integral d (fun _ => c) = c * integral d (fun _ => 1) := by
  have := integral_mul_left d c (fun _ => (1 : Rat))
  simpa using this

/-- total abundance -/
def total (d : Dist κ) : Rat := integral d (fun _ => 1)
/-- first moment `Σ mass · abundance` -/
def moment (d : Dist Rat) : Rat := integral d (fun k => k)

theorem total_eq_sumAb (d : Dist Rat) : total d = sumAb d := by
  induction d with
  | nil => rfl
  | cons p t ih =>
    obtain ⟨k, a⟩ := p
    have : total ((k, a) :: t) = a + total t := by simp [total]
    rw [this, ih]; simp [sumAb, List.sum_cons]

section
variable [DecidableEq κ] [Add κ]

theorem total_convolve (rnd : κ → κ) (thr : Option Rat) (d1 d2 : Dist κ) (hk : AllKept thr d1 d2) :
    total (convolve rnd thr none d1 d2) = total d1 * total d2 := by
  unfold total
  rw [integral_convolve rnd thr d1 d2 _ hk, integral_const]
  ring

theorem total_elementalFrom (isos : Dist κ) (n : Nat) (d : Dist κ) :
    total (elementalFrom none isos n d) = total d * total isos ^ n := by
  induction n generalizing d with
  | zero => simp [elementalFrom]
  | succ n ih =>
    simp only [elementalFrom]
    rw [ih, total_convolve id none d isos (allKept_none _ _)]
    ring

end

theorem moment_convolve (thr : Option Rat) (d1 d2 : Dist Rat) (hk : AllKept thr d1 d2) :
    moment (convolve id thr none d1 d2) = moment d1 * total d2 + total d1 * moment d2 := by
  unfold moment total
  rw [integral_convolve id thr d1 d2 _ hk]
  have h : ∀ k1 : Rat, integral d2 (fun k2 => id (k1 + k2)) =
      k1 * integral d2 (fun _ => 1) + integral d2 (fun k => k) := by
    intro k1
    simp only [id]
    rw [integral_add, integral_const]
  rw [integral_congr d1 _ (fun k1 => k1 * integral d2 (fun _ => 1) + integral d2 (fun k => k)) (fun p _ => h p.1),
      integral_add, integral_mul_right, integral_const d1 (integral d2 (fun k => k))]
  ring

theorem moment_elementalFrom (isos : Dist Rat) (n : Nat) (d : Dist Rat) (h1 : total isos = 1) :
    moment (elementalFrom none isos n d) = moment d + total d * (n * moment isos) := by
  induction n generalizing d with
  | zero => simp [elementalFrom]
  | succ n ih =>
    simp only [elementalFrom]
    rw [ih, moment_convolve none d isos (allKept_none _ _), total_convolve id none d isos (allKept_none _ _), h1]
    push_cast
    ring

/-! ### the element loop on resolved isotope lists -/

/-- the loop of `isotopic_distribution` once every element has been looked up -/
def convolveList (rnd : Rat → Rat) (thr : Option Rat) (maxIso : Option Nat) (floor : Option Rat) :
    List (Dist Rat × Nat) → Dist Rat → Dist Rat
  | [], d => d
  | (isos, n) :: t, d => convolveList rnd thr maxIso floor t (convolve rnd thr maxIso d (elemental floor isos n))

def isosOf (o : Opts) (e : PeptVerif.Gen.C14.Entry) : Dist Rat :=
  if o.useNeutronCount then offsetIsotopes e else massIsotopes e

/-- look every element up -/
def resolve (o : Opts) : List (Key × Int) → Option (List (Dist Rat × Nat))
  | [] => some []
  | (k, c) :: t =>
    match lookupEntry k, resolve o t with
    | some e, some r => some ((isosOf o e, c.toNat) :: r)
    | _, _ => none

theorem convolveAll_eq (o : Opts) (f : List (Key × Int)) (d : Dist Rat) (L : List (Dist Rat × Nat))
    (h : resolve o f = some L) :
    convolveAll o f d = .ok (convolveList (roundOpt o.resolution) (some (o.convMinAbundanceThreshold.getD 0))
      o.maxIsotopes o.floor L d) := by
  induction f generalizing d L with
  | nil => simp only [resolve, Option.some.injEq] at h; subst h; rfl
  | cons p t ih =>
    obtain ⟨k, c⟩ := p
    simp only [resolve] at h
    cases hk : lookupEntry k with
    | none => simp [hk] at h
    | some e =>
      cases hr : resolve o t with
      | none => simp [hk, hr] at h
      | some r =>
        simp only [hk, hr, Option.some.injEq] at h
        subst h
        simp only [convolveAll, hk, convolveList, isosOf]
        exact ih _ r hr

theorem convolveAll_ok (o : Opts) (f : List (Key × Int)) (d out : Dist Rat) (h : convolveAll o f d = .ok out) :
    ∃ L, resolve o f = some L := by
  induction f generalizing d with
  | nil => exact ⟨[], rfl⟩
  | cons p t ih =>
    obtain ⟨k, c⟩ := p
    simp only [convolveAll] at h
    cases hk : lookupEntry k with
    | none => simp [hk] at h
    | some e =>
      simp only [hk] at h
      obtain ⟨r, hr⟩ := ih _ h
      exact ⟨(isosOf o e, c.toNat) :: r, by simp [resolve, hk, hr]⟩

/-- every isotope list of the resolved formula has positive abundances -/
def ListPos (L : List (Dist Rat × Nat)) : Prop := ∀ x ∈ L, AllPos x.1

theorem allPos_convolveList (rnd : Rat → Rat) (thr : Option Rat) (maxIso : Option Nat) (floor : Option Rat)
    (L : List (Dist Rat × Nat)) (d : Dist Rat) (hL : ListPos L) (hd : AllPos d) :
    AllPos (convolveList rnd thr maxIso floor L d) := by
  induction L generalizing d with
  | nil => exact hd
  | cons x t ih =>
    obtain ⟨isos, n⟩ := x
    simp only [convolveList]
    apply ih _ (fun y hy => hL y (List.mem_cons_of_mem _ hy))
    apply allPos_convolve _ _ _ _ _ hd
    have hi : AllPos isos := hL (isos, n) (List.mem_cons_self ..)
    exact allPos_elementalFrom floor isos n _ hi (by intro p hp; simp at hp; subst hp; decide)

/-- product of the per-element totals -/
def totalProd : List (Dist Rat × Nat) → Rat
  | [] => 1
  | (isos, n) :: t => total isos ^ n * totalProd t

/-- `Σ count · Σ mass · abundance` -/
def momentSum : List (Dist Rat × Nat) → Rat
  | [] => 0
  | (isos, n) :: t => n * moment isos + momentSum t

theorem total_convolveList (rnd : Rat → Rat) (L : List (Dist Rat × Nat)) (d : Dist Rat) (hL : ListPos L) (hd : AllPos d) :
    total (convolveList rnd (some 0) none none L d) = total d * totalProd L := by
  induction L generalizing d with
  | nil => simp [convolveList, totalProd]
  | cons x t ih =>
    obtain ⟨isos, n⟩ := x
    have hi : AllPos isos := hL (isos, n) (List.mem_cons_self ..)
    have he : AllPos (elemental none isos n) :=
      allPos_elementalFrom none isos n _ hi (by intro p hp; simp at hp; subst hp; decide)
    simp only [convolveList, totalProd]
    rw [ih _ (fun y hy => hL y (List.mem_cons_of_mem _ hy)) (allPos_convolve _ _ _ _ _ hd he),
        total_convolve _ _ _ _ (allKept_zero _ _ hd he)]
    unfold elemental
    rw [total_elementalFrom]
    have : total [((0 : Rat), (1 : Rat))] = 1 := by simp [total]
    rw [this]; ring

theorem moment_convolveList (L : List (Dist Rat × Nat)) (d : Dist Rat) (hL : ListPos L) (hd : AllPos d)
    (h1 : ∀ x ∈ L, total x.1 = 1) :
    moment (convolveList id (some 0) none none L d) = moment d + total d * momentSum L := by
  induction L generalizing d with
  | nil => simp [convolveList, momentSum]
  | cons x t ih =>
    obtain ⟨isos, n⟩ := x
    have hi : AllPos isos := hL (isos, n) (List.mem_cons_self ..)
    have hT : total isos = 1 := h1 (isos, n) (List.mem_cons_self ..)
    have he : AllPos (elemental none isos n) :=
      allPos_elementalFrom none isos n _ hi (by intro p hp; simp at hp; subst hp; decide)
    have hte : total (elemental none isos n) = 1 := by
      unfold elemental; rw [total_elementalFrom, hT]; simp [total]
    have hme : moment (elemental none isos n) = n * moment isos := by
      unfold elemental; rw [moment_elementalFrom _ _ _ hT]; simp [total, moment]
    simp only [convolveList, momentSum]
    rw [ih _ (fun y hy => hL y (List.mem_cons_of_mem _ hy)) (allPos_convolve _ _ _ _ _ hd he)
          (fun y hy => h1 y (List.mem_cons_of_mem _ hy)),
        moment_convolve _ _ _ (allKept_zero _ _ hd he), total_convolve _ _ _ _ (allKept_zero _ _ hd he), hte, hme]
    ring

/-! ### after the element loop -/

def normalized (o : Opts) (total : Dist Rat) (mx : Rat) : Dist Rat :=
  ((sortByKey total).filter (fun p => decide (o.minAbundanceThreshold.getD 0 ≤ p.2 / mx))).map (fun p => (p.1, p.2 / mx))

/-- the key transformation applied after normalisation -/
def shiftFn (o : Opts) (particle delta fm : Rat) (x : Rat) : Rat :=
  let x1 := if delta ≠ 0 then
      (if !o.useNeutronCount then x + delta else if o.outputMassesForNeutronOffset then x + delta else x) else x
  let x2 := if o.outputMassesForNeutronOffset && o.useNeutronCount then fm + x1 * o.neutronMass else x1
  if particle ≠ 0 && (!o.useNeutronCount || o.outputMassesForNeutronOffset) then x2 + particle else x2

theorem finishDistribution_eq (o : Opts) (total : Dist Rat) (particle delta fm : Rat) :
    finishDistribution o total particle delta fm =
      match maxAb total with
      | none => .error .valueError
      | some mx => if mx = 0 then .error .zeroDiv else
          scaleAbundances ((normalized o total mx).map (fun p => (shiftFn o particle delta fm p.1, p.2)))
            o.distributionAbundance o.isAbundanceSum o.precision := by
  unfold finishDistribution
  cases hm : maxAb total with
  | none => rfl
  | some mx =>
    simp only []
    split
    · rfl
    · congr 1
      unfold shiftFn normalized
      by_cases hd : delta ≠ 0 <;> by_cases hp : particle ≠ 0 <;> cases o.useNeutronCount <;> cases o.outputMassesForNeutronOffset <;>
        simp [hd, hp, List.map_map, Function.comp_def]

theorem maxAb_eq_none (d : Dist Rat) (h : maxAb d = none) : d = [] := by
  cases d with
  | nil => rfl
  | cons p t =>
    obtain ⟨k, a⟩ := p
    simp only [maxAb] at h
    cases hm : maxAb t <;> simp [hm] at h

theorem maxAb_spec (d : Dist Rat) (mx : Rat) (h : maxAb d = some mx) : (∃ p ∈ d, p.2 = mx) ∧ ∀ p ∈ d, p.2 ≤ mx := by
  induction d generalizing mx with
  | nil => simp [maxAb] at h
  | cons p t ih =>
    obtain ⟨k, a⟩ := p
    simp only [maxAb] at h
    cases hm : maxAb t with
    | none =>
      simp only [hm, Option.some.injEq] at h
      subst h
      have := maxAb_eq_none t hm
      subst this
      exact ⟨⟨(k, a), List.mem_cons_self .., rfl⟩, by intro p hp; simp at hp; subst hp; exact le_refl _⟩
    | some m =>
      simp only [hm, Option.some.injEq] at h
      obtain ⟨⟨q, hq, hqm⟩, hall⟩ := ih m hm
      by_cases hlt : m < a
      · simp only [hlt, if_true] at h
        subst h
        refine ⟨⟨(k, a), List.mem_cons_self .., rfl⟩, ?_⟩
        intro p hp
        rcases List.mem_cons.1 hp with h1 | h1
        · subst h1; exact le_refl _
        · exact le_of_lt (lt_of_le_of_lt (hall p h1) hlt)
      · simp only [hlt, if_false] at h
        subst h
        refine ⟨⟨q, List.mem_cons_of_mem _ hq, hqm⟩, ?_⟩
        intro p hp
        rcases List.mem_cons.1 hp with h1 | h1
        · subst h1; exact not_lt.1 hlt
        · exact hall p h1

theorem sortByKey_perm (d : Dist Rat) : (sortByKey d).Perm d := List.mergeSort_perm _ _

theorem sortByKey_sorted (d : Dist Rat) : (sortByKey d).Pairwise (fun a b => a.1 ≤ b.1) := by
  have := List.pairwise_mergeSort (le := fun (a b : Rat × Rat) => decide (a.1 ≤ b.1))
    (by intro a b c hab hbc; simp only [decide_eq_true_eq] at *; exact le_trans hab hbc)
    (by intro a b; simp only [Bool.or_eq_true, decide_eq_true_eq]; exact le_total _ _) d
  simpa [sortByKey] using this

/-- keys are pairwise distinct (a Python dict) -/
def NodupKeys (d : Dist κ) : Prop := (d.map (·.1)).Nodup

theorem sortByKey_strict (d : Dist Rat) (hn : NodupKeys d) : (sortByKey d).Pairwise (fun a b => a.1 < b.1) := by
  have hs := sortByKey_sorted d
  have hnd : ((sortByKey d).map (·.1)).Nodup := ((sortByKey_perm d).map _).nodup_iff.2 hn
  have hne : (sortByKey d).Pairwise (fun a b => a.1 ≠ b.1) := by
    simpa [List.Nodup, List.pairwise_map] using hnd
  exact (hs.and hne).imp (fun h => lt_of_le_of_ne h.1 h.2)

section
variable [DecidableEq κ] [Add κ]

theorem nodupKeys_convRow (rnd : κ → κ) (thr : Option Rat) (m1 : κ) (a1 : Rat) (d2 acc : Dist κ) (h : NodupKeys acc) :
    NodupKeys (convRow rnd thr m1 a1 d2 acc) := by
  induction d2 generalizing acc with
  | nil => simpa [convRow] using h
  | cons p t ih =>
    obtain ⟨m2, a2⟩ := p
    simp only [convRow]
    apply ih
    split
    · exact nodup_keys_addKey _ _ _ h
    · exact h

theorem nodupKeys_convLoop (rnd : κ → κ) (thr : Option Rat) (d1 d2 acc : Dist κ) (h : NodupKeys acc) :
    NodupKeys (convLoop rnd thr d1 d2 acc) := by
  induction d1 generalizing acc with
  | nil => simpa [convLoop] using h
  | cons p t ih =>
    obtain ⟨m1, a1⟩ := p
    simp only [convLoop]
    exact ih _ (nodupKeys_convRow rnd thr m1 a1 d2 acc h)

theorem nodupKeys_convolve (rnd : κ → κ) (thr : Option Rat) (maxIso : Option Nat) (d1 d2 : Dist κ) :
    NodupKeys (convolve rnd thr maxIso d1 d2) := by
  have hl : NodupKeys (convLoop rnd thr d1 d2 []) := nodupKeys_convLoop rnd thr d1 d2 [] List.nodup_nil
  simp only [convolve]
  cases maxIso with
  | none => exact hl
  | some n =>
    have hp : NodupKeys (sortDesc (convLoop rnd thr d1 d2 [])) := ((sortDesc_perm _).map _).nodup_iff.2 hl
    exact List.Nodup.sublist ((List.take_sublist n _).map _) hp

end

theorem nodupKeys_convolveList (rnd : Rat → Rat) (thr : Option Rat) (maxIso : Option Nat) (floor : Option Rat)
    (L : List (Dist Rat × Nat)) (d : Dist Rat) (hd : NodupKeys d) : NodupKeys (convolveList rnd thr maxIso floor L d) := by
  induction L generalizing d with
  | nil => exact hd
  | cons x t ih => obtain ⟨isos, n⟩ := x; exact ih _ (nodupKeys_convolve _ _ _ _ _)

/-! `_scale_isotope_abundances` -/

theorem scaleAbundances_sum (d out : Dist Rat) (a : Rat)
    (h : scaleAbundances d a true none = .ok out) (hne : out ≠ []) : sumAb out = a := by
  unfold scaleAbundances at h
  simp only [if_true] at h
  by_cases ht : sumAb d = 0
  · simp only [ht, if_true] at h
    cases d with
    | nil => simp [Except.map] at h; exact absurd h hne
    | cons p t => simp [Except.map] at h
  · simp only [ht, if_false, Except.map, Except.ok.injEq] at h
    subst h
    have hT : sumAb d = integral d (fun _ => 1) := (total_eq_sumAb d).symm
    rw [← total_eq_sumAb]
    unfold total
    rw [integral_scale, integral_div, hT]
    rw [hT] at ht
    field_simp

theorem scaleAbundances_max (d out : Dist Rat) (a : Rat) (h : scaleAbundances d a false none = .ok out) :
    out = d.map (fun p => (p.1, p.2 * a)) := by
  unfold scaleAbundances at h
  simp [Except.map] at h
  exact h.symm

theorem scaleAbundances_keys (d out : Dist Rat) (a : Rat) (s : Bool)
    (h : scaleAbundances d a s none = .ok out) : out.map (·.1) = d.map (·.1) := by
  unfold scaleAbundances at h
  cases s
  · simp [Except.map] at h; subst h; simp [List.map_map, Function.comp_def]
  · simp only [if_true] at h
    by_cases ht : sumAb d = 0
    · simp only [ht, if_true] at h
      cases d with
      | nil => simp [Except.map] at h; subst h; rfl
      | cons p t => simp [Except.map] at h
    · simp only [ht, if_false, Except.map, Except.ok.injEq] at h
      subst h; simp [List.map_map, Function.comp_def]

/-! ### `rawDistribution` and the generated table -/
open PeptVerif.Gen.C14 in
section
open PeptVerif.Gen.C14
def cleanFormula (f : Formula) : List (Key × Int) :=
  ((popCount (popCount (popCount f eKey).2 pKey).2 nKey).2.filter (fun p => p.2.val ≠ 0)).map (fun p => (p.1, p.2.round))

def particleOf (f : Formula) : Rat :=
  (popCount (popCount f eKey).2 pKey).1 * protonMass + (popCount (popCount (popCount f eKey).2 pKey).2 nKey).1 * neutronMass
    + (popCount f eKey).1 * electronMass

theorem rawDistribution_ok (f : Formula) (o : Opts) (t : Dist Rat) (p d m : Rat)
    (h : rawDistribution f o = .ok (t, p, d, m)) :
    ∃ L, resolve o (cleanFormula f) = some L ∧
      t = convolveList (roundOpt o.resolution) (some (o.convMinAbundanceThreshold.getD 0)) o.maxIsotopes o.floor L [((0 : Rat), 1)] ∧
      p = particleOf f := by
  unfold rawDistribution at h
  simp only [] at h
  split at h
  · cases h
  · split at h
    · cases h
    · cases h
    · split at h
      · cases h
      · next total hc =>
        simp only [Except.ok.injEq, Prod.mk.injEq] at h
        obtain ⟨L, hL⟩ := convolveAll_ok _ _ _ _ hc
        refine ⟨L, hL, ?_, ?_⟩
        · have := convolveAll_eq o _ [((0 : Rat), 1)] L hL
          rw [this] at hc
          simp only [Except.ok.injEq] at hc
          rw [← h.1, ← hc]
        · exact h.2.1.symm

theorem table_pos : ∀ e ∈ table, ∀ i ∈ e.2.2, 0 < i.2.2 := by decide +kernel


theorem lookupEntry_mem (k : Key) (e : Entry) (h : lookupEntry k = some e) : e ∈ table :=
  List.mem_of_find?_eq_some h

theorem abOf_pos (n : Nat) (h : 0 < n) : 0 < abOf n := by
  unfold abOf
  apply div_pos
  · exact_mod_cast h
  · unfold abScale; norm_num

theorem allPos_isosOf (o : Opts) (e : Entry) (he : e ∈ table) : AllPos (isosOf o e) := by
  unfold isosOf
  split
  · unfold offsetIsotopes
    split
    · intro p hp; simp at hp
    · next i0 t heq =>
      intro p hp
      simp only [List.mem_map] at hp
      obtain ⟨i, hi, rfl⟩ := hp
      exact abOf_pos _ (table_pos e he i (by rw [heq]; exact hi))
  · unfold massIsotopes
    intro p hp
    simp only [List.mem_map] at hp
    obtain ⟨i, hi, rfl⟩ := hp
    exact abOf_pos _ (table_pos e he i hi)

theorem listPos_of_resolve (o : Opts) (f : List (Key × Int)) (L : List (Dist Rat × Nat)) (h : resolve o f = some L) :
    ListPos L := by
  induction f generalizing L with
  | nil => simp only [resolve, Option.some.injEq] at h; subst h; intro x hx; simp at hx
  | cons p t ih =>
    obtain ⟨k, c⟩ := p
    simp only [resolve] at h
    cases hk : lookupEntry k with
    | none => simp [hk] at h
    | some e =>
      cases hr : resolve o t with
      | none => simp [hk, hr] at h
      | some r =>
        simp only [hk, hr, Option.some.injEq] at h
        subst h
        intro x hx
        rcases List.mem_cons.1 hx with h1 | h1
        · subst h1; exact allPos_isosOf o e (lookupEntry_mem k e hk)
        · exact ih r hr x h1

end

theorem allPos_start : AllPos [((0 : Rat), (1 : Rat))] := by
  intro p hp; simp at hp; subst hp; decide

theorem shiftFn_strictMono (o : Opts) (particle delta fm : Rat) (hn : 0 < o.neutronMass) (x y : Rat) (h : x < y) :
    shiftFn o particle delta fm x < shiftFn o particle delta fm y := by
  have hm : x * o.neutronMass < y * o.neutronMass := mul_lt_mul_of_pos_right h hn
  have hm' : (x + delta) * o.neutronMass < (y + delta) * o.neutronMass :=
    mul_lt_mul_of_pos_right (by linarith) hn
  unfold shiftFn
  simp only []
  split_ifs <;> linarith

/-- shared first step: a successful run factors through the element loop on resolved isotope lists -/
theorem run_ok (f : Formula) (o : Opts) (out : Dist Rat) (h : isotopicDistribution f o = .ok out) :
    ∃ L particle delta fm,
      resolve o (cleanFormula f) = some L ∧
      finishDistribution o (convolveList (roundOpt o.resolution) (some (o.convMinAbundanceThreshold.getD 0))
        o.maxIsotopes o.floor L [((0 : Rat), 1)]) particle delta fm = .ok out := by
  unfold isotopicDistribution at h
  split at h
  · cases h
  · next t p d m hraw =>
    obtain ⟨L, hL, ht, _⟩ := rawDistribution_ok f o t p d m hraw
    exact ⟨L, p, d, m, hL, ht ▸ h⟩

/-- second step: after normalisation the pattern is `scaleAbundances` of the shifted, normalised, sorted list -/
theorem finish_ok (o : Opts) (t : Dist Rat) (p d m : Rat) (out : Dist Rat)
    (h : finishDistribution o t p d m = .ok out) :
    ∃ mx, maxAb t = some mx ∧ mx ≠ 0 ∧
      scaleAbundances ((normalized o t mx).map (fun q => (shiftFn o p d m q.1, q.2)))
        o.distributionAbundance o.isAbundanceSum o.precision = .ok out := by
  rw [finishDistribution_eq] at h
  split at h
  · cases h
  · next mx hm =>
    by_cases h0 : mx = 0
    · simp [h0] at h
    · simp only [h0, if_false] at h
      exact ⟨mx, hm, h0, h⟩


/-! ### lightest peak -/

/-- `m` is the smallest key of `d` -/
def IsMin (d : Dist Rat) (m : Rat) : Prop := (∃ p ∈ d, p.1 = m) ∧ ∀ p ∈ d, m ≤ p.1

theorem mem_keys_convRow (thr : Option Rat) (m1 a1 : Rat) (d2 acc : Dist Rat)
    (hk : ∀ p2 ∈ d2, keep thr (a1 * p2.2) = true) (x : Rat) :
    x ∈ (convRow id thr m1 a1 d2 acc).map (·.1) ↔ x ∈ acc.map (·.1) ∨ ∃ p2 ∈ d2, x = m1 + p2.1 := by
  induction d2 generalizing acc with
  | nil => simp [convRow]
  | cons p t ih =>
    obtain ⟨m2, a2⟩ := p
    simp only [convRow]
    rw [hk (m2, a2) (List.mem_cons_self ..)]
    simp only [if_true]
    rw [ih _ (fun q hq => hk q (List.mem_cons_of_mem _ hq)), mem_keys_addKey]
    simp only [id, List.mem_cons, exists_eq_or_imp]
    tauto

theorem mem_keys_convLoop (thr : Option Rat) (d1 d2 acc : Dist Rat) (hk : AllKept thr d1 d2) (x : Rat) :
    x ∈ (convLoop id thr d1 d2 acc).map (·.1) ↔
      x ∈ acc.map (·.1) ∨ ∃ p1 ∈ d1, ∃ p2 ∈ d2, x = p1.1 + p2.1 := by
  induction d1 generalizing acc with
  | nil => simp [convLoop]
  | cons p t ih =>
    obtain ⟨m1, a1⟩ := p
    simp only [convLoop]
    rw [ih _ (fun q hq => hk q (List.mem_cons_of_mem _ hq)),
        mem_keys_convRow thr m1 a1 d2 acc (fun q hq => hk (m1, a1) (List.mem_cons_self ..) q hq)]
    simp only [List.mem_cons, exists_eq_or_imp]
    exact or_assoc

theorem isMin_convolve (thr : Option Rat) (d1 d2 : Dist Rat) (m1 m2 : Rat) (hk : AllKept thr d1 d2)
    (h1 : IsMin d1 m1) (h2 : IsMin d2 m2) : IsMin (convolve id thr none d1 d2) (m1 + m2) := by
  obtain ⟨⟨p1, hp1, e1⟩, l1⟩ := h1
  obtain ⟨⟨p2, hp2, e2⟩, l2⟩ := h2
  have key := mem_keys_convLoop thr d1 d2 [] hk
  simp only [convolve]
  constructor
  · have : m1 + m2 ∈ (convLoop id thr d1 d2 []).map (·.1) :=
      (key _).2 (Or.inr ⟨p1, hp1, p2, hp2, by rw [e1, e2]⟩)
    obtain ⟨q, hq, hqe⟩ := List.mem_map.1 this
    exact ⟨q, hq, hqe⟩
  · intro q hq
    have : q.1 ∈ (convLoop id thr d1 d2 []).map (·.1) := List.mem_map.2 ⟨q, hq, rfl⟩
    rcases (key _).1 this with h | ⟨r1, hr1, r2, hr2, e⟩
    · simp at h
    · rw [e]; exact add_le_add (l1 r1 hr1) (l2 r2 hr2)

theorem isMin_elementalFrom (isos : Dist Rat) (mi : Rat) (hi : IsMin isos mi) (n : Nat) (d : Dist Rat) (m : Rat)
    (hd : IsMin d m) : IsMin (elementalFrom none isos n d) (m + n * mi) := by
  induction n generalizing d m with
  | zero => simpa [elementalFrom] using hd
  | succ n ih =>
    simp only [elementalFrom]
    have := ih _ _ (isMin_convolve none d isos m mi (allKept_none _ _) hd hi)
    have e : m + mi + (n : Rat) * mi = m + ((n + 1 : Nat) : Rat) * mi := by push_cast; ring
    rwa [e] at this

/-- `Σ count · (lightest isotope mass)` -/
def lightSum : List (Dist Rat × Nat) → (Dist Rat → Rat) → Rat
  | [], _ => 0
  | (isos, n) :: t, μ => n * μ isos + lightSum t μ

theorem isMin_convolveList (μ : Dist Rat → Rat) (L : List (Dist Rat × Nat)) (d : Dist Rat) (m : Rat)
    (hL : ListPos L) (hμ : ∀ x ∈ L, IsMin x.1 (μ x.1)) (hd : AllPos d) (hm : IsMin d m) :
    IsMin (convolveList id (some 0) none none L d) (m + lightSum L μ) := by
  induction L generalizing d m with
  | nil => simpa [convolveList, lightSum] using hm
  | cons x t ih =>
    obtain ⟨isos, n⟩ := x
    have hi : AllPos isos := hL (isos, n) (List.mem_cons_self ..)
    have he : AllPos (elemental none isos n) := allPos_elementalFrom none isos n _ hi allPos_start
    have hme : IsMin (elemental none isos n) (n * μ isos) := by
      have := isMin_elementalFrom isos (μ isos) (hμ (isos, n) (List.mem_cons_self ..)) n [((0 : Rat), 1)] 0
        ⟨⟨(0, 1), List.mem_cons_self .., rfl⟩, by intro p hp; simp at hp; subst hp; exact le_refl _⟩
      simpa [elemental] using this
    simp only [convolveList, lightSum]
    have := ih _ _ (fun y hy => hL y (List.mem_cons_of_mem _ hy)) (fun y hy => hμ y (List.mem_cons_of_mem _ hy))
      (allPos_convolve _ _ _ _ _ hd he) (isMin_convolve _ _ _ _ _ (allKept_zero _ _ hd he) hm hme)
    have e : m + ↑n * μ isos + lightSum t μ = m + (↑n * μ isos + lightSum t μ) := by ring
    rwa [e] at this

/-! ### push-forward and merge -/
section
variable [DecidableEq κ]

/-- re-key a distribution and merge equal keys (binning) -/
def pushforward {κ₂ : Type} [DecidableEq κ₂] (f : κ → κ₂) (d : Dist κ) : Dist κ₂ :=
  d.foldl (fun acc p => addKey acc (f p.1) p.2) []

theorem integral_foldl_addKey {κ₂ : Type} [DecidableEq κ₂] (f : κ → κ₂) (d : Dist κ) (acc : Dist κ₂) (g : κ₂ → Rat) :
    integral (d.foldl (fun acc p => addKey acc (f p.1) p.2) acc) g = integral acc g + integral d (fun k => g (f k)) := by
  induction d generalizing acc with
  | nil => simp
  | cons p t ih => obtain ⟨k, a⟩ := p; simp only [List.foldl_cons, ih, integral_addKey, integral_cons]; ring

theorem integral_pushforward {κ₂ : Type} [DecidableEq κ₂] (f : κ → κ₂) (d : Dist κ) (g : κ₂ → Rat) :
    integral (pushforward f d) g = integral d (fun k => g (f k)) := by
  unfold pushforward; rw [integral_foldl_addKey]; simp

end

theorem integral_mergeInto (d acc : Dist Rat) (g : Rat → Rat) :
    integral (mergeInto none d acc) g = integral acc g + integral d g := by
  induction d generalizing acc with
  | nil => simp [mergeInto]
  | cons p t ih =>
    obtain ⟨k, a⟩ := p
    simp only [mergeInto, roundOpt, ih, integral_addKey, integral_cons]; ring

/-- sum of the integrals of several distributions -/
def sumIntegrals (ds : List (Dist Rat)) (g : Rat → Rat) : Rat := (ds.map (fun d => integral d g)).sum

theorem integral_mergeLoop (ds : List (Dist Rat)) (acc : Dist Rat) (g : Rat → Rat) :
    integral (mergeLoop none ds acc) g = integral acc g + sumIntegrals ds g := by
  induction ds generalizing acc with
  | nil => simp [mergeLoop, sumIntegrals]
  | cons d t ih =>
    simp only [mergeLoop, ih, integral_mergeInto, sumIntegrals, List.map_cons, List.sum_cons]; ring

/-- the scaling step multiplies every integral by one constant -/
theorem scale_const (d out : Dist Rat) (a : Rat) (s : Bool) (h : scaleAbundances d a s none = .ok out) :
    ∃ c : Rat, ∀ g : Rat → Rat, integral out g = c * integral d g := by
  cases s with
  | false =>
    have := scaleAbundances_max d out a h
    subst this
    exact ⟨a, fun g => integral_scale d a g⟩
  | true =>
    unfold scaleAbundances at h
    simp only [if_true] at h
    by_cases ht : sumAb d = 0
    · simp only [ht, if_true] at h
      cases d with
      | nil => simp [Except.map] at h; subst h; exact ⟨0, fun g => by simp⟩
      | cons q r => simp [Except.map] at h
    · simp only [ht, if_false, Except.map, Except.ok.injEq] at h
      subst h
      refine ⟨a / sumAb d, fun g => ?_⟩
      rw [integral_scale, integral_div]; ring


open PeptVerif.Gen.C14 in
theorem resolve_mem (o : Opts) (f : List (Key × Int)) (L : List (Dist Rat × Nat)) (h : resolve o f = some L) :
    ∀ x ∈ L, ∃ q ∈ f, ∃ e, lookupEntry q.1 = some e ∧ x.1 = isosOf o e := by
  induction f generalizing L with
  | nil => simp only [resolve, Option.some.injEq] at h; subst h; intro x hx; simp at hx
  | cons q t ih =>
    obtain ⟨k, c⟩ := q
    simp only [resolve] at h
    cases hk : lookupEntry k with
    | none => simp [hk] at h
    | some e =>
      cases hr : resolve o t with
      | none => simp [hk, hr] at h
      | some r =>
        simp only [hk, hr, Option.some.injEq] at h
        subst h
        intro x hx
        rcases List.mem_cons.1 hx with h1 | h1
        · subst h1; exact ⟨(k, c), List.mem_cons_self .., e, hk, rfl⟩
        · obtain ⟨q, hq, e', he', hx'⟩ := ih r hr x h1
          exact ⟨q, List.mem_cons_of_mem _ hq, e', he', hx'⟩

open PeptVerif.Gen.C14 in
theorem total_massIsotopes (e : Entry) :
    total (massIsotopes e) = ((e.2.2.map (·.2.2)).sum : Nat) / (abScale : Rat) := by
  unfold massIsotopes
  induction e.2.2 with
  | nil => simp [total]
  | cons i t ih =>
    have : total (List.map (fun i => (massOf i.2.1, abOf i.2.2)) (i :: t)) =
        abOf i.2.2 + total (List.map (fun i => (massOf i.2.1, abOf i.2.2)) t) := by simp [total]
    rw [this, ih]
    simp only [List.map_cons, List.sum_cons, abOf]
    push_cast; ring


theorem sumAb_pos (d : Dist Rat) (hpos : AllPos d) (hne : d ≠ []) : 0 < sumAb d := by
  induction d with
  | nil => exact absurd rfl hne
  | cons q t ih =>
    obtain ⟨k, a⟩ := q
    have ha : 0 < a := hpos (k, a) (List.mem_cons_self ..)
    have ht : AllPos t := fun p hp => hpos p (List.mem_cons_of_mem _ hp)
    have : sumAb ((k, a) :: t) = a + sumAb t := by simp [sumAb, List.sum_cons]
    rw [this]
    cases t with
    | nil => simp [sumAb]; exact ha
    | cons r s => have := ih ht (by simp); linarith


/-! ### top-k and threshold -/

theorem insertDesc_sorted {κ : Type} [DecidableEq κ] [Add κ] (x : κ × Rat) (d : Dist κ) (h : d.Pairwise (fun a b => b.2 ≤ a.2)) :
    (insertDesc x d).Pairwise (fun a b => b.2 ≤ a.2) := by
  induction d with
  | nil => simp [insertDesc]
  | cons y t ih =>
    simp only [insertDesc]
    rw [List.pairwise_cons] at h
    split
    · next hlt =>
      refine List.pairwise_cons.2 ⟨?_, List.pairwise_cons.2 h⟩
      intro z hz
      rcases List.mem_cons.1 hz with rfl | hz
      · exact le_of_lt hlt
      · exact le_trans (h.1 z hz) (le_of_lt hlt)
    · next hge =>
      refine List.pairwise_cons.2 ⟨?_, ih h.2⟩
      intro z hz
      have hz' : z ∈ x :: t := (insertDesc_perm x t).mem_iff.1 hz
      rcases List.mem_cons.1 hz' with h1 | h1
      · rw [h1]; exact not_lt.1 hge
      · exact h.1 z h1

theorem sortDesc_sorted {κ : Type} [DecidableEq κ] [Add κ] (d : Dist κ) : (sortDesc d).Pairwise (fun a b => b.2 ≤ a.2) := by
  unfold sortDesc
  suffices ∀ acc : Dist κ, acc.Pairwise (fun a b => b.2 ≤ a.2) →
      (d.foldl (fun acc x => insertDesc x acc) acc).Pairwise (fun a b => b.2 ≤ a.2) from this [] List.Pairwise.nil
  induction d with
  | nil => intro acc h; simpa using h
  | cons x t ih => intro acc h; simp only [List.foldl_cons]; exact ih _ (insertDesc_sorted x acc h)


open PeptVerif.Gen.C14 in
theorem convolveAll_threshold_irrelevant (o : Opts) (f : List (Key × Int)) (d : Dist Rat) :
    convolveAll { o with minAbundanceThreshold := none } f d = convolveAll o f d := by
  induction f generalizing d with
  | nil => rfl
  | cons q t ih =>
    obtain ⟨k, c⟩ := q
    simp only [convolveAll]
    cases lookupEntry k with
    | none => rfl
    | some e => exact ih _

open PeptVerif.Gen.C14 in
theorem rawDistribution_threshold_irrelevant (f : Formula) (o : Opts) :
    rawDistribution f { o with minAbundanceThreshold := none } = rawDistribution f o := by
  unfold rawDistribution
  simp only [convolveAll_threshold_irrelevant]


end Isotope
