import PeptVerif.Model.Score
import PeptVerif.Spec.Score
/-! Helper lemmas for C17 (two-pointer sweep). Core only so far. -/
namespace Score
variable {α : Type}

/-- advance = start + length of the maximal p-prefix of the remaining list -/
theorem advance_eq (p : α → Bool) (ys : List α) (i : Nat) :
    advance p ys i = i + ((ys.drop i).takeWhile p).length := by
  fun_induction advance p ys i with
  | case1 i y h hp ih =>
    rw [ih]
    have hlt : i < ys.length := (List.getElem?_eq_some_iff.mp h).1
    have hy : ys[i] = y := (List.getElem?_eq_some_iff.mp h).2
    rw [List.drop_eq_getElem_cons hlt, hy, List.takeWhile_cons, if_pos hp]
    simp; omega
  | case2 i y h hp =>
    have hlt : i < ys.length := (List.getElem?_eq_some_iff.mp h).1
    have hy : ys[i] = y := (List.getElem?_eq_some_iff.mp h).2
    rw [List.drop_eq_getElem_cons hlt, hy, List.takeWhile_cons, if_neg hp]
    simp
  | case3 i h =>
    have : ys.length ≤ i := List.getElem?_eq_none_iff.mp h
    simp [List.drop_eq_nil_of_le this]

theorem takeWhile_drop_len (p : α → Bool) (l : List α) (i : Nat) (h : i ≤ (l.takeWhile p).length) :
    ((l.drop i).takeWhile p).length = (l.takeWhile p).length - i := by
  induction l generalizing i with
  | nil => simp
  | cons a l ih =>
    cases i with
    | zero => simp
    | succ i =>
      by_cases hp : p a
      · simp [List.takeWhile_cons, hp] at h ⊢
        rw [ih i (by omega)]
      · simp [List.takeWhile_cons, hp] at h

theorem takeWhile_len_mono (p q : α → Bool) (l : List α) (hpq : ∀ y, p y = true → q y = true) :
    (l.takeWhile p).length ≤ (l.takeWhile q).length := by
  induction l with
  | nil => simp
  | cons a l ih =>
    by_cases hp : p a
    · simp [List.takeWhile_cons, hp, hpq a hp]; exact ih
    · simp [List.takeWhile_cons, hp]

theorem takeWhile_len_le (p : α → Bool) (l : List α) : (l.takeWhile p).length ≤ l.length := by
  induction l with
  | nil => simp
  | cons a l ih => by_cases hp : p a <;> simp [List.takeWhile_cons, hp] ; omega

/-- the window computed by prefix lengths: skip the maximal `below` prefix, then take the maximal
`within` prefix of the rest -/
def windowTW (below within : α → α → Bool) (ys : List α) (x : α) : Option (Nat × Nat) :=
  let s := (ys.takeWhile (fun y => below y x)).length
  let m := ((ys.drop s).takeWhile (fun y => within y x)).length
  if m = 0 then none else some (s, s + m)

end Score
