import PeptVerif.Model.Score
import PeptVerif.Spec.Score
import Mathlib.Order.Defs.LinearOrder
/-! Helper lemmas for C17 (two-pointer sweep, windows on sorted lists, arg-best, intensity fraction). -/
namespace Score
variable {α : Type}

/-- advance = start + length of the maximal p-prefix of the remaining list -/
theorem advance_eq (p : α → Bool) (ys : List α) (i : Nat) :
    advance p ys i = i + ((ys.drop i).takeWhile p).length := by
  fun_induction advance p ys i with
  | case1 i y h hp ih =>
    rw [ih]
    have hlt : i < ys.length := (List.getElem?_eq_some_iff.mp h).1
    have hy : ys[i] = y := (List.getElem?_eq_some_iff.mp h).2
    rw [List.drop_eq_getElem_cons hlt, hy, List.takeWhile_cons, if_pos hp]
    simp; omega
  | case2 i y h hp =>
    have hlt : i < ys.length := (List.getElem?_eq_some_iff.mp h).1
    have hy : ys[i] = y := (List.getElem?_eq_some_iff.mp h).2
    rw [List.drop_eq_getElem_cons hlt, hy, List.takeWhile_cons, if_neg hp]
    simp
  | case3 i h =>
    have : ys.length ≤ i := List.getElem?_eq_none_iff.mp h
    simp [List.drop_eq_nil_of_le this]

theorem takeWhile_drop_len (p : α → Bool) (l : List α) (i : Nat) (h : i ≤ (l.takeWhile p).length) :
    ((l.drop i).takeWhile p).length = (l.takeWhile p).length - i := by
  induction l generalizing i with
  | nil => simp
  | cons a l ih =>
    cases i with
    | zero => simp
    | succ i =>
      by_cases hp : p a
      · simp [hp] at h ⊢
        rw [ih i (by omega)]
      · simp [hp] at h

theorem takeWhile_len_mono (p q : α → Bool) (l : List α) (hpq : ∀ y, p y = true → q y = true) :
    (l.takeWhile p).length ≤ (l.takeWhile q).length := by
  induction l with
  | nil => simp
  | cons a l ih =>
    by_cases hp : p a
    · simp [hp, hpq a hp]; exact ih
    · simp [hp]

theorem takeWhile_len_le (p : α → Bool) (l : List α) : (l.takeWhile p).length ≤ l.length := by
  induction l with
  | nil => simp
  | cons a l ih => by_cases hp : p a <;> simp [hp] ; omega

/-- the window computed by prefix lengths: skip the maximal `below` prefix, then take the maximal
`within` prefix of the rest -/
def windowTW (below within : α → α → Bool) (ys : List α) (x : α) : Option (Nat × Nat) :=
  let s := (ys.takeWhile (fun y => below y x)).length
  let m := ((ys.drop s).takeWhile (fun y => within y x)).length
  if m = 0 then none else some (s, s + m)

/-! ### windows on sorted lists -/

theorem windowFrom_nil_of_forall (inWin : α → α → Bool) (x : α) (j : Nat) (l : List α)
    (h : ∀ y ∈ l, inWin y x = false) : windowFrom inWin x j l = [] := by
  induction l generalizing j with
  | nil => rfl
  | cons y l ih =>
    simp only [windowFrom, h y (by simp)]
    exact ih (j+1) (fun z hz => h z (by simp [hz]))

section
variable [LinearOrder α] (lo hi : α → α)

/-- on a sorted list all of whose elements are ≥ lo x, the brute-force window is the maximal `≤ hi x` prefix -/
theorem windowFrom_upper (x : α) (j : Nat) (l : List α) (hs : l.Pairwise (· ≤ ·)) (hlo : ∀ y ∈ l, lo x ≤ y) :
    windowFrom (fun y x => decide (lo x ≤ y) && decide (y ≤ hi x)) x j l
      = List.range' j (l.takeWhile (fun y => decide (y ≤ hi x))).length := by
  induction l generalizing j with
  | nil => simp [windowFrom]
  | cons y l ih =>
    rw [List.pairwise_cons] at hs
    have hy : lo x ≤ y := hlo y (by simp)
    by_cases hw : y ≤ hi x
    · simp only [windowFrom, hy, hw, decide_true, Bool.and_self, if_true, List.takeWhile_cons, List.length_cons]
      rw [ih (j+1) hs.2 (fun z hz => hlo z (by simp [hz]))]
      rw [List.range'_succ]
    · have : windowFrom (fun y x => decide (lo x ≤ y) && decide (y ≤ hi x)) x (j+1) l = [] := by
        apply windowFrom_nil_of_forall
        intro z hz
        have : y ≤ z := hs.1 z hz
        have : ¬ z ≤ hi x := fun h => hw (le_trans this h)
        simp [this]
      simp [windowFrom, hw, this]

theorem windowTW_eq_window_aux (x : α) (j : Nat) (ys : List α) (hs : ys.Pairwise (· ≤ ·)) :
    windowFrom (fun y x => decide (lo x ≤ y) && decide (y ≤ hi x)) x j ys
      = List.range' (j + (ys.takeWhile (fun y => decide (y < lo x))).length)
          ((ys.drop (ys.takeWhile (fun y => decide (y < lo x))).length).takeWhile (fun y => decide (y ≤ hi x))).length := by
  induction ys generalizing j with
  | nil => simp [windowFrom]
  | cons y l ih =>
    by_cases hb : y < lo x
    · have hnl : ¬ lo x ≤ y := not_le.mpr hb
      rw [List.pairwise_cons] at hs
      simp only [windowFrom, hnl, decide_false, Bool.false_and, List.takeWhile_cons, hb, decide_true,
        if_true, List.length_cons, List.drop_succ_cons]
      rw [ih (j+1) hs.2]
      simp only [Bool.false_eq_true, if_false]
      congr 1
      omega
    · have hl : lo x ≤ y := not_lt.mp hb
      have h0 : (List.takeWhile (fun y => decide (y < lo x)) (y :: l)) = [] := by
        simp [hb]
      rw [h0]
      simp only [List.length_nil, List.drop_zero, Nat.add_zero]
      apply windowFrom_upper
      · exact hs
      · intro z hz
        rw [List.pairwise_cons] at hs
        rcases List.mem_cons.mp hz with rfl | hz
        · exact hl
        · exact le_trans hl (hs.1 z hz)
end

theorem idxList_windowTW (below within : α → α → Bool) (ys : List α) (x : α) :
    idxList (windowTW below within ys x)
      = List.range' (ys.takeWhile (fun y => below y x)).length
          ((ys.drop (ys.takeWhile (fun y => below y x)).length).takeWhile (fun y => within y x)).length := by
  unfold windowTW
  simp only
  split
  · rename_i h; rw [h]; rfl
  · simp [idxList]

theorem windowTW_none_iff (below within : α → α → Bool) (ys : List α) (x : α) :
    windowTW below within ys x = none ↔ idxList (windowTW below within ys x) = [] := by
  unfold windowTW
  simp only
  split
  · simp [idxList]
  · rename_i h
    simp only [idxList, reduceCtorEq, false_iff]
    intro hh
    have := congrArg List.length hh
    simp at this
    exact h (by rw [this]; rfl)

/-! ### the `Num Rat` instance unfolds to the field operations of ℚ -/
@[simp] theorem rat_sub (a b : Rat) : Num.sub a b = a - b := rfl
@[simp] theorem rat_add (a b : Rat) : Num.add a b = a + b := rfl
@[simp] theorem rat_mul (a b : Rat) : Num.mul a b = a * b := rfl
@[simp] theorem rat_div (a b : Rat) : Num.div a b = a / b := rfl
@[simp] theorem rat_lt (a b : Rat) : Num.lt a b = decide (a < b) := rfl
@[simp] theorem rat_le (a b : Rat) : Num.le a b = decide (a ≤ b) := rfl
@[simp] theorem rat_eq (a b : Rat) : Num.eq a b = decide (a = b) := rfl
@[simp] theorem rat_zero : (Num.zero : Rat) = 0 := rfl
@[simp] theorem rat_million : (Num.million : Rat) = 1000000 := rfl


/-! ### arg-best, mapM, slices -/
section
variable {β : Type}

/-- `argBestGo` for a strict weak order `lt'` ("strictly better"): the returned index is either the incoming
best (and nothing in `vs` beats it) or a position in `vs` whose element is beaten by nothing. -/
theorem argBestGo_spec (lt' : β → β → Prop) [DecidableRel lt']
    (irr : ∀ a, ¬ lt' a a) (tr : ∀ a b c, lt' a b → lt' b c → lt' a c)
    (ntr : ∀ a b c, ¬ lt' a b → ¬ lt' b c → ¬ lt' a c) :
    ∀ (vs : List β) (bi : Nat) (b : β) (i : Nat),
      (argBestGo (fun v b => decide (lt' v b)) bi b i vs = bi ∧ ∀ u ∈ vs, ¬ lt' u b) ∨
      (∃ h : argBestGo (fun v b => decide (lt' v b)) bi b i vs - i < vs.length,
          i ≤ argBestGo (fun v b => decide (lt' v b)) bi b i vs ∧
          ¬ lt' b (vs[argBestGo (fun v b => decide (lt' v b)) bi b i vs - i]) ∧
          ∀ u ∈ vs, ¬ lt' u (vs[argBestGo (fun v b => decide (lt' v b)) bi b i vs - i])) := by
  intro vs
  induction vs with
  | nil => intro bi b i; left; simp [argBestGo]
  | cons v vs ih =>
    intro bi b i
    by_cases hvb : lt' v b
    · have e : argBestGo (fun v b => decide (lt' v b)) bi b i (v :: vs)
          = argBestGo (fun v b => decide (lt' v b)) i v (i+1) vs := by simp [argBestGo, hvb]
      rw [e]
      right
      rcases ih i v (i+1) with ⟨h1, h2⟩ | ⟨h, h1, h2, h3⟩
      · rw [h1]
        refine ⟨by simp, Nat.le_refl _, ?_, ?_⟩
        · simp only [Nat.sub_self, List.getElem_cons_zero]
          intro hbv; exact irr _ (tr _ _ _ hvb hbv)
        · intro u hu
          simp only [Nat.sub_self, List.getElem_cons_zero]
          rcases List.mem_cons.mp hu with rfl | hu
          · exact irr _
          · exact h2 u hu
      · have hlen : argBestGo (fun v b => decide (lt' v b)) i v (i+1) vs - i < (v :: vs).length := by
          simp only [List.length_cons]; omega
        have hidx : (v :: vs)[argBestGo (fun v b => decide (lt' v b)) i v (i+1) vs - i]'hlen
            = vs[argBestGo (fun v b => decide (lt' v b)) i v (i+1) vs - (i+1)] := by
          have : argBestGo (fun v b => decide (lt' v b)) i v (i+1) vs - i
              = (argBestGo (fun v b => decide (lt' v b)) i v (i+1) vs - (i+1)) + 1 := by omega
          simp only [this, List.getElem_cons_succ]
        refine ⟨hlen, by omega, ?_, ?_⟩
        · rw [hidx]
          intro hbw
          exact h2 (tr _ _ _ hvb hbw)
        · intro u hu
          rw [hidx]
          rcases List.mem_cons.mp hu with rfl | hu
          · exact h2
          · exact h3 u hu
    · have e : argBestGo (fun v b => decide (lt' v b)) bi b i (v :: vs)
          = argBestGo (fun v b => decide (lt' v b)) bi b (i+1) vs := by simp [argBestGo, hvb]
      rw [e]
      rcases ih bi b (i+1) with ⟨h1, h2⟩ | ⟨h, h1, h2, h3⟩
      · left
        refine ⟨h1, ?_⟩
        intro u hu
        rcases List.mem_cons.mp hu with rfl | hu
        · exact hvb
        · exact h2 u hu
      · right
        have hlen : argBestGo (fun v b => decide (lt' v b)) bi b (i+1) vs - i < (v :: vs).length := by
          simp only [List.length_cons]; omega
        have hidx : (v :: vs)[argBestGo (fun v b => decide (lt' v b)) bi b (i+1) vs - i]'hlen
            = vs[argBestGo (fun v b => decide (lt' v b)) bi b (i+1) vs - (i+1)] := by
          have : argBestGo (fun v b => decide (lt' v b)) bi b (i+1) vs - i
              = (argBestGo (fun v b => decide (lt' v b)) bi b (i+1) vs - (i+1)) + 1 := by omega
          simp only [this, List.getElem_cons_succ]
        refine ⟨hlen, by omega, ?_, ?_⟩
        · rw [hidx]; exact h2
        · intro u hu
          rw [hidx]
          rcases List.mem_cons.mp hu with rfl | hu
          · exact ntr _ _ _ hvb h2
          · exact h3 u hu

/-- `argBest` on a non-empty list returns a valid index whose element nothing beats -/
theorem argBest_spec (lt' : β → β → Prop) [DecidableRel lt']
    (irr : ∀ a, ¬ lt' a a) (tr : ∀ a b c, lt' a b → lt' b c → lt' a c)
    (ntr : ∀ a b c, ¬ lt' a b → ¬ lt' b c → ¬ lt' a c) (l : List β) (hl : l ≠ []) :
    ∃ r, argBest (fun v b => decide (lt' v b)) l = some r ∧ ∃ h : r < l.length, ∀ u ∈ l, ¬ lt' u l[r] := by
  cases l with
  | nil => exact absurd rfl hl
  | cons v vs =>
    refine ⟨_, rfl, ?_⟩
    rcases argBestGo_spec lt' irr tr ntr vs 0 v 1 with ⟨h1, h2⟩ | ⟨h, h1, h2, h3⟩
    · rw [h1]
      refine ⟨by simp, ?_⟩
      intro u hu
      simp only [List.getElem_cons_zero]
      rcases List.mem_cons.mp hu with rfl | hu
      · exact irr _
      · exact h2 u hu
    · have hlen : argBestGo (fun v b => decide (lt' v b)) 0 v 1 vs < (v :: vs).length := by
        simp only [List.length_cons]; omega
      have hidx : (v :: vs)[argBestGo (fun v b => decide (lt' v b)) 0 v 1 vs]'hlen
          = vs[argBestGo (fun v b => decide (lt' v b)) 0 v 1 vs - 1] := by
        have : argBestGo (fun v b => decide (lt' v b)) 0 v 1 vs
            = (argBestGo (fun v b => decide (lt' v b)) 0 v 1 vs - 1) + 1 := by omega
        rw [List.getElem_cons]
        split
        · omega
        · rfl
      refine ⟨hlen, ?_⟩
      intro u hu
      rw [hidx]
      rcases List.mem_cons.mp hu with rfl | hu
      · exact h2
      · exact h3 u hu

theorem mapM_ok {γ δ ε : Type} (f : γ → Except ε δ) (g : γ → δ) (l : List γ) (h : ∀ a ∈ l, f a = .ok (g a)) :
    l.mapM f = .ok (l.map g) := by
  induction l with
  | nil => rfl
  | cons a l ih =>
    rw [List.mapM_cons, h a (by simp), ih (fun b hb => h b (by simp [hb]))]
    rfl

theorem slice_length {γ : Type} (l : List γ) (s e : Nat) (he : e ≤ l.length) : (slice l s e).length = e - s := by
  simp [slice]; omega

theorem slice_getElem {γ : Type} (l : List γ) (s e i : Nat) (h : i < (slice l s e).length) :
    (slice l s e)[i] = l[s + i]'(by simp [slice] at h; omega) := by
  simp [slice]

end
end Score
